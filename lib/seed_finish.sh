#!/bin/bash
# seed_finish.sh <ID> <name> <detected-by text> — record detection, fix demo paths, drop scratch data
ID=$1; NAME=$2; TXT=$3
D=/verif/seeded/$NAME
sed -i "s#/tmp/seed[0-9]*_$ID/#/verif/seeded/$NAME/#g" $D/demo_cmd.txt $D/meta.json 2>/dev/null
python3 - "$D/meta.json" "$ID" "$TXT" <<'PY'
import json,sys
p,pid,txt=sys.argv[1:4]
m=json.load(open(p))
m['detected_by']={"check":"./check %s (quick)"%pid,"result":txt}
json.dump(m,open(p,'w'),indent=1)
PY
# scratch worktrees are removed by the caller when the property's agent is done
