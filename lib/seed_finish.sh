#!/bin/bash
# seed_finish.sh <ID> <name> <detected-by text> — record detection, fix demo paths, drop scratch data
ID=$1; NAME=$2; TXT=$3
D=/verif/seeded/$NAME
sed -i "s#/tmp/seed_$ID/#/verif/seeded/$NAME/#g" $D/demo_cmd.txt $D/meta.json 2>/dev/null
python3 - "$D/meta.json" "$ID" "$TXT" <<'PY'
import json,sys
p,pid,txt=sys.argv[1:4]
m=json.load(open(p))
m['detected_by']={"check":"./check %s (quick)"%pid,"result":txt}
json.dump(m,open(p,'w'),indent=1)
PY
git -C /repo worktree remove --force /tmp/mut_$ID 2>/dev/null; rm -rf /tmp/seed_$ID /tmp/mut_$ID /verif/seeded/_pending/$ID; git -C /repo worktree prune
