#!/bin/bash
# sweep_par.sh <workers> <listfile> — regression sweep over seeded changes, in parallel, WITHOUT touching
# /repo: worker k gets a scratch worktree /tmp/rsw$k of /repo and a scratch copy /tmp/vsw$k of /verif
# whose harness is built against that worktree (VERIF_REPO).  <listfile> has lines "seedname check-id...".
# Output: /verif/out/sweep.tsv (seed, check, exit code, summary line).  The registered checks are
# unaffected: without VERIF_REPO everything reads /repo.
K=$1; LIST=$2
mkdir -p /verif/out; : > /verif/out/sweep.tsv
worker() {
  k=$1
  git -C /repo worktree remove --force /tmp/rsw$k 2>/dev/null; rm -rf /tmp/rsw$k /tmp/vsw$k
  git -C /repo worktree add --detach /tmp/rsw$k HEAD >/dev/null 2>&1
  mkdir -p /tmp/vsw$k; rsync -a --exclude .git --exclude seeded --exclude out --exclude replays /verif/ /tmp/vsw$k/
  sed -i "s#=> /repo#=> /tmp/rsw$k#" /tmp/vsw$k/harness/go.mod
  export VERIF_REPO=/tmp/rsw$k VERIF_EVIDENCE_DIR=/tmp/vsw$k/evidence_sweep; mkdir -p $VERIF_EVIDENCE_DIR
  awk -v k=$k -v K=$K 'NR%K==k%K' $LIST | while read seed ids; do
    if ! git -C /tmp/rsw$k apply /verif/seeded/$seed/patch.diff 2>/dev/null; then echo -e "$seed\t-\tno-apply\t-" >> /verif/out/sweep.tsv; continue; fi
    for id in $ids; do
      /tmp/vsw$k/check $id --tier quick > /tmp/vsw$k/last.log 2>&1; rc=$?
      echo -e "$seed\t$id\t$rc\t$(grep -c VIOLATION /tmp/vsw$k/last.log) $(tail -1 /tmp/vsw$k/last.log | cut -c1-110)" >> /verif/out/sweep.tsv
      [ $rc -ne 0 ] && break
    done
    git -C /tmp/rsw$k checkout -- . ; git -C /tmp/rsw$k clean -fdq
  done
  git -C /repo worktree remove --force /tmp/rsw$k; rm -rf /tmp/vsw$k
}
for k in $(seq 1 $K); do worker $k & done
wait
git -C /repo worktree prune
sort /verif/out/sweep.tsv -o /verif/out/sweep.tsv
