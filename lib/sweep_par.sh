#!/bin/bash
# sweep_par.sh <workers> <listfile> [tag] — regression sweep over seeded changes, in parallel, WITHOUT touching
# /repo: worker k gets a scratch worktree /tmp/rsw$TAG$k of /repo and a scratch copy /tmp/vsw$TAG$k of /verif
# whose harness is built against that worktree (VERIF_REPO).  <listfile> has lines "seedname check-id...".
# Output: $OUT (seed, check, exit code, summary line).  The registered checks are
# unaffected: without VERIF_REPO everything reads /repo.
K=$1; LIST=$2; TAG=${3:-a}
OUT=/verif/out/sweep_$TAG.tsv
mkdir -p /verif/out; : > $OUT
worker() {
  k=$1
  git -C /repo worktree remove --force /tmp/rsw$TAG$k 2>/dev/null; rm -rf /tmp/rsw$TAG$k /tmp/vsw$TAG$k
  git -C /repo worktree add --detach /tmp/rsw$TAG$k HEAD >/dev/null 2>&1
  mkdir -p /tmp/vsw$TAG$k; rsync -a --exclude .git --exclude seeded --exclude out --exclude replays /verif/ /tmp/vsw$TAG$k/
  sed -i "s#=> /repo#=> /tmp/rsw$TAG$k#" /tmp/vsw$TAG$k/harness/go.mod
  export VERIF_REPO=/tmp/rsw$TAG$k VERIF_EVIDENCE_DIR=/tmp/vsw$TAG$k/evidence_sweep; mkdir -p $VERIF_EVIDENCE_DIR
  awk -v k=$k -v K=$K 'NR%K==k%K' $LIST | while read seed ids; do
    if ! git -C /tmp/rsw$TAG$k apply /verif/seeded/$seed/patch.diff 2>/dev/null; then echo -e "$seed\t-\tno-apply\t-" >> $OUT; continue; fi
    for id in $ids; do
      /tmp/vsw$TAG$k/check $id --tier quick > /tmp/vsw$TAG$k/last.log 2>&1; rc=$?
      echo -e "$seed\t$id\t$rc\t$(grep -c VIOLATION /tmp/vsw$TAG$k/last.log) $(tail -1 /tmp/vsw$TAG$k/last.log | cut -c1-110)" >> $OUT
      [ $rc -ne 0 ] && break
    done
    git -C /tmp/rsw$TAG$k checkout -- . ; git -C /tmp/rsw$TAG$k clean -fdq
  done
  git -C /repo worktree remove --force /tmp/rsw$TAG$k; rm -rf /tmp/vsw$TAG$k
}
for k in $(seq 1 $K); do worker $k & done
wait
git -C /repo worktree prune
sort $OUT -o $OUT
