#!/bin/bash
# mutant_run.sh <patch.diff> <property id>... — apply a seeded change to /repo transiently, run
# the quick checks, undo the change.  Evidence of these runs goes to a scratch directory.
P=$1; shift
git -C /repo apply "$P" || exit 2
export VERIF_EVIDENCE_DIR=$(mktemp -d /tmp/mutant_evidence.XXXX)
for id in "$@"; do /verif/check "$id" 2>&1 | tail -6; done
git -C /repo checkout -- .
rm -rf "$VERIF_EVIDENCE_DIR"
git -C /repo status --short
