#!/bin/bash
# seed_confirm.sh <property id> <seed dir under /tmp> <worktree> <name>
# Confirms a seeded defect in its scratch worktree (build ok, suite passes, demo fails with /
# passes without), then stores it under /verif/seeded/<name>/ and removes the worktree.
set -u
ID=$1; SD=$2; WT=$3; NAME=$4
export GOFLAGS=-mod=mod GOPROXY=off GOSUMDB=off GOTOOLCHAIN=local
cd "$WT" || exit 2
git checkout -q -- . 2>/dev/null
git apply "$SD/patch.diff" || { echo "patch does not apply"; exit 2; }
DEMO=$(cat "$SD/demo_cmd.txt" | grep -v '^#' | grep go1.26 | tail -1)
[ -z "$DEMO" ] && DEMO=$(tail -1 "$SD/demo_cmd.txt")
# make sure demo files are in place
for f in "$SD"/*_test.go; do [ -f "$f" ] || continue; done
echo "== build with change"; go1.26 build ./... && BUILD=ok || BUILD=fail
echo "== suite with change (demo files moved aside)"
mkdir -p /tmp/aside_$$; find . -name 'seeded_demo*_test.go' -exec mv {} /tmp/aside_$$/ \; 2>/dev/null
SUITE=fail
for try in 1 2 3; do
  out=$(go1.26 test -vet=off -count=1 ./... 2>&1 | grep -v "no test files")
  if ! echo "$out" | grep -q "^FAIL\|--- FAIL"; then SUITE=ok; break; fi
  echo "$out" | grep -- "--- FAIL" | head -3
done
# restore demo files to their package dirs (recorded in demo path list)
for f in /tmp/aside_$$/*; do [ -f "$f" ] || continue; d=$(grep -l "" /dev/null); done
git status --short | head -5
# put demo files back using the copy in SD and the package named in the demo command
PKG=$(echo "$DEMO" | grep -o '\./[a-z/]*' | tail -1)
cp "$SD"/*_test.go "$WT/$PKG/" 2>/dev/null
echo "== demo with change: $DEMO"
( eval "$DEMO" ) >/tmp/demo_with_$$.log 2>&1; RC_WITH=$?
git apply -R "$SD/patch.diff"
echo "== demo without change"
( eval "$DEMO" ) >/tmp/demo_without_$$.log 2>&1; RC_WITHOUT=$?
git apply "$SD/patch.diff"
echo "build=$BUILD suite=$SUITE demo_with_rc=$RC_WITH demo_without_rc=$RC_WITHOUT"
if [ "$BUILD" = ok ] && [ "$SUITE" = ok ] && [ $RC_WITH -ne 0 ] && [ $RC_WITHOUT -eq 0 ]; then
  D=/verif/seeded/$NAME; mkdir -p $D
  cp "$SD/patch.diff" $D/; cp "$SD"/*_test.go $D/ 2>/dev/null; cp "$SD/demo_cmd.txt" $D/
  python3 - "$SD/meta.json" "$D/meta.json" "$ID" "$DEMO" <<'PY'
import json,sys
src,dst,pid,demo=sys.argv[1:5]
try: m=json.load(open(src))
except Exception: m={}
m["property"]=pid
m["confirmed"]={"build_with_change":"ok","full_suite_with_change":"pass (go1.26 test -vet=off -count=1 ./..., demo file moved aside)","demo_with_change":"FAIL","demo_without_change":"PASS","demo_cmd":demo,"confirmed_by":"lib/seed_confirm.sh in the scratch worktree"}
json.dump(m,open(dst,"w"),indent=1)
PY
  echo "CONFIRMED -> $D"
else
  echo "NOT CONFIRMED"; tail -5 /tmp/demo_with_$$.log; tail -5 /tmp/demo_without_$$.log
fi
rm -rf /tmp/aside_$$ /tmp/demo_with_$$.log /tmp/demo_without_$$.log
