#!/bin/bash
# corpus_run.sh [name-prefix] — applies every seeded change in turn to /repo, runs the quick check of
# its property, reverts; writes out/corpus.tsv (name, property, applies, exit code, violations line).
cd /verif
OUT=/verif/out/corpus.tsv; : > $OUT
for d in seeded/${1:-}*/; do
  n=$(basename $d); id=$(python3 -c "import json;print(json.load(open('$d/meta.json'))['property'])")
  if ! git -C /repo apply --check /verif/$d/patch.diff 2>/dev/null; then echo -e "$n\t$id\tno-apply\t-\t-" >> $OUT; continue; fi
  git -C /repo apply /verif/$d/patch.diff
  export VERIF_EVIDENCE_DIR=$(mktemp -d /tmp/mutant_evidence.XXXX)
  /verif/check $id --tier quick > /tmp/corpus_$n.log 2>&1; rc=$?
  git -C /repo checkout -- .; rm -rf "$VERIF_EVIDENCE_DIR"
  echo -e "$n\t$id\tapplied\t$rc\t$(grep -c VIOLATION /tmp/corpus_$n.log) $(tail -1 /tmp/corpus_$n.log | cut -c1-120)" >> $OUT
  rm -f /tmp/corpus_$n.log
done
git -C /repo status --short >> $OUT
