#!/bin/bash
# seed_try.sh <ID> <seed dir> <worktree> <name> [check ids...] — confirm a seeded change in its scratch
# worktree, store it under seeded/<name>, then run the quick checks against it on /repo (apply, run, revert).
ID=$1; SD=$2; WT=$3; NAME=$4; shift 4
CHECKS=${@:-$ID}
/verif/lib/seed_confirm.sh $ID $SD $WT $NAME 2>&1 | tail -4
[ -d /verif/seeded/$NAME ] || exit 1
git -C /repo apply /verif/seeded/$NAME/patch.diff || exit 2
export VERIF_EVIDENCE_DIR=$(mktemp -d /tmp/mutant_evidence.XXXX)
for c in $CHECKS; do /verif/check $c --tier quick > /tmp/seedrun_${NAME}_$c.log 2>&1; echo "== $c rc=$?"; grep -m3 "VIOLATION\|KNOWN" /tmp/seedrun_${NAME}_$c.log | cut -c1-300; tail -1 /tmp/seedrun_${NAME}_$c.log; done
git -C /repo checkout -- .; rm -rf "$VERIF_EVIDENCE_DIR"; git -C /repo status --short
