#!/usr/bin/env python3
"""Regenerate MANIFEST.json from lib/props.json (built properties) and properties.jsonl."""
import json, os, subprocess
ROOT = os.path.dirname(os.path.dirname(os.path.abspath(__file__)))
props = [json.loads(l) for l in open(os.path.join(ROOT, "properties.jsonl"))]
meta = json.load(open(os.path.join(ROOT, "lib", "props.json")))
built = sorted(meta)
hooks = subprocess.run(["git", "-C", "/repo", "log", "--format=%h %s"], capture_output=True, text=True).stdout.splitlines()
hook_commits = [l.split()[0] for l in hooks if l.split(" ", 1)[1].startswith("verif hooks")]
checks = []
for p in props:
    i = p["id"]
    if i not in meta:
        continue
    m = meta[i]
    checks.append({
        "property_id": i,
        "quick_cmd": "./check %s --tier quick" % i,
        "thorough_cmd": "./check %s --tier thorough" % i,
        "evidence_file": "/verif/evidence/%s.json" % i,
        "replay_cmd_template": "./check %s --replay {path}" % i,
        "engine": "coq-model+correspondence",
        "level_claimed": {"category": "proof", "text": m["explanation"], "design_ref": "DESIGN.md §6 " + i},
        "level_note": "; ".join(m.get("trusted_base", []) + m.get("assumptions", [])),
        "technique": m.get("technique", "Coq theorems over an executable Gallina model + differential correspondence with the Go implementation"),
    })
man = {
    "version": 1,
    "setup_cmd": "./setup.sh",
    "hooks": {"guard": "verif",
              "enable": "go build -tags verif (harness module replaces github.com/mycoria/mycoria => /repo)",
              "baseline_off_cmd": "cd /repo && GOFLAGS=-mod=mod GOPROXY=off GOSUMDB=off GOTOOLCHAIN=local go1.26 test -vet=off -count=1 ./...",
              "source_commits": hook_commits, "add_only": True},
    "engines": [{"name": "coq-model+correspondence", "path": "/verif/check", "serves_properties": built,
                 "kind_free_text": "Coq 8.16.1 development (coq/), Go harness (harness/), python orchestration (lib/vcheck.py)"}],
    "checks": checks,
    "notes": "See DESIGN.md. Known findings and repaired defects: known_findings.json.",
    "not_applicable": [{"property_id": p["id"], "reason": "check under construction in this build session (model designed in DESIGN.md §6, not yet wired)"}
                       for p in props if p["id"] not in meta],
}
json.dump(man, open(os.path.join(ROOT, "MANIFEST.json"), "w"), indent=1)
print("MANIFEST: %d checks, %d not_applicable, hooks %s" % (len(checks), len(man["not_applicable"]), hook_commits))
