"""Orchestration of one property check (see /verif/check and DESIGN.md §2.1)."""
import argparse, fcntl, glob, json, os, re, shutil, subprocess, sys, time
from concurrent.futures import ThreadPoolExecutor

ROOT = os.path.dirname(os.path.dirname(os.path.abspath(__file__)))
COQ = os.path.join(ROOT, "coq")
HARNESS_SRC = os.path.join(ROOT, "harness")
BIN = os.path.join(ROOT, "bin")
REPO = os.environ.get("VERIF_REPO", "/repo")

GOENV = dict(os.environ, GOFLAGS="-mod=mod", GOPROXY="off", GOSUMDB="off", GOTOOLCHAIN="local",
             CGO_ENABLED=os.environ.get("CGO_ENABLED", "0"))

FORBIDDEN = re.compile(r"\b(Admitted|admit|Axiom|Parameter|Conjecture|Unset Guard|bypass_check|type-in-type|Admit Obligations)\b")

GLOBAL_TRUSTED_BASE = [
    "Coq 8.16.1 kernel (coqc); vm_compute used in _refuted witnesses, Examples and case evaluation; no native_compute",
    "no axioms declared; Print Assumptions of every property theorem is captured each run and must be within the per-property allow-list",
    "harness gen: constants read from the compiled code and exhaustive tabulation of small finite-domain functions into Gen.v",
    "correspondence check: Go harness (built from /repo working tree with -tags verif) + coqc/vm_compute evaluation of the model on the same inputs",
    "verif-tagged hooks in /repo (add-only files, see MANIFEST.hooks)",
    "Go toolchain 1.26 and runtime; third-party libraries of mycoria (CBOR, JSON, netip, ed25519, chacha20poly1305, blake3, ecdh) are not modelled",
]


def load_props():
    with open(os.path.join(ROOT, "lib", "props.json")) as f:
        return json.load(f)


def sh(cmd, cwd=None, env=None, timeout=None, capture=True):
    p = subprocess.run(cmd, cwd=cwd, env=env, timeout=timeout, shell=isinstance(cmd, str),
                       stdout=subprocess.PIPE if capture else None,
                       stderr=subprocess.STDOUT if capture else None, text=True)
    return p.returncode, (p.stdout or "")


class Lock:
    def __init__(self, path):
        self.path = path
    def __enter__(self):
        self.f = open(self.path, "w")
        fcntl.flock(self.f, fcntl.LOCK_EX)
    def __exit__(self, *a):
        fcntl.flock(self.f, fcntl.LOCK_UN)
        self.f.close()


def build_harness(race=False):
    """Build the harness against /repo's current working tree. Returns (ok, log)."""
    os.makedirs(BIN, exist_ok=True)
    shutil.copyfile(os.path.join(REPO, "go.sum"), os.path.join(HARNESS_SRC, "go.sum"))
    out = os.path.join(BIN, "harness-race" if race else "harness")
    cmd = ["go1.26", "build", "-tags", "verif"]
    env = dict(GOENV)
    if race:
        cmd.append("-race")
        env["CGO_ENABLED"] = "1"
    cmd += ["-o", out, "."]
    rc, log = sh(cmd, cwd=HARNESS_SRC, env=env, timeout=1200)
    return rc == 0, log


def run_coqchk(pid, timeout):
    """Independent re-check (coqchk) of the compiled property file and everything it depends on.
    A timeout is reported in the evidence, not as a violation."""
    t0 = time.time()
    try:
        rc, log = sh(["coqchk", "-silent", "-o", "-Q", ".", "Verif", "Verif.Properties." + pid], cwd=COQ, timeout=timeout)
    except subprocess.TimeoutExpired:
        return {"status": "timeout", "wall_s": round(time.time() - t0, 1), "axioms": None, "detail": "coqchk did not finish within %d s" % timeout}
    res = {"status": "ok" if rc == 0 else "rejected", "wall_s": round(time.time() - t0, 1), "axioms": None, "detail": log[-1500:]}
    m = re.search(r"\* Axioms:\s*(.*?)\n\s*\n", log, re.S)
    if m:
        res["axioms"] = " ".join(m.group(1).split())
    for key, pat in (("type_in_type", r"relying on type-in-type:\s*(.*?)\n"), ("unsafe_fix", r"unsafe \(co\)fixpoints:\s*(.*?)\n"), ("assumed_positive", r"positivity is assumed:\s*(.*?)\n")):
        mm = re.search(pat, log)
        if mm:
            res[key] = mm.group(1).strip()
    return res


def regen_gen():
    """Regenerate coq/Gen.v from the compiled code; replace only when the text differs."""
    new = os.path.join(COQ, "Gen.v.new")
    rc, log = sh([os.path.join(BIN, "harness"), "gen", new], timeout=300)
    if rc != 0:
        return False, log, False
    cur = os.path.join(COQ, "Gen.v")
    changed = True
    if os.path.exists(cur):
        with open(cur) as a, open(new) as b:
            changed = a.read() != b.read()
    if changed:
        os.replace(new, cur)
    else:
        os.remove(new)
    return True, log, changed


def coq_makefile():
    mk = os.path.join(COQ, "Makefile")
    cp = os.path.join(COQ, "_CoqProject")
    if not os.path.exists(mk) or os.path.getmtime(mk) < os.path.getmtime(cp):
        sh(["coq_makefile", "-f", "_CoqProject", "-o", "Makefile"], cwd=COQ)


def forbidden_scan():
    bad = []
    for f in glob.glob(os.path.join(COQ, "**", "*.v"), recursive=True):
        with open(f) as fh:
            for i, line in enumerate(fh, 1):
                # comments may mention the words; strip (* ... *) on the line crudely
                code = re.sub(r"\(\*.*?\*\)", "", line)
                if FORBIDDEN.search(code):
                    bad.append("%s:%d: %s" % (os.path.relpath(f, ROOT), i, line.strip()))
    return bad


def coq_build(targets, timeout=3000):
    coq_makefile()
    rc, log = sh(["make", "-j16"] + targets, cwd=COQ, timeout=timeout)
    return rc == 0, log


def compile_property_file(pfile, timeout=900):
    """Re-compile Properties/Cxx.v in this run, capturing the Print Assumptions output."""
    rc, log = sh(["coqc", "-Q", ".", "Verif", pfile], cwd=COQ, timeout=timeout)
    return rc == 0, log


def parse_assumptions(log):
    """Split coqc output into Print Assumptions blocks: returns list of axiom-name lists."""
    blocks, cur = [], None
    for line in log.splitlines():
        if line.startswith("Closed under the global context"):
            blocks.append([])
            cur = None
        elif line.startswith("Axioms:"):
            cur = []
            blocks.append(cur)
        elif cur is not None:
            m = re.match(r"^([A-Za-z_][\w.']*)\s*:", line)
            if m:
                cur.append(m.group(1))
            elif line.strip() == "":
                cur = None
    return blocks


def count_theorems(pfile):
    with open(os.path.join(COQ, pfile)) as f:
        src = f.read()
    names = re.findall(r"^(?:Theorem|Example|Lemma|Corollary)\s+([\w']+)", src, re.M)
    return names


def eval_case_file(outdir, name, timeout=1800):
    v = os.path.join(outdir, name + ".v")
    rc, log = sh("ulimit -s unlimited 2>/dev/null || ulimit -s 1000000 2>/dev/null; exec coqc -Q %s Verif -o %s %s" % (COQ, os.path.join(outdir, name + ".vo"), v), cwd=outdir, timeout=timeout)
    for ext in (".vo", ".glob", ".vok", ".vos"):
        try:
            os.remove(os.path.join(outdir, name + ext))
        except OSError:
            pass
    if rc != 0:
        return name, None, log
    m = re.search(r"M\s*=\s*(\[[^\]]*\])", log, re.S)
    if not m:
        return name, None, log
    body = m.group(1).strip()[1:-1].strip()
    idx = [int(x) for x in re.findall(r"\d+", body)]
    return name, idx, log


def match_known(v, known):
    for k in known:
        if k.get("status") != "known" or k.get("property") != v["property"]:
            continue
        mk = k.get("match", {})
        if mk.get("key") and mk["key"] == v.get("key"):
            return k
    return None


def main(argv):
    ap = argparse.ArgumentParser()
    ap.add_argument("prop")
    ap.add_argument("--tier", default=os.environ.get("VERIF_TIER", "quick"))
    ap.add_argument("--replay", default="")
    ap.add_argument("--no-build", action="store_true")
    a = ap.parse_args(argv)
    pid = a.prop
    tier = a.tier if a.tier in ("quick", "thorough") else "quick"
    try:
        seed = int(os.environ.get("VERIF_SEED", "1"))
    except ValueError:
        seed = 1
    props = load_props()
    if pid not in props:
        print("unknown property", pid)
        return 2
    P = props[pid]
    t0 = time.time()
    outdir = os.path.join(ROOT, "out", pid)
    os.makedirs(outdir, exist_ok=True)
    os.makedirs(os.path.join(ROOT, "replays"), exist_ok=True)
    os.makedirs(os.path.join(ROOT, "evidence"), exist_ok=True)
    for old in glob.glob(os.path.join(ROOT, "replays", "%s-%s-%d-*" % (pid, tier, seed))):
        os.remove(old)
    with open(os.path.join(ROOT, "known_findings.json")) as f:
        known = json.load(f).get("findings", [])

    problems = []      # (kind, text) things that break the proof/correspondence without a concrete input
    notes = []
    pfile = P["property_file"]
    proof_log = ""
    assumptions = []
    coqchk = None
    theorem_names = count_theorems(pfile)
    discharged = 0

    # ---- build + proofs (serialised across concurrently running checks) ----
    race = bool(P.get("race")) and tier == "thorough"
    with Lock(os.path.join(ROOT, ".lock")):
        ok, log = build_harness()
        if ok and race:
            ok, log = build_harness(race=True)
        if not ok:
            problems.append(("build", "harness does not build against /repo working tree:\n" + log[-3000:]))
        else:
            ok, log, changed = regen_gen()
            if not ok:
                problems.append(("gen", "harness gen failed:\n" + log[-3000:]))
            if changed:
                notes.append("Gen.v changed: dependent proofs re-checked")
            bad = forbidden_scan()
            if bad:
                problems.append(("forbidden", "forbidden vernacular in the development: " + "; ".join(bad[:5])))
            ok, log = coq_build([f[:-2] + ".vo" for f in P["coq_files"]])
            if not ok:
                m = re.findall(r'File "([^"]+)", line (\d+).*?\n(Error:.*?)(?:\n\n|\Z)', log, re.S)
                desc = "; ".join("%s:%s %s" % (x[0], x[1], " ".join(x[2].split())[:300]) for x in m[:3]) or log[-1500:]
                problems.append(("proof", "Coq development no longer checks (proof obligation broken): " + desc))
            else:
                ok, proof_log = compile_property_file(pfile)
                if not ok:
                    problems.append(("proof", "property file %s no longer checks: %s" % (pfile, proof_log[-1500:])))
                else:
                    assumptions = parse_assumptions(proof_log)
                    discharged = len(theorem_names)
                    allowed = set(P.get("allowed_axioms", []))
                    used = sorted({x for b in assumptions for x in b})
                    extra = [x for x in used if x not in allowed]
                    if extra:
                        problems.append(("axioms", "property theorems depend on axioms outside the allow-list: " + ", ".join(extra)))
                    if tier == "thorough":
                        coqchk = run_coqchk(pid, P.get("coqchk_timeout", 1500))
                        if coqchk["status"] == "rejected":
                            problems.append(("proof", "coqchk (independent checker) rejects the compiled development of %s: %s" % (pid, coqchk["detail"][-800:])))
                        elif coqchk["status"] == "ok" and coqchk["axioms"] not in ("<none>",) and not set(re.findall(r"[\w.]+", coqchk["axioms"])) <= allowed:
                            problems.append(("axioms", "coqchk reports axioms outside the allow-list in the closure of %s: %s" % (pid, coqchk["axioms"])))

    # ---- implementation side ----
    result = None
    mismatches = []
    cases_evaluated = 0
    if not any(k == "build" for k, _ in problems):
        hbin = os.path.join(BIN, "harness-race" if race else "harness")
        cmd = [hbin, "run", pid, "--seed", str(seed), "--tier", tier, "--out", outdir]
        if a.replay:
            cmd += ["--replay", a.replay]
        try:
            rc, log = sh(cmd, timeout=P.get("harness_timeout", 3000), env=dict(os.environ, GORACE="halt_on_error=0"))
        except subprocess.TimeoutExpired:
            rc, log = 99, "harness timed out"
        if rc != 0:
            problems.append(("harness", "harness run failed (rc=%d): %s" % (rc, log[-3000:])))
        else:
            with open(os.path.join(outdir, "result.json")) as f:
                result = json.load(f)
            if "WARNING: DATA RACE" in log:
                result.setdefault("violations", []).append({"what": "data race reported by the race detector", "key": "race", "replay": {"log": log[-4000:]}})
            # ---- model side: evaluate the Coq model on the same cases ----
            files = result.get("case_files") or []
            with ThreadPoolExecutor(max_workers=12) as ex:
                for name, idx, clog in ex.map(lambda n: eval_case_file(outdir, n), files):
                    if idx is None:
                        problems.append(("model-eval", "case file %s does not evaluate: %s" % (name, clog[-800:])))
                        continue
                    with open(os.path.join(outdir, name + ".info")) as f:
                        infos = f.read().splitlines()
                    cases_evaluated += len(infos)
                    for i in idx:
                        try:
                            info = json.loads(infos[i])
                        except Exception:
                            info = {"case_index": i}
                        mismatches.append({"file": name, "index": i, "case": info})

    # ---- verdict ----
    viol_lines, known_lines = [], []
    n_viol = 0
    concrete = (result or {}).get("violations", [])
    seen_keys = set()
    for v in concrete:
        v = dict(v, property=pid)
        k = match_known(v, known)
        if k is not None:
            line = "KNOWN-FINDING: property=%s %s" % (pid, k.get("what", v["what"]))
            if line not in known_lines:
                known_lines.append(line)
            continue
        n_viol += 1
        if v["key"] in seen_keys:
            continue
        seen_keys.add(v["key"])
        rp = os.path.join(ROOT, "replays", "%s-%s-%d-%s.json" % (pid, tier, seed, re.sub(r"\W+", "_", v["key"])[:40]))
        with open(rp, "w") as f:
            json.dump({"property": pid, "seed": seed, "tier": tier, "what": v["what"], "key": v["key"],
                       "replay": v.get("replay"), "how": "./check %s --replay %s" % (pid, rp)}, f, indent=1)
        viol_lines.append("VIOLATION property=%s replay=%s" % (pid, rp))
    broken = list(problems)
    if mismatches:
        broken.append(("correspondence", "model and implementation disagree on %d case(s); first: %s" % (len(mismatches), json.dumps(mismatches[0])[:1500])))
    if broken and not viol_lines:
        # proof obligation or correspondence broken, and the search on the implementation found no
        # concrete input on which the property fails: still a violation (property no longer shown).
        n_viol += 1
        rp = os.path.join(ROOT, "replays", "%s-%s-%d-unexplained.json" % (pid, tier, seed))
        with open(rp, "w") as f:
            json.dump({"property": pid, "seed": seed, "tier": tier,
                       "no_failing_input_found": True,
                       "broken": [{"kind": k, "detail": t} for k, t in broken],
                       "theorems": theorem_names, "property_file": pfile,
                       "mismatches": mismatches[:20]}, f, indent=1)
        viol_lines.append("VIOLATION property=%s replay=%s no-failing-input-found" % (pid, rp))
    elif broken:
        notes.append("proof/correspondence also broken: " + "; ".join(t[:200] for _, t in broken))

    # ---- evidence ----
    wall = time.time() - t0
    cov = {
        "obligations": len(theorem_names),
        "discharged": discharged,
        "checker_cmd": "make -C coq " + " ".join(f[:-2] + ".vo" for f in P["coq_files"]) + " && coqc -Q coq Verif coq/" + pfile,
        "trusted_base": GLOBAL_TRUSTED_BASE + P.get("trusted_base", []),
        "theorems": theorem_names,
        "print_assumptions": ["Closed under the global context" if not b else "Axioms: " + ", ".join(b) for b in assumptions],
        "coqchk": coqchk if coqchk is not None else "not run in the quick tier (thorough: coqchk -silent -o on the property's closure)",
        "evaluations": (result or {}).get("evaluations", 0),
        "distinct_nontrivial": (result or {}).get("distinct_nontrivial", 0),
        "rule": (result or {}).get("rule", ""),
        "samples": (result or {}).get("samples", []) or [{"theorems": theorem_names}],
        "traces_validated_against_model": cases_evaluated,
        "model_impl_mismatches": len(mismatches),
        "input_distribution": (result or {}).get("distribution", {}),
        "exhaustive": bool((result or {}).get("exhaustive", False)),
        "explanation": P.get("explanation", ""),
        "harness_notes": ((result or {}).get("notes") or []) + notes,
        "known_findings_reported": known_lines,
    }
    ev = {
        "property_id": pid, "tier": tier, "seed": seed, "level": "proof",
        "coverage": cov,
        "assumptions": P.get("assumptions", []),
        "wall_s": round(wall, 2),
        "violations": n_viol,
    }
    # VERIF_EVIDENCE_DIR: where to write the evidence record (default /verif/evidence); runs against
    # seeded changes use a scratch directory so that the committed evidence stays a clean-tree run
    evdir = os.environ.get("VERIF_EVIDENCE_DIR") or os.path.join(ROOT, "evidence")
    os.makedirs(evdir, exist_ok=True)
    with open(os.path.join(evdir, pid + ".json"), "w") as f:
        json.dump(ev, f, indent=1)

    for l in known_lines:
        print(l)
    for l in viol_lines:
        print(l)
    print("%s %s: theorems=%d/%d cases=%d model-mismatches=%d impl-evaluations=%d nontrivial=%d violations=%d wall=%.1fs" % (
        pid, tier, discharged, len(theorem_names), cases_evaluated, len(mismatches),
        cov["evaluations"], cov["distinct_nontrivial"], n_viol, wall))
    return 1 if viol_lines else 0
