package main

import (
	"errors"
	"fmt"
	"net"
	"net/netip"
	"sync"
	"sync/atomic"
	"time"

	"github.com/mycoria/mycoria/config"
	"github.com/mycoria/mycoria/frame"
	"github.com/mycoria/mycoria/inst"
	"github.com/mycoria/mycoria/m"
	"github.com/mycoria/mycoria/mgr"
	"github.com/mycoria/mycoria/peering"
	"github.com/mycoria/mycoria/router"
	"github.com/mycoria/mycoria/state"
	"github.com/mycoria/mycoria/storage"
	"github.com/mycoria/mycoria/switchr"
	"github.com/mycoria/mycoria/tun"
)

// rnode is a real router (state, switch, peering, router modules) without OS devices:
// the tun device is a literal with buffered channels, links are harness objects registered
// through the real AddLink, and frames are delivered synchronously through the verif hooks.
type rnode struct {
	name     string
	id       *m.Address
	cfg      *config.Config
	stub     *inst.AnceStub
	st       *state.State
	mem      *storage.MemStorage
	rs       *rendezStore
	sw       *switchr.Switch
	pe       *peering.Peering
	ro       *router.Router
	tun      *tun.Device
	upstream chan frame.Frame
	peerIn   chan frame.Frame // frames read by real links (peering's frame handler channel)
	builder  *frame.Builder
	links    map[netip.Addr]*hlink
	world    *rworld
	panics   []string
}

type inflight struct {
	link *hlink // the sending side's link object (from -> to)
	data []byte
}

type crossing struct {
	from, to *rnode
	data     []byte
}

type rworld struct {
	nodes     []*rnode
	queue     []*inflight
	crossings []crossing
	record    bool
	// unbufferedHandler: the next nodes get a frame handler channel without a buffer (as the running
	// system has: the switch input is unbuffered), so that a link reader can be parked at the hand-over
	unbufferedHandler bool
}

func newRWorld() *rworld { return &rworld{} }

func (w *rworld) addNode(name string, store config.Store, id *m.Address) (*rnode, error) {
	if id == nil {
		var err error
		id, err = newIdentity()
		if err != nil {
			return nil, err
		}
	}
	store.Router.Address = id.Store()
	var cfg *config.Config
	var perr error
	if p, _ := recoverPanic(func() { cfg, perr = store.Parse() }); p {
		return nil, errors.New("config parse panicked")
	}
	if perr != nil {
		return nil, perr
	}
	n := &rnode{name: name, id: id, cfg: cfg, world: w, links: map[netip.Addr]*hlink{}}
	n.builder = frame.NewFrameBuilder()
	n.builder.SetFrameMargins(peering.FrameOffset, peering.FrameOverhead)
	n.tun = &tun.Device{RecvRaw: make(chan []byte, 64), SendRaw: make(chan []byte, 256), SendFrame: make(chan frame.Frame, 256)}
	n.stub = &inst.AnceStub{VersionStub: "verif", ConfigStub: cfg, IdentityStub: id, FrameBuilderStub: n.builder, TunDeviceStub: n.tun}
	n.mem = storage.NewMemStorage()
	n.rs = newRendezStore(n.mem)
	n.st = state.New(n.stub, n.rs)
	n.stub.StateStub = n.st
	n.upstream = make(chan frame.Frame, 4096)
	n.sw = switchr.New(n.stub, n.upstream)
	n.stub.SwitchStub = n.sw
	n.peerIn = make(chan frame.Frame, 1024)
	if w.unbufferedHandler {
		n.peerIn = make(chan frame.Frame)
	}
	n.pe = peering.New(&nodeInst{n.stub, n}, n.peerIn)
	n.stub.PeeringStub = n.pe
	ro, err := router.New(n.stub, router.Config{})
	if err != nil {
		return nil, err
	}
	n.ro = ro
	n.stub.RouterStub = ro
	w.nodes = append(w.nodes, n)
	return n, nil
}

// nodeInst is the instance handed to the modules: the stub plus RoutingTable().
type nodeInst struct {
	*inst.AnceStub
	n *rnode
}

func (i *nodeInst) RoutingTable() *m.RoutingTable { return i.n.ro.Table() }

// hlink implements peering.Link; sending captures the frame bytes and queues them for delivery.
type hlink struct {
	from, to *rnode
	label    m.SwitchLabel
	lite     bool
	latency  uint16
	closing  atomic.Bool
	started  time.Time
	drop     bool
	park     func() // when set: called at the start of every Send (forces interleavings)
}

var hlinkQueueMu sync.Mutex

func (l *hlink) String() string                   { return fmt.Sprintf("hlink %s->%s", l.from.name, l.to.name) }
func (l *hlink) Peer() netip.Addr                 { return l.to.id.IP }
func (l *hlink) SwitchLabel() m.SwitchLabel       { return l.label }
func (l *hlink) GeoMark() string                  { return "" }
func (l *hlink) PeeringURL() *m.PeeringURL        { return nil }
func (l *hlink) Outgoing() bool                   { return false }
func (l *hlink) Lite() bool                       { return l.lite }
func (l *hlink) LocalAddr() net.Addr              { return &net.TCPAddr{} }
func (l *hlink) RemoteAddr() net.Addr             { return &net.TCPAddr{} }
func (l *hlink) Started() time.Time               { return l.started }
func (l *hlink) Uptime() time.Duration            { return time.Since(l.started) }
func (l *hlink) Latency() uint16                  { return l.latency }
func (l *hlink) AddMeasuredLatency(time.Duration) {}
func (l *hlink) BytesIn() uint64                  { return 0 }
func (l *hlink) BytesOut() uint64                 { return 0 }
func (l *hlink) FlowControlIndicator() frame.FlowControlFlag {
	return frame.FlowControlFlagIncreaseFlow
}
func (l *hlink) IsClosing() bool { return l.closing.Load() }
func (l *hlink) Close(log func()) {
	if l.closing.CompareAndSwap(false, true) {
		l.from.pe.RemoveLink(l)
	}
}
func (l *hlink) SendPriority(f frame.Frame) error { return l.Send(f) }
func (l *hlink) Send(f frame.Frame) error {
	// as writeFrame: take the frame with the link margins, then return it to the pool
	defer f.ReturnToPool()
	d, err := f.FrameDataWithMargins(peering.FrameOffset, peering.FrameOverhead)
	if err != nil {
		return fmt.Errorf("frame with margins: %w", err)
	}
	if l.drop || l.closing.Load() {
		return nil
	}
	data := append([]byte(nil), d[peering.FrameOffset:len(d)-peering.FrameOverhead]...)
	if l.park != nil {
		l.park()
	}
	hlinkQueueMu.Lock()
	l.from.world.queue = append(l.from.world.queue, &inflight{link: l, data: data})
	hlinkQueueMu.Unlock()
	return nil
}

// connect registers a pair of harness links through the real AddLink.
func (w *rworld) connect(a, b *rnode, labelA, labelB m.SwitchLabel) (la, lb *hlink, err error) {
	la = &hlink{from: a, to: b, label: labelA, latency: 5, started: time.Now()}
	lb = &hlink{from: b, to: a, label: labelB, latency: 5, started: time.Now()}
	// both routers must know each other's identity (as after a handshake)
	if err = a.st.AddRouter(&b.id.PublicAddress); err != nil {
		return
	}
	if err = b.st.AddRouter(&a.id.PublicAddress); err != nil {
		return
	}
	if err = a.pe.AddLink(la); err != nil {
		return
	}
	if err = b.pe.AddLink(lb); err != nil {
		return
	}
	a.links[b.id.IP] = la
	b.links[a.id.IP] = lb
	return
}

type deliverResult struct {
	switchErr, switchWorkerErr error
	routerErrs                 []error
	routerWorkerErrs           []error
	parseErr                   error
}

func (r deliverResult) panicked() bool {
	if r.switchWorkerErr != nil && errors.Is(r.switchWorkerErr, mgr.ErrWorkerPanic) {
		return true
	}
	for _, e := range r.routerWorkerErrs {
		if e != nil && errors.Is(e, mgr.ErrWorkerPanic) {
			return true
		}
	}
	return false
}

// inject delivers frame bytes to node n as if they had arrived over recv (n's link object to
// the sending peer): parsed into a pooled slice at the link offset, handed to the switch, and
// every frame the switch escalates is handled by the router.
func (n *rnode) inject(data []byte, recv *hlink) deliverResult {
	var res deliverResult
	ps := n.builder.GetPooledSlice(peering.FrameOffset + len(data) + peering.FrameOverhead)
	if ps == nil {
		res.parseErr = errors.New("too big")
		return res
	}
	copy(ps[peering.FrameOffset:], data)
	f, err := n.builder.ParseFrame(ps[peering.FrameOffset:peering.FrameOffset+len(data)], ps, peering.FrameOffset)
	if err != nil {
		n.builder.ReturnPooledSlice(ps)
		res.parseErr = err
		return res
	}
	if recv != nil {
		f.SetRecvLink(recv)
	}
	res.switchErr, res.switchWorkerErr = n.sw.VerifHandleFrame(f)
	n.drainUpstream(&res)
	return res
}

func (n *rnode) drainUpstream(res *deliverResult) {
	for {
		select {
		case f := <-n.upstream:
			he, we := n.ro.VerifHandleFrame(f)
			res.routerErrs = append(res.routerErrs, he)
			res.routerWorkerErrs = append(res.routerWorkerErrs, we)
		default:
			return
		}
	}
}

// step delivers the i-th queued message.
func (w *rworld) step(i int) deliverResult {
	msg := w.queue[i]
	w.queue = append(w.queue[:i], w.queue[i+1:]...)
	to := msg.link.to
	if w.record {
		w.crossings = append(w.crossings, crossing{from: msg.link.from, to: to, data: msg.data})
	}
	recv := to.links[msg.link.from.id.IP]
	return to.inject(msg.data, recv)
}

// drain delivers queued messages until none is left (order chosen by pick) or max steps.
func (w *rworld) drain(pick func(n int) int, max int) (steps int, panics int) {
	for len(w.queue) > 0 && steps < max {
		i := 0
		if pick != nil {
			i = pick(len(w.queue))
		}
		r := w.step(i)
		if r.panicked() {
			panics++
		}
		steps++
	}
	return
}

// tunFrames returns (and removes) the frames handed to the node's tun device.
func (n *rnode) tunFrames() []frame.Frame {
	var out []frame.Frame
	for {
		select {
		case f := <-n.tun.SendFrame:
			out = append(out, f)
		default:
			return out
		}
	}
}

func (n *rnode) tunRaw() [][]byte {
	var out [][]byte
	for {
		select {
		case b := <-n.tun.SendRaw:
			out = append(out, b)
		default:
			return out
		}
	}
}
