package main

import (
	"encoding/json"
	"fmt"
	"math/rand/v2"
	"os"
	"path/filepath"
	"sort"
	"strings"
)

// Violation is a property-level failure observed on the implementation.
type Violation struct {
	What   string `json:"what"`
	Key    string `json:"key"` // stable identifier used to match known findings
	Replay any    `json:"replay"`
}

// Result is what a harness run reports to ./check.
type Result struct {
	Property           string         `json:"property"`
	Tier               string         `json:"tier"`
	Seed               uint64         `json:"seed"`
	Evaluations        int            `json:"evaluations"`
	DistinctNontrivial int            `json:"distinct_nontrivial"`
	Rule               string         `json:"rule"`
	Samples            []any          `json:"samples"`
	Distribution       map[string]int `json:"distribution"`
	Violations         []Violation    `json:"violations"`
	Notes              []string       `json:"notes"`
	CaseFiles          []string       `json:"case_files"`
	CaseCount          int            `json:"case_count"`
	Exhaustive         bool           `json:"exhaustive"`
}

// Ctx carries the PRNG, the tier, and the collectors of one harness run.
type Ctx struct {
	ID     string
	Seed   uint64
	Tier   string
	Out    string
	Replay string
	Rng    *rand.Rand
	Res    Result

	nt        map[string]struct{}
	imports   string
	caseType  string
	okFn      string
	cases     []string
	caseInfo  []string // one JSON line per case, for replays
	shard     int
	caseBytes int
	parked    map[string]*caseBuf
}

func newCtx(id string, seed uint64, tier, out, replay string) *Ctx {
	if out == "" {
		out = filepath.Join("/verif/out", id)
	}
	_ = os.MkdirAll(out, 0o755)
	// remove stale case files
	old, _ := filepath.Glob(filepath.Join(out, "cases_*.v"))
	for _, f := range old {
		_ = os.Remove(f)
	}
	return &Ctx{
		ID: id, Seed: seed, Tier: tier, Out: out, Replay: replay,
		Rng: rand.New(rand.NewPCG(seed, 0x9e3779b97f4a7c15)),
		Res: Result{Property: id, Tier: tier, Seed: seed, Distribution: map[string]int{}},
		nt:  map[string]struct{}{},
	}
}

func (c *Ctx) Thorough() bool { return c.Tier == "thorough" }

// Pick returns q for the quick tier and t for the thorough tier.
func (c *Ctx) Pick(q, t int) int {
	if c.Thorough() {
		return t
	}
	return q
}

func (c *Ctx) Count(kind string)         { c.Res.Distribution[kind]++ }
func (c *Ctx) CountN(kind string, n int) { c.Res.Distribution[kind] += n }
func (c *Ctx) Note(f string, a ...any)   { c.Res.Notes = append(c.Res.Notes, fmt.Sprintf(f, a...)) }
func (c *Ctx) Eval()                     { c.Res.Evaluations++ }
func (c *Ctx) NonTrivial(key string)     { c.nt[key] = struct{}{} }
func (c *Ctx) Sample(s any) {
	if len(c.Res.Samples) < 6 {
		c.Res.Samples = append(c.Res.Samples, s)
	}
}

func (c *Ctx) Violate(what, key string, replay any) {
	if len(c.Res.Violations) < 50 {
		c.Res.Violations = append(c.Res.Violations, Violation{What: what, Key: key, Replay: replay})
	}
}

// CoqSetup declares how case files are headed: the modules to import, the Coq type of a
// case and the boolean function that says model and implementation agree on it.
func (c *Ctx) CoqSetup(imports, caseType, okFn string) {
	// one open case file per kind of case: a check that alternates between kinds of cases fills
	// several files side by side instead of starting a new file at every switch
	if c.caseType != "" {
		c.parkCases()
	}
	c.imports, c.caseType, c.okFn = imports, caseType, okFn
	if b, ok := c.parked[imports+"|"+caseType+"|"+okFn]; ok {
		c.cases, c.caseInfo, c.caseBytes = b.cases, b.info, b.bytes
		delete(c.parked, imports+"|"+caseType+"|"+okFn)
	}
}

type caseBuf struct {
	imports, caseType, okFn string
	cases, info             []string
	bytes                   int
}

func (c *Ctx) parkCases() {
	if len(c.cases) == 0 {
		return
	}
	if c.parked == nil {
		c.parked = map[string]*caseBuf{}
	}
	c.parked[c.imports+"|"+c.caseType+"|"+c.okFn] = &caseBuf{c.imports, c.caseType, c.okFn, c.cases, c.caseInfo, c.caseBytes}
	c.cases, c.caseInfo, c.caseBytes = nil, nil, 0
}

// Case adds one correspondence case (a Coq term of the declared case type) together with a
// JSON description used when the case has to be reported.
func (c *Ctx) Case(term string, info any) {
	b, _ := json.Marshal(info)
	c.cases = append(c.cases, term)
	c.caseInfo = append(c.caseInfo, string(b))
	c.caseBytes += len(term)
	c.Res.CaseCount++
	if len(c.cases) >= 400 || c.caseBytes > 600000 {
		c.flushCases()
	}
}

func (c *Ctx) flushCases() {
	if len(c.cases) == 0 {
		return
	}
	name := fmt.Sprintf("cases_%03d", c.shard)
	c.shard++
	var sb strings.Builder
	sb.WriteString("From Verif Require Import " + c.imports + ".\n")
	sb.WriteString("Definition cases : list (" + c.caseType + ") := [\n")
	for i, t := range c.cases {
		if i > 0 {
			sb.WriteString(";\n")
		}
		sb.WriteString(t)
	}
	sb.WriteString("\n].\n")
	sb.WriteString("Definition M := Eval vm_compute in mismatch_idx (" + c.okFn + ") cases.\nPrint M.\n")
	_ = os.WriteFile(filepath.Join(c.Out, name+".v"), []byte(sb.String()), 0o644)
	_ = os.WriteFile(filepath.Join(c.Out, name+".info"), []byte(strings.Join(c.caseInfo, "\n")+"\n"), 0o644)
	c.Res.CaseFiles = append(c.Res.CaseFiles, name)
	c.cases, c.caseInfo = nil, nil
	c.caseBytes = 0
}

// flushAll writes the current and every parked case file (in a fixed order).
func (c *Ctx) flushAll() {
	c.flushCases()
	keys := make([]string, 0, len(c.parked))
	for k := range c.parked {
		keys = append(keys, k)
	}
	sort.Strings(keys)
	for _, k := range keys {
		b := c.parked[k]
		c.imports, c.caseType, c.okFn = b.imports, b.caseType, b.okFn
		c.cases, c.caseInfo, c.caseBytes = b.cases, b.info, b.bytes
		c.flushCases()
	}
	c.parked = nil
}

func (c *Ctx) finish() error {
	c.flushAll()
	c.Res.DistinctNontrivial = len(c.nt)
	if c.Res.Samples == nil {
		c.Res.Samples = []any{}
	}
	if c.Res.Violations == nil {
		c.Res.Violations = []Violation{}
	}
	b, err := json.MarshalIndent(c.Res, "", " ")
	if err != nil {
		return err
	}
	return os.WriteFile(filepath.Join(c.Out, "result.json"), b, 0o644)
}

// ---------- Coq term printers ----------

func coqN(x uint64) string { return fmt.Sprintf("%d", x) }

func coqBool(b bool) string {
	if b {
		return "true"
	}
	return "false"
}

func coqListN[T ~uint8 | ~uint16 | ~uint32 | ~uint64 | ~int](l []T) string {
	var sb strings.Builder
	sb.WriteString("[")
	for i, x := range l {
		if i > 0 {
			sb.WriteString(";")
		}
		fmt.Fprintf(&sb, "%d", x)
	}
	sb.WriteString("]")
	return sb.String()
}

func coqBytes(b []byte) string { return coqListN(b) }

func coqList(items []string) string { return "[" + strings.Join(items, ";") + "]" }

func coqOpt(s *string) string {
	if s == nil {
		return "None"
	}
	return "(Some " + *s + ")"
}

func sortedKeys[V any](m map[string]V) []string {
	ks := make([]string, 0, len(m))
	for k := range m {
		ks = append(ks, k)
	}
	sort.Strings(ks)
	return ks
}

// perm returns a seeded permutation of 0..n-1.
func (c *Ctx) perm(n int) []int { return c.Rng.Perm(n) }

// recoverPanic runs f and reports whether it panicked.
func recoverPanic(f func()) (panicked bool, val any) {
	defer func() {
		if r := recover(); r != nil {
			panicked, val = true, r
		}
	}()
	f()
	return false, nil
}

// shrinkSlice greedily removes elements (chunks first, then singles) while fails(l) stays true.
func shrinkSlice[T any](l []T, fails func([]T) bool) []T {
	cur := append([]T(nil), l...)
	for chunk := len(cur) / 2; chunk >= 1; chunk /= 2 {
		for i := 0; i+chunk <= len(cur); {
			cand := append(append([]T(nil), cur[:i]...), cur[i+chunk:]...)
			if fails(cand) {
				cur = cand
			} else {
				i += chunk
			}
		}
	}
	return cur
}

// replayData loads the "replay" object of a replay file written by ./check.
func (c *Ctx) replayData() (map[string]any, error) {
	b, err := os.ReadFile(c.Replay)
	if err != nil {
		return nil, err
	}
	var top map[string]any
	if err := json.Unmarshal(b, &top); err != nil {
		return nil, err
	}
	r, _ := top["replay"].(map[string]any)
	if r == nil {
		return nil, fmt.Errorf("replay file has no replay object (no-failing-input-found?)")
	}
	return r, nil
}

func toU32s(v any) []uint32 {
	l, _ := v.([]any)
	out := make([]uint32, 0, len(l))
	for _, x := range l {
		f, _ := x.(float64)
		out = append(out, uint32(f))
	}
	return out
}
