package main

import (
	"crypto/sha256"
	"fmt"
	"net/netip"
	"sort"
	"strings"

	"github.com/mycoria/mycoria/config"
	"github.com/mycoria/mycoria/frame"
	"github.com/mycoria/mycoria/m"
)

// mesh is a set of real routers (state, switch, peering, router, routing table) joined by
// harness link objects registered through the real AddLink; frames in flight sit in the world's
// queue and are delivered one at a time in an order the harness chooses.
type mesh struct {
	c     *Ctx
	w     *rworld
	nodes []*rnode
	edges [][2]int
	envs  map[*rnode]*ctlEnv
	byIP  map[netip.Addr]*rnode
	topo  string
}

// meshTopology returns the edge list of a connected graph on n nodes.
func meshTopology(c *Ctx, kind string, n int) [][2]int {
	var e [][2]int
	add := func(a, b int) {
		if a == b {
			return
		}
		if a > b {
			a, b = b, a
		}
		for _, x := range e {
			if x == [2]int{a, b} {
				return
			}
		}
		e = append(e, [2]int{a, b})
	}
	switch kind {
	case "line":
		for i := 0; i+1 < n; i++ {
			add(i, i+1)
		}
	case "ring":
		for i := 0; i < n; i++ {
			add(i, (i+1)%n)
		}
	case "star":
		for i := 1; i < n; i++ {
			add(0, i)
		}
	case "tree":
		for i := 1; i < n; i++ {
			add(i, (i-1)/2)
		}
	case "grid":
		wd := 1
		for wd*wd < n {
			wd++
		}
		for i := 0; i < n; i++ {
			if (i+1)%wd != 0 && i+1 < n {
				add(i, i+1)
			}
			if i+wd < n {
				add(i, i+wd)
			}
		}
	case "full":
		for i := 0; i < n; i++ {
			for j := i + 1; j < n; j++ {
				add(i, j)
			}
		}
	default: // random connected: random spanning tree plus extra edges
		for i := 1; i < n; i++ {
			add(i, c.Rng.IntN(i))
		}
		extra := c.Rng.IntN(n)
		for k := 0; k < extra; k++ {
			add(c.Rng.IntN(n), c.Rng.IntN(n))
		}
	}
	return e
}

// newMesh builds the routers and links.  labelMode: 0 = 1-byte labels, 1 = 2-byte labels, 2 = mixed.
// infoPad[i] = number of extra listen entries in router i's public info (its announcements grow with it).
func newMesh(c *Ctx, kind string, n int, labelMode int, infoPad func(i int) int, ids []*m.Address) (*mesh, error) {
	ms := &mesh{c: c, w: newRWorld(), envs: map[*rnode]*ctlEnv{}, byIP: map[netip.Addr]*rnode{}, topo: kind}
	for i := 0; i < n; i++ {
		st := config.Store{Router: config.Router{Listen: []string{"tcp:47369"}}}
		if infoPad != nil {
			pad := infoPad(i)
			if pad >= 1000 {
				// a filler of pad-1000 bytes in the public info: sets the size of the router's own announcement
				st.Router.IANA = []string{strings.Repeat("x", pad-1000)}
				pad = 0
			}
			for k := 0; k < pad; k++ {
				st.Router.Listen = append(st.Router.Listen, fmt.Sprintf("tcp:%d", 20000+k))
			}
		}
		var id *m.Address
		if ids != nil {
			id = ids[i]
		}
		nd, err := ms.w.addNode(fmt.Sprintf("r%d", i), st, id)
		if err != nil {
			return nil, err
		}
		ms.nodes = append(ms.nodes, nd)
		ms.byIP[nd.id.IP] = nd
		ms.envs[nd] = &ctlEnv{c: c, w: ms.w, R: nd, keyIDs: map[string]int{}, nextKey: 1, infoIDs: map[string]int{}, nextInfo: 1}
	}
	ms.edges = meshTopology(c, kind, n)
	used := make([]map[int]bool, n)
	for i := range used {
		used[i] = map[int]bool{}
	}
	pickLabel := func(i int) m.SwitchLabel {
		for {
			var l int
			two := labelMode == 1 || (labelMode == 2 && c.Rng.IntN(2) == 0)
			if two {
				l = 128 + c.Rng.IntN(16383-128)
			} else {
				l = 2 + c.Rng.IntN(125)
			}
			if !used[i][l] {
				used[i][l] = true
				return m.SwitchLabel(l)
			}
		}
	}
	for _, e := range ms.edges {
		if _, _, err := ms.w.connect(ms.nodes[e[0]], ms.nodes[e[1]], pickLabel(e[0]), pickLabel(e[1])); err != nil {
			return nil, err
		}
	}
	return ms, nil
}

// linksOf renders a node's live links as the model's link list (sorted by peer address).
func linksOf(n *rnode) (string, []*hlink) {
	var ls []*hlink
	for _, l := range n.links {
		if !l.closing.Load() {
			ls = append(ls, l)
		}
	}
	sort.Slice(ls, func(i, j int) bool { return cmpIP(ls[i].to.id.IP, ls[j].to.id.IP) })
	var out []string
	for _, l := range ls {
		out = append(out, lnkTerm(l))
	}
	return coqList(out), ls
}

func lnkTerm(l *hlink) string {
	return fmt.Sprintf("(%s,%d,%d,%s)", ipN(l.to.id.IP), l.label, l.latency, coqBool(l.lite))
}

// frameInfo is what the harness reads off frame bytes.
type frameInfo struct {
	ok       bool
	ttl      int
	flow     int
	ty       int
	src, dst netip.Addr
	sb       []byte
	mi       int
	restID   string // hash of every byte outside TTL, flow flags and the switch block
	isAnn    bool
}

func parseFrameInfo(d []byte) frameInfo {
	var fi frameInfo
	if len(d) < 68 || d[0] != 1 {
		return fi
	}
	mi := 49 + int(d[48])
	if mi+2 > len(d) {
		return fi
	}
	fi.ok = true
	fi.ttl, fi.flow, fi.ty = int(d[1]), int(d[2]), int(d[4])
	fi.src = netip.AddrFrom16([16]byte(d[16:32]))
	fi.dst = netip.AddrFrom16([16]byte(d[32:48]))
	fi.sb = append([]byte(nil), d[49:mi]...)
	fi.mi = mi
	h := sha256.New()
	h.Write(d[0:1])
	h.Write(d[3:49])
	h.Write(d[mi:])
	fi.restID = fmt.Sprintf("%x", h.Sum(nil)[:12])
	fi.isAnn = frame.MessageType(fi.ty) == frame.RouterHopPingDeprecated || frame.MessageType(fi.ty) == frame.RouterHopPing
	return fi
}

// announceAll lets every router announce itself to all its peers (announceRouter).
// It returns the names of the routers whose announcement crashed.
func (ms *mesh) announceAll(order []int) (crashed []string) {
	for _, i := range order {
		n := ms.nodes[i]
		_, ls := linksOf(n)
		for _, l := range ls {
			to := l.to.id.IP
			if pan, _ := recoverPanic(func() { _ = n.ro.AnnouncePing.Send(to) }); pan {
				crashed = append(crashed, n.name)
			}
		}
	}
	return crashed
}

// deliverOne removes the i-th in-flight frame, delivers it and returns the frames its receiver
// put on links in response.
func (ms *mesh) deliverOne(i int) (msg *inflight, res deliverResult, out []*inflight) {
	msg = ms.w.queue[i]
	before := len(ms.w.queue) - 1
	res = ms.w.step(i)
	out = append(out, ms.w.queue[before:]...)
	return
}
