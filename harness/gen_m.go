package main

import (
	"fmt"
	"strings"

	"github.com/mycoria/mycoria/m"
)

func init() {
	genSections = append(genSections, genSwitchLabel)
}

// stepTable tabulates f over 0..n-1 as a list of change points.
func stepTable(n int, f func(i int) int) string {
	var parts []string
	prev := -1 << 30
	for i := 0; i < n; i++ {
		v := f(i)
		if v != prev {
			parts = append(parts, fmt.Sprintf("(%d,%d)", i, v))
			prev = v
		}
	}
	return "[" + strings.Join(parts, ";") + "]"
}

func genSwitchLabel(sb *strings.Builder) error {
	sb.WriteString("(* m.SwitchLabel.EncodedSize tabulated over all 65536 labels *)\n")
	fmt.Fprintf(sb, "Definition enc_size_table : list (N * N) := %s.\n", stepTable(65536, func(i int) int {
		return m.SwitchLabel(i).EncodedSize()
	}))
	sb.WriteString("Definition enc_size (x : N) : N := step_lookup enc_size_table x 0.\n\n")
	return nil
}
