package main

import (
	"bytes"
	"encoding/hex"
	"fmt"
	"sort"
	"sync"

	"golang.org/x/crypto/chacha20poly1305"

	"github.com/mycoria/mycoria/frame"
	"github.com/mycoria/mycoria/state"
)

func init() { register("C15", runC15) }

// keyChain returns key, rollover(key), rollover^2(key), ...
func keyChain(k []byte, n int) ([][]byte, error) {
	out := [][]byte{append([]byte(nil), k...)}
	for i := 1; i < n; i++ {
		nk, err := state.VerifRolloverKey(out[i-1])
		if err != nil {
			return nil, err
		}
		out = append(out, nk)
	}
	return out, nil
}

func epochOf(chain [][]byte, k []byte) int {
	for i, c := range chain {
		if bytes.Equal(c, k) {
			return i
		}
	}
	return -1
}

func coqSq(h *state.SequenceHandler) string {
	hi, bm, out := h.VerifState()
	return fmt.Sprintf("(mkSq %d %d %d)", hi, bm, out)
}

func coqEp(e *state.EncryptionSession, outE, inE int) string {
	prio, regl := e.VerifSeqHandlers()
	return fmt.Sprintf("(mkEp %s %s %d%%nat %d%%nat)", coqSq(regl), coqSq(prio), outE, inE)
}

// frameEpoch finds the chain key a sealed encrypted-class frame opens under (C02 ranges).
func frameEpoch(chain [][]byte, d []byte) int {
	mi := 49 + int(d[48])
	if len(d) < mi+2 {
		return -1
	}
	xi := mi + 2 + (int(d[mi])<<8 | int(d[mi+1])) + 16
	if xi > len(d) {
		return -1
	}
	z := append([]byte(nil), d[:mi+2]...)
	z[1], z[2] = 0, 0
	for i, k := range chain {
		a, err := chacha20poly1305.New(k)
		if err != nil {
			continue
		}
		if _, err := a.Open(nil, d[4:16], d[mi+2:xi], z); err == nil {
			return i
		}
	}
	return -1
}

func be32(b []byte) uint32 {
	return uint32(b[0])<<24 | uint32(b[1])<<16 | uint32(b[2])<<8 | uint32(b[3])
}

func runC15(c *Ctx) error {
	c.Res.Rule = "real EncryptionSession pairs with counters placed within +-300 of the 32-bit wrap (and away from it): (1) sequential Out/In operation lists incl. arbitrary incoming sequence numbers, compared step by step with the model (sequence number, key epoch, error, window and counter state); " +
		"(2) two-endpoint histories across the wrap with reordering <= 8, duplicates and late pre-wrap frames through real Seal/Unseal; (3) bidirectional traffic with priority frames in the reverse direction; " +
		"(4) concurrent Seal storms (2..64 goroutines) across the wrap with a (key, class, sequence number) uniqueness oracle and in-order delivery to a receiver; non-trivial = history that crosses the wrap; distinct as (kind, start offset, op list)"
	// ---------- (1) sequential op lists on one endpoint ----------
	c.CoqSetup("Prelude Gen Seq SeqCorr Session SessionCorr", "c15_case", "c15_ok")
	for i, n := 0, c.Pick(300, 3000); i < n; i++ {
		ea, eb := state.NewEncryptionSession(), state.NewEncryptionSession()
		if err := keyExchange(ea, eb); err != nil {
			return err
		}
		in0, out0 := ea.VerifKeys()
		outChain, err := keyChain(out0, 5)
		if err != nil {
			return err
		}
		inChain, err := keyChain(in0, 5)
		if err != nil {
			return err
		}
		prio, regl := ea.VerifSeqHandlers()
		off := func() uint32 {
			switch c.Rng.IntN(4) {
			case 0:
				return uint32(c.Rng.IntN(1000))
			default:
				return uint32(0xFFFFFFFF - uint32(c.Rng.IntN(300)))
			}
		}
		regl.VerifSetOut(off())
		regl.VerifSetState(off(), uint64(c.Rng.Uint64()))
		if c.Rng.IntN(3) == 0 {
			prio.VerifSetOut(off())
		} else {
			prio.VerifSetOut(uint32(c.Rng.IntN(50)))
		}
		prio.VerifSetState(uint32(c.Rng.IntN(100)), uint64(c.Rng.Uint64()))
		start := coqEp(ea, 0, 0)
		var steps []string
		var desc []string
		crossed := false
		type trip struct {
			e int
			p bool
			s uint32
		}
		seen := map[trip]bool{}
		prioWrapped := false
		nOps := 4 + c.Rng.IntN(40)
		for k := 0; k < nOps; k++ {
			if c.Rng.IntN(3) > 0 {
				p := c.Rng.IntN(3) == 0
				seq, _, _, _, err := ea.Out(p)
				_, ok := ea.VerifKeys()
				e := epochOf(outChain, ok)
				code := 0
				if err != nil {
					code = 1
					if p {
						prioWrapped = true
					}
				} else {
					t := trip{e, p, seq}
					if seen[t] && !prioWrapped {
						c.Violate(fmt.Sprintf("sequence number %d handed out twice in class prio=%v under key epoch %d", seq, p, e), "nonce-reuse-seq", map[string]any{"start": start, "ops": append([]string(nil), desc...)})
					}
					seen[t] = true
				}
				if e > 0 {
					crossed = true
				}
				steps = append(steps, fmt.Sprintf("(SOut %s,(%d,%d,%d%%nat),%s)", coqBool(p), code, seq, e, coqEp(ea, e, epochOf(inChain, firstKey(ea)))))
				desc = append(desc, fmt.Sprintf("Out(prio=%v)->%d/e%d/err=%v", p, seq, e, err != nil))
			} else {
				p := c.Rng.IntN(4) == 0
				var seq uint32
				switch c.Rng.IntN(4) {
				case 0:
					seq = uint32(c.Rng.IntN(300))
				case 1:
					seq = uint32(0xFFFFFFFF - uint32(c.Rng.IntN(300)))
				default:
					hi, _, _ := regl.VerifState()
					seq = hi + uint32(c.Rng.IntN(5))
				}
				_, err := ea.In(seq, p)
				ik, ok := ea.VerifKeys()
				code := 0
				if err != nil {
					code = 1
				}
				ie, oe := epochOf(inChain, ik), epochOf(outChain, ok)
				if ie > 0 {
					crossed = true
				}
				steps = append(steps, fmt.Sprintf("(SIn %d %s 0%%nat,(%d,0,%d%%nat),%s)", seq, coqBool(p), code, ie, coqEp(ea, oe, ie)))
				desc = append(desc, fmt.Sprintf("In(%d,prio=%v)->e%d/err=%v", seq, p, ie, err != nil))
			}
		}
		c.Eval()
		c.Count("kind:oplist")
		if crossed {
			c.NonTrivial(fmt.Sprintf("oplist/%s/%v", start, desc))
		}
		c.Case(fmt.Sprintf("(%s,%s)", start, coqList(steps)), map[string]any{"kind": "oplist", "start": start, "ops": desc})
		if i < 2 {
			c.Sample(map[string]any{"kind": "oplist", "start": start, "ops": desc})
		}
	}

	// ---------- (2)+(3) two routers, real Seal/Unseal across the wrap ----------
	c.CoqSetup("Prelude Gen Seq SeqCorr Session SessionCorr", "c15_hcase", "c15_hok")
	a, b, sab, sba, err := newPair()
	if err != nil {
		return err
	}
	builder := frame.NewFrameBuilder()
	for i, n := 0, c.Pick(120, 1200); i < n; i++ {
		if err := keyExchange(sab.Encryption(), sba.Encryption()); err != nil {
			return err
		}
		ea, eb := sab.Encryption(), sba.Encryption()
		_, aOut := ea.VerifKeys()
		_, bOut := eb.VerifKeys()
		aChain, err := keyChain(aOut, 4)
		if err != nil {
			return err
		}
		bChain, err := keyChain(bOut, 4)
		if err != nil {
			return err
		}
		// synced start near the wrap: A's regular counter x, B's regular window highest x
		x := uint32(0xFFFFFFFF - uint32(c.Rng.IntN(300)))
		if c.Rng.IntN(5) == 0 {
			x = uint32(c.Rng.IntN(100000))
		}
		aPrio, aRegl := ea.VerifSeqHandlers()
		bPrio, bRegl := eb.VerifSeqHandlers()
		aRegl.VerifSetOut(x)
		bRegl.VerifSetState(x, ^uint64(0))
		_ = aPrio
		_ = bPrio
		type sent struct {
			data  []byte
			seq   uint32
			prio  bool
			epoch int
		}
		var frames []sent
		type trip struct {
			who string
			key string
			p   bool
			s   uint32
		}
		seen := map[trip]bool{}
		record := func(who string, key []byte, p bool, s uint32, where string) {
			t := trip{who, hex.EncodeToString(key), p, s}
			if seen[t] {
				c.Violate(fmt.Sprintf("%s sealed two frames with the same key in class prio=%v with sequence number %d (%s)", who, p, s, where), "nonce-reuse", map[string]any{"start_offset": x, "iteration": i})
			}
			seen[t] = true
		}
		sealAB := func(p bool) error {
			mt := frame.NetworkTraffic
			if p {
				mt = frame.SessionCtrl
			}
			f, err := builder.NewFrameV1(a.id.IP, b.id.IP, mt, nil, []byte(fmt.Sprintf("a->b %d", len(frames))), nil)
			if err != nil {
				return err
			}
			if err := f.Seal(sab); err != nil {
				f.ReturnToPool()
				return nil // a refused priority wrap
			}
			_, k := ea.VerifKeys()
			d, _ := f.FrameDataWithMargins(0, 0)
			fr := sent{data: append([]byte(nil), d...), seq: f.SequenceNum(), prio: p, epoch: epochOf(aChain, k)}
			record("A", k, p, fr.seq, "A->B")
			frames = append(frames, fr)
			f.ReturnToPool()
			return nil
		}
		// B sends priority frames to A first (reverse direction, its own key chain)
		nRev := c.Rng.IntN(4)
		sealBA := func() error {
			f, err := builder.NewFrameV1(b.id.IP, a.id.IP, frame.SessionCtrl, nil, []byte("b->a"), nil)
			if err != nil {
				return err
			}
			if err := f.Seal(sba); err != nil {
				return err
			}
			_, k := eb.VerifKeys()
			record("B", k, true, f.SequenceNum(), "B->A priority")
			// A receives it
			d, _ := f.FrameDataWithMargins(0, 0)
			pf, err := builder.ParseFrame(append([]byte(nil), d...), nil, 0)
			if err == nil {
				if err := pf.Unseal(sab); err != nil {
					c.Violate("a priority frame of the reverse direction failed to unseal: "+err.Error(), "reverse-unseal", map[string]any{"start_offset": x})
				}
			}
			f.ReturnToPool()
			_ = bChain
			return nil
		}
		for k := 0; k < nRev; k++ {
			if err := sealBA(); err != nil {
				return err
			}
		}
		startB := coqEp(eb, 0, 0)
		nF := 6 + c.Rng.IntN(40)
		for k := 0; k < nF; k++ {
			if err := sealAB(c.Rng.IntN(5) == 0); err != nil {
				return err
			}
		}
		// delivery order: displacement <= 8, some duplicates, some very late ones
		order := make([]int, len(frames))
		for k := range order {
			order[k] = k
		}
		for k := range order {
			j := k + c.Rng.IntN(9)
			if j < len(order) && c.Rng.IntN(3) == 0 {
				order[k], order[j] = order[j], order[k]
			}
		}
		for k := 0; k < 3; k++ {
			order = append(order, c.Rng.IntN(len(frames))) // duplicates / late pre-wrap frames
		}
		var hist []string
		crossed := false
		delivered := map[int]bool{}
		for _, idx := range order {
			fr := frames[idx]
			pf, err := builder.ParseFrame(append([]byte(nil), fr.data...), nil, 0)
			ok := err == nil && pf.Unseal(sba) == nil
			bk, _ := eb.VerifKeys()
			be := epochOf(aChain, bk)
			if fr.epoch > 0 {
				crossed = true
			}
			if ok && delivered[idx] {
				c.Violate("a frame unsealed twice around a key rollover", "dup-accept", map[string]any{"start_offset": x})
			}
			if ok {
				delivered[idx] = true
			}
			hist = append(hist, fmt.Sprintf("(%d%%nat,%d,%s,%s,%s)", fr.epoch, fr.seq, coqBool(fr.prio), coqBool(ok), coqEp(eb, 0, be)))
		}
		// after a rollover that B has followed, A's next frames of both classes still unseal at B
		if crossed {
			bk, _ := eb.VerifKeys()
			_, ak := ea.VerifKeys()
			if epochOf(aChain, bk) == epochOf(aChain, ak) {
				for _, pr := range []bool{true, false, true} {
					before := len(frames)
					if err := sealAB(pr); err != nil {
						return err
					}
					if len(frames) == before {
						continue // a refused priority wrap
					}
					fr := frames[len(frames)-1]
					pf, err := builder.ParseFrame(append([]byte(nil), fr.data...), nil, 0)
					if err != nil || pf.Unseal(sba) != nil {
						c.Violate(fmt.Sprintf("after a key rollover both ends hold the same key, but a fresh frame (prio=%v, seq=%d) of the sender does not unseal: the sequence state is out of sync", pr, fr.seq), "post-rollover-desync",
							map[string]any{"start_offset": x, "prio": pr, "seq": fr.seq})
						break
					}
				}
			}
		}
		// after the exchange B keeps sending priority frames to A: still unique under B's key
		for k := 0; k < 1+nRev; k++ {
			if err := sealBA(); err != nil {
				return err
			}
		}
		c.Eval()
		c.Count("kind:history")
		if crossed {
			c.NonTrivial(fmt.Sprintf("hist/%d/%v", x, order))
		}
		c.Case(fmt.Sprintf("(%s,%s)", startB, coqList(hist)), map[string]any{"kind": "history", "start_offset": x, "frames": len(frames), "order": order})
		if i < 2 {
			c.Sample(map[string]any{"kind": "history", "start_offset": x, "frames": len(frames), "order": order})
		}
	}

	// ---------- (4) concurrent Seal storms across the wrap ----------
	trials := c.Pick(150, 1500)
	for tr := 0; tr < trials; tr++ {
		if err := keyExchange(sab.Encryption(), sba.Encryption()); err != nil {
			return err
		}
		ea, eb := sab.Encryption(), sba.Encryption()
		_, aOut := ea.VerifKeys()
		chain, err := keyChain(aOut, 4)
		if err != nil {
			return err
		}
		_, aRegl := ea.VerifSeqHandlers()
		_, bRegl := eb.VerifSeqHandlers()
		g := []int{2, 4, 8, 16, 32, 64}[c.Rng.IntN(6)]
		per := 1 + c.Rng.IntN(4)
		x := uint32(0xFFFFFFFF - uint32(c.Rng.IntN(g*per+2)))
		aRegl.VerifSetOut(x)
		bRegl.VerifSetState(x, ^uint64(0))
		var mu sync.Mutex
		var sealed [][]byte
		var wg sync.WaitGroup
		startGate := make(chan struct{})
		for w := 0; w < g; w++ {
			wg.Add(1)
			prioW := w%4 == 3
			go func() {
				defer wg.Done()
				<-startGate
				for k := 0; k < per; k++ {
					mt := frame.NetworkTraffic
					if prioW {
						mt = frame.SessionCtrl
					}
					f, err := builder.NewFrameV1(a.id.IP, b.id.IP, mt, nil, []byte("storm"), nil)
					if err != nil {
						return
					}
					if err := f.Seal(sab); err == nil {
						d, _ := f.FrameDataWithMargins(0, 0)
						mu.Lock()
						sealed = append(sealed, append([]byte(nil), d...))
						mu.Unlock()
					}
					f.ReturnToPool()
				}
			}()
		}
		close(startGate)
		wg.Wait()
		type trip struct {
			e int
			p bool
			s uint32
		}
		seen := map[trip]bool{}
		type fe struct {
			e    int
			s    uint32
			p    bool
			data []byte
		}
		var all []fe
		for _, d := range sealed {
			e := frameEpoch(chain, d)
			p := frame.MessageType(d[4]).Class() == frame.MessageClassPriorityEncrypted
			s := be32(d[8:12])
			if e < 0 {
				c.Violate("a frame sealed by a concurrent sender opens under no key of the rollover chain", "storm-key", map[string]any{"goroutines": g, "start_offset": x})
				continue
			}
			t := trip{e, p, s}
			if seen[t] {
				c.Violate(fmt.Sprintf("concurrent senders: two frames with key epoch %d, class prio=%v, sequence number %d (nonce reuse)", e, p, s), "storm-nonce", map[string]any{"goroutines": g, "per": per, "start_offset": x})
			}
			seen[t] = true
			all = append(all, fe{e, s, p, d})
		}
		// deliver in sealing order (epoch, then sequence number; priority frames of an epoch first
		// is not required, classes have independent windows): every frame must unseal
		sort.Slice(all, func(i, j int) bool {
			if all[i].e != all[j].e {
				return all[i].e < all[j].e
			}
			if all[i].p != all[j].p {
				return !all[i].p
			}
			return all[i].s < all[j].s
		})
		for _, f := range all {
			if f.p {
				continue
			}
			pf, err := builder.ParseFrame(append([]byte(nil), f.data...), nil, 0)
			if err != nil || pf.Unseal(sba) != nil {
				c.Violate(fmt.Sprintf("concurrent senders: regular frame seq=%d of key epoch %d failed to unseal in order", f.s, f.e), "storm-desync", map[string]any{"goroutines": g, "per": per, "start_offset": x})
				break
			}
		}
		c.Eval()
		c.Count(fmt.Sprintf("kind:storm-g%d", g))
		c.NonTrivial(fmt.Sprintf("storm/%d/%d/%d", g, per, x))
	}

	// ---------- (5) a further key exchange on a used session that FAILS ----------
	// An established session has sealed frames; a peer's key-exchange value that the curve refuses
	// (a low-order point: the length check of the public key passes, the exchange fails) arrives in
	// a request (InitKeyServer) or in a reply (InitKeyClientComplete).  Whatever the session keeps
	// afterwards, the frames it seals before and after must not share (key, class, sequence number).
	lowOrder := [][]byte{
		make([]byte, 32),
		append([]byte{1}, make([]byte, 31)...),
		{0xe0, 0xeb, 0x7a, 0x7c, 0x3b, 0x41, 0xb8, 0xae, 0x16, 0x56, 0xe3, 0xfa, 0xf1, 0x9f, 0xc4, 0x6a, 0xda, 0x09, 0x8d, 0xeb, 0x9c, 0x32, 0xb1, 0xfd, 0x86, 0x62, 0x05, 0x16, 0x5f, 0x49, 0xb8, 0x00},
	}
	for rep, n := 0, c.Pick(12, 60); rep < n; rep++ {
		if err := keyExchange(sab.Encryption(), sba.Encryption()); err != nil {
			return err
		}
		ea := sab.Encryption()
		_, kxT, err := state.NewEncryptionSession().InitKeyClientStart() // the name of the key exchange in use
		if err != nil {
			return err
		}
		type sealedRec struct {
			key  string
			prio bool
			seq  uint32
			when string
		}
		var recs []sealedRec
		sealSome := func(k int, when string) {
			for j := 0; j < k; j++ {
				mt := frame.NetworkTraffic
				if c.Rng.IntN(4) == 0 {
					mt = frame.SessionCtrl
				}
				_, outKey := ea.VerifKeys()
				f, err := builder.NewFrameV1(a.id.IP, b.id.IP, mt, nil, []byte("before and after a failed key exchange"), nil)
				if err != nil {
					return
				}
				if err := f.Seal(sab); err == nil {
					d, _ := f.FrameDataWithMargins(0, 0)
					recs = append(recs, sealedRec{key: string(outKey), prio: frame.MessageType(d[4]).Class() == frame.MessageClassPriorityEncrypted, seq: be32(d[8:12]), when: when})
				}
				f.ReturnToPool()
			}
		}
		sealSome(2+c.Rng.IntN(12), "before")
		bad := lowOrder[c.Rng.IntN(len(lowOrder))]
		role := "server"
		var kxErr error
		if rep%2 == 0 {
			_, _, kxErr = ea.InitKeyServer(bad, kxT)
		} else {
			role = "client"
			if _, _, err := ea.InitKeyClientStart(); err != nil {
				return err
			}
			kxErr = ea.InitKeyClientComplete(bad, kxT)
		}
		sealSome(2+c.Rng.IntN(12), "after")
		c.Eval()
		c.Count("kind:failed-key-exchange-" + role)
		if kxErr == nil {
			c.Count("observation:low-order-key-exchange-accepted")
		}
		c.NonTrivial(fmt.Sprintf("failed-kx/%s/%v", role, kxErr != nil))
		seen := map[string]string{}
		for _, r := range recs {
			id := fmt.Sprintf("%x/%v/%d", r.key, r.prio, r.seq)
			if w, dup := seen[id]; dup && kxErr != nil {
				c.Violate(fmt.Sprintf("sequence number %d (priority class: %v) was used twice under the same key: %s and %s a key exchange that failed (%s role: %v)", r.seq, r.prio, w, r.when, role, kxErr), "nonce-reuse-after-failed-kx",
					map[string]any{"role": role, "seq": r.seq, "prio": r.prio})
				break
			}
			seen[id] = r.when
		}
	}
	return nil
}

func firstKey(e *state.EncryptionSession) []byte {
	in, _ := e.VerifKeys()
	return in
}
