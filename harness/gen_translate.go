package main

// A small Go -> Gallina translator for the scalar, loop-free decision functions the models are
// built around (DESIGN §2.2 "Translated functions").  `harness gen` runs it on /repo's current
// source on every check run and writes the result into Gen.v; the property files prove, for all
// inputs, that each translated function equals the hand-written model function the theorems are
// stated about.  A source change to one of these functions therefore changes a Gallina
// definition and the equivalence proof has to go through again (or breaks).
//
// Supported subset (anything else makes the function "not translatable": the definition is
// replaced by `go_<F>_translated := false` and the obligations that mention it break):
//   - receiver fields, parameters and locals of unsigned integer types (N, wrap written out),
//     int (Z, assumed not to overflow: 64-bit), bool, error (N code, 0 = nil), time.Time (Z),
//     atomic.UintNN fields (Add/Load/Store);
//   - statements: :=, =, op=, ++/--, var, if/else (with init), switch (tagged or not, default,
//     no fallthrough), return (also bare with named results), lock/unlock calls (ignored);
//   - expressions: constants (folded by go/types), + - * & | ^ &^ << >> comparisons && || !,
//     conversions between the integer types, .Equal/.Before/.After on time.Time.

import (
	"fmt"
	"go/ast"
	"go/constant"
	"go/parser"
	"go/token"
	"go/types"
	"os"
	"path/filepath"
	"sort"
	"strings"
)

func init() {
	genSections = append(genSections, genTranslated)
}

type trTarget struct {
	dir  string // package directory under /repo
	recv string // receiver type name ("" for plain functions)
	name string
}

// The functions the models are built around.
var trTargets = []trTarget{
	{"state", "SequenceHandler", "Check"},
	{"state", "SequenceHandler", "RolloverRequired"},
	{"state", "SequenceHandler", "NextOut"},
	{"state", "SequenceHandler", "Reset"},
	{"state", "SequenceHandler", "ResetIn"},
	{"state", "SequenceHandler", "ResetOut"},
	{"state", "TimeSequenceHandler", "Check"},
	{"m", "SwitchLabel", "EncodedSize"},
	{"frame", "MessageType", "Class"},
	{"frame", "MessageType", "IsPriority"},
	{"frame", "MessageType", "IsEncrypted"},
	{"frame", "FrameV1", "TTL"},
	{"frame", "FrameV1", "SetTTL"},
	{"frame", "FrameV1", "ReduceTTL"},
	{"frame", "FrameV1", "FlowControl"},
	{"frame", "FrameV1", "HasFlowFlag"},
	{"frame", "FrameV1", "SetFlowFlag"},
	{"frame", "FrameV1", "RecvRate"},
	{"frame", "FrameV1", "MessageType"},
	{"frame", "FrameV1", "SequenceNum"},
	{"frame", "FrameV1", "SetSequenceNum"},
	{"peering", "LinkFrame", "Length"},
	{"peering", "LinkFrame", "Version"},
	{"peering", "LinkFrame", "SequenceNum"},
	{"peering", "LinkFrame", "SetSequenceNum"},
	{"m", "SwitchPath", "CalculateTotals"},
}

type kindT struct {
	k string // "N", "Z", "bool", "err", "time", "atomic"
	w int    // width for N / atomic
}

func (k kindT) coqType() string {
	switch k.k {
	case "N", "err", "atomic":
		return "N"
	case "Z", "time":
		return "Z"
	case "bool":
		return "bool"
	}
	return "?"
}

func (k kindT) zero() string {
	switch k.k {
	case "N", "err", "atomic":
		return "0%N"
	case "Z", "time":
		return "0%Z"
	case "bool":
		return "false"
	}
	return "?"
}

type fakeImporter struct{ pk map[string]*types.Package }

func (f fakeImporter) Import(path string) (*types.Package, error) {
	if p, ok := f.pk[path]; ok {
		return p, nil
	}
	name := path
	if i := strings.LastIndex(path, "/"); i >= 0 {
		name = path[i+1:]
	}
	if strings.HasPrefix(name, "v") && len(name) <= 3 { // module major version suffix
		rest := path[:strings.LastIndex(path, "/")]
		if i := strings.LastIndex(rest, "/"); i >= 0 {
			name = rest[i+1:]
		}
	}
	p := types.NewPackage(path, name)
	p.MarkComplete()
	f.pk[path] = p
	return p, nil
}

type trPkg struct {
	fset  *token.FileSet
	files []*ast.File
	info  *types.Info
}

var trPkgCache = map[string]*trPkg{}

func loadTrPkg(dir string) (*trPkg, error) {
	if p, ok := trPkgCache[dir]; ok {
		return p, nil
	}
	fset := token.NewFileSet()
	matches, _ := filepath.Glob(filepath.Join(repoRoot(), dir, "*.go"))
	sort.Strings(matches)
	var files []*ast.File
	for _, fn := range matches {
		if strings.HasSuffix(fn, "_test.go") || strings.HasPrefix(filepath.Base(fn), "verif_") {
			continue
		}
		f, err := parser.ParseFile(fset, fn, nil, 0)
		if err != nil {
			return nil, err
		}
		files = append(files, f)
	}
	info := &types.Info{
		Types: map[ast.Expr]types.TypeAndValue{},
		Defs:  map[*ast.Ident]types.Object{},
		Uses:  map[*ast.Ident]types.Object{},
	}
	conf := types.Config{Importer: fakeImporter{map[string]*types.Package{}}, Error: func(error) {}, DisableUnusedImportCheck: true}
	_, _ = conf.Check("github.com/mycoria/mycoria/"+dir, fset, files, info)
	p := &trPkg{fset, files, info}
	trPkgCache[dir] = p
	return p, nil
}

type trErr struct{ msg string }

func (e trErr) Error() string { return e.msg }

func trFail(format string, a ...any) { panic(trErr{fmt.Sprintf(format, a...)}) }

type translator struct {
	p         *trPkg
	fn        *ast.FuncDecl
	recvName  string           // receiver identifier
	recvObj   types.Object     // receiver object
	ptrRecv   bool             // pointer receiver to a struct (fields) vs. scalar value receiver
	sliceRecv bool             // value receiver of a byte-slice type: recv[k] with constant k is a byte variable
	bytefld   map[string]bool  // struct fields of type []byte
	fields    []string         // struct field order
	fkind     map[string]kindT // field kinds (translatable ones)
	used      map[string]bool  // fields referenced
	mutated   map[string]bool  // fields assigned
	names     map[types.Object]string
	taken     map[string]bool
	kinds     map[types.Object]kindT
	results   []kindT
	resNames  []types.Object // named results (nil entries when unnamed)
	errCodes  map[string]int
	errOrder  []string
	hopsFld   map[string]bool   // struct fields of type []SwitchHop: a list of (Delay, ForwardLabel, ReturnLabel)
	rangeObj  types.Object      // the value variable of the range loop being translated
	rangeFlds map[string]string // its fields -> bound names
}

func typeText(fset *token.FileSet, e ast.Expr) string { return nodeText(fset, e) }

func kindOfBasic(b *types.Basic) (kindT, bool) {
	switch b.Kind() {
	case types.Uint8:
		return kindT{"N", 8}, true
	case types.Uint16:
		return kindT{"N", 16}, true
	case types.Uint32:
		return kindT{"N", 32}, true
	case types.Uint64, types.Uint, types.Uintptr:
		return kindT{"N", 64}, true
	case types.Int, types.Int64, types.UntypedInt:
		return kindT{"Z", 64}, true
	case types.Bool, types.UntypedBool:
		return kindT{"bool", 0}, true
	}
	return kindT{}, false
}

func (t *translator) kindOfType(ty types.Type) (kindT, bool) {
	if ty == nil {
		return kindT{}, false
	}
	if b, ok := ty.Underlying().(*types.Basic); ok {
		return kindOfBasic(b)
	}
	if ty.String() == "error" {
		return kindT{"err", 0}, true
	}
	return kindT{}, false
}

// kindOfTypeExpr: kind of a declared type, from go/types where it resolves, from the type's
// text for the library types the translator knows (time.Time, atomic.UintNN).
func (t *translator) kindOfTypeExpr(e ast.Expr) (kindT, bool) {
	switch typeText(t.p.fset, e) {
	case "time.Time":
		return kindT{"time", 0}, true
	case "atomic.Uint32":
		return kindT{"atomic", 32}, true
	case "atomic.Uint64":
		return kindT{"atomic", 64}, true
	case "error":
		return kindT{"err", 0}, true
	}
	if tv, ok := t.p.info.Types[e]; ok {
		return t.kindOfType(tv.Type)
	}
	return kindT{}, false
}

func (t *translator) fresh(base string) string {
	n := base
	for i := 1; t.taken[n]; i++ {
		n = fmt.Sprintf("%s_%d", base, i)
	}
	t.taken[n] = true
	return n
}

func (t *translator) declare(obj types.Object, k kindT) string {
	if n, ok := t.names[obj]; ok {
		return n
	}
	n := t.fresh("v_" + obj.Name())
	t.names[obj] = n
	t.kinds[obj] = k
	return n
}

func findStruct(p *trPkg, name string) *ast.StructType {
	for _, f := range p.files {
		for _, d := range f.Decls {
			gd, ok := d.(*ast.GenDecl)
			if !ok {
				continue
			}
			for _, s := range gd.Specs {
				ts, ok := s.(*ast.TypeSpec)
				if ok && ts.Name.Name == name {
					if st, ok := ts.Type.(*ast.StructType); ok {
						return st
					}
				}
			}
		}
	}
	return nil
}

func findFunc(p *trPkg, recv, name string) *ast.FuncDecl {
	for _, f := range p.files {
		for _, d := range f.Decls {
			fd, ok := d.(*ast.FuncDecl)
			if !ok || fd.Name.Name != name || fd.Body == nil {
				continue
			}
			r := ""
			if fd.Recv != nil && len(fd.Recv.List) == 1 {
				switch x := fd.Recv.List[0].Type.(type) {
				case *ast.StarExpr:
					if id, ok := x.X.(*ast.Ident); ok {
						r = id.Name
					}
				case *ast.Ident:
					r = x.Name
				}
			}
			if r == recv {
				return fd
			}
		}
	}
	return nil
}

// ---------- expressions ----------

func lit(v constant.Value, k kindT) string {
	switch k.k {
	case "N", "err", "atomic":
		return fmt.Sprintf("%s%%N", v.ExactString())
	case "Z", "time":
		s := v.ExactString()
		if strings.HasPrefix(s, "-") {
			return fmt.Sprintf("(%s)%%Z", s)
		}
		return fmt.Sprintf("%s%%Z", s)
	case "bool":
		if constant.BoolVal(v) {
			return "true"
		}
		return "false"
	}
	trFail("constant of unsupported kind")
	return ""
}

// constIndex returns the value of a constant, non-negative index expression.
func (t *translator) constIndex(e ast.Expr) (int, bool) {
	tv, ok := t.p.info.Types[ast.Unparen(e)]
	if !ok || tv.Value == nil || tv.Value.Kind() != constant.Int {
		return 0, false
	}
	v, exact := constant.Int64Val(tv.Value)
	if !exact || v < 0 || v > 1<<20 {
		return 0, false
	}
	return int(v), true
}

// byteBase recognises the byte slices whose elements at constant positions are treated as byte
// variables: a []byte field of the pointer receiver (recv.data) or a byte-slice value receiver.
func (t *translator) byteBase(e ast.Expr) (string, bool) {
	e = ast.Unparen(e)
	if t.sliceRecv {
		if id, ok := e.(*ast.Ident); ok && t.p.info.Uses[id] == t.recvObj {
			return "self", true
		}
	}
	if sel, ok := e.(*ast.SelectorExpr); ok && t.ptrRecv {
		if id, ok := sel.X.(*ast.Ident); ok && t.p.info.Uses[id] == t.recvObj && t.bytefld[sel.Sel.Name] {
			return sel.Sel.Name, true
		}
	}
	return "", false
}

// byteElem: base[k] with constant k  ->  pseudo field "base_k" (a byte)
func (t *translator) byteElem(e ast.Expr) (string, bool) {
	ix, ok := ast.Unparen(e).(*ast.IndexExpr)
	if !ok {
		return "", false
	}
	base, ok := t.byteBase(ix.X)
	if !ok {
		return "", false
	}
	k, ok := t.constIndex(ix.Index)
	if !ok {
		return "", false
	}
	name := fmt.Sprintf("%s_%d", base, k)
	t.fkind[name] = kindT{"N", 8}
	return name, true
}

// byteRange: base[a:b] with constant bounds -> the pseudo fields base_a .. base_(b-1)
func (t *translator) byteRange(e ast.Expr) ([]string, bool) {
	sl, ok := ast.Unparen(e).(*ast.SliceExpr)
	if !ok || sl.Slice3 {
		return nil, false
	}
	base, ok := t.byteBase(sl.X)
	if !ok {
		return nil, false
	}
	lo := 0
	if sl.Low != nil {
		if lo, ok = t.constIndex(sl.Low); !ok {
			return nil, false
		}
	}
	if sl.High == nil {
		return nil, false
	}
	hi, ok := t.constIndex(sl.High)
	if !ok || hi < lo || hi-lo > 8 {
		return nil, false
	}
	var out []string
	for k := lo; k < hi; k++ {
		name := fmt.Sprintf("%s_%d", base, k)
		t.fkind[name] = kindT{"N", 8}
		out = append(out, name)
	}
	return out, true
}

// bigEndianGet recognises m.GetUint16/32/64(base[a:b]) (package m of mycoria: big endian)
func (t *translator) bigEndianGet(c *ast.CallExpr) (string, kindT, bool) {
	sel, ok := c.Fun.(*ast.SelectorExpr)
	if !ok || len(c.Args) != 1 {
		return "", kindT{}, false
	}
	n := map[string]int{"GetUint16": 2, "GetUint32": 4, "GetUint64": 8}[sel.Sel.Name]
	if n == 0 {
		return "", kindT{}, false
	}
	bs, ok := t.byteRange(c.Args[0])
	if !ok || len(bs) != n {
		return "", kindT{}, false
	}
	out := ""
	for i, b := range bs {
		t.used[b] = true
		if i == 0 {
			out = "f_" + b
		} else {
			out = fmt.Sprintf("(%s * 256 + f_%s)", out, b)
		}
	}
	return out, kindT{"N", n * 8}, true
}

// fieldOf: recv.f  ->  field name
func (t *translator) fieldOf(e ast.Expr) (string, bool) {
	if name, ok := t.byteElem(e); ok {
		return name, true
	}
	sel, ok := e.(*ast.SelectorExpr)
	if !ok || !t.ptrRecv {
		return "", false
	}
	id, ok := sel.X.(*ast.Ident)
	if !ok || t.p.info.Uses[id] != t.recvObj {
		return "", false
	}
	return sel.Sel.Name, true
}

func (t *translator) exprKind(e ast.Expr) kindT {
	e = ast.Unparen(e)
	if _, ok := t.rangeField(e); ok {
		return kindT{"N", 16}
	}
	if f, ok := t.fieldOf(e); ok {
		if k, ok := t.fkind[f]; ok {
			return k
		}
		trFail("field %s has an unsupported type", f)
	}
	if id, ok := e.(*ast.Ident); ok {
		if obj := t.p.info.Uses[id]; obj != nil {
			if k, ok := t.kinds[obj]; ok {
				return k
			}
		}
	}
	if call, ok := e.(*ast.CallExpr); ok {
		if _, k, ok := t.bigEndianGet(call); ok {
			return k
		}
		if sel, ok := call.Fun.(*ast.SelectorExpr); ok {
			switch sel.Sel.Name {
			case "Equal", "Before", "After":
				if t.exprKind(sel.X).k == "time" {
					return kindT{"bool", 0}
				}
			case "Add", "Load":
				if f, ok := t.fieldOf(sel.X); ok && t.fkind[f].k == "atomic" {
					return kindT{"N", t.fkind[f].w}
				}
			}
		}
	}
	if tv, ok := t.p.info.Types[e]; ok {
		if k, ok := t.kindOfType(tv.Type); ok {
			return k
		}
	}
	trFail("expression %s has an unsupported type", nodeText(t.p.fset, e))
	return kindT{}
}

func (t *translator) expr(e ast.Expr) string {
	e = ast.Unparen(e)
	// constants are folded by the type checker
	if tv, ok := t.p.info.Types[e]; ok && tv.Value != nil {
		if k, ok := t.kindOfType(tv.Type); ok {
			return lit(tv.Value, k)
		}
	}
	switch x := e.(type) {
	case *ast.Ident:
		if x.Name == "true" || x.Name == "false" {
			return x.Name
		}
		obj := t.p.info.Uses[x]
		if obj == nil {
			trFail("unresolved identifier %s", x.Name)
		}
		if n, ok := t.names[obj]; ok {
			return n
		}
		trFail("identifier %s is not a parameter, local or constant", x.Name)
	case *ast.SelectorExpr:
		if n, ok := t.rangeField(x); ok {
			return n
		}
		if f, ok := t.fieldOf(x); ok {
			k, ok := t.fkind[f]
			if !ok || k.k == "atomic" {
				trFail("field %s cannot be read directly", f)
			}
			t.used[f] = true
			return "f_" + f
		}
		trFail("unsupported selector %s", nodeText(t.p.fset, x))
	case *ast.IndexExpr:
		if f, ok := t.byteElem(x); ok {
			t.used[f] = true
			return "f_" + f
		}
		trFail("unsupported index expression %s", nodeText(t.p.fset, x))
	case *ast.UnaryExpr:
		k := t.exprKind(x)
		a := t.expr(x.X)
		switch x.Op {
		case token.NOT:
			return "(negb " + a + ")"
		case token.SUB:
			if k.k == "Z" {
				return "(Z.opp " + a + ")"
			}
			return fmt.Sprintf("(go_sub %d 0%%N %s)", k.w, a)
		case token.XOR:
			if k.k == "N" {
				return fmt.Sprintf("(go_not %d %s)", k.w, a)
			}
		case token.ADD:
			return a
		}
		trFail("unsupported unary operator %s", x.Op)
	case *ast.BinaryExpr:
		return t.binary(x.Op, x.X, x.Y, t.exprKind(x))
	case *ast.CallExpr:
		return t.call(x)
	}
	trFail("unsupported expression %s", nodeText(t.p.fset, e))
	return ""
}

// shift count as N
func (t *translator) shiftCount(e ast.Expr) string {
	k := t.exprKind(e)
	s := t.expr(e)
	if k.k == "Z" {
		if tv, ok := t.p.info.Types[ast.Unparen(e)]; ok && tv.Value != nil && constant.Sign(tv.Value) >= 0 {
			return tv.Value.ExactString() + "%N"
		}
		trFail("signed non-constant shift count")
	}
	return s
}

func (t *translator) binary(op token.Token, xe, ye ast.Expr, rk kindT) string {
	switch op {
	case token.LAND:
		return "(andb " + t.expr(xe) + " " + t.expr(ye) + ")"
	case token.LOR:
		return "(orb " + t.expr(xe) + " " + t.expr(ye) + ")"
	case token.SHL, token.SHR:
		if rk.k != "N" {
			trFail("shift of a signed value")
		}
		a, c := t.expr(xe), t.shiftCount(ye)
		if op == token.SHL {
			return fmt.Sprintf("(go_shl %d %s %s)", rk.w, a, c)
		}
		return fmt.Sprintf("(N.shiftr %s %s)", a, c)
	}
	ok := t.exprKind(xe)
	if yk := t.exprKind(ye); yk != ok {
		// untyped constants take the other operand's kind
		if tv, has := t.p.info.Types[ast.Unparen(xe)]; has && tv.Value != nil {
			ok = yk
		} else if tv, has := t.p.info.Types[ast.Unparen(ye)]; !(has && tv.Value != nil) {
			trFail("operands of different kinds in %s", nodeText(t.p.fset, xe)+op.String()+nodeText(t.p.fset, ye))
		}
	}
	a, b := t.exprAs(xe, ok), t.exprAs(ye, ok)
	mod := "N"
	if ok.k == "Z" || ok.k == "time" {
		mod = "Z"
	}
	switch op {
	case token.EQL:
		if ok.k == "bool" {
			return "(Bool.eqb " + a + " " + b + ")"
		}
		return fmt.Sprintf("(%s.eqb %s %s)", mod, a, b)
	case token.NEQ:
		if ok.k == "bool" {
			return "(negb (Bool.eqb " + a + " " + b + "))"
		}
		return fmt.Sprintf("(negb (%s.eqb %s %s))", mod, a, b)
	case token.LSS:
		return fmt.Sprintf("(%s.ltb %s %s)", mod, a, b)
	case token.LEQ:
		return fmt.Sprintf("(%s.leb %s %s)", mod, a, b)
	case token.GTR:
		return fmt.Sprintf("(%s.ltb %s %s)", mod, b, a)
	case token.GEQ:
		return fmt.Sprintf("(%s.leb %s %s)", mod, b, a)
	}
	if ok.k == "Z" {
		switch op {
		case token.ADD:
			return "(Z.add " + a + " " + b + ")"
		case token.SUB:
			return "(Z.sub " + a + " " + b + ")"
		case token.MUL:
			return "(Z.mul " + a + " " + b + ")"
		}
		trFail("unsupported int operator %s", op)
	}
	if ok.k != "N" {
		trFail("operator %s on unsupported kind", op)
	}
	switch op {
	case token.ADD:
		return fmt.Sprintf("(go_add %d %s %s)", ok.w, a, b)
	case token.SUB:
		return fmt.Sprintf("(go_sub %d %s %s)", ok.w, a, b)
	case token.MUL:
		return fmt.Sprintf("(go_mul %d %s %s)", ok.w, a, b)
	case token.AND:
		return "(N.land " + a + " " + b + ")"
	case token.OR:
		return "(N.lor " + a + " " + b + ")"
	case token.XOR:
		return "(N.lxor " + a + " " + b + ")"
	case token.AND_NOT:
		return "(N.ldiff " + a + " " + b + ")"
	}
	trFail("unsupported operator %s", op)
	return ""
}

// exprAs translates e; a constant is emitted in kind k
func (t *translator) exprAs(e ast.Expr, k kindT) string {
	if tv, ok := t.p.info.Types[ast.Unparen(e)]; ok && tv.Value != nil && (k.k == "N" || k.k == "Z") && tv.Value.Kind() == constant.Int {
		return lit(tv.Value, k)
	}
	return t.expr(e)
}

func (t *translator) call(c *ast.CallExpr) string {
	if v, _, ok := t.bigEndianGet(c); ok {
		return v
	}
	// conversion
	if tv, ok := t.p.info.Types[c.Fun]; ok && tv.IsType() && len(c.Args) == 1 {
		dk, ok := t.kindOfType(tv.Type)
		if !ok {
			trFail("conversion to unsupported type %s", nodeText(t.p.fset, c.Fun))
		}
		sk := t.exprKind(c.Args[0])
		a := t.expr(c.Args[0])
		switch {
		case sk.k == "N" && dk.k == "N":
			if dk.w >= sk.w {
				return a
			}
			return fmt.Sprintf("(go_conv %d %s)", dk.w, a)
		case sk.k == "N" && dk.k == "Z":
			if sk.w >= 64 {
				trFail("uint64 -> int conversion")
			}
			return "(Z.of_N " + a + ")"
		case sk.k == "Z" && dk.k == "N":
			return fmt.Sprintf("(go_conv_z %d %s)", dk.w, a)
		case sk.k == "Z" && dk.k == "Z":
			return a
		}
		trFail("unsupported conversion")
	}
	if sel, ok := c.Fun.(*ast.SelectorExpr); ok {
		switch sel.Sel.Name {
		case "Equal", "Before", "After":
			if len(c.Args) == 1 && t.exprKind(sel.X).k == "time" && t.exprKind(c.Args[0]).k == "time" {
				a, b := t.expr(sel.X), t.expr(c.Args[0])
				switch sel.Sel.Name {
				case "Equal":
					return "(Z.eqb " + a + " " + b + ")"
				case "Before":
					return "(Z.ltb " + a + " " + b + ")"
				default:
					return "(Z.ltb " + b + " " + a + ")"
				}
			}
		case "Load":
			if f, ok := t.fieldOf(sel.X); ok && t.fkind[f].k == "atomic" && len(c.Args) == 0 {
				t.used[f] = true
				return "f_" + f
			}
		}
	}
	if id, ok := c.Fun.(*ast.Ident); ok && id.Name == "len" && len(c.Args) == 1 {
		if f, ok := t.fieldOf(c.Args[0]); ok && t.hopsFld[f] {
			t.used[f] = true
			return "(Z.of_nat (length f_" + f + "))"
		}
	}
	trFail("unsupported call %s", nodeText(t.p.fset, c))
	return ""
}

// rangeField: hop.Delay / hop.ForwardLabel / hop.ReturnLabel of the current range variable
func (t *translator) rangeField(e ast.Expr) (string, bool) {
	sel, ok := e.(*ast.SelectorExpr)
	if !ok || t.rangeObj == nil {
		return "", false
	}
	id, ok := sel.X.(*ast.Ident)
	if !ok || t.p.info.Uses[id] != t.rangeObj {
		return "", false
	}
	n, ok := t.rangeFlds[sel.Sel.Name]
	if !ok {
		trFail("field %s of the range variable is not translated", sel.Sel.Name)
	}
	return n, true
}

// ---------- statements (continuation style) ----------

// allFields: the struct fields in declaration order, then the byte variables (base_k) sorted by
// base and position; the sets used/mutated are complete from the first pass.
func (t *translator) allFields() []string {
	seen := map[string]bool{}
	var out []string
	for _, f := range t.fields {
		if !seen[f] {
			seen[f] = true
			out = append(out, f)
		}
	}
	var pseudo []string
	for f := range t.used {
		if !seen[f] && strings.Contains(f, "_") {
			pseudo = append(pseudo, f)
		}
	}
	for f := range t.mutated {
		if !seen[f] && strings.Contains(f, "_") && !t.used[f] {
			pseudo = append(pseudo, f)
		}
	}
	sort.Slice(pseudo, func(i, j int) bool {
		bi, ki := splitPseudo(pseudo[i])
		bj, kj := splitPseudo(pseudo[j])
		if bi != bj {
			return bi < bj
		}
		return ki < kj
	})
	for _, f := range pseudo {
		if !seen[f] {
			seen[f] = true
			out = append(out, f)
			if _, ok := t.fkind[f]; !ok {
				t.fkind[f] = kindT{"N", 8}
			}
		}
	}
	return out
}

func splitPseudo(s string) (string, int) {
	i := strings.LastIndex(s, "_")
	k := 0
	fmt.Sscanf(s[i+1:], "%d", &k)
	return s[:i], k
}

func (t *translator) ret(vals []string) string {
	var parts []string
	for _, f := range t.allFields() {
		if t.mutated[f] {
			parts = append(parts, "f_"+f)
		}
	}
	parts = append(parts, vals...)
	if len(parts) == 0 {
		return "tt"
	}
	if len(parts) == 1 {
		return parts[0]
	}
	return "(" + strings.Join(parts, ", ") + ")"
}

func (t *translator) errCode(e ast.Expr) string {
	e = ast.Unparen(e)
	if id, ok := e.(*ast.Ident); ok && id.Name == "nil" {
		return "0%N"
	}
	key := ""
	switch x := e.(type) {
	case *ast.Ident:
		key = x.Name
	case *ast.CallExpr:
		key = "error:" + nodeText(t.p.fset, x.Fun)
	default:
		trFail("unsupported error value %s", nodeText(t.p.fset, e))
	}
	if _, ok := t.errCodes[key]; !ok {
		t.errCodes[key] = len(t.errCodes) + 1
		t.errOrder = append(t.errOrder, key)
	}
	return fmt.Sprintf("%d%%N", t.errCodes[key])
}

func isLockStmt(fset *token.FileSet, s ast.Stmt) bool {
	var call *ast.CallExpr
	switch x := s.(type) {
	case *ast.ExprStmt:
		call, _ = x.X.(*ast.CallExpr)
	case *ast.DeferStmt:
		call = x.Call
	}
	if call == nil {
		return false
	}
	sel, ok := call.Fun.(*ast.SelectorExpr)
	if !ok || len(call.Args) != 0 {
		return false
	}
	switch sel.Sel.Name {
	case "Lock", "Unlock", "RLock", "RUnlock":
		return true
	}
	return false
}

// assign target: returns the Coq name bound, marking fields
func (t *translator) target(lhs ast.Expr, define bool, k kindT) string {
	lhs = ast.Unparen(lhs)
	if f, ok := t.fieldOf(lhs); ok {
		fk, ok := t.fkind[f]
		if !ok || fk.k == "atomic" {
			trFail("assignment to unsupported field %s", f)
		}
		t.used[f] = true
		t.mutated[f] = true
		return "f_" + f
	}
	id, ok := lhs.(*ast.Ident)
	if !ok {
		trFail("unsupported assignment target %s", nodeText(t.p.fset, lhs))
	}
	if id.Name == "_" {
		return "_"
	}
	if obj := t.p.info.Defs[id]; obj != nil && define {
		return t.declare(obj, k)
	}
	obj := t.p.info.Uses[id]
	if obj == nil {
		obj = t.p.info.Defs[id]
	}
	if n, ok := t.names[obj]; ok {
		return n
	}
	trFail("assignment to unknown variable %s", id.Name)
	return ""
}

var assignOps = map[token.Token]token.Token{
	token.ADD_ASSIGN: token.ADD, token.SUB_ASSIGN: token.SUB, token.MUL_ASSIGN: token.MUL,
	token.AND_ASSIGN: token.AND, token.OR_ASSIGN: token.OR, token.XOR_ASSIGN: token.XOR,
	token.SHL_ASSIGN: token.SHL, token.SHR_ASSIGN: token.SHR, token.AND_NOT_ASSIGN: token.AND_NOT,
}

func ind(n int) string { return strings.Repeat("  ", n) }

// atomicAdd recognises recv.f.Add(e) and returns (field, translated new value)
func (t *translator) atomicCall(e ast.Expr) (field, method string, args []ast.Expr, ok bool) {
	c, isCall := ast.Unparen(e).(*ast.CallExpr)
	if !isCall {
		return
	}
	sel, isSel := c.Fun.(*ast.SelectorExpr)
	if !isSel {
		return
	}
	f, isField := t.fieldOf(sel.X)
	if !isField || t.fkind[f].k != "atomic" {
		return
	}
	return f, sel.Sel.Name, c.Args, true
}

// stmts translates a statement list followed by the continuation k (the statements after the
// enclosing construct); d is the indentation depth.
func (t *translator) stmts(list []ast.Stmt, k func(d int) string, d int) string {
	if len(list) == 0 {
		return k(d)
	}
	s, rest := list[0], list[1:]
	next := func(d int) string { return t.stmts(rest, k, d) }
	if isLockStmt(t.p.fset, s) {
		return next(d)
	}
	switch x := s.(type) {
	case *ast.ReturnStmt:
		var vals []string
		if len(x.Results) == 0 {
			for i, o := range t.resNames {
				if o == nil {
					trFail("bare return without named results")
				}
				_ = i
				vals = append(vals, t.names[o])
			}
		} else {
			if len(x.Results) != len(t.results) {
				trFail("return arity")
			}
			for i, r := range x.Results {
				if t.results[i].k == "err" {
					vals = append(vals, t.errCode(r))
				} else {
					vals = append(vals, t.exprAs(r, t.results[i]))
				}
			}
		}
		return ind(d) + t.ret(vals)
	case *ast.BlockStmt:
		return t.stmts(append(append([]ast.Stmt{}, x.List...), rest...), k, d)
	case *ast.EmptyStmt:
		return next(d)
	case *ast.ExprStmt:
		// m.PutUint16/32/64(base[a:b], v): big-endian store into byte variables
		if call, ok := x.X.(*ast.CallExpr); ok {
			if sel, ok := call.Fun.(*ast.SelectorExpr); ok && len(call.Args) == 2 {
				if n := map[string]int{"PutUint16": 2, "PutUint32": 4, "PutUint64": 8}[sel.Sel.Name]; n > 0 {
					if bs, ok := t.byteRange(call.Args[0]); ok && len(bs) == n {
						v := t.exprAs(call.Args[1], kindT{"N", n * 8})
						tmp := t.fresh("tmp")
						out := fmt.Sprintf("%slet %s := %s in\n", ind(d), tmp, v)
						for i, b := range bs {
							t.used[b] = true
							t.mutated[b] = true
							out += fmt.Sprintf("%slet f_%s := (N.shiftr %s %d mod 256) in\n", ind(d), b, tmp, 8*(n-1-i))
						}
						return out + next(d)
					}
				}
			}
		}
		// atomic Store / Add as a statement
		if f, m, args, ok := t.atomicCall(x.X); ok {
			fk := t.fkind[f]
			t.used[f] = true
			t.mutated[f] = true
			switch {
			case m == "Store" && len(args) == 1:
				return fmt.Sprintf("%slet f_%s := %s in\n%s", ind(d), f, t.exprAs(args[0], kindT{"N", fk.w}), next(d))
			case m == "Add" && len(args) == 1:
				return fmt.Sprintf("%slet f_%s := (go_add %d f_%s %s) in\n%s", ind(d), f, fk.w, f, t.exprAs(args[0], kindT{"N", fk.w}), next(d))
			}
		}
		trFail("unsupported statement %s", nodeText(t.p.fset, s))
	case *ast.IncDecStmt:
		kd := t.exprKind(x.X)
		op := token.ADD
		if x.Tok == token.DEC {
			op = token.SUB
		}
		one := &ast.BasicLit{Kind: token.INT, Value: "1"}
		_ = one
		cur := t.expr(x.X)
		var v string
		if kd.k == "Z" {
			v = fmt.Sprintf("(Z.%s %s 1%%Z)", map[token.Token]string{token.ADD: "add", token.SUB: "sub"}[op], cur)
		} else {
			v = fmt.Sprintf("(go_%s %d %s 1%%N)", map[token.Token]string{token.ADD: "add", token.SUB: "sub"}[op], kd.w, cur)
		}
		n := t.target(x.X, false, kd)
		return fmt.Sprintf("%slet %s := %s in\n%s", ind(d), n, v, next(d))
	case *ast.DeclStmt:
		gd, ok := x.Decl.(*ast.GenDecl)
		if !ok || gd.Tok != token.VAR {
			trFail("unsupported declaration")
		}
		out := ""
		for _, sp := range gd.Specs {
			vs := sp.(*ast.ValueSpec)
			for i, id := range vs.Names {
				obj := t.p.info.Defs[id]
				var kd kindT
				if vs.Type != nil {
					var ok bool
					kd, ok = t.kindOfTypeExpr(vs.Type)
					if !ok {
						trFail("variable %s has an unsupported type", id.Name)
					}
				} else {
					kd = t.exprKind(vs.Values[i])
				}
				val := kd.zero()
				if i < len(vs.Values) {
					val = t.exprAs(vs.Values[i], kd)
				}
				n := t.declare(obj, kd)
				out += fmt.Sprintf("%slet %s := %s in\n", ind(d), n, val)
			}
		}
		return out + next(d)
	case *ast.AssignStmt:
		if len(x.Lhs) != len(x.Rhs) {
			trFail("unsupported multi-value assignment")
		}
		// evaluate all right-hand sides first (Go semantics), then bind
		type bnd struct{ name, val string }
		var tmp []bnd
		var binds []bnd
		for i := range x.Lhs {
			// atomic Add with its value used: v := recv.f.Add(e)
			if f, m, args, ok := t.atomicCall(x.Rhs[i]); ok && m == "Add" && len(args) == 1 && (x.Tok == token.DEFINE || x.Tok == token.ASSIGN) && len(x.Lhs) == 1 {
				fk := t.fkind[f]
				t.used[f] = true
				t.mutated[f] = true
				kd := kindT{"N", fk.w}
				n := t.target(x.Lhs[0], x.Tok == token.DEFINE, kd)
				return fmt.Sprintf("%slet f_%s := (go_add %d f_%s %s) in\n%slet %s := f_%s in\n%s",
					ind(d), f, fk.w, f, t.exprAs(args[0], kd), ind(d), n, f, next(d))
			}
			var val string
			var kd kindT
			if op, ok := assignOps[x.Tok]; ok {
				kd = t.exprKind(x.Lhs[i])
				val = t.binary(op, x.Lhs[i], x.Rhs[i], kd)
			} else {
				if x.Tok == token.DEFINE {
					kd = t.exprKind(x.Rhs[i])
				} else {
					kd = t.exprKind(x.Lhs[i])
				}
				val = t.exprAs(x.Rhs[i], kd)
			}
			if len(x.Lhs) == 1 {
				n := t.target(x.Lhs[i], x.Tok == token.DEFINE, kd)
				binds = append(binds, bnd{n, val})
			} else {
				tn := t.fresh("tmp")
				tmp = append(tmp, bnd{tn, val})
				n := t.target(x.Lhs[i], x.Tok == token.DEFINE, kd)
				binds = append(binds, bnd{n, tn})
			}
		}
		out := ""
		for _, b := range append(tmp, binds...) {
			if b.name == "_" {
				continue
			}
			out += fmt.Sprintf("%slet %s := %s in\n", ind(d), b.name, b.val)
		}
		return out + next(d)
	case *ast.IfStmt:
		pre := ""
		if x.Init != nil {
			// the init statement's scope is the if; names are unique per object, so a let is enough
			return t.stmts([]ast.Stmt{x.Init, &ast.IfStmt{Cond: x.Cond, Body: x.Body, Else: x.Else}}, func(d int) string { return next(d) }, d)
		}
		c := t.expr(x.Cond)
		var els []ast.Stmt
		if x.Else != nil {
			els = []ast.Stmt{x.Else}
		}
		return pre + fmt.Sprintf("%sif %s then\n%s\n%selse\n%s", ind(d), c,
			t.stmts(x.Body.List, next, d+1), ind(d), t.stmts(els, next, d+1))
	case *ast.RangeStmt:
		// for _, hop := range recv.Hops { body }: a fold over the hop list; the locals the body assigns
		// are the accumulator (same names: the lets shadow)
		f, ok := t.fieldOf(x.X)
		if !ok || !t.hopsFld[f] || t.rangeObj != nil {
			trFail("unsupported range statement %s", nodeText(t.p.fset, x.X))
		}
		if id, ok := x.Key.(*ast.Ident); x.Key != nil && (!ok || id.Name != "_") {
			trFail("range with an index variable")
		}
		vid, ok := x.Value.(*ast.Ident)
		if !ok || x.Tok != token.DEFINE {
			trFail("range without a value variable")
		}
		t.used[f] = true
		var accs []types.Object
		seenAcc := map[types.Object]bool{}
		ast.Inspect(x.Body, func(n ast.Node) bool {
			var lhs []ast.Expr
			switch s := n.(type) {
			case *ast.AssignStmt:
				if s.Tok == token.DEFINE {
					trFail("declaration inside a range body")
				}
				lhs = s.Lhs
			case *ast.IncDecStmt:
				lhs = []ast.Expr{s.X}
			case *ast.BranchStmt, *ast.ReturnStmt, *ast.ForStmt, *ast.RangeStmt:
				trFail("unsupported statement inside a range body")
			}
			for _, l := range lhs {
				id, ok := l.(*ast.Ident)
				if !ok {
					trFail("range body assigns to %s", nodeText(t.p.fset, l))
				}
				if o := t.p.info.Uses[id]; o != nil && !seenAcc[o] {
					if _, known := t.names[o]; !known {
						trFail("range body assigns to an undeclared variable")
					}
					seenAcc[o] = true
					accs = append(accs, o)
				}
			}
			return true
		})
		if len(accs) == 0 {
			trFail("range body without effect")
		}
		var an []string
		for _, o := range accs {
			an = append(an, t.names[o])
		}
		tuple := an[0]
		if len(an) > 1 {
			tuple = "(" + strings.Join(an, ", ") + ")"
		}
		pat := tuple
		if len(an) > 1 {
			pat = "'" + tuple
		}
		t.rangeObj = t.p.info.Defs[vid]
		t.rangeFlds = map[string]string{"Delay": t.fresh("hop_Delay"), "ForwardLabel": t.fresh("hop_ForwardLabel"), "ReturnLabel": t.fresh("hop_ReturnLabel")}
		body := t.stmts(x.Body.List, func(d int) string { return ind(d) + tuple }, d+2)
		hp := fmt.Sprintf("'(%s, %s, %s)", t.rangeFlds["Delay"], t.rangeFlds["ForwardLabel"], t.rangeFlds["ReturnLabel"])
		t.rangeObj, t.rangeFlds = nil, nil
		return fmt.Sprintf("%slet %s := fold_left (fun %s %s =>\n%s) f_%s %s in\n%s", ind(d), pat, pat, hp, body, f, tuple, next(d))
	case *ast.SwitchStmt:
		if x.Init != nil {
			return t.stmts([]ast.Stmt{x.Init, &ast.SwitchStmt{Tag: x.Tag, Body: x.Body}}, next, d)
		}
		var clauses []*ast.CaseClause
		var def *ast.CaseClause
		for _, cs := range x.Body.List {
			cc := cs.(*ast.CaseClause)
			for _, b := range cc.Body {
				if br, ok := b.(*ast.BranchStmt); ok {
					trFail("unsupported branch statement %s in switch", br.Tok)
				}
			}
			if cc.List == nil {
				def = cc
			} else {
				clauses = append(clauses, cc)
			}
		}
		var build func(i int, d int) string
		build = func(i int, d int) string {
			if i == len(clauses) {
				if def != nil {
					return t.stmts(def.Body, next, d)
				}
				return next(d)
			}
			cc := clauses[i]
			var conds []string
			for _, ce := range cc.List {
				if x.Tag != nil {
					kd := t.exprKind(x.Tag)
					conds = append(conds, t.binary(token.EQL, x.Tag, ce, kd))
				} else {
					conds = append(conds, t.expr(ce))
				}
			}
			c := conds[0]
			for _, o := range conds[1:] {
				c = "(orb " + c + " " + o + ")"
			}
			return fmt.Sprintf("%sif %s then\n%s\n%selse\n%s", ind(d), c, t.stmts(cc.Body, next, d+1), ind(d), build(i+1, d+1))
		}
		return build(0, d)
	}
	trFail("unsupported statement %s", nodeText(t.p.fset, s))
	return ""
}

// translateFunc runs the translation twice: the first pass finds which receiver fields the
// function reads and writes (they become parameters / components of the result at EVERY return),
// the second produces the definition.
func translateFunc(tg trTarget) (name, def, doc string, err error) {
	used, mutated := map[string]bool{}, map[string]bool{}
	if name, _, _, err = translateFuncPass(tg, used, mutated); err != nil {
		return
	}
	return translateFuncPass(tg, used, mutated)
}

func translateFuncPass(tg trTarget, used, mutated map[string]bool) (name, def, doc string, err error) {
	name = "go_" + tg.name
	if tg.recv != "" {
		name = "go_" + tg.recv + "_" + tg.name
	}
	defer func() {
		if r := recover(); r != nil {
			if te, ok := r.(trErr); ok {
				err = te
				return
			}
			panic(r)
		}
	}()
	p, e := loadTrPkg(tg.dir)
	if e != nil {
		return name, "", "", e
	}
	fn := findFunc(p, tg.recv, tg.name)
	if fn == nil {
		return name, "", "", fmt.Errorf("function not found")
	}
	t := &translator{p: p, fn: fn, fkind: map[string]kindT{}, used: used, mutated: mutated, bytefld: map[string]bool{}, hopsFld: map[string]bool{},
		names: map[types.Object]string{}, taken: map[string]bool{}, kinds: map[types.Object]kindT{}, errCodes: map[string]int{}}
	var params []string
	if fn.Recv != nil {
		rf := fn.Recv.List[0]
		if len(rf.Names) == 1 {
			t.recvName = rf.Names[0].Name
			t.recvObj = p.info.Defs[rf.Names[0]]
		}
		if _, isPtr := rf.Type.(*ast.StarExpr); isPtr {
			st := findStruct(p, tg.recv)
			if st == nil {
				trFail("receiver struct %s not found", tg.recv)
			}
			t.ptrRecv = true
			for _, f := range st.Fields.List {
				for _, n := range f.Names {
					t.fields = append(t.fields, n.Name)
					if typeText(p.fset, f.Type) == "[]byte" {
						t.bytefld[n.Name] = true
						continue
					}
					if typeText(p.fset, f.Type) == "[]SwitchHop" {
						t.hopsFld[n.Name] = true
						continue
					}
					if k, ok := t.kindOfTypeExpr(f.Type); ok {
						t.fkind[n.Name] = k
					}
				}
			}
		} else if tv, ok := p.info.Types[rf.Type]; ok && tv.Type != nil && tv.Type.Underlying().String() == "[]byte" {
			t.sliceRecv = true
		} else {
			k, ok := t.kindOfTypeExpr(rf.Type)
			if !ok {
				trFail("unsupported value receiver type")
			}
			if t.recvObj != nil {
				params = append(params, fmt.Sprintf("(%s : %s)", t.declare(t.recvObj, k), k.coqType()))
			}
		}
	}
	for _, pf := range fn.Type.Params.List {
		k, ok := t.kindOfTypeExpr(pf.Type)
		if !ok {
			trFail("parameter of unsupported type %s", nodeText(p.fset, pf.Type))
		}
		for _, n := range pf.Names {
			params = append(params, fmt.Sprintf("(%s : %s)", t.declare(p.info.Defs[n], k), k.coqType()))
		}
	}
	pre := ""
	if fn.Type.Results != nil {
		for _, rf := range fn.Type.Results.List {
			k, ok := t.kindOfTypeExpr(rf.Type)
			if !ok {
				trFail("result of unsupported type %s", nodeText(p.fset, rf.Type))
			}
			if len(rf.Names) == 0 {
				t.results = append(t.results, k)
				t.resNames = append(t.resNames, nil)
			}
			for _, n := range rf.Names {
				t.results = append(t.results, k)
				o := p.info.Defs[n]
				t.resNames = append(t.resNames, o)
				pre += fmt.Sprintf("  let %s := %s in\n", t.declare(o, k), k.zero())
			}
		}
	}
	body := t.stmts(fn.Body.List, func(d int) string {
		// falling off the end: only for functions without results (or with named results)
		var vals []string
		for _, o := range t.resNames {
			if o == nil {
				trFail("missing return")
			}
			vals = append(vals, t.names[o])
		}
		return ind(d) + t.ret(vals)
	}, 1)
	t.fields = t.allFields()
	var fparams []string
	for _, f := range t.fields {
		if t.used[f] && t.hopsFld[f] {
			fparams = append(fparams, fmt.Sprintf("(f_%s : list (N * N * N))", f))
		} else if t.used[f] {
			fparams = append(fparams, fmt.Sprintf("(f_%s : %s)", f, t.fkind[f].coqType()))
		}
	}
	var outs []string
	for _, f := range t.fields {
		if t.mutated[f] {
			outs = append(outs, f+"'")
		}
	}
	for i := range t.results {
		outs = append(outs, fmt.Sprintf("result%d", i+1))
	}
	doc = fmt.Sprintf("(* %s/%s: %s%s; returns (%s)", tg.dir, filepath.Base(p.fset.Position(fn.Pos()).Filename), map[bool]string{true: "(" + tg.recv + ") ", false: ""}[tg.recv != ""], tg.name, strings.Join(outs, ", "))
	if len(t.errOrder) > 0 {
		doc += "; error codes: 0 = nil"
		for _, e := range t.errOrder {
			doc += fmt.Sprintf(", %d = %s", t.errCodes[e], e)
		}
	}
	doc += " *)"
	def = fmt.Sprintf("Definition %s %s :=\n%s%s.", name, strings.Join(append(fparams, params...), " "), pre, body)
	return name, def, doc, nil
}

const trPrelude = `(* ---- functions translated from the Go source by harness/gen_translate.go ----
   unsigned machine integers are N with the wrap written out; int is Z *)
Definition go_add (w a b : N) : N := (a + b) mod 2 ^ w.
Definition go_sub (w a b : N) : N := (a + 2 ^ w - b mod 2 ^ w) mod 2 ^ w.
Definition go_mul (w a b : N) : N := (a * b) mod 2 ^ w.
Definition go_shl (w a n : N) : N := (N.shiftl a n) mod 2 ^ w.
Definition go_not (w a : N) : N := N.lxor a (2 ^ w - 1).
Definition go_conv (w a : N) : N := a mod 2 ^ w.
Definition go_conv_z (w : N) (a : Z) : N := Z.to_N (Z.modulo a (Z.of_N (2 ^ w))).

`

func genTranslated(sb *strings.Builder) error {
	sb.WriteString(trPrelude)
	for _, tg := range trTargets {
		name, def, doc, err := translateFunc(tg)
		if err != nil {
			fmt.Fprintf(sb, "(* %s: not translatable: %s *)\nDefinition %s_translated : bool := false.\n\n", name, strings.ReplaceAll(err.Error(), "*)", "* )"), name)
			fmt.Fprintln(os.Stderr, "gen: translate", name+":", err)
			continue
		}
		fmt.Fprintf(sb, "%s\n%s\nDefinition %s_translated : bool := true.\n\n", doc, def, name)
	}
	return nil
}
