package main

import (
	"context"
	"errors"
	"fmt"
	"github.com/mycoria/mycoria/frame"
	"io"
	"net"
	"net/netip"
	"os"
	"path/filepath"
	"runtime"
	"sync"
	"sync/atomic"
	"time"

	mycoria "github.com/mycoria/mycoria"
	"github.com/mycoria/mycoria/config"
	"github.com/mycoria/mycoria/m"
	"github.com/mycoria/mycoria/mgr"
)

func init() { register("C20", runC20) }

// stubModule is a module with a prescribed behaviour in a real mgr.Group.
type stubModule struct {
	idx     int
	mgr     *mgr.Manager
	startOK bool
	stopOK  bool
	exit    bool
	trace   *[]string
	mu      *sync.Mutex
	hold    chan struct{}
}

func (s *stubModule) Manager() *mgr.Manager { return s.mgr }
func (s *stubModule) Start() error {
	s.mu.Lock()
	*s.trace = append(*s.trace, fmt.Sprintf("(CStart %d)", s.idx))
	s.mu.Unlock()
	if !s.startOK {
		return errors.New("stub start failure")
	}
	s.mgr.Go("stub worker", func(w *mgr.WorkerCtx) error {
		if s.exit {
			<-w.Done()
			return nil
		}
		<-s.hold // does not react to cancellation
		return nil
	})
	return nil
}
func (s *stubModule) Stop() error {
	s.mu.Lock()
	*s.trace = append(*s.trace, fmt.Sprintf("(CStop %d)", s.idx))
	s.mu.Unlock()
	if !s.stopOK {
		return errors.New("stub stop failure")
	}
	return nil
}

func freePort() int {
	l, err := net.Listen("tcp", "127.0.0.1:0")
	if err != nil {
		return 0
	}
	defer l.Close()
	return l.Addr().(*net.TCPAddr).Port
}

func goroutines() int {
	// let exiting goroutines finish
	best := runtime.NumGoroutine()
	for i := 0; i < 40; i++ {
		time.Sleep(25 * time.Millisecond)
		n := runtime.NumGoroutine()
		if n < best {
			best = n
		}
	}
	return best
}

func runC20(c *Ctx) error {
	c.Res.Rule = "(a) real mgr.Group with 1..7 stub modules of every behaviour (Start fails at any position, Stop fails, workers that exit on cancellation; in the thorough tier also a worker that ignores cancellation): the trace of Start/Stop calls and the returned status of Start and Stop are compared with the model; " +
		"(b) real relay-only router instances (tun disabled; generated universes, lite/stub flags, services, friends, state file or memory, listeners on free loopback ports written as tcp:PORT and tcp://127.0.0.1:PORT): construct, start, a second instance connects to the first over loopback, the link must appear on both, stop must return success on both, the goroutine count must return to the baseline and the ports must be free again; 1..3 cycles in one process. non-trivial/distinct = distinct (group shape and outcome, configuration class)"
	c.CoqSetup("Prelude SeqCorr Group GroupCorr", "c20_case", "c20_ok")
	// ---------- (a) group logic ----------
	nG := c.Pick(120, 1200)
	for gi := 0; gi < nG; gi++ {
		n := 1 + c.Rng.IntN(7)
		var trace []string
		var mu sync.Mutex
		var mods []mgr.Module
		var mbs []string
		hold := make(chan struct{})
		failAt := -1
		if c.Rng.IntN(2) == 0 {
			failAt = c.Rng.IntN(n)
		}
		for i := 0; i < n; i++ {
			s := &stubModule{idx: i, mgr: mgr.New(fmt.Sprintf("stub%d", i)), startOK: i != failAt, stopOK: c.Rng.IntN(5) != 0, exit: true, trace: &trace, mu: &mu, hold: hold}
			if c.Thorough() && gi%200 == 7 && i == 0 {
				s.exit = false
			}
			mods = append(mods, s)
			mbs = append(mbs, fmt.Sprintf("(mkMb %s %s %s)", coqBool(s.startOK), coqBool(s.stopOK), coqBool(s.exit)))
		}
		g := mgr.NewGroup(mods...)
		err := g.Start()
		t1 := append([]string(nil), trace...)
		trace = nil
		ok1 := err == nil
		t2, ok2 := []string{}, true
		if ok1 {
			ok2 = g.Stop()
			t2 = append([]string(nil), trace...)
		}
		close(hold)
		c.Eval()
		c.Case(fmt.Sprintf("(%s,(%s,%s),(%s,%s))", coqList(mbs), coqList(t1), coqBool(ok1), coqList(t2), coqBool(ok2)), map[string]any{"modules": n, "fail_at": failAt})
		c.NonTrivial(fmt.Sprintf("group/%d/%d/%v", n, failAt, ok2))
		// nothing left running: every started module was stopped
		up := map[string]bool{}
		for _, x := range append(append([]string(nil), t1...), t2...) {
			var i int
			if _, e := fmt.Sscanf(x, "(CStart %d)", &i); e == nil {
				up[fmt.Sprint(i)] = true
			} else if _, e := fmt.Sscanf(x, "(CStop %d)", &i); e == nil {
				delete(up, fmt.Sprint(i))
			}
		}
		if len(up) != 0 {
			c.Violate("after a failed start / a stop of a module group some started module was never stopped", "module-left-running", map[string]any{"modules": n, "fail_at": failAt, "start": t1, "stop": t2})
		}
	}
	c.Count("group-runs")

	// ---------- (b) real relay-only instances ----------
	dir, err := os.MkdirTemp("", "c20-")
	if err != nil {
		return err
	}
	defer os.RemoveAll(dir)
	var ids []*m.Address
	for i := 0; i < 4; i++ {
		a, err := newIdentity()
		if i == 3 {
			// the friend entry of the configurations: friends must lie in an accepted address range
			a, err = newGeoIdentity()
		}
		if err != nil {
			return err
		}
		ids = append(ids, a)
	}
	var special []*m.Address
	for _, p := range []netip.Prefix{m.RoamingPrefix, m.ExperimentsPrefix} {
		if a, _, err := m.GenerateRoutableAddress(context.Background(), []netip.Prefix{p, m.OrganizationPrefix, m.AnycastPrefix}, nil, 12); err == nil && a != nil {
			special = append(special, a)
		}
	}
	// ---------- (a3) the peering module is stopped while a received frame waits for its handler ----------
	// The frame handlers have stopped (the switch is stopped before peering), a frame from the still
	// running neighbour arrives and nobody takes it: the link reader is parked at the hand-over.  Then
	// peering is stopped: all its workers end.
	for rep, n := 0, c.Pick(2, 5); rep < n; rep++ {
		w := newRWorld()
		w.unbufferedHandler = true
		A, err := w.addNode("A", relayStore, nil)
		if err != nil {
			return err
		}
		w.unbufferedHandler = false
		B, err := w.addNode("B", relayStore, nil)
		if err != nil {
			return err
		}
		p, err := linkNodes(w, A, B, nil, nil)
		if err != nil {
			if p != nil {
				p.close()
			}
			return fmt.Errorf("link setup: %w", err)
		}
		for k := 0; k < 1+rep%3; k++ {
			f, err := B.builder.NewFrameV1(B.id.IP, A.id.IP, frame.NetworkTraffic, nil, []byte("a frame that arrives while the router stops"), nil)
			if err != nil {
				return err
			}
			if err := p.lb.Send(f); err != nil {
				f.ReturnToPool()
			}
		}
		time.Sleep(150 * time.Millisecond) // the reader has a frame and waits for a handler
		_ = A.pe.Stop()
		ended := A.pe.Manager().WaitForWorkers(3 * time.Second)
		c.Eval()
		c.Count("stop-with-frame-waiting-for-handler")
		if !ended {
			c.Violate("the peering module was stopped while a received frame waited for its handler, and three seconds later one of its workers is still running", "stop-hangs", map[string]any{"cfg": "peering stopped with a frame waiting for its handler", "frames": 1 + rep%3})
		}
		// let a parked reader go, whatever it was doing
		for drained := false; !drained; {
			select {
			case fr := <-A.peerIn:
				fr.ReturnToPool()
			case <-time.After(50 * time.Millisecond):
				drained = true
			}
		}
		p.close()
	}
	c.NonTrivial("stop-with-frame-waiting-for-handler")
	// ---------- (a2) a worker started right before the stop ----------
	// A module starts a worker and is stopped at once (Cancel, WaitForWorkers, as Group.Stop does it):
	// "no worker left" is reported only when the worker has finished, whether or not the new
	// goroutine had been scheduled when the stop began.
	for rep, n := 0, c.Pick(40, 200); rep < n; rep++ {
		mm := mgr.New(fmt.Sprintf("late%d", rep))
		hold := make(chan struct{})
		var finished atomic.Bool
		ignores := rep%2 == 0
		mm.Go("worker started right before the stop", func(w *mgr.WorkerCtx) error {
			if ignores {
				<-hold // does not react to cancellation
			} else {
				<-w.Done()
			}
			finished.Store(true)
			return nil
		})
		mm.Cancel()
		done := mm.WaitForWorkers(40 * time.Millisecond)
		fin := finished.Load()
		close(hold)
		c.Eval()
		c.Count(fmt.Sprintf("stop-right-after-start:ignores-cancellation=%v", ignores))
		if done && !fin {
			c.Violate("a stop that follows the start of a worker at once reports that no worker is left while that worker has not finished", "worker-missed-by-stop", map[string]any{"ignores_cancellation": ignores})
			break
		}
		if ignores && done {
			c.Violate("a stop reports that no worker is left although a worker that ignores cancellation is still running", "worker-missed-by-stop", map[string]any{"ignores_cancellation": ignores})
			break
		}
		mm.WaitForWorkers(time.Second)
	}
	c.NonTrivial("stop-right-after-start")
	base := goroutines()
	cycles := c.Pick(3, 9)
	for cy := 0; cy < cycles; cy++ {
		portA, portB := freePort(), freePort()
		universe := []string{"", "verse", "ünï"}[c.Rng.IntN(3)]
		secret := ""
		if universe != "" && c.Rng.IntN(2) == 0 {
			secret = "s3cret"
		}
		shortForm := cy%3 == 0 // all spellings of a listen URL in every run: port only, IPv4 literal, IPv6 literal
		host := "127.0.0.1"
		if cy%3 == 2 {
			if l6, err := net.Listen("tcp", "[::1]:0"); err == nil {
				_ = l6.Close()
				host = "[::1]"
			} else {
				c.Note("IPv6 loopback is not available here: the IPv6 literal spelling was skipped")
			}
		}
		listen := func(p int) string {
			if shortForm {
				return fmt.Sprintf("tcp:%d", p)
			}
			return fmt.Sprintf("tcp://%s:%d", host, p)
		}
		mkStore := func(id *m.Address, port int, connect []string, k int) config.Store {
			st := config.Store{
				Router: config.Router{Address: id.Store(), Universe: universe, UniverseSecret: secret, Listen: []string{listen(port)}, Connect: connect,
					Lite: c.Rng.IntN(4) == 0, Stub: c.Rng.IntN(4) == 0},
				System: config.System{DisableTun: true},
			}
			// every third cycle the joining router knows the other one only as a bootstrap entry
			if cy%3 == 2 && len(connect) > 0 {
				st.Router.Bootstrap, st.Router.Connect = connect, nil
			}
			if c.Rng.IntN(2) == 0 {
				st.System.StatePath = filepath.Join(dir, fmt.Sprintf("state-%d-%d.json", cy, k))
			}
			if c.Rng.IntN(2) == 0 {
				st.ServiceConfigs = []config.ServiceConfig{{Name: "web", Domain: "web.myco", URL: "tcp://:80", Public: true, Advertise: true}}
				st.FriendConfigs = []config.FriendConfig{{Name: "pal", IP: ids[3].IP.String()}}
			}
			return st
		}
		label := fmt.Sprintf("cycle=%d/short=%v/host=%s/universe=%q/secret=%v/bootstrap-only=%v/special-range-identities=%v", cy, shortForm, host, universe, secret != "", cy%3 == 2, cy%3 == 1)
		// every third cycle the routers' own addresses come from the ranges without a country marker
		// (roaming, organisation, anycast, experiments): valid identities like any other
		idA, idB := ids[0], ids[1]
		if cy%3 == 1 && len(special) == 2 {
			idA, idB = special[0], special[1]
		}
		stA := mkStore(idA, portA, nil, 0)
		stB := mkStore(idB, portB, []string{fmt.Sprintf("tcp://%s:%d", host, portA)}, 1)
		cfgA, err := stA.Parse()
		if err != nil {
			c.Violate("a valid relay-only configuration does not parse: "+err.Error(), "config-parse", map[string]any{"cfg": label})
			continue
		}
		cfgB, err := stB.Parse()
		if err != nil {
			c.Violate("a valid relay-only configuration does not parse: "+err.Error(), "config-parse", map[string]any{"cfg": label})
			continue
		}
		A, err := mycoria.New("verif", cfgA)
		if err != nil {
			c.Violate("constructing a relay-only router failed: "+err.Error(), "construct", map[string]any{"cfg": label})
			continue
		}
		B, err := mycoria.New("verif", cfgB)
		if err != nil {
			c.Violate("constructing a relay-only router failed: "+err.Error(), "construct", map[string]any{"cfg": label})
			continue
		}
		if err := A.Start(); err != nil {
			c.Violate("starting a relay-only router failed: "+err.Error(), "start", map[string]any{"cfg": label})
			continue
		}
		if err := B.Start(); err != nil {
			c.Violate("starting a relay-only router failed: "+err.Error(), "start", map[string]any{"cfg": label})
			A.Stop()
			continue
		}
		c.Eval()
		// they peer over loopback
		linked := false
		for t := 0; t < 120; t++ {
			time.Sleep(50 * time.Millisecond)
			if A.Peering().GetLink(idB.IP) != nil && B.Peering().GetLink(idA.IP) != nil {
				linked = true
				break
			}
		}
		if !linked {
			c.Violate("two relay-only routers did not peer over loopback within 6 s", "no-peering", map[string]any{"cfg": label})
		}
		running := runtime.NumGoroutine()
		// stop, in either order
		first, second := A, B
		if c.Rng.IntN(2) == 0 {
			first, second = B, A
		}
		stopWithin := func(in *mycoria.Instance, name string) {
			done := make(chan bool, 1)
			go func() { done <- in.Stop() }()
			select {
			case ok := <-done:
				if !ok {
					c.Violate("stopping a relay-only router did not return success", "stop-failed", map[string]any{"cfg": label, "which": name})
				}
			case <-time.After(25 * time.Second):
				c.Violate("stopping a relay-only router did not return within 25 s", "stop-hangs", map[string]any{"cfg": label, "which": name})
			}
		}
		// the router that stops first keeps receiving frames from its still running neighbour while it stops
		streamDone := make(chan struct{})
		var streams sync.WaitGroup
		for g := 0; g < 6; g++ {
			streams.Add(1)
			go func() {
				defer streams.Done()
				firstIP := first.Identity().IP
				for {
					select {
					case <-streamDone:
						return
					default:
					}
					_, _, _ = second.Router().PingPong.Send(firstIP, true, 0)
				}
			}()
		}
		stopWithin(first, "first (under inbound traffic)")
		close(streamDone)
		streams.Wait()
		stopWithin(second, "second")
		c.Eval()
		after := goroutines()
		if after > base+2 {
			c.Violate(fmt.Sprintf("goroutines accumulate over start/stop cycles: %d before the first cycle, %d while running, %d after stopping", base, running, after), "goroutine-leak", map[string]any{"cfg": label, "baseline": base, "after": after})
		}
		for _, p := range []int{portA, portB} {
			l, err := net.Listen("tcp", fmt.Sprintf("%s:%d", host, p))
			if err != nil {
				c.Violate("a listen port is still bound after the router stopped", "port-still-bound", map[string]any{"cfg": label, "port": p})
			} else {
				_ = l.Close()
			}
		}
		c.Count("instance-cycle")
		c.NonTrivial(fmt.Sprintf("instance/short=%v/universe=%v/secret=%v/linked=%v", shortForm, universe != "", secret != "", linked))
		c.Sample(map[string]any{"cfg": label, "linked": linked, "goroutines_running": running, "goroutines_after": after, "baseline": base})
	}

	// ---------- a router restarts from the state file of a run in which it learned nothing ----------
	// Cycle 1: the router runs alone with a state file and is stopped (the file holds no router).
	// Cycle 2: constructed again from the same file, it peers with a second router like any other.
	for rep, n := 0, c.Pick(1, 3); rep < n; rep++ {
		portA, portB := freePort(), freePort()
		statePath := filepath.Join(dir, fmt.Sprintf("restart-%d.json", rep))
		mk := func(id *m.Address, port int, connect []string, sp string) config.Store {
			return config.Store{Router: config.Router{Address: id.Store(), Listen: []string{fmt.Sprintf("tcp://127.0.0.1:%d", port)}, Connect: connect},
				System: config.System{DisableTun: true, StatePath: sp}}
		}
		rep2 := map[string]any{"cfg": "restart-from-own-state-file"}
		cfgA1, err := mk(ids[0], portA, nil, statePath).Parse()
		if err != nil {
			c.Violate("a valid relay-only configuration does not parse: "+err.Error(), "config-parse", rep2)
			break
		}
		A1, err := mycoria.New("verif", cfgA1)
		if err != nil {
			c.Violate("constructing a relay-only router failed: "+err.Error(), "construct", rep2)
			break
		}
		if err := A1.Start(); err != nil {
			c.Violate("starting a relay-only router failed: "+err.Error(), "start", rep2)
			break
		}
		time.Sleep(200 * time.Millisecond)
		if !A1.Stop() {
			c.Violate("stopping a relay-only router that ran alone did not return success", "stop-failed", rep2)
		}
		cfgA2, errA := mk(ids[0], portA, nil, statePath).Parse()
		cfgB, errB := mk(ids[1], portB, []string{fmt.Sprintf("tcp://127.0.0.1:%d", portA)}, "").Parse()
		if errA != nil || errB != nil {
			c.Violate(fmt.Sprintf("a valid relay-only configuration does not parse: %v %v", errA, errB), "config-parse", rep2)
			break
		}
		A2, errA := mycoria.New("verif", cfgA2)
		B, errB := mycoria.New("verif", cfgB)
		if errA != nil || errB != nil {
			c.Violate(fmt.Sprintf("constructing a relay-only router from its own state file failed: %v %v", errA, errB), "construct", rep2)
			break
		}
		if err := A2.Start(); err != nil {
			c.Violate("starting a relay-only router from its own state file failed: "+err.Error(), "start", rep2)
			break
		}
		if err := B.Start(); err != nil {
			c.Violate("starting a relay-only router failed: "+err.Error(), "start", rep2)
			A2.Stop()
			break
		}
		linked := false
		for t := 0; t < 120 && !linked; t++ {
			time.Sleep(50 * time.Millisecond)
			linked = A2.Peering().GetLink(ids[1].IP) != nil && B.Peering().GetLink(ids[0].IP) != nil
		}
		c.Eval()
		c.Count("instance-cycle:restart-from-own-state-file")
		c.NonTrivial("instance/restart-from-own-state-file")
		if !linked {
			c.Violate("a relay-only router restarted from the state file of a run in which it learned no router did not peer over loopback within 6 s", "no-peering-after-restart", rep2)
		}
		okB, okA := B.Stop(), A2.Stop()
		if !okA || !okB {
			c.Violate("stopping a relay-only router did not return success", "stop-failed", rep2)
		}
		if after := goroutines(); after > base+2 {
			c.Violate(fmt.Sprintf("goroutines accumulate over start/stop cycles: %d before the first cycle, %d after a restart from the state file", base, after), "goroutine-leak", rep2)
		}
	}

	// ---------- a router is stopped while its only link is still being set up ----------
	// B reaches A through a slow path (a forwarder of the harness that holds the connection back):
	// the handshake is still under way when B is stopped and completes while B shuts down.  When
	// B's stop has returned, B holds no link and runs no link worker, A (still running) loses its
	// link to B, and nothing accumulates.
	for rep, n := 0, c.Pick(2, 5); rep < n; rep++ {
		portA, portF := freePort(), freePort()
		mk := func(id *m.Address, port int, connect []string) config.Store {
			return config.Store{Router: config.Router{Address: id.Store(), Listen: []string{fmt.Sprintf("tcp://127.0.0.1:%d", port)}, Connect: connect}, System: config.System{DisableTun: true}}
		}
		stA := mk(ids[0], portA, nil)
		portB := freePort()
		stB := mk(ids[1], portB, []string{fmt.Sprintf("tcp://127.0.0.1:%d", portF)})
		cfgA, errA := stA.Parse()
		cfgB, errB := stB.Parse()
		if errA != nil || errB != nil {
			c.Violate(fmt.Sprintf("a valid relay-only configuration does not parse: %v %v", errA, errB), "config-parse", map[string]any{"cfg": "stop-during-link-setup"})
			break
		}
		// the forwarder: accepts B's connection, waits for the release, then relays to A
		fl, err := net.Listen("tcp", fmt.Sprintf("127.0.0.1:%d", portF))
		if err != nil {
			c.Note("stop-during-link-setup skipped: %v", err)
			break
		}
		release := make(chan struct{})
		accepted := make(chan struct{}, 8)
		var fconns sync.Map
		go func() {
			for {
				cb, err := fl.Accept()
				if err != nil {
					return
				}
				fconns.Store(cb, true)
				accepted <- struct{}{}
				go func() {
					<-release
					ca, err := net.Dial("tcp", fmt.Sprintf("127.0.0.1:%d", portA))
					if err != nil {
						_ = cb.Close()
						return
					}
					fconns.Store(ca, true)
					go func() { _, _ = io.Copy(ca, cb); _ = ca.Close() }()
					_, _ = io.Copy(cb, ca)
					_ = cb.Close()
				}()
			}
		}()
		A, errA := mycoria.New("verif", cfgA)
		B, errB := mycoria.New("verif", cfgB)
		if errA != nil || errB != nil {
			c.Violate(fmt.Sprintf("constructing a relay-only router failed: %v %v", errA, errB), "construct", map[string]any{"cfg": "stop-during-link-setup"})
			_ = fl.Close()
			break
		}
		if err := A.Start(); err != nil {
			c.Violate("starting a relay-only router failed: "+err.Error(), "start", map[string]any{"cfg": "stop-during-link-setup"})
			_ = fl.Close()
			break
		}
		if err := B.Start(); err != nil {
			c.Violate("starting a relay-only router failed: "+err.Error(), "start", map[string]any{"cfg": "stop-during-link-setup"})
			A.Stop()
			_ = fl.Close()
			break
		}
		dialled := false
		select {
		case <-accepted:
			dialled = true
		case <-time.After(8 * time.Second):
		}
		stopped := make(chan bool, 1)
		go func() { stopped <- B.Stop() }()
		// B is shutting down: once its peering manager is done it has closed the links it knew
		for t0 := time.Now(); !B.Peering().Manager().IsDone() && time.Since(t0) < 20*time.Second; {
			time.Sleep(5 * time.Millisecond)
		}
		// Peering.Stop closes its listeners and then the links it knows: once B's listen port refuses
		// connections the listeners are gone and the links follow at once
		for t0 := time.Now(); time.Since(t0) < 10*time.Second; time.Sleep(10 * time.Millisecond) {
			pc, err := net.DialTimeout("tcp", fmt.Sprintf("127.0.0.1:%d", portB), 200*time.Millisecond)
			if err != nil {
				break
			}
			_ = pc.Close()
		}
		time.Sleep(time.Duration(100+c.Rng.IntN(200)) * time.Millisecond)
		close(release)
		var maxB atomic.Int32
		pollStop := make(chan struct{})
		go func() {
			for {
				select {
				case <-pollStop:
					return
				default:
				}
				if n := int32(len(B.Peering().GetLinks())); n > maxB.Load() {
					maxB.Store(n)
				}
				time.Sleep(2 * time.Millisecond)
			}
		}()
		okStop, returned := false, false
		select {
		case okStop = <-stopped:
			returned = true
		case <-time.After(70 * time.Second):
		}
		// the handshake may complete a moment after the stop returned
		var linksB int
		var linkAtA, everA, everB bool
		for t0 := time.Now(); time.Since(t0) < 4*time.Second; time.Sleep(100 * time.Millisecond) {
			linksB = len(B.Peering().GetLinks())
			linkAtA = A.Peering().GetLink(ids[1].IP) != nil
			everA, everB = everA || linkAtA, everB || linksB > 0
			if time.Since(t0) > 1500*time.Millisecond && linksB == 0 && !linkAtA {
				break
			}
		}
		close(pollStop)
		everB = everB || maxB.Load() > 0
		c.Eval()
		c.Count("instance-cycle:stop-during-link-setup")
		rep2 := map[string]any{"cfg": "stop-during-link-setup", "dialled_before_stop": dialled, "stop_returned": returned, "stop_ok": okStop, "links_at_stopped_router": linksB, "running_router_still_linked": linkAtA, "link_seen_at_running_router": everA, "link_seen_at_stopped_router": everB}
		c.Sample(rep2)
		if dialled {
			c.NonTrivial("instance/stop-during-link-setup")
			if !returned || !okStop {
				c.Violate("stopping a relay-only router while its link was being set up did not return success", "stop-failed", rep2)
			} else if linksB > 0 || linkAtA {
				c.Violate(fmt.Sprintf("a router stopped while its link was being set up still holds %d link(s) afterwards (the running neighbour still has its link to it: %v)", linksB, linkAtA), "link-survives-stop", rep2)
			}
		}
		A.Stop()
		_ = fl.Close()
		fconns.Range(func(k, _ any) bool { _ = k.(net.Conn).Close(); return true })
		if after := goroutines(); after > base+2 {
			c.Violate(fmt.Sprintf("goroutines accumulate over start/stop cycles: %d before the first cycle, %d after a stop during link setup", base, after), "goroutine-leak", rep2)
		}
	}
	return nil
}
