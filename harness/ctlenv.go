package main

import (
	"crypto/ed25519"
	"encoding/hex"
	"fmt"
	"math/big"
	"net/netip"
	"sort"
	"time"

	"github.com/fxamacker/cbor/v2"

	"github.com/mycoria/mycoria/frame"
	"github.com/mycoria/mycoria/m"
	"github.com/mycoria/mycoria/storage"
)

// ctlEnv is a router under test (R) with two linked peers and bookkeeping to turn its state
// into the model's projected state.
type ctlEnv struct {
	c        *Ctx
	w        *rworld
	R        *rnode
	P1, P2   *rnode
	keyIDs   map[string]int
	nextKey  int
	infoIDs  map[string]int
	nextInfo int
}

func newCtlEnv(c *Ctx, stub bool) (*ctlEnv, error) {
	w := newRWorld()
	st := relayStore
	st.Router.Stub = stub
	R, err := w.addNode("R", st, nil)
	if err != nil {
		return nil, err
	}
	P1, err := w.addNode("P1", relayStore, nil)
	if err != nil {
		return nil, err
	}
	P2, err := w.addNode("P2", relayStore, nil)
	if err != nil {
		return nil, err
	}
	if _, _, err := w.connect(R, P1, 11, 21); err != nil {
		return nil, err
	}
	if _, _, err := w.connect(R, P2, 12, 22); err != nil {
		return nil, err
	}
	return &ctlEnv{c: c, w: w, R: R, P1: P1, P2: P2, keyIDs: map[string]int{}, nextKey: 1, infoIDs: map[string]int{}, nextInfo: 1}, nil
}

func (e *ctlEnv) keyID(k []byte) int {
	if len(k) == 0 {
		return 0
	}
	h := hex.EncodeToString(k)
	if id, ok := e.keyIDs[h]; ok {
		return id
	}
	e.keyIDs[h] = e.nextKey
	e.nextKey++
	return e.keyIDs[h]
}

func (e *ctlEnv) infoID(i *m.RouterInfo) int {
	if i == nil {
		return 0
	}
	b, _ := cbor.Marshal(i)
	h := hex.EncodeToString(b)
	if id, ok := e.infoIDs[h]; ok {
		return id
	}
	e.infoIDs[h] = e.nextInfo
	e.nextInfo++
	return e.infoIDs[h]
}

func (e *ctlEnv) storedRouters() []*storage.StoredRouter {
	q := storage.NewRouterQuery(nil, func(a, b *storage.StoredRouter) int { return a.Address.IP.Compare(b.Address.IP) }, 100000)
	_ = e.R.mem.QueryRouters(q)
	return q.Result()
}

var two130 = new(big.Int).Lsh(big.NewInt(1), 130)

func ipBig(ip netip.Addr) *big.Int {
	b := ip.As16()
	return new(big.Int).SetBytes(b[:])
}

// snapshot renders R's projected state as a Coq cst term (c_fresh = next unused key id).
func (e *ctlEnv) snapshot() (term string, known []netip.Addr) {
	var kn, latest, keys, mtu, info, offline []string
	for _, sr := range e.storedRouters() {
		ip := sr.Address.IP
		known = append(known, ip)
		kn = append(kn, ipN(ip))
		s := e.R.st.GetSession(ip)
		if s == nil {
			continue
		}
		if t := s.Signing().Seq().VerifLatest(); !t.IsZero() {
			latest = append(latest, fmt.Sprintf("(%s,(%d)%%Z)", ipN(ip), t.UnixMilli()))
		}
		prio, _ := s.Encryption().VerifSeqHandlers()
		if hi, _, _ := prio.VerifState(); hi > 0 {
			latest = append(latest, fmt.Sprintf("(%s,(%d)%%Z)", new(big.Int).Add(ipBig(ip), two130).String(), hi))
		}
		in, _ := s.Encryption().VerifKeys()
		if id := e.keyID(in); id != 0 {
			keys = append(keys, fmt.Sprintf("(%s,%d)", ipN(ip), id))
		}
		if v := s.TunMTU(); v != 0 {
			mtu = append(mtu, fmt.Sprintf("(%s,%d)", ipN(ip), v))
		}
		if id := e.infoID(sr.PublicInfo); id != 0 {
			info = append(info, fmt.Sprintf("(%s,%d)", ipN(ip), id))
		}
		if sr.Offline {
			offline = append(offline, ipN(ip))
		}
	}
	cs := e.R.ro.VerifConnStates()
	sort.Slice(cs, func(i, j int) bool {
		if c := cs[i].RemoteIP.Compare(cs[j].RemoteIP); c != 0 {
			return c < 0
		}
		if cs[i].Protocol != cs[j].Protocol {
			return cs[i].Protocol < cs[j].Protocol
		}
		if cs[i].RemotePort != cs[j].RemotePort {
			return cs[i].RemotePort < cs[j].RemotePort
		}
		return cs[i].LocalPort < cs[j].LocalPort
	})
	var conn []string
	for _, x := range cs {
		conn = append(conn, fmt.Sprintf("(%s,%d,%d,%d)", ipN(x.RemoteIP), x.Protocol, x.RemotePort, x.Status))
	}
	routes := e.R.ro.Table().VerifEntries()
	var pending []string
	pend := e.R.ro.VerifHelloPending()
	sort.Slice(pend, func(i, j int) bool { return pend[i].Compare(pend[j]) < 0 })
	for _, a := range pend {
		pending = append(pending, ipN(a))
	}
	term = fmt.Sprintf("(mkCst %s %s %s %s %s %s %s %s %d [] %s)", coqList(kn), coqList(latest), coqList(keys), coqList(mtu), coqEntries(routes), coqList(info), coqList(offline), coqList(conn), e.nextKey, coqList(pending))
	return term, known
}

// boundKey is the public key R's state binds to ip (nil when there is no stored record).
func (e *ctlEnv) boundKey(ip netip.Addr) ed25519.PublicKey {
	for _, sr := range e.storedRouters() {
		if sr.Address.IP == ip {
			return sr.Address.PublicKey
		}
	}
	return nil
}

// signedFrameVerifies checks the signature of signed-class frame bytes under key, the way
// Unseal does (TTL and flow control zeroed).
func signedFrameVerifies(data []byte, key ed25519.PublicKey) bool {
	if len(key) != ed25519.PublicKeySize || len(data) < 68 {
		return false
	}
	mi := 49 + int(data[48])
	if len(data) < mi+2 {
		return false
	}
	ai := mi + 2 + (int(data[mi])<<8 | int(data[mi+1]))
	if len(data) < ai+64 {
		return false
	}
	z := append([]byte(nil), data[:ai]...)
	z[1], z[2] = 0, 0
	return ed25519.Verify(key, z, data[ai:ai+64])
}

func frameTimeMs(data []byte) int64 {
	var v uint64
	for _, b := range data[8:16] {
		v = v<<8 | uint64(b)
	}
	return int64(v)
}

func cfgTerm(cfg m.RoutingTableConfig) string {
	rps := make([]string, len(cfg.RoutablePrefixes))
	for k, rp := range cfg.RoutablePrefixes {
		rps[k] = coqRp(rp)
	}
	return coqList(rps)
}

var _ = time.Now
var _ = frame.V1
