package main

import (
	"context"
	"fmt"
	"net/netip"
	"sync"
	"time"

	"github.com/mycoria/mycoria/config"
	"github.com/mycoria/mycoria/m"
	"github.com/mycoria/mycoria/state"
	"github.com/mycoria/mycoria/storage"
)

// instStub implements the small instance interfaces of state (Identity, Config).
type instStub struct {
	id  *m.Address
	cfg *config.Config
}

func (i *instStub) Identity() *m.Address   { return i.id }
func (i *instStub) Config() *config.Config { return i.cfg }

var routablePrefix = netip.MustParsePrefix("fd00::/9")

func newIdentity() (*m.Address, error) {
	a, _, err := m.GenerateRoutableAddress(context.Background(), []netip.Prefix{routablePrefix}, nil, 0)
	return a, err
}

// node is a router identity with its own real state manager.
type node struct {
	id *m.Address
	st *state.State
}

func newNode() (*node, error) {
	id, err := newIdentity()
	if err != nil {
		return nil, err
	}
	n := &node{id: id}
	n.st = state.New(&instStub{id: id, cfg: &config.Config{}}, nil)
	return n, nil
}

// sessionFor makes n know peer and returns n's session for it.
func (n *node) sessionFor(peer *node) (*state.Session, error) {
	if err := n.st.AddRouter(&peer.id.PublicAddress); err != nil {
		return nil, err
	}
	s := n.st.GetSession(peer.id.IP)
	if s == nil {
		return nil, fmt.Errorf("no session")
	}
	return s, nil
}

// keyExchange runs the real 3-step key exchange: a is client, b is server.
func keyExchange(a, b *state.EncryptionSession) error {
	k1, t1, err := a.InitKeyClientStart()
	if err != nil {
		return err
	}
	k2, t2, err := b.InitKeyServer(k1, t1)
	if err != nil {
		return err
	}
	return a.InitKeyClientComplete(k2, t2)
}

// pair returns two nodes with sessions for each other and end-to-end keys set up.
func newPair() (a, b *node, sab, sba *state.Session, err error) {
	if a, err = newNode(); err != nil {
		return
	}
	if b, err = newNode(); err != nil {
		return
	}
	if sab, err = a.sessionFor(b); err != nil {
		return
	}
	if sba, err = b.sessionFor(a); err != nil {
		return
	}
	err = keyExchange(sab.Encryption(), sba.Encryption())
	return
}

func (n *node) st_cfg() *config.Config { return &config.Config{} }

func newNodeWithID(id *m.Address) (*node, error) {
	n := &node{id: id}
	n.st = state.New(&instStub{id: id, cfg: &config.Config{}}, nil)
	return n, nil
}

// rendezStore wraps a storage backend; while armed, a GetRouter call waits (briefly) for a second
// concurrent GetRouter call before it proceeds.  Code that looks a router up under a lock never
// has two lookups in flight (the wait runs out and nothing changes); code that performs the
// lookup outside its lock gets exactly the interleaving it has to withstand.
type rendezStore struct {
	storage.Storage
	mu      sync.Mutex
	armed   bool
	waiting int
	ch      chan struct{}
	// holdSave
	holdIP   netip.Addr
	holdHeld chan struct{}
	holdRel  chan struct{}
}

func newRendezStore(s storage.Storage) *rendezStore {
	return &rendezStore{Storage: s}
}

// holdSave makes the next SaveRouter for ip wait (at most two seconds) until release is called;
// held is closed when the save has arrived.  No lock of the router is held at that point on any
// path the harness uses it for, so whatever another worker does meanwhile is a legal interleaving.
func (r *rendezStore) holdSave(ip netip.Addr) (held <-chan struct{}, release func()) {
	h, rel := make(chan struct{}), make(chan struct{})
	var once sync.Once
	r.mu.Lock()
	r.holdIP, r.holdHeld, r.holdRel = ip, h, rel
	r.mu.Unlock()
	return h, func() { once.Do(func() { close(rel) }) }
}

func (r *rendezStore) SaveRouter(sr *storage.StoredRouter) error {
	r.mu.Lock()
	var held, rel chan struct{}
	if sr != nil && sr.Address != nil && r.holdHeld != nil && sr.Address.IP == r.holdIP {
		held, rel = r.holdHeld, r.holdRel
		r.holdHeld, r.holdRel = nil, nil
	}
	r.mu.Unlock()
	if held != nil {
		close(held)
		select {
		case <-rel:
		case <-time.After(2 * time.Second):
		}
	}
	return r.Storage.SaveRouter(sr)
}

func (r *rendezStore) arm(on bool) {
	r.mu.Lock()
	r.armed, r.waiting, r.ch = on, 0, make(chan struct{})
	r.mu.Unlock()
}

func (r *rendezStore) GetRouter(ip netip.Addr) (*storage.StoredRouter, error) {
	r.mu.Lock()
	if !r.armed {
		r.mu.Unlock()
		return r.Storage.GetRouter(ip)
	}
	r.waiting++
	if r.waiting == 2 {
		close(r.ch)
	}
	ch := r.ch
	r.mu.Unlock()
	select {
	case <-ch:
	case <-time.After(120 * time.Millisecond):
	}
	return r.Storage.GetRouter(ip)
}
