package main

import (
	"crypto/ecdh"
	"crypto/ed25519"
	"crypto/rand"
	"fmt"
	"net/netip"
	"os"
	"sort"
	"strings"
	"time"

	"github.com/fxamacker/cbor/v2"

	"github.com/mycoria/mycoria/frame"
	"github.com/mycoria/mycoria/m"
	"github.com/mycoria/mycoria/peering"
	"github.com/mycoria/mycoria/router"
)

func init() { register("C07", runC07) }

type c07Ping struct {
	data   []byte
	src    netip.Addr
	hop    bool
	kind   int
	code   int
	follow bool
	mtu    int
	addr   netip.Addr
	proto  int
	port   int
	down   bool
	hdrOK  bool
	desc   string
}

func (e *ctlEnv) pingTerm(p c07Ping) string {
	// authenticity as the property defines it: under the key bound to the source address in R's
	// state, or (first contact) under the header key if it hashes to the source
	key := e.boundKey(p.src)
	hdrOK := false
	if key == nil {
		key = p.hdrKey()
		hdrOK = key != nil
	}
	auth := key != nil && signedFrameVerifies(p.data, key)
	addr := "0"
	if p.addr.IsValid() {
		addr = ipN(p.addr)
	}
	return fmt.Sprintf("(mkPing %s false %s %s %s (%d)%%Z %d %d %s %d %s %d %d %s)", ipN(p.src), coqBool(p.hop), coqBool(auth), coqBool(hdrOK),
		frameTimeMs(p.data), p.kind, p.code, coqBool(p.follow), p.mtu, addr, p.proto, p.port, coqBool(p.down))
}

// hdrKey extracts the public key the ping header carries, if the header's identity data is a
// valid self-certifying identity for the frame's source address (C01), else nil.
func (p c07Ping) hdrKey() []byte {
	mi := 49 + int(p.data[48])
	if mi+2 > len(p.data) {
		return nil
	}
	ai := mi + 2 + (int(p.data[mi])<<8 | int(p.data[mi+1]))
	if ai+64 > len(p.data) {
		return nil
	}
	msg := p.data[mi+2 : ai]
	if len(msg) < 3 || len(msg) < 2+int(msg[1]) {
		return nil
	}
	var hdr router.PingHeader
	if err := cbor.Unmarshal(msg[2:2+int(msg[1])], &hdr); err != nil {
		return nil
	}
	addr := &m.PublicAddress{IP: netip.AddrFrom16([16]byte(p.data[16:32])), Hash: hdr.AddrHash, Type: hdr.KeyType, PublicKey: hdr.PublicKey}
	if addr.VerifyAddress() != nil {
		return nil
	}
	return hdr.PublicKey
}

func runC07(c *Ctx) error {
	c.Res.Rule = "a real router (state, switch, peering with harness links, routing table with routes through and around the senders, connection states) receives pings of every kind (hello request, pong request, error codes 0..5, disconnect going-down / peer list) built with the sender's real keys, " +
		"then variants: bit flip in every layout region, source rewritten to another known or an unknown router, destination rewritten, replay after k other valid pings from the same and other senders, first contact with a matching / non-matching header key; " +
		"the projected state (session key ids, MTU, routes, stored info, offline flag, connection states, known routers) is snapshotted before and after and compared with the model; non-trivial/distinct = distinct (ping kind, code, variant, effect/no-effect)"
	c.CoqSetup("Prelude SeqCorr SwitchLabel Table TableCorr Control ControlCorr", "c07_case", "c07_ok")
	nScen := c.Pick(40, 300)
	for si := 0; si < nScen; si++ {
		e, err := newCtlEnv(c, false)
		if err != nil {
			return err
		}
		self := e.R.id.IP
		// senders: X and Y known to R (stored), Z unknown
		var senders []*m.Address
		for i := 0; i < 3; i++ {
			a, err := newGeoIdentity()
			if err != nil {
				return err
			}
			senders = append(senders, a)
		}
		X, Y, Z := senders[0], senders[1], senders[2]
		_ = e.R.st.AddRouter(&X.PublicAddress)
		_ = e.R.st.AddRouter(&Y.PublicAddress)
		// routes: via P1 and P2, some with X / Y as destination or relay
		tbl := e.R.ro.Table()
		mkPath := func(via *rnode, relays []netip.Addr, dst netip.Addr) m.SwitchPath {
			hops := []m.SwitchHop{{Router: self, Delay: 5, ForwardLabel: 11}, {Router: via.id.IP, Delay: 7, ForwardLabel: 3, ReturnLabel: 4}}
			for k, r := range relays {
				hops = append(hops, m.SwitchHop{Router: r, Delay: uint16(6 + k), ForwardLabel: 5, ReturnLabel: 6})
			}
			hops = append(hops, m.SwitchHop{Router: dst, ReturnLabel: 9})
			return m.SwitchPath{Hops: hops}
		}
		other := addrFrom(0xfd3a_1000_0000_0000, uint64(0x77+si))
		for _, r := range []m.RoutingTableEntry{
			{DstIP: X.IP, NextHop: e.P1.id.IP, Path: mkPath(e.P1, nil, X.IP)},
			{DstIP: Y.IP, NextHop: e.P1.id.IP, Path: mkPath(e.P1, []netip.Addr{X.IP}, Y.IP)},
			{DstIP: other, NextHop: e.P2.id.IP, Path: mkPath(e.P2, []netip.Addr{Y.IP}, other)},
			{DstIP: other, NextHop: e.P1.id.IP, Path: mkPath(e.P1, []netip.Addr{X.IP, Y.IP}, other)},
			{DstIP: Z.IP, NextHop: e.P2.id.IP, Path: mkPath(e.P2, nil, Z.IP)},
		} {
			r.Source = m.RouteSourceGossip
			r.Expires = time.Now().Add(time.Hour)
			_, _ = tbl.AddRoute(r)
		}
		// connection states towards X and Y
		for k, dst := range []netip.Addr{X.IP, Y.IP, X.IP} {
			pk := c06Pkt{ver: 6, src: self, dst: dst, proto: []int{6, 17, 6}[k], sport: 41000 + k, dport: []int{80, 53, 443}[k], length: 60}
			raw := pk.bytes(c)
			ps := e.R.builder.GetPooledSlice(len(raw))
			copy(ps, raw)
			_ = e.R.ro.VerifHandleTunPacket(ps[:len(raw)])
		}
		e.w.queue = nil
		recv := e.R.links[e.P1.id.IP]

		// genuine identities of everybody the harness created: the oracle below judges every ping by
		// the key its claimed source address is really derived from, whatever the router has stored
		genuine := map[netip.Addr]ed25519.PublicKey{X.IP: X.PublicKey, Y.IP: Y.PublicKey, Z.IP: Z.PublicKey,
			e.P1.id.IP: e.P1.id.PublicKey, e.P2.id.IP: e.P2.id.PublicKey, self: e.R.id.PublicKey}
		// in some scenarios the router first learns two relays it has never met from the hop records of
		// one relayed announcement (origin S, chain P1 <- R2 <- R1)
		var R1, R2 *m.Address
		if si%3 == 1 {
			S, err := newGeoIdentity()
			if err != nil {
				return err
			}
			if R1, err = newGeoIdentity(); err != nil {
				return err
			}
			if R2, err = newGeoIdentity(); err != nil {
				return err
			}
			genuine[S.IP], genuine[R1.IP], genuine[R2.IP] = S.PublicKey, R1.PublicKey, R2.PublicKey
			if a, err := c08NewAnn(S, false, 9, time.Now().Add(time.Hour)); err == nil {
				chain := []c08Rec{
					{pub: e.P1.id.PublicAddress, delay: 5, fl: 3, rl: 4, signKey: e.P1.id.PrivateKey, ctx: a.ctx, flipAt: -1},
					{pub: R2.PublicAddress, delay: 6, fl: 5, rl: 6, signKey: R2.PrivateKey, ctx: a.ctx, flipAt: -1},
					{pub: R1.PublicAddress, delay: 7, fl: 7, rl: 8, signKey: R1.PrivateKey, ctx: a.ctx, flipAt: -1},
				}
				e.R.inject(append(append([]byte(nil), a.base...), c08Encode(chain)...), recv)
				e.w.queue = nil
				c.Count("prelude:relayed-announcement")
			}
		}

		kx := func() []byte {
			k, _ := ecdh.X25519().GenerateKey(rand.Reader)
			return k.PublicKey().Bytes()
		}
		build := func(from *m.Address, kind int) (c07Ping, error) {
			p := c07Ping{src: from.IP, kind: kind, hdrOK: true}
			spec := pingSpec{from: from, dst: self, msgType: frame.RouterPing, seqTime: nextCraftTime(), pingID: uint64(1000 + c.Rng.IntN(100000))}
			switch kind {
			case 0: // hello request
				p.mtu = []int{0, 1000, 1400, 9000}[c.Rng.IntN(4)]
				spec.pingType = "hello"
				spec.body, _ = cbor.Marshal(&router.HelloPingRequest{KeyExchange: kx(), KeyExchangeType: "ECDH-X25519/BLAKE3", MTU: p.mtu})
				p.desc = "hello-request"
			case 1:
				spec.pingType = "pong"
				spec.body, _ = cbor.Marshal(map[string]string{"msg": "ping"})
				p.desc = "pong-request"
			case 2:
				p.code = c.Rng.IntN(6)
				spec.pingType = "error"
				spec.pingCode = uint8(p.code)
				switch p.code {
				case 1:
					p.addr = []netip.Addr{X.IP, Y.IP, other}[c.Rng.IntN(3)]
					spec.body, _ = cbor.Marshal(map[string]netip.Addr{"u": p.addr})
				case 3, 4:
					p.addr = []netip.Addr{X.IP, Y.IP}[c.Rng.IntN(2)]
					p.proto, p.port = []int{6, 17}[c.Rng.IntN(2)], []int{80, 53, 443}[c.Rng.IntN(3)]
					spec.body, _ = cbor.Marshal(map[string]any{"d": p.addr, "t": p.proto, "p": p.port})
				default:
					spec.body, _ = cbor.Marshal("some text")
				}
				p.desc = fmt.Sprintf("error-%d", p.code)
			default:
				p.kind = 3
				p.down = c.Rng.IntN(2) == 0
				spec.pingType = "disconnect"
				msg := router.DisconnectPingMsg{GoingDown: p.down}
				if !p.down {
					msg.Disconnected = []netip.Addr{e.P1.id.IP}
				}
				spec.body, _ = cbor.Marshal(&msg)
				p.desc = fmt.Sprintf("disconnect-down=%v", p.down)
			}
			d, err := craftPing(spec)
			p.data = d
			return p, err
		}
		var sent []c07Ping
		usedErr := map[string]bool{}
		nPings := 6 + c.Rng.IntN(8)
		for k := 0; k < nPings; k++ {
			from := []*m.Address{X, X, Y, Z}[c.Rng.IntN(4)]
			kind := c.Rng.IntN(4)
			p, err := build(from, kind)
			if err != nil {
				return err
			}
			if p.kind == 2 {
				key := fmt.Sprintf("%s/%d", p.src, p.code)
				if usedErr[key] {
					continue // stay outside the receive cooldown of error pings
				}
				usedErr[key] = true
			}
			variant := "valid"
			switch c.Rng.IntN(14) {
			case 12, 13:
				// a relay the router only knows from a hop record sends a ping in the name of the next relay
				// of that record chain, signed with its own key
				if R1 != nil {
					spec := pingSpec{from: R1, src: R2.IP, dst: self, msgType: frame.RouterPing, seqTime: nextCraftTime(), pingID: 4711}
					np := c07Ping{src: R2.IP, hdrOK: true}
					if c.Rng.IntN(2) == 0 {
						spec.pingType = "disconnect"
						spec.body, _ = cbor.Marshal(&router.DisconnectPingMsg{GoingDown: true})
						np.kind, np.down, np.desc = 3, true, "disconnect-down=true"
					} else {
						spec.pingType = "hello"
						np.mtu = 1400
						spec.body, _ = cbor.Marshal(&router.HelloPingRequest{KeyExchange: kx(), KeyExchangeType: "ECDH-X25519/BLAKE3", MTU: np.mtu})
						np.kind, np.desc = 0, "hello-request"
					}
					if d, err := craftPing(spec); err == nil {
						np.data = d
						p = np
						variant = "relay-impersonates-next-relay"
					}
				}
			case 10, 11:
				// a forged frame of a flooded (hop ping) type that claims the source of an earlier accepted ping
				// and carries exactly its timestamp: the duplicate tolerance of hop pings must not let it skip
				// the signature check
				var prev *c07Ping
				for i := len(sent) - 1; i >= 0; i-- {
					if sent[i].src == X.IP || sent[i].src == Y.IP {
						prev = &sent[i]
						break
					}
				}
				if prev != nil {
					victim := X
					if prev.src == Y.IP {
						victim = Y
					}
					fk := c.Rng.IntN(3)
					spec := pingSpec{from: Z, src: victim.IP, dst: self, msgType: []frame.MessageType{frame.RouterHopPing, frame.RouterHopPingDeprecated}[c.Rng.IntN(2)],
						seqTime: time.UnixMilli(frameTimeMs(prev.data)), pingID: 77, rawHdr: true, hdrHash: victim.Hash, hdrType: victim.Type, hdrKey: victim.PublicKey}
					np := c07Ping{src: victim.IP, hop: true, hdrOK: true}
					switch fk {
					case 0:
						spec.pingType = "disconnect"
						spec.body, _ = cbor.Marshal(&router.DisconnectPingMsg{GoingDown: true})
						np.kind, np.down, np.desc = 3, true, "disconnect-down=true"
					case 1:
						spec.pingType = "hello"
						np.mtu = 1400
						spec.body, _ = cbor.Marshal(&router.HelloPingRequest{KeyExchange: kx(), KeyExchangeType: "ECDH-X25519/BLAKE3", MTU: np.mtu})
						np.kind, np.desc = 0, "hello-request"
					default:
						spec.pingType = "error"
						spec.pingCode = 2
						spec.body, _ = cbor.Marshal("x")
						np.kind, np.code, np.desc = 2, 2, "error-2"
					}
					if d, err := craftPing(spec); err == nil {
						np.data = d
						p = np
						variant = "forged-hop-ping-with-newest-time"
					}
				}
			case 0, 1: // bit flip in a protected region
				pos := c.Rng.IntN(len(p.data))
				for pos == 1 || pos == 2 {
					pos = c.Rng.IntN(len(p.data))
				}
				p.data[pos] ^= 1 << uint(c.Rng.IntN(8))
				variant = "flip-" + regionOf(pos, 49, len(p.data)-64, len(p.data))
			case 2: // TTL / flow flags: free
				p.data[1+c.Rng.IntN(2)] = byte(1 + c.Rng.IntN(200))
				variant = "ttl-flow"
			case 3: // source rewritten
				to := []*m.Address{Y, Z, X}[c.Rng.IntN(3)]
				if to.IP != p.src {
					b := to.IP.As16()
					copy(p.data[16:32], b[:])
					p.src = to.IP
					variant = "src-rewrite"
				}
			case 4: // destination rewritten
				b := other.As16()
				copy(p.data[32:48], b[:])
				variant = "dst-rewrite"
			case 5: // replay of an earlier ping
				if len(sent) > 0 {
					p = sent[c.Rng.IntN(len(sent))]
					variant = "replay"
				}
			case 6: // first contact with a header key that does not hash to the source
				if from == Z {
					spec := pingSpec{from: Z, dst: self, msgType: frame.RouterPing, pingType: "pong", seqTime: nextCraftTime(), rawHdr: true, hdrHash: Z.Hash, hdrType: Z.Type, hdrKey: X.PublicKey}
					spec.body, _ = cbor.Marshal(map[string]string{"msg": "ping"})
					d, err := craftPing(spec)
					if err != nil {
						return err
					}
					p = c07Ping{data: d, src: Z.IP, kind: 1, hdrOK: false, desc: "pong-request"}
					variant = "bad-header-key"
				}
			}
			pre, known := e.snapshot()
			dstIsSelf := netip.AddrFrom16([16]byte(p.data[32:48])) == self
			pt := e.pingTerm(p)
			isPingType := false
			switch frame.MessageType(p.data[4]) {
			case frame.RouterPing, frame.RouterCtrl, frame.RouterHopPing, frame.RouterHopPingDeprecated:
				isPingType = true
			}
			if !dstIsSelf || !isPingType {
				// a ping for someone else is routed, not handled, and a frame whose type byte no longer names a
				// ping type never reaches the ping handler (no first-contact admission either): the model
				// sees it as not authentic for R
				pt = fmt.Sprintf("(mkPing %s false false false false (%d)%%Z %d %d %s %d 0 0 0 false)", ipN(p.src), frameTimeMs(p.data), p.kind, p.code, coqBool(p.follow), p.mtu)
			}
			res := e.R.inject(p.data, recv)
			e.w.queue = nil
			e.R.tunRaw()
			post, known2 := e.snapshot()
			c.Eval()
			if res.panicked() {
				c.Violate("a ping crashed the router worker", "ping-panic", map[string]any{"ping": p.desc, "variant": variant})
			}
			changed := pre != post
			// the property, judged by the genuine keys: a ping whose signature does not verify under the key
			// its source address is derived from changes nothing
			if stripFresh(pre) != stripFresh(post) && dstIsSelf { // (first-contact admission of a self-certifying identity is not an effect: stripFresh)
				src := netip.AddrFrom16([16]byte(p.data[16:32]))
				authentic := false
				if gk, ok := genuine[src]; ok {
					if pf, err := craftBuilder.ParseFrame(append([]byte(nil), p.data...), nil, 0); err == nil {
						if fv, ok := pf.(*frame.FrameV1); ok {
							ttl, fc := fv.TTL(), fv.FlowControl()
							fv.SetTTL(0)
							fv.SetFlowControl(0)
							authentic = fv.VerifyRaw(gk) == nil
							fv.SetTTL(ttl)
							fv.SetFlowControl(fc)
						}
					}
				}
				if !authentic {
					c.Violate(fmt.Sprintf("a ping (%s, %s) that is not signed by the key its source address is derived from changed router state", p.desc, variant), "not-genuine-effect",
						map[string]any{"ping": p.desc, "variant": variant, "src": src.String(), "pre": pre, "post": post})
				}
			}
			c.NonTrivial(fmt.Sprintf("%s/%s/%v", p.desc, variant, changed))
			c.Count("variant:" + variant)
			// property oracle: tampered, re-addressed and replayed pings change nothing projected
			noEffectExpected := variant != "valid" && variant != "ttl-flow"
			if noEffectExpected && stripFresh(pre) != stripFresh(post) {
				c.Violate(fmt.Sprintf("a %s ping (%s) changed router state", variant, p.desc), "unauth-effect-"+variant, map[string]any{"ping": p.desc, "variant": variant, "pre": pre, "post": post})
			}
			keys := map[string]bool{}
			var keyList []string
			for _, a := range append(append(known, known2...), p.src) {
				if !keys[ipN(a)] {
					keys[ipN(a)] = true
					keyList = append(keyList, ipN(a))
				}
			}
			c.Case(fmt.Sprintf("(%s,%s,%s,%s,%s)", ipN(self), pre, pt, post, coqList(keyList)), map[string]any{"ping": p.desc, "variant": variant, "scenario": si, "step": k})
			if variant == "valid" || variant == "ttl-flow" {
				sent = append(sent, p)
			}
			if os.Getenv("VERIF_DEBUG") != "" && p.kind == 0 && variant == "valid" {
				in, out := e.R.st.GetSession(p.src).Encryption().VerifKeys()
				fmt.Fprintf(os.Stderr, "DBG %d/%d %s: %v %v in=%d out=%d from=%s\n", si, k, p.desc, res.routerErrs, pre == post, len(in), len(out), p.src)
			}
			if si == 0 && k < 3 {
				c.Sample(map[string]any{"ping": p.desc, "variant": variant, "changed": changed})
			}
		}
	}
	if err := c07DuplicateOnMultipath(c); err != nil {
		return err
	}
	if err := c07ReplayAcrossKinds(c); err != nil {
		return err
	}
	return c07ConcurrentReplay(c)
}

// c07ReplayAcrossKinds: "newest message of X" is ONE order over everything X signs.  X's
// announcement is accepted (relayed by the peer P1 with its hop record); then a newer ping of
// another kind from X (a going-down disconnect, a pong request, an error report); then the very
// same announcement bytes again: the replay changes nothing - the offline flag stays, the route
// the disconnect removed stays away, the stored info stays.
// c07DuplicateOnMultipath: X's announcement reaches the router over two or three peers (several
// routes to X, of different length); then every one of those frames arrives again, byte for byte
// (the newest announcement of a hop-ping sender may arrive twice).  A duplicate carries nothing
// new: the routes to X are the same afterwards (same number, same paths), whichever copy it was.
func c07DuplicateOnMultipath(c *Ctx) error {
	for r, n := 0, c.Pick(4, 16); r < n; r++ {
		e, err := newCtlEnv(c, false)
		if err != nil {
			return err
		}
		X, err := newGeoIdentity()
		if err != nil {
			return err
		}
		var relays []*m.Address
		for i := 0; i < 3; i++ {
			a, err := newIdentity()
			if err != nil {
				return err
			}
			relays = append(relays, a)
		}
		a, err := c08NewAnn(X, false, 9, time.Now().Add(time.Hour))
		if err != nil {
			return err
		}
		rec := func(id *m.Address) c08Rec {
			return c08Rec{pub: id.PublicAddress, delay: uint16(3 + c.Rng.IntN(30)), fl: m.SwitchLabel(2 + c.Rng.IntN(90)), rl: m.SwitchLabel(2 + c.Rng.IntN(90)), signKey: id.PrivateKey, ctx: a.ctx, flipAt: -1}
		}
		type copyT struct {
			data []byte
			recv *hlink
			what string
		}
		peers := []*rnode{e.P1, e.P2}
		var copies []copyT
		for pi, p := range peers {
			chain := []c08Rec{rec(p.id)}
			for k := 0; k < (pi+r)%3; k++ { // different lengths over the two peers
				chain = append(chain, rec(relays[k]))
			}
			copies = append(copies, copyT{append(append([]byte(nil), a.base...), c08Encode(chain)...), e.R.links[p.id.IP], fmt.Sprintf("via %s with %d records", p.name, len(chain))})
		}
		routesTo := func() []string {
			var out []string
			for _, en := range e.R.ro.Table().VerifEntries() {
				if en.DstIP == X.IP {
					var hops []string
					for _, h := range en.Path.Hops {
						hops = append(hops, h.Router.String())
					}
					out = append(out, en.NextHop.String()+":"+strings.Join(hops, ">"))
				}
			}
			sort.Strings(out)
			return out
		}
		for _, cp := range copies {
			e.R.inject(append([]byte(nil), cp.data...), cp.recv)
			e.w.queue = nil
		}
		before := routesTo()
		c.Eval()
		for _, j := range c.Rng.Perm(len(copies)) {
			res := e.R.inject(append([]byte(nil), copies[j].data...), copies[j].recv)
			e.w.queue = nil
			after := routesTo()
			c.Eval()
			c.Count("duplicate-on-multipath")
			if res.panicked() {
				c.Violate("a duplicated announcement crashed the handler", "replay-panic", map[string]any{"copy": copies[j].what})
				break
			}
			if strings.Join(before, "|") != strings.Join(after, "|") {
				c.Violate(fmt.Sprintf("an exact duplicate of the newest announcement of X (%s) changed the routes to X: %d before, %d after", copies[j].what, len(before), len(after)), "duplicate-changes-routes",
					map[string]any{"copy": copies[j].what, "before": before, "after": after})
				break
			}
		}
		c.NonTrivial(fmt.Sprintf("duplicate-on-multipath/%d", len(before)))
	}
	return nil
}

func c07ReplayAcrossKinds(c *Ctx) error {
	for r, n := 0, c.Pick(6, 30); r < n; r++ {
		e, err := newCtlEnv(c, false)
		if err != nil {
			return err
		}
		X, err := newGeoIdentity()
		if err != nil {
			return err
		}
		self := e.R.id.IP
		recv := e.R.links[e.P1.id.IP]
		a, err := c08NewAnn(X, false, 9, time.Now().Add(time.Hour))
		if err != nil {
			return err
		}
		chain := []c08Rec{{pub: e.P1.id.PublicAddress, delay: 5, fl: 3, rl: 4, signKey: e.P1.id.PrivateKey, ctx: a.ctx, flipAt: -1}}
		ann := append(append([]byte(nil), a.base...), c08Encode(chain)...)
		e.R.inject(append([]byte(nil), ann...), recv)
		e.w.queue = nil
		// a newer ping of another kind from X
		kind := r % 3
		spec := pingSpec{from: X, dst: self, msgType: frame.RouterPing, seqTime: nextCraftTime(), pingID: uint64(7000 + r)}
		desc := ""
		switch kind {
		case 0:
			spec.pingType = "disconnect"
			spec.body, _ = cbor.Marshal(&router.DisconnectPingMsg{GoingDown: true})
			desc = "going-down disconnect"
		case 1:
			spec.pingType = "pong"
			spec.body, _ = cbor.Marshal(map[string]string{"msg": "ping"})
			desc = "pong request"
		default:
			spec.pingType = "error"
			spec.pingCode = 2
			spec.body, _ = cbor.Marshal("x")
			desc = "error report"
		}
		d, err := craftPing(spec)
		if err != nil {
			return err
		}
		e.R.inject(d, recv)
		e.w.queue = nil
		pre, _ := e.snapshot()
		res := e.R.inject(append([]byte(nil), ann...), recv)
		forwarded := len(e.w.queue)
		e.w.queue = nil
		post, _ := e.snapshot()
		c.Eval()
		c.Count("replay-across-kinds:" + desc)
		c.NonTrivial("replay-across-kinds/" + desc)
		rep := map[string]any{"newer_ping": desc, "pre": pre, "post": post, "forwarded": forwarded}
		if res.panicked() {
			c.Violate("a replayed announcement crashed the handler", "replay-panic", rep)
		}
		if stripFresh(pre) != stripFresh(post) || forwarded > 0 {
			c.Violate(fmt.Sprintf("an announcement of X replayed after a newer %s of X changed router state or was forwarded (%d frames)", desc, forwarded), "unauth-effect-replay-across-kinds", rep)
			break
		}
	}
	return nil
}

// c07ConcurrentReplay: a signed ping and its byte-exact replay reach two frame handler workers
// of the router at the same moment (the router runs one worker per CPU; an attacker re-injects a
// captured frame on a second link), while the router has no live session for the sender (known
// from storage: first frame after a restart or after the idle session was cleaned).  Exactly one
// of the two may take effect.  The router's storage is the rendezvous storage: a session lookup
// that is serialised sees nothing, one that is not meets the other half-way.
func c07ConcurrentReplay(c *Ctx) error {
	for r, rounds := 0, c.Pick(3, 10); r < rounds; r++ {
		e, err := newCtlEnv(c, false)
		if err != nil {
			return err
		}
		X, err := newGeoIdentity()
		if err != nil {
			return err
		}
		_ = e.R.st.AddRouter(&X.PublicAddress)
		self := e.R.id.IP
		// a route back to X (through P1), so that the answer can be sent
		_, _ = e.R.ro.Table().AddRoute(m.RoutingTableEntry{DstIP: X.IP, NextHop: e.P1.id.IP, Source: m.RouteSourceGossip, Expires: time.Now().Add(time.Hour),
			Path: m.SwitchPath{Hops: []m.SwitchHop{{Router: self, Delay: 5, ForwardLabel: 11}, {Router: e.P1.id.IP, Delay: 7, ForwardLabel: 3, ReturnLabel: 4}, {Router: X.IP, ReturnLabel: 9}}}})
		spec := pingSpec{from: X, dst: self, msgType: frame.RouterPing, seqTime: nextCraftTime(), pingID: uint64(5000 + r)}
		desc := "hello-request"
		if r%2 == 0 {
			k, _ := ecdh.X25519().GenerateKey(rand.Reader)
			spec.pingType = "hello"
			spec.body, _ = cbor.Marshal(&router.HelloPingRequest{KeyExchange: k.PublicKey().Bytes(), KeyExchangeType: "ECDH-X25519/BLAKE3", MTU: 1400})
		} else {
			desc = "pong-request"
			spec.pingType = "pong"
			spec.body, _ = cbor.Marshal(map[string]string{"msg": "ping"})
		}
		data, err := craftPing(spec)
		if err != nil {
			return err
		}
		recv := e.R.links[e.P1.id.IP]
		copies := 2 + r%2
		frames := make([]frame.Frame, 0, copies)
		for k := 0; k < copies; k++ {
			ps := e.R.builder.GetPooledSlice(peering.FrameOffset + len(data) + peering.FrameOverhead)
			copy(ps[peering.FrameOffset:], data)
			f, err := e.R.builder.ParseFrame(ps[peering.FrameOffset:peering.FrameOffset+len(data)], ps, peering.FrameOffset)
			if err != nil {
				return err
			}
			f.SetRecvLink(recv)
			frames = append(frames, f)
		}
		start := make(chan struct{})
		res := make(chan bool, copies)
		e.R.rs.arm(true)
		for _, f := range frames {
			go func(f frame.Frame) {
				<-start
				var he, we error
				pan, _ := recoverPanic(func() { he, we = e.R.ro.VerifHandleFrame(f) })
				res <- !pan && he == nil && we == nil
			}(f)
		}
		close(start)
		took := 0
		for k := 0; k < copies; k++ {
			if <-res {
				took++
			}
		}
		e.R.rs.arm(false)
		c.Eval()
		c.Count("concurrent-replay:" + desc)
		c.NonTrivial(fmt.Sprintf("concurrent-replay/%s/%d", desc, copies))
		rep := map[string]any{"ping": desc, "copies": copies, "handled": took, "round": r}
		if took > 1 {
			c.Violate(fmt.Sprintf("a %s ping and its byte-exact replay, handled at the same moment by two workers while the router had no live session for the sender, were BOTH handled (%d of %d copies): the replay was not rejected", desc, took, copies), "concurrent-replay-accepted", rep)
			break
		}
		if took == 0 {
			c.Violate(fmt.Sprintf("a valid %s ping was rejected by every worker", desc), "concurrent-replay-lost", rep)
			break
		}
	}
	return nil
}

// stripFresh removes the trailing fresh-key counter from a snapshot term so that snapshots can be
// compared for "nothing projected changed" (known routers and timestamps are kept: an
// unauthenticated ping must not move them either, except first-contact admission).
func stripFresh(s string) string {
	// drop the c_known and c_latest lists (first two lists) and the counter: compare from c_keys on
	depth, lists, start := 0, 0, 0
	for i, ch := range s {
		switch ch {
		case '[':
			if depth == 0 {
				lists++
				if lists == 3 {
					start = i
				}
			}
			depth++
		case ']':
			depth--
		}
	}
	end := len(s)
	for i := len(s) - 1; i >= 0; i-- {
		if s[i] == ']' {
			// the last "]" closes c_errseen; walk back to the one before the counter
			j := i - 1
			for j >= 0 && s[j] != ']' {
				j--
			}
			end = j + 1
			break
		}
	}
	if start >= end {
		return s
	}
	return s[start:end]
}
