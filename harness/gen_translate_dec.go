package main

// gen_translate_dec.go — second translator: decoder-style functions over ONE byte slice.
//
// The scalar translator (gen_translate.go) knows bytes at constant positions only.  The decoders
// of the frame format read bytes and slice at positions computed from the data.  This translator
// covers loop-free functions whose state is one byte slice (a parameter, aliased by a struct
// field `x.data`) plus integers:
//
//   data []byte            ->  (data : list N)                 [decoder mode]
//   receiver f *FrameV1    ->  (len_data : Z) and one Z parameter per integer field read
//                              [accessor mode: the function returns a sub-slice of f.data]
//   int / uintN values     ->  Z  (no wrap: every value is a length, an index or a 1..2-byte
//                              field; the theorems bound them)
//   data[i]                ->  go_at data i          guarded by go_inb (0 <= i < len)
//   m.GetUintNN(data[a:b]) ->  go_be data a b        guarded by go_inr (0 <= a <= b <= len)
//   data[a:b] as a result  ->  DOk [a; b]            guarded by go_inr
//   return x, nil (x the local struct)  ->  DOk [integer fields assigned, in field order]
//   return ..., err        ->  DErr k   (k-th error site of the function, in source order)
//   a failed guard         ->  DPanic   (Go: index/slice out of range — or, for slicing between
//                              len and cap, a read of bytes that are not part of the frame)
//
// Statements that only touch fields outside this state (pool, builder pointer, margins, double
// return flag) are skipped and listed in the generated comment.

import (
	"fmt"
	"go/ast"
	"go/token"
	"go/types"
	"os"
	"path/filepath"
	"strings"
)

func init() {
	genSections = append(genSections, genTranslatedDec)
}

var decTargets = []trTarget{
	{"frame", "Builder", "ParseFrameV1"},
	{"frame", "Builder", "ParseFrame"},
	{"frame", "FrameV1", "SwitchBlock"},
	{"frame", "FrameV1", "MessageData"},
	{"frame", "FrameV1", "MessageDataWithAuth"},
	{"frame", "FrameV1", "AuthData"},
	{"frame", "FrameV1", "AppendixData"},
	{"frame", "FrameV1", "MessageDataWithOffset"},
	{"frame", "FrameV1", "FrameDataWithMargins"},
	{"router", "", "parsePingHeader"},
	{"peering", "LinkFrame", "LinkData"},
	{"peering", "LinkFrame", "LinkDataWithAuth"},
	{"peering", "LinkFrame", "Nonce"},
}

const decPrelude = `(* ---- decoder functions translated from the Go source by harness/gen_translate_dec.go ----
   one byte slice (list N) plus integers (Z); a failed index/slice bound is DPanic *)
Inductive dres := DOk (vals : list Z) | DErr (site : N) | DPanic.
Definition go_len (d : list N) : Z := Z.of_nat (length d).
Definition go_at (d : list N) (i : Z) : Z := Z.of_N (nth (Z.to_nat i) d 0%N).
Definition go_inb (len i : Z) : bool := (0 <=? i)%Z && (i <? len)%Z.
Definition go_inr (len a b : Z) : bool := (0 <=? a)%Z && (a <=? b)%Z && (b <=? len)%Z.
Fixpoint go_be_nat (d : list N) (a n : nat) (acc : Z) : Z :=
  match n with O => acc | S k => go_be_nat d (S a) k (acc * 256 + Z.of_N (nth a d 0%N))%Z end.
Definition go_be (d : list N) (a b : Z) : Z := go_be_nat d (Z.to_nat a) (Z.to_nat (b - a)) 0%Z.

`

type decTr struct {
	p            *trPkg
	fn           *ast.FuncDecl
	mode         string                  // "decoder" | "accessor" | "slice-recv"
	dataObj      types.Object            // the byte slice parameter / receiver (decoder, slice-recv)
	structs      map[types.Object]bool   // local / receiver struct whose fields are state
	fieldVar     map[string]string       // integer field -> current Coq variable
	fieldSet     []string                // integer fields assigned, in order of first assignment
	fieldUse     []string                // integer fields read before assignment (accessor parameters)
	dataAlias    map[string]bool         // "x.data" aliases of the data slice
	names        map[types.Object]string // integer / bool locals
	taken        map[string]bool
	sites        int
	usesPS       bool
	usesLen      bool
	intParams    []string
	oracles      []string
	oracleDoc    []string
	slices       map[types.Object][2]string
	frameParam   types.Object
	dataFrom     string
	siteDoc      []string
	skipped      []string
	structFields []string // declared field order of the state struct
}

func (t *decTr) fail(format string, a ...any) { trFail(format, a...) }

func (t *decTr) text(n ast.Node) string { return nodeText(t.p.fset, n) }

func (t *decTr) fresh(base string) string {
	n := base
	for i := 1; t.taken[n]; i++ {
		n = fmt.Sprintf("%s_%d", base, i)
	}
	t.taken[n] = true
	return n
}

// isData: e denotes the whole byte slice.
func (t *decTr) isData(e ast.Expr) bool {
	switch v := e.(type) {
	case *ast.Ident:
		if o := t.p.info.Uses[v]; o != nil && o == t.dataObj {
			return true
		}
	case *ast.SelectorExpr:
		if x, ok := v.X.(*ast.Ident); ok && t.structs[t.p.info.Uses[x]] && v.Sel.Name == "data" {
			return true
		}
	case *ast.ParenExpr:
		return t.isData(v.X)
	}
	return false
}

// isPS: e denotes the pooled slice the frame lives in (x.pooledSlice), accessor mode only.
func (t *decTr) isPS(e ast.Expr) bool {
	if p, ok := e.(*ast.ParenExpr); ok {
		return t.isPS(p.X)
	}
	sel, ok := e.(*ast.SelectorExpr)
	if !ok || t.mode != "accessor" {
		return false
	}
	x, ok := sel.X.(*ast.Ident)
	return ok && t.structs[t.p.info.Uses[x]] && sel.Sel.Name == "pooledSlice"
}

func (t *decTr) lenTerm() string {
	if t.mode == "accessor" {
		return "len_data"
	}
	return "(go_len data)"
}

// intField: e is x.f with x the state struct and f an integer field.
func (t *decTr) intField(e ast.Expr) (string, bool) {
	sel, ok := e.(*ast.SelectorExpr)
	if !ok {
		return "", false
	}
	x, ok := sel.X.(*ast.Ident)
	if !ok || !t.structs[t.p.info.Uses[x]] {
		return "", false
	}
	if tv, ok := t.p.info.Types[e]; ok && tv.Type != nil {
		if b, ok := tv.Type.Underlying().(*types.Basic); ok {
			if b.Info()&types.IsInteger != 0 {
				return sel.Sel.Name, true
			}
			if b.Kind() != types.Invalid {
				return "", false
			}
		} else {
			return "", false
		}
	}
	// the checker could not type the variable (its initialiser comes from a package that is not
	// loaded): fall back to the declared type of the field
	if st := findStruct(t.p, "FrameV1"); st != nil {
		for _, f := range st.Fields.List {
			for _, n := range f.Names {
				if n.Name == sel.Sel.Name {
					switch t.text(f.Type) {
					case "int", "uint8", "uint16", "uint32", "uint64", "uint":
						return sel.Sel.Name, true
					}
				}
			}
		}
	}
	return "", false
}

type decGuards struct{ g []string }

func (g *decGuards) add(s string) { g.g = append(g.g, s) }

// expr translates an integer or boolean expression; index/slice bounds go to g.
func (t *decTr) expr(e ast.Expr, g *decGuards) string {
	if tv, ok := t.p.info.Types[e]; ok && tv.Value != nil {
		switch tv.Value.Kind().String() {
		case "Int":
			return "(" + tv.Value.ExactString() + ")%Z"
		case "Bool":
			return tv.Value.String()
		}
	}
	switch v := e.(type) {
	case *ast.ParenExpr:
		return t.expr(v.X, g)
	case *ast.BasicLit:
		if v.Kind == token.INT {
			return "(" + v.Value + ")%Z"
		}
	case *ast.Ident:
		if v.Name == "true" || v.Name == "false" {
			return v.Name
		}
		if o := t.p.info.Uses[v]; o != nil {
			if n, ok := t.names[o]; ok {
				return n
			}
		}
		t.fail("identifier %s is not an integer variable of the function", v.Name)
	case *ast.SelectorExpr:
		if f, ok := t.intField(v); ok {
			if cur, ok := t.fieldVar[f]; ok {
				return cur
			}
			if t.mode != "accessor" {
				t.fail("field %s read before it is assigned", f)
			}
			n := t.fresh("f_" + f)
			t.fieldVar[f] = n
			t.fieldUse = append(t.fieldUse, f)
			return n
		}
		t.fail("unsupported selector %s", t.text(v))
	case *ast.UnaryExpr:
		switch v.Op {
		case token.NOT:
			return "(negb " + t.expr(v.X, g) + ")"
		case token.SUB:
			return "(- " + t.expr(v.X, g) + ")%Z"
		}
	case *ast.BinaryExpr:
		if v.Op == token.LAND || v.Op == token.LOR {
			var gl, gr decGuards
			l, r := t.expr(v.X, &gl), t.expr(v.Y, &gr)
			if len(gr.g) > 0 {
				t.fail("index expression under a short-circuit operator")
			}
			g.g = append(g.g, gl.g...)
			if v.Op == token.LAND {
				return "(andb " + l + " " + r + ")"
			}
			return "(orb " + l + " " + r + ")"
		}
		l, r := t.expr(v.X, g), t.expr(v.Y, g)
		switch v.Op {
		case token.ADD:
			return "(" + l + " + " + r + ")%Z"
		case token.SUB:
			return "(" + l + " - " + r + ")%Z"
		case token.MUL:
			return "(" + l + " * " + r + ")%Z"
		case token.LSS:
			return "(" + l + " <? " + r + ")%Z"
		case token.LEQ:
			return "(" + l + " <=? " + r + ")%Z"
		case token.GTR:
			return "(" + r + " <? " + l + ")%Z"
		case token.GEQ:
			return "(" + r + " <=? " + l + ")%Z"
		case token.EQL:
			return "(" + l + " =? " + r + ")%Z"
		case token.NEQ:
			return "(negb (" + l + " =? " + r + ")%Z)"
		}
	case *ast.IndexExpr:
		if t.isData(v.X) {
			i := t.expr(v.Index, g)
			g.add(fmt.Sprintf("go_inb %s %s", t.lenTerm(), i))
			if t.mode == "accessor" {
				t.fail("byte read in accessor mode")
			}
			return "(go_at data " + i + ")"
		}
	case *ast.CallExpr:
		return t.call(v, g)
	}
	t.fail("unsupported expression %s", t.text(e))
	return ""
}

// sliceBounds: e = data[a:b] (a, b optional) -> lo, hi terms and the bound guard.
func (t *decTr) sliceBounds(e ast.Expr, g *decGuards) (lo, hi string, ok bool) {
	se, isSlice := e.(*ast.SliceExpr)
	if isSlice && !se.Slice3 && t.isPS(se.X) {
		t.usesPS = true
		lo, hi = "0%Z", "len_ps"
		if se.Low != nil {
			lo = t.expr(se.Low, g)
		}
		if se.High != nil {
			hi = t.expr(se.High, g)
		}
		g.add(fmt.Sprintf("go_inr len_ps %s %s", lo, hi))
		return lo, hi, true
	}
	if !isSlice || !t.isData(se.X) || se.Slice3 {
		return "", "", false
	}
	lo, hi = "0%Z", t.lenTerm()
	if se.Low != nil {
		lo = t.expr(se.Low, g)
	}
	if se.High != nil {
		hi = t.expr(se.High, g)
	}
	g.add(fmt.Sprintf("go_inr %s %s %s", t.lenTerm(), lo, hi))
	return lo, hi, true
}

func (t *decTr) call(c *ast.CallExpr, g *decGuards) string {
	fun := t.text(c.Fun)
	// conversions between integer types: values are in range by construction
	if len(c.Args) == 1 {
		if tv, ok := t.p.info.Types[c.Fun]; ok && tv.IsType() {
			if b, ok := tv.Type.Underlying().(*types.Basic); ok && b.Info()&types.IsInteger != 0 {
				return t.expr(c.Args[0], g)
			}
		}
	}
	switch fun {
	case "len":
		if len(c.Args) == 1 && t.isData(c.Args[0]) {
			t.usesLen = true
			return t.lenTerm()
		}
		if len(c.Args) == 1 && t.isPS(c.Args[0]) {
			t.usesPS = true
			return "len_ps"
		}
	case "m.GetUint16", "m.GetUint32", "m.GetUint64", "GetUint16", "GetUint32", "GetUint64":
		if len(c.Args) == 1 {
			if lo, hi, ok := t.sliceBounds(c.Args[0], g); ok {
				if t.mode == "accessor" {
					t.fail("byte read in accessor mode")
				}
				return fmt.Sprintf("(go_be data %s %s)", lo, hi)
			}
		}
	}
	// method calls
	if sel, ok := c.Fun.(*ast.SelectorExpr); ok {
		// x.M() on the state struct: inline a single-return method
		if x, ok := sel.X.(*ast.Ident); ok && t.structs[t.p.info.Uses[x]] && len(c.Args) == 0 {
			if callee := t.findMethodOfStruct(sel.Sel.Name); callee != nil && len(callee.Body.List) == 1 {
				if rs, ok := callee.Body.List[0].(*ast.ReturnStmt); ok && len(rs.Results) == 1 {
					// bind the callee's receiver to the same state
					if len(callee.Recv.List[0].Names) == 1 {
						ro := t.p.info.Defs[callee.Recv.List[0].Names[0]]
						t.structs[ro] = true
						defer delete(t.structs, ro)
					}
					return t.expr(rs.Results[0], g)
				}
			}
		}
		// v.M() on a scalar named type translated by the scalar translator
		if tv, ok := t.p.info.Types[sel.X]; ok && tv.Type != nil && len(c.Args) == 0 {
			if named, ok := tv.Type.(*types.Named); ok {
				for _, tg := range trTargets {
					if tg.recv == named.Obj().Name() && tg.name == sel.Sel.Name {
						return fmt.Sprintf("(go_%s_%s (Z.to_N %s))", tg.recv, tg.name, t.expr(sel.X, g))
					}
				}
			}
		}
	}
	// x.A().M(): A a method of the state struct (typed from its declaration), M a translated
	// method of A's scalar result type
	if sel, ok := c.Fun.(*ast.SelectorExpr); ok && len(c.Args) == 0 {
		if inner, ok := sel.X.(*ast.CallExpr); ok {
			if isel, ok := inner.Fun.(*ast.SelectorExpr); ok {
				if x, ok := isel.X.(*ast.Ident); ok && t.structs[t.p.info.Uses[x]] {
					if callee := t.findMethodOfStruct(isel.Sel.Name); callee != nil && callee.Type.Results != nil && len(callee.Type.Results.List) == 1 {
						rty := t.text(callee.Type.Results.List[0].Type)
						for _, tg := range trTargets {
							if tg.recv == rty && tg.name == sel.Sel.Name {
								return fmt.Sprintf("(go_%s_%s (Z.to_N %s))", tg.recv, tg.name, t.expr(inner, g))
							}
						}
					}
				}
			}
		}
	}
	// calls into libraries outside the translated subset whose verdict is all the decoder uses:
	// an oracle parameter (true = the library accepted)
	switch fun {
	case "pingTypeRegex.MatchString":
		return t.oracle(strings.Join(strings.Fields(t.text(c)), " "))
	}
	t.fail("unsupported call %s", t.text(c))
	return ""
}

func (t *decTr) oracle(what string) string {
	n := fmt.Sprintf("oracle_%d", len(t.oracles)+1)
	t.oracles = append(t.oracles, n)
	t.oracleDoc = append(t.oracleDoc, fmt.Sprintf("%s = %s", n, what))
	return n
}

func (t *decTr) findMethodOfStruct(name string) *ast.FuncDecl {
	for _, f := range t.p.files {
		for _, d := range f.Decls {
			fd, ok := d.(*ast.FuncDecl)
			if !ok || fd.Recv == nil || fd.Name.Name != name || fd.Body == nil {
				continue
			}
			rt := fd.Recv.List[0].Type
			if st, ok := rt.(*ast.StarExpr); ok {
				rt = st.X
			}
			if id, ok := rt.(*ast.Ident); ok && id.Name == "FrameV1" {
				return fd
			}
		}
	}
	return nil
}

func decInd(n int) string { return strings.Repeat("  ", n) }

func guarded(d int, g *decGuards, body string) string {
	if len(g.g) == 0 {
		return body
	}
	cond := g.g[0]
	for _, x := range g.g[1:] {
		cond = "andb (" + cond + ") (" + x + ")"
	}
	return fmt.Sprintf("%sif negb (%s) then DPanic else\n%s", decInd(d), cond, body)
}

// isErrNil: the error result position holds nil.
func isNil(e ast.Expr) bool {
	id, ok := e.(*ast.Ident)
	return ok && id.Name == "nil"
}

func (t *decTr) ret(rs *ast.ReturnStmt, d int) string {
	var g decGuards
	nres := 0
	if t.fn.Type.Results != nil {
		nres = t.fn.Type.Results.NumFields()
	}
	// tail call into another decoder target: return b.ParseFrameV1(data, ...)
	if len(rs.Results) == 1 && nres == 2 {
		if c, ok := rs.Results[0].(*ast.CallExpr); ok {
			if sel, ok := c.Fun.(*ast.SelectorExpr); ok && len(c.Args) >= 1 && t.isData(c.Args[0]) {
				for _, tg := range decTargets {
					if tg.name == sel.Sel.Name && tg.name != t.fn.Name.Name {
						return fmt.Sprintf("%sgo_%s_%s data", decInd(d), tg.recv, tg.name)
					}
				}
			}
		}
		t.fail("unsupported return %s", t.text(rs))
	}
	if len(rs.Results) != nres {
		t.fail("unsupported return %s", t.text(rs))
	}
	// error position (last result of type error)
	hasErr := false
	if nres > 0 {
		last := t.fn.Type.Results.List[len(t.fn.Type.Results.List)-1]
		hasErr = t.text(last.Type) == "error"
	}
	if hasErr && !isNil(rs.Results[nres-1]) {
		t.sites++
		t.siteDoc = append(t.siteDoc, fmt.Sprintf("%d = %s", t.sites, strings.Join(strings.Fields(t.text(rs.Results[nres-1])), " ")))
		return fmt.Sprintf("%sDErr %d%%N", decInd(d), t.sites)
	}
	vals := rs.Results
	if hasErr {
		vals = vals[:nres-1]
	}
	var outs []string
	for _, v := range vals {
		// the state struct: its assigned integer fields
		if id, ok := v.(*ast.Ident); ok && t.structs[t.p.info.Uses[id]] {
			for _, f := range t.structFields {
				if cur, ok := t.fieldVar[f]; ok {
					for _, s := range t.fieldSet {
						if s == f {
							outs = append(outs, cur)
						}
					}
				}
			}
			continue
		}
		if lo, hi, ok := t.sliceBounds(v, &g); ok {
			outs = append(outs, lo, hi)
			continue
		}
		// values filled in by a library (pointer results) are outside the state
		if id, ok := v.(*ast.Ident); ok {
			if o := t.p.info.Uses[id]; o != nil {
				if _, isInt := t.names[o]; !isInt {
					if _, isPtr := o.Type().(*types.Pointer); isPtr {
						continue
					}
				}
			}
		}
		outs = append(outs, t.expr(v, &g))
	}
	return guarded(d, &g, fmt.Sprintf("%sDOk [%s]", decInd(d), strings.Join(outs, "; ")))
}

// stmts translates a statement list; k is what follows the list.
func (t *decTr) stmts(list []ast.Stmt, d int, k func(d int) string) string {
	if len(list) == 0 {
		return k(d)
	}
	s, rest := list[0], list[1:]
	next := func(d int) string { return t.stmts(rest, d, k) }
	skip := func() string {
		t.skipped = append(t.skipped, strings.Join(strings.Fields(t.text(s)), " "))
		return next(d)
	}
	switch v := s.(type) {
	case *ast.ReturnStmt:
		return t.ret(v, d)
	case *ast.ExprStmt:
		// calls on fields outside the state (f.dblReturnCheck.UnSet())
		return skip()
	case *ast.AssignStmt:
		if len(v.Lhs) != 1 || len(v.Rhs) != 1 {
			t.fail("unsupported assignment %s", t.text(v))
		}
		lhs, rhs := v.Lhs[0], v.Rhs[0]
		// f := pool.Get().(*FrameV1): the state struct
		if id, ok := lhs.(*ast.Ident); ok && v.Tok == token.DEFINE {
			if ta, ok := rhs.(*ast.TypeAssertExpr); ok && strings.Contains(t.text(ta.Type), "FrameV1") {
				t.structs[t.p.info.Defs[id]] = true
				return skip()
			}
		}
		// x.data = data
		if sel, ok := lhs.(*ast.SelectorExpr); ok {
			if x, ok := sel.X.(*ast.Ident); ok && t.structs[t.p.info.Uses[x]] {
				if sel.Sel.Name == "data" {
					if t.isData(rhs) {
						return next(d)
					}
					t.fail("the data field is assigned something else than the data parameter")
				}
				if f, ok := t.intField(lhs); ok {
					{
						{
							if f == "psDataOffset" {
								return skip()
							}
							var g decGuards
							val := t.expr(rhs, &g)
							n := t.fresh("f_" + f)
							t.fieldVar[f] = n
							seen := false
							for _, s := range t.fieldSet {
								seen = seen || s == f
							}
							if !seen {
								t.fieldSet = append(t.fieldSet, f)
							}
							return guarded(d, &g, fmt.Sprintf("%slet %s := %s in\n%s", decInd(d), n, val, next(d)))
						}
					}
				}
				return skip() // pointer / slice fields outside the state
			}
		}
		// data := f.MessageData(): the byte slice this decoder works on is the frame's message
		if id, ok := lhs.(*ast.Ident); ok && v.Tok == token.DEFINE && t.dataObj == nil && t.frameParam != nil {
			if c, ok := rhs.(*ast.CallExpr); ok && len(c.Args) == 0 {
				if sel, ok := c.Fun.(*ast.SelectorExpr); ok && sel.Sel.Name == "MessageData" {
					if x, ok := sel.X.(*ast.Ident); ok && t.p.info.Uses[x] == t.frameParam {
						t.dataObj = t.p.info.Defs[id]
						t.dataFrom = "the frame's MessageData()"
						return next(d)
					}
				}
			}
		}
		// x := data[a:b]: a sub-slice handed on to a library; its bounds are checked here
		if id, ok := lhs.(*ast.Ident); ok && v.Tok == token.DEFINE {
			var g decGuards
			if lo, hi, ok := t.sliceBounds(rhs, &g); ok {
				if t.slices == nil {
					t.slices = map[types.Object][2]string{}
				}
				t.slices[t.p.info.Defs[id]] = [2]string{lo, hi}
				return guarded(d, &g, next(d))
			}
		}
		// hdr = &T{}: a fresh value for a library to fill
		if _, ok := lhs.(*ast.Ident); ok {
			if u, ok := rhs.(*ast.UnaryExpr); ok && u.Op == token.AND {
				if _, ok := u.X.(*ast.CompositeLit); ok {
					return skip()
				}
			}
		}
		// integer / bool local
		if id, ok := lhs.(*ast.Ident); ok {
			var o types.Object
			if v.Tok == token.DEFINE {
				o = t.p.info.Defs[id]
			} else {
				o = t.p.info.Uses[id]
			}
			if o == nil {
				t.fail("unresolved %s", id.Name)
			}
			var g decGuards
			val := t.expr(rhs, &g)
			n := t.fresh("v_" + id.Name)
			t.names[o] = n
			return guarded(d, &g, fmt.Sprintf("%slet %s := %s in\n%s", decInd(d), n, val, next(d)))
		}
		t.fail("unsupported assignment %s", t.text(v))
	case *ast.IfStmt:
		var g decGuards
		cond := ""
		if v.Init != nil {
			as, ok := v.Init.(*ast.AssignStmt)
			okShape := ok && as.Tok == token.DEFINE && len(as.Lhs) == 1 && len(as.Rhs) == 1
			if be, isB := v.Cond.(*ast.BinaryExpr); okShape && isB && be.Op == token.NEQ && isNil(be.Y) {
				okShape = t.text(be.X) == t.text(as.Lhs[0])
			} else {
				okShape = false
			}
			if okShape {
				if c, isCall := as.Rhs[0].(*ast.CallExpr); isCall && t.text(c.Fun) == "cbor.Unmarshal" {
					cond = "(negb " + t.oracle(strings.Join(strings.Fields(t.text(c)), " ")+" returns nil") + ")"
				}
			}
			if cond == "" {
				t.fail("if with init statement")
			}
		} else {
			cond = t.expr(v.Cond, &g)
		}
		// snapshot of the variable environment: both branches start from it
		saveN, saveF := map[types.Object]string{}, map[string]string{}
		for a, b := range t.names {
			saveN[a] = b
		}
		for a, b := range t.fieldVar {
			saveF[a] = b
		}
		restore := func() {
			t.names, t.fieldVar = map[types.Object]string{}, map[string]string{}
			for a, b := range saveN {
				t.names[a] = b
			}
			for a, b := range saveF {
				t.fieldVar[a] = b
			}
		}
		thenS := t.stmts(v.Body.List, d+1, next)
		restore()
		var elseS string
		switch e := v.Else.(type) {
		case nil:
			elseS = next(d + 1)
		case *ast.BlockStmt:
			elseS = t.stmts(e.List, d+1, next)
		default:
			t.fail("else-if chains are not supported")
		}
		return guarded(d, &g, fmt.Sprintf("%sif %s then\n%s\n%selse\n%s", decInd(d), cond, thenS, decInd(d), elseS))
	case *ast.SwitchStmt:
		if v.Init != nil || v.Tag == nil {
			t.fail("unsupported switch")
		}
		var g decGuards
		tag := t.expr(v.Tag, &g)
		var def *ast.CaseClause
		out := ""
		closes := 0
		for _, cc := range v.Body.List {
			c := cc.(*ast.CaseClause)
			if c.List == nil {
				def = c
				continue
			}
			var conds []string
			for _, ce := range c.List {
				var gc decGuards
				conds = append(conds, fmt.Sprintf("(%s =? %s)%%Z", tag, t.expr(ce, &gc)))
			}
			cond := conds[0]
			for _, x := range conds[1:] {
				cond = "orb " + cond + " " + x
			}
			out += fmt.Sprintf("%sif %s then\n%s\n%selse\n", decInd(d), cond, t.stmts(c.Body, d+1, next), decInd(d))
			closes++
		}
		if def != nil {
			out += t.stmts(def.Body, d+1, next)
		} else {
			out += next(d + 1)
		}
		return guarded(d, &g, out)
	case *ast.DeclStmt:
		return skip()
	}
	t.fail("unsupported statement %s", strings.Join(strings.Fields(t.text(s)), " "))
	return ""
}

func translateDec(tg trTarget) (name, def, doc string, err error) {
	name = "go_" + tg.recv + "_" + tg.name
	if tg.recv == "" {
		name = "go_" + tg.name
	}
	defer func() {
		if r := recover(); r != nil {
			if te, ok := r.(trErr); ok {
				err = te
				return
			}
			panic(r)
		}
	}()
	p, e := loadTrPkg(tg.dir)
	if e != nil {
		return name, "", "", e
	}
	fn := findFunc(p, tg.recv, tg.name)
	if fn == nil || fn.Body == nil {
		return name, "", "", fmt.Errorf("function not found")
	}
	t := &decTr{p: p, fn: fn, structs: map[types.Object]bool{}, fieldVar: map[string]string{}, names: map[types.Object]string{}, taken: map[string]bool{"data": true, "len_data": true, "len_ps": true}}
	if st := findStruct(p, "FrameV1"); st != nil {
		for _, f := range st.Fields.List {
			for _, n := range f.Names {
				t.structFields = append(t.structFields, n.Name)
			}
		}
	}
	var params []string
	// receiver
	var rf *ast.Field
	recvIsSlice := false
	if fn.Recv != nil {
		rf = fn.Recv.List[0]
		if tv, ok := p.info.Types[rf.Type]; ok && tv.Type != nil && tv.Type.Underlying().String() == "[]byte" {
			recvIsSlice = true
		}
	}
	switch {
	case rf == nil:
		t.mode = "decoder"
	case recvIsSlice:
		t.mode = "accessor"
		if len(rf.Names) == 1 {
			t.dataObj = p.info.Defs[rf.Names[0]]
		}
	case tg.recv == "FrameV1":
		t.mode = "accessor"
		if len(rf.Names) == 1 {
			t.structs[p.info.Defs[rf.Names[0]]] = true
		}
	default:
		t.mode = "decoder"
	}
	for _, pf := range fn.Type.Params.List {
		ty := nodeText(p.fset, pf.Type)
		for _, n := range pf.Names {
			o := p.info.Defs[n]
			switch {
			case ty == "[]byte" && t.mode == "decoder" && t.dataObj == nil:
				t.dataObj = o
			case ty == "[]byte":
				// further slices (the pooled slice) are outside the state
			case ty == "int" && t.mode == "accessor":
				n2 := t.fresh("v_" + n.Name)
				t.names[o] = n2
				t.intParams = append(t.intParams, n2)
			case ty == "int":
				// integer parameters outside the state (the offset inside the pooled slice)
			case ty == "frame.Frame":
				t.frameParam = o
			default:
				trFail("parameter of unsupported type %s", ty)
			}
		}
	}
	body := t.stmts(fn.Body.List, 1, func(d int) string { trFail("missing return"); return "" })
	if t.mode == "decoder" {
		params = append(params, "(data : list N)")
		for _, o := range t.oracles {
			params = append(params, fmt.Sprintf("(%s : bool)", o))
		}
	} else {
		params = append(params, "(len_data : Z)")
		if t.usesPS {
			params = append(params, "(len_ps : Z)")
		}
		for _, f := range t.fieldUse {
			params = append(params, fmt.Sprintf("(%s : Z)", "f_"+f))
		}
		for _, n := range t.intParams {
			params = append(params, fmt.Sprintf("(%s : Z)", n))
		}
	}
	doc = fmt.Sprintf("(* %s/%s: (%s) %s", tg.dir, filepath.Base(p.fset.Position(fn.Pos()).Filename), tg.recv, tg.name)
	if len(t.fieldSet) > 0 {
		doc += "; DOk [" + strings.Join(t.fieldSet, "; ") + "]"
	}
	if t.mode == "accessor" {
		doc += "; DOk [lo; hi] = the returned sub-slice data[lo:hi]"
	}
	if t.dataFrom != "" {
		doc += "; data = " + t.dataFrom
	}
	if len(t.oracleDoc) > 0 {
		doc += "; oracles (true = accepted): " + strings.Join(t.oracleDoc, ", ")
	}
	if len(t.siteDoc) > 0 {
		doc += "; error sites: " + strings.ReplaceAll(strings.Join(t.siteDoc, ", "), "*)", "* )")
	}
	if len(t.skipped) > 0 {
		doc += "; skipped (outside the byte-slice state): " + strings.ReplaceAll(strings.Join(t.skipped, " | "), "*)", "* )")
	}
	doc = "(* " + strings.ReplaceAll(strings.ReplaceAll(strings.TrimPrefix(doc, "(* "), "(*", "( *"), "*)", "* )") + " *)"
	def = fmt.Sprintf("Definition %s %s : dres :=\n%s.", name, strings.Join(params, " "), body)
	return name, def, doc, nil
}

func genTranslatedDec(sb *strings.Builder) error {
	sb.WriteString(decPrelude)
	for _, tg := range decTargets {
		name, def, doc, err := translateDec(tg)
		if err != nil {
			fmt.Fprintf(sb, "(* %s: not translatable: %s *)\nDefinition %s_translated : bool := false.\n\n", name, strings.ReplaceAll(err.Error(), "*)", "* )"), name)
			fmt.Fprintln(os.Stderr, "gen: translate", name+":", err)
			continue
		}
		fmt.Fprintf(sb, "%s\n%s\nDefinition %s_translated : bool := true.\n\n", doc, def, name)
	}
	return nil
}
