package main

import (
	"fmt"
	"net"
	"net/netip"
	"strings"
	"time"

	mdns "github.com/miekg/dns"
	"golang.org/x/net/idna"

	"github.com/mycoria/mycoria/api/dns"
	"github.com/mycoria/mycoria/config"
	"github.com/mycoria/mycoria/inst"
	"github.com/mycoria/mycoria/storage"
)

func init() { register("C19", runC19) }

type fakePacketConn struct{}

func (fakePacketConn) ReadFrom(p []byte) (int, net.Addr, error)  { select {} }
func (fakePacketConn) WriteTo(p []byte, a net.Addr) (int, error) { return len(p), nil }
func (fakePacketConn) Close() error                              { return nil }
func (fakePacketConn) LocalAddr() net.Addr                       { return &net.UDPAddr{} }
func (fakePacketConn) SetDeadline(time.Time) error               { return nil }
func (fakePacketConn) SetReadDeadline(time.Time) error           { return nil }
func (fakePacketConn) SetWriteDeadline(time.Time) error          { return nil }

type recWriter struct{ msg *mdns.Msg }

func (w *recWriter) LocalAddr() net.Addr         { return &net.UDPAddr{} }
func (w *recWriter) RemoteAddr() net.Addr        { return &net.UDPAddr{} }
func (w *recWriter) WriteMsg(m *mdns.Msg) error  { w.msg = m; return nil }
func (w *recWriter) Write(b []byte) (int, error) { return len(b), nil }
func (w *recWriter) Close() error                { return nil }
func (w *recWriter) TsigStatus() error           { return nil }
func (w *recWriter) TsigTimersOnly(bool)         {}
func (w *recWriter) Hijack()                     {}

func coqName(s string) string { return coqBytes([]byte(s)) }

// cleanKey is the harness' own normalisation of a configured domain: lower case, no trailing
// dot, IDNA to ASCII — what a resolver would see on the wire for that name.
func cleanKey(d string) string {
	d = strings.TrimSuffix(strings.ToLower(d), ".")
	if a, err := idna.ToASCII(d); err == nil {
		return a
	}
	return d
}

func runC19(c *Ctx) error {
	c.Res.Rule = "generated configurations (resolve entries incl. IDN and mixed case, friends, stored mappings) with names deliberately colliding across the five sources (built-in API names, resolve, forbidden, friends, mappings) " +
		"x queries (exact, case variants, with/without trailing dot, punycode form of IDN entries, non-.myco, sub-labels) x types (A, AAAA, SVCB, HTTPS, ANY, MX, TXT, 0, 65535) x classes (IN, CH, ANY, 0), plus empty question sections; " +
		"real dns.Server.ServeDNS with a recording ResponseWriter; non-trivial/distinct = distinct (winning source, number of sources holding the name, type ok, class ok, rcode)"
	selfID, err := newGeoIdentity()
	if err != nil {
		return err
	}
	pool := []string{"router.myco", "open.myco", "wpad.myco", "myco.myco", "alice.myco", "bob.myco", "files.myco", "münchen.myco", "a.b.myco", "printer.myco", "alice.bob.myco"}
	friendPool := []string{"alice", "bob", "router", "wpad", "files"}
	ipFor := func(k int) netip.Addr { return addrFrom(0xfd2a_4000_0000_0000|uint64(k)<<16, uint64(0x100+k)) }
	srcCode := map[string]int{"": 0, "internal": 1, "resolve-config": 2, "forbidden": 3, "friend": 4, "mapping": 5}
	c.CoqSetup("Prelude SeqCorr Dns DnsCorr", "c19_case", "c19_ok")
	nCfg := c.Pick(150, 1500)
	for ci := 0; ci < nCfg; ci++ {
		var st config.Store
		st.Router.Listen = []string{"tcp:47369"}
		st.Router.Address = selfID.Store()
		st.ResolveConfig = map[string]string{}
		type kv struct {
			k  string
			ip netip.Addr
		}
		var resolve, friends, maps []kv
		k := 1
		for _, d := range pool {
			if c.Rng.IntN(3) == 0 {
				name := d
				if c.Rng.IntN(4) == 0 {
					name = strings.ToUpper(d[:1]) + d[1:] + "."
				}
				st.ResolveConfig[name] = ipFor(k).String()
				resolve = append(resolve, kv{cleanKey(name), ipFor(k)})
				k++
			}
		}
		for _, f := range friendPool {
			if c.Rng.IntN(3) == 0 {
				st.FriendConfigs = append(st.FriendConfigs, config.FriendConfig{Name: f, IP: ipFor(k).String()})
				friends = append(friends, kv{f, ipFor(k)})
				k++
			}
		}
		cfg, err := st.Parse()
		if err != nil {
			return fmt.Errorf("config: %w", err)
		}
		mem := storage.NewMemStorage()
		for _, d := range pool {
			if c.Rng.IntN(2) == 0 {
				key := cleanKey(d)
				_ = mem.SaveMapping(key, ipFor(k))
				maps = append(maps, kv{key, ipFor(k)})
				k++
			}
		}
		stub := &inst.AnceStub{VersionStub: "verif", ConfigStub: cfg, IdentityStub: selfID}
		srv, err := dns.New(stub, fakePacketConn{}, mem)
		if err != nil {
			return err
		}
		toCoq := func(l []kv) string {
			parts := make([]string, len(l))
			for i, e := range l {
				parts[i] = fmt.Sprintf("(%s,%s)", coqName(e.k), ipN(e.ip))
			}
			return coqList(parts)
		}
		cfgTerm := fmt.Sprintf("(mkDcfg %s %s %s %s)", ipN(config.DefaultAPIAddress), toCoq(resolve), toCoq(friends), toCoq(maps))
		// spec oracle: first matching source in the fixed order
		spec := func(name string) (netip.Addr, string, int) {
			holders := 0
			var ip netip.Addr
			src := ""
			set := func(a netip.Addr, s string) {
				holders++
				if src == "" {
					ip, src = a, s
				}
			}
			if name == "router.myco" || name == "open.myco" {
				set(config.DefaultAPIAddress, "internal")
			}
			var rv *kv
			for i := range resolve {
				if resolve[i].k == name {
					rv = &resolve[i]
				}
			}
			if rv != nil {
				set(rv.ip, "resolve-config")
			}
			if name == "wpad.myco" || name == "myco.myco" {
				set(netip.Addr{}, "forbidden")
			}
			if fn, ok := strings.CutSuffix(name, ".myco"); ok {
				var fv *kv
				for i := range friends {
					if friends[i].k == fn {
						fv = &friends[i]
					}
				}
				if fv != nil {
					set(fv.ip, "friend")
				}
			}
			var mv *kv
			for i := range maps {
				if maps[i].k == name {
					mv = &maps[i]
				}
			}
			if mv != nil {
				set(mv.ip, "mapping")
			}
			return ip, src, holders
		}
		var qterms []string
		nQ := c.Pick(30, 60)
		for qi := 0; qi < nQ; qi++ {
			base := pool[c.Rng.IntN(len(pool))]
			qname := cleanKey(base) + "."
			switch c.Rng.IntN(9) {
			case 0:
				qname = strings.ToUpper(qname)
			case 1:
				qname = strings.TrimSuffix(qname, ".") // no trailing dot
			case 2:
				qname = "example.com."
			case 3:
				qname = "x." + qname
			case 4:
				qname = strings.Replace(qname, ".myco.", ".mycox.", 1)
			case 5:
				qname = strings.ToUpper(qname[:1]) + qname[1:]
			}
			qtype := []uint16{1, 28, 64, 65, 255, 15, 16, 0, 65535, 28, 28, 1}[c.Rng.IntN(12)]
			qclass := []uint16{1, 1, 1, 255, 3, 0}[c.Rng.IntN(6)]
			msg := new(mdns.Msg)
			msg.Id = uint16(c.Rng.IntN(65536))
			empty := c.Rng.IntN(25) == 0
			if !empty {
				msg.Question = []mdns.Question{{Name: qname, Qtype: qtype, Qclass: qclass}}
				if c.Rng.IntN(10) == 0 {
					msg.Question = append(msg.Question, mdns.Question{Name: "other.myco.", Qtype: 28, Qclass: 1})
				}
			}
			w := &recWriter{}
			pan, _ := recoverPanic(func() { srv.ServeDNS(w, msg) })
			c.Eval()
			code, rcode, src := 0, 0, ""
			var ans netip.Addr
			if pan || w.msg == nil {
				code = 3
				c.Violate("a DNS query got no reply (handler crashed)", "dns-noreply", map[string]any{"name": qname, "type": qtype, "class": qclass, "empty_question": empty})
			} else {
				rcode = w.msg.Rcode
				for _, rr := range append(append([]mdns.RR(nil), w.msg.Answer...), w.msg.Extra...) {
					if a, ok := rr.(*mdns.AAAA); ok {
						ans, _ = netip.AddrFromSlice(a.AAAA)
					}
					if t, ok := rr.(*mdns.TXT); ok && len(t.Txt) > 0 {
						src = strings.TrimPrefix(t.Txt[0], "answer source: ")
					}
				}
			}
			// property oracle
			if code == 0 {
				lname := strings.ToLower(qname)
				typeOK := qtype == 1 || qtype == 28 || qtype == 64 || qtype == 65 || qtype == 255
				classOK := qclass == 1 || qclass == 255
				want := !empty && strings.HasSuffix(lname, ".myco.") && typeOK && classOK
				wip, wsrc, holders := spec(strings.TrimSuffix(lname, "."))
				answers := want && wsrc != "" && wsrc != "forbidden"
				switch {
				case !answers && rcode != mdns.RcodeNameError:
					c.Violate("a query outside .myco / of another type or class / for an unknown or forbidden name did not get a name error", "dns-filter", map[string]any{"name": qname, "type": qtype, "class": qclass, "cfg": cfgTerm})
				case answers && (rcode != mdns.RcodeSuccess || ans != wip || src != wsrc):
					c.Violate(fmt.Sprintf("answer %s from %q, but the first matching source %q holds %s", ans, src, wsrc, wip), "dns-precedence", map[string]any{"name": qname, "type": qtype, "class": qclass, "cfg": cfgTerm})
				}
				c.NonTrivial(fmt.Sprintf("%s/%d/%v/%v/%d", wsrc, holders, typeOK, classOK, rcode))
				c.Count("winner:" + wsrc)
			}
			qs := []string{}
			for _, q := range msg.Question {
				qs = append(qs, fmt.Sprintf("(%s,%d,%d)", coqName(q.Name), q.Qtype, q.Qclass))
			}
			ansN := "0"
			if ans.IsValid() {
				ansN = ipN(ans)
			}
			qterms = append(qterms, fmt.Sprintf("(%s,(%d,%d,%s,%d))", coqList(qs), code, rcode, ansN, srcCode[src]))
		}
		c.Case(fmt.Sprintf("(%s,%s)", cfgTerm, coqList(qterms)), map[string]any{"cfg": cfgTerm})
		// the sources change while the server runs (a stored mapping is pointed at another router or
		// removed through the dashboard): every later answer comes from what the sources hold THEN
		for ri := 0; ri < len(maps) && ri < 4; ri++ {
			mi := c.Rng.IntN(len(maps))
			name := maps[mi].k
			ask := func() (int, netip.Addr) {
				msg := new(mdns.Msg)
				msg.Id = uint16(c.Rng.IntN(65536))
				msg.Question = []mdns.Question{{Name: name + ".", Qtype: 28, Qclass: 1}}
				w := &recWriter{}
				if pan, _ := recoverPanic(func() { srv.ServeDNS(w, msg) }); pan || w.msg == nil {
					return -1, netip.Addr{}
				}
				var ans netip.Addr
				for _, rr := range append(append([]mdns.RR(nil), w.msg.Answer...), w.msg.Extra...) {
					if a, ok := rr.(*mdns.AAAA); ok {
						ans, _ = netip.AddrFromSlice(a.AAAA)
					}
				}
				return w.msg.Rcode, ans
			}
			ask() // whatever it is now, it has been asked once
			step := "re-pointed"
			if c.Rng.IntN(3) == 0 {
				step = "removed"
				_ = mem.DeleteMapping(name)
				maps = append(maps[:mi], maps[mi+1:]...)
			} else {
				k++
				maps[mi].ip = ipFor(k)
				_ = mem.SaveMapping(name, maps[mi].ip)
			}
			rcode, ans := ask()
			c.Eval()
			c.Count("mapping-" + step)
			wip, wsrc, _ := spec(name)
			answers := wsrc != "" && wsrc != "forbidden"
			rep := map[string]any{"name": name, "step": step, "cfg": cfgTerm}
			switch {
			case rcode < 0:
				c.Violate("a DNS query got no reply (handler crashed)", "dns-noreply", rep)
			case !answers && rcode != mdns.RcodeNameError:
				c.Violate(fmt.Sprintf("after its mapping was %s, a name no source holds any more is still answered (%s)", step, ans), "dns-stale-answer", rep)
			case answers && (rcode != mdns.RcodeSuccess || ans != wip):
				c.Violate(fmt.Sprintf("after its mapping was %s the answer is %s, but the first matching source %q holds %s", step, ans, wsrc, wip), "dns-stale-answer", rep)
			}
		}
		if ci < 2 {
			c.Sample(map[string]any{"resolve": fmt.Sprintf("%v", st.ResolveConfig), "friends": fmt.Sprintf("%v", st.FriendConfigs), "mappings": len(maps)})
		}
	}
	return nil
}
