package main

import (
	"crypto/ecdh"
	"crypto/ed25519"
	"crypto/rand"
	"errors"
	"fmt"
	"github.com/mycoria/mycoria/config"
	"github.com/mycoria/mycoria/mgr"
	"net/netip"
	"regexp"
	"strings"
	"sync"
	"time"

	"github.com/fxamacker/cbor/v2"

	"github.com/mycoria/crop"
	"github.com/mycoria/mycoria/frame"
	"github.com/mycoria/mycoria/m"
	"github.com/mycoria/mycoria/router"
)

func init() { register("C13", runC13) }

var c13PingTypeRe = regexp.MustCompile(`^[a-z0-9\.]+$`)

func obsClass(res deliverResult) int {
	if res.panicked() {
		return 3
	}
	if res.parseErr != nil || res.switchErr != nil {
		return 1
	}
	for _, e := range res.routerErrs {
		if e != nil {
			return 1
		}
	}
	return 0
}

func (e *ctlEnv) c13Linfos(apx, ctx []byte) (infos []string) {
	self := e.R.id.IP
	admitted := map[netip.Addr]ed25519.PublicKey{}
	for i := 0; i < 102 && len(apx) >= 65; i++ {
		var att router.AnnouncePingAttachment
		if err := cbor.Unmarshal(apx[:len(apx)-64], &att); err != nil {
			infos = append(infos, "(mkL false false false false 0)")
			return
		}
		ip := att.Router.IP
		key := e.boundKey(ip)
		if k, ok := admitted[ip]; ok && key == nil {
			key = k
		}
		sess := key != nil
		if !sess && att.Router.VerifyAddress() == nil {
			key = att.Router.PublicKey
			admitted[ip] = key
			sess = true
		}
		sig := false
		if len(key) == ed25519.PublicKeySize {
			sig = ed25519.VerifyWithOptions(key, apx[:len(apx)-64], apx[len(apx)-64:], &ed25519.Options{Context: string(ctx)}) == nil
		}
		infos = append(infos, fmt.Sprintf("(mkL true %s %s %s %d)", coqBool(ip == self), coqBool(sess), coqBool(sig), len(att.NextAttachment)))
		apx = att.NextAttachment
	}
	return
}

func runC13(c *Ctx) error {
	c.Res.Rule = "one long-lived real router (state, switch, peering, router) is fed through a real link object: random byte strings up to 64 KiB and random bytes behind a valid frame prefix; frames of every message type (0..15 incl. unknown) and every ping type sealed with the sender's real keys whose header length byte, CBOR header, ping type, ping code, body (random / truncated / wrong-typed CBOR), switch block, appendix and hop-record chain (junk inner layers of 0..200 bytes under a validly signed outer record, unknown hash / key-type names, nested depth up to 20) are malformed; " +
		"encrypted control and traffic frames (after a real key exchange) with short packets, mismatching inner addresses and all protocol numbers; first-contact pings with malformed identities. After every input: no worker panic (a double buffer release panics, so it is covered); where a modelled stage applies (ping split, hop-record layer loop, traffic metadata) its outcome class is compared with the model; at the end the router still answers a valid request. non-trivial/distinct = distinct (category, outcome class)"
	c.CoqSetup("Prelude SeqCorr Malformed MalformedCorr", "c13_case", "c13_ok")
	e, err := newCtlEnv(c, false)
	if err != nil {
		return err
	}
	R, P1 := e.R, e.P1
	self := R.id.IP
	recv := R.links[P1.id.IP]
	// end-to-end keys between P1 and R
	sP, sR := P1.st.GetSession(self), R.st.GetSession(P1.id.IP)
	if sP == nil || sR == nil {
		return fmt.Errorf("sessions missing")
	}
	if err := keyExchange(sP.Encryption(), sR.Encryption()); err != nil {
		return err
	}
	unknown, err := newGeoIdentity()
	if err != nil {
		return err
	}
	known, err := newGeoIdentity()
	if err != nil {
		return err
	}
	_ = R.st.AddRouter(&known.PublicAddress)

	randBytes := func(n int) []byte {
		b := make([]byte, n)
		for i := range b {
			b[i] = byte(c.Rng.IntN(256))
		}
		return b
	}
	randCBOR := func() []byte {
		switch c.Rng.IntN(8) {
		case 0:
			return nil
		case 1:
			return randBytes(1 + c.Rng.IntN(40))
		case 2:
			b, _ := cbor.Marshal(map[string]any{"kx": randBytes(c.Rng.IntN(40)), "kxt": "ECDH-X25519/BLAKE3", "mtu": c.Rng.IntN(70000) - 100})
			return b
		case 3:
			b, _ := cbor.Marshal([]any{1, "x", []byte{1, 2}, map[int]int{1: 2}})
			return b
		case 4:
			b, _ := cbor.Marshal(map[string]any{"u": "not an address", "d": 17, "t": "x", "p": -1})
			return b
		case 5:
			b, _ := cbor.Marshal(map[string]any{"i": map[string]any{"v": 5}, "b": 70000, "s": "yes", "e": "tomorrow"})
			return b
		case 6:
			b, _ := cbor.Marshal(&router.DisconnectPingMsg{GoingDown: c.Rng.IntN(2) == 0, Disconnected: []netip.Addr{{}, self}})
			return b[:len(b)-c.Rng.IntN(len(b))]
		default:
			b, _ := cbor.Marshal(&router.AnnouncePingMsg{Info: &m.RouterInfo{Version: string(randBytes(c.Rng.IntN(300)))}, ReturnLabel: m.SwitchLabel(c.Rng.IntN(65536)), Expires: time.Now().Add(time.Duration(c.Rng.IntN(100)-50) * time.Hour)})
			return b
		}
	}
	pingTypes := []string{"hello", "pong", "error", "disconnect", "announce", "nosuch", "", "BAD TYPE", "a.b.c", string(randBytes(5))}
	sealEnc := func(ty frame.MessageType, dst netip.Addr, msg []byte) []byte {
		f, err := craftBuilder.NewFrameV1(P1.id.IP, dst, ty, nil, msg, nil)
		if err != nil {
			return nil
		}
		defer f.ReturnToPool()
		if err := f.Seal(sP); err != nil {
			return nil
		}
		d, _ := f.FrameDataWithMargins(0, 0)
		return append([]byte(nil), d...)
	}
	mkMsg := func(hdr []byte, hdrLenByte int, body []byte) []byte {
		msg := append([]byte{1, byte(hdrLenByte)}, hdr...)
		return append(msg, body...)
	}

	rekey := func() {
		// a (malformed but authentic) "no encryption keys" error ping makes R drop the keys: set them up again
		cur := R.st.GetSession(P1.id.IP)
		if cur == nil {
			return
		}
		if in, _ := cur.Encryption().VerifKeys(); len(in) == 0 {
			_ = keyExchange(sP.Encryption(), cur.Encryption())
			c.Count("rekeyed")
		}
	}
	n := c.Pick(1500, 20000)
	for it := 0; it < n; it++ {
		rekey()
		var data []byte
		cat := ""
		caseT := ""
		switch c.Rng.IntN(14) {
		case 13: // transit frames (not addressed to this router, never authenticated by it) with every kind of
			// source: the delivering peer, a known / unknown routable router, a privacy address, the
			// internal range, an address outside the mesh; destinations whose best next hop may be the
			// link the frame came from (would loop: an unreachable error is sent back — or cannot be)
			cat = "transit"
			srcs := []netip.Addr{P1.id.IP, known.IP, unknown.IP, netip.MustParseAddr("fdf0:1234:5678::9"), netip.MustParseAddr("fd80::77"), netip.MustParseAddr("fd00::5"), netip.MustParseAddr("2001:db8::2"), self}
			var dst netip.Addr
			switch c.Rng.IntN(5) {
			case 0:
				b := P1.id.IP.As16()
				b[15] ^= byte(1 + c.Rng.IntN(200)) // a neighbour of P1's address: nearest route is via P1
				dst = netip.AddrFrom16(b)
			case 1:
				dst = known.IP
			case 2:
				dst = netip.MustParseAddr("fdf0:1234:5678::10")
			case 3:
				dst = e.P2.id.IP
			default:
				b := [16]byte{0xfd}
				copy(b[1:], randBytes(15))
				dst = netip.AddrFrom16(b)
			}
			ty := []frame.MessageType{frame.NetworkTraffic, frame.RouterCtrl, frame.SessionCtrl, frame.SessionData, frame.RouterPing, frame.MessageType(9)}[c.Rng.IntN(6)]
			f, err := craftBuilder.NewFrameV1(srcs[c.Rng.IntN(len(srcs))], dst, ty, nil, randBytes(1+c.Rng.IntN(60)), nil)
			if err != nil {
				continue
			}
			f.SetTTL(uint8(c.Rng.IntN(5)))
			if c.Rng.IntN(2) == 0 {
				f.SetTTL(32)
			}
			d, _ := f.FrameDataWithMargins(0, 0)
			data = append([]byte(nil), d...)
			f.ReturnToPool()
		case 12: // valid but repeated responses to an outstanding request of this router
			cat = "repeated-valid-response"
			e.w.queue = nil
			var pingID uint64
			kind := c.Rng.IntN(2)
			if kind == 0 {
				_, id, err := R.ro.PingPong.Send(P1.id.IP, true, 0)
				if err != nil {
					continue
				}
				pingID = id
			} else {
				R.ro.VerifHelloExpire(P1.id.IP)
				if _, err := R.ro.HelloPing.Send(P1.id.IP); err != nil || len(e.w.queue) == 0 {
					continue
				}
				q := e.w.queue[len(e.w.queue)-1]
				var h router.PingHeader
				if b := c08Body2(q.data); len(b) > 2 && cbor.Unmarshal(b[2:2+int(b[1])], &h) == nil {
					pingID = h.PingID
				}
			}
			e.w.queue = nil
			// two (or three) correctly signed follow-ups with the same ping id
			for rep := 0; rep < 2+c.Rng.IntN(2); rep++ {
				spec := pingSpec{from: P1.id, dst: self, msgType: frame.RouterPing, pingID: pingID, followUp: true, seqTime: nextCraftTime()}
				if kind == 0 {
					spec.pingType = "pong"
					spec.body, _ = cbor.Marshal(map[string]string{"msg": "pong"})
				} else {
					spec.pingType = "hello"
					k, _ := ecdh.X25519().GenerateKey(rand.Reader)
					spec.body, _ = cbor.Marshal(&router.HelloPingResponse{KeyExchange: k.PublicKey().Bytes(), KeyExchangeType: "ECDH-X25519/BLAKE3", MTU: 1400})
				}
				d, err := craftPing(spec)
				if err != nil {
					continue
				}
				res := R.inject(d, recv)
				e.w.queue = nil
				c.Eval()
				if res.panicked() {
					c.Violate("a repeated, correctly sealed response to an outstanding request crashed a router worker", "panic-repeated-valid-response",
						map[string]any{"kind": []string{"pong", "hello"}[kind], "repetition": rep, "errors": fmt.Sprint(res.routerWorkerErrs)})
				}
			}
			c.Count("category:" + cat)
			c.NonTrivial(fmt.Sprintf("%s/%d", cat, kind))
			continue
		case 0: // random bytes
			cat = "random-bytes"
			L := []int{0, 1, 10, 67, 68, 69, 100, 600, 1600, 9600, 65535}[c.Rng.IntN(11)]
			data = randBytes(L)
		case 1: // valid prefix, random tail and inconsistent lengths
			cat = "random-behind-prefix"
			data = randBytes(68 + c.Rng.IntN(300))
			data[0] = 1
			data[4] = byte(c.Rng.IntN(16))
			data[48] = byte([]int{0, 1, 5, 200, 255}[c.Rng.IntN(5)])
		case 2, 3: // signed pings with malformed header framing / header / type / body
			cat = "signed-ping-malformed"
			ptype := pingTypes[c.Rng.IntN(len(pingTypes))]
			hdr := router.PingHeader{PingID: uint64(c.Rng.IntN(1 << 30)), PingType: ptype, PingCode: uint8(c.Rng.IntN(256)), FollowUp: c.Rng.IntN(4) == 0,
				AddrHash: P1.id.Hash, KeyType: P1.id.Type, PublicKey: P1.id.PublicKey}
			hd, _ := cbor.Marshal(&hdr)
			if c.Rng.IntN(6) == 0 {
				hd = randBytes(c.Rng.IntN(60))
			}
			hl := len(hd)
			switch c.Rng.IntN(6) {
			case 0:
				hl = 0
			case 1:
				hl = 255
			case 2:
				hl = len(hd) + 1 + c.Rng.IntN(20)
			case 3:
				hl = c.Rng.IntN(len(hd) + 1)
			}
			body := randCBOR()
			msg := mkMsg(hd, hl, body)
			if c.Rng.IntN(10) == 0 {
				msg = msg[:1+c.Rng.IntN(2)]
			}
			ty := []frame.MessageType{frame.RouterPing, frame.RouterHopPing, frame.RouterHopPingDeprecated}[c.Rng.IntN(3)]
			dst := self
			data, err = craftPing(pingSpec{from: P1.id, dst: dst, msgType: ty, seqTime: nextCraftTime(), rawMsg: msg})
			if err != nil {
				continue
			}
			// model stage: ping split
			hdrOK := false
			if len(msg) >= 3 && len(msg) >= 2+int(msg[1]) {
				var h router.PingHeader
				hdrOK = cbor.Unmarshal(msg[2:2+int(msg[1])], &h) == nil && c13PingTypeRe.MatchString(h.PingType)
			}
			b1 := 0
			if len(msg) > 1 {
				b1 = int(msg[1])
			}
			caseT = fmt.Sprintf("(IPing %d %d %s", len(msg), b1, coqBool(hdrOK))
		case 4, 5: // announcements with malformed hop-record chains
			cat = "announce-chain-malformed"
			a, err := c08NewAnn(known, false, 5, time.Now().Add(time.Hour))
			if err != nil {
				return err
			}
			mk := func(id *m.Address, pub m.PublicAddress, next []byte, ctx []byte) c08Rec {
				return c08Rec{pub: pub, delay: 3, fl: 4, rl: 5, signKey: id.PrivateKey, ctx: ctx, flipAt: -1, raw: nil}
			}
			var chain []c08Rec
			chain = append(chain, mk(P1.id, P1.id.PublicAddress, nil, a.ctx))
			depth := c.Rng.IntN(4)
			if c.Rng.IntN(12) == 0 {
				depth = 5 + c.Rng.IntN(16)
			}
			for k := 0; k < depth; k++ {
				id := []*m.Address{known, unknown, e.P2.id}[c.Rng.IntN(3)]
				pub := id.PublicAddress
				switch c.Rng.IntN(8) {
				case 0:
					pub.Hash = crop.Hash("NOPE")
				case 1:
					pub.Type = crop.KeyPairType("RSA-1")
				case 2:
					pub.PublicKey = pub.PublicKey[:c.Rng.IntN(32)]
				case 3:
					pub.IP = netip.Addr{}
				}
				chain = append(chain, mk(id, pub, nil, a.ctx))
			}
			// innermost: junk of 0..200 bytes under validly signed outer records
			switch c.Rng.IntN(3) {
			case 0:
				junk := randBytes([]int{0, 1, 10, 63, 64, 65, 66, 120, 200}[c.Rng.IntN(9)])
				chain = append(chain, c08Rec{raw: junk, flipAt: -1})
			case 1:
				if len(chain) > 0 {
					chain[len(chain)-1].flipAt = c.Rng.IntN(4096)
				}
			}
			apx := c08Encode(chain)
			data = append(append([]byte(nil), a.base...), apx...)
			infos := e.c13Linfos(apx, a.ctx)
			caseT = fmt.Sprintf("(IAnn %s %d", coqList(infos), len(apx))
		case 6: // switch blocks of every shape on otherwise valid pings
			cat = "switch-block"
			sb := randBytes(1 + c.Rng.IntN(30))
			if c.Rng.IntN(2) == 0 {
				sb = append(appendUvarint(nil, uint64(c.Rng.IntN(65536))), make([]byte, c.Rng.IntN(5))...)
			}
			body, _ := cbor.Marshal(map[string]string{"msg": "ping"})
			data, err = craftPing(pingSpec{from: P1.id, dst: self, msgType: frame.RouterPing, pingType: "pong", body: body, seqTime: nextCraftTime(), sb: sb})
			if err != nil {
				continue
			}
		case 7, 8: // encrypted traffic with malformed inner packets
			cat = "traffic-malformed"
			L := []int{1, 20, 43, 44, 45, 60, 100, 1300}[c.Rng.IntN(8)]
			pkt := randBytes(L)
			proto := []int{6, 17, 58, 0, 255}[c.Rng.IntN(5)]
			if L > 6 {
				pkt[0] = 0x60
				pkt[6] = byte(proto)
			} else {
				proto = 0
			}
			if L >= 40 {
				s16, d16 := P1.id.IP.As16(), self.As16()
				switch c.Rng.IntN(4) {
				case 0: // mismatching source
					s16 = known.IP.As16()
				case 1: // mismatching destination
					d16 = known.IP.As16()
				}
				copy(pkt[8:24], s16[:])
				copy(pkt[24:40], d16[:])
			}
			data = sealEnc(frame.NetworkTraffic, self, pkt)
			if data == nil {
				continue
			}
			if L > 6 {
				proto = int(pkt[6])
			}
			caseT = fmt.Sprintf("(ITraffic %d %d", L, proto)
		case 9: // encrypted control pings with garbage
			cat = "ctrl-malformed"
			hdr := router.PingHeader{PingID: 7, PingType: pingTypes[c.Rng.IntN(len(pingTypes))], PingCode: uint8(c.Rng.IntN(8))}
			hd, _ := cbor.Marshal(&hdr)
			hl := len(hd)
			if c.Rng.IntN(3) == 0 {
				hl = c.Rng.IntN(256)
			}
			msg := mkMsg(hd, hl, randCBOR())
			data = sealEnc(frame.RouterCtrl, self, msg)
			if data == nil {
				continue
			}
			hdrOK := false
			if len(msg) >= 3 && len(msg) >= 2+int(msg[1]) {
				var h router.PingHeader
				hdrOK = cbor.Unmarshal(msg[2:2+int(msg[1])], &h) == nil && c13PingTypeRe.MatchString(h.PingType)
			}
			caseT = fmt.Sprintf("(IPing %d %d %s", len(msg), int(msg[1]), coqBool(hdrOK))
		case 10: // first contact with malformed identities in the ping header
			cat = "first-contact-identity"
			id, err := newGeoIdentity()
			if err != nil {
				return err
			}
			spec := pingSpec{from: id, dst: self, msgType: frame.RouterPing, pingType: "pong", seqTime: nextCraftTime(), rawHdr: true, hdrHash: id.Hash, hdrType: id.Type, hdrKey: id.PublicKey}
			switch c.Rng.IntN(8) {
			case 5, 6:
				// an identity that is consistent in itself (the source address IS the digest of the key
				// material) but whose key has the wrong length for its type: it must be refused before
				// anybody tries to verify a signature with it
				odd := craftOddKey([]int{16, 31, 33, 48, 64}[c.Rng.IntN(5)])
				spec.src = odd.IP
				spec.hdrHash, spec.hdrType, spec.hdrKey = odd.Hash, odd.Type, odd.PublicKey
				c.Count("first-contact:self-consistent-odd-key")
			case 0:
				spec.hdrHash = crop.Hash("MD5-ISH")
			case 1:
				spec.hdrType = crop.KeyPairType("Ed448")
			case 2:
				spec.hdrKey = id.PublicKey[:c.Rng.IntN(32)]
			case 3:
				spec.hdrKey = append(append([]byte(nil), id.PublicKey...), 1, 2, 3)
			case 4:
				spec.hdrHash, spec.hdrType, spec.hdrKey = "", "", nil
			}
			spec.body, _ = cbor.Marshal(map[string]string{"msg": "ping"})
			data, err = craftPing(spec)
			if err != nil {
				continue
			}
		default: // every message type, sealed or signed, arbitrary destination
			cat = "any-message-type"
			ty := frame.MessageType(c.Rng.IntN(16))
			dst := []netip.Addr{self, known.IP, m.RouterAddress, netip.MustParseAddr("2001:db8::1")}[c.Rng.IntN(4)]
			msg := randBytes(1 + c.Rng.IntN(80))
			if ty.IsEncrypted() {
				data = sealEnc(ty, dst, msg)
			} else {
				data, _ = craftPing(pingSpec{from: P1.id, dst: dst, msgType: ty, seqTime: nextCraftTime(), rawMsg: msg})
			}
			if data == nil {
				continue
			}
		}
		e.w.queue = nil
		res := R.inject(data, recv)
		e.w.queue = nil
		R.tunFrames()
		R.tunRaw()
		c.Eval()
		cls := obsClass(res)
		c.Count("category:" + cat)
		c.NonTrivial(fmt.Sprintf("%s/%d", cat, cls))
		if cls == 3 {
			c.Violate("input from an authenticated peer crashed a router worker ("+cat+")", "panic-"+cat, map[string]any{"category": cat, "frame_hex": fmt.Sprintf("%x", data), "errors": fmt.Sprint(res.routerWorkerErrs, res.switchWorkerErr)})
		}
		if caseT != "" {
			// the frame reached the modelled stage only if it parsed and was handed to the router
			reached := res.parseErr == nil && len(res.routerErrs) > 0
			if reached {
				stageCls := cls
				// an unseal error (e.g. replay window) precedes the stage: skip those
				skip := false
				for _, he := range res.routerErrs {
					if he != nil && (contains(he.Error(), "unseal") || contains(he.Error(), "session from ping") || contains(he.Error(), "unknown src router")) {
						skip = true
					}
				}
				if !skip {
					c.Case(fmt.Sprintf("(%s), %d)", caseT, stageCls), map[string]any{"category": cat, "class": stageCls})
				}
			}
		}
		if it < 4 {
			c.Sample(map[string]any{"category": cat, "bytes": len(data), "class": cls})
		}
	}
	// ---------- handshake messages with oversized fields ----------
	// a peer with a valid identity of its own sends correctly signed handshake messages whose
	// string / byte fields are huge (they are echoed in error replies): the setup worker must
	// answer or abort with an error, never panic
	if err := c13Handshakes(c); err != nil {
		return err
	}

	// ---------- a peer that stops reading from its connection ----------
	// the workers that hand frames to a link (switch and router workers, through Send /
	// SendPriority) must not wait for the remote end: with the link writer stuck in the connection,
	// further frames are dropped or refused, and the calls return
	if err := c13OptionalFields(c); err != nil {
		return err
	}
	if err := c13ChosenSequenceNumbers(c); err != nil {
		return err
	}
	if err := c13ErrorPingsBothDirections(c); err != nil {
		return err
	}
	if err := c13StalledPeer(c); err != nil {
		return err
	}

	// the router is still alive: a valid request from P1 gets its reply
	body, _ := cbor.Marshal(map[string]string{"msg": "ping"})
	d, err := craftPing(pingSpec{from: P1.id, dst: self, msgType: frame.RouterPing, pingType: "pong", body: body, seqTime: nextCraftTime(), pingID: 4242})
	if err != nil {
		return err
	}
	e.w.queue = nil
	res := R.inject(d, recv)
	replied := false
	for _, q := range e.w.queue {
		fi := parseFrameInfo(q.data)
		if fi.ok && fi.src == self && fi.dst == P1.id.IP {
			replied = true
		}
	}
	c.Eval()
	if obsClass(res) != 0 || !replied {
		c.Violate("after the malformed inputs the router no longer answers a valid request", "stalled", map[string]any{"class": obsClass(res), "replied": replied, "errors": fmt.Sprint(res.routerErrs)})
	}
	return nil
}

// c13OptionalFields: correctly signed announcements whose body leaves optional fields out (no
// router info, an empty map, zero values) arrive on a long-lived router in between ordinary
// announcements of the same origin: what the router remembers of the origin from earlier
// announcements must not turn a sparse one into a crash.
func c13OptionalFields(c *Ctx) error {
	for it, n := 0, c.Pick(4, 20); it < n; it++ {
		e, err := newCtlEnv(c, false)
		if err != nil {
			return err
		}
		R, P1 := e.R, e.P1
		origin, err := newGeoIdentity()
		if err != nil {
			return err
		}
		recv := R.links[P1.id.IP]
		bodies := []func() []byte{
			func() []byte {
				b, _ := cbor.Marshal(&router.AnnouncePingMsg{Info: &m.RouterInfo{Version: "v1"}, ReturnLabel: 9, Expires: time.Now().Add(time.Hour)})
				return b
			},
			func() []byte {
				b, _ := cbor.Marshal(&router.AnnouncePingMsg{ReturnLabel: 9, Expires: time.Now().Add(time.Hour)})
				return b
			},
			func() []byte { b, _ := cbor.Marshal(map[string]any{}); return b },
			func() []byte {
				b, _ := cbor.Marshal(&router.AnnouncePingMsg{Info: &m.RouterInfo{}, ReturnLabel: 9, Expires: time.Now().Add(time.Hour)})
				return b
			},
		}
		names := []string{"full", "no-info", "empty-map", "empty-info"}
		var trace []string
		for step, nSteps := 0, 4+c.Rng.IntN(5); step < nSteps; step++ {
			k := c.Rng.IntN(len(bodies))
			if step == 0 {
				k = 0
			}
			base, err := craftPing(pingSpec{from: origin, dst: m.RouterAddress, msgType: frame.RouterHopPingDeprecated, pingType: "announce", body: bodies[k](), seqTime: nextCraftTime()})
			if err != nil {
				return err
			}
			chain := []c08Rec{{pub: P1.id.PublicAddress, delay: 3, fl: 4, rl: 5, signKey: P1.id.PrivateKey, ctx: c08Ctx(base), flipAt: -1}}
			data := append(append([]byte(nil), base...), c08Encode(chain)...)
			e.w.queue = nil
			res := R.inject(data, recv)
			c.Eval()
			trace = append(trace, names[k])
			c.Count("category:announce-optional-fields/" + names[k])
			c.NonTrivial(fmt.Sprintf("announce-optional/%v", trace))
			if res.panicked() {
				c.Violate(fmt.Sprintf("a correctly signed announcement with optional fields left out (%s) crashed the router worker after the announcements %v of the same origin", names[k], trace[:len(trace)-1]), "panic-optional-fields", map[string]any{"sequence": trace})
				break
			}
		}
	}
	return nil
}

// c13ChosenSequenceNumbers: a peer with end-to-end keys sends correctly sealed frames whose
// sequence-number header field takes chosen values (around the wrap, zero, far ahead, far behind;
// priority and regular class).  Whatever the verdict on each frame, every one is handled in
// bounded time, and afterwards the router still handles the peer's next frame and can still seal
// a frame for that peer.
func c13ChosenSequenceNumbers(c *Ctx) error {
	scripts := [][]uint32{
		{0xFFFFFF00, 1, 2}, {0xFFFFFFFF, 0, 1}, {0xFFFFFF7F, 0xFFFFFF80, 0xFF, 0x100}, {5, 0xFFFFFFF0, 3, 4},
		{1, 0x80000000, 2, 0x80000001}, {0xFFFFFFFE, 0xFFFFFFFF, 0xFE, 0xFF, 0x100, 1},
	}
	for it, n := 0, c.Pick(8, 40); it < n; it++ {
		e, err := newCtlEnv(c, false)
		if err != nil {
			return err
		}
		R, P := e.R, e.P1
		sRP, sPR := R.st.GetSession(P.id.IP), P.st.GetSession(R.id.IP)
		if sRP == nil || sPR == nil {
			return fmt.Errorf("c13: no session between linked routers")
		}
		if err := keyExchange(sPR.Encryption(), sRP.Encryption()); err != nil {
			return err
		}
		prio := it%2 == 0
		mt := []frame.MessageType{frame.NetworkTraffic, frame.SessionData}[c.Rng.IntN(2)]
		if prio {
			mt = []frame.MessageType{frame.RouterCtrl, frame.SessionCtrl}[c.Rng.IntN(2)]
		}
		var script []uint32
		if it < 2*len(scripts) {
			script = scripts[it/2]
		} else {
			for k, m := 0, 3+c.Rng.IntN(5); k < m; k++ {
				script = append(script, []uint32{c.Rng.Uint32(), 0xFFFFFF00 + uint32(c.Rng.IntN(256)), uint32(c.Rng.IntN(300))}[c.Rng.IntN(3)])
			}
		}
		recv := R.links[P.id.IP]
		pPrio, pRegl := sPR.Encryption().VerifSeqHandlers()
		rep := map[string]any{"type": int(mt), "priority": prio, "sequence_numbers": script}
		stalled := false
		timed := func(what string, fn func()) bool {
			done := make(chan struct{})
			go func() { defer close(done); recoverPanic(fn) }()
			select {
			case <-done:
				return true
			case <-time.After(3 * time.Second):
				c.Violate(fmt.Sprintf("%s is still blocked after 3 s (peer-chosen sequence numbers %v, priority=%v)", what, script, prio), "stalled-by-sequence-number", rep)
				stalled = true
				return false
			}
		}
		for _, q := range script {
			h := pRegl
			if prio {
				h = pPrio
			}
			h.VerifSetOut(q - 1)
			f, err := P.builder.NewFrameV1(P.id.IP, R.id.IP, mt, nil, randBytes(c, 10+c.Rng.IntN(100)), nil)
			if err != nil {
				return err
			}
			if err := f.Seal(sPR); err != nil {
				f.ReturnToPool()
				continue // the sender's own session refuses (e.g. its own rollover): nothing is sent
			}
			d, _ := f.FrameDataWithMargins(0, 0)
			data := append([]byte(nil), d...)
			f.ReturnToPool()
			var res deliverResult
			c.Eval()
			if !timed("the worker handling a correctly sealed frame of a peer", func() { res = R.inject(data, recv) }) {
				break
			}
			if res.panicked() {
				c.Violate(fmt.Sprintf("a correctly sealed frame with sequence number %d crashed the handler", q), "panic-sequence-number", rep)
			}
		}
		c.Count(fmt.Sprintf("category:chosen-sequence-numbers/prio=%v", prio))
		c.NonTrivial(fmt.Sprintf("chosen-seq/%v/%v", prio, script))
		if stalled {
			break
		}
		// the router can still seal a frame for that peer ...
		timed("sealing a frame for the peer afterwards", func() {
			f, err := R.builder.NewFrameV1(R.id.IP, P.id.IP, mt, nil, []byte("still alive"), nil)
			if err == nil {
				_ = f.Seal(sRP)
				f.ReturnToPool()
			}
		})
		if stalled {
			break
		}
		// ... and still answers the peer's next valid request
		body, _ := cbor.Marshal(map[string]string{"msg": "ping"})
		d, err := craftPing(pingSpec{from: P.id, dst: R.id.IP, msgType: frame.RouterPing, pingType: "pong", body: body, seqTime: nextCraftTime(), pingID: uint64(9000 + it)})
		if err != nil {
			return err
		}
		e.w.queue = nil
		replied := false
		if timed("the worker handling the peer's next request", func() {
			R.inject(d, recv)
			for _, q := range e.w.queue {
				fi := parseFrameInfo(q.data)
				if fi.ok && fi.src == R.id.IP && fi.dst == P.id.IP {
					replied = true
				}
			}
		}) && !replied {
			c.Violate("after frames with peer-chosen sequence numbers the router no longer answers a valid request of that peer", "stalled", rep)
		}
		if stalled {
			break
		}
	}
	return nil
}

// c13ErrorPingsBothDirections: error pings travel in both directions between two routers in either
// order (the router first sends one to the peer — here because the peer's traffic arrives before
// keys exist — and then receives the peer's; or the other way round; or interleaved).  Whatever
// bookkeeping the router keeps per peer, no authentic error ping crashes a worker.
func c13ErrorPingsBothDirections(c *Ctx) error {
	orders := [][]string{{"out", "in"}, {"in", "out", "in"}, {"out", "out", "in", "in"}, {"in", "in", "out", "in"}}
	for oi, order := range orders {
		w := newRWorld()
		R, err := w.addNode("R", relayStore, nil)
		if err != nil {
			return err
		}
		P, err := w.addNode("P", relayStore, nil)
		if err != nil {
			return err
		}
		if _, _, err := w.connect(R, P, 11, 12); err != nil {
			return err
		}
		R.ro.VerifSetHandleTraffic(true)
		sentByR := 0
		for k, step := range order {
			var data []byte
			if step == "out" {
				// P's traffic for R before end-to-end keys exist: R answers with an error ping
				f, err := P.builder.NewFrameV1(P.id.IP, R.id.IP, frame.NetworkTraffic, nil, randBytes(c, 60), nil)
				if err != nil {
					return err
				}
				d, _ := f.FrameDataWithMargins(0, 0)
				data = append([]byte(nil), d...)
				f.ReturnToPool()
			} else {
				code := []uint8{1, 2, 3, 4, 5}[(k+oi)%5]
				spec := pingSpec{from: P.id, dst: R.id.IP, msgType: frame.RouterPing, pingType: "error", pingCode: code, seqTime: nextCraftTime(), pingID: uint64(700 + k)}
				if code == 1 {
					spec.body, _ = cbor.Marshal(map[string]netip.Addr{"u": P.id.IP})
				} else {
					spec.body, _ = cbor.Marshal(map[string]any{"d": P.id.IP, "t": 6, "p": 80})
				}
				if data, err = craftPing(spec); err != nil {
					return err
				}
			}
			w.queue = nil
			res := R.inject(data, R.links[P.id.IP])
			c.Eval()
			for _, q := range w.queue {
				if fi := parseFrameInfo(q.data); fi.ok && fi.src == R.id.IP && fi.dst == P.id.IP {
					sentByR++
				}
			}
			w.queue = nil
			R.tunRaw()
			c.Count("error-pings:" + step)
			if res.panicked() {
				c.Violate(fmt.Sprintf("an authentic frame crashed a router worker (step %d of the order %v: error pings in both directions between two routers)", k+1, order), "error-ping-panic", map[string]any{"order": order, "step": k + 1, "sent_by_router_so_far": sentByR})
				break
			}
		}
		c.NonTrivial(fmt.Sprintf("error-pings/%v/sent=%v", order, sentByR > 0))
	}
	return nil
}

func c13StalledPeer(c *Ctx) error {
	for rep, n := 0, c.Pick(2, 6); rep < n; rep++ {
		hold := make(chan struct{})
		var once sync.Once
		release := func() { once.Do(func() { close(hold) }) }
		// the wire from A to B stops delivering after the handshake: B's end never reads again
		gate := func(idx int, chunk []byte) {
			if idx >= 3 {
				<-hold
			}
		}
		st := config.Store{Router: config.Router{Listen: []string{"tcp:47369"}}}
		p, err := newLinkedPair(st, st, gate, nil)
		if err != nil {
			release()
			return err
		}
		prio := rep%2 == 0
		done := make(chan int, 1)
		go func() {
			sent := 0
			for i := 0; i < 400; i++ {
				f, err := p.A.builder.NewFrameV1(p.A.id.IP, p.B.id.IP, frame.RouterPing, nil, []byte("frame for a peer that does not read"), nil)
				if err != nil {
					break
				}
				if prio {
					err = p.la.SendPriority(f)
				} else {
					err = p.la.Send(f)
				}
				if err != nil {
					f.ReturnToPool()
				}
				sent++
			}
			done <- sent
		}()
		c.Eval()
		c.Count("category:peer-stops-reading")
		c.NonTrivial(fmt.Sprintf("stalled-peer/prio=%v", prio))
		select {
		case <-done:
		case <-time.After(5 * time.Second):
			c.Violate(fmt.Sprintf("a worker handing frames to a link (priority=%v) whose remote end stopped reading is still blocked after 5 s", prio), "stalled-by-peer", map[string]any{"priority": prio})
		}
		release()
		p.close()
	}
	return nil
}

// c13Handshakes drives the real handshake state machine of a victim against an attacker end and
// replaces one of the attacker's messages by a hand-built, correctly signed frame with an
// oversized field.
func c13Handshakes(c *Ctx) error {
	fields := []string{"version", "universe", "kxtype", "err", "challenge", "kx", "hash", "keytype"}
	sizes := []int{300, 3000, 9000, 17000, 40000, 60000}
	for it, n := 0, c.Pick(40, 400); it < n; it++ {
		w := newRWorld()
		st := config.Store{Router: config.Router{Listen: []string{"tcp:47369"}}}
		V, err := w.addNode("V", st, nil)
		if err != nil {
			return err
		}
		I, err := w.addNode("I", st, nil)
		if err != nil {
			return err
		}
		time.Sleep(3 * time.Millisecond)
		vClient := c.Rng.IntN(2) == 0
		sv, fv, err := V.pe.VerifNewPeeringState(vClient)
		if err != nil {
			return err
		}
		si, fi, err := I.pe.VerifNewPeeringState(!vClient)
		if err != nil {
			return err
		}
		dv, _ := fv.FrameDataWithMargins(0, 0)
		di, _ := fi.FrameDataWithMargins(0, 0)
		ev := &c04End{n: V, st: sv, client: vClient, first: append([]byte(nil), dv...), stage: -1}
		ei := &c04End{n: I, st: si, client: !vClient, first: append([]byte(nil), di...), stage: -1}
		target := c.Rng.IntN(3) // which of the attacker's three messages is replaced
		field := fields[c.Rng.IntN(len(fields))]
		size := sizes[c.Rng.IntN(len(sizes))]
		filler := []string{"\x00", "A", "\xff", "\""}[c.Rng.IntN(4)]
		big := strings.Repeat(filler, size)
		craft := func(orig []byte) []byte {
			body := c08Body2(orig)
			var nb []byte
			switch target {
			case 0:
				var r c04Request
				if cbor.Unmarshal(body, &r) != nil {
					return orig
				}
				switch field {
				case "version":
					r.RouterVersion = big
				case "universe":
					r.Universe = big
				case "challenge":
					r.Challenge = []byte(big)
				case "hash":
					r.Address.Hash = crop.Hash(big)
				case "keytype":
					r.Address.Type = crop.KeyPairType(big)
				default:
					r.RouterVersion = big
				}
				nb, _ = cbor.Marshal(&r)
			case 1:
				var r c04Response
				if cbor.Unmarshal(body, &r) != nil {
					return orig
				}
				switch field {
				case "kxtype":
					r.KeyExchangeType = big
				case "err":
					r.Err = big
				case "challenge":
					r.Challenge = []byte(big)
				case "kx":
					r.KeyExchange = []byte(big)
				default:
					r.KeyExchangeType = big
				}
				nb, _ = cbor.Marshal(&r)
			default:
				var r c04Ack
				if cbor.Unmarshal(body, &r) != nil {
					return orig
				}
				switch field {
				case "err":
					r.Err = big
				case "kx":
					r.KeyExchange = []byte(big)
				default:
					r.KeyExchangeType = big
				}
				nb, _ = cbor.Marshal(&r)
			}
			if len(nb) > 65000 {
				nb = nb[:65000]
			}
			raw := append([]byte(nil), orig[:49]...)
			raw[48] = 0
			raw = append(raw, byte(len(nb)>>8), byte(len(nb)))
			raw = append(raw, nb...)
			raw = append(raw, make([]byte, 64)...)
			pf, err := craftBuilder.ParseFrame(raw, nil, 0)
			if err != nil {
				return orig
			}
			f := pf.(*frame.FrameV1)
			f.SetTTL(0)
			f.SetSequenceTime(time.UnixMilli(frameTimeMs(orig)))
			if f.SignRaw(I.id.PrivateKey) != nil {
				return orig
			}
			f.SetTTL(1)
			return raw
		}
		// relay; the attacker's message number `target` is replaced
		toV, toI := ei.first, ev.first
		sentByI := 0
		for round := 0; round < 4; round++ {
			var nv, ni []byte
			if toV != nil {
				d := toV
				if sentByI == target {
					d = craft(d)
				}
				sentByI++
				ni = ev.feed(d)
			}
			if toI != nil {
				nv = ei.feed(toI)
			}
			toV, toI = nv, ni
		}
		c.Eval()
		c.Count("category:handshake-oversized-field")
		c.NonTrivial(fmt.Sprintf("handshake/%d/%s/%d/stage%d", target, field, size, ev.stage))
		if ev.lastErr != nil && errors.Is(ev.lastErr, mgr.ErrWorkerPanic) {
			c.Violate(fmt.Sprintf("a correctly signed handshake message %d with a %d-byte %s field crashed the link setup worker: %v", target+1, size*len(filler), field, ev.lastErr), "panic-handshake",
				map[string]any{"message": target + 1, "field": field, "size": size * len(filler), "victim_dials": vClient})
		}
	}
	return nil
}

func contains(s, sub string) bool {
	return len(sub) <= len(s) && (func() bool {
		for i := 0; i+len(sub) <= len(s); i++ {
			if s[i:i+len(sub)] == sub {
				return true
			}
		}
		return false
	})()
}
