package main

import (
	"context"
	"fmt"
	"net/netip"
	"sort"
	"time"

	"github.com/mycoria/mycoria/frame"
	"github.com/mycoria/mycoria/m"
	"github.com/mycoria/mycoria/peering"
)

func init() { register("C16", runC16) }

// regSnapshot reads a router's registry through its public API and its routing table.
type regSnapshot struct {
	byPeer  map[netip.Addr]peering.Link
	byLabel map[m.SwitchLabel]peering.Link
	routes  []m.RoutingTableEntry
}

func snapRegistry(n *rnode, labels []m.SwitchLabel) regSnapshot {
	s := regSnapshot{byPeer: map[netip.Addr]peering.Link{}, byLabel: map[m.SwitchLabel]peering.Link{}}
	for _, l := range n.pe.GetLinks() {
		s.byPeer[l.Peer()] = l
	}
	for _, lab := range labels {
		if l := n.pe.GetLinkByLabel(lab); l != nil {
			s.byLabel[lab] = l
		}
	}
	s.routes = n.ro.Table().VerifEntries()
	return s
}

// checkRegistry is the property, stated on what the router's API returns.
func checkRegistry(c *Ctx, n *rnode, s regSnapshot, live []peering.Link, where string) {
	viol := func(what, key string, extra map[string]any) {
		extra["where"] = where
		extra["router"] = n.name
		c.Violate(what, key, extra)
	}
	for _, l := range live {
		if l.IsClosing() {
			continue
		}
		if n.pe.GetLink(l.Peer()) != l {
			viol("an established, not-closing link cannot be found by its peer address", "live-link-not-by-peer", map[string]any{"peer": l.Peer().String()})
		}
		if n.pe.GetLinkByLabel(l.SwitchLabel()) != l {
			viol("an established, not-closing link cannot be found by its switch label", "live-link-not-by-label", map[string]any{"label": int(l.SwitchLabel())})
		}
	}
	seenLabel := map[m.SwitchLabel]bool{}
	for p, l := range s.byPeer {
		if l.IsClosing() {
			viol("a closing link can be found by peer address", "closing-link-found", map[string]any{"peer": p.String()})
		}
		if l.Peer() != p {
			viol("a link is filed under another peer's address", "wrong-peer-key", map[string]any{"peer": p.String()})
		}
		if l.SwitchLabel() == 0 {
			viol("a live link has switch label 0", "zero-label", map[string]any{"peer": p.String()})
		}
		if seenLabel[l.SwitchLabel()] {
			viol("two live links share a switch label", "duplicate-label", map[string]any{"label": int(l.SwitchLabel())})
		}
		seenLabel[l.SwitchLabel()] = true
		if n.pe.GetLinkByLabel(l.SwitchLabel()) != l {
			viol("a link found by peer address is not the one found by its switch label", "maps-disagree", map[string]any{"peer": p.String()})
		}
	}
	for lab, l := range s.byLabel {
		if n.pe.GetLink(l.Peer()) != l {
			viol("a link found by switch label is not registered under its peer address", "label-without-peer", map[string]any{"label": int(lab)})
		}
	}
	hasPeerRoute := map[netip.Addr]bool{}
	for _, e := range s.routes {
		if e.Source == m.RouteSourcePeer && e.DstIP == e.NextHop {
			hasPeerRoute[e.DstIP] = true
		}
		if _, ok := s.byPeer[e.NextHop]; !ok {
			viol("the routing table holds a route whose next hop has no live link", "route-via-dead-nexthop", map[string]any{"dst": e.DstIP.String(), "nexthop": e.NextHop.String(), "source": int(e.Source)})
		}
	}
	for p := range s.byPeer {
		if !hasPeerRoute[p] {
			viol("a peer with a live link has no direct-peer route", "no-peer-route", map[string]any{"peer": p.String()})
		}
	}
	for p := range hasPeerRoute {
		if _, ok := s.byPeer[p]; !ok {
			viol("a direct-peer route exists for a peer without a live link", "stale-peer-route", map[string]any{"peer": p.String()})
		}
	}
}

func runC16(c *Ctx) error {
	c.Res.Rule = "(a) a real router's registry driven directly (real AddLink / RemoveLink / AddRoute) with link objects of chosen peers and labels: duplicates to one peer, label clashes, unroutable peers, removal of registered and of refused links, routes learned through registered peers, announcements still queued when their link is removed — compared step by step with the model; " +
		"(b) 2..4 real routers with REAL link objects (real handshake and link workers over in-memory connections): connect, both ends dialling at once, local close, remote close, broken connection, reconnect; after the workers settle the property is checked through the routers' API on every router. non-trivial/distinct = distinct (operation or event, outcome)"
	c.CoqSetup("Prelude SeqCorr Registry RegistryCorr", "c16_case", "c16_ok")

	// ---------- (a) registry operations ----------
	nHist := c.Pick(60, 600)
	for hi := 0; hi < nHist; hi++ {
		w := newRWorld()
		R, err := w.addNode("R", relayStore, nil)
		if err != nil {
			return err
		}
		// candidate peers (some outside every routable prefix) and labels
		var peers []netip.Addr
		for i := 0; i < 4; i++ {
			peers = append(peers, addrFrom(0xfd20_0000_0000_0000|uint64(c.Rng.IntN(1<<24))<<8, uint64(0x100+i)))
		}
		peers = append(peers, netip.MustParseAddr("2001:db8::7"))
		labels := []m.SwitchLabel{3, 4, 5, 200, 300}
		var links []*hlink
		ids := map[*hlink]int{}
		var steps []string
		var trace []string
		mkRoutes := func() string {
			var rs []string
			for _, e := range R.ro.Table().VerifEntries() {
				rs = append(rs, fmt.Sprintf("(%s,%s,%s)", ipN(e.DstIP), ipN(e.NextHop), coqBool(e.Source == m.RouteSourcePeer)))
			}
			return coqList(rs)
		}
		observe := func() (string, string) {
			var bp, bl []string
			for _, l := range R.pe.GetLinks() {
				bp = append(bp, fmt.Sprintf("(%s,%d)", ipN(l.Peer()), ids[l.(*hlink)]))
			}
			for _, lab := range labels {
				if l := R.pe.GetLinkByLabel(lab); l != nil {
					bl = append(bl, fmt.Sprintf("(%d,%d)", lab, ids[l.(*hlink)]))
				}
			}
			return coqList(bp), coqList(bl)
		}
		linkT := func(l *hlink) string { return fmt.Sprintf("(mkLink %d %s %d)", ids[l], ipN(l.to.id.IP), l.label) }
		nOps := 4 + c.Rng.IntN(14)
		// crowded: once a first peer is registered, its routing prefix (which is also the other
		// candidates') is filled beyond twice its limit with routes learned through it; peers that
		// connect afterwards must still get their direct-peer route
		crowd := hi%6 == 5
		fill := 0
		for oi := 0; oi < nOps; oi++ {
			var opT, desc string
			okObs := true
			if crowd && fill == 0 && len(R.pe.GetLinks()) > 0 {
				fill = 70
				nOps += fill
			}
			k := c.Rng.IntN(10)
			if fill > 1 {
				k = 9
				fill--
			}
			switch {
			case k < 4 || len(links) == 0:
				p := peers[c.Rng.IntN(len(peers))]
				peerNode := &rnode{name: "x", id: &m.Address{PublicAddress: m.PublicAddress{IP: p}}}
				l := &hlink{from: R, to: peerNode, label: labels[c.Rng.IntN(len(labels))], latency: 5, started: time.Now()}
				ids[l] = len(ids) + 1
				links = append(links, l)
				err := R.pe.AddLink(l)
				okObs = err == nil
				routable := m.RoutingAddressPrefix.Contains(p) && R.ro.Table().VerifConfig().RoutablePrefixes != nil
				if !okObs && err != nil && !routable {
					routable = false
				} else {
					routable = rpFor(R, p)
				}
				opT = fmt.Sprintf("(OAdd %s %s)", linkT(l), coqBool(routable))
				desc = fmt.Sprintf("add(%d,ok=%v)", ids[l], okObs)
			case k < 7:
				l := links[c.Rng.IntN(len(links))]
				R.pe.RemoveLink(l)
				opT = fmt.Sprintf("(ORemove %s)", linkT(l))
				desc = fmt.Sprintf("remove(%d)", ids[l])
			default:
				// a route learned through a registered peer
				var regd []peering.Link
				regd = append(regd, R.pe.GetLinks()...)
				if len(regd) == 0 {
					continue
				}
				nh := regd[c.Rng.IntN(len(regd))].Peer()
				dst := addrFrom(0xfd30_0000_0000_0000|uint64(c.Rng.IntN(1<<20))<<8, uint64(0x900+oi))
				if fill > 1 {
					dst = addrFrom(0xfd20_0000_0000_0000|uint64(c.Rng.IntN(1<<24))<<8, uint64(0x9000+oi))
				}
				hops := []m.SwitchHop{{Router: R.id.IP, Delay: 5, ForwardLabel: 3}, {Router: nh, Delay: 5, ForwardLabel: 3, ReturnLabel: 4}, {Router: dst, ReturnLabel: 9}}
				added, err := R.ro.Table().AddRoute(m.RoutingTableEntry{DstIP: dst, NextHop: nh, Path: m.SwitchPath{Hops: hops}, Source: m.RouteSourceGossip, Expires: time.Now().Add(time.Hour)})
				if err != nil || !added {
					continue
				}
				opT = fmt.Sprintf("(OGossip %s %s)", ipN(dst), ipN(nh))
				desc = "gossip"
			}
			c.Eval()
			bp, bl := observe()
			steps = append(steps, fmt.Sprintf("(%s,%s,%s,%s,%s)", opT, coqBool(okObs), bp, bl, mkRoutes()))
			trace = append(trace, desc)
			var live []peering.Link
			for _, l := range R.pe.GetLinks() {
				live = append(live, l)
			}
			checkRegistry(c, R, snapRegistry(R, labels), live, fmt.Sprint(trace))
			c.NonTrivial(desc[:3] + fmt.Sprint(okObs))
		}
		c.Case(coqList(steps), map[string]any{"history": trace})
		c.Count("registry-history")
	}

	// ---------- two links to one peer registered at the same moment (both ends dialled) ----------
	{
		w := newRWorld()
		R, err := w.addNode("R", relayStore, nil)
		if err != nil {
			return err
		}
		rounds := c.Pick(1500, 20000)
		for r := 0; r < rounds; r++ {
			p := addrFrom(0xfd20_0000_0000_0000|uint64(r+1)<<8, uint64(0x100+r))
			peerNode := &rnode{name: "x", id: &m.Address{PublicAddress: m.PublicAddress{IP: p}}}
			l1 := &hlink{from: R, to: peerNode, label: 7, latency: 5, started: time.Now()}
			l2 := &hlink{from: R, to: peerNode, label: 7, latency: 5, started: time.Now()}
			start := make(chan struct{})
			errs := make(chan error, 2)
			for _, l := range []*hlink{l1, l2} {
				l := l
				go func() { <-start; errs <- R.pe.AddLink(l) }()
			}
			close(start)
			e1, e2 := <-errs, <-errs
			c.Eval()
			okCount := 0
			if e1 == nil {
				okCount++
			}
			if e2 == nil {
				okCount++
			}
			if okCount != 1 {
				c.Violate(fmt.Sprintf("two links to one peer were handed to the registry at the same moment and %d of them were registered", okCount), "concurrent-addlink", map[string]any{"round": r})
				break
			}
			// the refused one is closed (RemoveLink of a refused link), then the registered one
			for _, l := range []*hlink{l1, l2} {
				if R.pe.GetLink(p) != l {
					R.pe.RemoveLink(l)
				}
			}
			var live []peering.Link
			live = append(live, R.pe.GetLinks()...)
			checkRegistry(c, R, snapRegistry(R, []m.SwitchLabel{7}), live, "concurrent-addlink")
			if l := R.pe.GetLink(p); l != nil {
				R.pe.RemoveLink(l)
			}
		}
		c.Count("concurrent-addlink-rounds")
	}

	// ---------- an announcement still queued when its link goes away ----------
	for rep := 0; rep < c.Pick(6, 40); rep++ {
		e, err := newCtlEnv(c, false)
		if err != nil {
			return err
		}
		origin, err := newGeoIdentity()
		if err != nil {
			return err
		}
		a, err := c08NewAnn(origin, false, 5, time.Now().Add(time.Hour))
		if err != nil {
			return err
		}
		chain := []c08Rec{{pub: e.P1.id.PublicAddress, delay: 3, fl: 4, rl: 5, signKey: e.P1.id.PrivateKey, ctx: a.ctx, flipAt: -1}}
		data := append(append([]byte(nil), a.base...), c08Encode(chain)...)
		recv := e.R.links[e.P1.id.IP]
		// the link is closed and removed while the frame waits in the router's input
		recv.Close(nil)
		e.R.inject(data, recv)
		c.Eval()
		var live []peering.Link
		live = append(live, e.R.pe.GetLinks()...)
		checkRegistry(c, e.R, snapRegistry(e.R, []m.SwitchLabel{11, 12}), live, "announcement-handled-after-its-link-was-removed")
		c.Count("late-announcement")
	}

	// ---------- (a2) listings taken only now and then ----------
	// The link list (GetLinks: what announcement forwarding, keep-alives and the disconnect
	// broadcast iterate over) is looked at only at some points of a history of registrations and
	// removals, as the running system does: it must hold exactly the links that are registered at
	// that moment, whatever happened since it was last looked at.
	for hi, n := 0, c.Pick(40, 300); hi < n; hi++ {
		w := newRWorld()
		R, err := w.addNode("R", relayStore, nil)
		if err != nil {
			return err
		}
		var reg []*hlink
		next := 0
		var trace []string
		for oi, nOps := 0, 6+c.Rng.IntN(12); oi < nOps; oi++ {
			switch k := c.Rng.IntN(10); {
			case k < 4 || len(reg) == 0:
				p := addrFrom(0xfd20_0000_0000_0000|uint64(c.Rng.IntN(1<<24))<<8, uint64(0x100+next))
				l := &hlink{from: R, to: &rnode{name: "x", id: &m.Address{PublicAddress: m.PublicAddress{IP: p}}}, label: m.SwitchLabel(10 + next), latency: 5, started: time.Now()}
				next++
				if R.pe.AddLink(l) == nil {
					reg = append(reg, l)
					trace = append(trace, fmt.Sprintf("add(%d)", l.label))
				}
			case k < 7:
				// a link goes away and another one comes up before anybody looks at the list
				i := c.Rng.IntN(len(reg))
				old := reg[i]
				old.closing.Store(true)
				R.pe.RemoveLink(old)
				reg = append(reg[:i], reg[i+1:]...)
				p := old.to.id.IP
				if c.Rng.IntN(2) == 0 {
					p = addrFrom(0xfd20_0000_0000_0000|uint64(c.Rng.IntN(1<<24))<<8, uint64(0x100+next))
				}
				l := &hlink{from: R, to: &rnode{name: "x", id: &m.Address{PublicAddress: m.PublicAddress{IP: p}}}, label: m.SwitchLabel(10 + next), latency: 5, started: time.Now()}
				next++
				if R.pe.AddLink(l) == nil {
					reg = append(reg, l)
				}
				trace = append(trace, fmt.Sprintf("replace(%d->%d)", old.label, l.label))
			case k < 8:
				i := c.Rng.IntN(len(reg))
				reg[i].closing.Store(true)
				R.pe.RemoveLink(reg[i])
				trace = append(trace, fmt.Sprintf("remove(%d)", reg[i].label))
				reg = append(reg[:i], reg[i+1:]...)
			default:
				got := R.pe.GetLinks()
				c.Eval()
				trace = append(trace, "list")
				want := map[peering.Link]bool{}
				for _, l := range reg {
					want[l] = true
				}
				rep := map[string]any{"history": fmt.Sprint(trace)}
				for _, l := range got {
					if l.IsClosing() {
						c.Violate("the link list holds a closing link (history: "+fmt.Sprint(trace)+")", "list-closing-link", rep)
					}
					if !want[l] {
						c.Violate("the link list holds a link that is not registered any more (history: "+fmt.Sprint(trace)+")", "list-stale-link", rep)
					}
					delete(want, l)
				}
				if len(want) > 0 {
					c.Violate(fmt.Sprintf("%d registered link(s) are missing from the link list (history: %v)", len(want), trace), "list-missing-link", rep)
				}
				c.NonTrivial("listing/" + fmt.Sprint(len(trace)%7))
			}
		}
		c.Count("sparse-listing-history")
	}

	// ---------- (a3) a link closed while a received frame waits for the frame handler ----------
	// The frame handler channel has no buffer (as in the running system).  The peer sends a frame that
	// nobody picks up, so the link's reader is parked at the hand-over; then the link is closed
	// locally.  At quiescence the closing link is not registered any more and its peer route is gone.
	for rep, n := 0, c.Pick(2, 6); rep < n; rep++ {
		w := newRWorld()
		w.unbufferedHandler = true
		A, err := w.addNode("A", relayStore, nil)
		if err != nil {
			return err
		}
		w.unbufferedHandler = false
		B, err := w.addNode("B", relayStore, nil)
		if err != nil {
			return err
		}
		p, err := linkNodes(w, A, B, nil, nil)
		if err != nil {
			if p != nil {
				p.close()
			}
			return fmt.Errorf("link setup: %w", err)
		}
		f, err := B.builder.NewFrameV1(B.id.IP, A.id.IP, frame.NetworkTraffic, nil, []byte("a frame nobody picks up"), nil)
		if err != nil {
			return err
		}
		if err := p.lb.Send(f); err != nil {
			f.ReturnToPool()
		}
		time.Sleep(time.Duration(c.Pick(150, 300)) * time.Millisecond) // the reader has the frame and waits for the handler
		p.la.Close(nil)
		deadline := time.Now().Add(2 * time.Second)
		registered := true
		for time.Now().Before(deadline) {
			if A.pe.GetLink(B.id.IP) == nil && len(A.pe.GetLinks()) == 0 {
				registered = false
				break
			}
			time.Sleep(10 * time.Millisecond)
		}
		peerRoute := false
		for _, e := range A.ro.Table().VerifEntries() {
			if e.NextHop == B.id.IP {
				peerRoute = true
			}
		}
		// let the parked reader go
		select {
		case fr := <-A.peerIn:
			fr.ReturnToPool()
		case <-time.After(50 * time.Millisecond):
		}
		p.close()
		c.Eval()
		c.Count("event:local-close-with-frame-waiting")
		c.NonTrivial("close-with-frame-waiting")
		if registered || peerRoute {
			c.Violate(fmt.Sprintf("a link closed locally while a received frame waited for the frame handler is still registered two seconds later (found by peer: %v, routes through the peer: %v)", registered, peerRoute), "closing-link-found",
				map[string]any{"registered": registered, "peer_route": peerRoute})
			break
		}
	}

	// ---------- (a4) the last handshake message arrives when the connection is given up ----------
	// A's end receives the peer's final handshake message only at the moment the connection is closed
	// locally (by whatever watches over a slow setup) or, if nothing does, seven seconds late.  Either
	// the setup fails and nothing is registered, or it succeeds and the registered link is alive.
	for rep, n := 0, c.Pick(1, 2); rep < n; rep++ {
		w := newRWorld()
		A, err := w.addNode("A", relayStore, nil)
		if err != nil {
			return err
		}
		B, err := w.addNode("B", relayStore, nil)
		if err != nil {
			return err
		}
		linkLateFrameA = 3
		p, lerr := linkNodes(w, A, B, nil, nil)
		linkLateFrameA = 0
		time.Sleep(300 * time.Millisecond)
		l := A.pe.GetLink(B.id.IP)
		closingRegistered := l != nil && l.IsClosing()
		for _, x := range A.pe.GetLinks() {
			closingRegistered = closingRegistered || x.IsClosing()
		}
		peerRoute := false
		for _, e := range A.ro.Table().VerifEntries() {
			if e.NextHop == B.id.IP {
				peerRoute = true
			}
		}
		c.Eval()
		c.Count("event:last-handshake-message-late")
		c.NonTrivial(fmt.Sprintf("late-last-message/%v", lerr == nil))
		if closingRegistered || (l == nil && peerRoute) {
			c.Violate(fmt.Sprintf("after a handshake whose last message arrived when the connection was given up, a closing link is registered (found by peer: %v) or a peer route is left without a link (%v)", l != nil, l == nil && peerRoute), "closing-link-found",
				map[string]any{"setup_error": fmt.Sprint(lerr), "registered": l != nil, "peer_route": peerRoute})
		}
		if p != nil {
			p.close()
		}
	}

	// ---------- (b) real links ----------
	nWorlds := c.Pick(4, 30)
	for wi := 0; wi < nWorlds; wi++ {
		w := newRWorld()
		k := 2 + c.Rng.IntN(3)
		var nodes []*rnode
		for i := 0; i < k; i++ {
			n, err := w.addNode(fmt.Sprintf("n%d", i), relayStore, nil)
			if err != nil {
				return err
			}
			nodes = append(nodes, n)
		}
		type pairKey [2]int
		pairs := map[pairKey][]*linkedPair{}
		settle := func() {
			// wait until every router's registry and table stop changing
			prev := ""
			stable := 0
			for t := 0; t < 200 && stable < 3; t++ {
				time.Sleep(5 * time.Millisecond)
				cur := ""
				for _, n := range nodes {
					for _, l := range n.pe.GetLinks() {
						cur += fmt.Sprintf("%s:%s:%d:%v;", n.name, l.Peer(), l.SwitchLabel(), l.IsClosing())
					}
					cur += fmt.Sprint(len(n.ro.Table().VerifEntries())) + "|"
				}
				if cur == prev {
					stable++
				} else {
					stable = 0
				}
				prev = cur
			}
		}
		var allLabels []m.SwitchLabel
		for l := 1; l < 128; l++ {
			allLabels = append(allLabels, m.SwitchLabel(l))
		}
		checkAll := func(where string) {
			for _, n := range nodes {
				var live []peering.Link
				for _, ps := range pairs {
					for _, p := range ps {
						if p.A == n && p.la != nil {
							live = append(live, p.la)
						}
						if p.B == n && p.lb != nil {
							live = append(live, p.lb)
						}
					}
				}
				// established = the handshake completed (the link knows its peer and has a switch label); at a
				// quiescent point such a link is either closing (refused by the registry, closed locally or
				// remotely, broken) or must be found through the registry
				var est []peering.Link
				for _, l := range live {
					if !l.IsClosing() && l.Peer().IsValid() && l.SwitchLabel() != 0 {
						est = append(est, l)
					}
				}
				labels := append([]m.SwitchLabel(nil), allLabels...)
				for _, l := range n.pe.GetLinks() {
					labels = append(labels, l.SwitchLabel())
				}
				checkRegistry(c, n, snapRegistry(n, labels), est, where)
			}
		}
		nEv := 5 + c.Rng.IntN(8)
		var trace []string
		for ei := 0; ei < nEv; ei++ {
			i, j := c.Rng.IntN(k), c.Rng.IntN(k)
			if i == j {
				continue
			}
			if i > j {
				i, j = j, i
			}
			key := pairKey{i, j}
			ev := ""
			switch c.Rng.IntN(7) {
			case 6:
				// a router whose (valid, self-certifying) address lies in the privacy range dials in: the handshake
				// succeeds, the registry refuses the link (no route can be held for that address) — the refused
				// incoming link must not stay behind as an established, not-closing link
				ev = "connect-from-unroutable-address"
				uid, _, uerr := m.GenerateRoutableAddress(context.Background(), []netip.Prefix{m.PrivacyAddressPrefix}, nil, 0)
				if uerr != nil {
					continue
				}
				U, uerr := w.addNode(fmt.Sprintf("u%d", ei), relayStore, uid)
				if uerr != nil {
					continue
				}
				p, _ := linkNodes(w, U, nodes[i], nil, nil)
				pairs[key] = append(pairs[key], p)
			case 0, 1:
				ev = "connect"
				a, b := nodes[i], nodes[j]
				if c.Rng.IntN(2) == 0 {
					a, b = b, a
				}
				p, _ := linkNodes(w, a, b, nil, nil)
				pairs[key] = append(pairs[key], p)
			case 2:
				ev = "cross-connect"
				done := make(chan *linkedPair, 2)
				go func() { p, _ := linkNodes(w, nodes[i], nodes[j], nil, nil); done <- p }()
				go func() { p, _ := linkNodes(w, nodes[j], nodes[i], nil, nil); done <- p }()
				pairs[key] = append(pairs[key], <-done, <-done)
			case 3:
				ev = "close-local"
				for _, p := range pairs[key] {
					if p.la != nil && !p.la.IsClosing() {
						p.la.Close(nil)
						break
					}
				}
			case 4:
				ev = "close-remote"
				for _, p := range pairs[key] {
					if p.lb != nil && !p.lb.IsClosing() {
						p.lb.Close(nil)
						break
					}
				}
			default:
				ev = "break-connection"
				for _, p := range pairs[key] {
					if p.la != nil && !p.la.IsClosing() {
						_ = p.connA.Close()
						break
					}
				}
			}
			settle()
			c.Eval()
			trace = append(trace, fmt.Sprintf("%s(%d,%d)", ev, i, j))
			checkAll(fmt.Sprint(trace))
			c.Count("event:" + ev)
			c.NonTrivial("real/" + ev)
		}
		for _, ps := range pairs {
			for _, p := range ps {
				p.close()
			}
		}
		settle()
		checkAll(fmt.Sprint(append(trace, "close-all")))
	}
	return nil
}

// rpFor reports whether the router's routing table accepts a peer route for the address.
func rpFor(R *rnode, p netip.Addr) bool {
	for _, rp := range R.ro.Table().VerifConfig().RoutablePrefixes {
		if rp.BasePrefix.Contains(p) {
			return true
		}
	}
	return false
}

var _ = sort.Ints
