package main

import (
	"fmt"
	"go/ast"
	"go/parser"
	"go/token"
	"path/filepath"
	"sort"
	"strings"
)

func init() {
	genSections = append(genSections, genReadLockedNoWrites)
}

// genReadLockedNoWrites: a method that takes only the READ lock of its receiver (first statement
// recv.mu.RLock(), unlock deferred) does not assign through a pointer, a map or a slice: every
// left-hand side in it is a plain local identifier.  Two readers run at the same time; a write to
// shared state under the read lock is a data race (defect D26: MemStorage.GetRouter stamped UsedAt
// under RLock).
func genReadLockedNoWrites(sb *strings.Builder) error {
	var offenders []string
	checked := 0
	for _, pkg := range []string{"storage", "state", "peering", "router", "m", "switchr", "mgr", "frame", "config"} {
		files, _ := filepath.Glob(repoRoot() + "/" + pkg + "/*.go")
		for _, file := range files {
			if strings.HasSuffix(file, "_test.go") || strings.HasSuffix(file, "verif_hooks.go") {
				continue
			}
			fset := token.NewFileSet()
			f, err := parser.ParseFile(fset, file, nil, 0)
			if err != nil {
				return err
			}
			for _, d := range f.Decls {
				fd, ok := d.(*ast.FuncDecl)
				if !ok || fd.Body == nil || len(fd.Body.List) == 0 {
					continue
				}
				es, ok := fd.Body.List[0].(*ast.ExprStmt)
				if !ok {
					continue
				}
				call, ok := es.X.(*ast.CallExpr)
				if !ok {
					continue
				}
				sel, ok := call.Fun.(*ast.SelectorExpr)
				if !ok || sel.Sel.Name != "RLock" {
					continue
				}
				checked++
				name := fd.Name.Name
				if fd.Recv != nil && len(fd.Recv.List) > 0 {
					name = nodeText(fset, fd.Recv.List[0].Type) + "." + name
				}
				bad := ""
				ast.Inspect(fd.Body, func(n ast.Node) bool {
					var lhs []ast.Expr
					switch s := n.(type) {
					case *ast.AssignStmt:
						lhs = s.Lhs
					case *ast.IncDecStmt:
						lhs = []ast.Expr{s.X}
					case *ast.FuncLit:
						return false // a closure handed elsewhere is that code's business
					}
					for _, l := range lhs {
						if _, plain := l.(*ast.Ident); !plain {
							bad = nodeText(fset, l)
						}
					}
					return true
				})
				if bad != "" {
					offenders = append(offenders, fmt.Sprintf("%s/%s writes %s under the read lock", pkg, name, bad))
				}
			}
		}
	}
	sort.Strings(offenders)
	ok := len(offenders) == 0 && checked > 0
	fmt.Fprintf(sb, "(* %d methods whose first statement takes a read lock: none assigns through a pointer, map or slice%s *)\n", checked, map[bool]string{true: "", false: "; NOT so: " + strings.Join(offenders, "; ")}[ok])
	fmt.Fprintf(sb, "Definition read_locked_sections_do_not_write : bool := %v.\n\n", ok)
	return nil
}
