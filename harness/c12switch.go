package main

import (
	"bytes"
	"fmt"

	"github.com/mycoria/mycoria/frame"
	"github.com/mycoria/mycoria/m"
	"github.com/mycoria/mycoria/peering"
)

// c12SwitchTraversal sends a frame carrying the path's forward block through a chain of REAL
// switches (one router per hop, links registered under the path's labels): every relay must put
// it on the link with the path's forward label, with the block the rotation function produced;
// the destination hands it to its router with a block that reverses to exactly the path's return
// block; then the same for the return block in the opposite direction.  This ties the rotation
// the property speaks of to the place where the system performs it (Switch.handleFrame).
func c12SwitchTraversal(c *Ctx, F, R []uint16) error {
	hops := mkHops(F, R)
	bo := buildReal(hops)
	if bo.code != 0 {
		return nil
	}
	n := len(hops)
	// each router needs distinct non-zero labels for its two links
	for i := 1; i < n-1; i++ {
		if F[i] == R[i-1] {
			return nil
		}
	}
	w := newRWorld()
	nodes := make([]*rnode, n)
	for i := range nodes {
		nd, err := w.addNode(fmt.Sprintf("H%d", i), relayStore, nil)
		if err != nil {
			return err
		}
		nodes[i] = nd
	}
	for i := 0; i < n-1; i++ {
		if _, _, err := w.connect(nodes[i], nodes[i+1], m.SwitchLabel(F[i]), m.SwitchLabel(R[i])); err != nil {
			return err
		}
	}
	rep := map[string]any{"F": F, "R": R, "via": "switch"}
	run := func(dir string, order []*rnode, start []byte, wantLabels []uint16, wantFinal []byte) {
		// the origin rotates with return label 0 and sends on the first label
		block := append([]byte(nil), start...)
		lbl, err := m.NextRotateSwitchBlock(block, 0)
		if err != nil || uint16(lbl) != wantLabels[0] {
			return // function-level fault: reported by checkPath
		}
		payload := randBytes(c, 20+c.Rng.IntN(200))
		f, err := order[0].builder.NewFrameV1(order[0].id.IP, order[len(order)-1].id.IP, frame.NetworkTraffic, block, payload, nil)
		if err != nil {
			return
		}
		d, _ := f.FrameDataWithMargins(0, 0)
		data := append([]byte(nil), d...)
		f.ReturnToPool()
		for i := 1; i < len(order); i++ {
			nd := order[i]
			recv := nd.links[order[i-1].id.IP]
			// what the rotation function makes of the block at this hop
			exp := append([]byte(nil), data[49:49+int(data[48])]...)
			expLbl, expErr := m.NextRotateSwitchBlock(exp, recv.label)
			w.queue = nil
			ps := nd.builder.GetPooledSlice(peering.FrameOffset + len(data) + peering.FrameOverhead)
			copy(ps[peering.FrameOffset:], data)
			pf, err := nd.builder.ParseFrame(ps[peering.FrameOffset:peering.FrameOffset+len(data)], ps, peering.FrameOffset)
			if err != nil {
				c.Violate(fmt.Sprintf("%s traversal through real switches: frame did not parse at hop %d", dir, i), "switch-traverse-fail", rep)
				return
			}
			pf.SetRecvLink(recv)
			var he, we error
			pan, _ := recoverPanic(func() { he, we = nd.sw.VerifHandleFrame(pf) })
			if pan || he != nil || we != nil || expErr != nil {
				c.Violate(fmt.Sprintf("%s traversal through real switches: hop %d failed (%v %v)", dir, i, he, we), "switch-traverse-fail", rep)
				return
			}
			c.Eval()
			if i < len(order)-1 {
				if len(w.queue) != 1 || w.queue[0].link.to != order[i+1] {
					c.Violate(fmt.Sprintf("%s traversal through real switches: hop %d did not forward the frame to the next hop of the path", dir, i), "switch-label", rep)
					return
				}
				if uint16(expLbl) != wantLabels[i] {
					return
				}
				out := w.queue[0].data
				got := out[49 : 49+int(out[48])]
				if !bytes.Equal(got, exp) {
					c.Violate(fmt.Sprintf("%s traversal through real switches: after hop %d the frame carries block %v, the rotation yields %v", dir, i, got, exp), "switch-block", rep)
					return
				}
				if !bytes.Equal(out[3:48], data[3:48]) || !bytes.Equal(out[49+int(out[48]):], data[49+int(data[48]):]) {
					c.Violate(fmt.Sprintf("%s traversal through real switches: hop %d changed bytes outside TTL, flow flags and switch block", dir, i), "switch-outside", rep)
					return
				}
				data = out
				continue
			}
			// destination: escalated to the router, nothing forwarded
			if len(w.queue) != 0 {
				c.Violate(dir+" traversal through real switches: the destination forwarded the frame", "switch-label", rep)
				return
			}
			select {
			case df := <-nd.upstream:
				got := append([]byte(nil), df.SwitchBlock()...)
				fin := append([]byte(nil), got...)
				m.TransformToReturnBlock(fin)
				if !bytes.Equal(got, exp) || !bytes.Equal(fin, wantFinal) {
					c.Violate(fmt.Sprintf("%s traversal through real switches: the frame handed to the destination's router carries block %v, which reverses to %v, not to the path's opposite block %v", dir, got, fin, wantFinal), "switch-reverse", rep)
				}
				if !bytes.Equal(df.MessageData(), payload) {
					c.Violate(dir+" traversal through real switches: payload changed", "switch-outside", rep)
				}
				df.ReturnToPool()
			default:
				c.Violate(dir+" traversal through real switches: the destination did not hand the frame to its router", "switch-traverse-fail", rep)
			}
		}
	}
	run("forward", nodes, bo.fb, append(append([]uint16(nil), F...), 0), bo.rb)
	rev := make([]*rnode, n)
	want2 := []uint16{}
	for i := range nodes {
		rev[i] = nodes[n-1-i]
	}
	for i := n - 2; i >= 0; i-- {
		want2 = append(want2, R[i])
	}
	run("return", rev, bo.rb, append(want2, 0), bo.fb)
	c.Count(fmt.Sprintf("switch-traversal:n=%d", n))
	return nil
}
