package main

import (
	"bytes"
	"fmt"
	"net/netip"
	"time"

	"github.com/mycoria/mycoria/frame"
	"github.com/mycoria/mycoria/m"
	"github.com/mycoria/mycoria/peering"
)

// c12SwitchTraversal sends a frame carrying the path's forward block through a chain of REAL
// switches (one router per hop, links registered under the path's labels): every relay must put
// it on the link with the path's forward label, with the block the rotation function produced;
// the destination hands it to its router with a block that reverses to exactly the path's return
// block; then the same for the return block in the opposite direction.  This ties the rotation
// the property speaks of to the place where the system performs it (Switch.handleFrame).
func c12SwitchTraversal(c *Ctx, F, R []uint16) error {
	hops := mkHops(F, R)
	bo := buildReal(hops)
	if bo.code != 0 {
		return nil
	}
	n := len(hops)
	// each router needs distinct non-zero labels for its two links
	for i := 1; i < n-1; i++ {
		if F[i] == R[i-1] {
			return nil
		}
	}
	w := newRWorld()
	nodes := make([]*rnode, n)
	for i := range nodes {
		nd, err := w.addNode(fmt.Sprintf("H%d", i), relayStore, nil)
		if err != nil {
			return err
		}
		nodes[i] = nd
	}
	for i := 0; i < n-1; i++ {
		if _, _, err := w.connect(nodes[i], nodes[i+1], m.SwitchLabel(F[i]), m.SwitchLabel(R[i])); err != nil {
			return err
		}
	}
	rep := map[string]any{"F": F, "R": R, "via": "switch"}
	run := func(dir string, order []*rnode, start []byte, wantLabels []uint16, wantFinal []byte) {
		// the origin rotates with return label 0 and sends on the first label
		block := append([]byte(nil), start...)
		lbl, err := m.NextRotateSwitchBlock(block, 0)
		if err != nil || uint16(lbl) != wantLabels[0] {
			return // function-level fault: reported by checkPath
		}
		payload := randBytes(c, 20+c.Rng.IntN(200))
		f, err := order[0].builder.NewFrameV1(order[0].id.IP, order[len(order)-1].id.IP, frame.NetworkTraffic, block, payload, nil)
		if err != nil {
			return
		}
		d, _ := f.FrameDataWithMargins(0, 0)
		data := append([]byte(nil), d...)
		f.ReturnToPool()
		for i := 1; i < len(order); i++ {
			nd := order[i]
			recv := nd.links[order[i-1].id.IP]
			// what the rotation function makes of the block at this hop
			exp := append([]byte(nil), data[49:49+int(data[48])]...)
			expLbl, expErr := m.NextRotateSwitchBlock(exp, recv.label)
			w.queue = nil
			ps := nd.builder.GetPooledSlice(peering.FrameOffset + len(data) + peering.FrameOverhead)
			copy(ps[peering.FrameOffset:], data)
			pf, err := nd.builder.ParseFrame(ps[peering.FrameOffset:peering.FrameOffset+len(data)], ps, peering.FrameOffset)
			if err != nil {
				c.Violate(fmt.Sprintf("%s traversal through real switches: frame did not parse at hop %d", dir, i), "switch-traverse-fail", rep)
				return
			}
			pf.SetRecvLink(recv)
			var he, we error
			pan, _ := recoverPanic(func() { he, we = nd.sw.VerifHandleFrame(pf) })
			if pan || he != nil || we != nil || expErr != nil {
				c.Violate(fmt.Sprintf("%s traversal through real switches: hop %d failed (%v %v)", dir, i, he, we), "switch-traverse-fail", rep)
				return
			}
			c.Eval()
			if i < len(order)-1 {
				if len(w.queue) != 1 || w.queue[0].link.to != order[i+1] {
					c.Violate(fmt.Sprintf("%s traversal through real switches: hop %d did not forward the frame to the next hop of the path", dir, i), "switch-label", rep)
					return
				}
				if uint16(expLbl) != wantLabels[i] {
					return
				}
				out := w.queue[0].data
				got := out[49 : 49+int(out[48])]
				if !bytes.Equal(got, exp) {
					c.Violate(fmt.Sprintf("%s traversal through real switches: after hop %d the frame carries block %v, the rotation yields %v", dir, i, got, exp), "switch-block", rep)
					return
				}
				if !bytes.Equal(out[3:48], data[3:48]) || !bytes.Equal(out[49+int(out[48]):], data[49+int(data[48]):]) {
					c.Violate(fmt.Sprintf("%s traversal through real switches: hop %d changed bytes outside TTL, flow flags and switch block", dir, i), "switch-outside", rep)
					return
				}
				data = out
				continue
			}
			// destination: escalated to the router, nothing forwarded
			if len(w.queue) != 0 {
				c.Violate(dir+" traversal through real switches: the destination forwarded the frame", "switch-label", rep)
				return
			}
			select {
			case df := <-nd.upstream:
				got := append([]byte(nil), df.SwitchBlock()...)
				fin := append([]byte(nil), got...)
				m.TransformToReturnBlock(fin)
				if !bytes.Equal(got, exp) || !bytes.Equal(fin, wantFinal) {
					c.Violate(fmt.Sprintf("%s traversal through real switches: the frame handed to the destination's router carries block %v, which reverses to %v, not to the path's opposite block %v", dir, got, fin, wantFinal), "switch-reverse", rep)
				}
				if !bytes.Equal(df.MessageData(), payload) {
					c.Violate(dir+" traversal through real switches: payload changed", "switch-outside", rep)
				}
				df.ReturnToPool()
			default:
				c.Violate(dir+" traversal through real switches: the destination did not hand the frame to its router", "switch-traverse-fail", rep)
			}
		}
	}
	run("forward", nodes, bo.fb, append(append([]uint16(nil), F...), 0), bo.rb)
	rev := make([]*rnode, n)
	want2 := []uint16{}
	for i := range nodes {
		rev[i] = nodes[n-1-i]
	}
	for i := n - 2; i >= 0; i-- {
		want2 = append(want2, R[i])
	}
	run("return", rev, bo.rb, append(want2, 0), bo.fb)
	c.Count(fmt.Sprintf("switch-traversal:n=%d", n))
	return nil
}

// c12TableRefresh: switch paths as the routing table stores them.  A route is announced, then the
// same route (same routers) is announced again with other labels — a relay re-established a link
// and drew another label — and sometimes with labels that no longer fit a switch block.  After
// every addition, every stored route's blocks must be the blocks of the path that entry shows
// (so that rotating them yields that path's labels), and a path that cannot fit is refused.
func c12TableRefresh(c *Ctx) error {
	self := addrFrom(0xfd1f_0000_1111_2222, 0x3333_4444_5555_0001)
	prefix := netip.PrefixFrom(self, m.RegionPrefixBits).Masked()
	if mk, err := m.LookupCountryMarker(self); err == nil {
		prefix = mk.Prefix
	}
	cfg := m.RoutingTableConfig{RoutablePrefixes: m.GetRoutablePrefixesFor(self, prefix), RouterIP: self}
	randLabel := func(class int) uint16 {
		switch class {
		case 0:
			return uint16(1 + c.Rng.IntN(127))
		case 1:
			return uint16(128 + c.Rng.IntN(16383-127))
		default:
			return uint16(16384 + c.Rng.IntN(65535-16383))
		}
	}
	for it, n := 0, c.Pick(30, 200); it < n; it++ {
		tbl := m.NewRoutingTable(cfg)
		peer := addrFrom(0xfd1f_0000_0010_0000, uint64(0xaa00+it))
		_, _ = tbl.AddRoute(m.RoutingTableEntry{DstIP: peer, NextHop: peer, Source: m.RouteSourcePeer})
		nHops := 3 + c.Rng.IntN(5)
		if it%9 == 0 {
			nHops = 60 + c.Rng.IntN(42) // long paths: the second labelling may not fit into 255 bytes
		}
		routers := []netip.Addr{self, peer}
		for k := 2; k < nHops-1; k++ {
			routers = append(routers, addrFrom(0xfd35_0000_0000_0000|uint64(k)<<16, uint64(0xee00+k)))
		}
		dst := addrFrom(0xfd1f_0000_0030_0000|uint64(it), uint64(0x9000+it))
		routers = append(routers, dst)
		mk := func(class func() int) []m.SwitchHop {
			hops := make([]m.SwitchHop, len(routers))
			for k, r := range routers {
				hops[k] = m.SwitchHop{Router: r, Delay: uint16(5 + c.Rng.IntN(40))}
				if k < len(routers)-1 {
					hops[k].ForwardLabel = m.SwitchLabel(randLabel(class()))
				}
				if k > 0 {
					hops[k].ReturnLabel = m.SwitchLabel(randLabel(class()))
				}
			}
			return hops
		}
		small := func() int { return 0 }
		mixed := func() int { return c.Rng.IntN(3) }
		big := func() int { return 2 }
		labelings := [][]m.SwitchHop{mk(small), mk(mixed)}
		if nHops >= 60 {
			labelings = append(labelings, mk(big), mk(small))
		} else {
			labelings = append(labelings, mk(mixed))
		}
		for step, hops := range labelings {
			e := m.RoutingTableEntry{DstIP: dst, NextHop: peer, Path: m.SwitchPath{Hops: append([]m.SwitchHop(nil), hops...)}, Source: m.RouteSourceGossip, Expires: time.Now().Add(time.Hour)}
			var added bool
			var err error
			pan, _ := recoverPanic(func() { added, err = tbl.AddRoute(e) })
			c.Eval()
			want := buildReal(hops)
			rep := map[string]any{"hops": coqHops(hops), "step": step, "via": "routing-table"}
			if pan {
				c.Violate("AddRoute panicked on a re-announced route", "table-refresh-panic", rep)
				break
			}
			if want.code != 0 && (added || err == nil) {
				c.Violate(fmt.Sprintf("a re-announced route whose labels do not fit a switch block was not refused (added=%v, err=%v)", added, err), "table-refresh-too-big-accepted", rep)
			}
			for _, ent := range tbl.VerifEntries() {
				if len(ent.Path.Hops) < 2 {
					continue
				}
				bo := buildReal(ent.Path.Hops)
				if bo.code != 0 {
					c.Violate("the routing table holds a route whose path cannot be built into switch blocks", "table-refresh-unbuildable", rep)
					continue
				}
				if !bytes.Equal(ent.Path.ForwardBlock, bo.fb) || !bytes.Equal(ent.Path.ReturnBlock, bo.rb) {
					c.Violate(fmt.Sprintf("a stored route's switch blocks are not the blocks of the path it shows: forward %v / return %v, the path builds to %v / %v (rotating the stored block does not yield the path's labels)", ent.Path.ForwardBlock, ent.Path.ReturnBlock, bo.fb, bo.rb), "table-refresh-stale-blocks", rep)
				}
			}
			c.Count(fmt.Sprintf("table-refresh:step%d/code%d", step, want.code))
		}
		c.NonTrivial(fmt.Sprintf("table-refresh/%d", nHops))
	}
	return nil
}
