package main

import (
	"bytes"
	"fmt"
	"go/ast"
	"go/parser"
	"go/printer"
	"go/token"
	"strings"
)

func init() {
	genSections = append(genSections, genGuards)
}

func nodeText(fset *token.FileSet, n ast.Node) string {
	var b bytes.Buffer
	_ = printer.Fprint(&b, fset, n)
	return strings.Join(strings.Fields(b.String()), "")
}

func endsWithReturn(b *ast.BlockStmt) bool {
	if b == nil || len(b.List) == 0 {
		return false
	}
	_, ok := b.List[len(b.List)-1].(*ast.ReturnStmt)
	return ok
}

// guardInList: among the statements of one block, an `if <cond> { ...; return ... }` comes
// before the first statement that contains the expression text.
func guardInList(fset *token.FileSet, list []ast.Stmt, cond, expr string) (found bool, exprSeen bool) {
	guard := -1
	for i, st := range list {
		if ifs, ok := st.(*ast.IfStmt); ok && ifs.Init == nil && nodeText(fset, ifs.Cond) == cond && endsWithReturn(ifs.Body) && guard < 0 {
			guard = i
			continue
		}
		if strings.Contains(nodeText(fset, st), expr) {
			return guard >= 0 && guard < i, true
		}
	}
	return false, false
}

// sliceGuard checks, on the source under test, that in function fn of file the bounds check
// `cond` dominates the slice/index expression `expr`: both are statements of the same block
// (the function body, or the innermost for-loop body that contains the expression) and the
// check comes first and returns.
func sliceGuard(file, fn, cond, expr string) (bool, error) {
	cond = strings.Join(strings.Fields(cond), "")
	expr = strings.Join(strings.Fields(expr), "")
	fset := token.NewFileSet()
	f, err := parser.ParseFile(fset, file, nil, 0)
	if err != nil {
		return false, err
	}
	for _, d := range f.Decls {
		fd, ok := d.(*ast.FuncDecl)
		if !ok || fd.Name.Name != fn || fd.Body == nil {
			continue
		}
		// innermost for-loop body containing the expression, else the function body
		var blocks []*ast.BlockStmt
		ast.Inspect(fd.Body, func(n ast.Node) bool {
			if fs, ok := n.(*ast.ForStmt); ok && strings.Contains(nodeText(fset, fs.Body), expr) {
				blocks = append(blocks, fs.Body)
			}
			if rs, ok := n.(*ast.RangeStmt); ok && strings.Contains(nodeText(fset, rs.Body), expr) {
				blocks = append(blocks, rs.Body)
			}
			return true
		})
		blk := fd.Body
		if len(blocks) > 0 {
			blk = blocks[len(blocks)-1]
		}
		ok2, seen := guardInList(fset, blk.List, cond, expr)
		if !seen {
			return false, fmt.Errorf("%s: expression %s not found at statement level in %s", file, expr, fn)
		}
		return ok2, nil
	}
	return false, fmt.Errorf("%s: function %s not found", file, fn)
}

// genGuards records, from the source under test, that each bounds check the Malformed /
// LinkFrame / SwitchLabel models contain is present in the code and dominates the slice
// expression it protects.
func genGuards(sb *strings.Builder) error {
	sb.WriteString("(* bounds checks that dominate the slice expressions they protect, checked on the source with go/ast *)\n")
	guards := []struct{ name, file, fn, cond, expr string }{
		{"guard_ann_layer_size", repoRoot() + "/router/ping_announce.go", "parseAnnouncePing", "len(apx) < 65", "apx[:len(apx)-64]"},
		{"guard_ping_hdr_min", repoRoot() + "/router/ping.go", "parsePingHeader", "len(data) < 3", "data[1]"},
		{"guard_ping_hdr_len", repoRoot() + "/router/ping.go", "parsePingHeader", "len(data) < 2+hdrLen", "data[2 : hdrLen+2]"},
		{"guard_traffic_min", repoRoot() + "/router/traffic.go", "handleIncomingTraffic", "len(packetData) < 44", "packetData[8:24]"},
		{"guard_rotate_room", repoRoot() + "/m/switch_label.go", "NextRotateSwitchBlock", "returnLabelStart+returnLabel.EncodedSize() > len(block)", "block[returnLabelStart : returnLabelStart+returnLabel.EncodedSize()]"},
		{"guard_link_frame_min", repoRoot() + "/peering/link_frame.go", "Unseal", "len(f) < FrameOffset+FrameOverhead", "f.SequenceNum()"},
	}
	for _, g := range guards {
		ok, err := sliceGuard(g.file, g.fn, g.cond, g.expr)
		if err != nil {
			// a guard that cannot be located is reported as absent: the obligation in Properties/C13.v breaks
			fmt.Fprintf(sb, "(* %s: %v *)\n", g.name, strings.ReplaceAll(err.Error(), "*)", "* )"))
			ok = false
		}
		fmt.Fprintf(sb, "Definition %s : bool := %v.\n", g.name, ok)
	}
	sb.WriteString("\n")
	return nil
}
