package main

import (
	"bytes"
	"fmt"
	"net"
	"net/netip"
	"runtime/debug"
	"unsafe"

	"github.com/mycoria/mycoria/frame"
	"github.com/mycoria/mycoria/m"
)

func init() { register("C17", runC17) }

// dummyLink is a LinkAccessor the harness can recognise.
type dummyLink struct{ id int }

func (l *dummyLink) String() string                              { return fmt.Sprintf("link-%d", l.id) }
func (l *dummyLink) Peer() netip.Addr                            { return netip.Addr{} }
func (l *dummyLink) SwitchLabel() m.SwitchLabel                  { return m.SwitchLabel(l.id) }
func (l *dummyLink) PeeringURL() *m.PeeringURL                   { return nil }
func (l *dummyLink) Outgoing() bool                              { return false }
func (l *dummyLink) SendPriority(f frame.Frame) error            { return nil }
func (l *dummyLink) Send(f frame.Frame) error                    { return nil }
func (l *dummyLink) Latency() uint16                             { return 0 }
func (l *dummyLink) FlowControlIndicator() frame.FlowControlFlag { return 0 }
func (l *dummyLink) LocalAddr() net.Addr                         { return nil }
func (l *dummyLink) RemoteAddr() net.Addr                        { return nil }
func (l *dummyLink) IsClosing() bool                             { return false }

type c17Frame struct {
	id int
	f  *frame.FrameV1
}

type c17World struct {
	c        *Ctx
	b        *frame.Builder
	live     []*c17Frame
	nextF    int
	nextB    int
	bufIDs   map[uintptr]int
	structs  map[uintptr]bool
	links    []*dummyLink
	steps    []string
	desc     []string
	failed   string
	forced   *c17Frame // when set: the frame the next operations act on
	forceApx int       // >= 0: the appendix size of the next SetAppendixData
	dropped  [][]byte  // buffers of refused frames: kept referenced so that their addresses are not reused
}

func newC17World(c *Ctx) *c17World {
	w := &c17World{c: c, b: frame.NewFrameBuilder(), nextF: 1, nextB: 1, bufIDs: map[uintptr]int{}, structs: map[uintptr]bool{}, forceApx: -1}
	for i := 1; i <= 3; i++ {
		w.links = append(w.links, &dummyLink{id: i})
	}
	return w
}

func psPtr(f *frame.FrameV1) uintptr {
	ps := f.VerifPooledSlice()
	if cap(ps) == 0 {
		return 0
	}
	return uintptr(unsafe.Pointer(&ps[:1][0]))
}

// bufChoice returns the model's pool choice for the slice f ended up with, registering new ones.
func (w *c17World) bufChoice(f *frame.FrameV1) string {
	p := psPtr(f)
	if id, ok := w.bufIDs[p]; ok {
		return fmt.Sprintf("(Some %d%%nat)", id)
	}
	w.bufIDs[p] = w.nextB
	w.nextB++
	return "None"
}

func (w *c17World) structChoice(f *frame.FrameV1) string {
	p := uintptr(unsafe.Pointer(f))
	if w.structs[p] {
		return "(Some 0%nat)"
	}
	w.structs[p] = true
	return "None"
}

func (w *c17World) linkID(l frame.LinkAccessor) int {
	if l == nil {
		return 0
	}
	if d, ok := l.(*dummyLink); ok {
		return d.id
	}
	return 99
}

type frameObs struct {
	id          int
	data        []byte
	mi, ai, xi  int
	src, dst    [16]byte
	link        int
	capv, off   int
	zeroOutside bool
}

func (w *c17World) observeOne(lf *c17Frame) frameObs {
	f := lf.f
	d, _ := f.FrameDataWithMargins(0, 0)
	mi, ai, xi, off, psLen, _, dlen := f.VerifIndices()
	ps := f.VerifPooledSlice()
	zero := true
	for i, x := range ps {
		if (i < off || i >= off+dlen) && x != 0 {
			zero = false
			break
		}
	}
	return frameObs{id: lf.id, data: append([]byte(nil), d...), mi: mi, ai: ai, xi: xi, src: f.SrcIP().As16(), dst: f.DstIP().As16(),
		link: w.linkID(f.RecvLink()), capv: psLen, off: off, zeroOutside: zero}
}

func (o frameObs) coq() string {
	return fmt.Sprintf("(%d,%s,%d,%d,%d,%s,%s,%d,%d,%d,%s)", o.id, coqBytes(o.data), o.mi, o.ai, o.xi, coqBytes(o.src[:]), coqBytes(o.dst[:]), o.link, o.capv, o.off, coqBool(o.zeroOutside))
}

func (o frameObs) same(p frameObs) bool {
	return o.id == p.id && bytes.Equal(o.data, p.data) && o.mi == p.mi && o.ai == p.ai && o.xi == p.xi && o.src == p.src && o.dst == p.dst && o.link == p.link
}

func (w *c17World) observeAll() []frameObs {
	out := make([]frameObs, 0, len(w.live))
	for _, lf := range w.live {
		out = append(out, w.observeOne(lf))
	}
	// sorted by id (live is kept in id order)
	return out
}

func (w *c17World) record(opTerm string, code int, desc string) {
	obs := w.observeAll()
	parts := make([]string, len(obs))
	for i, o := range obs {
		parts[i] = o.coq()
	}
	w.steps = append(w.steps, fmt.Sprintf("(%s,%d,%s)", opTerm, code, coqList(parts)))
	w.desc = append(w.desc, desc)
}

func (w *c17World) violate(what, key string) {
	if w.failed == "" {
		w.failed = what
	}
	w.c.Violate(what, key, map[string]any{"ops": append([]string(nil), w.desc...)})
}

// othersUnchanged checks that every live frame except skip kept its observable state.
func (w *c17World) othersUnchanged(before []frameObs, skip int, opDesc string) {
	after := w.observeAll()
	idx := map[int]frameObs{}
	for _, o := range after {
		idx[o.id] = o
	}
	for _, o := range before {
		if o.id == skip {
			continue
		}
		n, ok := idx[o.id]
		if !ok {
			continue
		}
		if !n.same(o) {
			w.violate(fmt.Sprintf("%s changed the content of another live frame (#%d)", opDesc, o.id), "isolation")
		}
	}
}

func coqOptNat(s string) string { return s }

func (w *c17World) pickLive() *c17Frame {
	if len(w.live) == 0 {
		return nil
	}
	if w.forced != nil {
		for _, lf := range w.live {
			if lf == w.forced {
				return lf
			}
		}
	}
	return w.live[w.c.Rng.IntN(len(w.live))]
}

// opShrinkReleaseReuse: a frame's appendix grows inside its buffer, shrinks again, the frame is
// released and the buffer is handed to the next frames of that size class: what the long appendix
// left behind the frame's final end must not be visible to them.
func (w *c17World) opShrinkReleaseReuse() {
	lf := w.pickLive()
	if lf == nil {
		return
	}
	w.forced, w.forceApx = lf, 120+w.c.Rng.IntN(120)
	w.opSetApx()
	if w.failed == "" {
		w.forceApx = w.c.Rng.IntN(12)
		w.opSetApx()
	}
	w.forceApx = -1
	if w.failed == "" {
		w.opRelease()
	}
	w.forced = nil
	for k := 0; k < 2 && w.failed == ""; k++ {
		w.opParse()
	}
}

// sizeNear returns a message size so that offset+frame+overhead lands near a tier boundary.
func (w *c17World) sizeNear(off, ovh, auth, sb, apx int) int {
	tiers := []int{600, 1600, 5100, 9600}
	if w.c.Rng.IntN(3) == 0 {
		return 1 + w.c.Rng.IntN(300)
	}
	t := tiers[w.c.Rng.IntN(2)]
	if w.c.Rng.IntN(w.c.Pick(12, 5)) == 0 {
		t = tiers[2+w.c.Rng.IntN(2)]
	}
	ms := t - off - ovh - 51 - sb - auth - apx + (w.c.Rng.IntN(9) - 4)
	if ms < 1 {
		ms = 1
	}
	if ms > 10000 {
		ms = 10000
	}
	return ms
}

func (w *c17World) opNew() {
	c := w.c
	mt := allTypes[c.Rng.IntN(len(allTypes))]
	off, ovh := []int{0, 12, 12, 12, 50, 100}[c.Rng.IntN(6)], []int{0, 16, 16, 16, 40, 100}[c.Rng.IntN(6)]
	w.b.SetFrameMargins(off, ovh)
	auth := 64
	if mt.IsEncrypted() {
		auth = 16
	}
	sbn, apn := []int{0, 0, 3, 20}[c.Rng.IntN(4)], []int{0, 0, 10, 170}[c.Rng.IntN(4)]
	ms := w.sizeNear(off, ovh, auth, sbn, apn)
	sb, msg, apx := randBytes(c, sbn), randBytes(c, ms), randBytes(c, apn)
	src, dst := randBytes(c, 16), randBytes(c, 16)
	before := w.observeAll()
	var f *frame.FrameV1
	var err error
	pan, _ := recoverPanic(func() {
		f, err = w.b.NewFrameV1(netip.AddrFrom16([16]byte(src)), netip.AddrFrom16([16]byte(dst)), mt, sb, msg, apx)
	})
	desc := fmt.Sprintf("New(type=%d,msg=%d,sb=%d,apx=%d,margins=%d/%d)", mt, ms, sbn, apn, off, ovh)
	if pan || err != nil {
		w.violate("NewFrameV1 failed on valid input: "+desc, "new-fail")
		return
	}
	sc, bc := w.structChoice(f), w.bufChoice(f)
	d, _ := f.FrameDataWithMargins(0, 0)
	nonce := append([]byte(nil), d[5:8]...)
	lf := &c17Frame{id: w.nextF, f: f}
	w.nextF++
	w.live = append(w.live, lf)
	o := w.observeOne(lf)
	if !o.zeroOutside {
		w.violate("a new frame's buffer holds non-zero bytes outside the frame (bytes of an earlier frame exposed): "+desc, "stale-bytes")
	}
	if o.link != 0 {
		w.violate("a new frame reports a receive link: "+desc, "stale-link")
	}
	if !bytes.Equal(o.src[:], src) || !bytes.Equal(o.dst[:], dst) {
		w.violate("a new frame reports wrong addresses: "+desc, "stale-addr")
	}
	w.othersUnchanged(before, lf.id, desc)
	w.record(fmt.Sprintf("ONew %d %s %s %s %s %s %s %d%%nat %d%%nat %s %s", mt, coqBytes(src), coqBytes(dst), coqBytes(sb), coqBytes(msg), coqBytes(apx), coqBytes(nonce), off, ovh, sc, bc), 0, desc)
}

// opFailedNew: a build that is refused after the header was written (message over the limit or
// empty, switch block over 255 bytes, appendix over the limit).  It must leave no trace: the next
// frames built or parsed on pooled structs and buffers show nothing of it.
func (w *c17World) opFailedNew() {
	c := w.c
	src, dst := append([]byte{0xfd, 0x11}, randBytes(c, 14)...), append([]byte{0xfd, 0x22}, randBytes(c, 14)...)
	var sb, msg, apx []byte
	msg = randBytes(c, 20)
	switch c.Rng.IntN(6) {
	case 4:
		msg = randBytes(c, 65600+c.Rng.IntN(200)) // around the largest pooled buffer
	case 5:
		msg = randBytes(c, 70000+c.Rng.IntN(60000)) // beyond every pooled buffer
	case 0:
		msg = randBytes(c, 10001+c.Rng.IntN(50))
	case 1:
		msg = nil
	case 2:
		sb = randBytes(c, 256+c.Rng.IntN(10))
	default:
		apx = randBytes(c, 10001+c.Rng.IntN(50))
	}
	before := w.observeAll()
	var err error
	var f *frame.FrameV1
	pan, _ := recoverPanic(func() {
		f, err = w.b.NewFrameV1(netip.AddrFrom16([16]byte(src)), netip.AddrFrom16([16]byte(dst)), frame.NetworkTraffic, sb, msg, apx)
	})
	desc := fmt.Sprintf("FailedNew(msg=%d,sb=%d,apx=%d)", len(msg), len(sb), len(apx))
	if pan {
		w.violate("NewFrameV1 panicked on an oversized input: "+desc, "new-panic")
		return
	}
	if err == nil {
		// accepted after all (limits are the implementation's): treat as a live frame that is released at once
		f.ReturnToPool()
		return
	}
	w.desc = append(w.desc, desc)
	w.othersUnchanged(before, -1, desc)
}

// opFailedReply: a reply that fits no pooled buffer is refused; the frame it was asked of is
// untouched (it still is the frame it was, in the buffer it had) and can be released normally.
func (w *c17World) opFailedReply() {
	c := w.c
	lf := w.pickLive()
	if lf == nil {
		return
	}
	w.b.SetFrameMargins(12, 16)
	before := w.observeAll()
	var err error
	pan, _ := recoverPanic(func() { err = lf.f.Reply(nil, randBytes(c, 66000+c.Rng.IntN(4000)), nil) })
	desc := fmt.Sprintf("FailedReply(#%d)", lf.id)
	if pan {
		w.violate("Reply panicked on an oversized message: "+desc, "reply-panic")
		w.removeLive(lf)
		return
	}
	if err == nil {
		w.violate("Reply accepted a message that fits no pooled buffer: "+desc, "reply-oversized-accepted")
		w.removeLive(lf)
		return
	}
	w.desc = append(w.desc, desc)
	w.othersUnchanged(before, -1, desc)
}

// opFailedParse: the link reader took a buffer from the pool, read a malformed frame into it and
// ParseFrame refused it (too short, unknown version, switch block or message reaching beyond the
// frame).  The reader drops the buffer (it is neither a frame nor back in the pool: the model
// takes no step), every live frame is untouched, and later frames still get buffers of their own.
func (w *c17World) opFailedParse() {
	c := w.c
	off := []int{2, 12, 12, 30}[c.Rng.IntN(4)]
	n := []int{100, 330, 590, 900, 1500, 4000}[c.Rng.IntN(6)]
	data := randBytes(c, n)
	data[0], data[48] = 1, 0
	kind := []string{"switch-block-beyond-frame", "message-beyond-frame", "short", "wrong-version", "empty"}[c.Rng.IntN(5)]
	switch kind {
	case "switch-block-beyond-frame":
		data = data[:100]
		data[48] = 255
	case "message-beyond-frame":
		data[49], data[50] = byte(0x80+c.Rng.IntN(0x7f)), byte(c.Rng.IntN(256))
	case "short":
		data = data[:1+c.Rng.IntN(67)]
	case "wrong-version":
		data[0] = byte(2 + c.Rng.IntN(250))
	default:
		data = data[:0]
	}
	before := w.observeAll()
	ps := w.b.GetPooledSlice(off + len(data) + 1)
	copy(ps[off:], data)
	var err error
	pan, _ := recoverPanic(func() { _, err = w.b.ParseFrame(ps[off:off+len(data)], ps, off) })
	desc := fmt.Sprintf("FailedParse(%s,len=%d,off=%d)", kind, len(data), off)
	if pan {
		w.violate("ParseFrame panicked on a malformed frame: "+desc, "parse-panic")
		return
	}
	if err == nil {
		w.violate("ParseFrame accepted a malformed frame: "+desc, "parse-malformed-accepted")
		return
	}
	w.dropped = append(w.dropped, ps)
	w.desc = append(w.desc, desc)
	w.othersUnchanged(before, -1, desc)
}

func (w *c17World) opParse() {
	c := w.c
	// build valid frame bytes with a scratch builder, then feed them as the link reader does
	sbuilder := frame.NewFrameBuilder()
	mt := allTypes[c.Rng.IntN(len(allTypes))]
	auth := 64
	if mt.IsEncrypted() {
		auth = 16
	}
	off := []int{2, 12, 12, 30}[c.Rng.IntN(4)]
	apn := []int{0, 0, 10, 170}[c.Rng.IntN(4)]
	ms := w.sizeNear(off, 0, auth, 0, apn)
	tf, err := sbuilder.NewFrameV1(netip.AddrFrom16([16]byte(randBytes(c, 16))), netip.AddrFrom16([16]byte(randBytes(c, 16))), mt, nil, randBytes(c, ms), randBytes(c, apn))
	if err != nil {
		return
	}
	td, _ := tf.FrameDataWithMargins(0, 0)
	data := append([]byte(nil), td...)
	if c.Thorough() && c.Rng.IntN(12) == 0 {
		// a parsed frame may carry a huge appendix: reach the largest tier
		data = append(data, randBytes(c, 65675-off-len(data)-c.Rng.IntN(3))...)
	}
	before := w.observeAll()
	ps := w.b.GetPooledSlice(off + len(data))
	copy(ps[off:], data)
	link := w.links[c.Rng.IntN(len(w.links))]
	var fr frame.Frame
	pan, _ := recoverPanic(func() { fr, err = w.b.ParseFrame(ps[off:off+len(data)], ps, off) })
	desc := fmt.Sprintf("Parse(type=%d,len=%d,off=%d,link=%d)", mt, len(data), off, link.id)
	if pan || err != nil {
		w.violate("ParseFrame failed on a valid frame: "+desc, "parse-fail")
		return
	}
	f := fr.(*frame.FrameV1)
	lf := &c17Frame{id: w.nextF, f: f}
	// what the frame shows before the reader sets the link
	if got := w.linkID(f.RecvLink()); got != 0 {
		w.violate(fmt.Sprintf("a frame parsed on a recycled struct reports the receive link %d of a previously released frame: %s", got, desc), "stale-link")
	}
	f.SetRecvLink(link)
	sc, bc := w.structChoice(f), w.bufChoice(f)
	w.nextF++
	w.live = append(w.live, lf)
	o := w.observeOne(lf)
	if !bytes.Equal(o.src[:], data[16:32]) || !bytes.Equal(o.dst[:], data[32:48]) {
		w.violate("a parsed frame reports addresses that are not in its bytes: "+desc, "stale-addr")
	}
	w.othersUnchanged(before, lf.id, desc)
	w.record(fmt.Sprintf("OParse %s %d%%nat %d %s %s", coqBytes(data), off, link.id, sc, bc), 0, desc)
}

func (w *c17World) opClone() {
	lf := w.pickLive()
	if lf == nil {
		return
	}
	before := w.observeAll()
	srcObs := w.observeOne(lf)
	var cl frame.Frame
	pan, pv := recoverPanic(func() { cl = lf.f.Clone() })
	desc := fmt.Sprintf("Clone(#%d,len=%d,off=%d)", lf.id, len(srcObs.data), srcObs.off)
	if pan {
		w.violate(fmt.Sprintf("Clone panicked: %v: %s", pv, desc), "clone-panic")
		w.record(fmt.Sprintf("OClone %d%%nat None None", lf.id), 3, desc)
		return
	}
	f := cl.(*frame.FrameV1)
	sc, bc := w.structChoice(f), w.bufChoice(f)
	nf := &c17Frame{id: w.nextF, f: f}
	w.nextF++
	w.live = append(w.live, nf)
	o := w.observeOne(nf)
	o.id = srcObs.id
	if !o.same(srcObs) {
		w.violate("clone differs from its source (bytes, parsed fields or receive link): "+desc, "clone-differs")
	}
	if psPtr(f) == psPtr(lf.f) {
		w.violate("clone shares the buffer of its source: "+desc, "clone-shared")
	}
	w.othersUnchanged(before, nf.id, desc)
	w.record(fmt.Sprintf("OClone %d%%nat %s %s", lf.id, sc, bc), 0, desc)
}

func (w *c17World) opReply() {
	c := w.c
	lf := w.pickLive()
	if lf == nil {
		return
	}
	off, ovh := []int{0, 12, 12, 50}[c.Rng.IntN(4)], []int{0, 16, 16, 40}[c.Rng.IntN(4)]
	w.b.SetFrameMargins(off, ovh)
	mt := lf.f.MessageType()
	auth := 64
	if mt.IsEncrypted() {
		auth = 16
	}
	apn := []int{0, 0, 10}[c.Rng.IntN(3)]
	ms := w.sizeNear(off, ovh, auth, 0, apn)
	msg, apx := randBytes(c, ms), randBytes(c, apn)
	before := w.observeAll()
	prev := w.observeOne(lf)
	oldPtr := psPtr(lf.f)
	var err error
	pan, _ := recoverPanic(func() { err = lf.f.Reply(nil, msg, apx) })
	desc := fmt.Sprintf("Reply(#%d,msg=%d,apx=%d,margins=%d/%d)", lf.id, ms, apn, off, ovh)
	if pan || err != nil {
		w.violate("Reply failed on valid input: "+desc, "reply-fail")
		w.removeLive(lf)
		return
	}
	bc := "None"
	if psPtr(lf.f) != oldPtr {
		bc = w.bufChoice(lf.f)
	}
	d, _ := lf.f.FrameDataWithMargins(0, 0)
	nonce := append([]byte(nil), d[5:8]...)
	o := w.observeOne(lf)
	if o.src != prev.dst || o.dst != prev.src || o.link != 0 {
		w.violate("a reply does not swap the addresses or keeps a receive link: "+desc, "reply-fields")
	}
	if psPtr(lf.f) != oldPtr && !o.zeroOutside {
		w.violate("a reply built in a fresh buffer exposes non-zero bytes outside the frame: "+desc, "stale-bytes")
	}
	w.othersUnchanged(before, lf.id, desc)
	w.record(fmt.Sprintf("OReply %d%%nat [] %s %s %s %d%%nat %d%%nat %s", lf.id, coqBytes(msg), coqBytes(apx), coqBytes(nonce), off, ovh, bc), 0, desc)
}

func (w *c17World) opSetApx() {
	c := w.c
	lf := w.pickLive()
	if lf == nil {
		return
	}
	_, ovh := w.b.FrameMargins()
	o0 := w.observeOne(lf)
	var n int
	switch c.Rng.IntN(5) {
	case 0:
		n = 0
	case 1:
		n = 1 + c.Rng.IntN(200)
	case 2: // fill the current buffer up to around its end
		n = o0.capv - o0.off - o0.xi - ovh + (c.Rng.IntN(7) - 3)
	case 3:
		n = 300 + c.Rng.IntN(3000)
	default:
		n = 10000 - c.Rng.IntN(3)
	}
	if n < 0 {
		n = 0
	}
	if n > 10000 {
		n = 10000
	}
	if !c.Thorough() && n > 4000 {
		n = 1000 + c.Rng.IntN(3000)
	}
	if w.forceApx >= 0 {
		n = w.forceApx
	}
	apx := randBytes(c, n)
	before := w.observeAll()
	oldPtr := psPtr(lf.f)
	var err error
	pan, _ := recoverPanic(func() { err = lf.f.SetAppendixData(apx) })
	desc := fmt.Sprintf("SetAppendix(#%d,apx=%d)", lf.id, n)
	if pan || err != nil {
		w.violate(fmt.Sprintf("growing the appendix within the protocol limit failed (%v): %s", err, desc), "apx-fail")
		w.record(fmt.Sprintf("OSetApx %d%%nat %s %d%%nat None", lf.id, coqBytes(apx), ovh), map[bool]int{true: 3, false: 1}[pan], desc)
		return
	}
	bc := "None"
	if psPtr(lf.f) != oldPtr {
		bc = w.bufChoice(lf.f)
	}
	o := w.observeOne(lf)
	if len(o.data) < o0.xi || len(o0.data) < o0.xi {
		w.violate(fmt.Sprintf("after SetAppendixData the frame can no longer be read with its margins (%d bytes readable, the appendix starts at %d): %s", len(o.data), o0.xi, desc), "apx-unreadable")
		return
	}
	if !bytes.Equal(o.data[:o0.xi], o0.data[:o0.xi]) || !bytes.Equal(o.data[o0.xi:], apx) {
		w.violate("SetAppendixData changed bytes before the appendix or did not store the appendix: "+desc, "apx-content")
	}
	w.othersUnchanged(before, lf.id, desc)
	w.record(fmt.Sprintf("OSetApx %d%%nat %s %d%%nat %s", lf.id, coqBytes(apx), ovh, bc), 0, desc)
}

func (w *c17World) opSetByte() {
	c := w.c
	lf := w.pickLive()
	if lf == nil {
		return
	}
	before := w.observeAll()
	i := 1 + c.Rng.IntN(2) // TTL or flow control
	v := byte(c.Rng.IntN(256))
	if i == 1 {
		lf.f.SetTTL(v)
	} else {
		lf.f.SetFlowControl(v)
	}
	desc := fmt.Sprintf("SetByte(#%d,%d,%d)", lf.id, i, v)
	w.othersUnchanged(before, lf.id, desc)
	w.record(fmt.Sprintf("OSetByte %d%%nat %d%%nat %d", lf.id, i, v), 0, desc)
}

func (w *c17World) removeLive(lf *c17Frame) {
	for i, x := range w.live {
		if x == lf {
			w.live = append(w.live[:i], w.live[i+1:]...)
			return
		}
	}
}

func (w *c17World) opRelease() {
	lf := w.pickLive()
	if lf == nil {
		return
	}
	before := w.observeAll()
	pan, pv := recoverPanic(func() { lf.f.ReturnToPool() })
	desc := fmt.Sprintf("Release(#%d)", lf.id)
	w.removeLive(lf)
	if pan {
		w.violate(fmt.Sprintf("ReturnToPool panicked: %v", pv), "release-panic")
	}
	w.othersUnchanged(before, lf.id, desc)
	w.record(fmt.Sprintf("ORelease %d%%nat", lf.id), 0, desc)
}

func runC17(c *Ctx) error {
	c.Res.Rule = "operation sequences (new / parse-into-pooled-slice / clone / reply / set-appendix incl. growth to the 10000-byte limit / TTL+flow writes / release) on one shared builder, " +
		"frame sizes placed within +-4 bytes of the 600/1600/5100/9600 tier boundaries (65675 in the thorough tier), margins 0..100; after every operation every live frame is observed " +
		"(bytes, indices, addresses, link, buffer capacity, zero-outside) and compared with the model stepped with the observed pool choices; " +
		"non-trivial = sequence with a release followed by a reuse, or a clone later modified; distinct = distinct op-kind sequence + sizes"
	c.CoqSetup("Prelude Gen SeqCorr Frame Pool PoolCorr", "c17_case", "c17_ok")
	nSeq := c.Pick(60, 500)
	for i := 0; i < nSeq; i++ {
		w := newC17World(c)
		nOps := 6 + c.Rng.IntN(9)
		released, reused, cloned, modAfterClone := false, false, false, false
		for k := 0; k < nOps && w.failed == ""; k++ {
			r := c.Rng.IntN(100)
			switch {
			case len(w.live) == 0 || r < 22:
				if released {
					reused = true
				}
				w.opNew()
				c.Count("op:new")
			case r < 36:
				if released {
					reused = true
				}
				if c.Rng.IntN(4) == 0 {
					w.opFailedNew()
					c.Count("op:failed-new")
				}
				if c.Rng.IntN(3) == 0 {
					w.opFailedParse()
					c.Count("op:failed-parse")
				}
				w.opParse()
				c.Count("op:parse")
			case r < 52 && len(w.live) < 5:
				w.opClone()
				cloned = true
				c.Count("op:clone")
			case r < 62:
				if c.Rng.IntN(4) == 0 {
					w.opFailedReply()
					c.Count("op:failed-reply")
					break
				}
				w.opReply()
				c.Count("op:reply")
			case r < 66 && k >= 2:
				w.opShrinkReleaseReuse()
				released, reused = true, true
				c.Count("op:shrink-release-reuse")
			case r < 78:
				w.opSetApx()
				if cloned {
					modAfterClone = true
				}
				c.Count("op:setapx")
			case r < 84:
				w.opSetByte()
				if cloned {
					modAfterClone = true
				}
				c.Count("op:setbyte")
			default:
				w.opRelease()
				released = true
				c.Count("op:release")
			}
		}
		c.Eval()
		if (released && reused) || modAfterClone {
			c.NonTrivial(fmt.Sprintf("%v", w.desc))
		}
		c.Case(coqList(w.steps), map[string]any{"ops": w.desc})
		if i < 3 {
			c.Sample(map[string]any{"ops": w.desc})
		}
		// release what is left so the pools get exercised across sequences too
		for _, lf := range w.live {
			recoverPanic(func() { lf.f.ReturnToPool() })
		}
	}
	return c17ForeignBuffers(c)
}

// c17ForeignBuffers: buffers that did not come from the builder's pools (a receive buffer of
// MTU size, a packet read from the local interface) are parsed in place and released, or handed to
// ReturnPooledSlice directly, as the running system does.  Whatever the pools do with them, frames
// built, parsed and cloned afterwards get buffers that hold them: exact copies, no crash.
func c17ForeignBuffers(c *Ctx) error {
	old := debug.SetGCPercent(-1) // pooled items survive until they are taken out again
	defer debug.SetGCPercent(old)
	b := frame.NewFrameBuilder()
	scratch := frame.NewFrameBuilder()
	caps := []int{80, 599, 601, 1500, 1599, 1601, 5000, 5101, 9000, 9599, 9601, 20000}
	for round, n := 0, c.Pick(12, 60); round < n; round++ {
		capK := caps[(round+c.Rng.IntN(3))%len(caps)]
		foreign := make([]byte, capK)
		how := "released through a frame parsed in place"
		if round%2 == 0 {
			how = "handed to ReturnPooledSlice"
			recoverPanic(func() { b.ReturnPooledSlice(foreign) })
		} else {
			ms := max(1, min(capK-120, 40))
			tf, err := scratch.NewFrameV1(netip.AddrFrom16([16]byte(randBytes(c, 16))), netip.AddrFrom16([16]byte(randBytes(c, 16))), frame.RouterPing, nil, randBytes(c, ms), nil)
			if err != nil || capK < 200 {
				recoverPanic(func() { b.ReturnPooledSlice(foreign) })
			} else {
				td, _ := tf.FrameDataWithMargins(0, 0)
				copy(foreign[12:], td)
				if fr, err := b.ParseFrame(foreign[12:12+len(td)], foreign, 12); err == nil {
					recoverPanic(func() { fr.ReturnToPool() })
				}
				tf.ReturnToPool()
			}
		}
		// afterwards: frames in every tier around the foreign capacity
		for _, total := range []int{capK - 1, capK + 1, capK + 30, 590, 1590, 5090, 9590} {
			ms := total - 12 - 32 - 70 - 64
			if ms < 1 {
				continue
			}
			payload := randBytes(c, ms)
			var f frame.Frame
			var err error
			pan, pv := recoverPanic(func() {
				f, err = b.NewFrameV1(netip.AddrFrom16([16]byte(randBytes(c, 16))), netip.AddrFrom16([16]byte(randBytes(c, 16))), frame.RouterPing, nil, payload, nil)
			})
			c.Eval()
			rep := map[string]any{"foreign_capacity": capK, "how": how, "message_bytes": ms}
			if pan {
				c.Violate(fmt.Sprintf("building a frame crashed after a foreign buffer of capacity %d was %s: %v", capK, how, pv), "foreign-buffer-build-panic", rep)
				continue
			}
			if err != nil {
				continue
			}
			var cl frame.Frame
			pan, pv = recoverPanic(func() { cl = f.Clone() })
			if pan {
				c.Violate(fmt.Sprintf("cloning a frame crashed after a foreign buffer of capacity %d was %s: %v", capK, how, pv), "foreign-buffer-clone-panic", rep)
				recoverPanic(func() { f.ReturnToPool() })
				continue
			}
			a, _ := f.FrameDataWithMargins(0, 0)
			d, _ := cl.FrameDataWithMargins(0, 0)
			if !bytes.Equal(a, d) || !bytes.Equal(f.MessageData(), payload) {
				c.Violate(fmt.Sprintf("a clone is not an exact copy after a foreign buffer of capacity %d was %s", capK, how), "foreign-buffer-clone-differs", rep)
			}
			recoverPanic(func() { cl.ReturnToPool() })
			recoverPanic(func() { f.ReturnToPool() })
			c.Count("foreign-buffer:frames-after")
		}
		c.Count("foreign-buffer:" + how)
		c.NonTrivial(fmt.Sprintf("foreign/%d/%v", capK, round%2 == 0))
	}
	return nil
}
