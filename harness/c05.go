package main

import (
	"bytes"
	"fmt"
	"io"
	"net"
	"runtime"
	"time"

	"golang.org/x/crypto/chacha20poly1305"

	"github.com/mycoria/mycoria/frame"
	"github.com/mycoria/mycoria/peering"
	"github.com/mycoria/mycoria/state"
)

func init() { register("C05", runC05) }

// c05Stranger connects to router B as somebody nobody knows and sends one malformed clear-text
// frame where the first handshake message is expected; B's link setup fails.  Returns the kind.
func c05Stranger(c *Ctx, B *rnode) string {
	kinds := []string{"switch-block-beyond-frame", "message-beyond-frame", "short", "wrong-version"}
	kind := kinds[c.Rng.IntN(len(kinds))]
	n := []int{100, 330, 500, 900, 1400}[c.Rng.IntN(5)]
	fr := randBytes(c, n)
	fr[0] = 1
	fr[48] = 0
	switch kind {
	case "switch-block-beyond-frame":
		fr = fr[:100]
		fr[48] = 255
	case "message-beyond-frame":
		fr[49], fr[50] = 0x13, 0x88 // message length 5000
	case "short":
		fr = fr[:4+c.Rng.IntN(60)]
	default:
		fr[0] = byte(2 + c.Rng.IntN(200))
	}
	c1, c2 := net.Pipe()
	done := make(chan struct{})
	go func() {
		defer close(done)
		recoverPanic(func() { _, _ = B.pe.VerifSetupLink(c2, false) })
	}()
	go func() { _, _ = io.Copy(io.Discard, c1) }() // the router speaks first: read what it says
	wire := make([]byte, 2+len(fr))
	wire[0], wire[1] = byte(len(wire)>>8), byte(len(wire))
	copy(wire[2:], fr)
	_ = c1.SetWriteDeadline(time.Now().Add(time.Second))
	_, _ = c1.Write(wire)
	select {
	case <-done:
	case <-time.After(2 * time.Second):
	}
	_ = c1.Close()
	_ = c2.Close()
	select {
	case <-done:
	case <-time.After(2 * time.Second):
	}
	return kind
}

// c05ForgedRolloverNearWrap replays finding D23 on a real link: the sender's link sequence is
// within 255 of the 32-bit wrap (a link that has carried about 4.29 * 10^9 frames; set through the
// hook), a few frames are delivered, then the wire adversary injects ONE chunk with a small
// sequence number and garbage content.  It is rejected, as it must be; but the intact frames that
// follow must keep arriving (or the link must close).  Coq: C05_forged_rollover_refuted.
func c05ForgedRolloverNearWrap(c *Ctx) error {
	for rep, n := 0, c.Pick(2, 5); rep < n; rep++ {
		p, err := newLinkedPair(relayStore, relayStore, nil, nil)
		if err != nil {
			if p != nil {
				p.close()
			}
			return fmt.Errorf("link setup: %w", err)
		}
		_, regl := peering.VerifLinkSession(p.la).VerifSeqHandlers()
		start := uint32(0xFFFFFF00 + c.Rng.IntN(100))
		regl.VerifSetOut(start)
		inject := false
		var recorded [][]byte
		p.ab.mu.Lock()
		p.ab.fault = func(idx int, chunk []byte) [][]byte {
			if !inject {
				recorded = append(recorded, append([]byte(nil), chunk...))
				return [][]byte{chunk}
			}
			inject = false
			g := make([]byte, 40+c.Rng.IntN(40))
			for i := range g {
				g[i] = byte(c.Rng.IntN(256))
			}
			g[0], g[1] = 0, byte(len(g))
			g[2] = 1
			g[4], g[5], g[6], g[7] = 0, 0, 0, byte(1+c.Rng.IntN(200)) // sequence number 1..200
			// ... followed by a copy of a frame recorded earlier on this link
			if len(recorded) > 0 {
				return [][]byte{g, append([]byte(nil), recorded[c.Rng.IntN(len(recorded))]...), chunk}
			}
			return [][]byte{g, chunk}
		}
		p.ab.mu.Unlock()
		send := func(tag string, k int) ([]byte, error) {
			payload := []byte(fmt.Sprintf("WRAP-%s-%02d-%d", tag, k, rep))
			f, err := p.A.builder.NewFrameV1(p.A.id.IP, p.B.id.IP, frame.NetworkTraffic, nil, payload, nil)
			if err != nil {
				return nil, err
			}
			d, _ := f.FrameDataWithMargins(0, 0)
			cp := append([]byte(nil), d...)
			return cp, p.la.Send(f)
		}
		recvN := func(want int, wait time.Duration) (got [][]byte) {
			deadline := time.After(wait)
			for len(got) < want {
				select {
				case f := <-p.B.peerIn:
					d, _ := f.FrameDataWithMargins(0, 0)
					got = append(got, append([]byte(nil), d...))
					f.ReturnToPool()
				case <-deadline:
					return got
				}
			}
			return got
		}
		for k := 0; k < 3; k++ {
			if _, err := send("before", k); err != nil {
				return err
			}
		}
		before := recvN(3, 2*time.Second)
		p.ab.mu.Lock()
		inject = true
		p.ab.mu.Unlock()
		nAfter := 5 + c.Rng.IntN(20)
		var handed [][]byte
		for k := 0; k < nAfter; k++ {
			d, err := send("after", k)
			if err != nil {
				return err
			}
			handed = append(handed, d)
		}
		after := recvN(nAfter, time.Duration(c.Pick(500, 800))*time.Millisecond)
		time.Sleep(5 * time.Millisecond)
		closed := p.lb.IsClosing()
		p.close()
		c.Eval()
		c.Count("fault:forged-low-sequence-near-wrap")
		c.NonTrivial(fmt.Sprintf("near-wrap/%d", nAfter))
		rep := map[string]any{"sender_sequence_start": start, "frames_before": len(before), "frames_after_handed": nAfter, "frames_after_delivered": len(after), "link_closed": closed}
		if len(before) != 3 {
			c.Violate("frames sent near the sequence wrap did not arrive on an undisturbed link", "near-wrap-undisturbed-lost", rep)
			continue
		}
		for _, d := range after {
			ok := false
			for _, h := range handed {
				ok = ok || bytes.Equal(h, d)
			}
			if !ok {
				dup := false
				for _, b := range before {
					dup = dup || bytes.Equal(b, d)
				}
				if dup {
					c.Violate("a frame delivered before was delivered a second time after an injected chunk near the sequence wrap", "second-copy", rep)
				} else {
					c.Violate("the remote frame handler received a frame that is not byte-identical to a frame handed to the link", "altered-delivered", rep)
				}
			}
		}
		if len(after) < nAfter && !closed {
			c.Violate(fmt.Sprintf("after ONE injected chunk with a small sequence number (rejected), %d of %d intact later frames did not arrive although the link stayed up: the receiver rolled its incoming key over on the unauthenticated sequence number (sender at %#x)", nAfter-len(after), nAfter, start),
				"d23-forged-rollover-frame-near-wrap", rep)
		}
	}
	return nil
}

// c05CloseWithTrafficInFlight: a link is closed while frames are still being handed to it, over a
// connection whose Close takes a moment.  Whatever is written until the connection is gone is
// still a sealed link frame: no payload may show in clear on the wire.
func c05CloseWithTrafficInFlight(c *Ctx) error {
	for rep, n := 0, c.Pick(2, 6); rep < n; rep++ {
		linkCloseDelayA = 250 * time.Millisecond
		p, err := newLinkedPair(relayStore, relayStore, nil, nil)
		linkCloseDelayA = 0
		if err != nil {
			if p != nil {
				p.close()
			}
			return fmt.Errorf("link setup: %w", err)
		}
		marker := fmt.Sprintf("CLOSING-%02d-PAYLOAD-MARKER", rep)
		send := func(k int) error {
			payload := append([]byte(fmt.Sprintf("%s-%04d-", marker, k)), randBytes(c, 40+c.Rng.IntN(300))...)
			f, err := p.A.builder.NewFrameV1(p.A.id.IP, p.B.id.IP, frame.NetworkTraffic, nil, payload, nil)
			if err != nil {
				return err
			}
			if err := p.la.Send(f); err != nil {
				f.ReturnToPool()
			}
			return nil
		}
		for k := 0; k < 10; k++ {
			if err := send(k); err != nil {
				return err
			}
		}
		// drain what arrives meanwhile so that the receiver keeps reading
		stopDrain := make(chan struct{})
		go func() {
			for {
				select {
				case f := <-p.B.peerIn:
					f.ReturnToPool()
				case <-stopDrain:
					return
				}
			}
		}()
		time.Sleep(30 * time.Millisecond)
		closed := make(chan struct{})
		go func() { p.la.Close(nil); close(closed) }()
		sent := 10
		for t0 := time.Now(); time.Since(t0) < 400*time.Millisecond; {
			_ = send(sent)
			sent++
			time.Sleep(time.Millisecond)
		}
		select {
		case <-closed:
		case <-time.After(3 * time.Second):
		}
		time.Sleep(20 * time.Millisecond)
		close(stopDrain)
		p.ab.mu.Lock()
		issued := p.ab.captured
		p.ab.mu.Unlock()
		p.close()
		c.Eval()
		c.Count("fault:close-with-traffic-in-flight")
		c.NonTrivial(fmt.Sprintf("closing/%d", rep))
		clear := 0
		for _, ch := range issued {
			if bytes.Contains(ch, []byte(marker)) {
				clear++
			}
		}
		if clear > 0 {
			c.Violate(fmt.Sprintf("the payload of %d frame(s) crossed the wire in clear while the link was closing (of %d frames handed to it)", clear, sent), "clear-on-wire", map[string]any{"clear": clear, "handed": sent})
			break
		}
	}
	return nil
}

func runC05(c *Ctx) error {
	c.Res.Rule = "two real routers joined by a real link (real handshake, link reader/writer workers) over an in-memory connection relayed by the harness; frames of all message types and sizes (1..9000 bytes, a few near the 65535 link maximum in the thorough tier) are handed to the link while a wire adversary applies fault sequences: " +
		"bit flips in the length prefix / header / ciphertext / tag, truncation, duplication, swapping, dropping, injection of random and crafted chunks (including chunks shorter than header+MAC); observed: frames reaching the remote frame handler, link closed, wire capture; " +
		"non-trivial = scenario with at least one fault; distinct = distinct (fault kinds and positions, frame count)"
	nScen := c.Pick(40, 300)
	fullProcs := runtime.GOMAXPROCS(0)
	defer runtime.GOMAXPROCS(fullProcs)
	for si := 0; si < nScen; si++ {
		runtime.GOMAXPROCS(fullProcs)
		p, err := newLinkedPair(relayStore, relayStore, nil, nil)
		if err != nil {
			if p != nil {
				p.close()
			}
			return fmt.Errorf("link setup: %w", err)
		}
		_, linkOut := peering.VerifLinkSession(p.la).VerifKeys()
		linkAEAD, err := chacha20poly1305.New(linkOut)
		if err != nil {
			return err
		}
		nFrames := 4 + c.Rng.IntN(10)
		faults := map[int]string{}
		nFaults := c.Rng.IntN(4)
		if si%7 == 0 {
			nFaults = 0
		}
		// "hold" scenarios: before the frames are handed over, strangers connect to the receiving
		// router and send one malformed clear-text frame each (their setups fail, nothing visible
		// happens); the receiver's frame handler then does not pick frames up one by one but lets them
		// queue, so that several received frames are alive at the same time.  One processor, so that
		// the buffer pools hand out recycled buffers in a fixed order.
		hold := si%3 == 1
		if hold {
			runtime.GOMAXPROCS(1)
			for k, n := 0, 1+c.Rng.IntN(3); k < n; k++ {
				kind := c05Stranger(c, p.B)
				c.Count("stranger:" + kind)
			}
			if c.Rng.IntN(2) == 0 {
				nFaults = 0
			}
		}
		kinds := []string{"flip-len", "flip-hdr", "flip-ct", "flip-tag", "dup", "swap", "drop", "inject-random", "inject-short", "truncate", "replay-earlier", "gap-replay", "gap-replay"}
		for k := 0; k < nFaults; k++ {
			faults[c.Rng.IntN(nFrames)] = kinds[c.Rng.IntN(len(kinds))]
		}
		if si%5 == 2 && nFrames >= 3 {
			// fixed slot: a well-formed runt chunk whose body reads as a length prefix that covers the next,
			// intact frame (what a reader that gives up on a short chunk after its prefix would do with it)
			faults[1] = "inject-runt-with-length"
		}
		var held []byte
		var replayAfterNext []byte
		var sentChunks [][]byte
		rng := c.Rng
		p.ab.mu.Lock()
		p.ab.fault = func(idx int, chunk []byte) [][]byte {
			kind := faults[idx]
			out := append([]byte(nil), chunk...)
			res := [][]byte{}
			defer func() { sentChunks = append(sentChunks, append([]byte(nil), chunk...)) }()
			if held != nil {
				// second half of a swap: this chunk first, then the held one
				h := held
				held = nil
				return [][]byte{out, h}
			}
			if replayAfterNext != nil {
				// second half of a gap-replay: the frame after the gap, then the old frame again
				r := replayAfterNext
				replayAfterNext = nil
				return [][]byte{out, r}
			}
			switch kind {
			case "flip-len":
				out[rng.IntN(2)] ^= 1 << uint(rng.IntN(8))
				res = append(res, out)
			case "flip-hdr":
				out[2+rng.IntN(10)] ^= 1 << uint(rng.IntN(8))
				res = append(res, out)
			case "flip-ct":
				if len(out) > 28 {
					out[12+rng.IntN(len(out)-28)] ^= 1 << uint(rng.IntN(8))
				}
				res = append(res, out)
			case "flip-tag":
				out[len(out)-1-rng.IntN(16)] ^= 1 << uint(rng.IntN(8))
				res = append(res, out)
			case "dup":
				res = append(res, out, append([]byte(nil), out...))
			case "swap":
				held = out
			case "drop":
			case "replay-earlier":
				res = append(res, out)
				if len(sentChunks) > 0 {
					res = append(res, append([]byte(nil), sentChunks[rng.IntN(len(sentChunks))]...))
				}
			case "gap-replay":
				// drop this frame; after the next one, replay the frame before the gap
				if len(sentChunks) > 0 {
					replayAfterNext = append([]byte(nil), sentChunks[len(sentChunks)-1]...)
				}
			case "inject-random":
				g := make([]byte, 4+rng.IntN(60))
				for i := range g {
					g[i] = byte(rng.IntN(256))
				}
				g[0], g[1] = 0, byte(len(g))
				res = append(res, g, out)
			case "inject-runt-with-length":
				l := len(out) + 4
				res = append(res, []byte{0, 6, byte(l >> 8), byte(l), 0, 0}, out)
			case "inject-short":
				n := 4 + rng.IntN(24) // shorter than header + MAC
				g := make([]byte, n)
				g[0], g[1] = 0, byte(n)
				res = append(res, g, out)
			case "truncate":
				res = append(res, out[:2+rng.IntN(len(out)-2)])
			default:
				res = append(res, out)
			}
			return res
		}
		p.ab.mu.Unlock()
		// hand frames to A's link
		var handed [][]byte
		mts := []frame.MessageType{frame.NetworkTraffic, frame.RouterPing, frame.RouterCtrl, frame.SessionData}
		sizes := []int{1, 20, 200, 1200, 1200, 4000}
		if c.Thorough() {
			sizes = append(sizes, 9000)
		}
		if hold {
			sizes = [][]int{{1, 20, 200, 300}, {700, 1200, 1300}, {1, 20, 200, 1200}}[c.Rng.IntN(3)]
		}
		for k := 0; k < nFrames+3; k++ { // the last three are sentinels after the faulted range
			sz := sizes[c.Rng.IntN(len(sizes))]
			if c.Thorough() && c.Rng.IntN(40) == 0 {
				sz = 9990
			}
			payload := randBytes(c, sz)
			copy(payload, []byte(fmt.Sprintf("PAYLOAD-%04d-%04d-MARKER", si, k)))
			f, err := p.A.builder.NewFrameV1(p.A.id.IP, p.B.id.IP, mts[c.Rng.IntN(len(mts))], nil, payload, nil)
			if err != nil {
				return err
			}
			d, _ := f.FrameDataWithMargins(0, 0)
			handed = append(handed, append([]byte(nil), d...))
			if err := p.la.Send(f); err != nil {
				return err
			}
		}
		// wait for the last sentinel, a close, or quiescence
		var delivered [][]byte
		deadline := time.After(time.Duration(c.Pick(400, 800)) * time.Millisecond)
		lastSentinel := handed[len(handed)-1]
		if hold {
			// let the frames queue up at the handler, then look at all of them while all are alive
			for t0 := time.Now(); time.Since(t0) < time.Duration(c.Pick(400, 800))*time.Millisecond; {
				if len(p.B.peerIn) >= len(handed) || p.lb.IsClosing() {
					break
				}
				time.Sleep(2 * time.Millisecond)
			}
			time.Sleep(5 * time.Millisecond)
			var alive []frame.Frame
		collect:
			for {
				select {
				case f := <-p.B.peerIn:
					alive = append(alive, f)
				default:
					break collect
				}
			}
			for _, f := range alive {
				d, _ := f.FrameDataWithMargins(0, 0)
				delivered = append(delivered, append([]byte(nil), d...))
			}
			for _, f := range alive {
				f.ReturnToPool()
			}
			c.Count(fmt.Sprintf("held-frames:%d", len(alive)))
			deadline = time.After(time.Millisecond)
		}
	wait:
		for {
			select {
			case f := <-p.B.peerIn:
				d, _ := f.FrameDataWithMargins(0, 0)
				delivered = append(delivered, append([]byte(nil), d...))
				f.ReturnToPool()
				if bytes.Equal(d, lastSentinel) {
					break wait
				}
			case <-deadline:
				break wait
			}
		}
		time.Sleep(5 * time.Millisecond)
		closed := p.lb.IsClosing()
		p.ab.mu.Lock()
		issued := p.ab.captured
		wire := append([]byte(nil), p.ab.forwarded...)
		p.ab.mu.Unlock()
		// drain anything still in flight
	drain:
		for {
			select {
			case f := <-p.B.peerIn:
				d, _ := f.FrameDataWithMargins(0, 0)
				delivered = append(delivered, append([]byte(nil), d...))
				f.ReturnToPool()
			default:
				break drain
			}
		}
		p.close()
		c.Eval()
		// property oracle
		rep := map[string]any{"scenario": si, "frames": nFrames, "faults": fmt.Sprintf("%v", faults)}
		count := map[string]int{}
		for _, d := range delivered {
			found := false
			for _, h := range handed {
				if bytes.Equal(h, d) {
					found = true
				}
			}
			if !found {
				c.Violate("the remote frame handler received a frame that is not byte-identical to a frame handed to the link", "altered-delivered", rep)
			}
			count[string(d)]++
			if count[string(d)] > 1 {
				c.Violate("a frame was delivered twice to the remote frame handler", "second-copy", rep)
			}
		}
		misaligning := false
		for _, k := range faults {
			if k == "flip-len" || k == "truncate" {
				misaligning = true
			}
		}
		if !misaligning && !closed {
			// every frame whose link frame reached the receiver intact must arrive
			for k, h := range handed {
				kind := faults[k]
				intact := kind == "" || kind == "dup" || kind == "swap" || kind == "inject-random" || kind == "inject-short" || kind == "replay-earlier"
				if k >= nFrames {
					intact = true
				}
				if intact && count[string(h)] == 0 {
					c.Violate(fmt.Sprintf("an intact frame (#%d) did not arrive although the link stayed up", k), "intact-lost", rep)
				}
			}
		}
		for _, ch := range issued {
			for k := range handed {
				marker := []byte(fmt.Sprintf("PAYLOAD-%04d-%04d-MARKER", si, k))
				if bytes.Contains(ch, marker) {
					c.Violate("payload bytes appear in clear on the wire after the handshake", "clear-on-wire", rep)
				}
			}
		}
		kindsUsed := ""
		for k := 0; k < nFrames; k++ {
			if faults[k] != "" {
				kindsUsed += fmt.Sprintf("%d:%s,", k, faults[k])
				c.Count("fault:" + faults[k])
			}
		}
		if kindsUsed != "" {
			c.NonTrivial(fmt.Sprintf("%d/%s", nFrames, kindsUsed))
		} else {
			c.Count("fault:none")
		}
		// model case (skip very large wires in the quick tier)
		if len(wire) < c.Pick(30000, 200000) {
			is := make([]string, 0, len(issued))
			for _, ch := range issued {
				// the frame this link frame carries, recovered with the sender's link key
				if len(ch) < 28 {
					continue
				}
				inner, err := linkAEAD.Open(nil, ch[:12], ch[12:], nil)
				if err != nil {
					c.Violate("a captured link frame does not open with the sender's link key over nonce=header(12), no AAD", "layout-link", rep)
					continue
				}
				is = append(is, fmt.Sprintf("(%s,%s)", coqBytes(ch), coqBytes(inner)))
			}
			dl := make([]string, len(delivered))
			for k, d := range delivered {
				dl[k] = coqBytes(d)
			}
			c.CoqSetup("Prelude Seq SeqCorr LinkFrame LinkFrameCorr", "c05_case", "c05_ok")
			c.Case(fmt.Sprintf("(%s,%s,(%s,%s))", coqList(is), coqBytes(wire), coqList(dl), coqBool(closed)), rep)
		}
		if si < 3 {
			c.Sample(rep)
		}
	}
	runtime.GOMAXPROCS(fullProcs)
	// 100 consecutive bad frames close the link
	{
		p, err := newLinkedPair(relayStore, relayStore, nil, nil)
		if err != nil {
			return err
		}
		g := []byte{0, 30}
		g = append(g, make([]byte, 28)...)
		// write the garbage directly towards B through the relay by sending it as raw bytes from A's side
		go func() {
			for k := 0; k < 101; k++ {
				if _, err := p.connA.Write(g); err != nil {
					return
				}
			}
		}()
		dl := time.After(2 * time.Second)
		closed := false
	loop:
		for {
			select {
			case <-dl:
				break loop
			default:
				if p.lb.IsClosing() {
					closed = true
					break loop
				}
				time.Sleep(5 * time.Millisecond)
			}
		}
		c.Eval()
		c.Count("fault:100-bad-frames")
		if !closed {
			c.Violate("the link did not close after 100 consecutive unauthenticated frames", "no-close", map[string]any{})
		}
		p.close()
	}
	// ... also while the receiving side keeps sending traffic of its own: what the writer does must
	// not keep a link alive whose incoming direction delivers nothing any more
	{
		p, err := newLinkedPair(relayStore, relayStore, nil, nil)
		if err != nil {
			return err
		}
		stop := make(chan struct{})
		go func() { // A's handler takes what B sends
			for {
				select {
				case f := <-p.A.peerIn:
					f.ReturnToPool()
				case <-stop:
					return
				}
			}
		}()
		go func() { // B's own traffic
			for k := 0; ; k++ {
				select {
				case <-stop:
					return
				default:
				}
				f, err := p.B.builder.NewFrameV1(p.B.id.IP, p.A.id.IP, frame.NetworkTraffic, nil, []byte("traffic of the receiving side"), nil)
				if err != nil {
					return
				}
				if err := p.lb.Send(f); err != nil {
					f.ReturnToPool()
					return
				}
				time.Sleep(300 * time.Microsecond)
			}
		}()
		g := []byte{0, 30}
		g = append(g, make([]byte, 28)...)
		bad := 0
		closed := false
		for ; bad < 3000 && !closed; bad++ {
			if _, err := p.connA.Write(g); err != nil {
				closed = true
				break
			}
			time.Sleep(100 * time.Microsecond)
			closed = p.lb.IsClosing()
		}
		for t0 := time.Now(); !closed && time.Since(t0) < time.Second; time.Sleep(5 * time.Millisecond) {
			closed = p.lb.IsClosing()
		}
		close(stop)
		c.Eval()
		c.Count("fault:bad-frames-while-receiver-sends")
		c.NonTrivial("bad-frames-while-receiver-sends")
		if !closed {
			c.Violate(fmt.Sprintf("the link did not close after %d consecutive unauthenticated frames while the receiving side kept sending its own traffic", bad), "no-close-while-sending", map[string]any{"bad_frames": bad})
		}
		p.close()
	}
	if err := c05ForgedRolloverNearWrap(c); err != nil {
		return err
	}
	if err := c05CloseWithTrafficInFlight(c); err != nil {
		return err
	}
	// LinkFrame.Unseal on arbitrary short and random chunks: error, never a panic
	c.CoqSetup("Prelude Seq SeqCorr LinkFrame LinkFrameCorr", "c05_ucase", "c05_uok")
	ea, eb := state.NewEncryptionSession(), state.NewEncryptionSession()
	if err := keyExchange(ea, eb); err != nil {
		return err
	}
	for i, n := 0, c.Pick(300, 3000); i < n; i++ {
		L := c.Rng.IntN(64)
		if c.Rng.IntN(3) == 0 {
			L = c.Rng.IntN(12)
		}
		chunk := randBytes(c, L)
		var err error
		pan, _ := recoverPanic(func() { err = peering.LinkFrame(append([]byte(nil), chunk...)).Unseal(eb) })
		code := 1
		if pan {
			code = 3
			c.Violate(fmt.Sprintf("LinkFrame.Unseal panicked on a %d-byte chunk", L), "unseal-panic", map[string]any{"chunk": chunk})
		} else if err == nil {
			code = 0
		}
		c.Eval()
		c.Count(fmt.Sprintf("raw-chunk:code%d", code))
		if L >= 4 {
			c.Case(fmt.Sprintf("(%s,%d)", coqBytes(chunk), code), map[string]any{"kind": "raw-unseal", "len": L})
		}
	}
	return nil
}
