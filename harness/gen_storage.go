package main

import (
	"fmt"
	"go/ast"
	"go/parser"
	"go/token"
	"strings"
)

func init() {
	genSections = append(genSections, genStorage)
}

// genStorage records, from the source under test, the shape of the state-file save the Storage
// model assumes: Stop goes through writeFileAtomic; writeFileAtomic opens the temporary name with
// O_CREATE and O_TRUNC, syncs before it renames, and renames the temporary name over the file.
func genStorage(sb *strings.Builder) error {
	fset := token.NewFileSet()
	f, err := parser.ParseFile(fset, repoRoot()+"/storage/storage_json.go", nil, 0)
	if err != nil {
		return err
	}
	var stopUsesAtomic, stopWritesDirect, trunc, create, openTmp, renameOK, directWrite bool
	syncPos, renamePos := token.NoPos, token.NoPos
	for _, d := range f.Decls {
		fd, ok := d.(*ast.FuncDecl)
		if !ok || fd.Body == nil {
			continue
		}
		ast.Inspect(fd.Body, func(n ast.Node) bool {
			call, ok := n.(*ast.CallExpr)
			if !ok {
				return true
			}
			txt := nodeText(fset, call.Fun)
			switch {
			case fd.Name.Name == "Stop" && txt == "writeFileAtomic":
				stopUsesAtomic = true
			case fd.Name.Name == "Stop" && (txt == "os.WriteFile" || txt == "os.Create" || txt == "os.OpenFile"):
				stopWritesDirect = true
			case fd.Name.Name == "writeFileAtomic" && (txt == "os.WriteFile" || txt == "os.Create"):
				directWrite = true // the final name must only ever be produced by the rename
			case fd.Name.Name == "writeFileAtomic" && txt == "os.OpenFile" && len(call.Args) >= 2:
				if nodeText(fset, call.Args[0]) != "tmpName" {
					directWrite = true
				}
				openTmp = nodeText(fset, call.Args[0]) == "tmpName"
				flags := nodeText(fset, call.Args[1])
				trunc = strings.Contains(flags, "os.O_TRUNC")
				create = strings.Contains(flags, "os.O_CREATE")
			case fd.Name.Name == "writeFileAtomic" && txt == "f.Sync":
				syncPos = call.Pos()
			case fd.Name.Name == "writeFileAtomic" && txt == "os.Rename" && len(call.Args) == 2:
				renamePos = call.Pos()
				renameOK = nodeText(fset, call.Args[0]) == "tmpName" && nodeText(fset, call.Args[1]) == "filename"
			}
			return true
		})
	}
	sb.WriteString("(* shape of the state-file save, checked on the source with go/ast *)\n")
	fmt.Fprintf(sb, "Definition storage_stop_uses_atomic : bool := %v.\n", stopUsesAtomic && !stopWritesDirect)
	fmt.Fprintf(sb, "Definition storage_tmp_trunc : bool := %v.\n", openTmp && trunc && create && !directWrite)
	fmt.Fprintf(sb, "Definition storage_sync_then_rename : bool := %v.\n\n", renameOK && syncPos != token.NoPos && syncPos < renamePos)
	return nil
}

func init() {
	genSections = append(genSections, genPeeringLocks)
}

// genPeeringLocks: AddLink and RemoveLink of the peering registry hold linksLock for their whole body.
func genPeeringLocks(sb *strings.Builder) error {
	fset := token.NewFileSet()
	f, err := parser.ParseFile(fset, repoRoot()+"/peering/peering.go", nil, 0)
	if err != nil {
		return err
	}
	lockFieldName = "linksLock"
	defer func() { lockFieldName = "lock" }()
	locked := map[string]bool{}
	for _, d := range f.Decls {
		if fd, ok := d.(*ast.FuncDecl); ok && fd.Recv != nil {
			locked[fd.Name.Name] = lockedWhole(fd)
		}
	}
	sb.WriteString("(* the link registry's AddLink / RemoveLink run under linksLock for their whole body (go/ast) *)\n")
	fmt.Fprintf(sb, "Definition peering_addlink_locked : bool := %v.\nDefinition peering_removelink_locked : bool := %v.\n\n", locked["AddLink"], locked["RemoveLink"])
	return nil
}

func init() {
	genSections = append(genSections, genSessionLocks)
}

// genSessionLocks: the replay handlers are one per session and serialised — Session.Signing and
// Session.Encryption create their object under the session lock (whole body), and the Check
// methods of both sequence handlers run under the handler lock (whole body).
func genSessionLocks(sb *strings.Builder) error {
	fset := token.NewFileSet()
	locked := map[string]bool{}
	for _, file := range []string{repoRoot() + "/state/session.go", repoRoot() + "/state/session_signing.go", repoRoot() + "/state/session_encryption.go"} {
		f, err := parser.ParseFile(fset, file, nil, 0)
		if err != nil {
			return err
		}
		for _, d := range f.Decls {
			fd, ok := d.(*ast.FuncDecl)
			if !ok || fd.Recv == nil {
				continue
			}
			recv := ""
			if st, ok := fd.Recv.List[0].Type.(*ast.StarExpr); ok {
				if id, ok := st.X.(*ast.Ident); ok {
					recv = id.Name
				}
			}
			locked[recv+"."+fd.Name.Name] = lockedWhole(fd)
		}
	}
	// one session object per sender: State.GetSession looks up, creates and registers under
	// sessionsLock for its whole body
	{
		f, err := parser.ParseFile(fset, repoRoot()+"/state/state.go", nil, 0)
		if err != nil {
			return err
		}
		lockFieldName = "sessionsLock"
		for _, d := range f.Decls {
			if fd, ok := d.(*ast.FuncDecl); ok && fd.Recv != nil && fd.Name.Name == "GetSession" {
				locked["State.GetSession"] = lockedWhole(fd)
			}
		}
		lockFieldName = "lock"
	}
	// at most one hello in flight per destination: HelloPingHandler.Send checks for an active hello,
	// sends the request and registers the pending state under sendLock for its whole body
	{
		f, err := parser.ParseFile(fset, repoRoot()+"/router/ping_hello.go", nil, 0)
		if err != nil {
			return err
		}
		lockFieldName = "sendLock"
		for _, d := range f.Decls {
			if fd, ok := d.(*ast.FuncDecl); ok && fd.Recv != nil && fd.Name.Name == "Send" {
				locked["HelloPingHandler.Send"] = lockedWhole(fd)
			}
		}
		lockFieldName = "lock"
	}
	fmt.Fprintf(sb, "Definition hello_send_locked : bool := %v.\n", locked["HelloPingHandler.Send"])
	sb.WriteString("(* one replay handler per session, serialised: lock held for the whole body (go/ast) *)\n")
	fmt.Fprintf(sb, "Definition state_getsession_locked : bool := %v.\n", locked["State.GetSession"])
	fmt.Fprintf(sb, "Definition session_signing_locked : bool := %v.\nDefinition session_encryption_locked : bool := %v.\n", locked["Session.Signing"], locked["Session.Encryption"])
	fmt.Fprintf(sb, "Definition seq_check_locked : bool := %v.\nDefinition timeseq_check_locked : bool := %v.\n\n", locked["SequenceHandler.Check"], locked["TimeSequenceHandler.Check"])
	return nil
}

func init() {
	genSections = append(genSections, genTableLocks)
}

// lockedFromLock: the method takes the write lock exactly once, at the top level of its body,
// immediately followed by the deferred unlock, touches the entry slice only after that point, and
// contains no other lock or unlock call: from the lock on, the rest of the body is one critical
// section.
func lockedFromLock(fn *ast.FuncDecl) bool {
	if fn.Body == nil {
		return false
	}
	isLockSel := func(e ast.Expr, name string) bool {
		call, ok := e.(*ast.CallExpr)
		if !ok {
			return false
		}
		sel, ok := call.Fun.(*ast.SelectorExpr)
		if !ok || sel.Sel.Name != name {
			return false
		}
		inner, ok := sel.X.(*ast.SelectorExpr)
		return ok && inner.Sel.Name == "lock"
	}
	at := -1
	for i, st := range fn.Body.List {
		if es, ok := st.(*ast.ExprStmt); ok && isLockSel(es.X, "Lock") {
			at = i
			break
		}
	}
	if at < 0 || at+1 >= len(fn.Body.List) {
		return false
	}
	if ds, ok := fn.Body.List[at+1].(*ast.DeferStmt); !ok || !isLockSel(ds.Call, "Unlock") {
		return false
	}
	calls := map[string]int{}
	ast.Inspect(fn.Body, func(n ast.Node) bool {
		if c, ok := n.(*ast.CallExpr); ok {
			for _, nm := range []string{"Lock", "Unlock", "RLock", "RUnlock", "TryLock"} {
				if isLockSel(c, nm) {
					calls[nm]++
				}
			}
		}
		return true
	})
	if calls["Lock"] != 1 || calls["Unlock"] != 1 || calls["RLock"]+calls["RUnlock"]+calls["TryLock"] != 0 {
		return false
	}
	touches := false
	for _, st := range fn.Body.List[:at] {
		ast.Inspect(st, func(n ast.Node) bool {
			if s, ok := n.(*ast.SelectorExpr); ok && s.Sel.Name == "entries" {
				touches = true
			}
			return true
		})
	}
	return !touches
}

// genTableLocks: every mutating operation of the routing table is one critical section, so that
// concurrent callers (announcement handlers, link removal, the cleaning worker) produce one of
// the operation sequences the history model ranges over.
func genTableLocks(sb *strings.Builder) error {
	fset := token.NewFileSet()
	f, err := parser.ParseFile(fset, repoRoot()+"/m/table.go", nil, 0)
	if err != nil {
		return err
	}
	ok := map[string]bool{}
	for _, d := range f.Decls {
		fd, isFn := d.(*ast.FuncDecl)
		if !isFn || fd.Recv == nil {
			continue
		}
		ok[fd.Name.Name] = lockedFromLock(fd)
	}
	sb.WriteString("(* the routing table's mutating operations are one critical section each (go/ast) *)\n")
	fmt.Fprintf(sb, "Definition table_ops_serialised : bool := %v.\n\n", ok["AddRoute"] && ok["RemoveNextHop"] && ok["RemoveDisconnected"] && ok["Clean"])
	return nil
}
