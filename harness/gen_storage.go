package main

import (
	"fmt"
	"go/ast"
	"go/parser"
	"go/token"
	"strings"
)

func init() {
	genSections = append(genSections, genStorage)
}

// genStorage records, from the source under test, the shape of the state-file save the Storage
// model assumes: Stop goes through writeFileAtomic; writeFileAtomic opens the temporary name with
// O_CREATE and O_TRUNC, syncs before it renames, and renames the temporary name over the file.
func genStorage(sb *strings.Builder) error {
	fset := token.NewFileSet()
	f, err := parser.ParseFile(fset, "/repo/storage/storage_json.go", nil, 0)
	if err != nil {
		return err
	}
	var stopUsesAtomic, stopWritesDirect, trunc, create, openTmp, renameOK, directWrite bool
	syncPos, renamePos := token.NoPos, token.NoPos
	for _, d := range f.Decls {
		fd, ok := d.(*ast.FuncDecl)
		if !ok || fd.Body == nil {
			continue
		}
		ast.Inspect(fd.Body, func(n ast.Node) bool {
			call, ok := n.(*ast.CallExpr)
			if !ok {
				return true
			}
			txt := nodeText(fset, call.Fun)
			switch {
			case fd.Name.Name == "Stop" && txt == "writeFileAtomic":
				stopUsesAtomic = true
			case fd.Name.Name == "Stop" && (txt == "os.WriteFile" || txt == "os.Create" || txt == "os.OpenFile"):
				stopWritesDirect = true
			case fd.Name.Name == "writeFileAtomic" && (txt == "os.WriteFile" || txt == "os.Create"):
				directWrite = true // the final name must only ever be produced by the rename
			case fd.Name.Name == "writeFileAtomic" && txt == "os.OpenFile" && len(call.Args) >= 2:
				if nodeText(fset, call.Args[0]) != "tmpName" {
					directWrite = true
				}
				openTmp = nodeText(fset, call.Args[0]) == "tmpName"
				flags := nodeText(fset, call.Args[1])
				trunc = strings.Contains(flags, "os.O_TRUNC")
				create = strings.Contains(flags, "os.O_CREATE")
			case fd.Name.Name == "writeFileAtomic" && txt == "f.Sync":
				syncPos = call.Pos()
			case fd.Name.Name == "writeFileAtomic" && txt == "os.Rename" && len(call.Args) == 2:
				renamePos = call.Pos()
				renameOK = nodeText(fset, call.Args[0]) == "tmpName" && nodeText(fset, call.Args[1]) == "filename"
			}
			return true
		})
	}
	sb.WriteString("(* shape of the state-file save, checked on the source with go/ast *)\n")
	fmt.Fprintf(sb, "Definition storage_stop_uses_atomic : bool := %v.\n", stopUsesAtomic && !stopWritesDirect)
	fmt.Fprintf(sb, "Definition storage_tmp_trunc : bool := %v.\n", openTmp && trunc && create && !directWrite)
	fmt.Fprintf(sb, "Definition storage_sync_then_rename : bool := %v.\n\n", renameOK && syncPos != token.NoPos && syncPos < renamePos)
	return nil
}

func init() {
	genSections = append(genSections, genPeeringLocks)
}

// genPeeringLocks: AddLink and RemoveLink of the peering registry hold linksLock for their whole body.
func genPeeringLocks(sb *strings.Builder) error {
	fset := token.NewFileSet()
	f, err := parser.ParseFile(fset, "/repo/peering/peering.go", nil, 0)
	if err != nil {
		return err
	}
	lockFieldName = "linksLock"
	defer func() { lockFieldName = "lock" }()
	locked := map[string]bool{}
	for _, d := range f.Decls {
		if fd, ok := d.(*ast.FuncDecl); ok && fd.Recv != nil {
			locked[fd.Name.Name] = lockedWhole(fd)
		}
	}
	sb.WriteString("(* the link registry's AddLink / RemoveLink run under linksLock for their whole body (go/ast) *)\n")
	fmt.Fprintf(sb, "Definition peering_addlink_locked : bool := %v.\nDefinition peering_removelink_locked : bool := %v.\n\n", locked["AddLink"], locked["RemoveLink"])
	return nil
}

func init() {
	genSections = append(genSections, genSessionLocks)
}

// genSessionLocks: the replay handlers are one per session and serialised — Session.Signing and
// Session.Encryption create their object under the session lock (whole body), and the Check
// methods of both sequence handlers run under the handler lock (whole body).
func genSessionLocks(sb *strings.Builder) error {
	fset := token.NewFileSet()
	locked := map[string]bool{}
	for _, file := range []string{"/repo/state/session.go", "/repo/state/session_signing.go", "/repo/state/session_encryption.go"} {
		f, err := parser.ParseFile(fset, file, nil, 0)
		if err != nil {
			return err
		}
		for _, d := range f.Decls {
			fd, ok := d.(*ast.FuncDecl)
			if !ok || fd.Recv == nil {
				continue
			}
			recv := ""
			if st, ok := fd.Recv.List[0].Type.(*ast.StarExpr); ok {
				if id, ok := st.X.(*ast.Ident); ok {
					recv = id.Name
				}
			}
			locked[recv+"."+fd.Name.Name] = lockedWhole(fd)
		}
	}
	sb.WriteString("(* one replay handler per session, serialised: lock held for the whole body (go/ast) *)\n")
	fmt.Fprintf(sb, "Definition session_signing_locked : bool := %v.\nDefinition session_encryption_locked : bool := %v.\n", locked["Session.Signing"], locked["Session.Encryption"])
	fmt.Fprintf(sb, "Definition seq_check_locked : bool := %v.\nDefinition timeseq_check_locked : bool := %v.\n\n", locked["SequenceHandler.Check"], locked["TimeSequenceHandler.Check"])
	return nil
}
