package main

import (
	"fmt"
	"go/ast"
	"go/parser"
	"go/token"
	"os"
	"path/filepath"
	"sort"
	"strings"
)

func init() {
	genSections = append(genSections, genNoReentrantLocks)
}

// genNoReentrantLocks: a method that holds one of its receiver's mutexes until it returns
// (`r.f.Lock()` or `r.f.RLock()` at the top level of the body, unlock deferred) never calls - directly
// or through other methods of the same receiver - a method that takes the same mutex again.
// sync.Mutex is not reentrant, and a second RLock of a sync.RWMutex blocks for good as soon as a
// writer is waiting in between: every worker that then needs the lock, and Stop, hang.
func genNoReentrantLocks(sb *strings.Builder) error {
	var offenders []string
	for _, pkg := range []string{"peering", "state", "router", "m", "storage", "switchr", "frame", "api/dns", "mgr"} {
		files, _ := filepath.Glob(repoRoot() + "/" + pkg + "/*.go")
		fset := token.NewFileSet()
		type meth struct {
			fn   *ast.FuncDecl
			recv string // receiver variable name
		}
		methods := map[string]*meth{} // "Type.Name"
		for _, file := range files {
			if strings.HasSuffix(file, "_test.go") {
				continue
			}
			src, err := os.ReadFile(file)
			if err != nil {
				return err
			}
			f, err := parser.ParseFile(fset, file, src, 0)
			if err != nil {
				return err
			}
			for _, d := range f.Decls {
				fd, ok := d.(*ast.FuncDecl)
				if !ok || fd.Recv == nil || fd.Body == nil || len(fd.Recv.List) == 0 || len(fd.Recv.List[0].Names) == 0 {
					continue
				}
				t := fd.Recv.List[0].Type
				if st, ok := t.(*ast.StarExpr); ok {
					t = st.X
				}
				id, ok := t.(*ast.Ident)
				if !ok {
					continue
				}
				methods[id.Name+"."+fd.Name.Name] = &meth{fn: fd, recv: fd.Recv.List[0].Names[0].Name}
			}
		}
		// lockCall: r.<field>.<Lock|RLock>() -> field
		lockField := func(e ast.Expr, recv string, names ...string) string {
			call, ok := e.(*ast.CallExpr)
			if !ok {
				return ""
			}
			sel, ok := call.Fun.(*ast.SelectorExpr)
			if !ok {
				return ""
			}
			match := false
			for _, n := range names {
				if sel.Sel.Name == n {
					match = true
				}
			}
			if !match {
				return ""
			}
			inner, ok := sel.X.(*ast.SelectorExpr)
			if !ok {
				return ""
			}
			if x, ok := inner.X.(*ast.Ident); !ok || x.Name != recv {
				return ""
			}
			return inner.Sel.Name
		}
		// direct acquisitions anywhere in the body, and calls on the receiver
		acquires := map[string]map[string]bool{}
		callsOn := map[string]map[string]bool{}
		for key, mt := range methods {
			acquires[key], callsOn[key] = map[string]bool{}, map[string]bool{}
			typ := key[:strings.Index(key, ".")]
			ast.Inspect(mt.fn.Body, func(n ast.Node) bool {
				if c, ok := n.(*ast.CallExpr); ok {
					if f := lockField(c, mt.recv, "Lock", "RLock"); f != "" {
						acquires[key][f] = true
					}
					if sel, ok := c.Fun.(*ast.SelectorExpr); ok {
						if x, ok := sel.X.(*ast.Ident); ok && x.Name == mt.recv {
							if _, isM := methods[typ+"."+sel.Sel.Name]; isM {
								callsOn[key][typ+"."+sel.Sel.Name] = true
							}
						}
					}
				}
				return true
			})
		}
		// transitive: a method "takes f" if it or a receiver method it calls acquires f
		for changed := true; changed; {
			changed = false
			for key := range methods {
				for callee := range callsOn[key] {
					for f := range acquires[callee] {
						if !acquires[key][f] {
							acquires[key][f] = true
							changed = true
						}
					}
				}
			}
		}
		// holders: top-level lock statement followed by the deferred unlock
		for key, mt := range methods {
			typ := key[:strings.Index(key, ".")]
			body := mt.fn.Body.List
			for i := 0; i+1 < len(body); i++ {
				es, ok := body[i].(*ast.ExprStmt)
				if !ok {
					continue
				}
				f := lockField(es.X, mt.recv, "Lock", "RLock")
				if f == "" {
					continue
				}
				ds, ok := body[i+1].(*ast.DeferStmt)
				if !ok || lockField(ds.Call, mt.recv, "Unlock", "RUnlock") != f {
					continue
				}
				for _, st := range body[i+2:] {
					ast.Inspect(st, func(n ast.Node) bool {
						if _, isLit := n.(*ast.FuncLit); isLit {
							return false // runs later (deferred / goroutine), not under this lock for sure
						}
						c, ok := n.(*ast.CallExpr)
						if !ok {
							return true
						}
						if g := lockField(c, mt.recv, "Lock", "RLock"); g == f {
							offenders = append(offenders, fmt.Sprintf("%s/%s takes %s twice", pkg, key, f))
						}
						if sel, ok := c.Fun.(*ast.SelectorExpr); ok {
							if x, ok := sel.X.(*ast.Ident); ok && x.Name == mt.recv {
								callee := typ + "." + sel.Sel.Name
								if acquires[callee][f] {
									offenders = append(offenders, fmt.Sprintf("%s/%s holds %s and calls %s", pkg, key, f, callee))
								}
							}
						}
						return true
					})
				}
			}
		}
	}
	sort.Strings(offenders)
	sb.WriteString("(* no method re-acquires a mutex of its receiver that it already holds (go/ast, whole packages) *)\n")
	for _, o := range offenders {
		fmt.Fprintf(sb, "(* offender: %s *)\n", o)
	}
	fmt.Fprintf(sb, "Definition no_reentrant_locks : bool := %v.\n\n", len(offenders) == 0)
	return nil
}

func init() {
	genSections = append(genSections, genLocksReleased)
}

// genLocksReleased: every mutex acquisition in the packages under test is released on every path,
// in one of the two shapes whose correctness is visible without a control-flow analysis: the
// lock statement is immediately followed by the matching deferred unlock, or the matching unlock
// follows in the same statement list with only plain assignments / expression statements in
// between (no branch, return, loop or block).  A path that returns with a lock held stalls every
// worker that needs the lock afterwards.
func genLocksReleased(sb *strings.Builder) error {
	var offenders []string
	total := 0
	// sel: expression X in X.Lock(); printed form identifies the mutex
	exprStr := func(e ast.Expr) string {
		var b strings.Builder
		var walk func(e ast.Expr)
		walk = func(e ast.Expr) {
			switch v := e.(type) {
			case *ast.Ident:
				b.WriteString(v.Name)
			case *ast.SelectorExpr:
				walk(v.X)
				b.WriteString("." + v.Sel.Name)
			default:
				b.WriteString("?")
			}
		}
		walk(e)
		return b.String()
	}
	lockOf := func(e ast.Expr, names ...string) (string, string) {
		call, ok := e.(*ast.CallExpr)
		if !ok || len(call.Args) != 0 {
			return "", ""
		}
		sel, ok := call.Fun.(*ast.SelectorExpr)
		if !ok {
			return "", ""
		}
		for _, n := range names {
			if sel.Sel.Name == n {
				return exprStr(sel.X), n
			}
		}
		return "", ""
	}
	for _, pkg := range []string{"peering", "state", "router", "m", "storage", "switchr", "frame", "api/dns", "mgr", "config", "tun"} {
		files, _ := filepath.Glob(repoRoot() + "/" + pkg + "/*.go")
		for _, file := range files {
			if strings.HasSuffix(file, "_test.go") || strings.HasSuffix(file, "verif_hooks.go") {
				continue
			}
			fset := token.NewFileSet()
			f, err := parser.ParseFile(fset, file, nil, 0)
			if err != nil {
				return err
			}
			checkList := func(list []ast.Stmt, where string) {
				for i, st := range list {
					es, ok := st.(*ast.ExprStmt)
					if !ok {
						continue
					}
					mu, kind := lockOf(es.X, "Lock", "RLock")
					if mu == "" {
						continue
					}
					total++
					unlock := map[string]string{"Lock": "Unlock", "RLock": "RUnlock"}[kind]
					if i+1 < len(list) {
						if ds, ok := list[i+1].(*ast.DeferStmt); ok {
							if m2, _ := lockOf(ds.Call, unlock); m2 == mu {
								continue
							}
						}
					}
					released := false
					for j := i + 1; j < len(list); j++ {
						if e2, ok := list[j].(*ast.ExprStmt); ok {
							if m2, _ := lockOf(e2.X, unlock); m2 == mu {
								released = true
								break
							}
						}
						switch list[j].(type) {
						case *ast.AssignStmt, *ast.IncDecStmt, *ast.ExprStmt:
							continue
						}
						break
					}
					if !released {
						offenders = append(offenders, fmt.Sprintf("%s %s: %s.%s()", strings.TrimPrefix(file, repoRoot()+"/"), where, mu, kind))
					}
				}
			}
			for _, d := range f.Decls {
				fd, ok := d.(*ast.FuncDecl)
				if !ok || fd.Body == nil {
					continue
				}
				ast.Inspect(fd.Body, func(n ast.Node) bool {
					switch v := n.(type) {
					case *ast.BlockStmt:
						checkList(v.List, fd.Name.Name)
					case *ast.CaseClause:
						checkList(v.Body, fd.Name.Name)
					case *ast.CommClause:
						checkList(v.Body, fd.Name.Name)
					}
					return true
				})
			}
		}
	}
	sort.Strings(offenders)
	sb.WriteString("(* every mutex acquisition is released by an adjacent deferred unlock or a straight-line unlock (go/ast, whole packages) *)\n")
	for _, o := range offenders {
		fmt.Fprintf(sb, "(* offender: %s *)\n", o)
	}
	fmt.Fprintf(sb, "Definition lock_acquisitions : nat := %d.\nDefinition locks_released : bool := %v.\n\n", total, len(offenders) == 0)
	return nil
}
