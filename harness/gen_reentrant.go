package main

import (
	"fmt"
	"go/ast"
	"go/parser"
	"go/token"
	"os"
	"path/filepath"
	"sort"
	"strings"
)

func init() {
	genSections = append(genSections, genNoReentrantLocks)
}

// genNoReentrantLocks: a method that holds one of its receiver's mutexes until it returns
// (`r.f.Lock()` or `r.f.RLock()` at the top level of the body, unlock deferred) never calls - directly
// or through other methods of the same receiver - a method that takes the same mutex again.
// sync.Mutex is not reentrant, and a second RLock of a sync.RWMutex blocks for good as soon as a
// writer is waiting in between: every worker that then needs the lock, and Stop, hang.
func genNoReentrantLocks(sb *strings.Builder) error {
	var offenders []string
	for _, pkg := range []string{"peering", "state", "router", "m", "storage", "switchr", "frame", "api/dns", "mgr"} {
		files, _ := filepath.Glob(repoRoot() + "/" + pkg + "/*.go")
		fset := token.NewFileSet()
		type meth struct {
			fn   *ast.FuncDecl
			recv string // receiver variable name
		}
		methods := map[string]*meth{} // "Type.Name"
		for _, file := range files {
			if strings.HasSuffix(file, "_test.go") {
				continue
			}
			src, err := os.ReadFile(file)
			if err != nil {
				return err
			}
			f, err := parser.ParseFile(fset, file, src, 0)
			if err != nil {
				return err
			}
			for _, d := range f.Decls {
				fd, ok := d.(*ast.FuncDecl)
				if !ok || fd.Recv == nil || fd.Body == nil || len(fd.Recv.List) == 0 || len(fd.Recv.List[0].Names) == 0 {
					continue
				}
				t := fd.Recv.List[0].Type
				if st, ok := t.(*ast.StarExpr); ok {
					t = st.X
				}
				id, ok := t.(*ast.Ident)
				if !ok {
					continue
				}
				methods[id.Name+"."+fd.Name.Name] = &meth{fn: fd, recv: fd.Recv.List[0].Names[0].Name}
			}
		}
		// lockCall: r.<field>.<Lock|RLock>() -> field
		lockField := func(e ast.Expr, recv string, names ...string) string {
			call, ok := e.(*ast.CallExpr)
			if !ok {
				return ""
			}
			sel, ok := call.Fun.(*ast.SelectorExpr)
			if !ok {
				return ""
			}
			match := false
			for _, n := range names {
				if sel.Sel.Name == n {
					match = true
				}
			}
			if !match {
				return ""
			}
			inner, ok := sel.X.(*ast.SelectorExpr)
			if !ok {
				return ""
			}
			if x, ok := inner.X.(*ast.Ident); !ok || x.Name != recv {
				return ""
			}
			return inner.Sel.Name
		}
		// direct acquisitions anywhere in the body, and calls on the receiver
		acquires := map[string]map[string]bool{}
		callsOn := map[string]map[string]bool{}
		for key, mt := range methods {
			acquires[key], callsOn[key] = map[string]bool{}, map[string]bool{}
			typ := key[:strings.Index(key, ".")]
			ast.Inspect(mt.fn.Body, func(n ast.Node) bool {
				if c, ok := n.(*ast.CallExpr); ok {
					if f := lockField(c, mt.recv, "Lock", "RLock"); f != "" {
						acquires[key][f] = true
					}
					if sel, ok := c.Fun.(*ast.SelectorExpr); ok {
						if x, ok := sel.X.(*ast.Ident); ok && x.Name == mt.recv {
							if _, isM := methods[typ+"."+sel.Sel.Name]; isM {
								callsOn[key][typ+"."+sel.Sel.Name] = true
							}
						}
					}
				}
				return true
			})
		}
		// transitive: a method "takes f" if it or a receiver method it calls acquires f
		for changed := true; changed; {
			changed = false
			for key := range methods {
				for callee := range callsOn[key] {
					for f := range acquires[callee] {
						if !acquires[key][f] {
							acquires[key][f] = true
							changed = true
						}
					}
				}
			}
		}
		// holders: top-level lock statement followed by the deferred unlock
		for key, mt := range methods {
			typ := key[:strings.Index(key, ".")]
			body := mt.fn.Body.List
			for i := 0; i+1 < len(body); i++ {
				es, ok := body[i].(*ast.ExprStmt)
				if !ok {
					continue
				}
				f := lockField(es.X, mt.recv, "Lock", "RLock")
				if f == "" {
					continue
				}
				ds, ok := body[i+1].(*ast.DeferStmt)
				if !ok || lockField(ds.Call, mt.recv, "Unlock", "RUnlock") != f {
					continue
				}
				for _, st := range body[i+2:] {
					ast.Inspect(st, func(n ast.Node) bool {
						if _, isLit := n.(*ast.FuncLit); isLit {
							return false // runs later (deferred / goroutine), not under this lock for sure
						}
						c, ok := n.(*ast.CallExpr)
						if !ok {
							return true
						}
						if g := lockField(c, mt.recv, "Lock", "RLock"); g == f {
							offenders = append(offenders, fmt.Sprintf("%s/%s takes %s twice", pkg, key, f))
						}
						if sel, ok := c.Fun.(*ast.SelectorExpr); ok {
							if x, ok := sel.X.(*ast.Ident); ok && x.Name == mt.recv {
								callee := typ + "." + sel.Sel.Name
								if acquires[callee][f] {
									offenders = append(offenders, fmt.Sprintf("%s/%s holds %s and calls %s", pkg, key, f, callee))
								}
							}
						}
						return true
					})
				}
			}
		}
	}
	sort.Strings(offenders)
	sb.WriteString("(* no method re-acquires a mutex of its receiver that it already holds (go/ast, whole packages) *)\n")
	for _, o := range offenders {
		fmt.Fprintf(sb, "(* offender: %s *)\n", o)
	}
	fmt.Fprintf(sb, "Definition no_reentrant_locks : bool := %v.\n\n", len(offenders) == 0)
	return nil
}

func init() {
	genSections = append(genSections, genLocksReleased)
}

// genLocksReleased: every mutex acquisition in the packages under test is released on every path,
// in one of the two shapes whose correctness is visible without a control-flow analysis: the
// lock statement is immediately followed by the matching deferred unlock, or the matching unlock
// follows in the same statement list with only plain assignments / expression statements in
// between (no branch, return, loop or block).  A path that returns with a lock held stalls every
// worker that needs the lock afterwards.
func genLocksReleased(sb *strings.Builder) error {
	var offenders []string
	total := 0
	// sel: expression X in X.Lock(); printed form identifies the mutex
	exprStr := func(e ast.Expr) string {
		var b strings.Builder
		var walk func(e ast.Expr)
		walk = func(e ast.Expr) {
			switch v := e.(type) {
			case *ast.Ident:
				b.WriteString(v.Name)
			case *ast.SelectorExpr:
				walk(v.X)
				b.WriteString("." + v.Sel.Name)
			default:
				b.WriteString("?")
			}
		}
		walk(e)
		return b.String()
	}
	lockOf := func(e ast.Expr, names ...string) (string, string) {
		call, ok := e.(*ast.CallExpr)
		if !ok || len(call.Args) != 0 {
			return "", ""
		}
		sel, ok := call.Fun.(*ast.SelectorExpr)
		if !ok {
			return "", ""
		}
		for _, n := range names {
			if sel.Sel.Name == n {
				return exprStr(sel.X), n
			}
		}
		return "", ""
	}
	for _, pkg := range []string{"peering", "state", "router", "m", "storage", "switchr", "frame", "api/dns", "mgr", "config", "tun"} {
		files, _ := filepath.Glob(repoRoot() + "/" + pkg + "/*.go")
		for _, file := range files {
			if strings.HasSuffix(file, "_test.go") || strings.HasSuffix(file, "verif_hooks.go") {
				continue
			}
			fset := token.NewFileSet()
			f, err := parser.ParseFile(fset, file, nil, 0)
			if err != nil {
				return err
			}
			checkList := func(list []ast.Stmt, where string) {
				for i, st := range list {
					es, ok := st.(*ast.ExprStmt)
					if !ok {
						continue
					}
					mu, kind := lockOf(es.X, "Lock", "RLock")
					if mu == "" {
						continue
					}
					total++
					unlock := map[string]string{"Lock": "Unlock", "RLock": "RUnlock"}[kind]
					if i+1 < len(list) {
						if ds, ok := list[i+1].(*ast.DeferStmt); ok {
							if m2, _ := lockOf(ds.Call, unlock); m2 == mu {
								continue
							}
						}
					}
					released := false
					for j := i + 1; j < len(list); j++ {
						if e2, ok := list[j].(*ast.ExprStmt); ok {
							if m2, _ := lockOf(e2.X, unlock); m2 == mu {
								released = true
								break
							}
						}
						switch list[j].(type) {
						case *ast.AssignStmt, *ast.IncDecStmt, *ast.ExprStmt:
							continue
						}
						break
					}
					if !released {
						offenders = append(offenders, fmt.Sprintf("%s %s: %s.%s()", strings.TrimPrefix(file, repoRoot()+"/"), where, mu, kind))
					}
				}
			}
			for _, d := range f.Decls {
				fd, ok := d.(*ast.FuncDecl)
				if !ok || fd.Body == nil {
					continue
				}
				ast.Inspect(fd.Body, func(n ast.Node) bool {
					switch v := n.(type) {
					case *ast.BlockStmt:
						checkList(v.List, fd.Name.Name)
					case *ast.CaseClause:
						checkList(v.Body, fd.Name.Name)
					case *ast.CommClause:
						checkList(v.Body, fd.Name.Name)
					}
					return true
				})
			}
		}
	}
	sort.Strings(offenders)
	sb.WriteString("(* every mutex acquisition is released by an adjacent deferred unlock or a straight-line unlock (go/ast, whole packages) *)\n")
	for _, o := range offenders {
		fmt.Fprintf(sb, "(* offender: %s *)\n", o)
	}
	fmt.Fprintf(sb, "Definition lock_acquisitions : nat := %d.\nDefinition locks_released : bool := %v.\n\n", total, len(offenders) == 0)
	return nil
}

func init() {
	genSections = append(genSections, genLockDiscipline)
}

// lockedWholeAny: the method's body starts with `x.<f>.Lock()` (or RLock) immediately followed by
// the matching deferred unlock: the whole operation is one critical section of mutex <f>.
func lockedWholeAny(fn *ast.FuncDecl) (string, bool) {
	if fn.Body == nil || len(fn.Body.List) < 2 {
		return "", false
	}
	field := func(e ast.Expr, names ...string) (string, string) {
		call, ok := e.(*ast.CallExpr)
		if !ok || len(call.Args) != 0 {
			return "", ""
		}
		sel, ok := call.Fun.(*ast.SelectorExpr)
		if !ok {
			return "", ""
		}
		for _, n := range names {
			if sel.Sel.Name == n {
				if inner, ok := sel.X.(*ast.SelectorExpr); ok {
					return inner.Sel.Name, n
				}
			}
		}
		return "", ""
	}
	s0, ok := fn.Body.List[0].(*ast.ExprStmt)
	if !ok {
		return "", false
	}
	f, kind := field(s0.X, "Lock", "RLock")
	if f == "" {
		return "", false
	}
	s1, ok := fn.Body.List[1].(*ast.DeferStmt)
	if !ok {
		return "", false
	}
	f2, _ := field(s1.Call, map[string]string{"Lock": "Unlock", "RLock": "RUnlock"}[kind])
	return f, f2 == f
}

// genLockDiscipline: the operations the models treat as atomic steps each run as one critical
// section of their object's mutex (lock first, unlock deferred).  The lists are the methods that
// have this shape on the tree the models were written against; a method that loses it (a narrowed
// or dropped lock) makes the group's definition false.  New methods do not matter.
func genLockDiscipline(sb *strings.Builder) error {
	groups := []struct {
		name, pkg string
		methods   []string
	}{
		{"peering", "peering", []string{"Peering.AddLink", "Peering.RemoveLink", "Peering.GetLink", "Peering.GetLinkByLabel", "Peering.GetLinkByRemoteHost", "Peering.GetLinks", "Peering.LinkCnt", "Peering.IsStub",
			"Peering.copyLinksWithLocking", "Peering.AddListener", "Peering.GetListener", "Peering.RemoveListener", "Peering.copyListenersWithLocking", "Peering.AddProtocol", "Peering.GetProtocol"}},
		{"state", "state", []string{"EncryptionSession.In", "EncryptionSession.Out", "EncryptionSession.InitKeyClientStart", "EncryptionSession.InitKeyServer", "EncryptionSession.InitKeyClientComplete",
			"EncryptionSession.DeriveSessionFromKX", "EncryptionSession.InitCleanup", "EncryptionSession.IsSetUp", "SequenceHandler.Check", "SequenceHandler.Ack", "SequenceHandler.Reset", "SequenceHandler.ResetIn", "SequenceHandler.RolloverRequired",
			"TimeSequenceHandler.Check", "TimeSequenceHandler.Next", "Session.Signing", "Session.Encryption", "Session.SetEncryptionSession", "Session.inUse", "Session.killable", "State.GetSession", "State.cleanSessions"}},
		{"router", "router", []string{"HelloPingHandler.Send", "HelloPingHandler.getActive", "HelloPingHandler.setActive", "HelloPingHandler.Clean", "PingPongHandler.getActive", "PingPongHandler.setActive",
			"PingPongHandler.pluckActive", "PingPongHandler.Clean", "ErrorPingHandler.getOrCreateState", "ErrorPingHandler.Clean", "Router.getConnState", "Router.setConnState", "Router.markConnectionDst", "Router.markRouter",
			"Router.GetPingHandler", "Router.RegisterPingHandler"}},
		{"table", "m", []string{"RoutingTable.Clean", "RoutingTable.RemoveNextHop", "RoutingTable.RemoveDisconnected", "RoutingTable.LookupNearest", "RoutingTable.LookupNearestRoute", "RoutingTable.LookupPossiblePaths"}},
		{"storage", "storage", []string{"MemStorage.GetRouter", "MemStorage.SaveRouter", "MemStorage.DeleteRouter", "MemStorage.QueryRouters", "MemStorage.Prune", "MemStorage.GetMapping", "MemStorage.SaveMapping",
			"MemStorage.DeleteMapping", "MemStorage.QueryMappings"}},
		{"mgr", "mgr", []string{"Group.IsDone", "Group.initGroupContext", "Group.stopGroupContext", "Task.Go", "Task.Delay", "Task.Repeat"}},
	}
	sb.WriteString("(* lock discipline: the listed operations are one critical section each (go/ast) *)\n")
	for _, g := range groups {
		files, _ := filepath.Glob(repoRoot() + "/" + g.pkg + "/*.go")
		have := map[string]bool{}
		for _, file := range files {
			if strings.HasSuffix(file, "_test.go") || strings.HasSuffix(file, "verif_hooks.go") {
				continue
			}
			fset := token.NewFileSet()
			f, err := parser.ParseFile(fset, file, nil, 0)
			if err != nil {
				return err
			}
			for _, d := range f.Decls {
				fd, ok := d.(*ast.FuncDecl)
				if !ok || fd.Recv == nil || len(fd.Recv.List) == 0 {
					continue
				}
				t := fd.Recv.List[0].Type
				if st, ok := t.(*ast.StarExpr); ok {
					t = st.X
				}
				id, ok := t.(*ast.Ident)
				if !ok {
					continue
				}
				if _, ok := lockedWholeAny(fd); ok {
					have[id.Name+"."+fd.Name.Name] = true
				}
			}
		}
		var missing []string
		for _, mth := range g.methods {
			if !have[mth] {
				missing = append(missing, mth)
			}
		}
		for _, mth := range missing {
			fmt.Fprintf(sb, "(* no longer one critical section: %s/%s *)\n", g.pkg, mth)
		}
		fmt.Fprintf(sb, "Definition lock_discipline_%s : bool := %v.  (* %d operations *)\n", g.name, len(missing) == 0, len(g.methods))
	}
	sb.WriteString("\n")
	return nil
}
