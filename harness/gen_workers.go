package main

import (
	"fmt"
	"go/ast"
	"go/parser"
	"go/token"
	"os"
	"strings"
)

func init() {
	genSections = append(genSections, genWorkerAccounting)
}

// genWorkerAccounting: every place in package mgr that starts a goroutine for a worker counts the
// worker (workerStart) BEFORE the go statement, in the same function, and the function that runs in
// the new goroutine does not count it again; functions that run a worker on the caller's goroutine
// (Do) count it themselves.  This is what makes "count = 0" mean "no started worker is unfinished"
// (coq/Workers.v; defect D24 was the other order).
func genWorkerAccounting(sb *strings.Builder) error {
	file := repoRoot() + "/mgr/worker.go"
	src, err := os.ReadFile(file)
	if err != nil {
		return err
	}
	fset := token.NewFileSet()
	f, err := parser.ParseFile(fset, file, src, 0)
	if err != nil {
		return err
	}
	funcs := map[string]*ast.FuncDecl{}
	for _, d := range f.Decls {
		if fd, ok := d.(*ast.FuncDecl); ok && fd.Body != nil {
			funcs[fd.Name.Name] = fd
		}
	}
	isCall := func(s ast.Stmt, name string) bool {
		es, ok := s.(*ast.ExprStmt)
		if !ok {
			return false
		}
		c, ok := es.X.(*ast.CallExpr)
		if !ok {
			return false
		}
		sel, ok := c.Fun.(*ast.SelectorExpr)
		return ok && sel.Sel.Name == name
	}
	ok := true
	var notes []string
	spawns := 0
	for name, fd := range funcs {
		counted := false
		for _, s := range fd.Body.List {
			if isCall(s, "workerStart") {
				counted = true
			}
			gs, isGo := s.(*ast.GoStmt)
			if !isGo {
				continue
			}
			spawns++
			target := ""
			if sel, isSel := gs.Call.Fun.(*ast.SelectorExpr); isSel {
				target = sel.Sel.Name
			}
			if !counted {
				ok = false
				notes = append(notes, fmt.Sprintf("%s starts a goroutine before workerStart", name))
			}
			if t, known := funcs[target]; known {
				for _, ts := range t.Body.List {
					if isCall(ts, "workerStart") {
						ok = false
						notes = append(notes, fmt.Sprintf("%s (run in the new goroutine) counts the worker itself", target))
					}
				}
			} else {
				ok = false
				notes = append(notes, fmt.Sprintf("%s starts a goroutine on something that is not a function of this file", name))
			}
		}
	}
	if spawns == 0 {
		ok = false
		notes = append(notes, "no go statement found in mgr/worker.go")
	}
	fmt.Fprintf(sb, "(* mgr/worker.go: every go statement is preceded, in its function, by workerStart, and the function it runs does not call workerStart (%d go statement(s))%s *)\n", spawns, map[bool]string{true: "", false: "; NOT so: " + strings.Join(notes, "; ")}[ok])
	fmt.Fprintf(sb, "Definition worker_counted_before_spawn : bool := %v.\n\n", ok)
	return nil
}
