package main

import (
	"fmt"
	"go/ast"
	"go/parser"
	"go/token"
	"os"
	"strings"
)

func init() {
	genSections = append(genSections, genStateAtomicity)
}

// repoRoot is the source tree the generator reads: /repo, unless VERIF_REPO names a scratch
// worktree (used only by the parallel sweep over the seeded changes, lib/sweep_par.sh).
func repoRoot() string {
	if v := os.Getenv("VERIF_REPO"); v != "" {
		return v
	}
	return "/repo"
}

// lockedWhole reports whether the method's body starts with `recv.lock.Lock()` followed by
// `defer recv.lock.Unlock()`, i.e. the whole operation runs under the receiver's mutex.
var lockFieldName = "lock"

func lockedWhole(fn *ast.FuncDecl) bool {
	if fn.Body == nil || len(fn.Body.List) < 2 {
		return false
	}
	isLockCall := func(e ast.Expr, name string) bool {
		call, ok := e.(*ast.CallExpr)
		if !ok {
			return false
		}
		sel, ok := call.Fun.(*ast.SelectorExpr)
		if !ok || sel.Sel.Name != name {
			return false
		}
		inner, ok := sel.X.(*ast.SelectorExpr)
		return ok && (inner.Sel.Name == "lock" || inner.Sel.Name == lockFieldName)
	}
	s0, ok := fn.Body.List[0].(*ast.ExprStmt)
	if !ok || !isLockCall(s0.X, "Lock") {
		return false
	}
	s1, ok := fn.Body.List[1].(*ast.DeferStmt)
	return ok && isLockCall(s1.Call, "Unlock")
}

// genStateAtomicity checks, on the source under test, the atomicity assumption the session
// model makes (DESIGN §3 "Concurrency"): Out, In and the handshake setters of
// EncryptionSession hold the session lock for their whole body, and NextOut is called from
// Out only.
func genStateAtomicity(sb *strings.Builder) error {
	fset := token.NewFileSet()
	f, err := parser.ParseFile(fset, repoRoot()+"/state/session_encryption.go", nil, 0)
	if err != nil {
		return err
	}
	locked := map[string]bool{}
	nextOutCallers := map[string]bool{}
	for _, d := range f.Decls {
		fn, ok := d.(*ast.FuncDecl)
		if !ok || fn.Recv == nil {
			continue
		}
		recv := ""
		if st, ok := fn.Recv.List[0].Type.(*ast.StarExpr); ok {
			if id, ok := st.X.(*ast.Ident); ok {
				recv = id.Name
			}
		}
		if recv == "EncryptionSession" {
			locked[fn.Name.Name] = lockedWhole(fn)
		}
		name := recv + "." + fn.Name.Name
		ast.Inspect(fn, func(n ast.Node) bool {
			if call, ok := n.(*ast.CallExpr); ok {
				if sel, ok := call.Fun.(*ast.SelectorExpr); ok && sel.Sel.Name == "NextOut" {
					nextOutCallers[name] = true
				}
			}
			return true
		})
	}
	callersOK := len(nextOutCallers) == 1 && nextOutCallers["EncryptionSession.Out"]
	sb.WriteString("(* atomicity of EncryptionSession operations, checked on the source with go/ast:\n   the body starts with lock.Lock(); defer lock.Unlock(), and NextOut is called from Out only *)\n")
	fmt.Fprintf(sb, "Definition session_out_locked : bool := %v.\n", locked["Out"])
	fmt.Fprintf(sb, "Definition session_in_locked : bool := %v.\n", locked["In"])
	fmt.Fprintf(sb, "Definition session_nextout_only_from_out : bool := %v.\n\n", callersOK)
	return nil
}
