package main

import (
	"context"
	"fmt"
	"github.com/fxamacker/cbor/v2"
	"github.com/mycoria/mycoria/peering"
	"net/netip"
	"strings"
	"time"

	"github.com/mycoria/mycoria/frame"
	"github.com/mycoria/mycoria/m"
)

func init() { register("C10", runC10) }

// restIDs interns the hashes of "every other byte" as small numbers for the model.
type restIDs struct {
	ids map[string]int
}

func (r *restIDs) id(h string) int {
	if r.ids == nil {
		r.ids = map[string]int{}
	}
	if v, ok := r.ids[h]; ok {
		return v
	}
	r.ids[h] = len(r.ids) + 1
	return r.ids[h]
}

func ffTerm(fi frameInfo, rid *restIDs) string {
	src, dst := "0", "0"
	if fi.src.IsValid() {
		src = ipN(fi.src)
	}
	if fi.dst.IsValid() {
		dst = ipN(fi.dst)
	}
	return fmt.Sprintf("(mkFF %d %d %d %s %s %s %d)", fi.ttl, fi.flow, fi.ty, src, dst, coqListN(fi.sb), rid.id(fi.restID))
}

func nodeTerm(n *rnode) string {
	lt, _ := linksOf(n)
	return fmt.Sprintf("(mkNode %s %s %s)", ipN(n.id.IP), lt, coqEntries(n.ro.Table().VerifEntries()))
}

// trackFrame follows one frame (identified by its invariant bytes) through the mesh: delivers
// the in-flight copies one at a time, emits a model case per delivery, checks the per-hop
// rules, and returns the number of links crossed and the router whose handlers got it.
type trackResult struct {
	crossings int
	handledBy []*rnode
	replies   []*inflight // frames other routers originated while this one travelled
}

func (ms *mesh) trackFrame(rid *restIDs, restID string, emit bool, label string, maxSteps int) (tr trackResult) {
	c := ms.c
	for steps := 0; steps < maxSteps; steps++ {
		// find the in-flight copy of the tracked frame
		idx := -1
		for i, q := range ms.w.queue {
			if parseFrameInfo(q.data).restID == restID {
				idx = i
				break
			}
		}
		if idx < 0 {
			return
		}
		msg := ms.w.queue[idx]
		from, to := msg.link.from, msg.link.to
		fi := parseFrameInfo(msg.data)
		recv := to.links[from.id.IP]
		nodeT := ""
		if emit {
			nodeT = nodeTerm(to)
		}
		tr.crossings++
		_, res, out := ms.deliverOne(idx)
		c.Eval()
		if res.panicked() {
			c.Violate("a forwarded frame crashed a router worker", "forward-panic", map[string]any{"mesh": label})
		}
		kind, peer, outT := 0, "0", ffTerm(fi, rid)
		sent := 0
		for _, q := range out {
			fo := parseFrameInfo(q.data)
			if fo.restID != restID {
				if fo.ok && fo.src == fi.src && fo.dst == fi.dst && fo.ty == fi.ty {
					c.Violate("forwarding changed a byte outside TTL, flow flags and switch block", "content-changed",
						map[string]any{"mesh": label, "at": to.name, "in_hex": fmt.Sprintf("%x", msg.data), "out_hex": fmt.Sprintf("%x", q.data), "recv_label": int(recv.label)})
				}
				tr.replies = append(tr.replies, q)
				continue
			}
			sent++
			kind, peer, outT = 2, ipN(q.link.to.id.IP), ffTerm(fo, rid)
			// ----- per-hop rules (independent of the model) -----
			if fo.ttl != fi.ttl-1 || fo.ttl < 1 {
				c.Violate(fmt.Sprintf("a frame was forwarded with TTL %d -> %d", fi.ttl, fo.ttl), "ttl-rule", map[string]any{"mesh": label, "ttl_in": fi.ttl, "ttl_out": fo.ttl})
			}
			if len(fo.sb) != len(fi.sb) {
				c.Violate("forwarding changed the switch block length", "sb-length", map[string]any{"mesh": label})
			}
			if len(fi.sb) == 0 && len(fo.sb) != 0 {
				c.Violate("forwarding gave a frame a switch block", "sb-appeared", map[string]any{"mesh": label})
			}
			if fo.flow&fi.flow != fi.flow {
				c.Violate("forwarding cleared a flow-control flag", "flow-cleared", map[string]any{"mesh": label})
			}
		}
		if sent > 1 {
			c.Violate("a unicast frame was forwarded to more than one link", "duplicated", map[string]any{"mesh": label, "copies": sent})
		}
		if sent == 0 && len(res.routerErrs) > 0 && (fi.dst == to.id.IP || fi.isAnn) {
			kind = 1
			tr.handledBy = append(tr.handledBy, to)
		}
		if res.panicked() {
			kind = 3
		}
		if emit {
			c.Case(fmt.Sprintf("(%s,false,Some %s,%d,%s,(%d,%s,%s))", nodeT, lnkTerm(recv), int(recv.FlowControlIndicator()), ffTerm(fi, rid), kind, peer, outT),
				map[string]any{"mesh": label, "at": to.name, "ttl": fi.ttl, "kind": kind, "sb": len(fi.sb)})
		}
	}
	return
}

// farPair returns two routers at least d links apart (the farthest pair found), or -1, -1.
func (ms *mesh) farPair(d int) (int, int) {
	n := len(ms.nodes)
	adj := make([][]int, n)
	for _, e := range ms.edges {
		adj[e[0]] = append(adj[e[0]], e[1])
		adj[e[1]] = append(adj[e[1]], e[0])
	}
	bp, bq, best := -1, -1, d-1
	for _, s := range ms.c.Rng.Perm(n) {
		dist := make([]int, n)
		for i := range dist {
			dist[i] = -1
		}
		dist[s] = 0
		q := []int{s}
		for len(q) > 0 {
			v := q[0]
			q = q[1:]
			for _, u := range adj[v] {
				if dist[u] < 0 {
					dist[u] = dist[v] + 1
					q = append(q, u)
				}
			}
		}
		for t, dt := range dist {
			if dt > best {
				bp, bq, best = s, t, dt
			}
		}
	}
	return bp, bq
}

func runC10(c *Ctx) error {
	c.Res.Rule = "(a) converged real meshes (as C09): for ordered router pairs A,B a pong request is sent by A's real ping handler, followed hop by hop (each delivery replayed through the model's switch_handle with the router's current links and table) to B, B's reply followed back to A; " +
		"(b) adversarial worlds of 3..5 fully linked routers with crafted cyclic / inconsistent routing tables and crafted frames: TTL 0,1,2,3,17,32,255; no switch block / label cycles / too-small / garbage switch blocks; unicast, traffic and hop-ping types; routable, unroutable, own and unknown destinations; " +
		"per hop: TTL decreases by exactly one and stays >= 1, bytes outside TTL/flow/switch block unchanged (hash), switch block length unchanged, at most one copy; per frame: links crossed <= TTL-1; non-trivial/distinct = distinct (scenario kind, TTL, switch-block shape, outcome)"
	c.CoqSetup("Prelude SeqCorr SwitchLabel Table TableCorr Control Forward ForwardCorr", "c10_case", "c10_ok")
	rid := &restIDs{}
	var ids []*m.Address
	for i := 0; i < 12; i++ {
		a, err := newIdentity()
		if err != nil {
			return err
		}
		ids = append(ids, a)
	}

	// identities from the special ranges (a reserved one, a roaming one, an experiment one): honest
	// routers of every mesh below, as origins, relays and destinations
	var specials []*m.Address
	for _, want := range []m.AddressType{m.TypeReserved, m.TypeRoaming, m.TypeExperiment} {
		for tries := 0; tries < 4000; tries++ {
			a, _, err := m.GenerateRoutableAddress(context.Background(), []netip.Prefix{m.SpecialPrefix}, nil, 0)
			if err != nil || a == nil {
				break
			}
			if m.GetAddressType(a.IP) == want {
				specials = append(specials, a)
				c.Count("identity:" + want.String())
				break
			}
		}
	}

	// three routers whose addresses nest: A geo-marked with a country prefix narrower than its region,
	// B in A's country, C in A's region outside A's country at a higher address than B.  A's table
	// then holds routes with different routing prefixes side by side.
	var nested []*m.Address
	for tries := 0; tries < 200 && nested == nil; tries++ {
		A, err := newGeoIdentity()
		if err != nil {
			break
		}
		mk, err := m.LookupCountryMarker(A.IP)
		if err != nil || mk.Prefix.Bits() < 17 || mk.Prefix.Bits() > 18 {
			continue
		}
		region, err := A.IP.Prefix(m.RegionPrefixBits)
		if err != nil || m.RegionPrefixBits != 16 {
			continue
		}
		// the country lies in the lower half of its region; C comes from the upper half: outside the
		// country and above every address in it
		cb := mk.Prefix.Addr().As16()
		if cb[2]&0x80 != 0 {
			continue
		}
		ub := region.Addr().As16()
		ub[2] |= 0x80
		upper := netip.PrefixFrom(netip.AddrFrom16(ub), 17)
		ctx, cancel := context.WithTimeout(context.Background(), 90*time.Second)
		B, _, errB := m.GenerateRoutableAddress(ctx, []netip.Prefix{mk.Prefix}, nil, 0)
		var C *m.Address
		if errB == nil && B != nil {
			if x, _, err := m.GenerateRoutableAddress(ctx, []netip.Prefix{upper}, nil, 0); err == nil && x != nil && x.IP.Compare(B.IP) > 0 && !mk.Prefix.Contains(x.IP) {
				C = x
			}
		}
		cancel()
		if B != nil && C != nil {
			nested = []*m.Address{A, B, C}
			c.Count("identity:nested-routing-prefixes")
		}
		break
	}
	if nested == nil {
		c.Count("identity:nested-routing-prefixes-unavailable")
		c.Note("no router triple with nested routing prefixes could be generated in time: that mesh runs with ordinary identities")
	}

	// ---------- (a) converged meshes ----------
	type spec struct {
		kind string
		n    int
	}
	specs := []spec{{"line", 3}, {"line", 7}, {"ring", 6}, {"tree", 7}, {"grid", 9}, {"random", 8}}
	if c.Thorough() {
		specs = append(specs, spec{"line", 12}, spec{"random", 12}, spec{"ring", 11}, spec{"star", 9}, spec{"grid", 12})
	}
	for si, sp := range specs {
		perm := c.Rng.Perm(len(ids))
		mids := make([]*m.Address, sp.n)
		for i := range mids {
			mids[i] = ids[perm[i]]
		}
		var specialPos []int
		for i, sa := range specials {
			if pos := (si + 2*i) % sp.n; sp.n > len(specials) {
				mids[pos] = sa
				specialPos = append(specialPos, pos)
			}
		}
		if si == 2 && nested != nil && sp.n >= 6 {
			// the nested triple takes the places the special-range routers left free
			free := []int{}
			for pos := 0; pos < sp.n; pos++ {
				taken := false
				for _, q := range specialPos {
					taken = taken || q == pos
				}
				if !taken {
					free = append(free, pos)
				}
			}
			for i, a := range nested {
				mids[free[i]] = a
			}
			specialPos = append(specialPos, free[1], free[2]) // B and C are destinations of the first requests too
		}
		labelMode := c.Rng.IntN(3)
		ms, err := newMesh(c, sp.kind, sp.n, labelMode, nil, mids)
		if err != nil {
			return err
		}
		label := fmt.Sprintf("%s-%d/labels=%d", sp.kind, sp.n, labelMode)
		ms.announceAll(c.Rng.Perm(sp.n))
		ms.floodAndCheck(func(n int) int { return c.Rng.IntN(n) }, 0, label)
		if _, bad := ms.checkReach(label); bad > 0 {
			continue // C09's business; no converged mesh to test on
		}
		// somebody opens the dashboard on every router: the routing table is printed; the mesh is as
		// converged afterwards as it was before
		dumpChanged := false
		for _, nd := range ms.nodes {
			before := coqEntries(nd.ro.Table().VerifEntries())
			_ = nd.ro.Table().Format()
			if coqEntries(nd.ro.Table().VerifEntries()) != before {
				c.Violate("printing a router's routing table changed the table the router routes by (content or order of the routes)", "table-dump-changes-routes", map[string]any{"mesh": label, "router": nd.name})
				dumpChanged = true
			}
		}
		if _, bad := ms.checkReach(label + "/after-table-dump"); bad > 0 || dumpChanged {
			continue
		}
		pairs := c.Pick(6, 30)
		for k := 0; k < pairs; k++ {
			ai, bi := c.Rng.IntN(sp.n), c.Rng.IntN(sp.n)
			if k < len(specialPos) {
				bi = specialPos[k] // a router from a special range as destination ...
			} else if k < 2*len(specialPos) {
				ai = specialPos[k-len(specialPos)] // ... and as origin
			}
			if ai == bi {
				continue
			}
			A, B := ms.nodes[ai], ms.nodes[bi]
			// now and then routers refuse to build a frame of their own first (a local packet too big for
			// any frame, an empty message, an appendix beyond the limit): an ordinary event in an honest
			// mesh that must not touch the frames they relay or receive afterwards
			if k%3 == 1 {
				for _, nd := range ms.nodes {
					if c.Rng.IntN(3) == 0 {
						continue
					}
					other := ms.nodes[c.Rng.IntN(sp.n)].id.IP
					var msg, apx []byte
					switch c.Rng.IntN(3) {
					case 0:
						msg = randBytes(c, 10001+c.Rng.IntN(50000))
					case 1:
						msg = nil
					default:
						msg, apx = randBytes(c, 30), randBytes(c, 10001+c.Rng.IntN(500))
					}
					var ferr error
					var ff frame.Frame
					if pan, _ := recoverPanic(func() { ff, ferr = nd.builder.NewFrameV1(nd.id.IP, other, frame.NetworkTraffic, nil, msg, apx) }); pan {
						c.Violate("building an oversized frame crashed", "failed-build-crash", map[string]any{"mesh": label, "msg": len(msg), "apx": len(apx)})
					} else if ferr == nil && ff != nil {
						ff.ReturnToPool()
					}
					c.Count("refused-own-build")
				}
			}
			ms.w.queue = nil
			notify, _, err := A.ro.PingPong.Send(B.id.IP, false, 0)
			c.Eval()
			if err != nil || len(ms.w.queue) != 1 {
				c.Violate("a router with a route to the destination could not send a routed request", "cannot-send", map[string]any{"mesh": label, "err": fmt.Sprint(err), "queued": len(ms.w.queue)})
				continue
			}
			first := ms.w.queue[0]
			fi := parseFrameInfo(first.data)
			// the origin's own routing step: the frame as built (default TTL, no flags) -> first link
			pre := fi
			pre.ttl, pre.flow = 32, 0
			c.Case(fmt.Sprintf("(%s,true,None,0,%s,(2,%s,%s))", nodeTerm(A), ffTerm(pre, rid), ipN(first.link.to.id.IP), ffTerm(fi, rid)),
				map[string]any{"mesh": label, "at": A.name, "origin": true})
			tr := ms.trackFrame(rid, fi.restID, true, label, 64)
			reqCross := tr.crossings
			okHandled := len(tr.handledBy) == 1 && tr.handledBy[0] == B
			if !okHandled {
				c.Violate("a routed request was not handed to exactly the destination's handlers", "misdelivered", map[string]any{"mesh": label, "from": A.name, "to": B.name, "handled_by": len(tr.handledBy), "crossings": reqCross})
				continue
			}
			if reqCross > 31 {
				c.Violate("a routed request crossed more than 31 links", "too-many-links", map[string]any{"mesh": label, "crossings": reqCross})
			}
			// B's reply
			var reply *inflight
			for _, q := range tr.replies {
				fo := parseFrameInfo(q.data)
				if fo.src == B.id.IP && fo.dst == A.id.IP {
					reply = q
				} else {
					c.Violate("a router other than the destination answered a routed request", "foreign-reply", map[string]any{"mesh": label, "src": fo.src.String()})
				}
			}
			if reply == nil {
				c.Violate("the destination did not answer the routed request", "no-reply", map[string]any{"mesh": label, "from": A.name, "to": B.name})
				continue
			}
			rfi := parseFrameInfo(reply.data)
			tr2 := ms.trackFrame(rid, rfi.restID, k%2 == 0, label, 64)
			got := false
			select {
			case <-notify:
				got = true
			case <-time.After(200 * time.Millisecond):
			}
			if !got || len(tr2.handledBy) != 1 || tr2.handledBy[0] != A {
				c.Violate("the destination's reply did not reach the requesting router", "reply-lost", map[string]any{"mesh": label, "from": A.name, "to": B.name, "handled_by": len(tr2.handledBy)})
			}
			c.Count("pair-delivered")
			c.CountN("request-links", reqCross)
			c.NonTrivial(fmt.Sprintf("mesh/%s/%d/links=%d", sp.kind, sp.n, reqCross))
		}
		// ---------- a link is added, everyone announces again, the same requests are sent again ----------
		// Every router first sends a request to each of two routers P and Q that are at least three links
		// apart; then P and Q get a direct link (as after a completed handshake), every router announces
		// itself again and the flood drains: the mesh is converged and honest again (C09's notion), now
		// with shorter routes through the new link.  Every router's next requests, to the same
		// destinations, must be delivered and answered as before.
		if pi, qi := ms.farPair(3); pi >= 0 {
			P, Q := ms.nodes[pi], ms.nodes[qi]
			simple := func(A, B *rnode, phase string) bool {
				ms.w.queue = nil
				notify, _, err := A.ro.PingPong.Send(B.id.IP, false, 0)
				c.Eval()
				if err != nil || len(ms.w.queue) != 1 {
					c.Violate("a router with a route to the destination could not send a routed request ("+phase+")", "cannot-send-"+phase, map[string]any{"mesh": label, "err": fmt.Sprint(err), "queued": len(ms.w.queue)})
					return false
				}
				fi := parseFrameInfo(ms.w.queue[0].data)
				firstTo := ms.w.queue[0].link.to
				tr := ms.trackFrame(rid, fi.restID, phase == "after-new-link", label, 64)
				if len(tr.handledBy) != 1 || tr.handledBy[0] != B {
					c.Violate("a routed request was not handed to exactly the destination's handlers ("+phase+")", "misdelivered-"+phase,
						map[string]any{"mesh": label, "from": A.name, "to": B.name, "first_hop": firstTo.name, "handled_by": len(tr.handledBy), "crossings": tr.crossings, "new_link": P.name + "-" + Q.name})
					return false
				}
				var reply *inflight
				for _, q := range tr.replies {
					if fo := parseFrameInfo(q.data); fo.src == B.id.IP && fo.dst == A.id.IP {
						reply = q
					}
				}
				if reply == nil {
					c.Violate("the destination did not answer the routed request ("+phase+")", "no-reply-"+phase, map[string]any{"mesh": label, "from": A.name, "to": B.name})
					return false
				}
				tr2 := ms.trackFrame(rid, parseFrameInfo(reply.data).restID, false, label, 64)
				got := false
				select {
				case <-notify:
					got = true
				case <-time.After(200 * time.Millisecond):
				}
				if !got || len(tr2.handledBy) != 1 || tr2.handledBy[0] != A {
					c.Violate("the destination's reply did not reach the requesting router ("+phase+")", "reply-lost-"+phase,
						map[string]any{"mesh": label, "from": A.name, "to": B.name, "handled_by": len(tr2.handledBy), "new_link": P.name + "-" + Q.name})
					return false
				}
				return true
			}
			both := func(phase string) bool {
				ok := true
				for _, A := range ms.nodes {
					// the last request of every router is the one to Q (to P for Q itself)
					for _, B := range []*rnode{P, Q} {
						if A != B {
							ok = simple(A, B, phase) && ok
						}
					}
				}
				return ok
			}
			if both("before-new-link") {
				var lp, lq m.SwitchLabel
				for lp = 2; P.pe.GetLinkByLabel(lp) != nil; lp++ {
				}
				for lq = 2; Q.pe.GetLinkByLabel(lq) != nil; lq++ {
				}
				if _, _, err := ms.w.connect(P, Q, lp, lq); err != nil {
					return err
				}
				ms.edges = append(ms.edges, [2]int{pi, qi})
				ms.w.queue = nil
				time.Sleep(3 * time.Millisecond) // signing times have millisecond precision
				ms.announceAll(c.Rng.Perm(sp.n))
				ms.floodAndCheck(func(n int) int { return c.Rng.IntN(n) }, 0, label+"/new-link")
				c.Count("event:link-added-and-reconverged")
				if _, bad := ms.checkReach(label + "/new-link"); bad == 0 {
					if both("after-new-link") {
						c.Count("all-delivered-after-new-link")
					}
					c.NonTrivial(fmt.Sprintf("new-link/%s/%d", sp.kind, sp.n))
				}
			}
		}

		// requests whose size makes frame + link margins meet a pooled-buffer tier exactly (and one byte
		// less / more): they are built, forwarded and delivered like any other
		if si%2 == 0 || c.Thorough() {
			for _, tier := range []int{600, 1600, 5100, 9600} {
				if tier > 1600 && !c.Thorough() && si%4 != 0 {
					continue
				}
				for _, delta := range []int{-1, 0, 1} {
					ai, bi := c.Rng.IntN(sp.n), c.Rng.IntN(sp.n)
					if ai == bi {
						continue
					}
					A, B := ms.nodes[ai], ms.nodes[bi]
					total := tier + delta
					// calibrate the padding so that offset + frame + overhead = total
					var msg []byte
					for pad := total; pad >= 0; pad-- {
						body, _ := cbor.Marshal(map[string]string{"msg": strings.Repeat("x", pad)})
						d, err := craftPing(pingSpec{from: A.id, dst: B.id.IP, msgType: frame.RouterPing, pingType: "pong", body: body, seqTime: nextCraftTime(), pingID: 31337})
						if err != nil {
							if strings.Contains(err.Error(), "just built") {
								c.Violate(fmt.Sprintf("a frame that was built cannot be handed out although it fits its buffer (%v)", err), "sized-build", map[string]any{"mesh": label, "total": total})
								break
							}
							continue
						}
						if peering.FrameOffset+len(d)+peering.FrameOverhead == total {
							msg = c08Body2(d)
							break
						}
						if peering.FrameOffset+len(d)+peering.FrameOverhead < total-4 {
							break
						}
					}
					if msg == nil {
						continue
					}
					f, err := A.builder.NewFrameV1(A.id.IP, B.id.IP, frame.RouterPing, nil, msg, nil)
					if err != nil {
						c.Violate(fmt.Sprintf("a request of %d bytes (with link margins) cannot be built: %v", total, err), "sized-build", map[string]any{"mesh": label, "total": total})
						continue
					}
					f.SetTTL(0)
					f.SetSequenceTime(nextCraftTime())
					_ = f.SignRaw(A.id.PrivateKey)
					f.SetTTL(32)
					ms.w.queue = nil
					rerr := A.ro.RouteFrame(f)
					c.Eval()
					if rerr != nil || len(ms.w.queue) != 1 {
						c.Violate(fmt.Sprintf("a routed request of %d bytes (with link margins) did not leave its origin (err %v, %d frames on links)", total, rerr, len(ms.w.queue)), "sized-lost-at-origin", map[string]any{"mesh": label, "total": total, "from": A.name, "to": B.name})
						continue
					}
					fi := parseFrameInfo(ms.w.queue[0].data)
					tr := ms.trackFrame(rid, fi.restID, false, label, 64)
					if len(tr.handledBy) != 1 || tr.handledBy[0] != B {
						c.Violate(fmt.Sprintf("a routed request of %d bytes (with link margins) was not handed to exactly the destination's handlers", total), "sized-misdelivered", map[string]any{"mesh": label, "total": total, "from": A.name, "to": B.name, "handled_by": len(tr.handledBy), "crossings": tr.crossings})
					}
					c.Count(fmt.Sprintf("sized-request:%d", tier))
					c.NonTrivial(fmt.Sprintf("sized/%d%+d", tier, delta))
				}
			}
		}
		ms.w.queue = nil
	}

	// ---------- (b) adversarial tables and frames ----------
	nWorlds := c.Pick(6, 40)
	for wi := 0; wi < nWorlds; wi++ {
		k := 3 + c.Rng.IntN(3)
		ms, err := newMesh(c, "full", k, c.Rng.IntN(3), nil, ids[:k])
		if err != nil {
			return err
		}
		label := fmt.Sprintf("adversarial-%d/%d", k, wi)
		// cyclic routes for a destination nobody is: router i -> router (i+step)%k
		ghost := ids[k+c.Rng.IntN(len(ids)-k)].IP
		step := 1 + c.Rng.IntN(k-1)
		for i, n := range ms.nodes {
			nh := ms.nodes[(i+step)%k]
			l := n.links[nh.id.IP]
			hops := []m.SwitchHop{{Router: n.id.IP, Delay: 5, ForwardLabel: l.label}, {Router: nh.id.IP, Delay: 5, ForwardLabel: 3, ReturnLabel: 4}, {Router: ghost, ReturnLabel: 9}}
			_, _ = n.ro.Table().AddRoute(m.RoutingTableEntry{DstIP: ghost, NextHop: nh.id.IP, Path: m.SwitchPath{Hops: hops}, Source: m.RouteSourceGossip, Expires: time.Now().Add(time.Hour)})
			// an inconsistent second opinion via another neighbour, worse
			nh2 := ms.nodes[(i+k-1)%k]
			if nh2 != nh {
				l2 := n.links[nh2.id.IP]
				hops2 := []m.SwitchHop{{Router: n.id.IP, Delay: 9, ForwardLabel: l2.label}, {Router: nh2.id.IP, Delay: 9, ForwardLabel: 3, ReturnLabel: 4}, {Router: ids[(k+1)%len(ids)].IP, Delay: 3, ForwardLabel: 5, ReturnLabel: 6}, {Router: ghost, ReturnLabel: 9}}
				_, _ = n.ro.Table().AddRoute(m.RoutingTableEntry{DstIP: ghost, NextHop: nh2.id.IP, Path: m.SwitchPath{Hops: hops2}, Source: m.RouteSourceGossip, Expires: time.Now().Add(time.Hour)})
			}
		}
		nFrames := c.Pick(14, 40)
		for fiN := 0; fiN < nFrames; fiN++ {
			entry := ms.nodes[c.Rng.IntN(k)]
			var fromN *rnode
			for _, l := range entry.links {
				fromN = l.to
				break
			}
			ttl := []int{0, 1, 2, 3, 5, 17, 32, 255}[c.Rng.IntN(8)]
			ty := []frame.MessageType{frame.RouterPing, frame.NetworkTraffic, frame.RouterCtrl, frame.RouterHopPing, frame.MessageType(9)}[c.Rng.IntN(5)]
			dstKind := c.Rng.IntN(8)
			dst := ghost
			switch dstKind {
			case 0:
				dst = entry.id.IP
			case 1:
				dst = netip.MustParseAddr("2001:db8::1") // not routable
			case 2:
				dst = ms.nodes[c.Rng.IntN(k)].id.IP
			}
			src := ids[len(ids)-1].IP
			if c.Rng.IntN(10) == 0 {
				src = entry.id.IP // "from myself"
			}
			// switch block
			var sb []byte
			sbKind := "none"
			switch c.Rng.IntN(7) {
			case 0, 1:
				// a label cycle: every router's label towards the next one, several rounds
				sbKind = "label-cycle"
				at := entry
				for r := 0; r < 2+c.Rng.IntN(12); r++ {
					var l *hlink
					for _, x := range at.links {
						l = x
						if c.Rng.IntN(2) == 0 {
							break
						}
					}
					sb = appendUvarint(sb, uint64(l.label))
					at = l.to
				}
				for z := c.Rng.IntN(12); z > 0; z-- {
					sb = append(sb, 0)
				}
			case 2:
				// too small for the return label
				sbKind = "too-small"
				var l *hlink
				for _, x := range entry.links {
					l = x
					break
				}
				sb = appendUvarint(nil, uint64(l.label))
			case 3:
				sbKind = "garbage"
				sb = make([]byte, 1+c.Rng.IntN(20))
				for i := range sb {
					sb[i] = byte(c.Rng.IntN(256))
				}
			case 4:
				sbKind = "zeros"
				sb = make([]byte, 1+c.Rng.IntN(6))
			}
			msg := make([]byte, 4+c.Rng.IntN(40))
			for i := range msg {
				msg[i] = byte(c.Rng.IntN(256))
			}
			f, err := craftBuilder.NewFrameV1(src, dst, ty, sb, msg, nil)
			if err != nil {
				continue
			}
			f.SetTTL(uint8(ttl))
			d, _ := f.FrameDataWithMargins(0, 0)
			data := append([]byte(nil), d...)
			f.ReturnToPool()
			fi := parseFrameInfo(data)
			ms.w.queue = append(ms.w.queue[:0], &inflight{link: fromN.links[entry.id.IP], data: data})
			tr := ms.trackFrame(rid, fi.restID, true, label, 400)
			// the first "crossing" is our injection, not a forwarding step
			crossed := tr.crossings - 1
			bound := ttl - 1
			if bound < 0 {
				bound = 0
			}
			if crossed > bound {
				c.Violate(fmt.Sprintf("a frame with TTL %d crossed %d links", ttl, crossed), "ttl-bound", map[string]any{"world": label, "ttl": ttl, "crossed": crossed, "sb": sbKind, "type": int(ty)})
			}
			c.Count("sb:" + sbKind)
			c.NonTrivial(fmt.Sprintf("adv/ttl=%d/sb=%s/dst=%d/crossed=%d", ttl, sbKind, dstKind, crossed))
			ms.w.queue = nil
		}
	}
	return nil
}

func appendUvarint(b []byte, v uint64) []byte {
	for v >= 0x80 {
		b = append(b, byte(v)|0x80)
		v >>= 7
	}
	return append(b, byte(v))
}
