package main

import (
	"fmt"
	"strconv"
	"strings"

	"github.com/mycoria/mycoria/config"
)

func init() {
	genSections = append(genSections, genConfig)
}

// schemeNames is the fixed enumeration of URL schemes the model refers to by index.
var schemeNames = []string{"tcp", "udp", "http", "https", "icmp6", "ping6", "ftp", "sctp", "icmp", "tls"}

func parseKeys(keys []string) (protos []int, port int, err error) {
	for _, k := range keys {
		parts := strings.Split(k, "-")
		if len(parts) != 2 {
			return nil, 0, fmt.Errorf("bad key %q", k)
		}
		pr, e1 := strconv.Atoi(parts[0])
		po, e2 := strconv.Atoi(parts[1])
		if e1 != nil || e2 != nil {
			return nil, 0, fmt.Errorf("bad key %q", k)
		}
		protos = append(protos, pr)
		port = po
	}
	return
}

// genConfig tabulates getInfoFromURL over the scheme enumeration: protocols and default port
// (-1 = a port must be given).
func genConfig(sb *strings.Builder) error {
	sb.WriteString("(* config.getInfoFromURL tabulated over the scheme enumeration (index, (protocols, default port; -1 = port required)) *)\n")
	var rows []string
	for i, s := range schemeNames {
		keysNo, _, errNo := config.VerifInfoFromURL(s + "://host.myco")
		keysP, _, errP := config.VerifInfoFromURL(s + "://host.myco:1234")
		if errP != nil {
			continue // unknown scheme
		}
		protos, _, err := parseKeys(keysP)
		if err != nil {
			return err
		}
		dflt := -1
		if errNo == nil {
			_, p, err := parseKeys(keysNo)
			if err != nil {
				return err
			}
			dflt = p
		}
		ps := make([]string, len(protos))
		for j, p := range protos {
			ps[j] = strconv.Itoa(p)
		}
		rows = append(rows, fmt.Sprintf("(%d, ([%s], (%d)%%Z))", i, strings.Join(ps, ";"), dflt))
	}
	fmt.Fprintf(sb, "Definition scheme_table : list (N * (list N * Z)) := [%s].\n", strings.Join(rows, "; "))
	for i, s := range schemeNames {
		fmt.Fprintf(sb, "Definition scheme_%s : N := %d.\n", s, i)
	}
	sb.WriteString("\n")
	return nil
}
