package main

import (
	"crypto/ed25519"
	"fmt"
	"net/netip"
	"time"

	"github.com/fxamacker/cbor/v2"

	"github.com/mycoria/crop"
	"github.com/mycoria/mycoria/frame"
	"github.com/mycoria/mycoria/m"
	"github.com/mycoria/mycoria/router"
)

// pingSpec describes a signed ping frame to craft (message format of router/ping.go).
type pingSpec struct {
	from     *m.Address // signer (its private key signs raw)
	src      netip.Addr // frame source (defaults to from.IP)
	dst      netip.Addr // frame destination
	msgType  frame.MessageType
	pingType string
	pingCode uint8
	pingID   uint64
	followUp bool
	body     []byte
	appendix []byte
	seqTime  time.Time
	// header identity (defaults to the signer's)
	hdrHash crop.Hash
	hdrType crop.KeyPairType
	hdrKey  []byte
	rawHdr  bool // use hdrHash/hdrType/hdrKey exactly as given, even if empty
	ttl     uint8
	rawMsg  []byte // when set: the complete message bytes (header framing included)
	sb      []byte // switch block
}

var craftBuilder = frame.NewFrameBuilder()

// craftPing builds the frame bytes of a ping signed raw by spec.from (as sendPingMsg does for a
// destination it has no session with).
func craftPing(s pingSpec) ([]byte, error) {
	hdr := router.PingHeader{PingID: s.pingID, PingType: s.pingType, PingCode: s.pingCode, FollowUp: s.followUp}
	if s.rawHdr {
		hdr.AddrHash, hdr.KeyType, hdr.PublicKey = s.hdrHash, s.hdrType, ed25519.PublicKey(s.hdrKey)
	} else {
		hdr.AddrHash, hdr.KeyType, hdr.PublicKey = s.from.Hash, s.from.Type, s.from.PublicKey
	}
	if hdr.PingID == 0 {
		hdr.PingID = 1
	}
	hd, err := cbor.Marshal(&hdr)
	if err != nil {
		return nil, err
	}
	msg := make([]byte, 2+len(hd)+len(s.body))
	msg[0], msg[1] = 1, uint8(len(hd))
	copy(msg[2:], hd)
	copy(msg[2+len(hd):], s.body)
	if s.rawMsg != nil {
		msg = s.rawMsg
	}
	src := s.src
	if !src.IsValid() {
		src = s.from.IP
	}
	f, err := craftBuilder.NewFrameV1(src, s.dst, s.msgType, s.sb, msg, s.appendix)
	if err != nil {
		return nil, err
	}
	defer f.ReturnToPool()
	t := s.seqTime
	if t.IsZero() {
		t = time.Now()
	}
	f.SetTTL(0)
	f.SetSequenceTime(t)
	if err := f.SignRaw(s.from.PrivateKey); err != nil {
		return nil, err
	}
	ttl := s.ttl
	if ttl == 0 {
		ttl = 32
	}
	f.SetTTL(ttl)
	d, err := f.FrameDataWithMargins(0, 0)
	if err != nil {
		return nil, fmt.Errorf("frame data of a frame that was just built: %w", err)
	}
	return append([]byte(nil), d...), nil
}

// nextTime returns strictly increasing millisecond timestamps for crafted signed frames.
var craftClock = time.Now().Add(-time.Minute)

func nextCraftTime() time.Time {
	craftClock = craftClock.Add(2 * time.Millisecond)
	return craftClock
}
