package main

import (
	"encoding/binary"
	"errors"
	"io"
	"net"
	"sync"
	"time"

	"github.com/mycoria/mycoria/config"
	"github.com/mycoria/mycoria/peering"
)

// wireDir is one direction of a connection between two real link ends, relayed by the harness:
// every length-prefixed chunk read from the sender is captured and handed to a fault function,
// which decides what bytes reach the receiver instead.
type wireDir struct {
	mu        sync.Mutex
	captured  [][]byte // chunks as sent (after the handshake chunks)
	forwarded []byte   // bytes written to the receiver (after the handshake chunks)
	handshake int      // number of leading chunks passed through untouched
	seen      int
	fault     func(idx int, chunk []byte) [][]byte // idx counts post-handshake chunks
	gate      func(idx int, chunk []byte)          // called before forwarding any chunk (handshake included)
	closed    chan struct{}
}

func (d *wireDir) pump(src, dst net.Conn) {
	defer close(d.closed)
	for {
		var l [2]byte
		if _, err := io.ReadFull(src, l[:]); err != nil {
			_ = dst.Close()
			return
		}
		n := int(binary.BigEndian.Uint16(l[:]))
		if n < 2 {
			n = 2
		}
		chunk := make([]byte, n)
		copy(chunk, l[:])
		if _, err := io.ReadFull(src, chunk[2:]); err != nil {
			_ = dst.Close()
			return
		}
		d.mu.Lock()
		idx := d.seen
		d.seen++
		gate := d.gate
		d.mu.Unlock()
		if gate != nil {
			gate(idx, chunk)
		}
		outs := [][]byte{chunk}
		if idx >= d.handshake {
			d.mu.Lock()
			d.captured = append(d.captured, append([]byte(nil), chunk...))
			f := d.fault
			d.mu.Unlock()
			if f != nil {
				outs = f(idx-d.handshake, chunk)
			}
		}
		for _, o := range outs {
			if idx >= d.handshake {
				d.mu.Lock()
				d.forwarded = append(d.forwarded, o...)
				d.mu.Unlock()
			}
			if _, err := dst.Write(o); err != nil {
				return
			}
		}
	}
}

// linkedPair is two real routers joined by a real link (real handshake, real link workers)
// over in-memory connections relayed by the harness.
type linkedPair struct {
	w      *rworld
	A, B   *rnode
	la, lb peering.Link
	ab, ba *wireDir
	connA  net.Conn
	connB  net.Conn
	errA   error
	errB   error
}

// newLinkedPair builds the routers and runs the real link setup on both ends; A is the client.
func newLinkedPair(storeA, storeB config.Store, abGate, baGate func(int, []byte)) (*linkedPair, error) {
	w := newRWorld()
	A, err := w.addNode("A", storeA, nil)
	if err != nil {
		return nil, err
	}
	B, err := w.addNode("B", storeB, nil)
	if err != nil {
		return nil, err
	}
	return linkNodes(w, A, B, abGate, baGate)
}

// slowCloseConn is a connection whose Close takes a while (a TLS close_notify, SO_LINGER, a proxied
// transport): whatever the link does between deciding to close and the connection being gone has
// time to show on the wire.
type slowCloseConn struct {
	net.Conn
	delay time.Duration
}

func (c *slowCloseConn) Close() error {
	time.Sleep(c.delay)
	return c.Conn.Close()
}

var linkCloseDelayA time.Duration // when > 0: A's end of the next linked pair closes slowly

// lateFrameConn delivers the n-th length-prefixed chunk that arrives on it only when the
// connection has been closed locally, or after `patience`: the last message of a slow handshake
// that arrives at the very moment something gives up on the connection.
type lateFrameConn struct {
	net.Conn
	n        int
	patience time.Duration
	mu       sync.Mutex
	buf      []byte
	seen     int
	closed   chan struct{}
	once     sync.Once
}

func (c *lateFrameConn) Close() error {
	c.once.Do(func() { close(c.closed) })
	return c.Conn.Close()
}

func (c *lateFrameConn) Read(p []byte) (int, error) {
	c.mu.Lock()
	defer c.mu.Unlock()
	if len(c.buf) == 0 {
		var l [2]byte
		if _, err := io.ReadFull(c.Conn, l[:]); err != nil {
			return 0, err
		}
		n := int(binary.BigEndian.Uint16(l[:]))
		if n < 2 {
			n = 2
		}
		chunk := make([]byte, n)
		copy(chunk, l[:])
		if _, err := io.ReadFull(c.Conn, chunk[2:]); err != nil {
			return 0, err
		}
		c.seen++
		if c.seen == c.n {
			select {
			case <-c.closed:
			case <-time.After(c.patience):
			}
		}
		c.buf = chunk
	}
	k := copy(p, c.buf)
	c.buf = c.buf[k:]
	return k, nil
}

var linkLateFrameA int // when > 0: A's end of the next linked pair gets its n-th incoming chunk late

func linkNodes(w *rworld, A, B *rnode, abGate, baGate func(int, []byte)) (*linkedPair, error) {
	a1raw, a2 := net.Pipe()
	var a1 net.Conn = a1raw
	if linkCloseDelayA > 0 {
		a1 = &slowCloseConn{Conn: a1raw, delay: linkCloseDelayA}
	}
	if linkLateFrameA > 0 {
		a1 = &lateFrameConn{Conn: a1raw, n: linkLateFrameA, patience: 7 * time.Second, closed: make(chan struct{})}
	}
	b1, b2 := net.Pipe()
	p := &linkedPair{w: w, A: A, B: B, connA: a1, connB: b2,
		ab: &wireDir{handshake: 3, closed: make(chan struct{}), gate: abGate},
		ba: &wireDir{handshake: 3, closed: make(chan struct{}), gate: baGate}}
	go p.ab.pump(a2, b1)
	go p.ba.pump(b1, a2)
	var wg sync.WaitGroup
	wg.Add(2)
	go func() { defer wg.Done(); p.la, p.errA = A.pe.VerifSetupLink(a1, true) }()
	go func() { defer wg.Done(); p.lb, p.errB = B.pe.VerifSetupLink(b2, false) }()
	done := make(chan struct{})
	go func() { wg.Wait(); close(done) }()
	select {
	case <-done:
	case <-time.After(10 * time.Second):
		_ = a1.Close()
		_ = b2.Close()
		return p, errors.New("link setup timed out")
	}
	if p.errA != nil || p.errB != nil {
		return p, errors.Join(p.errA, p.errB)
	}
	return p, nil
}

func (p *linkedPair) close() {
	if p.la != nil {
		p.la.Close(nil)
	}
	if p.lb != nil {
		p.lb.Close(nil)
	}
	_ = p.connA.Close()
	_ = p.connB.Close()
}

var relayStore = config.Store{Router: config.Router{Listen: []string{"tcp:47369"}}}
