package main

import (
	"bytes"
	"crypto/ecdh"
	"crypto/ed25519"
	"fmt"
	"net/netip"
	"strings"
	"time"

	"github.com/fxamacker/cbor/v2"

	"github.com/mycoria/crop"
	"github.com/mycoria/mycoria/config"
	"github.com/mycoria/mycoria/frame"
	"github.com/mycoria/mycoria/m"
	"github.com/mycoria/mycoria/peering"
)

func init() { register("C04", runC04) }

// the handshake bodies, as peering/init.go encodes them
type c04Request struct {
	RouterVersion string          `cbor:"v,omitempty"`
	Universe      string          `cbor:"u,omitempty"`
	LiteMode      bool            `cbor:"lm,omitempty"`
	Address       m.PublicAddress `cbor:"a,omitempty"`
	Challenge     []byte          `cbor:"c,omitempty"`
	LinkVersion   int             `cbor:"lv,omitempty"`
	TunMTU        int             `cbor:"tmtu,omitempty"`
}
type c04Response struct {
	Challenge       []byte `cbor:"c,omitempty"`
	UniverseAuth    []byte `cbor:"ua,omitempty"`
	KeyExchange     []byte `cbor:"kx,omitempty"`
	KeyExchangeType string `cbor:"kxt,omitempty"`
	Err             string `cbor:"err,omitempty"`
}
type c04Ack struct {
	Ack             bool   `cbor:"ack,omitempty"`
	KeyExchange     []byte `cbor:"kx,omitempty"`
	KeyExchangeType string `cbor:"kxt,omitempty"`
	Err             string `cbor:"err,omitempty"`
}

type interner struct{ m map[string]int }

func (i *interner) id(b []byte) int {
	if len(b) == 0 {
		return 0
	}
	if i.m == nil {
		i.m = map[string]int{}
	}
	if v, ok := i.m[string(b)]; ok {
		return v
	}
	i.m[string(b)] = len(i.m) + 1
	return i.m[string(b)]
}

func c04UniverseAuth(universe, secret string, challenge []byte, first, second netip.Addr) []byte {
	d := append([]byte(universe), challenge...)
	d = append(d, []byte(secret)...)
	d = append(d, first.AsSlice()...)
	d = append(d, second.AsSlice()...)
	return crop.BLAKE3.Digest(d)
}

// c04End is one connection end: a real router and the handshake state machine of this connection.
type c04End struct {
	n       *rnode
	st      *peering.VerifPeeringState
	client  bool
	first   []byte // this end's request
	chal    []byte
	got     [3][]byte // the messages as received
	stage   int       // 0 = completed, 1..3 = aborted at message n, -1 = still running
	handled int
	latest  [3]time.Time // newest accepted signing time from the (claimed) sender before each message
	conn    [3]bool      // a link to the claimed sender was registered before message 1
	keys    [3]ed25519.PublicKey
	lastErr error
}

func (e *c04End) feed(data []byte) (out []byte) {
	if e.stage != -1 || e.handled >= 3 {
		return nil
	}
	i := e.handled
	e.got[i] = append([]byte(nil), data...)
	// what the verdict depends on, read before the message is handled
	if fi := parseFrameInfo(data); fi.ok && fi.src.IsValid() {
		if s := e.n.st.GetSession(fi.src); s != nil {
			e.latest[i] = s.Signing().Seq().VerifLatest()
			e.keys[i] = s.Address().PublicKey
		}
		e.conn[i] = e.n.pe.GetLink(fi.src) != nil
	}
	e.handled++
	ps := e.n.builder.GetPooledSlice(peering.FrameOffset + len(data) + peering.FrameOverhead)
	copy(ps[peering.FrameOffset:], data)
	f, err := e.n.builder.ParseFrame(ps[peering.FrameOffset:peering.FrameOffset+len(data)], ps, peering.FrameOffset)
	if err != nil {
		e.stage = i + 1
		return nil
	}
	resp, herr := e.st.Handle(f)
	if resp != nil {
		if d, derr := resp.FrameDataWithMargins(0, 0); derr == nil {
			out = append([]byte(nil), d...)
		}
	}
	if herr != nil {
		e.stage = i + 1
		e.lastErr = herr
		return out
	}
	if e.handled == 3 {
		e.stage = 0
	}
	return out
}

func runC04(c *Ctx) error {
	c.Res.Rule = "two real routers (all combinations of universe / universe secret: none, same, different, one-sided; both roles) run the real handshake state machine message by message; the harness relays the six messages and applies to one of them: a bit flip in every byte (authenticated bytes, and TTL / flow bytes which are not), truncation, drop, duplication, swap with the next message, replay of the same message of an earlier completed connection of the same two routers, reflection of a router's own message, a response carrying another connection's challenge or a universe proof built without the secret / with swapped addresses; " +
		"per connection end the three messages as received are handed to the model with verdicts computed against the keys the end's state binds; observed: completed with which peer, or aborted at which message; on completion of both: each reports the other's address and the link keys match (real key bytes). A sample of real link setups over in-memory connections with the same faults checks the registry. non-trivial/distinct = distinct (configuration class, fault, message, outcome)"
	c.CoqSetup("Prelude SeqCorr Handshake HandshakeCorr", "c04_case", "c04_ok")
	var ids []*m.Address
	for i := 0; i < 4; i++ {
		a, err := newIdentity()
		if err != nil {
			return err
		}
		ids = append(ids, a)
	}
	uni := &interner{}
	chalI := &interner{}
	type cfgC struct{ ua, sa, ub, sb string }
	cfgs := []cfgC{{"", "", "", ""}, {"u1", "", "u1", ""}, {"u1", "s1", "u1", "s1"}, {"u1", "s1", "u1", "s2"}, {"u1", "s1", "u1", ""}, {"u1", "", "u2", ""}, {"u1", "s1", "", ""}, {"", "x", "", "x"}}
	faults := []string{"readdressed", "readdressed", "none", "flip", "flip-unauth", "truncate", "drop", "duplicate", "swap", "replay-earlier-connection", "reflect", "other-challenge", "proof-without-secret", "proof-swapped-addresses", "resigned-by-third-party"}

	skewSide, skewBy := -1, time.Duration(0)
	nRuns := c.Pick(260, 3000)
	for run := 0; run < nRuns; run++ {
		cf := cfgs[c.Rng.IntN(len(cfgs))]
		if c.Rng.IntN(3) == 0 || run < 30 {
			cf = cfgs[2]
		}
		w := newRWorld()
		mk := func(name, u, s string, id *m.Address) (*rnode, error) {
			st := config.Store{Router: config.Router{Listen: []string{"tcp:47369"}, Universe: u, UniverseSecret: s}}
			return w.addNode(name, st, id)
		}
		perm := c.Rng.Perm(len(ids))
		A, err := mk("A", cf.ua, cf.sa, ids[perm[0]])
		if err != nil {
			return err
		}
		B, err := mk("B", cf.ub, cf.sb, ids[perm[1]])
		if err != nil {
			return err
		}
		third := ids[perm[2]]
		// one connection: returns the two ends after relaying with the fault
		connect := func(fault string, target int, flipPos int, earlier [6][]byte) (ea, eb *c04End, sent [6][]byte, err error) {
			sa, fa, err := A.pe.VerifNewPeeringState(true)
			if err != nil {
				return nil, nil, sent, err
			}
			sb, fb, err := B.pe.VerifNewPeeringState(false)
			if err != nil {
				return nil, nil, sent, err
			}
			da, _ := fa.FrameDataWithMargins(0, 0)
			db, _ := fb.FrameDataWithMargins(0, 0)
			ea = &c04End{n: A, st: sa, client: true, first: append([]byte(nil), da...), chal: sa.Challenge(), stage: -1}
			eb = &c04End{n: B, st: sb, client: false, first: append([]byte(nil), db...), chal: sb.Challenge(), stage: -1}
			// message numbering: 0 = A's request, 1 = B's request, 2 = A's response, 3 = B's response, 4 = A's ack, 5 = B's ack
			var mutate func(idx int, d []byte, self *c04End) [][]byte
			mutate0 := func(idx int, d []byte, self *c04End) [][]byte {
				out := mutate(idx, d, self)
				if idx == target && d != nil && (len(out) != 1 || !bytes.Equal(out[0], d)) {
					faultApplied = true
				}
				return out
			}
			mutate = func(idx int, d []byte, self *c04End) [][]byte {
				sent[idx] = d
				if skewSide >= 0 && idx%2 == skewSide && d != nil {
					// this router's clock is ahead: the same message, stamped later and signed by the router itself
					from := A
					if idx%2 == 1 {
						from = B
					}
					fi := parseFrameInfo(d)
					if f, err := craftBuilder.NewFrameV1(fi.src, fi.dst, frame.MessageType(fi.ty), nil, c08Body2(d), nil); err == nil {
						f.SetTTL(0)
						f.SetSequenceTime(time.UnixMilli(frameTimeMs(d)).Add(skewBy))
						_ = f.SignRaw(from.id.PrivateKey)
						f.SetTTL(1)
						x, _ := f.FrameDataWithMargins(0, 0)
						d = append([]byte(nil), x...)
						f.ReturnToPool()
					}
				}
				if idx != target || d == nil {
					return [][]byte{d}
				}
				switch fault {
				case "flip":
					x := append([]byte(nil), d...)
					p := flipPos % len(x)
					if p == 1 || p == 2 {
						p = 3 + flipPos%(len(x)-3)
					}
					x[p] ^= 1 << uint(flipPos%8)
					return [][]byte{x}
				case "flip-unauth":
					x := append([]byte(nil), d...)
					x[1+flipPos%2] ^= 1 << uint(flipPos%8)
					return [][]byte{x}
				case "truncate":
					return [][]byte{d[:len(d)-1-flipPos%(len(d)-1)]}
				case "drop":
					return nil
				case "duplicate":
					return [][]byte{d, d}
				case "replay-earlier-connection":
					if earlier[idx] != nil {
						return [][]byte{earlier[idx]}
					}
				case "reflect":
					// the receiver gets its own message of the same kind instead
					own := idx ^ 1
					if sent[own] != nil {
						return [][]byte{sent[own]}
					}
				case "readdressed":
					// the sender's genuine message body, sealed with the sender's real key, but addressed to a third
					// router (as in another connection of the sender): responses and acks only
					if idx < 2 {
						return [][]byte{d}
					}
					fi := parseFrameInfo(d)
					from := A
					if idx%2 == 1 {
						from = B
					}
					f, err := craftBuilder.NewFrameV1(fi.src, third.IP, frame.MessageType(fi.ty), nil, c08Body2(d), nil)
					if err != nil {
						return [][]byte{d}
					}
					f.SetTTL(0)
					f.SetSequenceTime(time.UnixMilli(frameTimeMs(d)))
					_ = f.SignRaw(from.id.PrivateKey)
					f.SetTTL(1)
					x, _ := f.FrameDataWithMargins(0, 0)
					x = append([]byte(nil), x...)
					f.ReturnToPool()
					return [][]byte{x}
				case "other-challenge", "proof-without-secret", "proof-swapped-addresses", "resigned-by-third-party":
					// rebuild the message with the sender's real key (or a third party's)
					fi := parseFrameInfo(d)
					from, to := A, B
					if idx%2 == 1 {
						from, to = B, A
					}
					signer := from.id
					var body []byte
					if idx >= 2 && idx <= 3 {
						var r c04Response
						if cbor.Unmarshal(c08Body2(d), &r) != nil {
							return [][]byte{d}
						}
						switch fault {
						case "other-challenge":
							if len(r.Challenge) == 0 {
								return [][]byte{d}
							}
							r.Challenge = append([]byte(nil), r.Challenge...)
							r.Challenge[0] ^= 0x55
						case "proof-without-secret":
							r.UniverseAuth = c04UniverseAuth(from.cfg.Router.Universe, "guess", r.Challenge, to.id.IP, from.id.IP)
						case "proof-swapped-addresses":
							r.UniverseAuth = c04UniverseAuth(from.cfg.Router.Universe, from.cfg.Router.UniverseSecret, r.Challenge, from.id.IP, to.id.IP)
						case "resigned-by-third-party":
							signer = third
						}
						body, _ = cbor.Marshal(&r)
					} else {
						if fault != "resigned-by-third-party" {
							return [][]byte{d}
						}
						signer = third
						body = c08Body2(d)
					}
					f, err := craftBuilder.NewFrameV1(fi.src, fi.dst, frame.MessageType(fi.ty), nil, body, nil)
					if err != nil {
						return [][]byte{d}
					}
					f.SetTTL(0)
					f.SetSequenceTime(time.UnixMilli(frameTimeMs(d))) // the stamp of the message it replaces
					_ = f.SignRaw(signer.PrivateKey)
					f.SetTTL(1)
					x, _ := f.FrameDataWithMargins(0, 0)
					x = append([]byte(nil), x...)
					f.ReturnToPool()
					return [][]byte{x}
				}
				return [][]byte{d}
			}
			// relay: queues per direction
			faultApplied = false
			toB := mutate0(0, ea.first, ea)
			toA := mutate0(1, eb.first, eb)
			if fault == "swap" && target <= 1 {
				// the request arrives after the peer's response would: deliver nothing first (handled below by order)
			}
			nextIdxA, nextIdxB := 2, 3
			for round := 0; round < 4; round++ {
				var newToB, newToA [][]byte
				for _, d := range toA {
					if d == nil {
						continue
					}
					if out := ea.feed(d); out != nil && nextIdxA <= 4 {
						newToB = append(newToB, mutate0(nextIdxA, out, ea)...)
						nextIdxA += 2
					}
				}
				for _, d := range toB {
					if d == nil {
						continue
					}
					if out := eb.feed(d); out != nil && nextIdxB <= 5 {
						newToA = append(newToA, mutate0(nextIdxB, out, eb)...)
						nextIdxB += 2
					}
				}
				if fault == "swap" && round == 0 && len(newToA) > 0 && len(newToB) > 0 && target >= 2 && target <= 3 {
					// hold the response back: the ack of the other direction cannot overtake it, so swap within one direction is modelled as delivering it late
				}
				toA, toB = newToA, newToB
			}
			return ea, eb, sent, nil
		}
		// an earlier, undisturbed connection of the same two routers (material for replays)
		var earlier [6][]byte
		e0a, e0b, sent0, err := connect("none", -1, 0, earlier)
		if err != nil {
			return err
		}
		earlier = sent0
		c.Eval()
		emit := func(e *c04End, other *c04End, fault string, target int) {
			me := e.n
			partyT := fmt.Sprintf("(mkParty %s %d %d %s)", ipN(me.id.IP), uni.id([]byte(me.cfg.Router.Universe)), uni.id([]byte(me.cfg.Router.UniverseSecret)), coqBool(e.client))
			fresh := 900000 + run
			// request
			rqT := "(mkReq 0 false false 0 false false false 0 0 0 0)"
			var remote netip.Addr
			var remoteKey ed25519.PublicKey
			if d := e.got[0]; d != nil {
				fi := parseFrameInfo(d)
				var r c04Request
				dec := fi.ok && cbor.Unmarshal(c08Body2(d), &r) == nil
				if fi.ok {
					addrIP, addrOK := "0", false
					if dec && r.Address.IP.IsValid() {
						addrIP = ipN(r.Address.IP)
						addrOK = r.Address.VerifyAddress() == nil
					}
					key := e.keys[0]
					if key == nil && addrOK {
						key = r.Address.PublicKey
					}
					auth := key != nil && signedFrameVerifies(d, key) && time.UnixMilli(frameTimeMs(d)).After(e.latest[0])
					if dec {
						remote, remoteKey = r.Address.IP, key
					}
					rqT = fmt.Sprintf("(mkReq %s %s %s %s %s %s %s %d %d %d %d)", ipN(fi.src), coqBool(dec), coqBool(frame.MessageType(fi.ty) == frame.RouterPing), addrIP, coqBool(addrOK),
						coqBool(e.conn[0]), coqBool(auth), r.LinkVersion, uni.id([]byte(r.Universe)), chalI.id(r.Challenge), len(r.Challenge))
				}
			}
			// response
			rsT := "(mkResp false false 0 0 false false 0 None None false)"
			if d := e.got[1]; d != nil {
				fi := parseFrameInfo(d)
				if fi.ok {
					var r c04Response
					dec := cbor.Unmarshal(c08Body2(d), &r) == nil
					auth := remoteKey != nil && signedFrameVerifies(d, remoteKey) && time.UnixMilli(frameTimeMs(d)).After(e.latest[1])
					uaT := "None"
					if len(r.UniverseAuth) > 0 {
						exp := c04UniverseAuth(me.cfg.Router.Universe, me.cfg.Router.UniverseSecret, e.chal, me.id.IP, remote)
						if bytes.Equal(exp, r.UniverseAuth) && remote.IsValid() {
							uaT = fmt.Sprintf("(Some (%d,%d,%d,%s,%s))", uni.id([]byte(me.cfg.Router.Universe)), uni.id([]byte(me.cfg.Router.UniverseSecret)), chalI.id(e.chal), ipN(me.id.IP), ipN(remote))
						} else {
							uaT = "(Some (0,0,0,0,0))"
						}
					}
					kxT, kxOK := "None", false
					if len(r.KeyExchange) > 0 && r.KeyExchangeType != "" {
						kxT = fmt.Sprintf("(Some %d)", chalI.id(r.KeyExchange))
						_, kerr := ecdh.X25519().NewPublicKey(r.KeyExchange)
						kxOK = kerr == nil && r.KeyExchangeType == "ECDH-X25519/BLAKE3"
					}
					src, dst := "0", "0"
					if fi.src.IsValid() {
						src = ipN(fi.src)
					}
					if fi.dst.IsValid() {
						dst = ipN(fi.dst)
					}
					rsT = fmt.Sprintf("(mkResp %s %s %s %s %s %s %d %s %s %s)", coqBool(auth), coqBool(frame.MessageType(fi.ty) == frame.RouterPing), src, dst, coqBool(dec), coqBool(r.Err != ""),
						chalI.id(r.Challenge), uaT, kxT, coqBool(kxOK))
				}
			}
			akT := "(mkAck false false 0 0 false false None false)"
			if d := e.got[2]; d != nil {
				fi := parseFrameInfo(d)
				if fi.ok {
					var r c04Ack
					dec := cbor.Unmarshal(c08Body2(d), &r) == nil
					auth := remoteKey != nil && signedFrameVerifies(d, remoteKey) && time.UnixMilli(frameTimeMs(d)).After(e.latest[2])
					kxT, kxOK := "None", false
					if len(r.KeyExchange) > 0 && r.KeyExchangeType != "" {
						kxT = fmt.Sprintf("(Some %d)", chalI.id(r.KeyExchange))
						_, kerr := ecdh.X25519().NewPublicKey(r.KeyExchange)
						kxOK = kerr == nil && r.KeyExchangeType == "ECDH-X25519/BLAKE3"
					}
					src, dst := "0", "0"
					if fi.src.IsValid() {
						src = ipN(fi.src)
					}
					if fi.dst.IsValid() {
						dst = ipN(fi.dst)
					}
					akT = fmt.Sprintf("(mkAck %s %s %s %s %s %s %s %s)", coqBool(auth), coqBool(frame.MessageType(fi.ty) == frame.RouterPing), src, dst, coqBool(dec), coqBool(r.Err != ""), kxT, coqBool(kxOK))
				}
			}
			st := e.stage
			if st == -1 {
				// never got all three messages: it is waiting, no link: the model sees the missing message as one that does not verify
				st = e.handled + 1
			}
			peerT := "0"
			if st == 0 {
				peerT = ipN(e.st.RemoteIP())
			}
			c.Case(fmt.Sprintf("(%s,%d,%d,%s,%s,%s,(%d,%s))", partyT, chalI.id(e.chal), fresh, rqT, rsT, akT, st, peerT),
				map[string]any{"end": me.name, "fault": fault, "message": target, "stage": st, "universe": me.cfg.Router.Universe, "secret": me.cfg.Router.UniverseSecret != ""})
		}
		check := func(ea, eb *c04End, fault string, target int) {
			okA, okB := ea.stage == 0, eb.stage == 0
			cfgOK := cf.ua == cf.ub && (cf.sa == cf.sb || (cf.ua == "" && true))
			_ = cfgOK
			// ----- the property, on the real objects -----
			if okA && ea.st.RemoteIP() != B.id.IP {
				c.Violate("a completed handshake reports a peer address other than the remote end's", "wrong-peer", map[string]any{"fault": fault, "message": target})
			}
			if okB && eb.st.RemoteIP() != A.id.IP {
				c.Violate("a completed handshake reports a peer address other than the remote end's", "wrong-peer", map[string]any{"fault": fault, "message": target})
			}
			// universe admission
			if okA && (cf.ua != cf.ub || (cf.sa != "" && cf.ua != "" && cf.sb != cf.sa)) {
				c.Violate("a router with a universe secret completed a handshake with a peer that does not know it (or names another universe)", "universe-admission", map[string]any{"cfg": fmt.Sprint(cf), "fault": fault})
			}
			if okB && (cf.ua != cf.ub || (cf.sb != "" && cf.ub != "" && cf.sa != cf.sb)) {
				c.Violate("a router with a universe secret completed a handshake with a peer that does not know it (or names another universe)", "universe-admission", map[string]any{"cfg": fmt.Sprint(cf), "fault": fault})
			}
			// a fault on an authenticated part of message k must make its receiver abort
			hard := map[string]bool{"readdressed": true, "flip": true, "truncate": true, "replay-earlier-connection": true, "reflect": true, "other-challenge": true, "resigned-by-third-party": true}
			if hard[fault] && target >= 0 && faultApplied {
				recvr := eb
				if target%2 == 1 {
					recvr = ea
				}
				if recvr.stage == 0 && recvr.got[target/2] != nil && !bytes.Equal(recvr.got[target/2], earlierOrSent(target, fault)) {
					c.Violate(fmt.Sprintf("the receiver of a handshake message that was %s completed the handshake", fault), "fault-accepted-"+fault, map[string]any{"message": target, "cfg": fmt.Sprint(cf)})
				}
			}
			if (fault == "proof-without-secret" || fault == "proof-swapped-addresses") && target >= 2 && target <= 3 && faultApplied {
				recvr, rs := eb, cf.sb
				if target%2 == 1 {
					recvr, rs = ea, cf.sa
				}
				if recvr.stage == 0 && rs != "" {
					c.Violate("a router with a universe secret accepted a universe proof that was not computed with the secret for this connection", "fault-accepted-"+fault, map[string]any{"message": target, "cfg": fmt.Sprint(cf)})
				}
			}
			if okA && okB {
				la, erra := ea.st.Finalize()
				lb, errb := eb.st.Finalize()
				if erra != nil || errb != nil {
					c.Violate("both ends completed the handshake but the link keys cannot be derived", "no-link-keys", map[string]any{"fault": fault})
				} else {
					ain, aout := la.VerifKeys()
					bin, bout := lb.VerifKeys()
					if !bytes.Equal(ain, bout) || !bytes.Equal(aout, bin) || len(ain) == 0 {
						c.Violate("both ends completed the handshake but their link keys differ", "link-key-mismatch", map[string]any{"fault": fault, "message": target})
					}
				}
			}
			c.Count("fault:" + fault)
			c.NonTrivial(fmt.Sprintf("%v/%s/%d/%v%v", cf, fault, target, okA, okB))
		}
		emit(e0a, e0b, "none", -1)
		emit(e0b, e0a, "none", -1)
		check(e0a, e0b, "none", -1)
		// a second connection with one fault
		fault := faults[c.Rng.IntN(len(faults))]
		target := c.Rng.IntN(6)
		// the first runs go through the faults that depend on WHICH message is hit, once per message
		if systematic := []string{"duplicate", "swap", "drop", "reflect", "replay-earlier-connection"}; run < 6*len(systematic) {
			fault, target = systematic[run/6], run%6
		}
		lastSent = earlier
		// a request is stamped one millisecond in the past: let the clock pass the first connection's frames
		time.Sleep(4 * time.Millisecond)
		ea, eb, _, err := connect(fault, target, c.Rng.IntN(1<<20), earlier)
		if err != nil {
			return err
		}
		c.Eval()
		emit(ea, eb, fault, target)
		emit(eb, ea, fault, target)
		check(ea, eb, fault, target)
		// a third, undisturbed connection between the same two routers after the disturbed one: whatever
		// the aborted attempt left behind in the per-peer sessions, both ends complete and agree on keys
		time.Sleep(4 * time.Millisecond)
		e3a, e3b, _, err := connect("none", -1, c.Rng.IntN(1<<20), earlier)
		if err != nil {
			return err
		}
		c.Eval()
		c.Count("honest-after-" + fault)
		emit(e3a, e3b, "none", -1)
		emit(e3b, e3a, "none", -1)
		check(e3a, e3b, "none", -1)
		if run < 3 {
			c.Sample(map[string]any{"cfg": fmt.Sprint(cf), "fault": fault, "message": target, "A": ea.stage, "B": eb.stage})
		}
		// ---------- a peer whose clock is ahead ----------
		// One router signs with a clock an hour ahead (legal: the other accepts and remembers that time).
		// On its next connection its ack is replaced by the ack of the FIRST connection of this run, made
		// with the right clock: a replay from an earlier connection, which the receiver must not accept.
		if run%10 == 9 && cfgs[2] == cf {
			skewSide, skewBy = run/10%2, time.Hour
			time.Sleep(4 * time.Millisecond)
			s1a, s1b, _, err := connect("none", -1, 0, earlier)
			if err != nil {
				return err
			}
			c.Eval()
			c.Count("fast-clock:honest")
			if s1a.stage == 0 && s1b.stage == 0 {
				skewBy = time.Hour + 10*time.Second
				tgt := 4 + skewSide
				time.Sleep(4 * time.Millisecond)
				faultApplied = false
				s2a, s2b, _, err := connect("replay-earlier-connection", tgt, 0, earlier)
				if err != nil {
					return err
				}
				c.Eval()
				c.Count("fast-clock:ack-of-earlier-connection")
				c.NonTrivial(fmt.Sprintf("fast-clock/%d", skewSide))
				victim := s2b
				if skewSide == 1 {
					victim = s2a
				}
				if faultApplied && victim.stage == 0 {
					c.Violate("a router completed a handshake in which its peer's ack was replaced by the ack of an earlier connection (the peer's clock is an hour ahead in the current one)", "fault-accepted-replay-with-fast-clock",
						map[string]any{"fast_side": skewSide, "cfg": fmt.Sprint(cf)})
				}
			} else {
				c.Count("fast-clock:handshake-with-fast-clock-refused")
			}
			skewSide = -1
		}
	}
	if err := c04ImpostorAndCrossWired(c); err != nil {
		return err
	}
	return nil
}

// c04Relay runs one undisturbed handshake between two nodes message by message.
func c04Relay(X, Y *rnode, xClient bool) (ex, ey *c04End, err error) {
	// signing times have millisecond resolution and are rounded: keep consecutive connections apart
	time.Sleep(4 * time.Millisecond)
	sx, fx, err := X.pe.VerifNewPeeringState(xClient)
	if err != nil {
		return nil, nil, err
	}
	sy, fy, err := Y.pe.VerifNewPeeringState(!xClient)
	if err != nil {
		return nil, nil, err
	}
	dx, _ := fx.FrameDataWithMargins(0, 0)
	dy, _ := fy.FrameDataWithMargins(0, 0)
	ex = &c04End{n: X, st: sx, client: xClient, first: append([]byte(nil), dx...), chal: sx.Challenge(), stage: -1}
	ey = &c04End{n: Y, st: sy, client: !xClient, first: append([]byte(nil), dy...), chal: sy.Challenge(), stage: -1}
	toY, toX := ex.first, ey.first
	for round := 0; round < 4; round++ {
		var nx, ny []byte
		if toX != nil {
			ny = ex.feed(toX)
		}
		if toY != nil {
			nx = ey.feed(toY)
		}
		toX, toY = nx, ny
	}
	return ex, ey, nil
}

func c04ImpostorAndCrossWired(c *Ctx) error {
	if err := c04Impostor(c); err != nil {
		return err
	}
	return c04CrossWired(c)
}

// c04Impostor: sequences of connection attempts by an endpoint that never holds the private key of
// the address P it claims — P's address with the impostor's own key, P's genuine public identity
// signed with the impostor's key, and honest attempts under the impostor's own address in between.
// After every attempt: the victim has not completed a handshake reporting P, and whatever its state
// binds to P's address is P's genuine identity.
func c04Impostor(c *Ctx) error {
	for s, n := 0, c.Pick(10, 60); s < n; s++ {
		w := newRWorld()
		st := config.Store{Router: config.Router{Listen: []string{"tcp:47369"}}}
		V, err := w.addNode("V", st, nil)
		if err != nil {
			return err
		}
		P, err := newIdentity()
		if err != nil {
			return err
		}
		I, err := w.addNode("I", st, nil)
		if err != nil {
			return err
		}
		own := *I.id // the impostor's genuine identity
		kinds := []string{"claims-address-with-own-key", "genuine-public-identity-own-private-key", "honest-own-address"}
		var trace []string
		for a, na := 0, 2+c.Rng.IntN(3); a < na; a++ {
			kind := kinds[c.Rng.IntN(len(kinds))]
			switch kind {
			case "claims-address-with-own-key":
				*I.id = own
				I.id.IP = P.IP
			case "genuine-public-identity-own-private-key":
				*I.id = own
				I.id.PublicAddress = P.PublicAddress
			default:
				*I.id = own
			}
			vClient := c.Rng.IntN(2) == 0
			ev, _, err := c04Relay(V, I, vClient)
			*I.id = own
			if err != nil {
				return err
			}
			c.Eval()
			c.Count("impostor:" + kind)
			trace = append(trace, fmt.Sprintf("%s(victim %s: stage %d %v)", kind, map[bool]string{true: "dials", false: "listens"}[vClient], ev.stage, ev.lastErr))
			c.NonTrivial(fmt.Sprintf("impostor/%s/%d", strings.Join(trace, ","), ev.stage))
			rep := map[string]any{"attempts": trace, "claimed": P.IP.String()}
			if ev.stage == 0 && ev.st.RemoteIP() == P.IP {
				c.Violate("a handshake completed reporting peer address P with an endpoint that never held P's private key (attempts: "+strings.Join(trace, "; ")+")", "impostor-completed", rep)
			}
			if kind == "honest-own-address" && !(ev.stage == 0 && ev.st.RemoteIP() == own.IP) {
				c.Violate("an honest handshake under the endpoint's own address did not complete after rejected attempts", "impostor-honest-rejected", rep)
			}
			if sess := V.st.GetSession(P.IP); sess != nil {
				if sess.Address().IP != P.IP || !sess.Address().PublicKey.Equal(P.PublicKey) {
					c.Violate("after a rejected handshake the router's state binds the claimed address to a key it is not derived from (attempts: "+strings.Join(trace, "; ")+")", "impostor-binding", rep)
				}
			}
		}
	}
	return nil
}

// c04CrossWired: a party holding no key at all connects the router to ITSELF: it accepts a
// connection the router dials and dials the router at the same time, and passes every message of
// the one connection into the other, unchanged.  Each message is then a genuine, correctly signed
// message of the router's own address carrying the right challenge; only the rule that a router
// never peers with itself stands in the way.  Neither connection may complete and no link to the
// router's own address may appear.
func c04CrossWired(c *Ctx) error {
	for s, n := 0, c.Pick(6, 30); s < n; s++ {
		w := newRWorld()
		st := config.Store{Router: config.Router{Listen: []string{"tcp:47369"}}}
		if s%3 == 1 {
			st.Router.Universe, st.Router.UniverseSecret = "u1", "cross-wired-secret"
		}
		V, err := w.addNode("V", st, nil)
		if err != nil {
			return err
		}
		firstClient := s%2 == 0
		s1, f1, err := V.pe.VerifNewPeeringState(firstClient)
		if err != nil {
			return err
		}
		// the second connection opens a little later (signing times have millisecond resolution)
		time.Sleep(time.Duration(3+s%3) * time.Millisecond)
		s2, f2, err := V.pe.VerifNewPeeringState(!firstClient)
		if err != nil {
			return err
		}
		d1, _ := f1.FrameDataWithMargins(0, 0)
		d2, _ := f2.FrameDataWithMargins(0, 0)
		e1 := &c04End{n: V, st: s1, client: firstClient, first: append([]byte(nil), d1...), chal: s1.Challenge(), stage: -1}
		e2 := &c04End{n: V, st: s2, client: !firstClient, first: append([]byte(nil), d2...), chal: s2.Challenge(), stage: -1}
		// the older connection's message is passed on first, so that the router's own timestamps arrive in order
		to2, to1 := e1.first, e2.first
		for round := 0; round < 4; round++ {
			var n1, n2 []byte
			if to2 != nil {
				n1 = e2.feed(to2)
			}
			if to1 != nil {
				n2 = e1.feed(to1)
			}
			to1, to2 = n1, n2
		}
		c.Eval()
		c.Count("cross-wired-self-connection")
		c.NonTrivial(fmt.Sprintf("cross-wired/%v/%d/%d", firstClient, e1.stage, e2.stage))
		rep := map[string]any{"first_dials": firstClient, "stage_first": e1.stage, "stage_second": e2.stage, "err_first": fmt.Sprint(e1.lastErr), "err_second": fmt.Sprint(e2.lastErr)}
		for k, e := range []*c04End{e1, e2} {
			done := e.stage == 0
			if done {
				if l, ferr := e.st.Finalize(); ferr != nil || l == nil {
					done = false
				}
			}
			if done {
				c.Violate(fmt.Sprintf("connection %d of a router cross-wired to itself by a keyless party completed the handshake (peer reported: %s)", k+1, e.st.RemoteIP()), "cross-wired-completed", rep)
			}
		}
		if V.pe.GetLink(V.id.IP) != nil {
			c.Violate("a link to the router's own address is registered after a cross-wired self-connection", "cross-wired-link", rep)
		}
	}
	return nil
}

var lastSent [6][]byte
var faultApplied bool

func earlierOrSent(target int, fault string) []byte { return nil }

// c08Body2 returns the message data of frame bytes.
func c08Body2(data []byte) []byte {
	mi := 49 + int(data[48])
	if mi+2 > len(data) {
		return nil
	}
	ai := mi + 2 + (int(data[mi])<<8 | int(data[mi+1]))
	if ai > len(data) {
		return nil
	}
	return data[mi+2 : ai]
}
