package main

import (
	"errors"
	"fmt"

	"github.com/mycoria/mycoria/m"
)

func init() { register("C12", runC12) }

var labelReps = []uint16{1, 127, 128, 16383, 16384, 65535}

type rotObs struct {
	code  int
	label uint16
	block []byte
	extra []byte
}

// rotateReal runs the real NextRotateSwitchBlock on a block slice whose capacity extends
// exactly over extra, inside a buffer with guard bytes on both sides.
func rotateReal(block, extra []byte, ret uint16) (o rotObs, guardsOK bool) {
	pre := []byte{0xA1, 0xA2, 0xA3, 0xA4}
	post := []byte{0xB1, 0xB2, 0xB3, 0xB4}
	buf := make([]byte, 0, len(pre)+len(block)+len(extra)+len(post))
	buf = append(buf, pre...)
	buf = append(buf, block...)
	buf = append(buf, extra...)
	buf = append(buf, post...)
	a, b, c := len(pre), len(pre)+len(block), len(pre)+len(block)+len(extra)
	bs := buf[a:b:c]
	var label m.SwitchLabel
	var err error
	panicked, _ := recoverPanic(func() { label, err = m.NextRotateSwitchBlock(bs, m.SwitchLabel(ret)) })
	switch {
	case panicked:
		o.code = 3
	case errors.Is(err, m.ErrBufTooSmall):
		o.code = 1
	case err != nil:
		o.code = 2
	default:
		o.label = uint16(label)
	}
	o.block = append([]byte(nil), buf[a:b]...)
	o.extra = append([]byte(nil), buf[b:c]...)
	guardsOK = string(buf[:a]) == string(pre) && string(buf[c:]) == string(post)
	return o, guardsOK
}

func coqRobs(o rotObs) string {
	return fmt.Sprintf("(%d,%d,%s,%s)", o.code, o.label, coqBytes(o.block), coqBytes(o.extra))
}

func mkHops(F, R []uint16) []m.SwitchHop {
	n := len(F) + 1
	hops := make([]m.SwitchHop, n)
	for i := 0; i < n; i++ {
		if i < n-1 {
			hops[i].ForwardLabel = m.SwitchLabel(F[i])
		}
		if i > 0 {
			hops[i].ReturnLabel = m.SwitchLabel(R[i-1])
		}
	}
	return hops
}

func coqHops(h []m.SwitchHop) string {
	parts := make([]string, len(h))
	for i, x := range h {
		parts[i] = fmt.Sprintf("(%d,%d)", x.ForwardLabel, x.ReturnLabel)
	}
	return coqList(parts)
}

type buildObs struct {
	code       int
	fb, rb     []byte
	rebuildBad string
}

func buildReal(hops []m.SwitchHop) buildObs {
	sp := &m.SwitchPath{Hops: append([]m.SwitchHop(nil), hops...)}
	var err error
	panicked, _ := recoverPanic(func() { err = sp.BuildBlocks() })
	switch {
	case panicked:
		return buildObs{code: 3}
	case err != nil:
		return buildObs{code: 1}
	}
	bo := buildObs{code: 0, fb: sp.ForwardBlock, rb: sp.ReturnBlock}
	// The same path built on a struct that already carries the blocks of ANOTHER path (a path that
	// is rebuilt after a label changed, or a by-value copy of a stored route): the result must be
	// the same as on a fresh struct, and the other path's blocks must not change.
	if len(hops) >= 2 {
		other := append([]m.SwitchHop(nil), hops...)
		for i := range other {
			if i < len(other)-1 {
				other[i].ForwardLabel = m.SwitchLabel(300 + 7*i)
			}
			if i > 0 {
				other[i].ReturnLabel = m.SwitchLabel(1000 + 11*i)
			}
		}
		stored := &m.SwitchPath{Hops: other}
		if stored.BuildBlocks() == nil {
			savedF := append([]byte(nil), stored.ForwardBlock...)
			savedR := append([]byte(nil), stored.ReturnBlock...)
			cp := *stored
			cp.Hops = append([]m.SwitchHop(nil), hops...)
			var err2 error
			pan2, _ := recoverPanic(func() { err2 = cp.BuildBlocks() })
			switch {
			case pan2 || err2 != nil:
				bo.rebuildBad = "building the path on a struct that carried another path's blocks failed"
			case string(cp.ForwardBlock) != string(bo.fb) || string(cp.ReturnBlock) != string(bo.rb):
				bo.rebuildBad = fmt.Sprintf("built on a struct that carried another path's blocks the result differs: forward %v return %v, fresh build forward %v return %v", cp.ForwardBlock, cp.ReturnBlock, bo.fb, bo.rb)
			case string(stored.ForwardBlock) != string(savedF) || string(stored.ReturnBlock) != string(savedR):
				bo.rebuildBad = "building a by-value copy of a stored path changed the stored path's blocks"
			}
		}
	}
	return bo
}

// checkPath runs the property's own predicate on the real code for one valid path and emits
// the per-rotation correspondence cases when emit is set.
func checkPath(c *Ctx, F, R []uint16, emit bool) {
	hops := mkHops(F, R)
	bo := buildReal(hops)
	key := fmt.Sprintf("n=%d", len(hops))
	rep := map[string]any{"F": F, "R": R}
	if emit {
		c.CoqSetup("Prelude SeqCorr SwitchLabel SwitchLabelCorr", "c12_bcase", "c12_bok")
		c.Case(fmt.Sprintf("(%s,(%d,%s,%s))", coqHops(hops), bo.code, coqBytes(bo.fb), coqBytes(bo.rb)), map[string]any{"kind": "build", "F": F, "R": R})
	}
	total := 0
	for i := range F {
		total += m.SwitchLabel(F[i]).EncodedSize() + m.SwitchLabel(R[i]).EncodedSize()
	}
	if bo.code == 3 {
		c.Violate("BuildBlocks panicked on a path", "build-panic", rep)
		return
	}
	if bo.rebuildBad != "" {
		c.Violate("BuildBlocks: "+bo.rebuildBad, "rebuild", rep)
	}
	if bo.code == 1 {
		// refused: fine only if the labels really cannot fit into 255 bytes
		sz := modelFreeSize(F, R)
		if sz <= 255 {
			c.Violate(fmt.Sprintf("BuildBlocks refused a valid path that needs only %d bytes", sz), "build-refused", rep)
		}
		return
	}
	if want := modelFreeSize(F, R); want > 255 {
		c.Violate(fmt.Sprintf("BuildBlocks accepted a path whose labels need %d bytes (more than the 255 a frame can carry)", want), "too-big-accepted", rep)
		return
	}
	if want := modelFreeSize(F, R); len(bo.fb) != want {
		c.Violate(fmt.Sprintf("block size %d, but the maximum live length of the traversal is %d", len(bo.fb), want), "size", rep)
	}
	extra := []byte{0xEE, 0xED, 0xEC, 0xEB, 0xEA}
	traverse := func(start []byte, rets []uint16, wantLabels []uint16, wantFinal []byte, dir string) {
		block := append([]byte(nil), start...)
		minWaste := len(block)
		for i, ret := range rets {
			o, guards := rotateReal(block, extra, ret)
			if emit {
				c.CoqSetup("Prelude SeqCorr SwitchLabel SwitchLabelCorr", "c12_rcase", "c12_rok")
				c.Case(fmt.Sprintf("(%s,%s,%d,%s)", coqBytes(block), coqBytes(extra), ret, coqRobs(o)),
					map[string]any{"kind": "rotate-" + dir, "F": F, "R": R, "hop": i})
			}
			if o.code != 0 {
				c.Violate(fmt.Sprintf("%s traversal: rotation at hop %d failed (code %d)", dir, i, o.code), "traverse-fail", rep)
				return
			}
			if !guards || string(o.extra) != string(extra) {
				c.Violate(fmt.Sprintf("%s traversal: rotation at hop %d touched a byte outside the block", dir, i), "outside", rep)
				return
			}
			if o.label != wantLabels[i] {
				c.Violate(fmt.Sprintf("%s traversal: hop %d got label %d, want %d", dir, i, o.label, wantLabels[i]), "label", rep)
				return
			}
			block = o.block
			w := 0
			for w < len(block) && block[len(block)-1-w] == 0 {
				w++
			}
			if w < minWaste {
				minWaste = w
			}
		}
		fin := append([]byte(nil), block...)
		m.TransformToReturnBlock(fin)
		if emit {
			c.CoqSetup("Prelude SeqCorr SwitchLabel SwitchLabelCorr", "c12_tcase", "c12_tok")
			c.Case(fmt.Sprintf("(%s,%s)", coqBytes(block), coqBytes(fin)), map[string]any{"kind": "transform-" + dir, "F": F, "R": R})
		}
		if string(fin) != string(wantFinal) {
			c.Violate(dir+" traversal: final block does not reverse to the opposite block", "reverse", rep)
		}
	}
	n := len(hops)
	// forward: hop i writes r_i (r_0 = 0), yields f_i (f_{n-1} = 0)
	rets := append([]uint16{0}, R...)
	want := append(append([]uint16(nil), F...), 0)
	traverse(bo.fb, rets, want, bo.rb, "forward")
	// return: hop n-1 writes 0, then f_{n-2}..f_0; yields r_{n-1}..r_1, 0
	rets2 := []uint16{0}
	want2 := []uint16{}
	for i := n - 2; i >= 0; i-- {
		rets2 = append(rets2, F[i])
		want2 = append(want2, R[i])
	}
	want2 = append(want2, 0)
	traverse(bo.rb, rets2, want2, bo.fb, "return")
	c.Eval()
	c.Count(key)
	c.NonTrivial(fmt.Sprintf("%v/%v", sizeClasses(F), sizeClasses(R)))
}

func sizeClasses(l []uint16) string {
	b := make([]byte, len(l))
	for i, x := range l {
		b[i] = byte('0' + m.SwitchLabel(x).EncodedSize())
	}
	return string(b)
}

// modelFreeSize computes the maximum live length of the traversal from first principles
// (varint sizes 1/2/3 by value), independently of CalculateBlockSize and of the Coq model.
func modelFreeSize(F, R []uint16) int {
	sz := func(x uint16) int {
		switch {
		case x < 128:
			return 1
		case x < 16384:
			return 2
		}
		return 3
	}
	n1 := len(F)
	best := 0
	for _, x := range F {
		best += sz(x)
	}
	for i := 1; i <= n1; i++ { // before rotation i: F[i..] + separator + R[..i-1]
		s := 1
		for _, x := range F[i:] {
			s += sz(x)
		}
		for _, x := range R[:i-1] {
			s += sz(x)
		}
		if s > best {
			best = s
		}
	}
	s := 0
	for _, x := range R {
		s += sz(x)
	}
	if s > best {
		best = s
	}
	return best
}

func runC12(c *Ctx) error {
	c.Res.Rule = "valid switch paths: exhaustive over label-size-class representatives {1,127,128,16383,16384,65535} for small hop counts, random label vectors to 40 hops, the 101-hop family; " +
		"every rotation of the forward and the return traversal runs on the real NextRotateSwitchBlock inside a guarded buffer; plus invalid paths and arbitrary byte blocks; " +
		"non-trivial = path with >= 2 hops; distinct = distinct vector of label size classes"
	if c.Replay != "" {
		r, err := c.replayData()
		if err != nil {
			return err
		}
		F, R := toU16s(r["F"]), toU16s(r["R"])
		checkPath(c, F, R, false)
		return c12SwitchTraversal(c, F, R)
	}
	// exhaustive over class representatives
	maxExh := c.Pick(3, 4) // forward/return label count (hops = count+1)
	emitEvery := c.Pick(149, 211)
	cnt := 0
	for k := 1; k <= maxExh; k++ {
		idx := make([]int, 2*k)
		for {
			F := make([]uint16, k)
			R := make([]uint16, k)
			for i := 0; i < k; i++ {
				F[i] = labelReps[idx[i]]
				R[i] = labelReps[idx[k+i]]
			}
			cnt++
			checkPath(c, F, R, k <= 1 || cnt%emitEvery == 0)
			// next
			j := 0
			for j < 2*k {
				idx[j]++
				if idx[j] < len(labelReps) {
					break
				}
				idx[j] = 0
				j++
			}
			if j == 2*k {
				break
			}
		}
	}
	c.Note("exhaustive over class representatives up to %d hops: %d paths", maxExh+1, cnt)
	// random label vectors
	randLabel := func() uint16 {
		switch c.Rng.IntN(4) {
		case 0:
			return labelReps[c.Rng.IntN(len(labelReps))]
		case 1:
			return uint16(1 + c.Rng.IntN(127))
		case 2:
			return uint16(128 + c.Rng.IntN(16384-128))
		}
		return uint16(16384 + c.Rng.IntN(65536-16384))
	}
	nRand := c.Pick(250, 4000)
	for i := 0; i < nRand; i++ {
		k := 1 + c.Rng.IntN(39)
		if i%10 == 0 {
			k = 40 + c.Rng.IntN(70) // around and beyond what fits
		}
		F := make([]uint16, k)
		R := make([]uint16, k)
		for j := range F {
			F[j], R[j] = randLabel(), randLabel()
		}
		checkPath(c, F, R, i%5 == 0 && (k <= c.Pick(12, 40)))
		if i < 2 {
			c.Sample(map[string]any{"F": F, "R": R})
		}
	}
	// the 101-hop family of a maximal announcement
	for _, lab := range []uint16{1, 127, 128, 16383, 16384, 20000, 65535} {
		for _, k := range []int{84, 85, 86, 100, 126, 127, 128, 254, 255, 256} {
			F := make([]uint16, k)
			R := make([]uint16, k)
			for j := range F {
				F[j], R[j] = lab, lab
			}
			checkPath(c, F, R, (lab == 20000 && k <= 100) || (c.Thorough() && k <= 128))
		}
	}
	// the 255-byte boundary, each window on its own: forward labels of one size class, return labels
	// mixed so that one side (or only the finished return block) lands on 253..258 bytes
	for i, n := 0, c.Pick(60, 600); i < n; i++ {
		k := 60 + c.Rng.IntN(45)
		target := 253 + c.Rng.IntN(6)
		mk := func(total, k int) []uint16 {
			// k labels of encoded size 1..3 summing to total (if possible)
			sizes := make([]int, k)
			sum := 0
			for j := range sizes {
				sizes[j] = 1
				sum++
			}
			for sum < total {
				j := c.Rng.IntN(k)
				if sizes[j] < 3 {
					sizes[j]++
					sum++
				} else if sum >= 3*k {
					break
				}
			}
			out := make([]uint16, k)
			for j, sz := range sizes {
				out[j] = []uint16{0, uint16(1 + c.Rng.IntN(126)), uint16(128 + c.Rng.IntN(16000)), uint16(16384 + c.Rng.IntN(40000))}[sz]
			}
			return out
		}
		var F, R []uint16
		switch c.Rng.IntN(3) {
		case 0: // only the return side is at the boundary
			F, R = mk(k+c.Rng.IntN(k), k), mk(target, k)
		case 1: // only the forward side
			F, R = mk(target, k), mk(k+c.Rng.IntN(k), k)
		default:
			F, R = mk(target-c.Rng.IntN(4), k), mk(target, k)
		}
		checkPath(c, F, R, i%4 == 0)
		c.Count("boundary-255-family")
	}
	// the same traversals through chains of real switches
	for i, n := 0, c.Pick(40, 300); i < n; i++ {
		k := 1 + c.Rng.IntN(5)
		if i%10 == 0 {
			k = 6 + c.Rng.IntN(20)
		}
		F, R := make([]uint16, k), make([]uint16, k)
		for j := 0; j < k; j++ {
			F[j], R[j] = randLabel(), randLabel()
			if c.Rng.IntN(3) == 0 {
				F[j] = labelReps[c.Rng.IntN(len(labelReps))]
			}
			if c.Rng.IntN(3) == 0 {
				R[j] = labelReps[c.Rng.IntN(len(labelReps))]
			}
		}
		if err := c12SwitchTraversal(c, F, R); err != nil {
			return err
		}
	}
	if err := c12TableRefresh(c); err != nil {
		return err
	}
	// invalid paths: non-zero ends, zero inner labels; any outcome but a panic, same as the model
	c.CoqSetup("Prelude SeqCorr SwitchLabel SwitchLabelCorr", "c12_bcase", "c12_bok")
	for i, n := 0, c.Pick(150, 1500); i < n; i++ {
		k := 1 + c.Rng.IntN(6)
		hops := make([]m.SwitchHop, k)
		for j := range hops {
			if c.Rng.IntN(3) > 0 {
				hops[j].ForwardLabel = m.SwitchLabel(randLabel())
			}
			if c.Rng.IntN(3) > 0 {
				hops[j].ReturnLabel = m.SwitchLabel(randLabel())
			}
		}
		if c.Rng.IntN(2) == 0 {
			hops[0].ReturnLabel = 0
			hops[k-1].ForwardLabel = 0
		}
		bo := buildReal(hops)
		c.Eval()
		c.Count(fmt.Sprintf("invalid-path:code%d", bo.code))
		if bo.code == 3 {
			c.Violate("BuildBlocks panicked", "build-panic", map[string]any{"hops": coqHops(hops)})
		}
		c.Case(fmt.Sprintf("(%s,(%d,%s,%s))", coqHops(hops), bo.code, coqBytes(bo.fb), coqBytes(bo.rb)), map[string]any{"kind": "build-invalid", "hops": coqHops(hops)})
	}
	// arbitrary byte blocks through NextRotateSwitchBlock (model must predict errors and panics too)
	c.CoqSetup("Prelude SeqCorr SwitchLabel SwitchLabelCorr", "c12_rcase", "c12_rok")
	for i, n := 0, c.Pick(600, 6000); i < n; i++ {
		L := c.Rng.IntN(14)
		block := make([]byte, L)
		for j := range block {
			switch c.Rng.IntN(4) {
			case 0:
				block[j] = 0
			case 1:
				block[j] = byte(0x80 | c.Rng.IntN(128))
			default:
				block[j] = byte(c.Rng.IntN(256))
			}
		}
		extra := make([]byte, c.Rng.IntN(4))
		for j := range extra {
			extra[j] = byte(1 + c.Rng.IntN(255))
		}
		ret := randLabel()
		if c.Rng.IntN(5) == 0 {
			ret = 0
		}
		o, guards := rotateReal(block, extra, ret)
		c.Eval()
		c.Count(fmt.Sprintf("raw-block:code%d", o.code))
		if !guards {
			c.Violate("rotation wrote beyond the capacity of the block slice", "outside-cap", map[string]any{"block": block})
		}
		c.Case(fmt.Sprintf("(%s,%s,%d,%s)", coqBytes(block), coqBytes(extra), ret, coqRobs(o)), map[string]any{"kind": "rotate-raw", "block": block, "extra": extra, "ret": ret})
	}
	return nil
}

func toU16s(v any) []uint16 {
	l, _ := v.([]any)
	out := make([]uint16, 0, len(l))
	for _, x := range l {
		f, _ := x.(float64)
		out = append(out, uint16(f))
	}
	return out
}
