package main

import (
	"bytes"
	"encoding/json"
	"fmt"
	"net/netip"
	"os"
	"os/exec"
	"path/filepath"
	"runtime"
	"sort"
	"strconv"
	"strings"
	"syscall"
	"time"
	"unsafe"

	"github.com/mycoria/mycoria/m"
	"github.com/mycoria/mycoria/storage"
)

func init() { register("C18", runC18) }

// c18Child is the process that gets killed: it loads the state from <src>, points the storage at
// <target> and saves it with the real Stop(), under a file size limit of <limit> bytes (the
// kernel kills the process with SIGXFSZ at exactly that byte offset of the write; limit < 0 = none).
func c18Child(args []string) {
	if len(args) < 3 {
		os.Exit(64)
	}
	src, target := args[0], args[1]
	limit, _ := strconv.Atoi(args[2])
	runtime.LockOSThread() // all file system calls of the save come from one thread (system-call crash points count per thread)
	s, err := storage.NewJSONFileStorage(src)
	if err != nil {
		fmt.Fprintln(os.Stderr, "load:", err)
		os.Exit(65)
	}
	s.VerifSetFilename(target)
	// the router starts its modules, the storage first (mgr.Group): Start runs before any save
	if err := s.Start(); err != nil {
		fmt.Fprintln(os.Stderr, "start:", err)
		os.Exit(66)
	}
	// the state counts as changed (a mapping added and removed again), so that a storage that skips
	// writing an unmodified state still performs the save under test
	_ = s.SaveMapping("verif-harness-touch.myco", netip.MustParseAddr("fd00::1"))
	_ = s.DeleteMapping("verif-harness-touch.myco")
	if limit >= 0 {
		// SIGXFSZ may be inherited as ignored (then write just fails with EFBIG): restore the kernel's
		// default action, which terminates the process at the moment the limit is hit
		type sigaction struct {
			handler  uintptr
			flags    uint64
			restorer uintptr
			mask     uint64
		}
		var sa sigaction // handler 0 = SIG_DFL
		if _, _, e := syscall.RawSyscall6(syscall.SYS_RT_SIGACTION, uintptr(syscall.SIGXFSZ), uintptr(unsafe.Pointer(&sa)), 0, 8, 0, 0); e != 0 {
			os.Exit(68)
		}
		lim := syscall.Rlimit{Cur: uint64(limit), Max: uint64(limit)}
		if err := syscall.Setrlimit(syscall.RLIMIT_FSIZE, &lim); err != nil {
			os.Exit(66)
		}
	}
	if err := s.Stop(); err != nil {
		fmt.Fprintln(os.Stderr, "stop:", err)
		os.Exit(67)
	}
	os.Exit(0)
}

func readOpt(path string) (string, []byte) {
	b, err := os.ReadFile(path)
	if err != nil {
		return "None", nil
	}
	return "(Some " + coqBytes(b) + ")", b
}

func c18GenState(c *Ctx, n int, ids []*m.Address) *storage.JSONStorageFormat {
	st := &storage.JSONStorageFormat{Routers: map[netip.Addr]*storage.StoredRouter{}, Mappings: map[string]storage.StoredMapping{}}
	strs := []string{"", "x", "universe", "ünïvërsé-√∑", "日本語のテキスト", "emoji 🚀🔥", strings.Repeat("long-", 300), "quote\"back\\slash", "line\nbreak\ttab", "\u0000ctl\u001f", "<html>&amp;"}
	pick := func() string { return strs[c.Rng.IntN(len(strs))] }
	for i := 0; i < n; i++ {
		id := ids[c.Rng.IntN(len(ids))]
		ip := id.IP
		if i >= len(ids) {
			ip = addrFrom(0xfd00_0000_0000_0000|uint64(c.Rng.IntN(1<<30)), uint64(i)+1)
		}
		pa := id.PublicAddress
		pa.IP = ip
		sr := &storage.StoredRouter{Address: &pa, Universe: pick(), Offline: c.Rng.IntN(2) == 0,
			CreatedAt: time.Unix(int64(1600000000+c.Rng.IntN(1<<28)), int64(c.Rng.IntN(1e9))).UTC(), UpdatedAt: time.Unix(int64(1700000000+c.Rng.IntN(1<<20)), 0).UTC()}
		switch c.Rng.IntN(6) {
		case 0, 1:
			t := time.Unix(int64(1710000000+c.Rng.IntN(1<<20)), int64(c.Rng.IntN(1e9))).UTC()
			sr.UsedAt = &t
		case 2:
			// set, but to the zero time (as a state file may say: "usedAt":"0001-01-01T00:00:00Z"):
			// "set" and "never used" are different states
			var t time.Time
			sr.UsedAt = &t
			if c.Rng.IntN(2) == 0 {
				sr.CreatedAt, sr.UpdatedAt = time.Time{}, time.Time{}
			}
		}
		if c.Rng.IntN(2) == 0 {
			info := &m.RouterInfo{Version: pick(), IANA: []string{pick()}}
			for k := c.Rng.IntN(4); k > 0; k-- {
				info.Listeners = append(info.Listeners, pick())
				info.PublicServices = append(info.PublicServices, m.RouterService{Name: pick(), Description: pick(), Domain: pick(), URL: pick()})
			}
			sr.PublicInfo = info
		}
		st.Routers[ip] = sr
	}
	for i := c.Rng.IntN(n + 2); i > 0; i-- {
		d := pick() + strconv.Itoa(i)
		st.Mappings[d] = storage.StoredMapping{Domain: d, Router: ids[c.Rng.IntN(len(ids))].IP, Created: time.Unix(int64(1650000000+c.Rng.IntN(1<<24)), 0).UTC()}
	}
	return st
}

// canonJSON is a canonical text of a stored state that does NOT go through the storage's own
// serialisation (struct tags are part of the code under test): every field is written out
// explicitly, "unset" and "set to the zero time" are different.
func canonJSON(v any) string {
	st, ok := v.(*storage.JSONStorageFormat)
	if !ok || st == nil {
		b, _ := json.Marshal(v)
		return string(b)
	}
	tm := func(t time.Time) string { return fmt.Sprintf("%d.%09d", t.Unix(), t.Nanosecond()) }
	var rs []string
	for ip, r := range st.Routers {
		if r == nil {
			rs = append(rs, ip.String()+"=nil")
			continue
		}
		addr := "nil"
		if r.Address != nil {
			addr = fmt.Sprintf("%s/%s/%s/%x/%d", r.Address.IP, r.Address.Hash, r.Address.Type, []byte(r.Address.PublicKey), r.Address.Easing)
		}
		info := "nil"
		if r.PublicInfo != nil {
			b, _ := json.Marshal(r.PublicInfo)
			info = string(b)
		}
		used := "unset"
		if r.UsedAt != nil {
			used = tm(*r.UsedAt)
		}
		rs = append(rs, fmt.Sprintf("%s={addr:%s info:%s universe:%q offline:%v created:%s updated:%s used:%s}", ip, addr, info, r.Universe, r.Offline, tm(r.CreatedAt), tm(r.UpdatedAt), used))
	}
	sort.Strings(rs)
	var ms []string
	for k, mp := range st.Mappings {
		ms = append(ms, fmt.Sprintf("%q={%q %s %s}", k, mp.Domain, mp.Router, tm(mp.Created)))
	}
	sort.Strings(ms)
	return strings.Join(rs, "\n") + "\n--\n" + strings.Join(ms, "\n")
}

func runC18(c *Ctx) error {
	c.Res.Rule = "in a real directory, histories of 1..5 saves of generated states (0..200 routers with unicode / empty / long / control-character fields, mappings) by the real JSONFileStorage.Stop in a child process that the kernel kills at a chosen byte offset of the write (RLIMIT_FSIZE: every offset 0..len for small states, sampled offsets incl. 0, 1, len-1, len for large ones) or lets complete; shorter states saved after crashed longer ones; " +
		"after every step the state file and the temporary file are read back and compared with the model, the real loader must start, and the loaded content must equal the previous or the new state; completed saves are reloaded and compared field by field with the generated state. non-trivial/distinct = distinct (history shape, cut class, outcome)"
	c.CoqSetup("Prelude SeqCorr Storage StorageCorr", "c18_case", "c18_ok")
	self, err := os.Executable()
	if err != nil {
		return err
	}
	var ids []*m.Address
	for i := 0; i < 5; i++ {
		a, err := newIdentity()
		if err != nil {
			return err
		}
		ids = append(ids, a)
	}
	base, err := os.MkdirTemp("", "c18-")
	if err != nil {
		return err
	}
	defer os.RemoveAll(base)

	// the bytes a state serialises to, computed by the real code
	serialise := func(st *storage.JSONStorageFormat, dir string) ([]byte, string, error) {
		src := filepath.Join(dir, "src.json")
		b, err := json.Marshal(st)
		if err != nil {
			return nil, "", err
		}
		if err := os.WriteFile(src, b, 0o600); err != nil {
			return nil, "", err
		}
		s, err := storage.NewJSONFileStorage(src)
		if err != nil {
			return nil, "", fmt.Errorf("generated state does not load: %w", err)
		}
		pred := filepath.Join(dir, "pred.json")
		s.VerifSetFilename(pred)
		// a save that changes nothing (a mapping added and removed again): a storage that skips writing an
		// unmodified state is within the property, the harness must not depend on it
		_ = s.SaveMapping("verif-harness-touch.myco", ids[0].IP)
		_ = s.DeleteMapping("verif-harness-touch.myco")
		if err := s.Stop(); err != nil {
			return nil, "", err
		}
		data, err := os.ReadFile(pred)
		_ = os.Remove(pred)
		return data, src, err
	}
	nHist := c.Pick(36, 160)
	for hi := 0; hi < nHist; hi++ {
		dir := filepath.Join(base, fmt.Sprintf("h%d", hi))
		_ = os.MkdirAll(dir, 0o700)
		target := filepath.Join(dir, "state.json")
		tmp := target + ".tmp"
		var steps []string
		var accepted []string // canonical contents the loader may find
		accepted = append(accepted, canonJSON(&storage.JSONStorageFormat{}))
		nSteps := 1 + c.Rng.IntN(5)
		big := c.Rng.IntN(4) == 0
		shape := ""
		tooBig := false
		for si := 0; si < nSteps; si++ {
			n := c.Rng.IntN(4)
			if big {
				n = []int{0, 12, 60, 200}[c.Rng.IntN(c.Pick(3, 4))]
			}
			if si > 0 && c.Rng.IntN(2) == 0 {
				n = 0 // a shorter state after a longer one
			}
			st := c18GenState(c, n, ids)
			data, src, err := serialise(st, dir)
			if err != nil {
				return err
			}
			// offsets to kill at
			var cuts []int
			if si == nSteps-1 && len(data) <= 400 && c.Rng.IntN(2) == 0 {
				// every byte offset: each is its own single-step continuation of this history
				for k := 0; k <= len(data); k++ {
					cuts = append(cuts, k)
				}
			} else {
				switch c.Rng.IntN(5) {
				case 0, 1:
					cuts = []int{-1}
				case 2:
					cuts = []int{[]int{0, 1, len(data) - 1, len(data) / 2}[c.Rng.IntN(4)]}
				default:
					cuts = []int{c.Rng.IntN(len(data) + 1)}
				}
			}
			// save F/T to restore between sibling cuts
			f0T, f0 := readOpt(target)
			t0T, t0 := readOpt(tmp)
			hadF, hadT := fileExists(target), fileExists(tmp)
			for ci, k := range cuts {
				if ci > 0 {
					restore(target, f0, hadF)
					restore(tmp, t0, hadT)
				}
				if k >= len(data) {
					k = -1 // the limit is never hit: the save completes
				}
				if k < -1 {
					k = 0
				}
				cmd := exec.Command(self, "c18child", src, target, strconv.Itoa(k))
				_ = cmd.Run()
				c.Eval()
				fT, fB := readOpt(target)
				tT, _ := readOpt(tmp)
				cutT := "CNone"
				cls := "complete"
				if k >= 0 {
					cutT = fmt.Sprintf("(CWrite %d)", k)
					cls = "killed"
					if k == 0 {
						cls = "killed-at-0"
					}
				}
				stepT := fmt.Sprintf("(%s,%s,%s,%s)", coqBytes(data), cutT, fT, tT)
				// ----- the property (independent of the model) -----
				ld, lerr := storage.NewJSONFileStorage(target)
				if lerr != nil {
					c.Violate(fmt.Sprintf("after a save killed at byte %d of %d the router refuses to start: %v", k, len(data), lerr), "refuses-to-start",
						map[string]any{"history": shape, "cut": k, "len": len(data), "file_len": len(fB)})
				} else {
					got := canonJSON(ld.VerifContent())
					want := append(append([]string(nil), accepted...), canonJSON(st))
					ok := false
					for _, w := range want {
						if w == got {
							ok = true
						}
					}
					if !ok {
						c.Violate("after a save (killed or not) the loaded state is neither the previous nor the new state", "mixed-state", map[string]any{"history": shape, "cut": k})
					}
					if k < 0 && got != canonJSON(st) {
						c.Violate("a completed save and reload did not preserve the state", "roundtrip", map[string]any{"history": shape, "routers": n})
					}
				}
				if ci == len(cuts)-1 {
					if len(data) > 30000 {
						// keep the model case small: a large state is represented by its length-preserving digest
						tooBig = true
					}
					steps = append(steps, stepT)
					if k < 0 {
						accepted = []string{canonJSON(st)}
					}
					shape += cls[:1]
				} else {
					// a sibling continuation: its own case (history so far + this step)
					// a sibling continuation: one step from the file system as it was before it
					c.Case(fmt.Sprintf("(%s,(mkFs %s %s),%s)", coqBool(true), f0T, t0T, coqList([]string{stepT})), map[string]any{"history": shape + cls[:1], "cut": k})
				}
				c.Count("cut:" + cls)
				c.NonTrivial(fmt.Sprintf("%s/%s/n=%d", shape, cls, n))
			}
		}
		if !tooBig {
			c.Case(fmt.Sprintf("(%s,(mkFs None None),%s)", coqBool(true), coqList(steps)), map[string]any{"history": shape})
		} else {
			c.Count("history-checked-by-oracle-only(large)")
		}
		if hi < 3 {
			c.Sample(map[string]any{"history": shape, "steps": len(steps)})
		}
	}
	// ---------- crash points between system calls ----------
	// The save runs in a child process under strace; for every system call that touches the state
	// file or its temporary file (open, write, sync, close, rename, unlink, ...) and every k, the
	// child is killed on entering the k-th such call.  A previous, non-empty state is in place: the
	// next start must find that state or the new one.
	for sc, nsc := 0, c.Pick(2, 5); sc < nsc; sc++ {
		dir := filepath.Join(base, fmt.Sprintf("k%d", sc))
		_ = os.MkdirAll(dir, 0o700)
		target := filepath.Join(dir, "state.json")
		tmp := target + ".tmp"
		prev := c18GenState(c, 1+c.Rng.IntN(4), ids)
		next := c18GenState(c, []int{0, 1, 3, 8}[c.Rng.IntN(4)], ids)
		prevData, _, err := serialise(prev, dir)
		if err != nil {
			return err
		}
		_, src, err := serialise(next, dir)
		if err != nil {
			return err
		}
		wantPrev, wantNext := canonJSON(prev), canonJSON(next)
		calls := []string{"openat", "write", "pwrite64", "fsync", "fdatasync", "close", "rename", "renameat", "renameat2", "unlink", "unlinkat",
			"ftruncate", "fchmod", "fchmodat", "linkat", "newfstatat", "fstat", "fcntl", "lseek", "read"}
		unavailable := false
		points := 0
	calls:
		for _, call := range calls {
			for k := 1; k <= 24; k++ {
				_ = os.Remove(tmp)
				if err := os.WriteFile(target, prevData, 0o600); err != nil {
					return err
				}
				cmd := exec.Command("strace", "-f", "-qq", "-o", "/dev/null", "-P", target, "-P", tmp,
					"-e", fmt.Sprintf("inject=%s:signal=SIGKILL:when=%d", call, k), self, "c18child", src, target, "-1")
				out, rerr := cmd.CombinedOutput()
				c.Eval()
				killed := false
				if rerr != nil {
					if ee, ok := rerr.(*exec.ExitError); ok {
						if ws, ok := ee.Sys().(syscall.WaitStatus); ok && (ws.Signaled() || ws.ExitStatus() == 137) {
							killed = true
						}
					}
					if !killed {
						// strace is missing, ptrace is not permitted, or the child failed on its own
						c.Note("system-call crash points not explored (%v: %s)", rerr, strings.TrimSpace(string(out)))
						unavailable = true
						break calls
					}
				}
				ld, lerr := storage.NewJSONFileStorage(target)
				rep := map[string]any{"system_call": call, "k": k, "killed": killed, "state_file": fileExists(target), "temporary_file": fileExists(tmp)}
				if lerr != nil {
					c.Violate(fmt.Sprintf("after a save killed on entering %s #%d the router refuses to start: %v", call, k, lerr), "refuses-to-start-syscall", rep)
				} else {
					got := canonJSON(ld.VerifContent())
					if got != wantPrev && got != wantNext {
						c.Violate(fmt.Sprintf("after a save killed on entering %s #%d (state file present: %v, temporary file present: %v) the next start finds neither the previous nor the new state", call, k, fileExists(target), fileExists(tmp)), "lost-state-syscall", rep)
					}
					if !killed && got != wantNext {
						c.Violate("a completed save and reload did not preserve the state", "roundtrip", rep)
					}
				}
				if !killed {
					break // fewer than k such calls: next system call
				}
				points++
				c.Count("crash-point:" + call)
			}
		}
		if unavailable {
			c.Count("crash-points-between-system-calls:unavailable")
			break
		}
		c.CountN("crash-points-between-system-calls", points)
		c.NonTrivial(fmt.Sprintf("syscall-crash-points/%d", points))
	}

	// ---------- sessions: load, use (look routers up, save, delete), stop, reload ----------
	// what the storage holds when it stops is what the next start loads — every router with its
	// timestamps (a look-up stamps UsedAt) and every mapping
	for si, n := 0, c.Pick(24, 120); si < n; si++ {
		dir := filepath.Join(base, fmt.Sprintf("s%d", si))
		_ = os.MkdirAll(dir, 0o700)
		target := filepath.Join(dir, "state.json")
		st := c18GenState(c, 1+c.Rng.IntN(6), ids)
		b, _ := json.Marshal(st)
		if err := os.WriteFile(target, b, 0o600); err != nil {
			return err
		}
		var trace []string
		for sess, ns := 0, 1+c.Rng.IntN(3); sess < ns; sess++ {
			s, err := storage.NewJSONFileStorage(target)
			if err != nil {
				c.Violate("the router refuses to start on a state file written by a completed save: "+err.Error(), "refuses-to-start", map[string]any{"sessions": trace})
				break
			}
			if err := s.Start(); err != nil {
				c.Violate("the storage module does not start on a state file written by a completed save: "+err.Error(), "refuses-to-start", map[string]any{"sessions": trace})
				break
			}
			var ips []netip.Addr
			for ip := range s.VerifContent().Routers {
				ips = append(ips, ip)
			}
			sort.Slice(ips, func(i, j int) bool { return ips[i].Compare(ips[j]) < 0 })
			kind := []string{"lookups-only", "lookups-only", "save", "delete", "nothing", "mapping"}[c.Rng.IntN(6)]
			switch kind {
			case "lookups-only":
				for _, ip := range ips {
					if c.Rng.IntN(2) == 0 {
						_, _ = s.GetRouter(ip)
					}
				}
				if len(ips) > 0 {
					_, _ = s.GetRouter(ips[0])
				}
			case "save":
				id := ids[c.Rng.IntN(len(ids))]
				pa := id.PublicAddress
				pa.IP = addrFrom(0xfd00_0000_0000_0000|uint64(c.Rng.IntN(1<<30)), uint64(1000+si))
				_ = s.SaveRouter(&storage.StoredRouter{Address: &pa, Universe: "u", CreatedAt: time.Now().UTC(), UpdatedAt: time.Now().UTC()})
			case "delete":
				if len(ips) > 0 {
					_ = s.DeleteRouter(ips[c.Rng.IntN(len(ips))])
				}
			case "mapping":
				_ = s.SaveMapping(fmt.Sprintf("m%d.myco", sess), ids[0].IP)
			}
			want := canonJSON(s.VerifContent())
			if err := s.Stop(); err != nil {
				return err
			}
			c.Eval()
			trace = append(trace, kind)
			c.Count("session:" + kind)
			c.NonTrivial("session/" + strings.Join(trace, ","))
			ld, err := storage.NewJSONFileStorage(target)
			if err != nil {
				c.Violate("the router refuses to start after a session: "+err.Error(), "refuses-to-start", map[string]any{"sessions": trace})
				break
			}
			if got := canonJSON(ld.VerifContent()); got != want {
				c.Violate("the state loaded at the next start is not the state the storage held when it stopped (sessions: "+strings.Join(trace, ", ")+")", "roundtrip-session", map[string]any{"sessions": trace})
				break
			}
		}
	}

	// ---------- states of one to several megabytes (the storage keeps at least 10,000 routers) ----------
	for _, n := range []int{1800, 6000} {
		if n > 1800 && !c.Thorough() {
			break
		}
		dir := filepath.Join(base, fmt.Sprintf("big%d", n))
		_ = os.MkdirAll(dir, 0o700)
		target := filepath.Join(dir, "state.json")
		st := c18GenState(c, n, ids)
		data, _, err := serialise(st, dir)
		if err != nil {
			return err
		}
		if err := os.WriteFile(target, data, 0o600); err != nil {
			return err
		}
		c.Eval()
		c.Count(fmt.Sprintf("large-state:%dMiB", len(data)>>20))
		c.NonTrivial(fmt.Sprintf("large-state/%d", n))
		ld, err := storage.NewJSONFileStorage(target)
		if err != nil {
			c.Violate(fmt.Sprintf("the router refuses to start with a state of %d routers (%d bytes) that it wrote itself: %v", n, len(data), err), "refuses-to-start-large", map[string]any{"routers": n, "bytes": len(data)})
			continue
		}
		if canonJSON(ld.VerifContent()) != canonJSON(st) {
			c.Violate(fmt.Sprintf("a state of %d routers (%d bytes) is not preserved by save and reload", n, len(data)), "roundtrip-large", map[string]any{"routers": n, "bytes": len(data)})
		}
	}
	return nil
}

func fileExists(p string) bool { _, err := os.Stat(p); return err == nil }
func restore(p string, b []byte, had bool) {
	if !had {
		_ = os.Remove(p)
		return
	}
	_ = os.WriteFile(p, b, 0o600)
}

var _ = bytes.Equal
