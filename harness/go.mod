module verifharness

go 1.26.3

require (
	github.com/fxamacker/cbor/v2 v2.9.2
	github.com/miekg/dns v1.1.72
	github.com/mycoria/crop v0.3.1
	github.com/mycoria/mycoria v0.0.0
	golang.org/x/crypto v0.54.0
	golang.org/x/net v0.57.0
)

require (
	github.com/google/btree v1.1.3 // indirect
	github.com/klauspost/cpuid/v2 v2.4.0 // indirect
	github.com/leekchan/gtf v0.0.0-20190214083521-5fba33c5b00b // indirect
	github.com/mdlayher/ndp v1.1.0 // indirect
	github.com/mitchellh/copystructure v1.2.0 // indirect
	github.com/mitchellh/reflectwalk v1.0.2 // indirect
	github.com/mr-tron/base58 v1.3.0 // indirect
	github.com/tevino/abool v1.2.0 // indirect
	github.com/vishvananda/netlink v1.3.1 // indirect
	github.com/vishvananda/netns v0.0.5 // indirect
	github.com/x448/float16 v0.8.4 // indirect
	github.com/zeebo/blake3 v0.2.4 // indirect
	go4.org/netipx v0.0.0-20231129151722-fdeea329fbba // indirect
	golang.org/x/exp v0.0.0-20260709172345-9ea1abe57597 // indirect
	golang.org/x/sys v0.47.0 // indirect
	golang.org/x/text v0.40.0 // indirect
	golang.org/x/time v0.15.0 // indirect
	golang.zx2c4.com/wireguard v0.0.0-20260522210424-ecfc5a8d5446 // indirect
	gopkg.in/yaml.v3 v3.0.1 // indirect
	gvisor.dev/gvisor v0.0.0-20260709014902-8ed0c00a3f90 // indirect
)

replace github.com/mycoria/mycoria => /repo
