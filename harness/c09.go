package main

import (
	"fmt"
	"net/netip"
	"sort"
	"strings"
	"time"

	"github.com/fxamacker/cbor/v2"

	"github.com/mycoria/mycoria/m"
	"github.com/mycoria/mycoria/router"
)

func init() { register("C09", runC09) }

// annStep is everything the harness derives from an announcement frame before it is delivered.
type annStep struct {
	prefix  string // the c08_case up to the observation
	origin  netip.Addr
	timeMs  int64
	signers []netip.Addr
	before  []m.RoutingTableEntry
}

// annModelInputs renders the model inputs for delivering announcement bytes to e.R over recv.
func (e *ctlEnv) annModelInputs(data []byte, recv *hlink, stub bool) annStep {
	R := e.R
	pre, _ := e.snapshot()
	src := netip.AddrFrom16([16]byte(data[16:32]))
	pt := e.pingTerm(c07Ping{data: data, src: src, hop: true, kind: 4})
	recs, signers := e.c08Decode(c08Appendix(data), c08Ctx(data))
	var am router.AnnouncePingMsg
	retl, stubf, expMs := 0, false, int64(0)
	if body := c08Body(data); body != nil && cbor.Unmarshal(body, &am) == nil {
		retl, stubf = int(am.ReturnLabel), am.Stub
		if !am.Expires.IsZero() {
			expMs = am.Expires.UnixMilli()
		}
	}
	dstAll := netip.AddrFrom16([16]byte(data[32:48])) == m.RouterAddress
	annT := fmt.Sprintf("(mkAnn %s %s %d %s (%d)%%Z 0 %s)", ipN(src), coqList(recs), retl, coqBool(stubf), expMs, coqBool(dstAll))
	linksT, _ := linksOf(R)
	return annStep{
		prefix: fmt.Sprintf("(%s,%s,%s,%s,(%d)%%Z,%s,%s,%s,%s,%s,", cfgTerm(R.ro.Table().VerifConfig()), ipN(R.id.IP), coqBool(false), coqBool(stub), time.Now().UnixMilli(),
			pre, linksT, lnkTerm(recv), pt, annT),
		origin: src, timeMs: frameTimeMs(data), signers: signers, before: R.ro.Table().VerifEntries(),
	}
}

func accepted(res deliverResult) bool {
	if len(res.routerErrs) == 0 {
		return false
	}
	for _, he := range res.routerErrs {
		if he != nil {
			return false
		}
	}
	return true
}

type c09Stats struct {
	deliveries, forwarded, cases int
}

// floodAndCheck announces every router and drains the mesh in an order given by pick, checking
// every delivery. caseEvery: emit a model case for every k-th announcement delivery.
func (ms *mesh) floodAndCheck(pick func(n int) int, caseEvery int, label string) (st c09Stats) {
	c := ms.c
	seenPath := map[string]int{}
	for len(ms.w.queue) > 0 && st.deliveries < 200000 {
		i := 0
		if pick != nil {
			i = pick(len(ms.w.queue))
		}
		msg := ms.w.queue[i]
		from, to := msg.link.from, msg.link.to
		fi := parseFrameInfo(msg.data)
		recv := to.links[from.id.IP]
		var stp annStep
		emit := false
		if fi.ok && fi.isAnn {
			emit = caseEvery > 0 && st.deliveries%caseEvery == 0
			e := ms.envs[to]
			if emit {
				stp = e.annModelInputs(msg.data, recv, false)
			} else {
				_, sg := e.c08Decode(c08Appendix(msg.data), c08Ctx(msg.data))
				stp = annStep{origin: fi.src, timeMs: frameTimeMs(msg.data), signers: sg, before: to.ro.Table().VerifEntries()}
			}
			// ----- flooding discipline (independent of the model) -----
			path := []string{fi.src.String()}
			for k := len(stp.signers) - 1; k >= 0; k-- {
				path = append(path, stp.signers[k].String())
			}
			// an announcement is identified by its origin signature (an origin may sign several in one millisecond)
			key := fmt.Sprintf("%s@%d/%x:%s>%s", fi.src, stp.timeMs, c08Ctx(msg.data)[24:32], strings.Join(path, ">"), to.id.IP)
			seenPath[key]++
			if seenPath[key] > 1 {
				c.Violate("an announcement travelled the same loop-free path twice", "path-twice", map[string]any{"mesh": label, "path": key})
			}
			if to.id.IP == fi.src {
				c.Violate("an announcement was sent to its origin", "sent-to-origin", map[string]any{"mesh": label, "path": key})
			}
			for k, s := range stp.signers {
				if s == to.id.IP {
					c.Violate("an announcement was sent to a router already in its hop list", "sent-to-hop-member", map[string]any{"mesh": label, "path": key, "position": k})
				}
			}
			if len(stp.signers) > 0 && stp.signers[0] != from.id.IP {
				c.Violate("the outermost hop record is not the sending router's", "outer-not-sender", map[string]any{"mesh": label, "path": key})
			}
		}
		_, res, out := ms.deliverOne(i)
		st.deliveries++
		c.Eval()
		if res.panicked() {
			c.Violate("a frame crashed a router worker in the mesh", "mesh-panic", map[string]any{"mesh": label})
		}
		if fi.ok && fi.isAnn {
			// refinement obligation of Gossip.v: whatever happened to the announcement (added, not added,
			// rejected as delayed), a receiver that is neither the origin nor in the hop list now holds a
			// route to the origin
			inHops := to.id.IP == fi.src
			for _, s := range stp.signers {
				if s == to.id.IP {
					inHops = true
				}
			}
			if !inHops {
				has := false
				for _, e := range to.ro.Table().VerifEntries() {
					if e.DstIP == fi.src {
						has = true
					}
				}
				if !has {
					c.Violate("a router handled an honest announcement and holds no route to its origin afterwards", "refinement-no-route",
						map[string]any{"mesh": label, "at": to.name, "records": len(stp.signers), "errors": fmt.Sprint(res.routerErrs), "frame_len": len(msg.data)})
				}
			}
			var fw []netip.Addr
			for _, q := range out {
				fw = append(fw, q.link.to.id.IP)
				st.forwarded++
				if why := c08CheckForward(q.data, msg.data, to, recv, q.link); why != "" {
					c.Violate("forwarded announcement is not the received one plus this router's record: "+why, "bad-forward", map[string]any{"mesh": label})
				}
			}
			if emit {
				sort.Slice(fw, func(a, b int) bool { return cmpIP(fw[a], fw[b]) })
				var fwT []string
				for _, x := range fw {
					fwT = append(fwT, ipN(x))
				}
				c.Case(stp.prefix+fmt.Sprintf("(%s,%s,%s))", coqBool(accepted(res)), coqEntries(to.ro.Table().VerifEntries()), coqList(fwT)),
					map[string]any{"mesh": label, "delivery": st.deliveries, "records": len(stp.signers), "forwarded_to": len(fw)})
				st.cases++
			}
		}
	}
	return st
}

// checkReach: every router holds an exact-destination route to every other router, and
// following that route's forward labels over the real link objects ends at the destination.
func (ms *mesh) checkReach(label string) (pairs, bad int) {
	c := ms.c
	for _, a := range ms.nodes {
		for _, b := range ms.nodes {
			if a == b {
				continue
			}
			pairs++
			rte, _ := a.ro.Table().LookupNearestRoute(b.id.IP)
			if rte == nil || rte.DstIP != b.id.IP {
				bad++
				c.Violate(fmt.Sprintf("after the flood drained, a router has no exact-destination route to another router (%s, %d routers)", ms.topo, len(ms.nodes)), "no-route",
					map[string]any{"mesh": label, "from": a.name, "to": b.name})
				continue
			}
			// walk the forward labels
			at := a
			okWalk := true
			for k := 0; k+1 < len(rte.Path.Hops); k++ {
				h := rte.Path.Hops[k]
				if h.Router != at.id.IP {
					okWalk = false
					break
				}
				l := at.pe.GetLinkByLabel(h.ForwardLabel)
				hl, isH := l.(*hlink)
				if l == nil || !isH {
					okWalk = false
					break
				}
				// observation only (not part of the property): is the recorded return label the label of the link back?
				if back := hl.to.links[at.id.IP]; back == nil || rte.Path.Hops[k+1].ReturnLabel != back.label {
					c.Count("observation:return-label-of-route-hop-is-not-the-link-back")
				}
				at = hl.to
			}
			if !okWalk || at != b {
				bad++
				c.Violate("following a learned route's forward labels over the real links does not lead to its destination", "labels-wrong",
					map[string]any{"mesh": label, "from": a.name, "to": b.name, "route": coqEntry(rte)})
			}
		}
	}
	return
}

func runC09(c *Ctx) error {
	c.Res.Rule = "meshes of 2..16 real routers (lines, rings, stars, trees, grids, full and random connected graphs; 1-byte, 2-byte and mixed link labels; router infos of 0..40 extra entries so that announcements cross the pooled-buffer tiers) announce themselves; in-flight frames are delivered one at a time in seeded-random orders (all orders up to a budget for 3-router meshes); " +
		"every delivery is checked against the flooding rules (each loop-free path once, never to origin / hop-list member, outermost record = sender, forwarded frame = received + own record), a sample of deliveries is replayed through the model's announce_ping, and after the drain reach and label walks are checked for every ordered pair; " +
		"non-trivial/distinct = distinct (topology, size, label mode, info tier)"
	c.CoqSetup("Prelude SeqCorr SwitchLabel Table TableCorr Control ControlCorr", "c08_case", "c08_ok")
	type spec struct {
		kind string
		n    int
	}
	var specs []spec
	kinds := []string{"line", "ring", "star", "tree", "grid", "full", "random"}
	if c.Thorough() {
		for _, k := range kinds {
			for _, n := range []int{2, 3, 5, 8, 12, 16} {
				if k == "full" && n > 8 {
					continue
				}
				specs = append(specs, spec{k, n})
			}
		}
	} else {
		specs = []spec{{"line", 2}, {"line", 3}, {"ring", 3}, {"line", 6}, {"ring", 5}, {"star", 6}, {"tree", 7}, {"grid", 9}, {"full", 4}, {"random", 8}, {"random", 10}, {"line", 16}}
	}
	// identities are reused across meshes (generation is the expensive part)
	var ids []*m.Address
	for i := 0; i < 16; i++ {
		a, err := newIdentity()
		if err != nil {
			return err
		}
		ids = append(ids, a)
	}
	totalDeliveries, totalPairs := 0, 0
	for si, sp := range specs {
		reps := c.Pick(1, 3)
		for rep := 0; rep < reps; rep++ {
			labelMode := c.Rng.IntN(3)
			padMode := c.Rng.IntN(4)
			pad := func(i int) int {
				switch padMode {
				case 0:
					return 0
				case 1:
					return 3 + i
				case 2:
					return 8 + 2*i
				default:
					return c.Rng.IntN(40)
				}
			}
			perm := c.Rng.Perm(len(ids))
			mids := make([]*m.Address, sp.n)
			for i := range mids {
				mids[i] = ids[perm[i]]
			}
			ms, err := newMesh(c, sp.kind, sp.n, labelMode, pad, mids)
			if err != nil {
				return err
			}
			label := fmt.Sprintf("%s-%d/labels=%d/pad=%d/rep=%d", sp.kind, sp.n, labelMode, padMode, rep)
			if crashed := ms.announceAll(c.Rng.Perm(sp.n)); len(crashed) > 0 {
				c.Violate(fmt.Sprintf("sending the router announcement crashed on %d link(s) (%v): these peers never learn the route", len(crashed), crashed), "announce-crash", map[string]any{"mesh": label, "routers": crashed})
			}
			caseEvery := 7
			if sp.n > 8 {
				caseEvery = 41
			}
			st := ms.floodAndCheck(func(n int) int { return c.Rng.IntN(n) }, caseEvery, label)
			pairs, bad := ms.checkReach(label)
			totalDeliveries += st.deliveries
			totalPairs += pairs
			c.CountN("deliveries", st.deliveries)
			c.CountN("forwarded", st.forwarded)
			c.CountN("pairs-checked", pairs)
			c.Count("topology:" + sp.kind)
			c.NonTrivial(fmt.Sprintf("%s/%d/labels=%d/pad=%d", sp.kind, sp.n, labelMode, padMode))
			if si < 3 || bad > 0 {
				c.Sample(map[string]any{"mesh": label, "deliveries": st.deliveries, "forwarded": st.forwarded, "pairs": pairs, "unreached": bad})
			}
		}
	}
	// announcements whose own size sweeps across the pooled-buffer tier boundaries (600 and 1600 bytes
	// minus header/MAC margins) in steps smaller than the link margin: routers with several links
	// must get such an announcement out on every link
	bspecs := []spec{{"line", 8}}
	if c.Thorough() {
		bspecs = []spec{{"line", 8}, {"tree", 14}, {"line", 16}, {"ring", 14}}
	}
	for _, sp := range bspecs {
		pad := func(i int) int {
			if i < 8 {
				return 1000 + 300 + 12*i
			}
			return 1000 + 1300 + 12*(i-8)
		}
		ms, err := newMesh(c, sp.kind, sp.n, c.Rng.IntN(3), pad, ids[:sp.n])
		if err != nil {
			return err
		}
		label := fmt.Sprintf("%s-%d/boundary-sized-announcements", sp.kind, sp.n)
		ms.announceAll(c.Rng.Perm(sp.n))
		sizes := map[int]bool{}
		for _, q := range ms.w.queue {
			sizes[len(q.data)] = true
		}
		st := ms.floodAndCheck(func(n int) int { return c.Rng.IntN(n) }, 41, label)
		pairs, bad := ms.checkReach(label)
		c.CountN("deliveries", st.deliveries)
		c.CountN("pairs-checked", pairs)
		c.Count("topology:" + sp.kind + "/boundary-sizes")
		c.NonTrivial(label)
		var sz []int
		for k := range sizes {
			sz = append(sz, k)
		}
		sort.Ints(sz)
		c.Sample(map[string]any{"mesh": label, "own_announcement_sizes": sz, "deliveries": st.deliveries, "pairs": pairs, "unreached": bad})
	}

	// all delivery orders (up to a budget) for 3-router meshes
	budget := c.Pick(40, 600)
	for _, kind := range []string{"line", "ring"} {
		done := 0
		var prefix []int
		for done < budget {
			ms, err := newMesh(c, kind, 3, 0, nil, ids[:3])
			if err != nil {
				return err
			}
			ms.announceAll([]int{0, 1, 2})
			// follow the choice prefix, then always pick 0; record the branching factors
			var widths []int
			step := 0
			ms.floodAndCheck(func(n int) int {
				widths = append(widths, n)
				ch := 0
				if step < len(prefix) {
					ch = prefix[step] % n
				}
				step++
				return ch
			}, 0, fmt.Sprintf("%s-3/order=%v", kind, prefix))
			ms.checkReach(fmt.Sprintf("%s-3/order=%v", kind, prefix))
			done++
			c.Count("exhaustive-orders:" + kind)
			// next choice sequence in depth-first order
			for len(prefix) < len(widths) {
				prefix = append(prefix, 0)
			}
			k := len(prefix) - 1
			for k >= 0 && prefix[k]+1 >= widths[k] {
				k--
			}
			if k < 0 {
				c.Note("all %d delivery orders of the %s-3 mesh explored", done, kind)
				break
			}
			prefix = append(prefix[:k], prefix[k]+1)
		}
	}
	c.Note("deliveries=%d ordered pairs checked=%d", totalDeliveries, totalPairs)
	return nil
}
