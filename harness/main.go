// Command harness runs the implementation side of the /verif correspondence checks.
//
//	harness gen  <outfile>                       write Gen.v (constants + tabulated functions)
//	harness run  <Cxx> --seed N --tier quick|thorough --out DIR [--replay FILE]
package main

import (
	"flag"
	"fmt"
	"io"
	"log/slog"
	"os"
	"sort"
)

type runFn func(ctx *Ctx) error

var registry = map[string]runFn{}

func register(id string, fn runFn) { registry[id] = fn }

func main() {
	// the routers under test log through slog; keep harness output clean
	slog.SetDefault(slog.New(slog.NewTextHandler(io.Discard, nil)))
	if len(os.Args) < 2 {
		fmt.Fprintln(os.Stderr, "usage: harness gen|run ...")
		os.Exit(2)
	}
	switch os.Args[1] {
	case "c18child":
		c18Child(os.Args[2:])
	case "gen":
		if len(os.Args) < 3 {
			fmt.Fprintln(os.Stderr, "usage: harness gen <outfile>")
			os.Exit(2)
		}
		if err := genMain(os.Args[2]); err != nil {
			fmt.Fprintln(os.Stderr, "gen:", err)
			os.Exit(2)
		}
	case "run":
		fs := flag.NewFlagSet("run", flag.ExitOnError)
		seed := fs.Uint64("seed", 1, "PRNG seed")
		tier := fs.String("tier", "quick", "quick|thorough")
		out := fs.String("out", "", "output directory")
		replay := fs.String("replay", "", "replay file")
		if len(os.Args) < 3 {
			fmt.Fprintln(os.Stderr, "usage: harness run Cxx ...")
			os.Exit(2)
		}
		id := os.Args[2]
		_ = fs.Parse(os.Args[3:])
		fn, ok := registry[id]
		if !ok {
			ids := make([]string, 0, len(registry))
			for k := range registry {
				ids = append(ids, k)
			}
			sort.Strings(ids)
			fmt.Fprintf(os.Stderr, "unknown property %q (have %v)\n", id, ids)
			os.Exit(2)
		}
		ctx := newCtx(id, *seed, *tier, *out, *replay)
		if err := fn(ctx); err != nil {
			fmt.Fprintln(os.Stderr, "harness error:", err)
			os.Exit(2)
		}
		if err := ctx.finish(); err != nil {
			fmt.Fprintln(os.Stderr, "harness error:", err)
			os.Exit(2)
		}
	default:
		fmt.Fprintln(os.Stderr, "usage: harness gen|run ...")
		os.Exit(2)
	}
}
