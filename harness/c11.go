package main

import (
	"fmt"
	"net/netip"
	"sort"
	"strings"
	"sync"
	"time"

	"github.com/mycoria/mycoria/m"
)

func init() { register("C11", runC11) }

func addrFrom(hi uint64, lo uint64) netip.Addr {
	var b [16]byte
	for i := 0; i < 8; i++ {
		b[i] = byte(hi >> (56 - 8*i))
		b[8+i] = byte(lo >> (56 - 8*i))
	}
	return netip.AddrFrom16(b)
}

func coqEntry(e *m.RoutingTableEntry) string {
	hops := make([]string, len(e.Path.Hops))
	for i, h := range e.Path.Hops {
		r := "0"
		if h.Router.IsValid() {
			r = ipN(h.Router)
		}
		hops[i] = fmt.Sprintf("(mkHop %s %d %d %d)", r, h.Delay, h.ForwardLabel, h.ReturnLabel)
	}
	pa, pb := "0", 0
	if e.RoutingPrefix.IsValid() {
		pa, pb = ipN(e.RoutingPrefix.Addr()), e.RoutingPrefix.Bits()
	}
	nh := "0"
	if e.NextHop.IsValid() {
		nh = ipN(e.NextHop)
	}
	exp := int64(0)
	if !e.Expires.IsZero() {
		exp = e.Expires.UnixMilli()
	}
	return fmt.Sprintf("(mkEntry %s %s %d %s %s %s %d (%d)%%Z %d %d)", ipN(e.DstIP), pa, pb, nh, coqList(hops), coqBool(e.Stub), e.Source, exp, e.Path.TotalHops, e.Path.TotalDelay)
}

func coqEntries(es []m.RoutingTableEntry) string {
	parts := make([]string, len(es))
	for i := range es {
		parts[i] = coqEntry(&es[i])
	}
	return coqList(parts)
}

func coqLres(e *m.RoutingTableEntry, isDst bool) string {
	if e == nil {
		return "None"
	}
	return fmt.Sprintf("(Some (%s,%d,%d,%s,%s))", ipN(e.DstIP), e.Path.TotalHops, e.Path.TotalDelay, ipN(e.NextHop), coqBool(isDst))
}

type c11World struct {
	c      *Ctx
	tbl    *m.RoutingTable
	cfg    m.RoutingTableConfig
	self   netip.Addr
	peers  []netip.Addr
	dsts   []netip.Addr
	relays []netip.Addr
	steps  []string
	desc   []string
	alive  map[netip.Addr]bool // peers that currently have a peer route (by our bookkeeping)
	nPeer  int                 // peer routes added so far (drives their expiry field without touching the random stream)
}

func (w *c11World) violate(what, key string) {
	w.c.Violate(what, key, map[string]any{"self": w.self.String(), "ops": append([]string(nil), w.desc...)})
}

// oracle checks the property's clauses on the real snapshot.
func (w *c11World) oracle(after []m.RoutingTableEntry, lookAddrs []netip.Addr) {
	byDst := map[netip.Addr][]*m.RoutingTableEntry{}
	for i := range after {
		e := &after[i]
		byDst[e.DstIP] = append(byDst[e.DstIP], e)
	}
	for d, es := range byDst {
		np, p := 0, 0
		for _, e := range es {
			if e.Source == m.RouteSourcePeer {
				p++
			} else {
				np++
			}
		}
		if np > 3 {
			w.violate(fmt.Sprintf("%d non-peer routes kept for destination %s", np, d), "top3")
		}
		if p > 1 {
			w.violate(fmt.Sprintf("%d peer routes for destination %s", p, d), "peer-dup")
		}
	}
	// lookups: exact best-first
	for _, a := range lookAddrs {
		es := byDst[a]
		got, isDst := w.tbl.LookupNearest(a)
		if len(es) == 0 {
			if isDst {
				w.violate(fmt.Sprintf("lookup of %s reports a destination match but the table has no route to it", a), "lookup-false-dst")
			}
			continue
		}
		// hops and delay of a route as its path says (not as the table stored them): every hop counts at
		// least 5 ms, the sum saturates at 65534, a path without delays keeps what the route carried
		pathCost := func(e *m.RoutingTableEntry) (int, int) {
			hops := 1
			if n := len(e.Path.Hops); n > 1 {
				hops = min(n-1, 254)
			}
			sum := 0
			for _, h := range e.Path.Hops {
				sum += max(int(h.Delay), 5)
			}
			if sum == 0 {
				return hops, int(e.Path.TotalDelay)
			}
			return hops, min(sum, 65534)
		}
		best := es[0]
		for _, e := range es[1:] {
			bp, ep := best.Source == m.RouteSourcePeer, e.Source == m.RouteSourcePeer
			eh, ed := pathCost(e)
			bh, bd := pathCost(best)
			switch {
			case ep && !bp:
				best = e
			case bp && !ep:
			case eh < bh || (eh == bh && ed < bd):
				best = e
			}
		}
		if got == nil || !isDst || got.DstIP != a {
			w.violate(fmt.Sprintf("lookup of %s, which has %d route(s), did not return a route to exactly that address flagged as destination", a, len(es)), "lookup-exact")
			continue
		}
		gp, bp := got.Source == m.RouteSourcePeer, best.Source == m.RouteSourcePeer
		bh, bd := pathCost(best)
		gh, gd := pathCost(got)
		if got.Source != m.RouteSourcePeer && (int(got.Path.TotalHops) != gh || int(got.Path.TotalDelay) != gd) {
			w.violate(fmt.Sprintf("the route returned for %s is stored with hops %d delay %d, its path says hops %d delay %d", a, got.Path.TotalHops, got.Path.TotalDelay, gh, gd), "route-cost")
		}
		if gp != bp || (!gp && (gh != bh || gd != bd)) {
			w.violate(fmt.Sprintf("lookup of %s returned a route with hops %d delay %d, the table holds a better one (hops %d delay %d)", a, got.Path.TotalHops, got.Path.TotalDelay, best.Path.TotalHops, best.Path.TotalDelay), "lookup-best")
		}
	}
	// per routing prefix bound for gossip routes
	perPrefix := map[netip.Prefix]int{}
	for i := range after {
		if after[i].Source == m.RouteSourceGossip {
			perPrefix[after[i].RoutingPrefix]++
		}
	}
	for p, n := range perPrefix {
		lim := w.limitFor(p)
		if lim > 0 && n > 3*(2*lim+1) {
			w.violate(fmt.Sprintf("%d gossip routes in routing prefix %s exceed 3*(2*%d+1)", n, p, lim), "prefix-bound")
		}
	}
}

func (w *c11World) limitFor(p netip.Prefix) int {
	// limit of the routable prefix configuration that applies to addresses of this prefix
	for _, rp := range w.cfg.RoutablePrefixes {
		if rp.BasePrefix.Contains(p.Addr()) && rp.RoutingBits == p.Bits() {
			return rp.EntriesPerPrefix
		}
	}
	return 0
}

func (w *c11World) lookAddrs() []netip.Addr {
	c := w.c
	var out []netip.Addr
	all := append(append([]netip.Addr(nil), w.dsts...), w.peers...)
	for i := 0; i < 3; i++ {
		a := all[c.Rng.IntN(len(all))]
		switch c.Rng.IntN(4) {
		case 0:
			a = a.Next()
		case 1:
			a = a.Prev()
		}
		out = append(out, a)
	}
	return out
}

func (w *c11World) record(op string, desc string, looks []netip.Addr) []m.RoutingTableEntry {
	if len(w.steps)%4 == 3 {
		// somebody looks at the table (the dashboard's dump): reading it changes nothing
		before := w.tbl.VerifEntries()
		_ = w.tbl.Format()
		if !sameEntries(before, w.tbl.VerifEntries()) {
			w.violate("printing the routing table (Format) changed its content or order", "format-changes-table")
		}
		w.c.Count("op:Format")
	}
	after := w.tbl.VerifEntries()
	ls := make([]string, len(looks))
	for i, a := range looks {
		e1, d1 := w.tbl.LookupNearest(a)
		e2, d2 := w.tbl.LookupNearestRoute(a)
		ls[i] = fmt.Sprintf("(%s,%s,%s)", ipN(a), coqLres(e1, d1), coqLres(e2, d2))
	}
	w.steps = append(w.steps, fmt.Sprintf("(%s,%s,%s)", op, coqEntries(after), coqList(ls)))
	w.desc = append(w.desc, desc)
	return after
}

func sameEntries(a, b []m.RoutingTableEntry) bool {
	if len(a) != len(b) {
		return false
	}
	for i := range a {
		if coqEntry(&a[i]) != coqEntry(&b[i]) {
			return false
		}
	}
	return true
}

func (w *c11World) opAdd(peer bool) {
	c := w.c
	now := time.Now()
	var e m.RoutingTableEntry
	var desc string
	if peer {
		p := w.peers[c.Rng.IntN(len(w.peers))]
		e = m.RoutingTableEntry{DstIP: p, NextHop: p, Source: m.RouteSourcePeer}
		// a peer route is never subject to expiry, whatever its expiry field holds (zero, as AddLink
		// writes it; a time in the past; a time ahead)
		w.nPeer++
		switch w.nPeer % 4 {
		case 1:
			e.Expires = now.Add(-20 * time.Minute)
		case 3:
			e.Expires = now.Add(25 * time.Minute)
		}
		desc = fmt.Sprintf("AddPeer(%s,expires=%d)", p, w.nPeer%4)
	} else if cur := w.tbl.VerifEntries(); len(cur) > 0 && c.Rng.IntN(4) == 0 && cur[c.Rng.IntN(len(cur))].Source == m.RouteSourceGossip {
		// refresh: the same route (same relays) announced again with other delays
		var cands []m.RoutingTableEntry
		for _, x := range cur {
			if x.Source == m.RouteSourceGossip {
				cands = append(cands, x)
			}
		}
		old := cands[c.Rng.IntN(len(cands))]
		hops := append([]m.SwitchHop(nil), old.Path.Hops...)
		for k := range hops {
			hops[k].Delay = c11Delay(c, 90)
		}
		e = m.RoutingTableEntry{DstIP: old.DstIP, NextHop: old.NextHop, Path: m.SwitchPath{Hops: hops}, Stub: old.Stub, Source: m.RouteSourceGossip, Expires: now.Add(10*time.Minute + 10*time.Second)}
		desc = fmt.Sprintf("RefreshGossip(dst=%s,via=%s,hops=%d)", old.DstIP, old.NextHop, len(hops))
	} else {
		d := w.dsts[c.Rng.IntN(len(w.dsts))]
		nh := w.peers[c.Rng.IntN(len(w.peers))]
		nRel := 1 + c.Rng.IntN(4) // hops = self + relays + dst >= 3
		hops := []m.SwitchHop{{Router: w.self, Delay: uint16(5 + c.Rng.IntN(40)), ForwardLabel: m.SwitchLabel(1 + c.Rng.IntN(100))}}
		hops = append(hops, m.SwitchHop{Router: nh, Delay: uint16(5 + c.Rng.IntN(40)), ForwardLabel: m.SwitchLabel(1 + c.Rng.IntN(300)), ReturnLabel: m.SwitchLabel(1 + c.Rng.IntN(300))})
		for k := 1; k < nRel; k++ {
			hops = append(hops, m.SwitchHop{Router: w.relays[c.Rng.IntN(len(w.relays))], Delay: c11Delay(c, 60), ForwardLabel: m.SwitchLabel(1 + c.Rng.IntN(20000)), ReturnLabel: m.SwitchLabel(1 + c.Rng.IntN(300))})
		}
		hops = append(hops, m.SwitchHop{Router: d, ReturnLabel: m.SwitchLabel(1 + c.Rng.IntN(300))})
		e = m.RoutingTableEntry{DstIP: d, NextHop: nh, Path: m.SwitchPath{Hops: hops}, Stub: c.Rng.IntN(4) == 0, Source: m.RouteSourceGossip}
		switch c.Rng.IntN(8) {
		case 0: // zero: TTL default applies
		case 1:
			e.Expires = now.Add(-2 * time.Hour) // too old: refused
		case 2:
			e.Expires = now.Add(-30 * time.Minute) // within grace: raised
		case 3:
			e.Expires = now.Add(5 * time.Minute) // raised to 10 minutes
		case 4:
			e.Expires = now.Add(30 * time.Hour) // capped by the prefix TTL
		default:
			e.Expires = now.Add(10*time.Minute + 10*time.Second)
		}
		if c.Rng.IntN(25) == 0 {
			e.Path.Hops[0].ReturnLabel = 7 // invalid switch path
		}
		if c.Rng.IntN(30) == 0 {
			e.Source = m.RouteSourceDiscovered
			e.Expires = now.Add(time.Hour)
		}
		desc = fmt.Sprintf("AddGossip(dst=%s,via=%s,hops=%d,exp=%v)", d, nh, len(hops), e.Expires.Sub(now).Round(time.Second))
	}
	before := w.tbl.VerifEntries()
	in := e
	in.Path.Hops = append([]m.SwitchHop(nil), e.Path.Hops...)
	var added bool
	var err error
	pan, _ := recoverPanic(func() { added, err = w.tbl.AddRoute(e) })
	code := 0
	switch {
	case pan:
		code = 3
		w.violate("AddRoute panicked: "+desc, "add-panic")
	case err != nil:
		code = 1
	}
	looks := w.lookAddrs()
	if code == 0 && added {
		looks[0] = in.DstIP
	}
	after := w.record(fmt.Sprintf("CAdd (%d)%%Z %s %d %s", now.UnixMilli(), coqEntry(&in), code, coqBool(added)), fmt.Sprintf("%s -> code %d added %v", desc, code, added), looks)
	// 'added' means present, 'not added' (or error) means unchanged
	if code == 0 && added {
		found := false
		for i := range after {
			x := &after[i]
			if x.DstIP == in.DstIP && x.NextHop == in.NextHop && x.Source == in.Source && len(x.Path.Hops) == len(in.Path.Hops) {
				same := true
				for k := range x.Path.Hops {
					if x.Path.Hops[k] != in.Path.Hops[k] {
						same = false
					}
				}
				if same {
					found = true
				}
			}
		}
		if !found {
			w.violate("AddRoute reported added, but the route is not in the table: "+desc, "added-missing")
		}
		if peer {
			w.alive[in.DstIP] = true
		}
	} else if !sameEntries(before, after) {
		w.violate("AddRoute reported not added (or an error), but the table changed: "+desc, "notadded-changed")
	}
	w.oracle(after, looks)
	w.checkPeers(after, desc)
}

// checkPeers: direct-peer routes disappear only through a removal naming that peer.
func (w *c11World) checkPeers(after []m.RoutingTableEntry, desc string) {
	have := map[netip.Addr]bool{}
	for i := range after {
		if after[i].Source == m.RouteSourcePeer {
			have[after[i].DstIP] = true
		}
	}
	for p, alive := range w.alive {
		if alive && !have[p] {
			w.violate(fmt.Sprintf("the direct-peer route to %s disappeared without a removal naming that peer (%s)", p, desc), "peer-evicted")
			w.alive[p] = false
		}
	}
}

func (w *c11World) opRemoveNextHop() {
	p := w.peers[w.c.Rng.IntN(len(w.peers))]
	w.tbl.RemoveNextHop(p)
	w.alive[p] = false
	desc := fmt.Sprintf("RemoveNextHop(%s)", p)
	looks := w.lookAddrs()
	after := w.record(fmt.Sprintf("CRemoveNextHop %s", ipN(p)), desc, looks)
	for i := range after {
		if after[i].NextHop == p {
			w.violate("a route kept a removed next hop: "+desc, "nexthop-kept")
		}
	}
	w.oracle(after, looks)
	w.checkPeers(after, desc)
}

func (w *c11World) opRemoveDisconnected() {
	c := w.c
	all := append(append(append([]netip.Addr(nil), w.dsts...), w.peers...), w.relays...)
	r := all[c.Rng.IntN(len(all))]
	var disc []netip.Addr
	if c.Rng.IntN(2) == 0 {
		n := 1 + c.Rng.IntN(2)
		for i := 0; i < n; i++ {
			disc = append(disc, all[c.Rng.IntN(len(all))])
		}
	}
	before := w.tbl.VerifEntries()
	w.tbl.RemoveDisconnected(r, disc)
	ds := make([]string, len(disc))
	for i, d := range disc {
		ds[i] = ipN(d)
	}
	desc := fmt.Sprintf("RemoveDisconnected(%s,%v)", r, disc)
	looks := w.lookAddrs()
	after := w.record(fmt.Sprintf("CRemoveDisconnected %s %s", ipN(r), coqList(ds)), desc, looks)
	if len(disc) == 0 {
		w.alive[r] = false
		for i := range after {
			e := &after[i]
			in := e.DstIP == r || e.NextHop == r
			for _, h := range e.Path.Hops {
				if h.Router == r {
					in = true
				}
			}
			if in {
				w.violate("a route still contains a disconnected router: "+desc, "disconnected-kept")
			}
		}
	} else {
		// a peer route has no path through r next to a disconnected peer: peers must survive
		_ = before
	}
	w.oracle(after, looks)
	w.checkPeers(after, desc)
}

func (w *c11World) opClean() {
	c := w.c
	d := []time.Duration{0, 3 * time.Minute, 11 * time.Minute, 4 * time.Hour, 25 * time.Hour}[c.Rng.IntN(5)]
	w.tbl.VerifAge(d)
	w.record(fmt.Sprintf("CAge (%d)%%Z", d.Milliseconds()), fmt.Sprintf("Age(%v)", d), nil)
	now := time.Now()
	w.tbl.Clean()
	desc := "Clean()"
	looks := w.lookAddrs()
	after := w.record(fmt.Sprintf("CClean (%d)%%Z", now.UnixMilli()), desc, looks)
	perPrefix := map[netip.Prefix]int{}
	for i := range after {
		e := &after[i]
		if e.Source != m.RouteSourcePeer && e.Expires.Before(now) {
			w.violate("an expired route survived a cleanup", "expired-kept")
		}
		if e.Source == m.RouteSourceGossip {
			perPrefix[e.RoutingPrefix]++
		}
	}
	for p, n := range perPrefix {
		if lim := w.limitFor(p); lim > 0 && n > lim {
			w.violate(fmt.Sprintf("%d gossip routes in routing prefix %s after a cleanup (limit %d)", n, p, lim), "clean-bound")
		}
	}
	w.oracle(after, looks)
	w.checkPeers(after, desc)
}

func coqRp(rp m.RoutablePrefix) string {
	return fmt.Sprintf("(mkRp %s %d %d (%d)%%Z %d%%nat)", ipN(rp.BasePrefix.Addr()), rp.BasePrefix.Bits(), rp.RoutingBits, rp.EntryTTL.Milliseconds(), rp.EntriesPerPrefix)
}

// c11Delay draws a hop delay: mostly small, now and then one of the large legal values of the
// 16-bit field (slow satellite or overloaded hops), so that path totals reach and pass 65535.
func c11Delay(c *Ctx, small int) uint16 {
	switch c.Rng.IntN(12) {
	case 0:
		return uint16(20000 + c.Rng.IntN(45536))
	case 1:
		return []uint16{65535, 65534, 65530, 32768, 40000, 25541}[c.Rng.IntN(6)]
	default:
		return uint16(c.Rng.IntN(small))
	}
}

func runC11(c *Ctx) error {
	c.Res.Rule = "operation sequences on the real routing table with the routable-prefix configuration derived from a router address (several countries, a roaming and an organisation address): " +
		"AddRoute peer / gossip (3..6-hop paths, re-adds of equal routes with other delays, better and worse candidates, expiry offsets -2h/-30min/+5min/+10min/+30h/zero, invalid paths), RemoveNextHop, RemoveDisconnected with and without peer lists, " +
		"age+Clean, lookups on present/absent/neighbouring addresses after every step; small address universes (4-8 destinations in 2-3 routing prefixes) and a few-destination-many-routes stress per prefix; " +
		"every step is applied by the model to the implementation's pre-state and compared with its post-state; non-trivial = sequence with a removal or Clean after >= 3 adds; distinct as sequences"
	c.CoqSetup("Prelude SeqCorr SwitchLabel Table TableCorr", "c11_case", "c11_ok")
	selfs := []netip.Addr{
		addrFrom(0xfd1f_0000_1111_2222, 0x3333_4444_5555_0001), // AT
		addrFrom(0xfd2a_4000_1111_2222, 0x3333_4444_5555_0002),
		addrFrom(0xfd00_0123_1111_2222, 0x3333_4444_5555_0003), // roaming
		addrFrom(0xfd01_0123_4567_2222, 0x3333_4444_5555_0004), // organisation
		addrFrom(0xfd5c_8000_1111_2222, 0x3333_4444_5555_0005),
	}
	nSeq := c.Pick(140, 1500)
	for i := 0; i < nSeq; i++ {
		self := selfs[c.Rng.IntN(len(selfs))]
		prefix := netip.PrefixFrom(self, m.RegionPrefixBits).Masked()
		if mk, err := m.LookupCountryMarker(self); err == nil {
			prefix = mk.Prefix
		}
		cfg := m.RoutingTableConfig{RoutablePrefixes: m.GetRoutablePrefixesFor(self, prefix), RouterIP: self}
		w := &c11World{c: c, tbl: m.NewRoutingTable(cfg), cfg: cfg, self: self, alive: map[netip.Addr]bool{}}
		hi := uint64(self.As16()[0])<<56 | uint64(self.As16()[1])<<48 | uint64(self.As16()[2])<<40
		// peers: same country; destinations: own prefix, own region, other continent
		for k := 0; k < 3; k++ {
			w.peers = append(w.peers, addrFrom(hi|uint64(0x10+k)<<16, uint64(0xaa00+k)))
		}
		nd := 4 + c.Rng.IntN(5)
		for k := 0; k < nd; k++ {
			var a netip.Addr
			switch k % 3 {
			case 0:
				a = addrFrom(hi|uint64(0x200+k), uint64(0xd000+k))
			case 1:
				a = addrFrom((hi&0xffff_0000_0000_0000)|uint64(0xf0+k)<<40, uint64(0xd100+k)) // same region bucket, other country
			default:
				a = addrFrom(0xfd63_0000_0000_0000|uint64(k)<<32, uint64(0xd200+k)) // another continent
			}
			w.dsts = append(w.dsts, a)
		}
		for k := 0; k < 4; k++ {
			w.relays = append(w.relays, addrFrom(0xfd35_0000_0000_0000|uint64(k)<<16, uint64(0xee00+k)))
		}
		nOps := 12 + c.Rng.IntN(25)
		adds, removalAfter := 0, false
		kinds := []string{}
		for k := 0; k < nOps; k++ {
			r := c.Rng.IntN(100)
			switch {
			case r < 14:
				w.opAdd(true)
				adds++
				kinds = append(kinds, "P")
			case r < 72:
				w.opAdd(false)
				adds++
				kinds = append(kinds, "G")
			case r < 80:
				w.opRemoveNextHop()
				removalAfter = removalAfter || adds >= 3
				kinds = append(kinds, "N")
			case r < 90:
				w.opRemoveDisconnected()
				removalAfter = removalAfter || adds >= 3
				kinds = append(kinds, "D")
			default:
				w.opClean()
				removalAfter = removalAfter || adds >= 3
				kinds = append(kinds, "C")
			}
		}
		c.Eval()
		for _, k := range kinds {
			c.Count("op:" + k)
		}
		if removalAfter {
			c.NonTrivial(strings.Join(w.desc, ";"))
		}
		rps := make([]string, len(cfg.RoutablePrefixes))
		for k, rp := range cfg.RoutablePrefixes {
			rps[k] = coqRp(rp)
		}
		c.Case(fmt.Sprintf("(%s,%s,%s)", coqList(rps), ipN(self), coqList(w.steps)), map[string]any{"self": self.String(), "ops": w.desc})
		if i < 2 {
			c.Sample(map[string]any{"self": self.String(), "ops": w.desc})
		}
	}
	// crowded routing prefixes with small limits: many direct peers inside one routing prefix, gossip
	// routes to those peers and to destinations spread over the whole prefix (routing bits that are
	// not a multiple of 8 too), peers that connect while their prefix is over its limit
	for i, n := 0, c.Pick(40, 400); i < n; i++ {
		rbits := []int{12, 16, 18, 20}[c.Rng.IntN(4)]
		limit := 1 + c.Rng.IntN(3)
		self := addrFrom(0xfd40_0000_1111_2222, 0x3333_4444_5555_0009)
		cfg := m.RoutingTableConfig{RouterIP: self, RoutablePrefixes: []m.RoutablePrefix{
			{BasePrefix: netip.MustParsePrefix("fd20::/11"), RoutingBits: rbits, EntryTTL: time.Hour, EntriesPerPrefix: limit},
			{BasePrefix: netip.MustParsePrefix("fd00::/8"), RoutingBits: 12, EntryTTL: 3 * time.Hour, EntriesPerPrefix: limit + 1},
		}}
		w := &c11World{c: c, tbl: m.NewRoutingTable(cfg), cfg: cfg, self: self, alive: map[netip.Addr]bool{}}
		// the routing prefix under test: fd20::/rbits; host bits below it are spread over the whole prefix
		spread := func(k int) netip.Addr {
			free := 64 - rbits // bits of the upper half below the routing prefix
			var v uint64
			if c.Rng.IntN(3) > 0 {
				v = c.Rng.Uint64() >> (64 - free) // anywhere in the prefix
			} else {
				v = uint64(k) // the lowest sub-block
			}
			return addrFrom(0xfd20_0000_0000_0000|v, uint64(0xd000+k))
		}
		np := 2 + c.Rng.IntN(8)
		for k := 0; k < np; k++ {
			w.peers = append(w.peers, spread(k))
		}
		nd := 3 + c.Rng.IntN(8)
		for k := 0; k < nd; k++ {
			if c.Rng.IntN(3) == 0 {
				w.dsts = append(w.dsts, w.peers[c.Rng.IntN(len(w.peers))]) // gossip routes to direct peers
			} else {
				w.dsts = append(w.dsts, spread(100+k))
			}
		}
		w.dsts = append(w.dsts, addrFrom(0xfd63_0000_0000_0000, uint64(0xd200+i)))
		for k := 0; k < 3; k++ {
			w.relays = append(w.relays, addrFrom(0xfd35_0000_0000_0000|uint64(k)<<16, uint64(0xee00+k)))
		}
		kinds := []string{}
		for k, nOps := 0, 15+c.Rng.IntN(30); k < nOps; k++ {
			r := c.Rng.IntN(100)
			switch {
			case r < 25:
				w.opAdd(true)
				kinds = append(kinds, "P")
			case r < 85:
				w.opAdd(false)
				kinds = append(kinds, "G")
			case r < 90:
				w.opRemoveNextHop()
				kinds = append(kinds, "N")
			case r < 95:
				w.opRemoveDisconnected()
				kinds = append(kinds, "D")
			default:
				w.opClean()
				kinds = append(kinds, "C")
			}
		}
		// saturation: several routes to every destination of the universe, so that the per-prefix
		// bound is actually reached
		if i%2 == 0 {
			all := w.dsts
			for _, d := range all {
				w.dsts = []netip.Addr{d}
				for k := 0; k < 4; k++ {
					w.opAdd(false)
					kinds = append(kinds, "G")
				}
			}
			w.dsts = all
		}
		c.Eval()
		c.Count(fmt.Sprintf("crowded-prefix:rbits=%d", rbits))
		for _, k := range kinds {
			c.Count("op:" + k)
		}
		c.NonTrivial("crowded/" + strings.Join(w.desc, ";"))
		rps := make([]string, len(cfg.RoutablePrefixes))
		for k, rp := range cfg.RoutablePrefixes {
			rps[k] = coqRp(rp)
		}
		c.Case(fmt.Sprintf("(%s,%s,%s)", coqList(rps), ipN(self), coqList(w.steps)), map[string]any{"self": self.String(), "kind": "crowded-prefix", "rbits": rbits, "limit": limit, "ops": w.desc})
	}

	// stress of the per-prefix bounds: many destinations in one region bucket (the D6 shape)
	for rep := 0; rep < c.Pick(2, 6); rep++ {
		self := selfs[0]
		mk, _ := m.LookupCountryMarker(self)
		cfg := m.RoutingTableConfig{RoutablePrefixes: m.GetRoutablePrefixesFor(self, mk.Prefix), RouterIP: self}
		w := &c11World{c: c, tbl: m.NewRoutingTable(cfg), cfg: cfg, self: self, alive: map[netip.Addr]bool{}}
		peer := addrFrom(0xfd1f_0000_0010_0000, 0xaa01)
		w.peers = []netip.Addr{peer}
		w.relays = []netip.Addr{addrFrom(0xfd35_0000_0000_0000, 0xee01)}
		_, _ = w.tbl.AddRoute(m.RoutingTableEntry{DstIP: peer, NextHop: peer, Source: m.RouteSourcePeer})
		w.alive[peer] = true
		n := 100 + c.Rng.IntN(80)
		for k := 0; k < n; k++ {
			d := addrFrom(0xfd1f_f000_0000_0000|uint64(k)<<16, uint64(k)) // region bucket fd1f::/16, outside the own /18
			w.dsts = append(w.dsts, d)
			hops := []m.SwitchHop{{Router: self, Delay: 5, ForwardLabel: 3}, {Router: peer, Delay: uint16(5 + k%50), ForwardLabel: 4, ReturnLabel: 5}, {Router: d, ReturnLabel: 6}}
			_, _ = w.tbl.AddRoute(m.RoutingTableEntry{DstIP: d, NextHop: peer, Path: m.SwitchPath{Hops: hops}, Source: m.RouteSourceGossip, Expires: time.Now().Add(time.Hour)})
		}
		w.desc = append(w.desc, fmt.Sprintf("peer + %d gossip destinations in fd1f:f000::/20 (region bucket fd1f::/16)", n))
		after := w.tbl.VerifEntries()
		w.oracle(after, w.dsts[:3])
		w.tbl.Clean()
		now := time.Now()
		after = w.tbl.VerifEntries()
		perPrefix := map[netip.Prefix]int{}
		for i := range after {
			if after[i].Source == m.RouteSourceGossip {
				perPrefix[after[i].RoutingPrefix]++
			}
			if after[i].Source != m.RouteSourcePeer && after[i].Expires.Before(now) {
				w.violate("an expired route survived a cleanup", "expired-kept")
			}
		}
		for p, cnt := range perPrefix {
			if lim := w.limitFor(p); lim > 0 && cnt > lim {
				w.violate(fmt.Sprintf("%d gossip routes in routing prefix %s after a cleanup (limit %d)", cnt, p, lim), "clean-bound")
			}
		}
		w.checkPeers(after, "stress clean")
		c.Eval()
		c.Count("stress:prefix-bound")
	}
	_ = sort.Strings
	return c11ConcurrentClean(c)
}

// c11ConcurrentClean: the cleaning worker runs while a link goes away and an announcement comes
// in (three goroutines of the running system).  Whatever the interleaving, once all three calls
// have returned the table is the result of SOME order of the three operations: no route keeps the
// removed next hop, and the route reported as added (own routing prefix, unexpired) is present.
func c11ConcurrentClean(c *Ctx) error {
	self := addrFrom(0xfd1f_0000_1111_2222, 0x3333_4444_5555_0001)
	prefix := netip.PrefixFrom(self, m.RegionPrefixBits).Masked()
	if mk, err := m.LookupCountryMarker(self); err == nil {
		prefix = mk.Prefix
	}
	cfg := m.RoutingTableConfig{RoutablePrefixes: m.GetRoutablePrefixesFor(self, prefix), RouterIP: self}
	tbl := m.NewRoutingTable(cfg)
	p1, p2 := addrFrom(0xfd1f_0000_0010_0000, 0xaa01), addrFrom(0xfd1f_0000_0011_0000, 0xaa02)
	route := func(d, nh netip.Addr, k int) m.RoutingTableEntry {
		hops := []m.SwitchHop{{Router: self, Delay: 5, ForwardLabel: 3}, {Router: nh, Delay: uint16(5 + k%50), ForwardLabel: 4, ReturnLabel: 5}, {Router: d, ReturnLabel: 6}}
		return m.RoutingTableEntry{DstIP: d, NextHop: nh, Path: m.SwitchPath{Hops: hops}, Source: m.RouteSourceGossip, Expires: time.Now().Add(time.Hour)}
	}
	fill := func() {
		_, _ = tbl.AddRoute(m.RoutingTableEntry{DstIP: p1, NextHop: p1, Source: m.RouteSourcePeer})
		_, _ = tbl.AddRoute(m.RoutingTableEntry{DstIP: p2, NextHop: p2, Source: m.RouteSourcePeer})
		for k := 0; k < 6000; k++ {
			// spread over the whole fd00::/8 so that many routing prefixes hold a few routes each
			d := addrFrom(0xfd00_0000_0000_0000|uint64(k%251)<<48|uint64(k%64)<<42|uint64(k)<<8, uint64(k))
			_, _ = tbl.AddRoute(route(d, []netip.Addr{p1, p2}[k%2], k))
		}
	}
	fill()
	rounds := c.Pick(60, 400)
	for r := 0; r < rounds; r++ {
		if r%20 == 0 && r > 0 {
			fill()
		}
		_, _ = tbl.AddRoute(m.RoutingTableEntry{DstIP: p1, NextHop: p1, Source: m.RouteSourcePeer})
		for k := 0; k < 30; k++ {
			d := addrFrom(0xfd00_0000_0000_0000|uint64((k*7+r)%251)<<48|uint64(k)<<8, uint64(0x5000+k))
			_, _ = tbl.AddRoute(route(d, p1, k))
		}
		fresh := addrFrom(0xfd1f_0000_0020_0000|uint64(r), uint64(0x7000+r))
		var added bool
		var wg sync.WaitGroup
		wg.Add(3)
		go func() { defer wg.Done(); tbl.Clean() }()
		go func() {
			defer wg.Done()
			for spin := 0; spin < (r%7)*2000; spin++ {
				_ = spin
			}
			tbl.RemoveNextHop(p1)
		}()
		go func() {
			defer wg.Done()
			for spin := 0; spin < (r%5)*3000; spin++ {
				_ = spin
			}
			added, _ = tbl.AddRoute(route(fresh, p2, r))
		}()
		wg.Wait()
		c.Eval()
		after := tbl.VerifEntries()
		stale, have := 0, false
		for i := range after {
			if after[i].NextHop == p1 {
				stale++
			}
			if after[i].DstIP == fresh {
				have = true
			}
		}
		rep := map[string]any{"round": r, "routes": len(after), "stale": stale, "added": added, "present": have}
		tbl.RemoveDisconnected(fresh, nil)
		if stale > 0 {
			c.Violate(fmt.Sprintf("after Clean, RemoveNextHop(p) and AddRoute ran concurrently and all returned, %d route(s) still use the removed next hop p", stale), "concurrent-clean-lost-removal", rep)
			break
		}
		if added && !have {
			// a cleanup ordered after the addition may trim the new route (crowded routing prefix): then
			// adding it again and cleaning, one after the other, loses it again
			_, _ = tbl.AddRoute(route(fresh, p2, r))
			tbl.Clean()
			for _, x := range tbl.VerifEntries() {
				if x.DstIP == fresh {
					have = true
				}
			}
			tbl.RemoveDisconnected(fresh, nil)
			if !have {
				continue
			}
			have = false
			c.Violate("after Clean, RemoveNextHop and AddRoute ran concurrently and all returned, the route reported as added is not in the table", "concurrent-clean-lost-add", rep)
			break
		}
	}
	c.Count("concurrent-clean-rounds")
	return nil
}
