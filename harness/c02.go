package main

import (
	"bytes"
	"crypto/ed25519"
	"errors"
	"fmt"
	"net/netip"

	"golang.org/x/crypto/chacha20poly1305"

	"github.com/mycoria/mycoria/frame"
	"github.com/mycoria/mycoria/state"
)

func init() { register("C02", runC02) }

var allTypes = []frame.MessageType{frame.RouterHopPingDeprecated, frame.RouterPing, frame.RouterCtrl, frame.RouterHopPing, frame.NetworkTraffic, frame.SessionCtrl, frame.SessionData}

func randBytes(c *Ctx, n int) []byte {
	b := make([]byte, n)
	for i := range b {
		b[i] = byte(c.Rng.IntN(256))
	}
	return b
}

// regionOf names the layout region of byte i of a frame with the given indices.
func regionOf(i, mi, ai, xi int) string {
	switch {
	case i == 0:
		return "ver"
	case i == 1:
		return "ttl"
	case i == 2:
		return "flow"
	case i == 3:
		return "rate"
	case i == 4:
		return "type"
	case i < 8:
		return "nonce"
	case i < 16:
		return "seq"
	case i < 32:
		return "src"
	case i < 48:
		return "dst"
	case i == 48:
		return "sbLen"
	case i < mi:
		return "sb"
	case i < mi+2:
		return "msgLen"
	case i < ai:
		return "msg"
	case i < xi:
		return "auth"
	}
	return "apx"
}

type sealedFrame struct {
	mt      frame.MessageType
	bytes   []byte // sealed frame (data only)
	msg     []byte
	mi, ai  int
	xi      int
	sb, apx []byte
}

// resetReceiver gives the receiving session a fresh replay window / timestamp filter.
func resetReceiver(s *state.Session) {
	prio, regl := s.Encryption().VerifSeqHandlers()
	prio.VerifSetState(0, 0)
	regl.VerifSetState(0, 0)
	s.Signing().Seq().VerifReset()
}

// unsealCopy parses a copy of data and unseals it under s with a fresh replay window.
func unsealCopy(b *frame.Builder, s *state.Session, data []byte) (ok bool, payload []byte, panicked bool) {
	resetReceiver(s)
	cp := append([]byte(nil), data...)
	p, _ := recoverPanic(func() {
		f, err := b.ParseFrame(cp, nil, 0)
		if err != nil {
			return
		}
		if err := f.Unseal(s); err != nil {
			return
		}
		ok = true
		payload = append([]byte(nil), f.MessageData()...)
	})
	return ok, payload, p
}

// unsealAfterRejected hands the receiver (fresh replay state) the tampered frame and then, with
// the state the rejection left behind, the genuine frame: reports whether the genuine one unseals
// to its payload.  A rejected frame must not have advanced the receiver's replay state.
func unsealAfterRejected(b *frame.Builder, s *state.Session, tampered, genuine []byte) (tamperedOK, genuineOK bool, payload []byte, panicked bool) {
	resetReceiver(s)
	try := func(data []byte) (ok bool, pl []byte) {
		cp := append([]byte(nil), data...)
		f, err := b.ParseFrame(cp, nil, 0)
		if err != nil {
			return false, nil
		}
		if err := f.Unseal(s); err != nil {
			return false, nil
		}
		return true, append([]byte(nil), f.MessageData()...)
	}
	panicked, _ = recoverPanic(func() {
		tamperedOK, _ = try(tampered)
		genuineOK, payload = try(genuine)
	})
	return
}

// unsealAfterAccepted hands the receiver (fresh replay state) the genuine frame first and then,
// with the state that left behind, a tampered copy: what was verified for one frame must not
// vouch for another.
func unsealAfterAccepted(b *frame.Builder, s *state.Session, genuine, tampered []byte) (genuineOK, tamperedOK, panicked bool) {
	resetReceiver(s)
	try := func(data []byte) bool {
		cp := append([]byte(nil), data...)
		f, err := b.ParseFrame(cp, nil, 0)
		if err != nil {
			return false
		}
		return f.Unseal(s) == nil
	}
	panicked, _ = recoverPanic(func() {
		genuineOK = try(genuine)
		tamperedOK = try(tampered)
	})
	return
}

func runC02(c *Ctx) error {
	c.Res.Rule = "frames of all 7 message types x payload sizes (1,2,44,45,200 + tier boundaries to 10000) x switch block sizes (0,1,2,127,254,255) x appendix sizes x builder margins; " +
		"layout compared byte for byte with the model; every sealed frame: real primitives re-run over the model's ranges, every byte position mutated (one bit quick / every bit thorough for small frames), " +
		"TTL/flow/appendix variants, wrong-sender and wrong-receiver sessions; non-trivial/distinct = distinct (class, region of the mutated byte, verdict)"
	a, b, sab, sba, err := newPair()
	if err != nil {
		return err
	}
	// a third router: B also knows C (session for a different sender), and C knows A
	// (a different receiver with different end-to-end keys).
	cN, err := newNode()
	if err != nil {
		return err
	}
	sbc, err := b.sessionFor(cN)
	if err != nil {
		return err
	}
	scb, err := cN.sessionFor(b)
	if err != nil {
		return err
	}
	if err := keyExchange(scb.Encryption(), sbc.Encryption()); err != nil {
		return err
	}
	sca, err := cN.sessionFor(a)
	if err != nil {
		return err
	}
	sac, err := a.sessionFor(cN)
	if err != nil {
		return err
	}
	if err := keyExchange(sac.Encryption(), sca.Encryption()); err != nil {
		return err
	}
	builder := frame.NewFrameBuilder()
	relayBuilder := frame.NewFrameBuilder()
	relayBuilder.SetFrameMargins(12, 16) // a forwarding router's builder keeps the link margins free
	src16, dst16 := a.id.IP.As16(), b.id.IP.As16()

	// ---------- (a) layout: NewFrameV1 vs build ----------
	c.CoqSetup("Prelude Gen SeqCorr Frame FrameCorr", "c02_bcase", "c02_bok")
	msgSizes := []int{1, 2, 44, 45, 200}
	bigSizes := []int{599, 600, 601, 1599, 1600, 1601, 5099, 5100, 5101, 9599, 9601, 10000}
	sbSizes := []int{0, 1, 2, 127, 254, 255}
	apxSizes := []int{0, 1, 65, 300}
	var sealed []sealedFrame
	buildOne := func(mt frame.MessageType, ms, ss, as int, off, ovh int, emit bool) error {
		builder.SetFrameMargins(off, ovh)
		sb, msg, apx := randBytes(c, ss), randBytes(c, ms), randBytes(c, as)
		var f *frame.FrameV1
		var err error
		panicked, _ := recoverPanic(func() { f, err = builder.NewFrameV1(a.id.IP, b.id.IP, mt, sb, msg, apx) })
		c.Eval()
		c.Count(fmt.Sprintf("build:type%d", mt))
		code, data, mi, ai, xi := 0, []byte(nil), 0, 0, 0
		nonce := []byte{0, 0, 0}
		switch {
		case panicked:
			code = 3
			c.Violate("NewFrameV1 panicked", "build-panic", map[string]any{"type": mt, "msg": ms, "sb": ss, "apx": as})
		case err != nil:
			code = 1
		default:
			d, _ := f.FrameDataWithMargins(0, 0)
			data = append([]byte(nil), d...)
			nonce = data[5:8]
			mi, ai, xi, _, _, _, _ = f.VerifIndices()
			// property-level layout oracle: accessors return what was put in
			if !bytes.Equal(f.SwitchBlock(), sb) || !bytes.Equal(f.MessageData(), msg) || !bytes.Equal(f.AppendixData(), apx) ||
				f.SrcIP() != a.id.IP || f.DstIP() != b.id.IP || f.MessageType() != mt {
				c.Violate("built frame does not return the fields it was built from", "build-fields", map[string]any{"type": mt, "msg": ms, "sb": ss, "apx": as})
			}
		}
		if emit {
			c.Case(fmt.Sprintf("(%d,%s,%s,%s,%s,%s,%s,(%d,%s,%d,%d,%d))", mt, coqBytes(src16[:]), coqBytes(dst16[:]), coqBytes(sb), coqBytes(msg), coqBytes(apx), coqBytes(nonce), code, coqBytes(data), mi, ai, xi),
				map[string]any{"kind": "build", "type": mt, "msg": ms, "sb": ss, "apx": as, "margins": []int{off, ovh}})
		}
		if code == 0 && mt.Class() != frame.MessageClassUnknown {
			// seal it for B and keep the sealed bytes
			if err := f.Seal(sab); err != nil {
				return fmt.Errorf("seal: %w", err)
			}
			d, _ := f.FrameDataWithMargins(0, 0)
			sealed = append(sealed, sealedFrame{mt: mt, bytes: append([]byte(nil), d...), msg: msg, mi: mi, ai: ai, xi: xi, sb: sb, apx: apx})
			f.ReturnToPool()
		}
		return nil
	}
	for _, mt := range allTypes {
		for _, ms := range msgSizes {
			for _, ss := range sbSizes {
				as := apxSizes[c.Rng.IntN(len(apxSizes))]
				off, ovh := c.Rng.IntN(101), c.Rng.IntN(101)
				if err := buildOne(mt, ms, ss, as, off, ovh, c.Rng.IntN(c.Pick(4, 1)) == 0); err != nil {
					return err
				}
			}
		}
		for _, ms := range bigSizes {
			if err := buildOne(mt, ms, sbSizes[c.Rng.IntN(len(sbSizes))], apxSizes[c.Rng.IntN(len(apxSizes))], 12, 16, c.Rng.IntN(c.Pick(12, 3)) == 0); err != nil {
				return err
			}
		}
	}
	// error cases and unknown types
	for i, n := 0, c.Pick(40, 200); i < n; i++ {
		mt := frame.MessageType(c.Rng.IntN(256))
		ms := []int{0, 1, 10000, 10001, 20000}[c.Rng.IntN(5)]
		ss := []int{0, 255, 256, 300}[c.Rng.IntN(4)]
		as := []int{0, 10000, 10001}[c.Rng.IntN(3)]
		if ms+as > 12000 && c.Rng.IntN(4) != 0 {
			as = 0
		}
		if err := buildOne(mt, ms, ss, as, 0, 0, ms+as+ss < 3000 || i%8 == 0); err != nil {
			return err
		}
	}
	builder.SetFrameMargins(0, 0)

	// ---------- (b) ParseFrame vs parse on arbitrary and damaged bytes ----------
	c.CoqSetup("Prelude Gen SeqCorr Frame FrameCorr", "c02_pcase", "c02_pok")
	parseCase := func(data []byte, kind string) {
		var f frame.Frame
		var err error
		panicked, _ := recoverPanic(func() { f, err = builder.ParseFrame(append([]byte(nil), data...), nil, 0) })
		c.Eval()
		code, mi, ai, xi := 0, 0, 0, 0
		switch {
		case panicked:
			code = 3
			c.Violate("ParseFrame panicked", "parse-panic", map[string]any{"bytes": data})
		case errors.Is(err, frame.ErrUnsupportedFrameVersion):
			code = 4
		case err != nil:
			code = 1
		default:
			mi, ai, xi, _, _, _, _ = f.(*frame.FrameV1).VerifIndices()
		}
		c.Count(fmt.Sprintf("parse:%s:code%d", kind, code))
		c.Case(fmt.Sprintf("(%s,(%d,%d,%d,%d))", coqBytes(data), code, mi, ai, xi), map[string]any{"kind": "parse-" + kind, "len": len(data)})
	}
	for i, n := 0, c.Pick(300, 3000); i < n; i++ {
		L := c.Rng.IntN(160)
		d := randBytes(c, L)
		if L > 0 && c.Rng.IntN(4) > 0 {
			d[0] = 1
		}
		if L > 48 && c.Rng.IntN(2) == 0 {
			d[48] = byte(c.Rng.IntN(8))
		}
		parseCase(d, "random")
	}
	for i, n := 0, c.Pick(200, 2000); i < n && len(sealed) > 0; i++ {
		s := sealed[c.Rng.IntN(len(sealed))]
		if len(s.bytes) > 700 {
			continue
		}
		d := append([]byte(nil), s.bytes...)
		switch c.Rng.IntN(4) {
		case 0: // truncate
			d = d[:c.Rng.IntN(len(d)+1)]
			parseCase(d, "truncated")
		case 1: // damage switch block length
			d[48] = byte(c.Rng.IntN(256))
			parseCase(d, "sbLen")
		case 2: // damage message length
			d[s.mi+c.Rng.IntN(2)] = byte(c.Rng.IntN(256))
			parseCase(d, "msgLen")
		default: // damage type
			d[4] = byte(c.Rng.IntN(256))
			parseCase(d, "type")
		}
	}

	// ---------- (c) real primitives over the ranges; (d) mutations ----------
	inKey, _ := sba.Encryption().VerifKeys() // B's in-key = A's out-key
	aead, err := chacha20poly1305.New(inKey)
	if err != nil {
		return err
	}
	mutBudget := c.Pick(70, 600)
	for si, s := range sealed {
		d := s.bytes
		cls := s.mt.Class()
		clsName := map[frame.MessageClass]string{frame.MessageClassSigned: "signed", frame.MessageClassPriorityEncrypted: "prio-enc", frame.MessageClassEncrypted: "enc"}[cls]
		z := append([]byte(nil), d...)
		z[1], z[2] = 0, 0
		// (c) layout track
		c.CoqSetup("Prelude Gen SeqCorr Frame FrameCorr", "c02_rcase", "c02_rok")
		emitRanges := len(d) < 800 || si%9 == 0
		if cls == frame.MessageClassSigned {
			m, sg := z[:s.ai], d[s.ai:s.xi]
			if !ed25519.Verify(a.id.PublicKey, m, sg) {
				c.Violate("signature of a sealed frame does not verify over data[:authIndex] with TTL/flow zeroed", "layout-signed", map[string]any{"type": s.mt, "len": len(d)})
			}
			if emitRanges {
				c.Case(fmt.Sprintf("(%s,(1,%s,%s,[]))", coqBytes(d), coqBytes(m), coqBytes(sg)), map[string]any{"kind": "ranges-signed", "type": s.mt, "len": len(d)})
			}
		} else {
			nonce, aad, ct := d[4:16], z[:s.mi+2], d[s.mi+2:s.xi]
			pt, err := aead.Open(nil, nonce, ct, aad)
			if err != nil || !bytes.Equal(pt, s.msg) {
				c.Violate("sealed frame does not open with nonce=data[4:16], aad=data[:messageIndex+2], ct=message++auth", "layout-aead", map[string]any{"type": s.mt, "len": len(d)})
			}
			if emitRanges {
				c.Case(fmt.Sprintf("(%s,(2,%s,%s,%s))", coqBytes(d), coqBytes(nonce), coqBytes(aad), coqBytes(ct)), map[string]any{"kind": "ranges-sealed", "type": s.mt, "len": len(d)})
			}
			// no payload in clear
			if len(s.msg) >= 16 && bytes.Contains(d, s.msg[:16]) {
				c.Violate("payload bytes appear in clear in an encrypted-class frame", "clear-payload", map[string]any{"type": s.mt, "len": len(d)})
			}
		}
		c.Eval()
		// round trip under the right session
		ok, payload, pan := unsealCopy(builder, sba, d)
		if pan || !ok || !bytes.Equal(payload, s.msg) {
			c.Violate(fmt.Sprintf("sealed %s frame does not unseal to the original payload at the receiver", clsName), "roundtrip-"+clsName, map[string]any{"type": s.mt, "len": len(d), "sb": len(s.sb)})
			continue
		}
		// wrong sessions
		if ok, _, _ := unsealCopy(builder, sbc, d); ok {
			c.Violate("frame of A unsealed under B's session for a different sender C", "wrong-sender-"+clsName, map[string]any{"type": s.mt})
		}
		if cls != frame.MessageClassSigned {
			if ok, _, _ := unsealCopy(builder, sca, d); ok {
				c.Violate("encrypted frame for B unsealed under C's session for A (different receiver)", "wrong-receiver-"+clsName, map[string]any{"type": s.mt})
			}
		}
		c.Count("roundtrip:" + clsName)
		// (d) mutations
		if mutBudget <= 0 && len(d) > 400 {
			continue
		}
		positions := make([]int, 0, len(d))
		if len(d) <= 400 {
			for i := range d {
				positions = append(positions, i)
			}
		} else {
			// header, length fields, boundaries and a sample
			for i := 0; i < 52 && i < len(d); i++ {
				positions = append(positions, i)
			}
			for _, p := range []int{s.mi - 1, s.mi, s.mi + 1, s.mi + 2, s.ai - 1, s.ai, s.xi - 1, s.xi, len(d) - 1} {
				if p >= 52 && p < len(d) {
					positions = append(positions, p)
				}
			}
			for k := 0; k < 24; k++ {
				positions = append(positions, 52+c.Rng.IntN(len(d)-52))
			}
		}
		bits := []int{c.Rng.IntN(8)}
		if c.Thorough() && len(d) <= 200 {
			bits = []int{0, 1, 2, 3, 4, 5, 6, 7}
		}
		var muts, verd []string
		for _, pos := range positions {
			for _, bit := range bits {
				if len(bits) == 1 {
					bit = c.Rng.IntN(8)
				}
				md := append([]byte(nil), d...)
				md[pos] ^= 1 << uint(bit)
				ok, payload, pan := unsealCopy(builder, sba, md)
				c.Eval()
				region := regionOf(pos, s.mi, s.ai, s.xi)
				free := region == "ttl" || region == "flow" || region == "apx"
				c.NonTrivial(fmt.Sprintf("%s/%s/%v", clsName, region, ok))
				c.Count("mut:" + region)
				rep := map[string]any{"type": s.mt, "len": len(d), "pos": pos, "bit": bit, "region": region, "frame": d}
				switch {
				case pan:
					c.Violate("parse/unseal of a mutated frame panicked", "mut-panic", rep)
				case free && (!ok || !bytes.Equal(payload, s.msg)):
					c.Violate(fmt.Sprintf("changing the %s invalidated a frame", region), "free-"+region, rep)
				case !free && ok:
					c.Violate(fmt.Sprintf("frame with a changed %s byte unsealed", region), "tamper-"+region, rep)
				case !free && (pos < 16 || c.Rng.IntN(6) == 0) && func() bool {
					// ... and the other way round: the genuine frame was accepted first; a copy that differs in a
					// protected byte (for sequence fields: also one that only moves the sequence forward) is still rejected
					c.Eval()
					c.Count("tampered-after-accepted:" + region)
					gok, tok, tpan := unsealAfterAccepted(builder, sba, d, md)
					if tpan || !gok || tok {
						c.Violate(fmt.Sprintf("after the genuine frame was accepted, a copy with a changed %s byte unsealed on the same session", region), "tamper-after-accepted-"+region, rep)
					}
					return false
				}():
				case !free && (pos < 52 || len(d) <= 400 || c.Rng.IntN(4) == 0):
					// the rejected frame leaves no trace: the genuine frame, arriving after it, still unseals
					c.Eval()
					c.Count("genuine-after-rejected:" + region)
					tok, gok, gpl, gpan := unsealAfterRejected(builder, sba, md, d)
					if gpan || tok || !gok || !bytes.Equal(gpl, s.msg) {
						c.Violate(fmt.Sprintf("after a frame with a changed %s byte was rejected, the genuine frame of the same sender no longer unseals to its payload (the rejected frame changed the receiver's replay state)", region), "rejected-frame-side-effect-"+region, rep)
					}
				}
				muts = append(muts, fmt.Sprintf("(%d,%d)", pos, md[pos]))
				verd = append(verd, coqBool(ok))
			}
		}
		if len(d) <= 400 && (mutBudget > 0) {
			mutBudget--
			c.CoqSetup("Prelude Gen SeqCorr Frame FrameCorr", "c02_mcase", "c02_mok")
			c.Case(fmt.Sprintf("(%s,%s,%s)", coqBytes(d), coqList(muts), coqList(verd)), map[string]any{"kind": "mutations", "type": s.mt, "len": len(d), "n": len(muts)})
			if si < 3 {
				c.Sample(map[string]any{"kind": "mutations", "type": s.mt, "len": len(d), "positions": len(positions)})
			}
		}
		// whole-frame variants: TTL / flow / appendix replaced, removed, extended; truncation into auth
		c.CoqSetup("Prelude Gen SeqCorr Frame FrameCorr", "c02_vcase", "c02_vok")
		variants := [][]byte{}
		v1 := append([]byte(nil), d...)
		v1[1], v1[2] = byte(c.Rng.IntN(256)), byte(c.Rng.IntN(256))
		variants = append(variants, v1)
		variants = append(variants, append(append([]byte(nil), d[:s.xi]...), randBytes(c, c.Rng.IntN(80))...)) // other appendix
		variants = append(variants, append([]byte(nil), d[:s.xi]...))                                          // no appendix
		variants = append(variants, append([]byte(nil), d[:s.xi-1]...))                                        // cut into auth
		for vi, v := range variants {
			ok, payload, pan := unsealCopy(builder, sba, v)
			c.Eval()
			wantOK := vi < 3
			c.NonTrivial(fmt.Sprintf("%s/variant%d/%v", clsName, vi, ok))
			rep := map[string]any{"type": s.mt, "variant": vi, "frame": d}
			if pan {
				c.Violate("parse/unseal of a frame variant panicked", "var-panic", rep)
			} else if wantOK && (!ok || !bytes.Equal(payload, s.msg)) {
				c.Violate("changing TTL/flow/appendix invalidated a frame", "free-variant", rep)
			} else if !wantOK && ok {
				c.Violate("truncated frame unsealed", "tamper-trunc", rep)
			}
			if len(d) <= 400 {
				c.Case(fmt.Sprintf("(%s,%s,%s)", coqBytes(d), coqBytes(v), coqBool(ok)), map[string]any{"kind": "variant", "type": s.mt, "variant": vi})
			}
		}
		if si%3 == 0 {
			apiVariants(c, relayBuilder, builder, sba, d, s.xi, s.msg, int(s.mt))
		}
	}
	_ = netip.Addr{}
	return nil
}

// apiVariants changes the hop-mutable fields of a sealed frame through the frame API (as a
// forwarding router does: SetTTL, SetFlowFlag, SetAppendixData incl. sizes that force the frame
// into a bigger pooled buffer), then requires that the receiver still unseals the same payload and
// that every byte before the appendix, except TTL and flow flags, is unchanged.
func apiVariants(c *Ctx, relay *frame.Builder, recvB *frame.Builder, recvS *state.Session, d []byte, xi int, msg []byte, mt int) {
	for _, n := range []int{0, 7, 80, 520, 1500, 2000, 5000, 9000} {
		ps := relay.GetPooledSlice(len(d))
		if ps == nil {
			continue
		}
		copy(ps, d)
		f, err := relay.ParseFrame(ps[:len(d)], ps, 0)
		if err != nil {
			relay.ReturnPooledSlice(ps)
			continue
		}
		apx := randBytes(c, n)
		f.SetTTL(uint8(1 + c.Rng.IntN(200)))
		f.SetFlowFlag(frame.FlowControlFlagHoldFlow)
		serr := f.SetAppendixData(apx)
		out, derr := f.FrameDataWithMargins(0, 0)
		c.Eval()
		rep := map[string]any{"type": mt, "appendix": n, "frame_len": len(d)}
		if serr != nil || derr != nil {
			// refusing an appendix that cannot fit is allowed; the frame must then be unchanged
			f.ReturnToPool()
			continue
		}
		cp := append([]byte(nil), out...)
		f.ReturnToPool()
		if len(cp) < xi || !bytes.Equal(cp[3:xi], d[3:xi]) || cp[0] != d[0] {
			c.Violate("changing the appendix through the frame API altered a byte before the appendix", "api-appendix-altered", rep)
			continue
		}
		if !bytes.Equal(cp[xi:], apx) {
			c.Violate("the appendix set through the frame API is not the appendix of the frame", "api-appendix-wrong", rep)
		}
		ok, payload, pan := unsealCopy(recvB, recvS, cp)
		if pan {
			c.Violate("parse/unseal panicked after an appendix change through the frame API", "var-panic", rep)
		} else if !ok || !bytes.Equal(payload, msg) {
			c.Violate("changing TTL/flow/appendix through the frame API invalidated a sealed frame", "free-variant-api", rep)
		}
		c.NonTrivial(fmt.Sprintf("api-appendix/%d/%v", n, ok))
	}
}
