package main

// gen_translate_imp.go — third translator: functions that MUTATE one byte slice in place, with
// loops.  Targets: m.NextRotateSwitchBlock and m.TransformToReturnBlock (m/switch_label.go), the
// two functions every label-switched frame goes through at every hop.
//
//   the []byte parameter        ->  a list N, renamed on every mutation (block, block_1, ...);
//                                   the function's result carries the final contents
//   x := block[a:b]             ->  a VIEW (lo, hi) of the same memory: reads and writes through x
//                                   are reads and writes of block[lo+i] (Go aliasing)
//   integers (any width), bool  ->  Z, bool; conversion to a narrower unsigned type wraps (mod 2^w)
//   data[i], x[i]               ->  go_at, guarded by go_inb;  data[a:b] guarded by go_inr
//                                   (bounds against the LENGTH, as in gen_translate_dec.go)
//   for i := 0; i < len(s); i++ ->  a top-level Fixpoint on fuel = len(s) whose state is the
//                                   variables the body assigns plus the memory; `break` (also
//                                   labelled) returns the state, `panic` returns None
//   binary.Uvarint, binary.PutUvarint, copy, clear, slices.Reverse
//                               ->  go_uvarint, go_put_uvarint, go_copy, go_clear, go_reverse of the
//                                   generated prelude (library semantics, part of the trusted base)
//   return v, nil / return v, ErrX / panic(..)  ->  IOk [v] mem / IErr k / IPanic

import (
	"fmt"
	"go/ast"
	"go/token"
	"go/types"
	"os"
	"path/filepath"
	"sort"
	"strings"
)

func init() {
	genSections = append(genSections, genTranslatedImp)
}

var impTargets = []trTarget{
	{"m", "", "NextRotateSwitchBlock"},
	{"m", "", "TransformToReturnBlock"},
	{"m", "SwitchPath", "CalculateBlockSize"},
}

const impPrelude = `(* ---- in-place byte-slice functions translated by harness/gen_translate_imp.go ----
   memory = list N; a view (lo, hi) addresses mem[lo..hi); library functions modelled here *)
Inductive ires := IOk (vals : list Z) (mem : list N) | IErr (site : N) | IPanic.
Definition go_set (m : list N) (i : Z) (v : Z) : list N :=
  firstn (Z.to_nat i) m ++ Z.to_N v :: skipn (S (Z.to_nat i)) m.
Definition go_slice (m : list N) (lo hi : Z) : list N := firstn (Z.to_nat (hi - lo)) (skipn (Z.to_nat lo) m).
Definition go_put (m : list N) (lo : Z) (v : list N) : list N :=
  firstn (Z.to_nat lo) m ++ v ++ skipn (Z.to_nat lo + length v) m.
(* copy(dst, src), both views of the same memory (memmove): returns the memory and n *)
Definition go_copy (m : list N) (dlo dhi slo shi : Z) : list N * Z :=
  let n := Z.min (dhi - dlo) (shi - slo) in (go_put m dlo (go_slice m slo (slo + n)), n).
Definition go_clear (m : list N) (lo hi : Z) : list N := go_put m lo (repeat 0%N (Z.to_nat (hi - lo))).
Definition go_reverse (m : list N) (lo hi : Z) : list N := go_put m lo (rev (go_slice m lo hi)).
(* encoding/binary.Uvarint on a view: (value, n) with n = 0 buffer too small, n < 0 overflow *)
Fixpoint go_uvarint_go (buf : list N) (i : nat) (x s : N) : Z * Z :=
  match buf with
  | [] => (0, 0)%Z
  | b :: t =>
    if Nat.eqb i 10 then (0, - Z.of_nat (i + 1))%Z
    else if (b <? 128)%N then
      if andb (Nat.eqb i 9) (1 <? b)%N then (0, - Z.of_nat (i + 1))%Z
      else (Z.of_N (N.lor x (N.shiftl b s) mod 2 ^ 64), Z.of_nat (i + 1))
    else go_uvarint_go t (S i) (N.lor x (N.shiftl (b mod 128) s) mod 2 ^ 64)%N (s + 7)%N
  end.
Definition go_uvarint (m : list N) (lo hi : Z) : Z * Z := go_uvarint_go (go_slice m lo hi) 0 0%N 0%N.
(* encoding/binary.PutUvarint: the bytes of v; the caller's slice must hold them *)
Fixpoint go_varint_bytes (fuel : nat) (v : N) : list N :=
  match fuel with
  | O => [v]
  | S f => if (v <? 128)%N then [v] else (v mod 128 + 128)%N :: go_varint_bytes f (v / 128)%N
  end.
Definition go_put_uvarint (m : list N) (lo hi : Z) (v : Z) : option (list N) :=
  let bs := go_varint_bytes 10 (Z.to_N v) in
  if (Z.of_nat (length bs) <=? hi - lo)%Z then Some (go_put m lo bs) else None.

`

type impVar struct {
	name string
	kind string // "Z" | "bool"
}

type impCont struct {
	next   func(d int) string
	brk    func(d int) string            // unlabelled break target (nil: none)
	labels map[string]func(d int) string // labelled break targets
}

type impTr struct {
	p       *trPkg
	fn      *ast.FuncDecl
	fname   string
	memObj  types.Object
	mem     string
	memN    int
	views   map[types.Object][2]string
	vars    map[types.Object]impVar
	order   []types.Object
	taken   map[string]bool
	loops   []string
	nLoops  int
	sites   int
	siteDoc []string
	inLoop  bool // inside a generated loop function (results are options)
	depth   int
	hopsObj types.Object // receiver whose .Hops is the read-only hop list
}

func (t *impTr) text(n ast.Node) string { return nodeText(t.p.fset, n) }

func (t *impTr) fresh(base string) string {
	n := base
	for i := 1; t.taken[n]; i++ {
		n = fmt.Sprintf("%s_%d", base, i)
	}
	t.taken[n] = true
	return n
}

func (t *impTr) newMem() string {
	t.memN++
	t.mem = t.fresh(fmt.Sprintf("mem_%d", t.memN))
	return t.mem
}

func (t *impTr) obj(id *ast.Ident) types.Object {
	if o := t.p.info.Defs[id]; o != nil {
		return o
	}
	return t.p.info.Uses[id]
}

// view: e denotes (part of) the memory -> lo, hi terms; guards for slice expressions go to g.
func (t *impTr) view(e ast.Expr, g *decGuards) (lo, hi string, ok bool) {
	switch v := e.(type) {
	case *ast.ParenExpr:
		return t.view(v.X, g)
	case *ast.Ident:
		o := t.p.info.Uses[v]
		if o != nil && o == t.memObj {
			return "0%Z", "(go_len " + t.mem + ")", true
		}
		if vw, isV := t.views[o]; isV {
			return vw[0], vw[1], true
		}
	case *ast.SliceExpr:
		if v.Slice3 {
			return "", "", false
		}
		blo, bhi, isV := t.view(v.X, g)
		if !isV {
			return "", "", false
		}
		lo, hi = blo, bhi
		rlo, rhi := "0%Z", "("+bhi+" - "+blo+")%Z"
		if v.Low != nil {
			rlo = t.expr(v.Low, g)
			lo = "(" + blo + " + " + rlo + ")%Z"
		}
		if v.High != nil {
			rhi = t.expr(v.High, g)
			hi = "(" + blo + " + " + rhi + ")%Z"
		}
		g.add(fmt.Sprintf("go_inr (%s - %s)%%Z %s %s", bhi, blo, rlo, rhi))
		return lo, hi, true
	}
	return "", "", false
}

func (t *impTr) expr(e ast.Expr, g *decGuards) string {
	if tv, ok := t.p.info.Types[e]; ok && tv.Value != nil {
		switch tv.Value.Kind().String() {
		case "Int":
			return "(" + tv.Value.ExactString() + ")%Z"
		case "Bool":
			return tv.Value.String()
		}
	}
	switch v := e.(type) {
	case *ast.ParenExpr:
		return t.expr(v.X, g)
	case *ast.BasicLit:
		if v.Kind == token.INT {
			return "(" + v.Value + ")%Z"
		}
	case *ast.Ident:
		if v.Name == "true" || v.Name == "false" {
			return v.Name
		}
		if o := t.p.info.Uses[v]; o != nil {
			if iv, ok := t.vars[o]; ok {
				return iv.name
			}
		}
		trFail("identifier %s is not a scalar variable of the function", v.Name)
	case *ast.UnaryExpr:
		switch v.Op {
		case token.NOT:
			return "(negb " + t.expr(v.X, g) + ")"
		case token.SUB:
			return "(- " + t.expr(v.X, g) + ")%Z"
		}
	case *ast.BinaryExpr:
		if v.Op == token.LAND || v.Op == token.LOR {
			var gl, gr decGuards
			l, r := t.expr(v.X, &gl), t.expr(v.Y, &gr)
			if len(gr.g) > 0 {
				trFail("index expression under a short-circuit operator")
			}
			g.g = append(g.g, gl.g...)
			if v.Op == token.LAND {
				return "(andb " + l + " " + r + ")"
			}
			return "(orb " + l + " " + r + ")"
		}
		l, r := t.expr(v.X, g), t.expr(v.Y, g)
		switch v.Op {
		case token.ADD:
			return "(" + l + " + " + r + ")%Z"
		case token.SUB:
			return "(" + l + " - " + r + ")%Z"
		case token.MUL:
			return "(" + l + " * " + r + ")%Z"
		case token.LSS:
			return "(" + l + " <? " + r + ")%Z"
		case token.LEQ:
			return "(" + l + " <=? " + r + ")%Z"
		case token.GTR:
			return "(" + r + " <? " + l + ")%Z"
		case token.GEQ:
			return "(" + r + " <=? " + l + ")%Z"
		case token.EQL:
			return "(" + l + " =? " + r + ")%Z"
		case token.NEQ:
			return "(negb (" + l + " =? " + r + ")%Z)"
		}
	case *ast.SelectorExpr:
		// sp.Hops[i].ForwardLabel / .ReturnLabel
		if ix, ok := v.X.(*ast.IndexExpr); ok && t.isHops(ix.X) && (v.Sel.Name == "ForwardLabel" || v.Sel.Name == "ReturnLabel") {
			i := t.expr(ix.Index, g)
			g.add(fmt.Sprintf("go_inb (Z.of_nat (length hops)) %s", i))
			proj := "fst"
			if v.Sel.Name == "ReturnLabel" {
				proj = "snd"
			}
			return fmt.Sprintf("(Z.of_N (%s (nth (Z.to_nat %s) hops (0%%N, 0%%N))))", proj, i)
		}
	case *ast.IndexExpr:
		if lo, hi, ok := t.view(v.X, g); ok {
			i := t.expr(v.Index, g)
			g.add(fmt.Sprintf("go_inb (%s - %s)%%Z %s", hi, lo, i))
			return fmt.Sprintf("(go_at %s (%s + %s)%%Z)", t.mem, lo, i)
		}
	case *ast.CallExpr:
		fun := t.text(v.Fun)
		if len(v.Args) == 1 {
			if tv, ok := t.p.info.Types[v.Fun]; ok && tv.IsType() {
				if b, ok := tv.Type.Underlying().(*types.Basic); ok && b.Info()&types.IsInteger != 0 {
					x := t.expr(v.Args[0], g)
					switch b.Kind() {
					case types.Uint8:
						return "(" + x + " mod 256)%Z"
					case types.Uint16:
						return "(" + x + " mod 65536)%Z"
					case types.Uint32:
						return "(" + x + " mod 4294967296)%Z"
					}
					return x
				}
			}
		}
		if fun == "len" && len(v.Args) == 1 && t.isHops(v.Args[0]) {
			return "(Z.of_nat (length hops))"
		}
		if fun == "len" && len(v.Args) == 1 {
			if lo, hi, ok := t.view(v.Args[0], g); ok {
				return "(" + hi + " - " + lo + ")%Z"
			}
		}
		if sel, ok := v.Fun.(*ast.SelectorExpr); ok && len(v.Args) == 0 && sel.Sel.Name == "EncodedSize" {
			if inner, ok := sel.X.(*ast.SelectorExpr); ok && (inner.Sel.Name == "ForwardLabel" || inner.Sel.Name == "ReturnLabel") {
				return fmt.Sprintf("(go_SwitchLabel_EncodedSize (Z.to_N %s))", t.expr(sel.X, g))
			}
		}
		if sel, ok := v.Fun.(*ast.SelectorExpr); ok && len(v.Args) == 0 {
			if tv, ok := t.p.info.Types[sel.X]; ok && tv.Type != nil {
				if named, ok := tv.Type.(*types.Named); ok {
					for _, tg := range trTargets {
						if tg.recv == named.Obj().Name() && tg.name == sel.Sel.Name {
							return fmt.Sprintf("(go_%s_%s (Z.to_N %s))", tg.recv, tg.name, t.expr(sel.X, g))
						}
					}
				}
			}
		}
	}
	trFail("unsupported expression %s", t.text(e))
	return ""
}

// isHops: e is <receiver>.Hops
func (t *impTr) isHops(e ast.Expr) bool {
	sel, ok := e.(*ast.SelectorExpr)
	if !ok || sel.Sel.Name != "Hops" || t.hopsObj == nil {
		return false
	}
	x, ok := sel.X.(*ast.Ident)
	return ok && t.p.info.Uses[x] == t.hopsObj
}

func (t *impTr) kindOf(e ast.Expr) string {
	switch v := e.(type) {
	case *ast.ParenExpr:
		return t.kindOf(v.X)
	case *ast.BinaryExpr:
		switch v.Op {
		case token.LSS, token.LEQ, token.GTR, token.GEQ, token.EQL, token.NEQ, token.LAND, token.LOR:
			return "bool"
		case token.ADD, token.SUB, token.MUL:
			return "Z"
		}
	case *ast.UnaryExpr:
		if v.Op == token.NOT {
			return "bool"
		}
	}
	if tv, ok := t.p.info.Types[e]; ok && tv.Type != nil {
		if b, ok := tv.Type.Underlying().(*types.Basic); ok {
			if b.Info()&types.IsBoolean != 0 {
				return "bool"
			}
			if b.Info()&types.IsInteger != 0 {
				return "Z"
			}
		}
	}
	return ""
}

func (t *impTr) define(o types.Object, kind string) string {
	n := t.fresh("v_" + o.Name())
	if _, seen := t.vars[o]; !seen {
		t.order = append(t.order, o)
	}
	t.vars[o] = impVar{n, kind}
	return n
}

func (t *impTr) guarded(d int, g *decGuards, body string) string {
	if len(g.g) == 0 {
		return body
	}
	cond := g.g[0]
	for _, x := range g.g[1:] {
		cond = "andb (" + cond + ") (" + x + ")"
	}
	fail := "IPanic"
	if t.inLoop {
		fail = "None"
	}
	return fmt.Sprintf("%sif negb (%s) then %s else\n%s", decInd(d), cond, fail, body)
}

// memCall translates a call that mutates the memory (or reads it through a library function);
// defs are the identifiers receiving results (nil entries for blanks / no results).
func (t *impTr) memCall(c *ast.CallExpr, defs []*ast.Ident, d int, next func(d int) string) (string, bool) {
	fun := t.text(c.Fun)
	if i := strings.Index(fun, "["); i > 0 { // explicit type arguments: slices.Reverse[[]byte, byte]
		fun = fun[:i]
	}
	var g decGuards
	bind := func(k int, kind string) string {
		if k < len(defs) && defs[k] != nil && defs[k].Name != "_" {
			return t.define(t.obj(defs[k]), kind)
		}
		return t.fresh("unused")
	}
	switch fun {
	case "copy":
		if len(c.Args) == 2 {
			dlo, dhi, ok1 := t.view(c.Args[0], &g)
			slo, shi, ok2 := t.view(c.Args[1], &g)
			if ok1 && ok2 {
				old := t.mem
				nm := t.newMem()
				n := bind(0, "Z")
				return t.guarded(d, &g, fmt.Sprintf("%slet '(%s, %s) := go_copy %s %s %s %s %s in\n%s", decInd(d), nm, n, old, dlo, dhi, slo, shi, next(d))), true
			}
		}
	case "clear":
		if len(c.Args) == 1 {
			if lo, hi, ok := t.view(c.Args[0], &g); ok {
				old := t.mem
				nm := t.newMem()
				return t.guarded(d, &g, fmt.Sprintf("%slet %s := go_clear %s %s %s in\n%s", decInd(d), nm, old, lo, hi, next(d))), true
			}
		}
	case "slices.Reverse":
		if len(c.Args) == 1 {
			if lo, hi, ok := t.view(c.Args[0], &g); ok {
				old := t.mem
				nm := t.newMem()
				return t.guarded(d, &g, fmt.Sprintf("%slet %s := go_reverse %s %s %s in\n%s", decInd(d), nm, old, lo, hi, next(d))), true
			}
		}
	case "binary.PutUvarint":
		if len(c.Args) == 2 {
			if lo, hi, ok := t.view(c.Args[0], &g); ok {
				v := t.expr(c.Args[1], &g)
				old := t.mem
				nm := t.newMem()
				return t.guarded(d, &g, fmt.Sprintf("%smatch go_put_uvarint %s %s %s %s with\n%s| None => %s\n%s| Some %s =>\n%s\n%send", decInd(d), old, lo, hi, v, decInd(d), map[bool]string{true: "None", false: "IPanic"}[t.inLoop], decInd(d), nm, next(d+1), decInd(d))), true
			}
		}
	case "binary.Uvarint":
		if len(c.Args) == 1 {
			if lo, hi, ok := t.view(c.Args[0], &g); ok {
				a, b := bind(0, "Z"), bind(1, "Z")
				return t.guarded(d, &g, fmt.Sprintf("%slet '(%s, %s) := go_uvarint %s %s %s in\n%s", decInd(d), a, b, t.mem, lo, hi, next(d))), true
			}
		}
	}
	return "", false
}

// assigned: scalar variables (declared outside n) that n assigns, and whether n writes the memory.
func (t *impTr) assigned(n ast.Node) (vars []types.Object, writes bool) {
	seen := map[types.Object]bool{}
	declared := map[types.Object]bool{}
	ast.Inspect(n, func(x ast.Node) bool {
		switch v := x.(type) {
		case *ast.AssignStmt:
			for _, l := range v.Lhs {
				switch lv := l.(type) {
				case *ast.Ident:
					if v.Tok == token.DEFINE {
						if o := t.p.info.Defs[lv]; o != nil {
							declared[o] = true
						}
						continue
					}
					if o := t.p.info.Uses[lv]; o != nil && !declared[o] && !seen[o] {
						if _, isVar := t.vars[o]; isVar {
							seen[o] = true
							vars = append(vars, o)
						}
					}
				case *ast.IndexExpr:
					writes = true
				}
			}
		case *ast.CallExpr:
			f := t.text(v.Fun)
			if strings.HasPrefix(f, "copy") || strings.HasPrefix(f, "clear") || strings.HasPrefix(f, "slices.Reverse") || strings.HasPrefix(f, "binary.PutUvarint") {
				writes = true
			}
		}
		return true
	})
	// state order = declaration order
	sort.SliceStable(vars, func(a, b int) bool {
		ia, ib := -1, -1
		for k, o := range t.order {
			if o == vars[a] {
				ia = k
			}
			if o == vars[b] {
				ib = k
			}
		}
		return ia < ib
	})
	return vars, writes
}

func (t *impTr) loop(f *ast.ForStmt, label string, d int, k impCont) string {
	// shape: for i := INIT; i < BOUND (or <=); i++   with BOUND not assigned in the body
	init, ok := f.Init.(*ast.AssignStmt)
	if !ok || init.Tok != token.DEFINE || len(init.Lhs) != 1 {
		trFail("unsupported loop header")
	}
	iv := init.Lhs[0].(*ast.Ident)
	cond, ok := f.Cond.(*ast.BinaryExpr)
	if !ok || (cond.Op != token.LSS && cond.Op != token.LEQ) || t.text(cond.X) != iv.Name {
		trFail("unsupported loop condition")
	}
	if inc, ok := f.Post.(*ast.IncDecStmt); !ok || inc.Tok != token.INC || t.text(inc.X) != iv.Name {
		trFail("unsupported loop increment")
	}
	var g0 decGuards
	initT := t.expr(init.Rhs[0], &g0)
	bound := t.expr(cond.Y, &g0) // evaluated in the current environment: the fuel
	if len(g0.g) > 0 {
		trFail("guarded loop bound")
	}
	fuelT := "(Z.to_nat (" + bound + " - " + initT + ")%Z)"
	if cond.Op == token.LEQ {
		fuelT = "(Z.to_nat (" + bound + " - " + initT + " + 1)%Z)"
	}
	state, _ := t.assigned(f.Body)
	for _, o := range state {
		bad := false
		ast.Inspect(cond.Y, func(n ast.Node) bool {
			if id, ok := n.(*ast.Ident); ok && t.p.info.Uses[id] == o {
				bad = true
			}
			return true
		})
		if bad {
			trFail("loop bound is assigned in the loop body")
		}
	}
	t.nLoops++
	lname := fmt.Sprintf("%s_loop%d", t.fname, t.nLoops)
	// parameters: fuel, i, memory, every scalar variable currently defined (state ones are threaded)
	type pv struct {
		o    types.Object
		name string
		kind string
	}
	var params []pv
	for _, o := range t.order {
		if iv2, ok := t.vars[o]; ok {
			params = append(params, pv{o, iv2.name, iv2.kind})
		}
	}
	// views are expressed over scalar variables and (go_len mem): they stay valid inside
	outerMem, outerVars, outerOrder := t.mem, map[types.Object]impVar{}, append([]types.Object(nil), t.order...)
	for a, b := range t.vars {
		outerVars[a] = b
	}
	outTuple := func() string { // current values of the state variables and the memory
		var parts []string
		for _, o := range state {
			parts = append(parts, t.vars[o].name)
		}
		parts = append(parts, t.mem)
		return "(" + strings.Join(parts, ", ") + ")"
	}
	// ---- body of the Fixpoint ----
	wasInLoop := t.inLoop
	t.inLoop = true
	iName := t.define(t.p.info.Defs[iv], "Z")
	loopMem := t.mem
	recur := func(d int) string {
		args := []string{"fuel'", "(" + iName + " + 1)%Z", t.mem}
		if t.hopsObj != nil {
			args = append(args, "hops")
		}
		for _, p := range params {
			args = append(args, t.vars[p.o].name)
		}
		return decInd(d) + lname + " " + strings.Join(args, " ")
	}
	exit := func(d int) string { return decInd(d) + "Some " + outTuple() }
	labels := map[string]func(d int) string{}
	if label != "" {
		labels[label] = exit
	}
	var gc decGuards
	condT := t.expr(f.Cond, &gc)
	if len(gc.g) > 0 {
		trFail("guarded loop condition")
	}
	body := t.stmts(f.Body.List, 3, impCont{next: recur, brk: exit, labels: labels})
	var ps []string
	ps = append(ps, "(fuel : nat)", fmt.Sprintf("(%s : Z)", iName), fmt.Sprintf("(%s : list N)", loopMem))
	if t.hopsObj != nil {
		ps = append(ps, "(hops : list (N * N))")
	}
	for _, p := range params {
		ps = append(ps, fmt.Sprintf("(%s : %s)", p.name, p.kind))
	}
	var tys []string
	for _, o := range state {
		tys = append(tys, outerVars[o].kind)
	}
	tys = append(tys, "list N")
	exitHere := func() string { // exit with the PARAMETER values (loop condition false / out of fuel)
		var parts []string
		for _, o := range state {
			parts = append(parts, outerVars[o].name)
		}
		parts = append(parts, loopMem)
		return "Some (" + strings.Join(parts, ", ") + ")"
	}
	t.loops = append(t.loops, fmt.Sprintf("Fixpoint %s %s {struct fuel} : option (%s) :=\n  match fuel with\n  | O => %s\n  | S fuel' =>\n    if negb %s then %s else\n%s\n  end.",
		lname, strings.Join(ps, " "), strings.Join(tys, " * "), exitHere(), condT, exitHere(), body))
	t.inLoop = wasInLoop
	// ---- call site ----
	t.mem, t.vars, t.order = outerMem, outerVars, outerOrder
	args := []string{fuelT, initT, t.mem}
	if t.hopsObj != nil {
		args = append(args, "hops")
	}
	for _, p := range params {
		args = append(args, outerVars[p.o].name)
	}
	var pat []string
	for _, o := range state {
		n := t.fresh("v_" + o.Name())
		t.vars[o] = impVar{n, outerVars[o].kind}
		pat = append(pat, n)
	}
	pat = append(pat, t.newMem())
	failT := "IPanic"
	if t.inLoop {
		failT = "None"
	}
	return fmt.Sprintf("%smatch %s %s with\n%s| None => %s\n%s| Some (%s) =>\n%s\n%send", decInd(d), lname, strings.Join(args, " "), decInd(d), failT, decInd(d), strings.Join(pat, ", "), k.next(d+1), decInd(d))
}

func (t *impTr) ret(rs *ast.ReturnStmt, d int) string {
	nres := 0
	if t.fn.Type.Results != nil {
		nres = t.fn.Type.Results.NumFields()
	}
	if t.inLoop {
		trFail("return inside a loop")
	}
	if len(rs.Results) != nres {
		trFail("unsupported return %s", t.text(rs))
	}
	hasErr := false
	if nres > 0 {
		last := t.fn.Type.Results.List[len(t.fn.Type.Results.List)-1]
		hasErr = t.text(last.Type) == "error"
	}
	if hasErr && !isNil(rs.Results[nres-1]) {
		t.sites++
		t.siteDoc = append(t.siteDoc, fmt.Sprintf("%d = %s", t.sites, t.text(rs.Results[nres-1])))
		return fmt.Sprintf("%sIErr %d%%N", decInd(d), t.sites)
	}
	vals := rs.Results
	if hasErr {
		vals = vals[:nres-1]
	}
	var g decGuards
	var outs []string
	for _, v := range vals {
		outs = append(outs, t.expr(v, &g))
	}
	return t.guarded(d, &g, fmt.Sprintf("%sIOk [%s] %s", decInd(d), strings.Join(outs, "; "), t.mem))
}

func (t *impTr) assignScalar(id *ast.Ident, define bool, rhs ast.Expr, d int, next func(d int) string) string {
	var g decGuards
	val := t.expr(rhs, &g)
	o := t.obj(id)
	kind := t.kindOf(rhs)
	if iv, ok := t.vars[o]; ok && !define {
		kind = iv.kind
	}
	if kind == "" {
		trFail("assignment of unsupported type: %s", t.text(rhs))
	}
	n := t.define(o, kind)
	return t.guarded(d, &g, fmt.Sprintf("%slet %s := %s in\n%s", decInd(d), n, val, next(d)))
}

func (t *impTr) stmts(list []ast.Stmt, d int, k impCont) string {
	if len(list) == 0 {
		return k.next(d)
	}
	s, rest := list[0], list[1:]
	next := func(d int) string { return t.stmts(rest, d, k) }
	switch v := s.(type) {
	case *ast.ReturnStmt:
		return t.ret(v, d)
	case *ast.LabeledStmt:
		if f, ok := v.Stmt.(*ast.ForStmt); ok {
			return t.loop(f, v.Label.Name, d, impCont{next: next, brk: k.brk, labels: k.labels})
		}
	case *ast.ForStmt:
		return t.loop(v, "", d, impCont{next: next, brk: k.brk, labels: k.labels})
	case *ast.BranchStmt:
		if v.Tok == token.BREAK {
			if v.Label != nil {
				if f, ok := k.labels[v.Label.Name]; ok {
					return f(d)
				}
			} else if k.brk != nil {
				return k.brk(d)
			}
		}
	case *ast.DeclStmt:
		gd, ok := v.Decl.(*ast.GenDecl)
		if ok && gd.Tok == token.VAR {
			// var ( a = e; b = e ): in order
			var specs []*ast.ValueSpec
			for _, sp := range gd.Specs {
				specs = append(specs, sp.(*ast.ValueSpec))
			}
			var emit func(i int, d int) string
			emit = func(i int, d int) string {
				if i == len(specs) {
					return next(d)
				}
				sp := specs[i]
				if len(sp.Names) == 1 && len(sp.Values) == 0 && t.text(sp.Type) == "int" {
					n := t.define(t.obj(sp.Names[0]), "Z")
					return fmt.Sprintf("%slet %s := 0%%Z in\n%s", decInd(d), n, emit(i+1, d))
				}
				if len(sp.Names) != 1 || len(sp.Values) != 1 {
					trFail("unsupported var declaration %s", t.text(sp))
				}
				return t.assignScalar(sp.Names[0], true, sp.Values[0], d, func(d int) string { return emit(i+1, d) })
			}
			return emit(0, d)
		}
	case *ast.ExprStmt:
		if c, ok := v.X.(*ast.CallExpr); ok {
			if t.text(c.Fun) == "panic" {
				if t.inLoop {
					return decInd(d) + "None"
				}
				return decInd(d) + "IPanic"
			}
			if out, ok := t.memCall(c, nil, d, next); ok {
				return out
			}
		}
	case *ast.AssignStmt:
		// calls with results
		if len(v.Rhs) == 1 {
			if c, ok := v.Rhs[0].(*ast.CallExpr); ok {
				var defs []*ast.Ident
				allIdent := true
				for _, l := range v.Lhs {
					id, ok := l.(*ast.Ident)
					allIdent = allIdent && ok
					defs = append(defs, id)
				}
				if allIdent {
					if out, ok := t.memCall(c, defs, d, next); ok {
						return out
					}
				}
			}
		}
		if len(v.Lhs) == 1 && len(v.Rhs) == 1 && v.Tok == token.ADD_ASSIGN {
			if id, ok := v.Lhs[0].(*ast.Ident); ok {
				var g decGuards
				cur := t.expr(id, &g)
				val := t.expr(v.Rhs[0], &g)
				n := t.define(t.obj(id), "Z")
				return t.guarded(d, &g, fmt.Sprintf("%slet %s := (%s + %s)%%Z in\n%s", decInd(d), n, cur, val, next(d)))
			}
		}
		if len(v.Lhs) == 1 && len(v.Rhs) == 1 && v.Tok == token.DEFINE && t.memObj == nil {
			// sizeSim := make([]int, n): the (only) memory of the function
			if c, ok := v.Rhs[0].(*ast.CallExpr); ok && t.text(c.Fun) == "make" && len(c.Args) == 2 {
				if id, ok := v.Lhs[0].(*ast.Ident); ok {
					var g decGuards
					n := t.expr(c.Args[1], &g)
					t.memObj = t.p.info.Defs[id]
					nm := t.newMem()
					fail := "IPanic"
					if t.inLoop {
						fail = "None"
					}
					return t.guarded(d, &g, fmt.Sprintf("%sif (%s <? 0)%%Z then %s else\n%slet %s := repeat 0%%N (Z.to_nat %s) in\n%s", decInd(d), n, fail, decInd(d), nm, n, next(d)))
				}
			}
		}
		if len(v.Lhs) == 1 && len(v.Rhs) == 1 {
			// x := block[a:b]
			if id, ok := v.Lhs[0].(*ast.Ident); ok && v.Tok == token.DEFINE {
				var g decGuards
				if _, isSlice := v.Rhs[0].(*ast.SliceExpr); isSlice {
					if lo, hi, ok := t.view(v.Rhs[0], &g); ok {
						// freeze the bounds in variables: later mutations do not move the view
						nlo, nhi := t.fresh("v_"+id.Name+"_lo"), t.fresh("v_"+id.Name+"_hi")
						t.views[t.p.info.Defs[id]] = [2]string{nlo, nhi}
						// the frozen bounds are ordinary scalar variables (passed into loops)
						for _, nm := range []string{nlo, nhi} {
							ov := types.NewVar(token.NoPos, nil, nm, types.Typ[types.Int])
							t.order = append(t.order, ov)
							t.vars[ov] = impVar{nm, "Z"}
						}
						return t.guarded(d, &g, fmt.Sprintf("%slet %s := %s in\n%slet %s := %s in\n%s", decInd(d), nlo, lo, decInd(d), nhi, hi, next(d)))
					}
				}
			}
			if id, ok := v.Lhs[0].(*ast.Ident); ok {
				return t.assignScalar(id, v.Tok == token.DEFINE, v.Rhs[0], d, next)
			}
			// block[i] = e
			if ix, ok := v.Lhs[0].(*ast.IndexExpr); ok {
				var g decGuards
				if lo, hi, isV := t.view(ix.X, &g); isV {
					i := t.expr(ix.Index, &g)
					val := t.expr(v.Rhs[0], &g)
					g.add(fmt.Sprintf("go_inb (%s - %s)%%Z %s", hi, lo, i))
					old := t.mem
					nm := t.newMem()
					return t.guarded(d, &g, fmt.Sprintf("%slet %s := go_set %s (%s + %s)%%Z %s in\n%s", decInd(d), nm, old, lo, i, val, next(d)))
				}
			}
		}
	case *ast.IfStmt:
		if v.Init != nil {
			trFail("if with init statement")
		}
		inner := impCont{next: next, brk: k.brk, labels: k.labels}
		thenK := func(d int) string { return t.snapshot(func() string { return t.stmts(v.Body.List, d, inner) }) }
		var elseK func(d int) string
		switch e := v.Else.(type) {
		case nil:
			elseK = func(d int) string { return t.snapshot(func() string { return next(d) }) }
		case *ast.BlockStmt:
			elseK = func(d int) string { return t.snapshot(func() string { return t.stmts(e.List, d, inner) }) }
		default:
			trFail("else-if chains are not supported")
		}
		return t.condBranch(v.Cond, thenK, elseK, d)
	case *ast.SwitchStmt:
		if v.Init != nil || v.Tag != nil {
			trFail("unsupported switch")
		}
		// tagless switch: an if-chain; an unlabelled break leaves the switch
		var clauses []*ast.CaseClause
		var def *ast.CaseClause
		for _, cc := range v.Body.List {
			c := cc.(*ast.CaseClause)
			if c.List == nil {
				def = c
			} else {
				clauses = append(clauses, c)
			}
		}
		inner := impCont{next: next, brk: next, labels: k.labels}
		var chain func(i int, d int) string
		chain = func(i int, d int) string {
			if i == len(clauses) {
				if def != nil {
					return t.snapshot(func() string { return t.stmts(def.Body, d, inner) })
				}
				return next(d)
			}
			c := clauses[i]
			if len(c.List) != 1 {
				trFail("case with several expressions")
			}
			var g decGuards
			cond := t.expr(c.List[0], &g)
			thenS := t.snapshot(func() string { return t.stmts(c.Body, d+1, inner) })
			elseS := t.snapshot(func() string { return chain(i+1, d+1) })
			return t.guarded(d, &g, fmt.Sprintf("%sif %s then\n%s\n%selse\n%s", decInd(d), cond, thenS, decInd(d), elseS))
		}
		return chain(0, d)
	}
	trFail("unsupported statement %s", strings.Join(strings.Fields(t.text(s)), " "))
	return ""
}

// condBranch branches on a condition with Go's short-circuit evaluation: the bound checks of the
// right operand of || and && are made only when that operand is evaluated.
func (t *impTr) condBranch(cond ast.Expr, thenK, elseK func(d int) string, d int) string {
	switch c := cond.(type) {
	case *ast.ParenExpr:
		return t.condBranch(c.X, thenK, elseK, d)
	case *ast.UnaryExpr:
		if c.Op == token.NOT {
			return t.condBranch(c.X, elseK, thenK, d)
		}
	case *ast.BinaryExpr:
		if c.Op == token.LOR {
			return t.condBranch(c.X, thenK, func(d int) string { return t.condBranch(c.Y, thenK, elseK, d) }, d)
		}
		if c.Op == token.LAND {
			return t.condBranch(c.X, func(d int) string { return t.condBranch(c.Y, thenK, elseK, d) }, elseK, d)
		}
	}
	var g decGuards
	ct := t.expr(cond, &g)
	return t.guarded(d, &g, fmt.Sprintf("%sif %s then\n%s\n%selse\n%s", decInd(d), ct, thenK(d+1), decInd(d), elseK(d+1)))
}

// snapshot runs f and restores the variable environment afterwards (both branches of a
// conditional start from the same environment; each continues into its own copy of the rest).
func (t *impTr) snapshot(f func() string) string {
	saveVars, saveViews := map[types.Object]impVar{}, map[types.Object][2]string{}
	for a, b := range t.vars {
		saveVars[a] = b
	}
	for a, b := range t.views {
		saveViews[a] = b
	}
	saveMem, saveOrder := t.mem, append([]types.Object(nil), t.order...)
	out := f()
	t.vars, t.views, t.mem, t.order = saveVars, saveViews, saveMem, saveOrder
	return out
}

func (t *impTr) branch(cond string, body []ast.Stmt, els ast.Stmt, d int, k impCont, next func(d int) string) string {
	inner := impCont{next: next, brk: k.brk, labels: k.labels}
	thenS := t.snapshot(func() string { return t.stmts(body, d+1, inner) })
	var elseS string
	switch e := els.(type) {
	case nil:
		elseS = t.snapshot(func() string { return next(d + 1) })
	case *ast.BlockStmt:
		elseS = t.snapshot(func() string { return t.stmts(e.List, d+1, inner) })
	default:
		trFail("else-if chains are not supported")
	}
	return fmt.Sprintf("%sif %s then\n%s\n%selse\n%s", decInd(d), cond, thenS, decInd(d), elseS)
}

func translateImp(tg trTarget) (name, def, doc string, err error) {
	name = "go_" + tg.name
	if tg.recv != "" {
		name = "go_" + tg.recv + "_" + tg.name
	}
	defer func() {
		if r := recover(); r != nil {
			if te, ok := r.(trErr); ok {
				err = te
				return
			}
			panic(r)
		}
	}()
	p, e := loadTrPkg(tg.dir)
	if e != nil {
		return name, "", "", e
	}
	fn := findFunc(p, tg.recv, tg.name)
	if fn == nil || fn.Body == nil {
		return name, "", "", fmt.Errorf("function not found")
	}
	t := &impTr{p: p, fn: fn, fname: name, views: map[types.Object][2]string{}, vars: map[types.Object]impVar{}, taken: map[string]bool{"mem": true, "fuel": true, "fuel'": true}}
	params := []string{}
	for _, pf := range fn.Type.Params.List {
		ty := nodeText(p.fset, pf.Type)
		for _, n := range pf.Names {
			o := p.info.Defs[n]
			switch {
			case ty == "[]byte" && t.memObj == nil:
				t.memObj = o
				t.mem = "mem"
				params = append(params, "(mem : list N)")
			default:
				if tv, ok := p.info.Types[pf.Type]; ok && tv.Type != nil {
					if b, ok := tv.Type.Underlying().(*types.Basic); ok && b.Info()&types.IsInteger != 0 {
						params = append(params, fmt.Sprintf("(%s : Z)", t.define(o, "Z")))
						continue
					}
				}
				trFail("parameter of unsupported type %s", ty)
			}
		}
	}
	if fn.Recv != nil && len(fn.Recv.List) == 1 && len(fn.Recv.List[0].Names) == 1 && strings.Contains(nodeText(p.fset, fn.Recv.List[0].Type), "SwitchPath") {
		t.hopsObj = p.info.Defs[fn.Recv.List[0].Names[0]]
		t.mem = "(@nil N)"
		params = append(params, "(hops : list (N * N))")
		t.taken["hops"] = true
	}
	if t.memObj == nil && t.hopsObj == nil {
		trFail("no byte-slice parameter")
	}
	// named results start at their zero values
	pre := ""
	if fn.Type.Results != nil {
		for _, rf := range fn.Type.Results.List {
			for _, n := range rf.Names {
				if nodeText(p.fset, rf.Type) == "error" {
					continue
				}
				pre += fmt.Sprintf("  let %s := 0%%Z in\n", t.define(p.info.Defs[n], "Z"))
			}
		}
	}
	body := t.stmts(fn.Body.List, 1, impCont{next: func(d int) string {
		if fn.Type.Results != nil && fn.Type.Results.NumFields() > 0 {
			trFail("missing return")
		}
		return decInd(d) + "IOk [] " + t.mem
	}})
	doc = fmt.Sprintf("(* %s/%s: %s; IOk [results] final-memory", tg.dir, filepath.Base(p.fset.Position(fn.Pos()).Filename), tg.name)
	if len(t.siteDoc) > 0 {
		doc += "; error sites: " + strings.Join(t.siteDoc, ", ")
	}
	doc = "(* " + strings.ReplaceAll(strings.ReplaceAll(strings.TrimPrefix(doc, "(* "), "(*", "( *"), "*)", "* )") + " *)"
	def = strings.Join(t.loops, "\n") + "\n"
	def += fmt.Sprintf("Definition %s %s : ires :=\n%s%s.", name, strings.Join(params, " "), pre, body)
	return name, def, doc, nil
}

func genTranslatedImp(sb *strings.Builder) error {
	sb.WriteString(impPrelude)
	for _, tg := range impTargets {
		name, def, doc, err := translateImp(tg)
		if err != nil {
			fmt.Fprintf(sb, "(* %s: not translatable: %s *)\nDefinition %s_translated : bool := false.\n\n", name, strings.ReplaceAll(err.Error(), "*)", "* )"), name)
			fmt.Fprintln(os.Stderr, "gen: translate", name+":", err)
			continue
		}
		fmt.Fprintf(sb, "%s\n%s\nDefinition %s_translated : bool := true.\n\n", doc, def, name)
	}
	return nil
}
