package main

import (
	"fmt"
	"github.com/fxamacker/cbor/v2"
	"github.com/mycoria/mycoria/router"
	"time"

	"github.com/mycoria/mycoria/config"
	"github.com/mycoria/mycoria/frame"
	"github.com/mycoria/mycoria/m"
	"github.com/mycoria/mycoria/peering"
	"github.com/mycoria/mycoria/state"
	"github.com/mycoria/mycoria/storage"
)

func init() { register("C03", runC03) }

// genHistory produces a delivery history over 1..n with duplicates, losses and reordering,
// with profiles that straddle the 64-wide window edge.
func genHistory(c *Ctx, n int) (h []uint32, profile string) {
	base := make([]uint32, n)
	for i := range base {
		base[i] = uint32(i + 1)
	}
	p := c.Rng.IntN(7)
	if n >= 131 {
		// enough frames exist for the window-edge profile (a frame exactly 63 / 64 / 65 behind)
		p = 1
	}
	switch p {
	case 0: // local shuffles with duplicates
		profile = "local-shuffle"
		h = append(h, base...)
		for i := range h {
			j := i + c.Rng.IntN(8)
			if j < len(h) {
				h[i], h[j] = h[j], h[i]
			}
		}
		for k := 0; k < n/3+1; k++ {
			h = append(h, 0)
			pos := c.Rng.IntN(len(h))
			copy(h[pos+1:], h[pos:])
			h[pos] = base[c.Rng.IntN(n)]
		}
	case 1: // window edge: deliver a far-ahead frame then ones exactly 63/64/65 behind
		profile = "window-edge"
		top := uint32(70 + c.Rng.IntN(60))
		h = []uint32{1, top, top - 63, top - 64, top - 65, top - 64, top - 63, top - 1, top, top + 1, top + 1 - 64, top + 1 - 65}
		for k := 0; k < 6; k++ {
			h = append(h, top-uint32(c.Rng.IntN(70)))
		}
	case 2: // full reversal, then forward again
		profile = "reversal"
		for i := n - 1; i >= 0; i-- {
			h = append(h, base[i])
		}
		h = append(h, base...)
	case 3: // bursts of duplicates
		profile = "dup-bursts"
		for _, q := range base {
			r := 1 + c.Rng.IntN(3)
			for k := 0; k < r; k++ {
				h = append(h, q)
			}
			if c.Rng.IntN(4) == 0 && q > 2 {
				h = append(h, q-1, q-2)
			}
		}
	case 4: // uniform random with loss
		profile = "random"
		m := n + c.Rng.IntN(n+1)
		for k := 0; k < m; k++ {
			h = append(h, base[c.Rng.IntN(n)])
		}
	case 5: // in order, then replay everything
		profile = "replay-all"
		h = append(h, base...)
		h = append(h, base...)
		for _, i := range c.perm(n) {
			h = append(h, base[i])
		}
	default: // big jumps (shift counts >= 64) mixed with late frames
		profile = "big-jumps"
		cur := uint32(1)
		for k := 0; k < n; k++ {
			h = append(h, cur)
			if cur > 3 {
				h = append(h, cur-uint32(1+c.Rng.IntN(3)))
			}
			cur += uint32([]int{1, 2, 63, 64, 65, 100, 1000}[c.Rng.IntN(7)])
		}
		h = append(h, 1, 2, cur, cur-64)
	}
	return h, profile
}

func historyNonTrivial(h []uint32) bool {
	seen := map[uint32]bool{}
	dup, ooo := false, false
	var max uint32
	for _, q := range h {
		if seen[q] {
			dup = true
		}
		seen[q] = true
		if q < max {
			ooo = true
		}
		if q > max {
			max = q
		}
	}
	return dup && ooo
}

// windowOracle is the property's own predicate, independent of the Coq model: no sequence
// number accepted twice; a non-duplicate number within 64 of the newest accepted is accepted.
type windowOracle struct {
	accepted map[uint32]bool
	newest   uint32
}

func (o *windowOracle) step(q uint32, ok bool) string {
	if o.accepted == nil {
		o.accepted = map[uint32]bool{}
	}
	if ok && o.accepted[q] {
		return fmt.Sprintf("sequence number %d accepted twice", q)
	}
	if !ok && q != 0 && !o.accepted[q] && uint64(q)+64 >= uint64(o.newest) {
		return fmt.Sprintf("fresh sequence number %d (newest accepted %d) rejected", q, o.newest)
	}
	if ok {
		o.accepted[q] = true
		if q > o.newest {
			o.newest = q
		}
	}
	return ""
}

// seqHandlerFails runs a history on a fresh SequenceHandler and returns the oracle's first complaint.
func seqHandlerFails(h []uint32) string {
	sh := &state.SequenceHandler{}
	var orc windowOracle
	for _, q := range h {
		if msg := orc.step(q, sh.Check(q) == nil); msg != "" {
			return msg
		}
	}
	return ""
}

func runC03(c *Ctx) error {
	if c.Replay != "" {
		r, err := c.replayData()
		if err != nil {
			return err
		}
		h := toU32s(r["history"])
		if layer, _ := r["layer"].(string); layer == "seqhandler" {
			c.Eval()
			if msg := seqHandlerFails(h); msg != "" {
				c.Violate("SequenceHandler.Check: "+msg, "seqhandler", map[string]any{"layer": "seqhandler", "history": h})
			}
			return nil
		}
		c.Note("replay of layer %v: re-running the generated campaign with the same seed", r["layer"])
	}
	c.Res.Rule = "delivery histories over sequence numbers a sender produced (7 profiles: local shuffle+dups, window edge 63/64/65, reversal, dup bursts, random, replay-all, big jumps); " +
		"run on SequenceHandler.Check directly, on Frame.Unseal (regular, priority, signed classes) and LinkFrame.Unseal with real keys; " +
		"non-trivial = history has at least one duplicate and one out-of-order delivery; distinct = distinct (layer, history)"

	// ---------- layer 1: SequenceHandler.Check directly ----------
	c.CoqSetup("Prelude Seq SeqCorr", "c03_case", "c03_ok")
	nHist := c.Pick(600, 6000)
	for i := 0; i < nHist; i++ {
		n := 3 + c.Rng.IntN(40)
		h, profile := genHistory(c, n)
		sh := &state.SequenceHandler{}
		var orc windowOracle
		steps := make([]string, 0, len(h))
		verd := make([]bool, 0, len(h))
		for _, q := range h {
			err := sh.Check(q)
			ok := err == nil
			hi, bm, _ := sh.VerifState()
			steps = append(steps, fmt.Sprintf("(%s,%d,%d)", coqBool(ok), hi, bm))
			verd = append(verd, ok)
			if msg := orc.step(q, ok); msg != "" && len(c.Res.Violations) == 0 {
				hs := shrinkSlice(h, func(l []uint32) bool { return seqHandlerFails(l) != "" })
				c.Violate("SequenceHandler.Check: "+seqHandlerFails(hs), "seqhandler", map[string]any{"layer": "seqhandler", "history": hs})
			}
		}
		c.Eval()
		c.Count("layer:seqhandler")
		c.Count("profile:" + profile)
		if historyNonTrivial(h) {
			c.NonTrivial(fmt.Sprintf("sh/%v", h))
		}
		info := map[string]any{"layer": "seqhandler", "profile": profile, "history": h, "verdicts": verd}
		c.Case(fmt.Sprintf("(%s, %s)", coqListN(h), coqList(steps)), info)
		if i < 2 {
			c.Sample(info)
		}
	}
	// exhaustive small sweep (model validation, not the proof): all histories of length <= L over 1..K
	{
		K, L := 4, c.Pick(5, 7)
		var rec func(h []uint32)
		cnt := 0
		rec = func(h []uint32) {
			if len(h) > 0 {
				sh := &state.SequenceHandler{}
				var orc windowOracle
				steps := make([]string, 0, len(h))
				for _, q := range h {
					ok := sh.Check(q) == nil
					hi, bm, _ := sh.VerifState()
					steps = append(steps, fmt.Sprintf("(%s,%d,%d)", coqBool(ok), hi, bm))
					if msg := orc.step(q, ok); msg != "" {
						c.Violate("SequenceHandler.Check: "+msg, "seqhandler", map[string]any{"layer": "seqhandler", "history": append([]uint32(nil), h...)})
					}
				}
				cnt++
				c.Eval()
				if historyNonTrivial(h) {
					c.NonTrivial(fmt.Sprintf("sh/%v", h))
				}
				// only the longest histories go to the model (prefixes are covered step-wise)
				if len(h) == L {
					c.Case(fmt.Sprintf("(%s, %s)", coqListN(h), coqList(steps)), map[string]any{"layer": "seqhandler", "profile": "sweep", "history": append([]uint32(nil), h...)})
				}
			}
			if len(h) == L {
				return
			}
			for q := 1; q <= K; q++ {
				rec(append(h, uint32(q)))
			}
		}
		rec(nil)
		c.CountN("layer:seqhandler-sweep", cnt)
		c.Note("exhaustive sweep: all %d histories of length <= %d over 1..%d on SequenceHandler.Check", cnt, L, K)
	}

	// ---------- layer 2: end-to-end frames through Frame.Unseal ----------
	a, b, sab, sba, err := newPair()
	if err != nil {
		return err
	}
	_ = b
	builder := frame.NewFrameBuilder()
	c.CoqSetup("Prelude Seq SeqCorr", "c03_dcase", "c03_dok")
	for _, cls := range []struct {
		name string
		mt   frame.MessageType
		prio bool
	}{{"regular", frame.NetworkTraffic, false}, {"priority", frame.SessionCtrl, true}} {
		nH := c.Pick(60, 600)
		for i := 0; i < nH; i++ {
			// fresh key epoch per history: redo the key exchange so windows and counters restart
			if err := keyExchange(sab.Encryption(), sba.Encryption()); err != nil {
				return err
			}
			n := 3 + c.Rng.IntN(30)
			if i%6 == 5 {
				n = 135 // long enough for late frames exactly at the edge of the 64-frame window
			}
			// A seals n frames for B.
			wire := make([][]byte, n+1)
			for k := 1; k <= n; k++ {
				f, err := builder.NewFrameV1(a.id.IP, b.id.IP, cls.mt, nil, []byte(fmt.Sprintf("payload-%d-%d", i, k)), nil)
				if err != nil {
					return err
				}
				if err := f.Seal(sab); err != nil {
					return err
				}
				if int(f.SequenceNum()) != k {
					return fmt.Errorf("unexpected sequence number %d for frame %d", f.SequenceNum(), k)
				}
				d, _ := f.FrameDataWithMargins(0, 0)
				wire[k] = append([]byte(nil), d...)
				f.ReturnToPool()
			}
			h, profile := genHistory(c, n)
			// clamp history to frames that exist
			hh := h[:0]
			for _, q := range h {
				if int(q) >= 1 && int(q) <= n {
					hh = append(hh, q)
				}
			}
			h = hh
			prioH, reglH := sba.Encryption().VerifSeqHandlers()
			shImpl := reglH
			if cls.prio {
				shImpl = prioH
			}
			var orc windowOracle
			hi0, bm0, _ := shImpl.VerifState()
			if hi0 != 0 {
				return fmt.Errorf("window not restarted by key exchange")
			}
			dl := make([]string, 0, len(h))
			steps := make([]string, 0, len(h))
			verd := []bool{}
			for _, q := range h {
				// a key-setup attempt that FAILS (low-order X25519 point, unsupported exchange type,
				// wrong key length, completion without an exchange in progress) leaves keys and
				// replay windows as they are: the model takes no step for it
				if c.Rng.IntN(8) == 0 {
					enc := sba.Encryption()
					var kerr error
					kind := c.Rng.IntN(4)
					switch kind {
					case 0:
						_, _, kerr = enc.InitKeyServer(make([]byte, 32), "ECDH-X25519/BLAKE3")
					case 1:
						_, _, kerr = enc.InitKeyServer(make([]byte, 32), "nope")
					case 2:
						_, _, kerr = enc.InitKeyServer([]byte{1, 2, 3}, "ECDH-X25519/BLAKE3")
					default:
						kerr = enc.InitKeyClientComplete(make([]byte, 32), "ECDH-X25519/BLAKE3")
					}
					c.Count(fmt.Sprintf("failed-key-setup:%d", kind))
					if kerr == nil {
						return fmt.Errorf("harness: key setup attempt %d meant to fail succeeded", kind)
					}
				}
				data := append([]byte(nil), wire[q]...)
				corrupt := c.Rng.IntN(6) == 0
				if corrupt {
					// flip one bit in the protected part (message area, or the sequence number itself, which
					// is authenticated as associated data): the AEAD must not open, and the window stays
					// as it was whatever the (unauthenticated) sequence number of the forgery says
					pos := 52 + c.Rng.IntN(len(data)-52)
					if c.Rng.IntN(2) == 0 {
						pos = 8 + c.Rng.IntN(4)
						c.Count("corrupted-sequence-number")
					}
					data[pos] ^= 1 << uint(c.Rng.IntN(8))
				}
				pf, err := builder.ParseFrame(data, nil, 0)
				ok := false
				if err == nil {
					ok = pf.Unseal(sba) == nil
				}
				hi, bm, _ := shImpl.VerifState()
				dl = append(dl, fmt.Sprintf("(%d,%s)", q, coqBool(!corrupt)))
				steps = append(steps, fmt.Sprintf("(%s,%d,%d)", coqBool(ok), hi, bm))
				verd = append(verd, ok)
				if corrupt {
					if ok {
						c.Violate(fmt.Sprintf("Frame.Unseal (%s): corrupted copy of frame %d accepted", cls.name, q), "e2e-"+cls.name, map[string]any{"layer": "e2e-" + cls.name, "history": h})
					}
				} else if msg := orc.step(q, ok); msg != "" {
					c.Violate(fmt.Sprintf("Frame.Unseal (%s): %s", cls.name, msg), "e2e-"+cls.name, map[string]any{"layer": "e2e-" + cls.name, "history": h})
				}
			}
			c.Eval()
			c.Count("layer:e2e-" + cls.name)
			c.Count("profile:" + profile)
			if historyNonTrivial(h) {
				c.NonTrivial(fmt.Sprintf("e2e-%s/%v", cls.name, h))
			}
			info := map[string]any{"layer": "e2e-" + cls.name, "profile": profile, "history": h, "verdicts": verd, "start_bitmap": bm0}
			c.Case(fmt.Sprintf("(%d, %s, %s)", bm0, coqList(dl), coqList(steps)), info)
			if i == 0 {
				c.Sample(info)
			}
		}
	}

	// ---------- layer 3: link frames through LinkFrame.Unseal ----------
	for i, nH := 0, c.Pick(60, 600); i < nH; i++ {
		ea, eb := state.NewEncryptionSession(), state.NewEncryptionSession()
		if err := keyExchange(ea, eb); err != nil {
			return err
		}
		n := 3 + c.Rng.IntN(30)
		if i%6 == 5 {
			n = 135
		}
		wire := make([][]byte, n+1)
		for k := 1; k <= n; k++ {
			inner := []byte(fmt.Sprintf("link-payload-%d-%d", i, k))
			lf := make(peering.LinkFrame, peering.FrameOffset+len(inner)+peering.FrameOverhead)
			copy(lf[peering.FrameOffset:], inner)
			if err := lf.Seal(ea); err != nil {
				return err
			}
			if int(lf.SequenceNum()) != k {
				return fmt.Errorf("unexpected link sequence number")
			}
			wire[k] = lf
		}
		h, profile := genHistory(c, n)
		hh := h[:0]
		for _, q := range h {
			if int(q) >= 1 && int(q) <= n {
				hh = append(hh, q)
			}
		}
		h = hh
		_, reglH := eb.VerifSeqHandlers()
		var orc windowOracle
		dl := make([]string, 0, len(h))
		steps := make([]string, 0, len(h))
		for _, q := range h {
			data := peering.LinkFrame(append([]byte(nil), wire[q]...))
			corrupt := c.Rng.IntN(6) == 0
			if corrupt {
				// keep the sequence number (bytes 4..8) intact so the model sees the same q
				pos := 12 + c.Rng.IntN(len(data)-12)
				data[pos] ^= 1 << uint(c.Rng.IntN(8))
			}
			ok := data.Unseal(eb) == nil
			hi, bm, _ := reglH.VerifState()
			dl = append(dl, fmt.Sprintf("(%d,%s)", q, coqBool(!corrupt)))
			steps = append(steps, fmt.Sprintf("(%s,%d,%d)", coqBool(ok), hi, bm))
			if corrupt {
				if ok {
					c.Violate(fmt.Sprintf("LinkFrame.Unseal: corrupted copy of frame %d accepted", q), "link", map[string]any{"layer": "link", "history": h})
				}
			} else if msg := orc.step(q, ok); msg != "" {
				c.Violate("LinkFrame.Unseal: "+msg, "link", map[string]any{"layer": "link", "history": h})
			}
		}
		c.Eval()
		c.Count("layer:link")
		c.Count("profile:" + profile)
		if historyNonTrivial(h) {
			c.NonTrivial(fmt.Sprintf("link/%v", h))
		}
		info := map[string]any{"layer": "link", "profile": profile, "history": h}
		c.Case(fmt.Sprintf("(0, %s, %s)", coqList(dl), coqList(steps)), info)
		if i == 0 {
			c.Sample(info)
		}
	}

	// ---------- layer 4: signed frames (strictly increasing timestamps) ----------
	c.CoqSetup("Prelude Seq SeqCorr", "c03_tcase", "c03_tok")
	for i, nH := 0, c.Pick(40, 300); i < nH; i++ {
		// a fresh receiver-side session so the timestamp filter starts at the zero time
		nb, err := newNodeLike(b)
		if err != nil {
			return err
		}
		s, err := nb.sessionFor(a)
		if err != nil {
			return err
		}
		n := 3 + c.Rng.IntN(10)
		wire := make([][]byte, n+1)
		times := make([]int64, n+1)
		// the sender's clock is its own business: an hour behind, or days ahead of the receiver's
		base := time.Now().Add([]time.Duration{-time.Hour, -time.Hour, 30 * time.Hour, 72 * time.Hour, -48 * time.Hour}[i%5]).UnixMilli()
		c.Count(fmt.Sprintf("signed-sender-clock:%d", i%5))
		for k := 1; k <= n; k++ {
			// all signed message types of one sender share one timestamp order
			mt := []frame.MessageType{frame.RouterPing, frame.RouterPing, frame.RouterHopPing, frame.RouterHopPingDeprecated}[c.Rng.IntN(4)]
			f, err := builder.NewFrameV1(a.id.IP, b.id.IP, mt, nil, []byte(fmt.Sprintf("ping-%d-%d", i, k)), nil)
			if err != nil {
				return err
			}
			// Seal would use the wall clock; sign with an explicit strictly increasing time instead,
			// exactly as Seal does (SetSequenceTime + SignRaw, TTL and flow flags zeroed).
			ttl, fc := f.TTL(), f.FlowControl()
			f.SetTTL(0)
			f.SetFlowControl(0)
			times[k] = base + int64(k)*int64(1+c.Rng.IntN(3))
			if k > 1 && times[k] <= times[k-1] {
				times[k] = times[k-1] + 1
			}
			f.SetSequenceTime(time.UnixMilli(times[k]))
			if err := f.SignRaw(a.id.PrivateKey); err != nil {
				return err
			}
			f.SetTTL(ttl)
			f.SetFlowControl(fc)
			d, _ := f.FrameDataWithMargins(0, 0)
			wire[k] = append([]byte(nil), d...)
			f.ReturnToPool()
		}
		h, profile := genHistory(c, n)
		hh := h[:0]
		for _, q := range h {
			if int(q) >= 1 && int(q) <= n {
				hh = append(hh, q)
			}
		}
		h = hh
		var last int64 = -1 << 62
		tl := make([]string, 0, len(h))
		vs := make([]string, 0, len(h))
		accepted := map[uint32]bool{}
		for _, q := range h {
			// a forgery in between: a copy of some frame with its sequence time moved into the future;
			// the signature no longer verifies and the timestamp filter must stay as it was (the
			// model takes no step for it)
			if c.Rng.IntN(5) == 0 {
				fd := append([]byte(nil), wire[1+c.Rng.IntN(n)]...)
				fd[10] = 0xFF
				c.Count("forged-future-sequence-time")
				if ff, err := builder.ParseFrame(fd, nil, 0); err == nil && ff.Unseal(s) == nil {
					c.Violate("signed frame with a changed sequence time was accepted", "signed", map[string]any{"layer": "signed", "history": h})
				}
			}
			pf, err := builder.ParseFrame(append([]byte(nil), wire[q]...), nil, 0)
			ok := err == nil && pf.Unseal(s) == nil
			tl = append(tl, fmt.Sprintf("%d%%Z", times[q]))
			vs = append(vs, coqBool(ok))
			if ok {
				if accepted[q] {
					c.Violate(fmt.Sprintf("signed frame %d accepted twice", q), "signed", map[string]any{"layer": "signed", "history": h})
				}
				if times[q] <= last {
					c.Violate(fmt.Sprintf("signed frame %d accepted although not newer than the newest accepted", q), "signed", map[string]any{"layer": "signed", "history": h})
				}
				accepted[q] = true
				last = times[q]
			} else if times[q] > last {
				c.Violate(fmt.Sprintf("signed frame %d newer than everything accepted was rejected", q), "signed-liveness", map[string]any{"layer": "signed", "history": h})
			}
		}
		c.Eval()
		c.Count("layer:signed")
		c.Count("profile:" + profile)
		if historyNonTrivial(h) {
			c.NonTrivial(fmt.Sprintf("signed/%v", h))
		}
		info := map[string]any{"layer": "signed", "profile": profile, "history": h}
		c.Case(fmt.Sprintf("(%s, %s)", coqList(tl), coqList(vs)), info)
		if i == 0 {
			c.Sample(info)
		}
	}
	return c03FirstUseStorm(c)
}

// c03FirstUseStorm: several receivers unseal the very first signed frame of a sender at the same
// moment (the same flooded frame arriving over several links on a router with one worker per
// CPU): it must be accepted at most once. This exercises the lazily created per-session replay
// handler under concurrency (the go/ast obligation C03_single_serialised_handler is the
// deterministic counterpart).
func c03FirstUseStorm(c *Ctx) error {
	a, err := newNode()
	if err != nil {
		return err
	}
	bID, err := newIdentity()
	if err != nil {
		return err
	}
	builder := frame.NewFrameBuilder()
	rounds := c.Pick(400, 4000)
	for r := 0; r < rounds; r++ {
		b, err := newNodeWithID(bID)
		if err != nil {
			return err
		}
		sba, err := b.sessionFor(a)
		if err != nil {
			return err
		}
		f, err := builder.NewFrameV1(a.id.IP, b.id.IP, frame.RouterPing, nil, []byte{1, 2, 3}, nil)
		if err != nil {
			return err
		}
		f.SetTTL(0)
		f.SetSequenceTime(time.Now())
		if err := f.SignRaw(a.id.PrivateKey); err != nil {
			return err
		}
		f.SetTTL(32)
		d, _ := f.FrameDataWithMargins(0, 0)
		data := append([]byte(nil), d...)
		f.ReturnToPool()
		const workers = 8
		start := make(chan struct{})
		res := make(chan bool, workers)
		for w := 0; w < workers; w++ {
			go func() {
				cp := append([]byte(nil), data...)
				pf, err := builder.ParseFrame(cp, nil, 0)
				<-start
				if err != nil {
					res <- false
					return
				}
				res <- pf.Unseal(sba) == nil
			}()
		}
		close(start)
		acc := 0
		for w := 0; w < workers; w++ {
			if <-res {
				acc++
			}
		}
		c.Eval()
		if acc > 1 {
			c.Violate(fmt.Sprintf("the same signed frame was accepted %d times by concurrent receivers of one fresh session", acc), "signed-first-use-race", map[string]any{"accepted": acc, "round": r})
			break
		}
		if acc != 1 {
			c.Violate("a valid first signed frame was accepted by none of the concurrent receivers", "signed-first-use-lost", map[string]any{"round": r})
			break
		}
	}
	c.Count("first-use-storm")
	if err := c03SessionLookupStorm(c, a, bID); err != nil {
		return err
	}
	return c03ReplayAcrossSessionLifecycle(c)
}

// c03ReplayAcrossSessionLifecycle: replay protection as a real router provides it, with the session
// looked up per frame.  X sends signed requests that the router answers (the answer is the
// observable "accepted"); in between, things happen that touch X's session without X being
// forgotten for good: X announces it is going down (and comes back), the session cleaner runs, a
// router module looks X up.  A request delivered a second time is never answered again.
func c03ReplayAcrossSessionLifecycle(c *Ctx) error {
	for rep, n := 0, c.Pick(6, 24); rep < n; rep++ {
		e, err := newCtlEnv(c, false)
		if err != nil {
			return err
		}
		R := e.R
		X := e.P1 // a direct peer: the answer has somewhere to go
		recv := R.links[X.id.IP]
		answered := func(d []byte) (int, bool) {
			e.w.queue = nil
			res := R.inject(append([]byte(nil), d...), recv)
			n := 0
			for _, q := range e.w.queue {
				if fi := parseFrameInfo(q.data); fi.ok && fi.src == R.id.IP && fi.dst == X.id.IP {
					n++
				}
			}
			e.w.queue = nil
			return n, res.panicked()
		}
		var sent [][]byte
		mkReq := func(k int) ([]byte, error) {
			spec := pingSpec{from: X.id, dst: R.id.IP, msgType: frame.RouterPing, pingType: "pong", seqTime: nextCraftTime(), pingID: uint64(9000 + 10*rep + k)}
			spec.body, _ = cbor.Marshal(map[string]string{"msg": "ping"})
			return craftPing(spec)
		}
		var trace []string
		bad := false
		for k := 0; k < 4 && !bad; k++ {
			d, err := mkReq(k)
			if err != nil {
				return err
			}
			got, pan := answered(d)
			c.Eval()
			sent = append(sent, d)
			trace = append(trace, fmt.Sprintf("request %d (answers: %d)", k+1, got))
			c.Count(fmt.Sprintf("lifecycle:fresh-request-answered=%v", got > 0))
			if pan {
				c.Violate("a signed request crashed a router worker", "lifecycle-panic", map[string]any{"history": trace})
				bad = true
				break
			}
			// something touches the session
			switch (rep + k) % 3 {
			case 0:
				spec := pingSpec{from: X.id, dst: R.id.IP, msgType: frame.RouterPing, pingType: "disconnect", seqTime: nextCraftTime(), pingID: uint64(9500 + 10*rep + k)}
				spec.body, _ = cbor.Marshal(&router.DisconnectPingMsg{GoingDown: true})
				if dd, err := craftPing(spec); err == nil {
					_, _ = answered(dd)
					sent = append(sent, dd)
					trace = append(trace, "going-down notice of X")
				}
			case 1:
				_ = R.st.GetSession(X.id.IP)
				trace = append(trace, "session looked up")
			default:
				trace = append(trace, "nothing")
			}
			// every frame delivered so far, again, newest first and oldest first
			order := c.Rng.Perm(len(sent))
			for _, j := range order {
				got, pan := answered(sent[j])
				c.Eval()
				if pan {
					c.Violate("a replayed signed frame crashed a router worker", "lifecycle-panic", map[string]any{"history": trace})
					bad = true
					break
				}
				if got > 0 {
					c.Violate(fmt.Sprintf("a signed request delivered a second time was answered again (frame %d of the history, after: %s)", j+1, trace[len(trace)-1]), "replay-answered-after-lifecycle-event",
						map[string]any{"history": trace, "replayed_frame": j + 1})
					bad = true
					break
				}
			}
			c.Count("lifecycle:" + trace[len(trace)-1])
		}
		c.NonTrivial(fmt.Sprintf("lifecycle/%d", rep%3))
	}
	return nil
}

// c03SessionLookupStorm: the receivers do not share a session handed to them, each looks the
// sender's session up in the state manager (as every frame handler worker does) at the moment
// the first frame of a sender without a live session arrives, original and replays at once.
// There must be ONE session (one replay filter) per sender: every lookup returns the same
// session and the frame is accepted once.  The storage is the rendezvous storage, so a lookup
// that is not serialised with the session registration meets a second one half-way.
func c03SessionLookupStorm(c *Ctx, a *node, bID *m.Address) error {
	builder := frame.NewFrameBuilder()
	for r, rounds := 0, c.Pick(4, 12); r < rounds; r++ {
		rs := newRendezStore(storage.NewMemStorage())
		b := &node{id: bID, st: state.New(&instStub{id: bID, cfg: &config.Config{}}, rs)}
		if err := b.st.AddRouter(&a.id.PublicAddress); err != nil {
			return err
		}
		f, err := builder.NewFrameV1(a.id.IP, b.id.IP, frame.RouterPing, nil, []byte{1, 2, 3}, nil)
		if err != nil {
			return err
		}
		f.SetTTL(0)
		f.SetSequenceTime(time.Now())
		if err := f.SignRaw(a.id.PrivateKey); err != nil {
			return err
		}
		f.SetTTL(32)
		d, _ := f.FrameDataWithMargins(0, 0)
		data := append([]byte(nil), d...)
		f.ReturnToPool()
		workers := 2 + r%3
		type out struct {
			s  *state.Session
			ok bool
		}
		start := make(chan struct{})
		res := make(chan out, workers)
		rs.arm(true)
		for w := 0; w < workers; w++ {
			go func() {
				cp := append([]byte(nil), data...)
				pf, err := builder.ParseFrame(cp, nil, 0)
				<-start
				s := b.st.GetSession(a.id.IP)
				if err != nil || s == nil {
					res <- out{s, false}
					return
				}
				res <- out{s, pf.Unseal(s) == nil}
			}()
		}
		close(start)
		acc := 0
		sessions := map[*state.Session]bool{}
		for w := 0; w < workers; w++ {
			o := <-res
			sessions[o.s] = true
			if o.ok {
				acc++
			}
		}
		rs.arm(false)
		c.Eval()
		c.Count("session-lookup-storm")
		rep := map[string]any{"accepted": acc, "sessions": len(sessions), "workers": workers, "round": r}
		if len(sessions) != 1 || acc > 1 {
			c.Violate(fmt.Sprintf("%d concurrent session lookups for one sender without a live session returned %d different sessions; the same signed frame was accepted %d times", workers, len(sessions), acc), "session-lookup-race", rep)
			break
		}
		if acc != 1 {
			c.Violate("a valid first signed frame was accepted by none of the concurrent receivers", "signed-first-use-lost", rep)
			break
		}
	}
	return nil
}

// newNodeLike returns a node with the same identity as n but a fresh state manager.
func newNodeLike(n *node) (*node, error) {
	return &node{id: n.id, st: state.New(&instStub{id: n.id, cfg: n.st_cfg()}, nil)}, nil
}
