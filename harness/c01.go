package main

import (
	"bytes"
	"context"
	"crypto/ed25519"
	"crypto/rand"
	"encoding/binary"
	"encoding/hex"
	"errors"
	"fmt"
	"github.com/mycoria/mycoria/storage"
	"io"
	"net"
	"net/netip"
	"strings"
	"time"

	"github.com/fxamacker/cbor/v2"

	"github.com/mycoria/crop"
	"github.com/mycoria/mycoria/config"
	"github.com/mycoria/mycoria/frame"
	"github.com/mycoria/mycoria/m"
	"github.com/mycoria/mycoria/mgr"
	"github.com/mycoria/mycoria/router"
)

func init() { register("C01", runC01) }

type c01Ident struct {
	pub  m.PublicAddress
	priv ed25519.PrivateKey // nil when there is none (crafted identities)
	kind string
	// localOnly: presented to VerifyAddress and the configuration/storage loader only (no wire form)
	localOnly bool
}

// consistentIdentity generates real key pairs until the digest over (typ, key) lies inside
// (inFd) or outside fd00::/8; the address is that digest, the private key matches the public key:
// self-consistent in everything but the one rule under test.
func consistentIdentity(typ crop.KeyPairType, inFd bool) (*m.Address, error) {
	for {
		pub, priv, err := ed25519.GenerateKey(nil)
		if err != nil {
			return nil, err
		}
		p := m.PublicAddress{Hash: m.AddressDigestAlg, Type: typ, PublicKey: pub}
		d, ok := digestFor(&p)
		if !ok {
			return nil, fmt.Errorf("no digest for type %q", typ)
		}
		p.IP = netip.AddrFrom16([16]byte(d[:16]))
		if (d[0] == 0xfd) != inFd || m.InternalPrefix.Contains(p.IP) {
			continue
		}
		return &m.Address{PublicAddress: p, PrivateKey: priv, KeyPair: crop.MakeEd25519KeyPair(priv, pub)}, nil
	}
}

func digestFor(p *m.PublicAddress) (d []byte, ok bool) {
	if !p.Hash.IsValid() {
		return nil, false
	}
	if len([]byte(p.Type)) > 0xFF || len(p.PublicKey) > 0xFFFF {
		return nil, false
	}
	h := p.Hash.New()
	buf := make([]byte, 4+len(p.Type)+len(p.PublicKey))
	buf[0] = 1
	buf[1] = uint8(len(p.Type))
	binary.BigEndian.PutUint16(buf[2:4], uint16(len(p.PublicKey)))
	copy(buf[4:], p.Type)
	copy(buf[4+len(p.Type):], p.PublicKey)
	h.Write(buf)
	if p.Easing > 0 {
		var e [8]byte
		binary.BigEndian.PutUint64(e[:], p.Easing)
		h.Write(e[:])
	}
	return h.Sum(nil), true
}

func coqPub(p *m.PublicAddress) string {
	ip := "[]"
	if p.IP.IsValid() {
		b := p.IP.As16()
		ip = coqBytes(b[:])
	}
	return fmt.Sprintf("(mkPub %s %s %s %s %d)", ip, coqBytes([]byte(p.Hash)), coqBytes([]byte(p.Type)), coqBytes(p.PublicKey), p.Easing)
}

func coqOptBytes(d []byte, ok bool) string {
	if !ok {
		return "None"
	}
	return "(Some " + coqBytes(d) + ")"
}

// variants returns the valid identity and its corruptions.
func c01Variants(c *Ctx, base *m.Address, other *m.Address) []c01Ident {
	v := []c01Ident{{pub: base.PublicAddress, priv: base.PrivateKey, kind: "valid"}}
	add := func(kind string, f func(p *m.PublicAddress)) {
		p := base.PublicAddress
		p.PublicKey = append(ed25519.PublicKey(nil), p.PublicKey...)
		f(&p)
		v = append(v, c01Ident{pub: p, priv: base.PrivateKey, kind: kind})
	}
	add("ip-other", func(p *m.PublicAddress) { p.IP = other.IP })
	add("ip-bitflip", func(p *m.PublicAddress) {
		b := p.IP.As16()
		b[2+c.Rng.IntN(14)] ^= 1 << uint(c.Rng.IntN(8))
		p.IP = netip.AddrFrom16(b)
	})
	add("ip-not-fd00", func(p *m.PublicAddress) {
		b := p.IP.As16()
		b[0] = 0xfc
		p.IP = netip.AddrFrom16(b)
	})
	for _, hn := range []string{"NOPE", "", "SHA2_256", "blake3", "BLAKE3 "} {
		hn := hn
		add("hash-"+hn, func(p *m.PublicAddress) { p.Hash = crop.Hash(hn) })
	}
	for _, tn := range []string{"", "RSA", "ed25519", "Ed25519x"} {
		tn := tn
		add("type-"+tn, func(p *m.PublicAddress) { p.Type = crop.KeyPairType(tn) })
	}
	add("key-bitflip", func(p *m.PublicAddress) { p.PublicKey[c.Rng.IntN(32)] ^= 1 << uint(c.Rng.IntN(8)) })
	v = append(v, c01Ident{pub: func() m.PublicAddress {
		p := base.PublicAddress
		p.PublicKey = append(ed25519.PublicKey(nil), other.PublicKey...)
		return p
	}(), priv: other.PrivateKey, kind: "key-of-other-identity"})
	for _, n := range []int{0, 1, 31, 33, 64} {
		n := n
		add(fmt.Sprintf("key-len%d", n), func(p *m.PublicAddress) {
			k := make([]byte, n)
			copy(k, p.PublicKey)
			for i := 32; i < n; i++ {
				k[i] = byte(c.Rng.IntN(256))
			}
			p.PublicKey = k
		})
	}
	add("easing+1", func(p *m.PublicAddress) { p.Easing++ })
	add("easing-big", func(p *m.PublicAddress) { p.Easing = 1 << 40 })
	return v
}

// craftOddKey brute-forces a key of the given length whose digest lies in fd00::/8 and returns the
// self-consistent identity (address = first 128 bits of its digest).
func craftOddKey(n int) m.PublicAddress {
	for {
		k := make([]byte, n)
		_, _ = rand.Read(k)
		p := m.PublicAddress{Hash: m.AddressDigestAlg, Type: m.AddressKeyToolID, PublicKey: k}
		d, _ := digestFor(&p)
		if d[0] == 0xfd && d[1]&0x80 == 0 {
			p.IP = netip.AddrFrom16([16]byte(d[:16]))
			if !m.InternalPrefix.Contains(p.IP) {
				return p
			}
		}
	}
}

// easedIdentity finds a key pair whose address is valid only with easing e >= 1.
func easedIdentity() (*m.Address, error) {
	for {
		pub, priv, err := ed25519.GenerateKey(nil)
		if err != nil {
			return nil, err
		}
		for e := uint64(1); e <= 3; e++ {
			p := m.PublicAddress{Hash: m.AddressDigestAlg, Type: m.AddressKeyToolID, PublicKey: pub, Easing: e}
			d, _ := digestFor(&p)
			if d[0] == 0xfd && d[1]&0x80 == 0 {
				p.IP = netip.AddrFrom16([16]byte(d[:16]))
				if m.InternalPrefix.Contains(p.IP) {
					continue
				}
				return &m.Address{PublicAddress: p, PrivateKey: priv, KeyPair: crop.MakeEd25519KeyPair(priv, pub)}, nil
			}
		}
	}
}

type c01Env struct {
	c    *Ctx
	w    *rworld
	R, P *rnode
}

func newC01Env(c *Ctx) (*c01Env, error) {
	w := newRWorld()
	st := config.Store{Router: config.Router{Listen: []string{"tcp:47369"}}}
	R, err := w.addNode("R", st, nil)
	if err != nil {
		return nil, err
	}
	P, err := w.addNode("P", st, nil)
	if err != nil {
		return nil, err
	}
	if _, _, err := w.connect(R, P, 11, 12); err != nil {
		return nil, err
	}
	return &c01Env{c: c, w: w, R: R, P: P}, nil
}

func (e *c01Env) stored(ip netip.Addr) bool {
	if !ip.IsValid() {
		return false
	}
	return e.R.st.GetSession(ip) != nil
}

// viaPingHeader presents the identity in the header of a first-contact ping.
func (e *c01Env) viaPingHeader(id c01Ident, signer *m.Address) (code int, stored bool) {
	data, err := craftPing(pingSpec{from: signer, src: id.pub.IP, dst: e.R.id.IP, msgType: frame.RouterPing, pingType: "pong", followUp: true,
		body: []byte{0xa0}, seqTime: nextCraftTime(), rawHdr: true, hdrHash: id.pub.Hash, hdrType: id.pub.Type, hdrKey: id.pub.PublicKey})
	if err != nil {
		return 1, false
	}
	res := e.R.inject(data, e.R.links[e.P.id.IP])
	e.w.queue = nil
	if res.panicked() {
		return 3, e.stored(id.pub.IP)
	}
	s := e.stored(id.pub.IP)
	if s {
		return 0, true
	}
	return 1, false
}

// viaHopRecord presents the identity as the inner hop record of an announcement delivered by P.
func (e *c01Env) viaHopRecord(id c01Ident, origin *m.Address) (code int, stored bool) {
	body, _ := cbor.Marshal(&router.AnnouncePingMsg{Info: &m.RouterInfo{}, ReturnLabel: 5, Expires: time.Now().Add(10 * time.Minute)})
	t := nextCraftTime()
	base, err := craftPing(pingSpec{from: origin, dst: m.RouterAddress, msgType: frame.RouterHopPingDeprecated, pingType: "announce", body: body, seqTime: t})
	if err != nil {
		return 1, false
	}
	// signing context: origin ip, origin time, origin signature
	pf, err := craftBuilder.ParseFrame(append([]byte(nil), base...), nil, 0)
	if err != nil {
		return 1, false
	}
	ctxb := make([]byte, 16+8+64)
	copy(ctxb[:16], origin.IP.AsSlice())
	binary.BigEndian.PutUint64(ctxb[16:24], uint64(t.UnixMilli()))
	copy(ctxb[24:], pf.AuthData())
	mk := func(pub m.PublicAddress, priv ed25519.PrivateKey, next []byte) []byte {
		att, _ := cbor.Marshal(router.AnnouncePingAttachment{Router: pub, Delay: 5, ForwardLabel: 7, ReturnLabel: 8, NextAttachment: next})
		var sig []byte
		if priv != nil && len(priv) == ed25519.PrivateKeySize {
			sig, _ = priv.Sign(nil, att, &ed25519.Options{Context: string(ctxb)})
		}
		if len(sig) != 64 {
			sig = make([]byte, 64)
		}
		return append(att, sig...)
	}
	inner := mk(id.pub, id.priv, nil)
	outer := mk(e.P.id.PublicAddress, e.P.id.PrivateKey, inner)
	full := append(append([]byte(nil), base...), outer...)
	res := e.R.inject(full, e.R.links[e.P.id.IP])
	e.w.queue = nil
	if res.panicked() {
		return 3, e.stored(id.pub.IP)
	}
	if e.stored(id.pub.IP) {
		return 0, true
	}
	return 1, false
}

// viaHopChain presents a chain of hop identities (outermost first, after the delivering peer P's
// own record) in one announcement and returns, per hop, the identity the router's state binds to
// that hop's address afterwards (nil: no record / session).
func (e *c01Env) viaHopChain(chain []c01Ident, origin *m.Address) (panicked bool, bound []*m.PublicAddress) {
	body, _ := cbor.Marshal(&router.AnnouncePingMsg{Info: &m.RouterInfo{}, ReturnLabel: 5, Expires: time.Now().Add(10 * time.Minute)})
	t := nextCraftTime()
	base, err := craftPing(pingSpec{from: origin, dst: m.RouterAddress, msgType: frame.RouterHopPingDeprecated, pingType: "announce", body: body, seqTime: t})
	if err != nil {
		return false, make([]*m.PublicAddress, len(chain))
	}
	pf, err := craftBuilder.ParseFrame(append([]byte(nil), base...), nil, 0)
	if err != nil {
		return false, make([]*m.PublicAddress, len(chain))
	}
	ctxb := make([]byte, 16+8+64)
	copy(ctxb[:16], origin.IP.AsSlice())
	binary.BigEndian.PutUint64(ctxb[16:24], uint64(t.UnixMilli()))
	copy(ctxb[24:], pf.AuthData())
	mk := func(pub m.PublicAddress, priv ed25519.PrivateKey, next []byte) []byte {
		att, _ := cbor.Marshal(router.AnnouncePingAttachment{Router: pub, Delay: 5, ForwardLabel: 7, ReturnLabel: 8, NextAttachment: next})
		var sig []byte
		if len(priv) == ed25519.PrivateKeySize {
			sig, _ = priv.Sign(nil, att, &ed25519.Options{Context: string(ctxb)})
		}
		if len(sig) != 64 {
			sig = make([]byte, 64)
		}
		return append(att, sig...)
	}
	var next []byte
	for i := len(chain) - 1; i >= 0; i-- {
		next = mk(chain[i].pub, chain[i].priv, next)
	}
	outer := mk(e.P.id.PublicAddress, e.P.id.PrivateKey, next)
	full := append(append([]byte(nil), base...), outer...)
	res := e.R.inject(full, e.R.links[e.P.id.IP])
	e.w.queue = nil
	bound = make([]*m.PublicAddress, len(chain))
	for i, h := range chain {
		if !h.pub.IP.IsValid() {
			continue
		}
		if s := e.R.st.GetSession(h.pub.IP); s != nil {
			a := *s.Address()
			bound[i] = &a
		}
	}
	return res.panicked(), bound
}

// bindingViolations checks every record the router's state holds: the identity bound to an
// address has that very address and verifies.
func (e *c01Env) bindingViolations() []string {
	var out []string
	q := storage.NewRouterQuery(nil, nil, 100000)
	if err := e.R.st.QueryRouters(q); err != nil {
		return nil
	}
	for _, sr := range q.Result() {
		if sr.Address == nil {
			out = append(out, "stored router without an identity")
			continue
		}
		if err := sr.Address.VerifyAddress(); err != nil {
			out = append(out, fmt.Sprintf("stored identity for %s does not verify: %v", sr.Address.IP, err))
		}
		if s := e.R.st.GetSession(sr.Address.IP); s != nil {
			if s.Address().IP != s.For() {
				out = append(out, fmt.Sprintf("the session for %s is bound to the identity of %s", s.For(), s.Address().IP))
			}
			if err := s.Address().VerifyAddress(); err != nil {
				out = append(out, fmt.Sprintf("the identity bound to the session of %s does not verify: %v", s.For(), err))
			}
		}
	}
	return out
}

// viaHopRecordKnown presents the identity as a hop record for an address the router already has a
// (genuine) record of; accepted = the announcement was handled without error.
func (e *c01Env) viaHopRecordKnown(genuine *m.Address, id c01Ident, origin *m.Address) (accepted, panicked bool) {
	_ = e.R.st.AddRouter(&genuine.PublicAddress)
	body, _ := cbor.Marshal(&router.AnnouncePingMsg{Info: &m.RouterInfo{}, ReturnLabel: 5, Expires: time.Now().Add(10 * time.Minute)})
	t := nextCraftTime()
	base, err := craftPing(pingSpec{from: origin, dst: m.RouterAddress, msgType: frame.RouterHopPingDeprecated, pingType: "announce", body: body, seqTime: t})
	if err != nil {
		return false, false
	}
	pf, err := craftBuilder.ParseFrame(append([]byte(nil), base...), nil, 0)
	if err != nil {
		return false, false
	}
	ctxb := make([]byte, 16+8+64)
	copy(ctxb[:16], origin.IP.AsSlice())
	binary.BigEndian.PutUint64(ctxb[16:24], uint64(t.UnixMilli()))
	copy(ctxb[24:], pf.AuthData())
	mk := func(pub m.PublicAddress, priv ed25519.PrivateKey, next []byte) []byte {
		att, _ := cbor.Marshal(router.AnnouncePingAttachment{Router: pub, Delay: 5, ForwardLabel: 7, ReturnLabel: 8, NextAttachment: next})
		var sig []byte
		if len(priv) == ed25519.PrivateKeySize {
			sig, _ = priv.Sign(nil, att, &ed25519.Options{Context: string(ctxb)})
		}
		if len(sig) != 64 {
			sig = make([]byte, 64)
		}
		return append(att, sig...)
	}
	inner := mk(id.pub, id.priv, nil)
	outer := mk(e.P.id.PublicAddress, e.P.id.PrivateKey, inner)
	res := e.R.inject(append(append([]byte(nil), base...), outer...), e.R.links[e.P.id.IP])
	e.w.queue = nil
	if res.panicked() {
		return false, true
	}
	if len(res.routerErrs) == 0 {
		return false, false
	}
	for _, he := range res.routerErrs {
		if he != nil {
			return false, false
		}
	}
	return true, false
}

type peeringReq struct {
	RouterVersion string          `cbor:"v,omitempty"`
	Universe      string          `cbor:"u,omitempty"`
	LiteMode      bool            `cbor:"lm,omitempty"`
	Address       m.PublicAddress `cbor:"a,omitempty"`
	Challenge     []byte          `cbor:"c,omitempty"`
	LinkVersion   int             `cbor:"lv,omitempty"`
	TunMTU        int             `cbor:"tmtu,omitempty"`
}

func writeRaw(conn net.Conn, frameData []byte) error {
	buf := make([]byte, 2+len(frameData))
	binary.BigEndian.PutUint16(buf[:2], uint16(len(buf)))
	copy(buf[2:], frameData)
	_, err := conn.Write(buf)
	return err
}

func readRaw(conn net.Conn) ([]byte, error) {
	var l [2]byte
	if _, err := io.ReadFull(conn, l[:]); err != nil {
		return nil, err
	}
	n := int(binary.BigEndian.Uint16(l[:]))
	if n < 2 {
		return nil, errors.New("short")
	}
	b := make([]byte, n-2)
	_, err := io.ReadFull(conn, b)
	return b, err
}

// viaPeeringRequest presents the identity in a peering request over an in-memory connection.
func (e *c01Env) viaPeeringRequest(id c01Ident, signer *m.Address) (code int, stored bool) {
	ca, cb := net.Pipe()
	done := make(chan error, 1)
	go func() {
		_, err := e.R.pe.VerifSetupLink(ca, false)
		done <- err
	}()
	_ = cb.SetDeadline(time.Now().Add(3 * time.Second))
	_, _ = readRaw(cb) // R's own request
	ch := make([]byte, 32)
	_, _ = rand.Read(ch)
	msg, _ := cbor.Marshal(&peeringReq{RouterVersion: "verif", Address: id.pub, Challenge: ch, LinkVersion: 1})
	var data []byte
	if f, err := craftBuilder.NewFrameV1(id.pub.IP, m.RouterAddress, frame.RouterPing, nil, msg, nil); err == nil {
		f.SetTTL(0)
		f.SetSequenceTime(nextCraftTime())
		_ = f.SignRaw(signer.PrivateKey)
		f.SetTTL(1)
		d, _ := f.FrameDataWithMargins(0, 0)
		data = append([]byte(nil), d...)
		f.ReturnToPool()
	}
	if data != nil {
		_ = writeRaw(cb, data)
		_, _ = readRaw(cb) // response or error
	}
	_ = cb.Close()
	var err error
	select {
	case err = <-done:
	case <-time.After(5 * time.Second):
		err = errors.New("setup did not return")
	}
	_ = ca.Close()
	if err != nil && errors.Is(err, mgr.ErrWorkerPanic) {
		return 3, e.stored(id.pub.IP)
	}
	if e.stored(id.pub.IP) {
		return 0, true
	}
	return 1, false
}

func prefixCoq(p netip.Prefix) string {
	b := p.Addr().As16()
	return fmt.Sprintf("(%s,%d%%nat)", coqBytes(b[:]), p.Bits())
}

func runC01(c *Ctx) error {
	c.Res.Rule = "real Ed25519 identities (plain and eased) and their single-field corruptions (address other/bit-flip/outside fd00::/8; hash names NOPE, empty, other valid algorithm, wrong case; key types empty/RSA/wrong case; key bit-flip and lengths 0,1,31,33,64; easing changes) " +
		"plus self-consistent identities with odd key sizes (address = digest of a 33/48/64-byte key, brute-forced), presented through VerifyAddress, AddressFromStorage, a first-contact ping header, a gossip hop record and a peering request on a real router; " +
		"the generator with prefix sets inside and partly outside fd00::/8, ignored ranges, easing; store/reload; non-trivial/distinct = distinct (entry point, corruption kind, verdict)"
	ids := []*m.Address{}
	for i, n := 0, c.Pick(3, 10); i < n; i++ {
		a, err := newIdentity()
		if err != nil {
			return err
		}
		ids = append(ids, a)
	}
	for i, n := 0, c.Pick(1, 4); i < n; i++ {
		a, err := easedIdentity()
		if err != nil {
			return err
		}
		ids = append(ids, a)
	}
	other, err := newIdentity()
	if err != nil {
		return err
	}
	origin, err := newIdentity()
	if err != nil {
		return err
	}
	c.CoqSetup("Prelude SeqCorr Address AddressCorr", "c01_case", "c01_ok")
	emit := func(entry string, id c01Ident, code int, stored bool) {
		d, ok := digestFor(&id.pub)
		c.Eval()
		c.Count("entry:" + entry)
		c.NonTrivial(fmt.Sprintf("%s/%s/%d", entry, id.kind, code))
		valid := id.kind == "valid"
		rep := map[string]any{"entry": entry, "kind": id.kind, "identity": coqPub(&id.pub)}
		switch {
		case code == 3:
			c.Violate(fmt.Sprintf("presenting a %s identity through %s crashed the handler", id.kind, entry), "crash-"+entry, rep)
		case valid && code != 0:
			c.Violate(fmt.Sprintf("a valid identity was rejected by %s", entry), "reject-valid-"+entry, rep)
		case !valid && (code == 0 || stored):
			c.Violate(fmt.Sprintf("a %s identity was accepted by %s (stored record/session: %v)", id.kind, entry, stored), "accept-"+entry, rep)
		}
		c.Case(fmt.Sprintf("(%s,%s,(%d,%s))", coqPub(&id.pub), coqOptBytes(d, ok), code, coqBool(stored)), rep)
	}
	for _, base := range ids {
		vars := c01Variants(c, base, other)
		for _, n := range []int{33, 48, 64} {
			vars = append(vars, c01Ident{pub: craftOddKey(n), kind: fmt.Sprintf("oddkey-consistent-%d", n)})
		}
		// identities that are consistent in themselves (address = digest of the key material, private
		// key matches) and break exactly one rule: outside fd00::/8; unknown key-type name; and a
		// key-type name longer than its length field (no wire form)
		if out, err := consistentIdentity(m.AddressKeyToolID, false); err == nil {
			vars = append(vars, c01Ident{pub: out.PublicAddress, priv: out.PrivateKey, kind: "consistent-outside-fd00"})
		}
		for _, tn := range []string{"RSA", "ed25519"} {
			if odd, err := consistentIdentity(crop.KeyPairType(tn), true); err == nil {
				vars = append(vars, c01Ident{pub: odd.PublicAddress, priv: odd.PrivateKey, kind: "consistent-type-" + tn})
			}
		}
		{
			p := base.PublicAddress
			p.Type = crop.KeyPairType(strings.Repeat("E", 256+c.Rng.IntN(300)))
			vars = append(vars, c01Ident{pub: p, priv: base.PrivateKey, kind: "type-oversized", localOnly: true})
		}
		for _, id := range vars {
			// (0) VerifyAddress itself
			var verr error
			p := id.pub
			pan, _ := recoverPanic(func() { verr = p.VerifyAddress() })
			code := 0
			if pan {
				code = 3
			} else if verr != nil {
				code = 1
			}
			emit("VerifyAddress", id, code, code == 0)
			// (1) configuration / storage
			if id.priv != nil {
				st := m.AddressStorage{Hash: id.pub.Hash, Type: id.pub.Type, PublicKey: hex.EncodeToString(id.pub.PublicKey), PrivateKey: hex.EncodeToString(id.priv), Easing: id.pub.Easing}
				if id.pub.IP.IsValid() {
					st.IP = id.pub.IP.String()
				}
				var a *m.Address
				var err error
				pan, _ := recoverPanic(func() { a, err = m.AddressFromStorage(st) })
				code := 0
				if pan {
					code = 3
				} else if err != nil || a == nil {
					code = 1
				}
				emit("AddressFromStorage", id, code, code == 0)
			}
			// (2..4) network entry points on a fresh router each (no stored record beforehand)
			signer := base
			for _, entry := range []string{"ping-header", "hop-record", "peering-request"} {
				env, err := newC01Env(c)
				if err != nil {
					return err
				}
				var code int
				var stored bool
				pid := id
				switch entry {
				case "ping-header":
					// the ping header carries hash, key type and key, but no easing value
					if len(id.kind) >= 6 && id.kind[:6] == "easing" {
						continue
					}
					if id.pub.Easing != 0 {
						pid.pub.Easing = 0
						if id.kind == "valid" {
							pid.kind = "eased-identity-without-easing"
						}
					}
					code, stored = env.viaPingHeader(pid, signer)
				case "hop-record":
					code, stored = env.viaHopRecord(id, origin)
				default:
					code, stored = env.viaPeeringRequest(id, signer)
				}
				emit(entry, pid, code, stored)
			}
			// (5) the same identity as a hop record for an address the router ALREADY knows (genuinely):
			// the record is accepted only if it is the genuine identity of that address
			// (for a known address the router authenticates the record with the key it has stored and
			// ignores the attached identity, so the forged records are signed by somebody else's key)
			if id.pub.IP == base.IP {
				env, err := newC01Env(c)
				if err != nil {
					return err
				}
				forged := id
				if id.kind != "valid" {
					forged.priv = other.PrivateKey
				}
				acc, pan := env.viaHopRecordKnown(base, forged, origin)
				c.Eval()
				c.Count("entry:hop-record-known-address")
				c.NonTrivial(fmt.Sprintf("hop-record-known/%s/%v", id.kind, acc))
				rep := map[string]any{"entry": "hop-record-known-address", "kind": id.kind, "identity": coqPub(&id.pub)}
				switch {
				case pan:
					c.Violate(fmt.Sprintf("a %s hop record for a known address crashed the handler", id.kind), "crash-hop-record-known", rep)
				case acc && id.kind != "valid":
					c.Violate(fmt.Sprintf("a %s identity attached as a hop record for an address the router already knows, signed with a key that address is not derived from, was accepted", id.kind), "accept-hop-record-known", rep)
				case !acc && id.kind == "valid":
					c.Violate("the genuine hop record of a known router was rejected", "reject-valid-hop-record-known", rep)
				}
			}
		}
		c.Sample(map[string]any{"identity": base.IP.String(), "easing": base.Easing, "variants": len(vars)})
	}

	// ---------- chains of hop records in one announcement ----------
	// 2..4 fresh identities unknown to the router (optionally one of them corrupted), all attached
	// to one announcement: afterwards the router's state must bind every hop's address to that
	// hop's own identity (or to nothing), never to another record of the same announcement.
	c.CoqSetup("Prelude SeqCorr Address AddressCorr", "c01_ccase", "c01_cok")
	for i, n := 0, c.Pick(12, 60); i < n; i++ {
		env, err := newC01Env(c)
		if err != nil {
			return err
		}
		k := 2 + c.Rng.IntN(3)
		var chain []c01Ident
		for j := 0; j < k; j++ {
			a, err := newIdentity()
			if err != nil {
				return err
			}
			chain = append(chain, c01Ident{pub: a.PublicAddress, priv: a.PrivateKey, kind: "valid"})
		}
		kind := "all-valid"
		if i%3 == 1 {
			// one hop presents another hop's key under its own address
			j := c.Rng.IntN(k)
			o := (j + 1) % k
			chain[j].pub.PublicKey = chain[o].pub.PublicKey
			chain[j].priv = chain[o].priv
			chain[j].kind = "key-of-other-hop"
			kind = fmt.Sprintf("hop%d-key-of-hop%d", j, o)
		} else if i%3 == 2 {
			// two records for one address: the genuine one and one with a foreign key
			j := c.Rng.IntN(k - 1)
			chain[k-1].pub.IP = chain[j].pub.IP
			chain[k-1].kind = "address-of-earlier-hop"
			kind = fmt.Sprintf("hop%d-claims-address-of-hop%d", k-1, j)
		}
		pan, bound := env.viaHopChain(chain, origin)
		c.Eval()
		c.Count("entry:hop-chain")
		c.NonTrivial(fmt.Sprintf("hop-chain/%d/%s", k, kind))
		rep := map[string]any{"entry": "hop-chain", "kind": kind, "hops": k}
		if pan {
			c.Violate("an announcement with a chain of hop identities crashed the handler", "crash-hop-chain", rep)
		}
		var items, obs []string
		for j, h := range chain {
			d, ok := digestFor(&h.pub)
			items = append(items, fmt.Sprintf("(%s,%s)", coqPub(&h.pub), coqOptBytes(d, ok)))
			if bound[j] == nil {
				obs = append(obs, "None")
				continue
			}
			obs = append(obs, "(Some "+coqPub(bound[j])+")")
			if bound[j].IP != h.pub.IP || !bytes.Equal(bound[j].PublicKey, h.pub.PublicKey) && h.kind == "valid" {
				rep["hop"] = j
				rep["bound_to"] = coqPub(bound[j])
				c.Violate(fmt.Sprintf("after an announcement with %d hop records the router binds the address of hop %d to a different identity (address %s, key %x...)", k, j, bound[j].IP, bound[j].PublicKey[:4]), "binding-hop-chain", rep)
			}
		}
		for _, v := range env.bindingViolations() {
			c.Violate("router state after an announcement with several hop records: "+v, "binding-state", rep)
		}
		c.Case(fmt.Sprintf("([%s],[%s])", strings.Join(items, ";"), strings.Join(obs, ";")), rep)
	}

	// ---------- generator ----------
	c.CoqSetup("Prelude SeqCorr Address AddressCorr", "c01_gcase", "c01_gok")
	prefixSets := [][2][]string{
		{{"fd00::/9"}, {}},
		{{"fd20::/11"}, {}},
		{{"fd00::/8"}, {"fd80::/9"}},
		{{"fd00::/9", "fd80::/9"}, {"fd40::/10"}},
		{{"fd30::/12", "fd50::/12"}, {"fd30:8000::/17"}},
		{{"fc00::/7"}, {}},           // partly outside fd00::/8
		{{"f000::/4"}, {"fd80::/9"}}, // mostly outside
		// ignored ranges wider than an acceptable prefix they cover, with a base address outside every
		// acceptable prefix, written with host bits (as local interface prefixes are), spanning two
		// acceptable prefixes
		{{"fd10::/12", "fd20::/12"}, {"fd00::/11"}},
		{{"fd40::/10", "fd80::/10"}, {"fd00::/9"}},
		{{"fd12::/16", "fd13::/16", "fd70::/12"}, {"fd12:9999::1/15"}},
		{{"fd20::/12", "fd30::/12", "fd60::/11"}, {"fd28::/13", "fd30::/13"}},
		{{"fd50::/12"}, {"fd50:8000::1/17", "fd40::/13"}},
	}
	for i, n := 0, c.Pick(40, 240); i < n; i++ {
		ps := prefixSets[c.Rng.IntN(len(prefixSets))]
		if i%4 == 3 {
			// random sets: two or three acceptable prefixes of 9..12 bits in fd00::/8, one or two ignored
			// ranges of 9..13 bits anywhere in fd00::/8 (host bits left as drawn)
			rp := func(lo, hi int) string {
				bits := lo + c.Rng.IntN(hi-lo+1)
				return fmt.Sprintf("fd%02x:%04x::%d/%d", c.Rng.IntN(256), c.Rng.IntN(65536), 1+c.Rng.IntN(9), bits)
			}
			var accS, ignS []string
			for k := 2 + c.Rng.IntN(2); k > 0; k-- {
				accS = append(accS, netip.MustParsePrefix(rp(9, 12)).Masked().String())
			}
			for k := 1 + c.Rng.IntN(2); k > 0; k-- {
				ignS = append(ignS, rp(9, 13))
			}
			room := false
			for _, as := range accS {
				ap, covered := netip.MustParsePrefix(as), false
				for _, is := range ignS {
					ip := netip.MustParsePrefix(is)
					covered = covered || (ip.Bits() <= ap.Bits() && ip.Masked().Contains(ap.Addr()))
				}
				room = room || !covered
			}
			if !room {
				continue
			}
			ps = [2][]string{accS, ignS}
		}
		var acc, ign []netip.Prefix
		for _, s := range ps[0] {
			acc = append(acc, netip.MustParsePrefix(s))
		}
		for _, s := range ps[1] {
			ign = append(ign, netip.MustParsePrefix(s))
		}
		maxE := uint64(c.Rng.IntN(3))
		ctx, cancel := context.WithTimeout(context.Background(), 20*time.Second)
		a, _, err := m.GenerateRoutableAddress(ctx, acc, ign, maxE)
		cancel()
		c.Eval()
		c.Count("generator")
		if err != nil {
			c.Note("generator gave up on %v/%v: %v", ps[0], ps[1], err)
			continue
		}
		rep := map[string]any{"accept": ps[0], "ignore": ps[1], "maxEasing": maxE, "ip": a.IP.String(), "easing": a.Easing}
		if verr := a.VerifyAddress(); verr != nil {
			c.Violate("the generator returned an identity that fails its own address verification: "+verr.Error(), "gen-verify", rep)
		}
		inAcc := false
		for _, p := range acc {
			inAcc = inAcc || p.Contains(a.IP)
		}
		inIgn := m.InternalPrefix.Contains(a.IP)
		for _, p := range ign {
			inIgn = inIgn || p.Contains(a.IP)
		}
		if !inAcc || inIgn {
			c.Violate("the generator returned an address outside the requested prefixes or inside an ignored/internal range", "gen-range", rep)
		}
		re, rerr := m.AddressFromStorage(a.Store())
		if rerr != nil || re.IP != a.IP || re.Easing != a.Easing || !re.PublicKey.Equal(a.PublicKey) || re.Hash != a.Hash || re.Type != a.Type {
			c.Violate("a generated identity does not reload from its stored form to the same identity", "gen-reload", rep)
		}
		var ds []string
		for e := uint64(0); e <= a.Easing; e++ {
			p := a.PublicAddress
			p.Easing = e
			d, _ := digestFor(&p)
			ds = append(ds, coqBytes(d))
		}
		ip := a.IP.As16()
		accC := make([]string, len(acc))
		for k, p := range acc {
			accC[k] = prefixCoq(p)
		}
		ignC := make([]string, len(ign))
		for k, p := range ign {
			ignC[k] = prefixCoq(p)
		}
		c.NonTrivial(fmt.Sprintf("gen/%v/%v/%d", ps[0], ps[1], a.Easing))
		c.Case(fmt.Sprintf("(%s,%s,%s,%s,%s,(%s,%d))", coqBytes([]byte(a.Hash)), coqBytes(a.PublicKey), coqList(ds), coqList(accC), coqList(ignC), coqBytes(ip[:]), a.Easing), rep)
		// hex codec of the stored form
		if i < 10 {
			c.CoqSetup("Prelude SeqCorr Address AddressCorr", "c01_hcase", "c01_hok")
			c.Case(fmt.Sprintf("(%s,%s)", coqBytes(a.PrivateKey), coqBytes([]byte(a.Store().PrivateKey))), map[string]any{"kind": "hex"})
			c.CoqSetup("Prelude SeqCorr Address AddressCorr", "c01_gcase", "c01_gok")
		}
	}
	return nil
}
