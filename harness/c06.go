package main

import (
	"context"
	"fmt"
	"github.com/fxamacker/cbor/v2"
	"math/big"
	"net/netip"
	"strings"

	"github.com/mycoria/mycoria/config"
	"github.com/mycoria/mycoria/frame"
	"github.com/mycoria/mycoria/m"
)

func init() { register("C06", runC06) }

func ipN(ip netip.Addr) string {
	b := ip.As16()
	return new(big.Int).SetBytes(b[:]).String()
}

// newGeoIdentity returns an identity whose address may be configured as a friend.
func newGeoIdentity() (*m.Address, error) {
	for {
		a, _, err := m.GenerateRoutableAddress(context.Background(), []netip.Prefix{routablePrefix}, nil, 0)
		if err != nil {
			return nil, err
		}
		if m.GetAddressType(a.IP) == m.TypeGeoMarked {
			return a, nil
		}
	}
}

type c06Svc struct {
	scheme  int // index into schemeNames
	port    int // -1 = none
	public  bool
	friends bool
	forEnt  []c06For
}
type c06For struct {
	isName bool
	name   int        // friend name index
	ip     netip.Addr // for raw entries
	raw    string     // what is written into the config
}
type c06Cfg struct {
	friends []struct {
		name int
		ip   netip.Addr
	}
	svcs    []c06Svc
	isolate bool
}

var friendNames = []string{"alice", "bob", "carol", "dave"}

func (g *c06Cfg) store() config.Store {
	var s config.Store
	s.Router.Listen = []string{"tcp:47369"}
	s.Router.Isolate = g.isolate
	for _, f := range g.friends {
		s.FriendConfigs = append(s.FriendConfigs, config.FriendConfig{Name: friendNames[f.name], IP: f.ip.String()})
	}
	for i, sv := range g.svcs {
		host := "svc.example.myco"
		if i%3 == 1 {
			host = "[fd00::1234]"
		}
		u := schemeNames[sv.scheme] + "://" + host
		if sv.port >= 0 {
			u += fmt.Sprintf(":%d", sv.port)
		}
		sc := config.ServiceConfig{Name: fmt.Sprintf("svc%d", i), URL: u, Public: sv.public, Friends: sv.friends}
		for _, fe := range sv.forEnt {
			sc.For = append(sc.For, fe.raw)
		}
		s.ServiceConfigs = append(s.ServiceConfigs, sc)
	}
	return s
}

func (g *c06Cfg) coq(self netip.Addr) string {
	fr := make([]string, len(g.friends))
	for i, f := range g.friends {
		fr[i] = fmt.Sprintf("(%d,%s)", f.name, ipN(f.ip))
	}
	sv := make([]string, len(g.svcs))
	for i, s := range g.svcs {
		port := "None"
		if s.port >= 0 {
			port = fmt.Sprintf("(Some %d)", s.port)
		}
		fe := make([]string, len(s.forEnt))
		for j, e := range s.forEnt {
			if e.isName {
				fe[j] = fmt.Sprintf("(true,%d)", e.name)
			} else {
				fe[j] = fmt.Sprintf("(false,%s)", ipN(e.ip))
			}
		}
		sv[i] = fmt.Sprintf("(mkSvc %d %s %s %s %s)", s.scheme, port, coqBool(s.public), coqBool(s.friends), coqList(fe))
	}
	return fmt.Sprintf("(mkCfg %s %s %s %s)", coqList(fr), coqList(sv), coqBool(g.isolate), ipN(self))
}

// admitsSpec is the property's own predicate, evaluated from the source configuration.
func (g *c06Cfg) admitsSpec(proto, port int, sender netip.Addr) bool {
	schemeProtos := map[string][]int{"tcp": {6}, "udp": {17}, "http": {6, 17}, "https": {6, 17}, "icmp6": {58}, "ping6": {58}}
	dflt := map[string]int{"tcp": -1, "udp": -1, "http": 80, "https": 443, "icmp6": 0, "ping6": 0}
	for _, s := range g.svcs {
		name := schemeNames[s.scheme]
		protos, ok := schemeProtos[name]
		if !ok {
			continue
		}
		p := dflt[name]
		if p != 0 && s.port >= 0 {
			p = s.port
		}
		if p != port {
			continue
		}
		match := false
		for _, pr := range protos {
			if pr == proto {
				match = true
			}
		}
		if !match {
			continue
		}
		if s.public {
			return true
		}
		if s.friends {
			for _, f := range g.friends {
				if f.ip == sender {
					return true
				}
			}
		}
		for _, e := range s.forEnt {
			if e.isName {
				var ip netip.Addr
				for _, f := range g.friends { // last friend with that name wins
					if f.name == e.name {
						ip = f.ip
					}
				}
				if ip == sender {
					return true
				}
			} else if e.ip == sender {
				return true
			}
		}
	}
	return false
}

type c06Pkt struct {
	ver          int
	src, dst     netip.Addr
	proto        int
	sport, dport int
	length       int
}

func (p c06Pkt) bytes(c *Ctx) []byte {
	n := p.length
	b := make([]byte, n)
	for i := range b {
		b[i] = byte(c.Rng.IntN(256))
	}
	if n > 0 {
		b[0] = byte(p.ver<<4) | (b[0] & 0x0f)
	}
	if n >= 44 {
		b[6] = byte(p.proto)
		s, d := p.src.As16(), p.dst.As16()
		copy(b[8:24], s[:])
		copy(b[24:40], d[:])
		b[40], b[41] = byte(p.sport>>8), byte(p.sport)
		b[42], b[43] = byte(p.dport>>8), byte(p.dport)
	}
	return b
}

func (p c06Pkt) coq() string {
	return fmt.Sprintf("(mkPkt %d %d%%nat %s %s %d %d %d)", p.ver, p.length, ipN(p.src), ipN(p.dst), p.proto, p.sport, p.dport)
}

var outSeen bool

func runC06(c *Ctx) error {
	c.Res.Rule = "generated configurations (0..4 services over all known and some unknown URL schemes, explicit/default/absent ports, public/friends/for with friend names, raw addresses, unknown names and out-of-range addresses, duplicate services and duplicate friend names, isolation on/off) " +
		"x probes (protocols 0,1,6,17,58,132,136,255, ports at/around the service ports, senders inside/outside friend and for sets); real Store.Parse + CheckInboundTrafficPolicy, real router inbound pipeline with sealed NetworkTraffic frames " +
		"(good, corrupted, inner source/destination mismatch, short) and real handleTunPacket; non-trivial/distinct = distinct (scheme, protocol, port relation, access rule kind, sender membership, verdict)"
	// identities
	selfID, err := newGeoIdentity()
	if err != nil {
		return err
	}
	var senders []*node // F1, F2, L, X
	for i := 0; i < 4; i++ {
		id, err := newGeoIdentity()
		if err != nil {
			return err
		}
		n, err := newNodeWithID(id)
		if err != nil {
			return err
		}
		senders = append(senders, n)
	}
	peerID, err := newGeoIdentity()
	if err != nil {
		return err
	}
	apiAddr := config.DefaultAPIAddress

	genCfg := func() *c06Cfg {
		g := &c06Cfg{isolate: c.Rng.IntN(2) == 0}
		// friends: F1, F2 with names; sometimes a duplicate name pointing elsewhere
		if c.Rng.IntN(4) > 0 {
			g.friends = append(g.friends, struct {
				name int
				ip   netip.Addr
			}{0, senders[0].id.IP})
		}
		if c.Rng.IntN(2) == 0 {
			g.friends = append(g.friends, struct {
				name int
				ip   netip.Addr
			}{1, senders[1].id.IP})
		}
		if c.Rng.IntN(6) == 0 {
			g.friends = append(g.friends, struct {
				name int
				ip   netip.Addr
			}{0, senders[1].id.IP}) // second "alice"
		}
		nS := c.Rng.IntN(5)
		for i := 0; i < nS; i++ {
			s := c06Svc{scheme: c.Rng.IntN(6), port: -1}
			if c.Rng.IntN(8) == 0 {
				s.scheme = 6 + c.Rng.IntN(len(schemeNames)-6)
			}
			switch c.Rng.IntN(4) {
			case 0:
			default:
				s.port = []int{22, 53, 80, 443, 8080, 0, 65535}[c.Rng.IntN(7)]
				if c.Rng.IntN(12) == 0 {
					s.port = []int{65536, 65558, 131094, 70000}[c.Rng.IntN(4)] // beyond 16 bits: refused by the parser
				}
			}
			switch c.Rng.IntN(10) {
			case 0, 1, 2:
				s.public = true
			case 3, 4:
				s.friends = true
			case 5, 6:
				s.forEnt = c.genFor(senders)
			case 7:
				s.friends = true
				s.forEnt = c.genFor(senders)
			case 8:
				s.public = true
				s.friends = true // invalid combination
			default: // nobody allowed: invalid
			}
			g.svcs = append(g.svcs, s)
		}
		return g
	}

	protos := []int{0, 1, 6, 17, 58, 132, 136, 255}
	ports := []int{0, 21, 22, 53, 79, 80, 81, 443, 8080, 65535}

	// ---------- (1) parse + CheckInboundTrafficPolicy ----------
	c.CoqSetup("Prelude Gen SeqCorr Policy PolicyCorr", "c06_pcase", "c06_pok")
	var good []*c06Cfg
	// corner configurations first, whatever the random stream does: no friends at all with a
	// friends-only service of every scheme; one friend; a "for" list only
	var corners []*c06Cfg
	for scheme := 0; scheme < 6; scheme++ {
		corners = append(corners, &c06Cfg{isolate: scheme%2 == 0, svcs: []c06Svc{{scheme: scheme, port: -1, friends: true}}})
		corners = append(corners, &c06Cfg{isolate: scheme%2 == 1, svcs: []c06Svc{{scheme: scheme, port: []int{22, 80, 8080}[scheme%3], friends: true}},
			friends: []struct {
				name int
				ip   netip.Addr
			}{{0, senders[0].id.IP}}})
	}
	// several services of one router: friends-only beside friends + a listed non-friend, a listed
	// address beside a public service, two "for" lists
	x2, x3 := senders[2].id.IP, senders[3].id.IP
	alice := []struct {
		name int
		ip   netip.Addr
	}{{0, senders[0].id.IP}}
	corners = append(corners,
		&c06Cfg{friends: alice, svcs: []c06Svc{{scheme: 0, port: 22, friends: true}, {scheme: 0, port: 8080, friends: true, forEnt: []c06For{{ip: x2, raw: x2.String()}}}}},
		&c06Cfg{friends: alice, svcs: []c06Svc{{scheme: 0, port: 8080, friends: true, forEnt: []c06For{{ip: x2, raw: x2.String()}}}, {scheme: 1, port: 53, friends: true}}},
		&c06Cfg{friends: alice, isolate: true, svcs: []c06Svc{{scheme: 0, port: 22, forEnt: []c06For{{ip: x2, raw: x2.String()}}}, {scheme: 0, port: 80, forEnt: []c06For{{ip: x3, raw: x3.String()}}}}},
		&c06Cfg{svcs: []c06Svc{{scheme: 0, port: 443, public: true}, {scheme: 0, port: 22, forEnt: []c06For{{ip: x3, raw: x3.String()}}}}},
	)
	for i, n := 0, c.Pick(400, 4000); i < n; i++ {
		g := genCfg()
		if i < len(corners) {
			g = corners[i]
		}
		st := g.store()
		st.Router.Address = selfID.Store()
		var cfg *config.Config
		var perr error
		pan, _ := recoverPanic(func() { cfg, perr = st.Parse() })
		c.Eval()
		if pan {
			c.Violate("config parse panicked", "parse-panic", map[string]any{"cfg": g.coq(selfID.IP)})
			continue
		}
		parsed := perr == nil
		c.Count(fmt.Sprintf("cfg:parsed=%v", parsed))
		var probes []string
		if parsed {
			if len(good) < 64 {
				good = append(good, g)
			}
			// corner configurations are probed systematically: every sender x {tcp, udp, icmp6} x (the
			// services' ports, 0, 80, 443); the others by 40 random probes
			type probeT struct {
				proto, port int
				sender      netip.Addr
			}
			var plan []probeT
			if i < len(corners) {
				pset := []int{0, 80, 443}
				for _, sv := range g.svcs {
					if sv.port >= 0 {
						pset = append(pset, sv.port&0xFFFF)
					}
				}
				for _, sn := range senders {
					// tcp, udp, icmp6, and protocols whose number followed by port 0 reads like "6"/"17" followed
					// by a port (68|0 ~ 6|80, 178|0 ~ 17|80, 62|2 ~ 6|22): no service is defined for them
					for _, pr := range []int{6, 17, 58, 68, 178, 62, 172, 64, 174} {
						for _, po := range pset {
							plan = append(plan, probeT{pr, po, sn.id.IP})
						}
					}
				}
			}
			for k := 0; k < 40 || k < len(plan); k++ {
				proto := protos[c.Rng.IntN(len(protos))]
				if c.Rng.IntN(2) == 0 {
					proto = []int{6, 17, 58}[c.Rng.IntN(3)]
				}
				if k%5 == 4 {
					proto = (k*37 + i*11) % 256 // every protocol number comes up over the run, without drawing from the random stream
				}
				port := ports[c.Rng.IntN(len(ports))]
				if len(g.svcs) > 0 && c.Rng.IntN(2) == 0 {
					sv := g.svcs[c.Rng.IntN(len(g.svcs))]
					if sv.port >= 0 {
						port = sv.port & 0xFFFF // what a packet can carry: the port the URL names, modulo 2^16
					} else {
						port = []int{80, 443, 0}[c.Rng.IntN(3)]
					}
				}
				sender := senders[c.Rng.IntN(len(senders))].id.IP
				if k < len(plan) {
					proto, port, sender = plan[k].proto, plan[k].port, plan[k].sender
				}
				got := cfg.CheckInboundTrafficPolicy(uint8(proto), uint16(port), sender)
				want := g.admitsSpec(proto, port, sender)
				c.Eval()
				if got != want {
					c.Violate(fmt.Sprintf("inbound policy verdict %v for protocol %d port %d, but the configured services say %v", got, proto, port, want),
						"policy-spec", map[string]any{"cfg": g.coq(selfID.IP), "store": fmt.Sprintf("%+v", st.ServiceConfigs), "proto": proto, "port": port, "sender": sender.String()})
				}
				c.NonTrivial(fmt.Sprintf("p%d/%v/%v", proto, port == 0, got))
				probes = append(probes, fmt.Sprintf("(%d,%d,%s,%s)", proto, port, ipN(sender), coqBool(got)))
			}
		}
		c.Case(fmt.Sprintf("(%s,%s,%s)", g.coq(selfID.IP), coqBool(parsed), coqList(probes)), map[string]any{"kind": "policy", "cfg": g.coq(selfID.IP), "parsed": parsed})
		if i < 2 {
			c.Sample(map[string]any{"kind": "policy", "services": fmt.Sprintf("%+v", st.ServiceConfigs), "friends": fmt.Sprintf("%+v", st.FriendConfigs), "parsed": parsed})
		}
	}

	// ---------- (2) inbound pipeline and (3) outbound admission on a real router ----------
	nPipe := c.Pick(24, 64)
	for gi := 0; gi < nPipe && gi < len(good); gi++ {
		g := good[gi]
		w := newRWorld()
		st := g.store()
		R, err := w.addNode("R", st, selfID)
		if err != nil {
			return fmt.Errorf("router for accepted config: %w", err)
		}
		P, err := w.addNode("P", config.Store{Router: config.Router{Listen: []string{"tcp:47369"}}}, peerID)
		if err != nil {
			return err
		}
		if _, _, err := w.connect(R, P, 11, 12); err != nil {
			return err
		}
		handle := c.Rng.IntN(8) != 0
		R.ro.VerifSetHandleTraffic(handle)
		// sessions with every sender, real key exchange
		type sess struct {
			n   *node
			atS interface{ Seal(f frame.Frame) error }
		}
		sealers := make([]func(f frame.Frame) error, len(senders))
		for i, s := range senders {
			if err := R.st.AddRouter(&s.id.PublicAddress); err != nil {
				return err
			}
			if err := s.st.AddRouter(&selfID.PublicAddress); err != nil {
				return err
			}
			sr := R.st.GetSession(s.id.IP)
			ss := s.st.GetSession(selfID.IP)
			if err := keyExchange(ss.Encryption(), sr.Encryption()); err != nil {
				return err
			}
			sealers[i] = func(f frame.Frame) error { return f.Seal(ss) }
		}
		// inbound
		var isteps []string
		sb := frame.NewFrameBuilder()
		for k, n := 0, c.Pick(40, 120); k < n; k++ {
			si := c.Rng.IntN(len(senders))
			S := senders[si]
			pk := c06Pkt{ver: 6, src: S.id.IP, dst: selfID.IP, proto: []int{6, 17, 58, 6, 17, 132}[c.Rng.IntN(6)], sport: 1024 + c.Rng.IntN(5), dport: ports[c.Rng.IntN(len(ports))], length: 44 + c.Rng.IntN(60)}
			if len(g.svcs) > 0 && c.Rng.IntN(2) == 0 {
				if sv := g.svcs[c.Rng.IntN(len(g.svcs))]; sv.port >= 0 {
					pk.dport = sv.port & 0xFFFF
				}
			}
			unsealed := true
			variant := c.Rng.IntN(12)
			switch variant {
			case 0:
				pk.src = senders[(si+1)%len(senders)].id.IP // inner source differs from the frame source
			case 1:
				pk.dst = senders[(si+1)%len(senders)].id.IP // inner destination differs
			case 2:
				pk.length = 20 + c.Rng.IntN(24) // too short
			}
			f, err := sb.NewFrameV1(S.id.IP, selfID.IP, frame.NetworkTraffic, nil, pk.bytes(c), nil)
			if err != nil {
				return err
			}
			if err := sealers[si](f); err != nil {
				return err
			}
			d, _ := f.FrameDataWithMargins(0, 0)
			data := append([]byte(nil), d...)
			f.ReturnToPool()
			if variant == 3 {
				data[60+c.Rng.IntN(len(data)-60)] ^= 0x40 // breaks the seal
				unsealed = false
			}
			res := R.inject(data, nil)
			delivered := false
			for _, tf := range R.tunFrames() {
				delivered = true
				tf.ReturnToPool()
			}
			R.tunRaw()
			w.queue = nil
			c.Eval()
			if res.panicked() {
				c.Violate("router worker panicked on an inbound traffic frame", "inbound-panic", map[string]any{"cfg": g.coq(selfID.IP), "pkt": pk.coq(), "variant": variant})
			}
			// property oracle
			want := unsealed && handle && pk.length >= 44 && pk.src == S.id.IP && pk.dst == selfID.IP
			dport := pk.dport
			if pk.proto != 6 && pk.proto != 17 {
				dport = 0
			}
			if delivered && !(want && g.admitsSpec(pk.proto, dport, S.id.IP)) && !c06Cached(isteps) {
				c.Violate("a packet was handed to the local interface although no configured service admits it (or it was spoofed/unauthenticated)", "inbound-leak",
					map[string]any{"cfg": g.coq(selfID.IP), "pkt": pk.coq(), "variant": variant, "handle": handle})
			}
			c.NonTrivial(fmt.Sprintf("in/%d/v%d/%v", pk.proto, variant%4, delivered))
			c.Count(fmt.Sprintf("inbound:delivered=%v", delivered))
			isteps = append(isteps, fmt.Sprintf("(%s,%s,%s,%s,%s)", coqBool(unsealed), ipN(S.id.IP), ipN(selfID.IP), pk.coq(), coqBool(delivered)))
		}
		c.CoqSetup("Prelude Gen SeqCorr Policy PolicyCorr", "c06_icase", "c06_iok")
		c.Case(fmt.Sprintf("(%s,%s,%s)", g.coq(selfID.IP), coqBool(handle), coqList(isteps)), map[string]any{"kind": "inbound", "cfg": g.coq(selfID.IP), "steps": len(isteps)})

		// outbound
		R.ro.VerifClearConnStates()
		var osteps []string
		for k, n := 0, c.Pick(30, 90); k < n; k++ {
			var dst netip.Addr
			switch c.Rng.IntN(8) {
			case 0, 1, 2:
				dst = senders[c.Rng.IntN(len(senders))].id.IP
			case 3:
				dst = netip.MustParseAddr("ff02::1") // multicast
			case 4:
				dst = netip.MustParseAddr("2001:db8::1") // not mycoria
			case 5:
				dst = apiAddr
			default:
				b := randBytes(c, 16)
				b[0], b[1] = 0xfd, byte(0x10+c.Rng.IntN(0x60))
				dst = netip.AddrFrom16([16]byte(b))
			}
			pk := c06Pkt{ver: 6, src: selfID.IP, dst: dst, proto: []int{6, 17, 58}[c.Rng.IntN(3)], sport: 40000 + k, dport: ports[c.Rng.IntN(len(ports))], length: 44 + c.Rng.IntN(40)}
			switch c.Rng.IntN(14) {
			case 0:
				pk.src = senders[0].id.IP // foreign source
			case 1:
				pk.ver = 4
			case 2:
				pk.length = c.Rng.IntN(44)
			}
			raw := pk.bytes(c)
			ps := R.builder.GetPooledSlice(len(raw))
			buf := ps[:len(raw)]
			copy(buf, raw)
			if pk.dst == apiAddr && pk.ver == 6 && pk.length >= 44 {
				// would go to the local netstack, which the harness does not have
				continue
			}
			sp, dp := pk.sport, pk.dport
			if pk.proto != 6 && pk.proto != 17 {
				sp, dp = 0, 0
			}
			findState := func() (status uint32, dataOut uint64, ok bool) {
				for _, cs := range R.ro.VerifConnStates() {
					if cs.LocalIP == pk.src && cs.RemoteIP == pk.dst && int(cs.Protocol) == pk.proto && int(cs.LocalPort) == sp && int(cs.RemotePort) == dp {
						return cs.Status, cs.DataOut, true
					}
				}
				return 0, 0, false
			}
			_, before, _ := findState()
			werr := R.ro.VerifHandleTunPacket(buf)
			sent := len(w.queue) > 0
			w.queue = nil
			R.tunRaw()
			c.Eval()
			if werr != nil {
				c.Violate("tun packet handler panicked", "outbound-panic", map[string]any{"pkt": pk.coq()})
			}
			// the packet reached the policy decision iff the flow's outbound byte counter moved
			status, after, found := findState()
			allowed := found && after > before && status == 1
			isFriend := false
			for _, f := range g.friends {
				if f.ip == pk.dst {
					isFriend = true
				}
			}
			want := pk.ver == 6 && pk.length >= 44 && handle && !netip.MustParsePrefix("ff00::/12").Contains(pk.dst) &&
				m.BaseNetPrefix.Contains(pk.dst) && pk.src == selfID.IP && (!g.isolate || isFriend)
			if sent && !want {
				c.Violate("a local packet entered the mesh although it is not admitted (foreign source, non-Mycoria/multicast destination, or isolation)", "outbound-leak",
					map[string]any{"cfg": g.coq(selfID.IP), "pkt": pk.coq(), "handle": handle})
			}
			if want && !allowed {
				c.Violate("an admissible local packet was not admitted", "outbound-block", map[string]any{"cfg": g.coq(selfID.IP), "pkt": pk.coq()})
			}
			c.NonTrivial(fmt.Sprintf("out/%v/%v/%v", g.isolate, isFriend, allowed))
			c.Count(fmt.Sprintf("outbound:admitted=%v", allowed))
			osteps = append(osteps, fmt.Sprintf("(%s,%s)", pk.coq(), coqBool(allowed)))
		}
		c.CoqSetup("Prelude Gen SeqCorr Policy PolicyCorr", "c06_ocase", "c06_ook")
		c.Case(fmt.Sprintf("(%s,%s,%s,%s)", g.coq(selfID.IP), coqBool(handle), ipN(apiAddr), coqList(osteps)), map[string]any{"kind": "outbound", "cfg": g.coq(selfID.IP), "steps": len(osteps)})

		// ---------- histories on one 5-tuple: inbound, outbound with mirrored ports, and authentic error
		// pings from the sender that re-mark the cached connection state ----------
		if handle {
			R.ro.VerifClearConnStates()
			var hsteps []string
			var htrace []string
			si := c.Rng.IntN(len(senders))
			S := senders[si]
			proto := []int{6, 17}[c.Rng.IntN(2)]
			sport, dport := 2000+c.Rng.IntN(3), ports[c.Rng.IntN(len(ports))]
			if gi%4 == 2 {
				// a flow some service admits (when the configuration has one): the connection gets set up
			search:
				for sj, cand := range senders {
					for _, pr := range []int{6, 17} {
						for _, dp := range ports {
							if g.admitsSpec(pr, dp, cand.id.IP) {
								si, S, proto, dport = sj, cand, pr, dp
								break search
							}
						}
					}
				}
			}
			usedErr := map[int]bool{}
			sendIn := func() {
				pk := c06Pkt{ver: 6, src: S.id.IP, dst: selfID.IP, proto: proto, sport: sport, dport: dport, length: 60}
				f, err := sb.NewFrameV1(S.id.IP, selfID.IP, frame.NetworkTraffic, nil, pk.bytes(c), nil)
				if err != nil {
					return
				}
				if err := sealers[si](f); err != nil {
					f.ReturnToPool()
					return
				}
				d, _ := f.FrameDataWithMargins(0, 0)
				data := append([]byte(nil), d...)
				f.ReturnToPool()
				R.inject(data, nil)
				delivered := false
				for _, tf := range R.tunFrames() {
					delivered = true
					tf.ReturnToPool()
				}
				R.tunRaw()
				w.queue = nil
				c.Eval()
				hsteps = append(hsteps, fmt.Sprintf("(HIn true %s %s %s,%s)", ipN(S.id.IP), ipN(selfID.IP), pk.coq(), coqBool(delivered)))
				htrace = append(htrace, fmt.Sprintf("in(delivered=%v)", delivered))
				// the property: delivered only if a service admits this sender on this protocol and port
				if delivered && !g.admitsSpec(proto, dport, S.id.IP) && !outSeen {
					c.Violate("after a history of error pings / other traffic on the same 5-tuple a packet was handed to the local interface although no configured service admits it", "inbound-leak-history",
						map[string]any{"cfg": g.coq(selfID.IP), "history": htrace})
				}
			}
			// the same 5-tuple in a frame of ANOTHER sender (sealed under that sender's own session): the
			// inner source is not the authenticated source, whatever the connection table remembers
			spoofIn := func() {
				if len(senders) < 2 {
					return
				}
				sj := (si + 1 + c.Rng.IntN(len(senders)-1)) % len(senders)
				S2 := senders[sj]
				pk := c06Pkt{ver: 6, src: S.id.IP, dst: selfID.IP, proto: proto, sport: sport, dport: dport, length: 60}
				f, err := sb.NewFrameV1(S2.id.IP, selfID.IP, frame.NetworkTraffic, nil, pk.bytes(c), nil)
				if err != nil {
					return
				}
				if err := sealers[sj](f); err != nil {
					f.ReturnToPool()
					return
				}
				d, _ := f.FrameDataWithMargins(0, 0)
				data := append([]byte(nil), d...)
				f.ReturnToPool()
				R.inject(data, nil)
				delivered := false
				for _, tf := range R.tunFrames() {
					delivered = true
					tf.ReturnToPool()
				}
				R.tunRaw()
				w.queue = nil
				c.Eval()
				hsteps = append(hsteps, fmt.Sprintf("(HIn true %s %s %s,%s)", ipN(S2.id.IP), ipN(selfID.IP), pk.coq(), coqBool(delivered)))
				htrace = append(htrace, fmt.Sprintf("in-from-other-sender-with-this-inner-source(delivered=%v)", delivered))
				c.Count("history:foreign-frame-same-tuple")
				if delivered {
					c.Violate("a packet whose inner source is another router's address was handed to the local interface (it came in a frame authenticated for a different sender, on a 5-tuple the connection table knew)", "inbound-spoof-history",
						map[string]any{"cfg": g.coq(selfID.IP), "history": htrace})
				}
			}
			for k, n := 0, 3+c.Rng.IntN(5); k < n; k++ {
				op := c.Rng.IntN(7)
				if g.isolate && gi%2 == 0 && k < 3 {
					// isolated router: a local packet, the peer's packet on the same connection, a local packet again
					op = []int{3, 0, 3}[k]
				}
				forceCode := 0
				if gi%4 == 1 && k < 3 {
					// the sender's packet, an authentic "unreachable" error ping naming the sender, an authentic ping of
					// another kind from the sender followed by the sender's packet again
					op = []int{0, 2, 5}[k]
					forceCode = 1
				}
				switch op {
				case 6:
					spoofIn()
					sendIn()
				case 5:
					// an authentic ping of another kind from the sender (a pong request): no effect on connection states
					spec := pingSpec{from: S.id, dst: selfID.IP, msgType: frame.RouterPing, pingType: "pong", seqTime: nextCraftTime(), pingID: uint64(900 + k)}
					spec.body, _ = cbor.Marshal(map[string]string{"msg": "ping"})
					if d, err := craftPing(spec); err == nil {
						R.inject(d, nil)
						w.queue = nil
						R.tunRaw()
						c.Eval()
					}
					hsteps = append(hsteps, fmt.Sprintf("(HPing %s,false)", ipN(S.id.IP)))
					htrace = append(htrace, "pong-request")
					sendIn()
				case 4:
					// time passes without traffic (11 s: past the error cooldown and the short-lived
					// limit; 11 min: past the removal limit) and the periodic cleaner runs
					long := c.Rng.IntN(3) == 0
					secs := int64(11)
					if long {
						secs = 660
					}
					R.ro.VerifAgeConnStates(secs)
					hsteps = append(hsteps, fmt.Sprintf("(HAge %s,false)", coqBool(long)))
					htrace = append(htrace, fmt.Sprintf("pause(%ds)", secs))
					sendIn()
				case 0, 1:
					sendIn()
				case 2:
					// an authentic error ping from the sender
					code := []int{1, 3, 4}[c.Rng.IntN(3)]
					if forceCode != 0 {
						code = forceCode
					}
					if usedErr[code] {
						continue
					}
					usedErr[code] = true
					spec := pingSpec{from: S.id, dst: selfID.IP, msgType: frame.RouterPing, pingType: "error", pingCode: uint8(code), seqTime: nextCraftTime(), pingID: uint64(500 + k)}
					switch code {
					case 1:
						spec.body, _ = cbor.Marshal(map[string]netip.Addr{"u": S.id.IP})
						hsteps = append(hsteps, fmt.Sprintf("(HMarkRouter %s 2,false)", ipN(S.id.IP)))
					default:
						spec.body, _ = cbor.Marshal(map[string]any{"d": S.id.IP, "t": proto, "p": sport})
						hsteps = append(hsteps, fmt.Sprintf("(HMarkConn %s %d %d %d,false)", ipN(S.id.IP), proto, sport, map[int]int{3: 4, 4: 5}[code]))
					}
					if d, err := craftPing(spec); err == nil {
						R.inject(d, nil)
						w.queue = nil
						R.tunRaw()
						c.Eval()
					}
					htrace = append(htrace, fmt.Sprintf("error-ping(code=%d)", code))
				default:
					// a local packet to the sender with mirrored ports (same connection key)
					pk := c06Pkt{ver: 6, src: selfID.IP, dst: S.id.IP, proto: proto, sport: dport, dport: sport, length: 60}
					raw := pk.bytes(c)
					ps := R.builder.GetPooledSlice(len(raw))
					buf := ps[:len(raw)]
					copy(buf, raw)
					var before uint64
					for _, cs := range R.ro.VerifConnStates() {
						if cs.RemoteIP == S.id.IP && int(cs.Protocol) == proto && int(cs.LocalPort) == dport && int(cs.RemotePort) == sport {
							before = cs.DataOut
						}
					}
					_ = R.ro.VerifHandleTunPacket(buf)
					sentOut := false
					for _, q := range w.queue {
						if fi := parseFrameInfo(q.data); fi.ok && fi.src == selfID.IP && fi.dst == S.id.IP && frame.MessageType(fi.ty) == frame.NetworkTraffic {
							sentOut = true
						}
					}
					w.queue = nil
					R.tunRaw()
					c.Eval()
					sIsFriend := false
					for _, f := range g.friends {
						if f.ip == S.id.IP {
							sIsFriend = true
						}
					}
					if sentOut && g.isolate && !sIsFriend {
						c.Violate("an isolated router sent a local packet to a non-friend after a history of traffic on the same 5-tuple", "outbound-leak-history",
							map[string]any{"cfg": g.coq(selfID.IP), "history": append(append([]string(nil), htrace...), "out")})
					}
					allowed := false
					for _, cs := range R.ro.VerifConnStates() {
						if cs.RemoteIP == S.id.IP && int(cs.Protocol) == proto && int(cs.LocalPort) == dport && int(cs.RemotePort) == sport {
							allowed = cs.DataOut > before && cs.Status == 1
						}
					}
					if allowed {
						outSeen = true // return traffic of an admitted outbound flow is admitted by connection state (observation, DESIGN)
					}
					hsteps = append(hsteps, fmt.Sprintf("(HOut %s,%s)", pk.coq(), coqBool(allowed)))
					htrace = append(htrace, fmt.Sprintf("out(admitted=%v)", allowed))
				}
			}
			// every history ends with the sender's packet (which sets up or refreshes the connection when a
			// service admits the sender) followed by the same 5-tuple in another sender's frame
			sendIn()
			spoofIn()
			outSeen = false
			c.CoqSetup("Prelude Gen SeqCorr Policy PolicyCorr", "c06_hcase", "c06_hok")
			c.Case(fmt.Sprintf("(%s,%s,%s,%s)", g.coq(selfID.IP), coqBool(handle), ipN(apiAddr), coqList(hsteps)), map[string]any{"kind": "history", "history": htrace})
			c.Count("history")
			c.NonTrivial("hist/" + strings.Join(htrace, ","))
		}
	}
	_ = strings.Join
	return nil
}

// c06Cached is a placeholder for the stateful-firewall exemption (replies of an allowed
// outbound flow); inbound probes never reuse an outbound 5-tuple, so it is always false.
func c06Cached(_ []string) bool { return false }

func (c *Ctx) genFor(senders []*node) []c06For {
	var out []c06For
	n := 1 + c.Rng.IntN(3)
	for i := 0; i < n; i++ {
		switch c.Rng.IntN(8) {
		case 0, 1:
			k := c.Rng.IntN(2)
			out = append(out, c06For{isName: true, name: k, raw: friendNames[k]})
		case 2:
			out = append(out, c06For{isName: true, name: 3, raw: friendNames[3]}) // unknown friend name
		case 3:
			ip := netip.MustParseAddr("fd90::5") // privacy range: not a valid "for" address
			out = append(out, c06For{ip: ip, raw: ip.String()})
		default:
			ip := senders[2+c.Rng.IntN(2)].id.IP
			if c.Rng.IntN(3) == 0 {
				ip = senders[c.Rng.IntN(2)].id.IP
			}
			out = append(out, c06For{ip: ip, raw: ip.String()})
		}
	}
	return out
}
