package main

import (
	"bytes"
	"crypto/ed25519"
	"encoding/binary"
	"fmt"
	"math/big"
	"net/netip"
	"sort"
	"time"

	"github.com/fxamacker/cbor/v2"

	"github.com/mycoria/mycoria/frame"
	"github.com/mycoria/mycoria/m"
	"github.com/mycoria/mycoria/router"
)

func init() { register("C08", runC08) }

// c08Rec is one hop record as an attacker or an honest router would build it.
type c08Rec struct {
	pub     m.PublicAddress // identity attached to the record
	delay   uint16
	fl, rl  m.SwitchLabel
	signKey ed25519.PrivateKey // key that signs the record (nil: all-zero signature)
	ctx     []byte             // signing context used
	raw     []byte             // when set: these bytes are used verbatim for this layer and everything inside it
	flipAt  int                // >= 0: flip one bit at this offset (mod length) of the encoded layer after signing
	flipSig bool               // the flip goes into the signature instead of the body
}

func c08Encode(chain []c08Rec) []byte {
	var next []byte
	for i := len(chain) - 1; i >= 0; i-- {
		r := chain[i]
		if r.raw != nil {
			next = r.raw
			continue
		}
		att, _ := cbor.Marshal(router.AnnouncePingAttachment{Router: r.pub, Delay: r.delay, ForwardLabel: r.fl, ReturnLabel: r.rl, NextAttachment: next})
		sig := make([]byte, 64)
		if len(r.signKey) == ed25519.PrivateKeySize {
			if s, err := r.signKey.Sign(nil, att, &ed25519.Options{Context: string(r.ctx)}); err == nil {
				sig = s
			}
		}
		enc := append(att, sig...)
		if r.flipAt >= 0 {
			if r.flipSig {
				enc[len(att)+r.flipAt%64] ^= 1 << uint(r.flipAt%8)
			} else {
				enc[r.flipAt%len(att)] ^= 1 << uint(r.flipAt%7)
			}
		}
		next = enc
	}
	return next
}

// c08Ann is an announcement as built by its origin.
type c08Ann struct {
	origin *m.Address
	base   []byte // the signed frame without appendix
	ctx    []byte
	t      time.Time
	msg    router.AnnouncePingMsg // as the receiver decodes it
}

func c08NewAnn(origin *m.Address, stub bool, retLabel m.SwitchLabel, expires time.Time) (*c08Ann, error) {
	body, _ := cbor.Marshal(&router.AnnouncePingMsg{Info: &m.RouterInfo{Version: "t"}, ReturnLabel: retLabel, Stub: stub, Expires: expires})
	t := nextCraftTime()
	base, err := craftPing(pingSpec{from: origin, dst: m.RouterAddress, msgType: frame.RouterHopPingDeprecated, pingType: "announce", body: body, seqTime: t})
	if err != nil {
		return nil, err
	}
	a := &c08Ann{origin: origin, base: base, t: t}
	if err := cbor.Unmarshal(body, &a.msg); err != nil {
		return nil, err
	}
	a.ctx = c08Ctx(base)
	return a, nil
}

// c08Ctx derives the signing context from frame bytes the way the handler does: source address,
// timestamp, origin signature.
func c08Ctx(data []byte) []byte {
	ctxb := make([]byte, 16+8+64)
	copy(ctxb[:16], data[16:32])
	binary.BigEndian.PutUint64(ctxb[16:24], uint64(frameTimeMs(data)))
	mi := 49 + int(data[48])
	if mi+2 <= len(data) {
		ai := mi + 2 + (int(data[mi])<<8 | int(data[mi+1]))
		if ai+64 <= len(data) {
			copy(ctxb[24:], data[ai:ai+64])
		}
	}
	return ctxb
}

// c08Decode turns the appendix into the model's record list, computing for every layer the
// verdicts the model takes as input with the real verifier against the key BOUND to the signer
// in R's state (or, for a signer R has no record of, against the attached key if the attached
// identity is self-certifying).
func (e *ctlEnv) c08Decode(apx []byte, ctx []byte) (recs []string, signers []netip.Addr) {
	admitted := map[netip.Addr]ed25519.PublicKey{}
	for i := 1; i <= 101; i++ {
		if len(apx) == 0 {
			break
		}
		bad := "(mkRec 0 0 0 0 false false false)"
		if len(apx) < 65 {
			recs = append(recs, bad)
			break
		}
		var att router.AnnouncePingAttachment
		if err := cbor.Unmarshal(apx[:len(apx)-64], &att); err != nil {
			recs = append(recs, bad)
			break
		}
		ip := att.Router.IP
		key := e.boundKey(ip)
		if k, ok := admitted[ip]; ok && key == nil {
			key = k
		}
		known := key != nil
		idOK := att.Router.VerifyAddress() == nil
		if !known && idOK {
			key = att.Router.PublicKey
			admitted[ip] = key
		}
		sigOK := false
		if len(key) == ed25519.PublicKeySize {
			sigOK = ed25519.VerifyWithOptions(key, apx[:len(apx)-64], apx[len(apx)-64:], &ed25519.Options{Context: string(ctx)}) == nil
		}
		ipt := "0"
		if ip.IsValid() {
			ipt = ipN(ip)
		}
		recs = append(recs, fmt.Sprintf("(mkRec %s %d %d %d %s %s %s)", ipt, att.Delay, att.ForwardLabel, att.ReturnLabel, coqBool(sigOK), coqBool(known), coqBool(idOK)))
		signers = append(signers, ip)
		apx = att.NextAttachment
	}
	return recs, signers
}

func cmpIP(a, b netip.Addr) bool { return a.Compare(b) < 0 }

func runC08(c *Ctx) error {
	c.Res.Rule = "a real router R with 3-4 real link objects (one lite) receives announcements built with real keys: honest chains of 0..6 hop records (origin and signers known or unknown to R), and forged variants: field mutation, signature bit flip, body bit flip, byte flip in the final frame (body, origin signature, outer record), record spliced from another announcement (other origin / same origin other time), re-attribution to a known router with the attacker's key attached, re-attribution of an unknown signer with a non-matching identity, reorder, strip inner / outer record, duplicate record, wrong delivering link, chain containing R, replay of an older announcement, exact duplicate, same announcement over a second chain; " +
		"inner forgeries are re-wrapped by validly signed outer records (colluding outer routers incl. the delivering peer). Observed: handler error, routing table, frames R forwards (targets and the appended record), stored info; non-trivial/distinct = distinct (operator, chain length, accepted/rejected/looping, forwarded-to count)"
	c.CoqSetup("Prelude SeqCorr SwitchLabel Table TableCorr Control ControlCorr", "c08_case", "c08_ok")
	// identities shared by all scenarios
	var ids []*m.Address
	for i := 0; i < 10; i++ {
		a, err := newGeoIdentity()
		if err != nil {
			return err
		}
		ids = append(ids, a)
	}
	nScen := c.Pick(36, 300)
	for si := 0; si < nScen; si++ {
		stub := c.Rng.IntN(8) == 0
		e, err := newCtlEnv(c, stub)
		if err != nil {
			return err
		}
		R := e.R
		self := R.id.IP
		// a third (lite) and sometimes a fourth peer
		P3, err := e.w.addNode("P3", relayStore, nil)
		if err != nil {
			return err
		}
		l3, _, err := e.w.connect(R, P3, 13, 23)
		if err != nil {
			return err
		}
		l3.lite = c.Rng.IntN(2) == 0
		peers := []*rnode{e.P1, e.P2, P3}
		if c.Rng.IntN(2) == 0 {
			P4, err := e.w.addNode("P4", relayStore, nil)
			if err != nil {
				return err
			}
			if _, _, err := e.w.connect(R, P4, 14, 24); err != nil {
				return err
			}
			peers = append(peers, P4)
		}
		// which identities R already knows
		perm := c.Rng.Perm(len(ids))
		pool := make([]*m.Address, len(ids))
		for i, j := range perm {
			pool[i] = ids[j]
		}
		for _, a := range pool[:5] {
			_ = R.st.AddRouter(&a.PublicAddress)
		}
		knownIDs, unknownIDs := pool[:5], pool[5:]
		attacker := unknownIDs[0]
		pickID := func() *m.Address {
			if c.Rng.IntN(3) == 0 {
				return unknownIDs[1+c.Rng.IntN(len(unknownIDs)-1)]
			}
			return knownIDs[c.Rng.IntN(len(knownIDs))]
		}
		linksTerm := func() (string, []netip.Addr) {
			var ls []*hlink
			for _, l := range R.links {
				if !l.closing.Load() {
					ls = append(ls, l)
				}
			}
			sort.Slice(ls, func(i, j int) bool { return cmpIP(ls[i].to.id.IP, ls[j].to.id.IP) })
			var out []string
			var ips []netip.Addr
			for _, l := range ls {
				out = append(out, fmt.Sprintf("(%s,%d,%d,%s)", ipN(l.to.id.IP), l.label, l.latency, coqBool(l.lite)))
				ips = append(ips, l.to.id.IP)
			}
			return coqList(out), ips
		}
		honest := func(a *c08Ann, deliver *rnode, n int) []c08Rec {
			// outermost first: the delivering peer, then n-1 further routers towards the origin
			var ch []c08Rec
			used := map[netip.Addr]bool{a.origin.IP: true, deliver.id.IP: true, self: true}
			for k := 0; k < n; k++ {
				var id *m.Address
				if k == 0 {
					id = deliver.id
				} else {
					for tries := 0; ; tries++ {
						id = pickID()
						if !used[id.IP] || tries > 20 {
							break
						}
					}
					used[id.IP] = true
				}
				ch = append(ch, c08Rec{pub: id.PublicAddress, delay: uint16(1 + c.Rng.IntN(40)), fl: m.SwitchLabel(2 + c.Rng.IntN(300)), rl: m.SwitchLabel(2 + c.Rng.IntN(300)), signKey: id.PrivateKey, ctx: a.ctx, flipAt: -1})
			}
			return ch
		}
		var lastAnn *c08Ann
		var lastFull []byte
		nAnn := 5 + c.Rng.IntN(6)
		for k := 0; k < nAnn; k++ {
			origin := pickID()
			exp := time.Now().Add([]time.Duration{11 * time.Minute, time.Hour}[c.Rng.IntN(2)])
			a, err := c08NewAnn(origin, c.Rng.IntN(5) == 0, m.SwitchLabel(2+c.Rng.IntN(200)), exp)
			if err != nil {
				return err
			}
			deliver := peers[c.Rng.IntN(2)]
			recvNode := deliver
			n := c.Rng.IntN(7)
			if c.Rng.IntN(6) == 0 {
				n = 0
			}
			var chain []c08Rec
			data := append([]byte(nil), a.base...)
			if n == 0 {
				// direct announcement: the origin is the delivering peer
				b, err := c08NewAnn(deliver.id, a.msg.Stub, a.msg.ReturnLabel, exp)
				if err != nil {
					return err
				}
				a = b
				origin = deliver.id
				data = append([]byte(nil), a.base...)
			} else {
				chain = honest(a, deliver, n)
			}
			op := "honest"
			forged := false
			idx := 0
			if len(chain) > 0 {
				idx = c.Rng.IntN(len(chain))
			}
			switch c.Rng.IntN(27) {
			case 24, 25, 26:
				// the newest accepted announcement of an origin, re-sent with the SAME timestamp and origin
				// signature but a modified body; the hop records are valid (their signing context — origin,
				// time, origin signature — is unchanged) and signed by colluding routers incl. the delivering peer
				if lastAnn != nil {
					nb, _ := cbor.Marshal(&router.AnnouncePingMsg{Info: &m.RouterInfo{Version: "t"}, ReturnLabel: lastAnn.msg.ReturnLabel + 1, Stub: !lastAnn.msg.Stub, Expires: lastAnn.msg.Expires})
					fb, err := craftPing(pingSpec{from: lastAnn.origin, dst: m.RouterAddress, msgType: frame.RouterHopPingDeprecated, pingType: "announce", body: nb, seqTime: lastAnn.t})
					if err == nil {
						sigOf := func(d []byte) []byte {
							mi := 49 + int(d[48])
							ai := mi + 2 + (int(d[mi])<<8 | int(d[mi+1]))
							return d[ai : ai+64]
						}
						copy(sigOf(fb), sigOf(lastAnn.base))
						fa := &c08Ann{origin: lastAnn.origin, base: fb, t: lastAnn.t, ctx: c08Ctx(fb)}
						_ = cbor.Unmarshal(nb, &fa.msg)
						a, origin = fa, lastAnn.origin
						if n == 0 {
							n = 1
						}
						chain = honest(a, deliver, n)
						op, forged = "same-time-modified-body", true
					}
				}
			case 22, 23:
				// the delivering peer announces itself but attaches a (genuinely signed) hop record of another
				// router: the outermost signer is not the delivering peer
				{
					b, err := c08NewAnn(deliver.id, a.msg.Stub, a.msg.ReturnLabel, exp)
					if err != nil {
						return err
					}
					a = b
					origin = deliver.id
					other := pickID()
					chain = []c08Rec{{pub: other.PublicAddress, delay: 9, fl: 33, rl: 44, signKey: other.PrivateKey, ctx: a.ctx, flipAt: -1}}
					if c.Rng.IntN(2) == 0 {
						third := pickID()
						chain = append(chain, c08Rec{pub: third.PublicAddress, delay: 4, fl: 5, rl: 6, signKey: third.PrivateKey, ctx: a.ctx, flipAt: -1})
					}
					n = len(chain)
					op, forged = "origin-delivers-foreign-chain", true
				}
			case 0:
				if n > 0 {
					chain[idx].signKey = nil
					op, forged = "unsigned-record", true
				}
			case 1:
				if n > 0 { // field changed after signing: sign with fields, then present other fields
					orig := chain[idx]
					inner := c08Encode(chain[idx:])
					var att router.AnnouncePingAttachment
					_ = cbor.Unmarshal(inner[:len(inner)-64], &att)
					switch c.Rng.IntN(3) {
					case 0:
						att.Delay = orig.delay + 1
					case 1:
						att.ForwardLabel = orig.fl + 1
					default:
						att.ReturnLabel = orig.rl + 1
					}
					mb, _ := cbor.Marshal(att)
					chain[idx].raw = append(mb, inner[len(inner)-64:]...)
					op, forged = "field-mutation", true
				}
			case 2:
				if n > 0 {
					chain[idx].flipAt, chain[idx].flipSig = c.Rng.IntN(4096), true
					op, forged = "sig-flip", true
				}
			case 3:
				if n > 0 {
					chain[idx].flipAt = c.Rng.IntN(4096)
					op, forged = "record-body-flip", true
				}
			case 4, 5:
				// record(s) from another announcement: other origin, or same origin at another time
				if n > 0 {
					o2 := origin
					if c.Rng.IntN(2) == 0 {
						o2 = pickID()
					}
					b, err := c08NewAnn(o2, a.msg.Stub, a.msg.ReturnLabel, exp)
					if err != nil {
						return err
					}
					if c.Rng.IntN(3) == 0 && n >= 2 {
						// the other announcement b really was delivered first, through the very same relays: R has
						// verified these record bytes before.  Then a NEWER announcement of the origin arrives whose
						// outermost record is genuine and whose inner records are b's, byte for byte.
						chainB := append([]c08Rec(nil), chain...)
						for j := range chainB {
							chainB[j].ctx = b.ctx
						}
						R.inject(append(append([]byte(nil), b.base...), c08Encode(chainB)...), R.links[deliver.id.IP])
						e.w.queue = nil
						if a2, err := c08NewAnn(origin, a.msg.Stub, a.msg.ReturnLabel, exp); err == nil {
							a = a2
							chain[0].ctx = a2.ctx
							for j := 1; j < len(chain); j++ {
								chain[j].ctx = b.ctx
							}
							op, forged = "splice-after-genuine-delivery", true
						}
					}
					if op != "splice-after-genuine-delivery" {
						for j := idx; j < len(chain); j++ {
							chain[j].ctx = b.ctx
						}
						op, forged = "splice-other-announcement", true
						if o2 == origin {
							op = "splice-same-origin-other-time"
						}
					}
				}
			case 6, 7:
				// re-attribution to a router R knows, signed by the attacker, attacker's key attached
				if n > 0 {
					v := knownIDs[c.Rng.IntN(len(knownIDs))]
					if idx == 0 {
						v = deliver.id
					}
					pub := v.PublicAddress
					pub.PublicKey = attacker.PublicKey
					if c.Rng.IntN(2) == 0 {
						pub.Hash, pub.Type = attacker.Hash, attacker.Type
					}
					chain[idx].pub = pub
					chain[idx].signKey = attacker.PrivateKey
					op, forged = "reattribute-known-with-attacker-key", true
				}
			case 8:
				// re-attribution of an unknown router: identity does not match the key
				if n > 1 && idx > 0 {
					v := unknownIDs[1+c.Rng.IntN(len(unknownIDs)-1)]
					pub := v.PublicAddress
					pub.PublicKey = attacker.PublicKey
					chain[idx].pub = pub
					chain[idx].signKey = attacker.PrivateKey
					op, forged = "reattribute-unknown-bad-identity", true
				}
			case 9:
				// signed by the right router but for a different inner chain: reorder two records
				if n > 2 && idx+1 < len(chain) && idx > 0 {
					full := c08Encode(chain)
					_ = full
					// encode honestly, then swap the two layers' positions keeping their signatures
					lay := make([][]byte, len(chain))
					for j := range chain {
						lay[j] = c08Encode(chain[j:])
					}
					// rebuild: record idx+1 placed outside record idx
					var attA, attB router.AnnouncePingAttachment
					_ = cbor.Unmarshal(lay[idx][:len(lay[idx])-64], &attA)
					_ = cbor.Unmarshal(lay[idx+1][:len(lay[idx+1])-64], &attB)
					rest := attB.NextAttachment
					attA.NextAttachment = rest
					ab, _ := cbor.Marshal(attA)
					innerA := append(ab, lay[idx][len(lay[idx])-64:]...)
					attB.NextAttachment = innerA
					bb, _ := cbor.Marshal(attB)
					chain[idx].raw = append(bb, lay[idx+1][len(lay[idx+1])-64:]...)
					op, forged = "reorder", true
				}
			case 10:
				// strip an inner record without its outer neighbour re-signing
				if n > 1 && idx > 0 {
					lay := c08Encode(chain[idx-1:])
					var att router.AnnouncePingAttachment
					_ = cbor.Unmarshal(lay[:len(lay)-64], &att)
					var in router.AnnouncePingAttachment
					if len(att.NextAttachment) > 64 {
						_ = cbor.Unmarshal(att.NextAttachment[:len(att.NextAttachment)-64], &in)
					}
					att.NextAttachment = in.NextAttachment
					mb, _ := cbor.Marshal(att)
					chain[idx-1].raw = append(mb, lay[len(lay)-64:]...)
					op, forged = "strip-inner", true
				}
			case 11:
				// strip the outermost record: the delivering peer is no longer the outermost signer
				if n > 1 {
					chain = chain[1:]
					op, forged = "strip-outer", true
				} else if n == 1 {
					chain = nil
					op, forged = "strip-outer", true
				}
			case 12:
				// delivered over another link than the outermost signer's
				recvNode = peers[2]
				op, forged = "wrong-link", true
			case 13:
				// duplicate a record
				if n > 0 {
					dup := chain[idx]
					chain = append(chain[:idx+1], append([]c08Rec{dup}, chain[idx+1:]...)...)
					// the outer of the two now signs over a chain it did sign? no: re-sign honestly from there out,
					// the inner copy keeps claiming the same router twice
					op = "duplicate-record-resigned"
				}
			case 14:
				// a chain that already contains R
				if n > 0 && idx > 0 {
					chain[idx].pub = R.id.PublicAddress
					chain[idx].signKey = R.id.PrivateKey
					op = "contains-self"
				}
			case 15:
				// replay of an older announcement (another one from that origin was accepted since)
				if lastAnn != nil {
					b, err := c08NewAnn(lastAnn.origin, false, 9, exp)
					if err == nil {
						dl := peers[0]
						ch2 := honest(b, dl, 1)
						full := append(append([]byte(nil), b.base...), c08Encode(ch2)...)
						R.inject(full, R.links[dl.id.IP])
						e.w.queue = nil
					}
					a, data, chain = lastAnn, nil, nil
					data = append([]byte(nil), lastFull...)
					op, forged = "replay-older", true
				}
			case 16:
				// exact duplicate of the newest (tolerated for hop pings): delivered again
				if lastAnn != nil {
					a, chain = lastAnn, nil
					data = append([]byte(nil), lastFull...)
					op = "exact-duplicate"
				}
			case 17:
				// frame-level flips: body, origin signature
				op, forged = "frame-flip", true
			}
			if op != "replay-older" && op != "exact-duplicate" {
				data = append(append([]byte(nil), a.base...), c08Encode(chain)...)
				if op == "frame-flip" {
					pos := 3 + c.Rng.IntN(len(data)-3)
					bit := byte(1) << uint(c.Rng.IntN(8))
					// a changed destination, or a message type that is no longer a hop ping, makes it transit
					// traffic for R's switch (forwarded unauthenticated by design), not an announcement for R
					for (pos >= 32 && pos < 48) || (pos == 4 && (data[4]^bit) != 0 && (data[4]^bit) != 3) {
						pos = 3 + c.Rng.IntN(len(data)-3)
					}
					data[pos] ^= bit
					op = "frame-flip-" + regionOf(pos, 49, len(a.base)-64, len(a.base))
					if pos >= len(a.base) {
						op = "frame-flip-appendix"
					}
				}
			}
			recv := R.links[recvNode.id.IP]
			if op == "replay-older" || op == "exact-duplicate" {
				// same link as the first delivery: outermost signer is unchanged
				recv = nil
				_, sg := e.c08Decode(c08Appendix(data), c08Ctx(data))
				if len(sg) > 0 {
					recv = R.links[sg[0]]
				} else {
					recv = R.links[netip.AddrFrom16([16]byte(data[16:32]))]
				}
				if recv == nil {
					recv = R.links[peers[0].id.IP]
				}
			}

			// ----- model inputs -----
			pre, _ := e.snapshot()
			src := netip.AddrFrom16([16]byte(data[16:32]))
			pp := c07Ping{data: data, src: src, hop: true, kind: 4}
			pt := e.pingTerm(pp)
			apx := c08Appendix(data)
			recs, signers := e.c08Decode(apx, c08Ctx(data))
			var am router.AnnouncePingMsg
			retl, stubf, expMs := 0, false, int64(0)
			if body := c08Body(data); body != nil && cbor.Unmarshal(body, &am) == nil {
				retl, stubf = int(am.ReturnLabel), am.Stub
				if !am.Expires.IsZero() {
					expMs = am.Expires.UnixMilli()
				}
			}
			dstAll := netip.AddrFrom16([16]byte(data[32:48])) == m.RouterAddress
			annT := fmt.Sprintf("(mkAnn %s %s %d %s (%d)%%Z 0 %s)", ipN(src), coqList(recs), retl, coqBool(stubf), expMs, coqBool(dstAll))
			linksT, _ := linksTerm()
			recvT := fmt.Sprintf("(%s,%d,%d,%s)", ipN(recv.to.id.IP), recv.label, recv.latency, coqBool(recv.lite))
			before := R.ro.Table().VerifEntries()
			infoBefore := e.storedInfo(src)
			now := time.Now()

			// ----- implementation -----
			e.w.queue = nil
			res := R.inject(data, recv)
			c.Eval()
			after := R.ro.Table().VerifEntries()
			var fw []netip.Addr
			fwOK := true
			for _, q := range e.w.queue {
				if q.link.from != R {
					continue
				}
				fw = append(fw, q.link.to.id.IP)
				if why := c08CheckForward(q.data, data, R, recv, q.link); why != "" {
					fwOK = false
					c.Violate("forwarded announcement is not the received one plus this router's record: "+why, "bad-forward", map[string]any{"op": op, "chain": n})
				}
			}
			e.w.queue = nil
			sort.Slice(fw, func(i, j int) bool { return cmpIP(fw[i], fw[j]) })
			_ = fwOK
			var fwT []string
			for _, x := range fw {
				fwT = append(fwT, ipN(x))
			}
			acc := true
			for _, he := range res.routerErrs {
				if he != nil {
					acc = false
				}
			}
			if len(res.routerErrs) == 0 {
				acc = false
			}
			if res.panicked() {
				c.Violate("an announcement crashed the router worker", "announce-panic", map[string]any{"op": op, "chain": n})
			}
			tableChanged := coqEntries(before) != coqEntries(after)
			outcome := "rejected"
			if acc && (tableChanged || len(fw) > 0) {
				outcome = "accepted"
			} else if acc {
				outcome = "no-change"
			}
			c.Count("op:" + op)
			c.Count("outcome:" + outcome)
			c.CountN("chain-length-total", len(signers))
			c.NonTrivial(fmt.Sprintf("%s/n=%d/%s/fw=%d", op, len(recs), outcome, len(fw)))

			// ----- property oracle (independent of the model) -----
			if forged {
				if tableChanged || len(fw) > 0 || e.storedInfo(src) != infoBefore {
					c.Violate(fmt.Sprintf("forged announcement (%s, %d records) changed the routing table, stored info or was forwarded", op, len(recs)), "forgery-accepted-"+op,
						map[string]any{"op": op, "records": len(recs), "table_changed": tableChanged, "forwarded_to": len(fw), "frame_hex": fmt.Sprintf("%x", data)})
				}
			}
			if outcome == "accepted" && tableChanged {
				// the new route names exactly the attached signers with their fields, next hop = delivering peer
				had := map[string]bool{}
				for i := range before {
					had[coqEntry(&before[i])] = true
				}
				for i := range after {
					got := &after[i]
					if had[coqEntry(got)] {
						continue
					}
					// every new or changed entry must be the route this announcement describes
					okShape := got.DstIP == src && got.NextHop == recv.to.id.IP && len(got.Path.Hops) == len(signers)+2
					if okShape {
						for j, s := range signers {
							if got.Path.Hops[j+1].Router != s {
								okShape = false
							}
						}
					}
					if !okShape {
						c.Violate("accepted announcement installed a route that is not (this router, the signers of the attached records in order, the origin) via the delivering peer", "route-shape", map[string]any{"op": op, "signers": len(signers), "got": coqEntry(got)})
					}
				}
			}

			c.Case(fmt.Sprintf("(%s,%s,%s,%s,(%d)%%Z,%s,%s,%s,%s,%s,(%s,%s,%s))", cfgTerm(R.ro.Table().VerifConfig()), ipN(self), coqBool(false), coqBool(stub), now.UnixMilli(),
				pre, linksT, recvT, pt, annT, coqBool(acc), coqEntries(after), coqList(fwT)),
				map[string]any{"op": op, "records": len(recs), "outcome": outcome, "scenario": si, "step": k})
			if outcome == "accepted" || op == "exact-duplicate" {
				if op != "replay-older" {
					lastAnn, lastFull = a, append([]byte(nil), data...)
				}
			}
			if si < 2 && k < 3 {
				c.Sample(map[string]any{"op": op, "records": len(recs), "outcome": outcome, "forwarded_to": len(fw)})
			}
		}
	}
	if err := c08ConcurrentAnnouncements(c); err != nil {
		return err
	}
	return c08DeepChains(c)
}

// c08ConcurrentAnnouncements: a router handles announcements on several workers at once.  Worker 1
// gets origin O1's announcement from the delivering peer P, whose (valid) outer record wraps a record
// that relay H signed for ANOTHER announcement (origin O2's); it is held where it stores the not yet
// known H (no router lock is held there).  Meanwhile worker 2 handles the genuine O2 announcement
// (P's record around that very record of H) to completion.  Then worker 1 goes on.  H never signed
// for O1's announcement: it is rejected, the table gets no route to O1, nothing of it is forwarded.
func c08ConcurrentAnnouncements(c *Ctx) error {
	for rep, n := 0, c.Pick(3, 10); rep < n; rep++ {
		e, err := newCtlEnv(c, false)
		if err != nil {
			return err
		}
		R, P := e.R, e.P1
		var fresh []*m.Address
		for i := 0; i < 3; i++ {
			a, err := newIdentity()
			if err != nil {
				return err
			}
			fresh = append(fresh, a)
		}
		H, O1, O2 := fresh[0], fresh[1], fresh[2]
		exp := time.Now().Add(time.Hour)
		a1, err := c08NewAnn(O1, false, 7, exp)
		if err != nil {
			return err
		}
		a2, err := c08NewAnn(O2, false, 9, exp)
		if err != nil {
			return err
		}
		mk := func(id *m.Address, ctx []byte) c08Rec {
			return c08Rec{pub: id.PublicAddress, delay: uint16(1 + c.Rng.IntN(40)), fl: m.SwitchLabel(2 + c.Rng.IntN(100)), rl: m.SwitchLabel(2 + c.Rng.IntN(100)), signKey: id.PrivateKey, ctx: ctx, flipAt: -1}
		}
		hForO2 := mk(H, a2.ctx)
		genuine := append(append([]byte(nil), a2.base...), c08Encode([]c08Rec{mk(P.id, a2.ctx), hForO2})...)
		// the forged one: P signs (for O1) around H's record for O2, byte for byte
		inner := c08Encode([]c08Rec{hForO2})
		forged := append(append([]byte(nil), a1.base...), c08Encode([]c08Rec{mk(P.id, a1.ctx), {raw: inner}})...)
		held, release := R.rs.holdSave(H.IP)
		before := coqEntries(R.ro.Table().VerifEntries())
		_ = before
		done1 := make(chan deliverResult, 1)
		go func() { done1 <- R.inject(forged, R.links[P.id.IP]) }()
		interleaved := false
		select {
		case <-held:
			interleaved = true
		case <-time.After(time.Second):
		}
		res2 := R.inject(genuine, R.links[P.id.IP])
		release()
		res1 := <-done1
		c.Eval()
		forwardedO1 := 0
		for _, q := range e.w.queue {
			if fi := parseFrameInfo(q.data); fi.ok && fi.src == O1.IP {
				forwardedO1++
			}
		}
		e.w.queue = nil
		routeO1 := false
		for _, en := range R.ro.Table().VerifEntries() {
			if en.DstIP == O1.IP {
				routeO1 = true
			}
		}
		c.Count(fmt.Sprintf("concurrent-announcements:interleaved=%v", interleaved))
		c.NonTrivial(fmt.Sprintf("concurrent/%v", interleaved))
		if res1.panicked() || res2.panicked() {
			c.Violate("two announcements handled at the same time crashed a router worker", "concurrent-panic", map[string]any{"interleaved": interleaved})
			continue
		}
		if routeO1 || forwardedO1 > 0 {
			c.Violate("an announcement carrying a hop record its signer produced for a different announcement was accepted while that other announcement was handled by a second worker", "concurrent-foreign-record",
				map[string]any{"interleaved": interleaved, "route_installed": routeO1, "forwarded": forwardedO1})
		}
	}
	return nil
}

// c08DeepChains: chains of 97..101 hop records (the receive path has no size limit below the largest
// buffer; an attacker mints the identities himself).  Whatever the depth: if any record is forged
// the announcement changes nothing and nothing is forwarded; if it is accepted, the route lists
// exactly the signers of the attached records.
func c08DeepChains(c *Ctx) error {
	var deep []*m.Address
	for i := 0; i < 102; i++ {
		a, err := newIdentity()
		if err != nil {
			return err
		}
		deep = append(deep, a)
	}
	depths := []int{99, 100}
	if c.Thorough() {
		depths = []int{97, 98, 99, 100, 101}
	}
	for _, depth := range depths {
		for _, forgeAt := range []int{-1, depth - 1, depth / 2, 98, 99} {
			if forgeAt >= depth {
				continue
			}
			e, err := newCtlEnv(c, false)
			if err != nil {
				return err
			}
			R := e.R
			origin := deep[101]
			a, err := c08NewAnn(origin, false, 7, time.Now().Add(time.Hour))
			if err != nil {
				return err
			}
			var chain []c08Rec
			var signers []netip.Addr
			for k := 0; k < depth; k++ {
				id := deep[k]
				if k == 0 {
					id = e.P1.id // the delivering peer is the outermost signer
				}
				r := c08Rec{pub: id.PublicAddress, delay: uint16(1 + c.Rng.IntN(40)), fl: m.SwitchLabel(2 + c.Rng.IntN(100)), rl: m.SwitchLabel(2 + c.Rng.IntN(100)), signKey: id.PrivateKey, ctx: a.ctx, flipAt: -1}
				if k == forgeAt {
					r.flipAt, r.flipSig = c.Rng.IntN(4096), true
				}
				chain = append(chain, r)
				signers = append(signers, id.IP)
			}
			data := append(append([]byte(nil), a.base...), c08Encode(chain)...)
			before := coqEntries(R.ro.Table().VerifEntries())
			e.w.queue = nil
			res := R.inject(data, R.links[e.P1.id.IP])
			c.Eval()
			after := R.ro.Table().VerifEntries()
			forwarded := len(e.w.queue)
			e.w.queue = nil
			rep := map[string]any{"records": depth, "forged_record": forgeAt + 1, "appendix_bytes": len(data) - len(a.base), "forwarded": forwarded}
			c.Count(fmt.Sprintf("deep-chain:%d/forged=%v", depth, forgeAt >= 0))
			if res.panicked() {
				c.Violate(fmt.Sprintf("an announcement with %d hop records crashed a router worker", depth), "deep-panic", rep)
				continue
			}
			var got *m.RoutingTableEntry
			for i := range after {
				if after[i].DstIP == origin.IP {
					got = &after[i]
				}
			}
			c.NonTrivial(fmt.Sprintf("deep/%d/forged-at=%d/accepted=%v", depth, forgeAt+1, got != nil))
			if forgeAt >= 0 {
				if coqEntries(after) != before || forwarded > 0 {
					c.Violate(fmt.Sprintf("an announcement with %d hop records whose record %d (counted from the outermost) carries a modified signature changed the routing table or was forwarded", depth, forgeAt+1), "deep-forged-accepted", rep)
				}
				continue
			}
			if got != nil {
				ok := got.NextHop == e.P1.id.IP && len(got.Path.Hops) == depth+2
				for j := 0; ok && j < depth; j++ {
					ok = got.Path.Hops[j+1].Router == signers[j]
				}
				if !ok {
					c.Violate(fmt.Sprintf("an accepted announcement with %d genuine hop records installed a route with %d hops that does not list exactly the signers", depth, len(got.Path.Hops)), "deep-route-shape", rep)
				}
			}
		}
	}
	return nil
}

func c08Appendix(data []byte) []byte {
	mi := 49 + int(data[48])
	if mi+2 > len(data) {
		return nil
	}
	ai := mi + 2 + (int(data[mi])<<8 | int(data[mi+1]))
	if ai+64 > len(data) {
		return nil
	}
	return data[ai+64:]
}

func c08Body(data []byte) []byte {
	mi := 49 + int(data[48])
	if mi+2 > len(data) {
		return nil
	}
	ai := mi + 2 + (int(data[mi])<<8 | int(data[mi+1]))
	if ai+64 > len(data) || mi+4 > ai {
		return nil
	}
	msg := data[mi+2 : ai]
	if len(msg) < 3 || len(msg) < 2+int(msg[1]) {
		return nil
	}
	return msg[2+int(msg[1]):]
}

// c08CheckForward checks a frame R forwarded: everything up to the appendix is the received
// frame (TTL may differ), and the appendix is one record by R wrapping the received appendix
// byte for byte, with the receive link's delay and label, the send link's label, and a
// signature that verifies under R's key with the announcement's context.
func c08CheckForward(out, in []byte, R *rnode, recv, send *hlink) string {
	inApx, outApx := c08Appendix(in), c08Appendix(out)
	hin, hout := in[:len(in)-len(inApx)], out[:len(out)-len(outApx)]
	if len(hin) != len(hout) || !bytes.Equal(hin[3:], hout[3:]) || hin[0] != hout[0] {
		return "frame header/body/signature differs"
	}
	if len(outApx) < 65 {
		return "no record appended"
	}
	var att router.AnnouncePingAttachment
	if err := cbor.Unmarshal(outApx[:len(outApx)-64], &att); err != nil {
		return "record does not decode"
	}
	if att.Router.IP != R.id.IP || !bytes.Equal(att.Router.PublicKey, R.id.PublicKey) {
		return "record is not attributed to the forwarding router"
	}
	if !bytes.Equal(att.NextAttachment, inApx) {
		return "nested chain is not the received appendix"
	}
	if att.Delay != recv.latency || att.ForwardLabel != recv.label || att.ReturnLabel != send.label {
		return "delay/labels are not those of the receive/send links"
	}
	if ed25519.VerifyWithOptions(R.id.PublicKey, outApx[:len(outApx)-64], outApx[len(outApx)-64:], &ed25519.Options{Context: string(c08Ctx(in))}) != nil {
		return "record signature does not verify with the announcement's context"
	}
	return ""
}

func (e *ctlEnv) storedInfo(ip netip.Addr) string {
	for _, sr := range e.storedRouters() {
		if sr.Address.IP == ip {
			if sr.PublicInfo == nil {
				return ""
			}
			b, _ := cbor.Marshal(sr.PublicInfo)
			return fmt.Sprintf("%x", b)
		}
	}
	return ""
}

var _ = big.NewInt
