package main

import (
	"fmt"
	"net/netip"
	"strings"

	"github.com/mycoria/mycoria/frame"
)

func init() {
	genSections = append(genSections, genFrame)
}

func b2i(b bool) int {
	if b {
		return 1
	}
	return 0
}

func genFrame(sb *strings.Builder) error {
	emitConsts(sb, "frame", frame.VerifConsts())
	sb.WriteString("(* frame.MessageType.Class / IsPriority / IsEncrypted tabulated over all 256 type bytes *)\n")
	fmt.Fprintf(sb, "Definition msg_class_table : list (N * N) := %s.\n", stepTable(256, func(i int) int { return int(frame.MessageType(i).Class()) }))
	fmt.Fprintf(sb, "Definition is_prio_table : list (N * N) := %s.\n", stepTable(256, func(i int) int { return b2i(frame.MessageType(i).IsPriority()) }))
	fmt.Fprintf(sb, "Definition is_enc_table : list (N * N) := %s.\n", stepTable(256, func(i int) int { return b2i(frame.MessageType(i).IsEncrypted()) }))
	sb.WriteString("Definition msg_class (t : N) : N := step_lookup msg_class_table t 0.\n")
	sb.WriteString("Definition is_prio (t : N) : bool := N.eqb (step_lookup is_prio_table t 0) 1.\n")
	sb.WriteString("Definition is_enc (t : N) : bool := N.eqb (step_lookup is_enc_table t 0) 1.\n")
	fmt.Fprintf(sb, "Definition class_unknown : N := %d.\nDefinition class_signed : N := %d.\nDefinition class_prio_enc : N := %d.\nDefinition class_enc : N := %d.\n\n",
		frame.MessageClassUnknown, frame.MessageClassSigned, frame.MessageClassPriorityEncrypted, frame.MessageClassEncrypted)
	// message types the router treats specially
	fmt.Fprintf(sb, "Definition mt_router_hop_ping_deprecated : N := %d.\nDefinition mt_router_ping : N := %d.\nDefinition mt_router_ctrl : N := %d.\nDefinition mt_router_hop_ping : N := %d.\nDefinition mt_network_traffic : N := %d.\n",
		frame.RouterHopPingDeprecated, frame.RouterPing, frame.RouterCtrl, frame.RouterHopPing, frame.NetworkTraffic)
	// ReduceTTL(1) tabulated over all 256 TTL values, and the TTL of a freshly built frame
	b := frame.NewFrameBuilder()
	src, dst := netip.MustParseAddr("fd00::1"), netip.MustParseAddr("fd00::2")
	f, err := b.NewFrameV1(src, dst, frame.RouterPing, nil, []byte{1}, nil)
	if err != nil {
		return err
	}
	fmt.Fprintf(sb, "Definition frame_default_ttl : N := %d.\n", f.TTL())
	sb.WriteString("(* FrameV1.ReduceTTL(1) tabulated over all 256 TTL values *)\n")
	fmt.Fprintf(sb, "Definition reduce_ttl_table : list (N * N) := %s.\n", stepTable(256, func(i int) int { f.SetTTL(uint8(i)); f.ReduceTTL(1); return int(f.TTL()) }))
	sb.WriteString("Definition reduce_ttl_code (t : N) : N := step_lookup reduce_ttl_table t 0.\n\n")
	return nil
}
