package main

import (
	"fmt"
	"strings"

	"github.com/mycoria/mycoria/frame"
)

func init() {
	genSections = append(genSections, genFrame)
}

func b2i(b bool) int {
	if b {
		return 1
	}
	return 0
}

func genFrame(sb *strings.Builder) error {
	emitConsts(sb, "frame", frame.VerifConsts())
	sb.WriteString("(* frame.MessageType.Class / IsPriority / IsEncrypted tabulated over all 256 type bytes *)\n")
	fmt.Fprintf(sb, "Definition msg_class_table : list (N * N) := %s.\n", stepTable(256, func(i int) int { return int(frame.MessageType(i).Class()) }))
	fmt.Fprintf(sb, "Definition is_prio_table : list (N * N) := %s.\n", stepTable(256, func(i int) int { return b2i(frame.MessageType(i).IsPriority()) }))
	fmt.Fprintf(sb, "Definition is_enc_table : list (N * N) := %s.\n", stepTable(256, func(i int) int { return b2i(frame.MessageType(i).IsEncrypted()) }))
	sb.WriteString("Definition msg_class (t : N) : N := step_lookup msg_class_table t 0.\n")
	sb.WriteString("Definition is_prio (t : N) : bool := N.eqb (step_lookup is_prio_table t 0) 1.\n")
	sb.WriteString("Definition is_enc (t : N) : bool := N.eqb (step_lookup is_enc_table t 0) 1.\n")
	fmt.Fprintf(sb, "Definition class_unknown : N := %d.\nDefinition class_signed : N := %d.\nDefinition class_prio_enc : N := %d.\nDefinition class_enc : N := %d.\n\n",
		frame.MessageClassUnknown, frame.MessageClassSigned, frame.MessageClassPriorityEncrypted, frame.MessageClassEncrypted)
	return nil
}
