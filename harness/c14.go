package main

import (
	"bytes"
	"fmt"
	"github.com/mycoria/mycoria/frame"
	"github.com/mycoria/mycoria/state"
	"strings"
	"sync/atomic"
	"time"

	"github.com/mycoria/mycoria/m"
)

func init() { register("C14", runC14) }

// kxWorld is two real routers joined by one link; lo has the lower address.
type kxWorld struct {
	w      *rworld
	lo, hi *rnode
	clears [2]bool
	role   [2]string
	last   [2]*inflight // the frame last delivered from lo / hi
	// traffic a router sealed with keys it had just installed as the serving side of a setup (a server
	// starts using its keys as soon as it has answered) and that is still under way: the last frame
	// of the burst, to be delivered to the other router at the next quiescent point
	stale [2][]byte
}

func newKxWorld(ids []*m.Address) (*kxWorld, error) {
	w := newRWorld()
	a, b := ids[0], ids[1]
	if a.IP.Compare(b.IP) > 0 {
		a, b = b, a
	}
	lo, err := w.addNode("lo", relayStore, a)
	if err != nil {
		return nil, err
	}
	hi, err := w.addNode("hi", relayStore, b)
	if err != nil {
		return nil, err
	}
	if _, _, err := w.connect(lo, hi, 11, 12); err != nil {
		return nil, err
	}
	return &kxWorld{w: w, lo: lo, hi: hi}, nil
}

func (k *kxWorld) node(x bool) *rnode {
	if x {
		return k.lo
	}
	return k.hi
}

// channel returns the queue positions of the frames sent by x that are still in flight, in send order.
func (k *kxWorld) channel(x bool) []int {
	var out []int
	for i, q := range k.w.queue {
		if q.link.from == k.node(x) {
			out = append(out, i)
		}
	}
	return out
}

func (k *kxWorld) est(x bool) bool {
	s := k.node(x).st.GetSession(k.node(!x).id.IP)
	return s != nil && s.Encryption().IsSetUp()
}

func (k *kxWorld) agree() bool {
	sl, sh := k.lo.st.GetSession(k.hi.id.IP), k.hi.st.GetSession(k.lo.id.IP)
	if sl == nil || sh == nil {
		return false
	}
	li, lout := sl.Encryption().VerifKeys()
	hin, hout := sh.Encryption().VerifKeys()
	return len(li) > 0 && len(lout) > 0 && bytes.Equal(li, hout) && bytes.Equal(lout, hin)
}

func (k *kxWorld) keysOf(x bool) (in, out []byte) {
	s := k.node(x).st.GetSession(k.node(!x).id.IP)
	if s == nil {
		return nil, nil
	}
	return s.Encryption().VerifKeys()
}

// traffic seals n end-to-end frames at x and unseals them at the other router, in order; it
// returns the first failure.
func (k *kxWorld) traffic(x bool, n int) error {
	X, Y := k.node(x), k.node(!x)
	sx, sy := X.st.GetSession(Y.id.IP), Y.st.GetSession(X.id.IP)
	if sx == nil || sy == nil {
		return fmt.Errorf("no session")
	}
	for i := 0; i < n; i++ {
		f, err := X.builder.NewFrameV1(X.id.IP, Y.id.IP, frame.NetworkTraffic, nil, []byte("end-to-end traffic probe"), nil)
		if err != nil {
			return err
		}
		if err := f.Seal(sx); err != nil {
			f.ReturnToPool()
			return fmt.Errorf("seal at %s: %w", X.name, err)
		}
		d, _ := f.FrameDataWithMargins(0, 0)
		data := append([]byte(nil), d...)
		f.ReturnToPool()
		pf, err := Y.builder.ParseFrame(data, nil, 0)
		if err != nil {
			return err
		}
		if err := pf.Unseal(sy); err != nil {
			return fmt.Errorf("frame %d sealed by %s does not unseal at %s: %w", i+1, X.name, Y.name, err)
		}
	}
	return nil
}

// burst seals n traffic frames at x with its current session and returns the last one (the others
// are lost on the way).
func (k *kxWorld) burst(x bool, n int) []byte {
	X, Y := k.node(x), k.node(!x)
	sx := X.st.GetSession(Y.id.IP)
	if sx == nil {
		return nil
	}
	var last []byte
	for i := 0; i < n; i++ {
		f, err := X.builder.NewFrameV1(X.id.IP, Y.id.IP, frame.NetworkTraffic, nil, []byte("traffic sent right after serving a key setup"), nil)
		if err != nil {
			return last
		}
		if err := f.Seal(sx); err == nil {
			d, _ := f.FrameDataWithMargins(0, 0)
			last = append([]byte(nil), d...)
		}
		f.ReturnToPool()
	}
	return last
}

// straggler delivers the frame kept from x's last burst to the other router (whatever it makes of it).
func (k *kxWorld) straggler(x bool) bool {
	d := k.stale[b2i(x)]
	k.stale[b2i(x)] = nil
	Y := k.node(!x)
	sy := Y.st.GetSession(k.node(x).id.IP)
	if d == nil || sy == nil {
		return false
	}
	pf, err := Y.builder.ParseFrame(d, nil, 0)
	if err != nil {
		return false
	}
	_ = pf.Unseal(sy)
	return true
}

func (k *kxWorld) pcode(x bool) int {
	active, done := k.node(x).ro.VerifHelloState(k.node(!x).id.IP)
	switch {
	case !active:
		return 0
	case done:
		return 2
	default:
		return 1
	}
}

func (k *kxWorld) observe() string {
	return fmt.Sprintf("(%s,%s,%s,%d,%d,%d%%nat,%d%%nat)", coqBool(k.est(true)), coqBool(k.est(false)), coqBool(k.est(true) && k.est(false) && k.agree()),
		k.pcode(true), k.pcode(false), len(k.channel(true)), len(k.channel(false)))
}

type kxEv struct {
	kind string // start, expire, clear, drop, deliver
	x    bool
	i    int
}

func (e kxEv) term() string {
	switch e.kind {
	case "start":
		return fmt.Sprintf("(EStart %s)", coqBool(e.x))
	case "expire":
		return fmt.Sprintf("(EExpire %s)", coqBool(e.x))
	case "clear":
		return fmt.Sprintf("(EClear %s)", coqBool(e.x))
	case "forget":
		return fmt.Sprintf("(EForget %s)", coqBool(e.x))
	case "dup":
		return fmt.Sprintf("(EDup %s)", coqBool(e.x))
	case "drop":
		return fmt.Sprintf("(EDrop %s %d)", coqBool(e.x), e.i)
	default:
		return fmt.Sprintf("(EDeliver %s %d)", coqBool(e.x), e.i)
	}
}

func (e kxEv) String() string {
	n := "hi"
	if e.x {
		n = "lo"
	}
	switch e.kind {
	case "drop", "deliver":
		return fmt.Sprintf("%s(%s,%d)", e.kind, n, e.i)
	}
	return fmt.Sprintf("%s(%s)", e.kind, n)
}

// apply performs the event on the real routers; enabled = it had an effect in the sense of the model.
func (k *kxWorld) apply(c *Ctx, e kxEv) (enabled bool, note string) {
	X, Y := k.node(e.x), k.node(!e.x)
	switch e.kind {
	case "start":
		// the tun path's trigger: only when encryption is not set up
		if k.est(e.x) {
			return false, ""
		}
		before := len(k.w.queue)
		_, err := X.ro.HelloPing.Send(Y.id.IP)
		if err != nil {
			return false, err.Error()
		}
		return len(k.w.queue) == before+1, ""
	case "expire":
		active, _ := X.ro.VerifHelloState(Y.id.IP)
		X.ro.VerifHelloExpire(Y.id.IP)
		return active, ""
	case "dup":
		// the network delivers a second, identical copy of the frame last delivered from X
		l := k.last[b2i(e.x)]
		if l == nil {
			return false, ""
		}
		k.w.queue = append(k.w.queue, &inflight{link: l.link, data: append([]byte(nil), l.data...)})
		res := k.w.step(len(k.w.queue) - 1)
		if res.panicked() {
			c.Violate("a duplicated key-setup frame crashed a router worker", "kx-panic", map[string]any{"event": e.String()})
		}
		return true, ""
	case "forget":
		// X loses its keys and hello state for Y (restart / idle session evicted); only at quiescence
		if len(k.w.queue) != 0 {
			return false, ""
		}
		active, _ := X.ro.VerifHelloState(Y.id.IP)
		had := k.est(e.x) || active
		if !had {
			return false, ""
		}
		_ = X.st.SetEncryptionSession(Y.id.IP, state.NewEncryptionSession())
		X.ro.VerifHelloExpire(Y.id.IP)
		return true, ""
	case "clear":
		// Y holds no keys and tells X so ("no encryption keys" error ping), delivered at once
		before := len(k.w.queue)
		if err := Y.ro.ErrorPing.SendNoEncryptionKeys(X.id.IP); err != nil || len(k.w.queue) != before+1 {
			return false, fmt.Sprint(err)
		}
		was := k.est(e.x)
		k.w.step(len(k.w.queue) - 1)
		return was && !k.est(e.x), ""
	case "drop":
		ch := k.channel(e.x)
		if e.i >= len(ch) {
			return false, ""
		}
		k.w.queue = append(k.w.queue[:ch[e.i]], k.w.queue[ch[e.i]+1:]...)
		return true, ""
	default:
		ch := k.channel(e.x)
		if e.i >= len(ch) {
			return false, ""
		}
		recvIn, _ := k.keysOf(!e.x)
		nq := len(k.w.queue)
		k.last[b2i(e.x)] = &inflight{link: k.w.queue[ch[e.i]].link, data: append([]byte(nil), k.w.queue[ch[e.i]].data...)}
		res := k.w.step(ch[e.i])
		// how the receiver got its current keys: by serving a request (it answered) or by completing its own
		if nowIn, _ := k.keysOf(!e.x); !bytes.Equal(nowIn, recvIn) {
			if len(k.w.queue) == nq { // one frame consumed, one response produced
				k.role[b2i(!e.x)] = "server"
				k.stale[b2i(!e.x)] = k.burst(!e.x, 66+c.Rng.IntN(40))
			} else {
				k.role[b2i(!e.x)] = "client"
			}
		}
		if res.panicked() {
			c.Violate("a key-setup frame crashed a router worker", "kx-panic", map[string]any{"event": e.String()})
		}
		// frames sent before it can no longer be accepted: deliver them now and require no effect
		for j := 0; j < e.i; j++ {
			ch = k.channel(e.x)
			if len(ch) == 0 {
				break
			}
			before := k.observe()
			nq := len(k.w.queue)
			k.w.step(ch[0])
			// the rejected frame itself left the queue; anything else must be unchanged
			after := k.observe()
			if stripChan(before, e.x) != stripChan(after, e.x) || len(k.w.queue) != nq-1 {
				c.Violate("a setup frame older than the newest accepted one from its sender had an effect", "kx-old-frame-accepted", map[string]any{"event": e.String(), "before": before, "after": after})
			}
		}
		return true, ""
	}
}

// stripChan removes the channel-length components from an observation term.
func stripChan(o string, _ bool) string {
	parts := strings.Split(strings.Trim(o, "()"), ",")
	if len(parts) < 7 {
		return o
	}
	return strings.Join(parts[:5], ",")
}

// c14ConcurrentSenders: two tun workers of one router have packets for the same destination that
// has no keys yet, at the same moment.  The first one is held inside the link while its request
// goes out; the second must not start a hello of its own (one hello in flight per destination).
func c14ConcurrentSenders(c *Ctx) error {
	for r, n := 0, c.Pick(3, 10); r < n; r++ {
		w := newRWorld()
		X, err := w.addNode("X", relayStore, nil)
		if err != nil {
			return err
		}
		Y, err := w.addNode("Y", relayStore, nil)
		if err != nil {
			return err
		}
		lxy, _, err := w.connect(X, Y, 11, 12)
		if err != nil {
			return err
		}
		arrived := make(chan struct{}, 1)
		release := make(chan struct{})
		var first atomic.Bool
		first.Store(true)
		lxy.park = func() {
			if first.CompareAndSwap(true, false) {
				arrived <- struct{}{}
				select {
				case <-release:
				case <-time.After(2 * time.Second):
				}
			}
		}
		errs := make(chan error, 2)
		go func() { _, e := X.ro.HelloPing.Send(Y.id.IP); errs <- e }()
		select {
		case <-arrived:
		case <-time.After(2 * time.Second):
			return fmt.Errorf("c14: the first hello never reached the link")
		}
		done2 := make(chan struct{})
		go func() { _, e := X.ro.HelloPing.Send(Y.id.IP); errs <- e; close(done2) }()
		select {
		case <-done2:
		case <-time.After(150 * time.Millisecond):
		}
		close(release)
		<-errs
		<-errs
		lxy.park = nil
		c.Eval()
		c.Count("concurrent-senders")
		hlinkQueueMu.Lock()
		reqs := 0
		for _, q := range w.queue {
			fi := parseFrameInfo(q.data)
			if fi.ok && fi.src == X.id.IP && fi.dst == Y.id.IP {
				reqs++
			}
		}
		hlinkQueueMu.Unlock()
		c.NonTrivial(fmt.Sprintf("concurrent-senders/%d", reqs))
		if reqs != 1 {
			c.Violate(fmt.Sprintf("two workers of one router started a key setup for the same destination at the same moment: %d hello requests went out (one hello may be in flight per destination)", reqs), "kx-two-hellos-in-flight", map[string]any{"requests": reqs, "round": r})
			break
		}
	}
	return nil
}

func runC14(c *Ctx) error {
	c.Res.Rule = "two real routers joined by a real link object run seeded-random schedules of: setup started by either router through the tun path's trigger (both at once included), any in-flight setup frame delivered (older frames of that sender are then delivered too and must have no effect) or lost, the \"no encryption keys\" error, hello states expiring (in one family of schedules only when nothing is in flight, in the other at any time) and retries; both address orderings arise from fresh identities. " +
		"After every event the observation (established x2, keys agree as the real key bytes, hello state x2, frames in flight x2) is compared with the model; at every quiescent point the property is checked on the real key material. The model's refutation witness (D19) is replayed on real routers. non-trivial/distinct = distinct (schedule family, final observation)"
	c.CoqSetup("Prelude SeqCorr HelloKx HelloKxCorr", "c14_case", "c14_ok")
	var pool []*m.Address
	for i := 0; i < 6; i++ {
		a, err := newIdentity()
		if err != nil {
			return err
		}
		pool = append(pool, a)
	}
	runSchedule := func(expAny bool, forced []kxEv, n int, label string) error {
		perm := c.Rng.Perm(len(pool))
		k, err := newKxWorld([]*m.Address{pool[perm[0]], pool[perm[1]]})
		if err != nil {
			return err
		}
		var steps []string
		var trace []string
		inflightExpiry := false
		for si := 0; si < n; si++ {
			var e kxEv
			if forced != nil {
				if si >= len(forced) {
					break
				}
				e = forced[si]
			} else {
				quiet := len(k.w.queue) == 0
				// candidate events
				var cands []kxEv
				for _, x := range []bool{true, false} {
					cands = append(cands, kxEv{kind: "start", x: x})
					cands = append(cands, kxEv{kind: "start", x: x})
					if expAny || quiet {
						cands = append(cands, kxEv{kind: "expire", x: x})
					}
					if quiet {
						cands = append(cands, kxEv{kind: "forget", x: x})
					}
					if k.last[b2i(x)] != nil {
						cands = append(cands, kxEv{kind: "dup", x: x})
					}
					if k.est(x) && !k.est(!x) && len(k.channel(!x)) == 0 && !k.clears[b2i(x)] {
						cands = append(cands, kxEv{kind: "clear", x: x})
					}
					for i := range k.channel(x) {
						cands = append(cands, kxEv{kind: "deliver", x: x, i: i}, kxEv{kind: "deliver", x: x, i: i}, kxEv{kind: "deliver", x: x, i: i})
						cands = append(cands, kxEv{kind: "drop", x: x, i: i})
					}
				}
				e = cands[c.Rng.IntN(len(cands))]
			}
			if e.kind == "wait" {
				// time passes (more than any retry interval of a second, far less than the 30 s expiry); not an
				// event of the model: nothing may change
				before := k.observe()
				time.Sleep(1100 * time.Millisecond)
				if after := k.observe(); after != before {
					c.Violate("the key-setup state changed while nothing happened", "kx-changed-while-waiting", map[string]any{"schedule": trace})
				}
				trace = append(trace, "wait(1.1s)")
				continue
			}
			if e.kind == "clear" {
				k.clears[b2i(e.x)] = true
			}
			if e.kind == "expire" && len(k.w.queue) > 0 {
				if a, _ := k.node(e.x).ro.VerifHelloState(k.node(!e.x).id.IP); a {
					inflightExpiry = true
				}
			}
			en, _ := k.apply(c, e)
			c.Eval()
			o := k.observe()
			steps = append(steps, fmt.Sprintf("(%s,%s,%s)", e.term(), coqBool(en), o))
			trace = append(trace, e.String())
			// ----- the property, on the real key material -----
			if len(k.w.queue) == 0 && k.est(true) && k.est(false) && !k.agree() {
				key := "kx-mismatch"
				what := "no setup frame is in flight and both routers consider encryption established, but their keys differ"
				// D19 is the crossing: after an in-flight expiry BOTH routers hold keys they got by serving the
				// other's request; any other shape of mismatch is a different violation
				if inflightExpiry && k.role[0] == "server" && k.role[1] == "server" {
					key = "d19-hello-state-expired-while-setup-in-flight"
					what += " (a hello state expired while a setup frame was in flight)"
				}
				c.Violate(what, key, map[string]any{"schedule": trace, "expiry_any_time": expAny})
				break
			}
			// ... and traffic sealed by either router unseals at the other (sometimes a burst longer than
			// the replay window, so that a later re-setup meets advanced windows)
			if len(k.w.queue) == 0 && k.est(true) && k.est(false) && k.agree() {
				nfr := 1
				if c.Rng.IntN(3) == 0 {
					nfr = 70
				}
				// stragglers of earlier bursts arrive first: frames the routers themselves sealed, with
				// keys that may have been replaced since
				for _, x := range []bool{true, false} {
					if k.straggler(x) {
						trace = append(trace, fmt.Sprintf("late-traffic-frame(from %v)", map[bool]string{true: "lo", false: "hi"}[x]))
						c.Count("late-traffic-frame")
					}
				}
				for _, x := range []bool{true, false} {
					if err := k.traffic(x, nfr); err != nil {
						c.Violate("no setup frame is in flight, both routers consider encryption established with the same keys, but traffic does not get through: "+err.Error(), "kx-traffic", map[string]any{"schedule": trace})
						break
					}
				}
				trace = append(trace, fmt.Sprintf("traffic(%d each way)", nfr))
				c.Count("traffic-probe")
			}
		}
		c.Case(fmt.Sprintf("(%s,%s)", coqBool(expAny), coqList(steps)), map[string]any{"family": label, "schedule": trace})
		c.Count("schedule:" + label)
		c.CountN("events", len(trace))
		c.NonTrivial(label + "/" + k.observe())
		return nil
	}
	nSched := c.Pick(150, 2000)
	for i := 0; i < nSched; i++ {
		if err := runSchedule(false, nil, 8+c.Rng.IntN(18), "expiry-at-quiescence"); err != nil {
			return err
		}
	}
	for i := 0; i < nSched/3; i++ {
		if err := runSchedule(true, nil, 8+c.Rng.IntN(14), "expiry-any-time"); err != nil {
			return err
		}
	}
	// the concurrent case without losses, both delivery orders
	for _, first := range []bool{true, false} {
		if err := runSchedule(false, []kxEv{{kind: "start", x: true}, {kind: "start", x: false}, {kind: "deliver", x: first, i: 0}, {kind: "deliver", x: !first, i: 0},
			{kind: "deliver", x: true, i: 0}, {kind: "deliver", x: false, i: 0}}, 6, "concurrent-no-loss"); err != nil {
			return err
		}
	}
	// a slow response that arrives after the initiator gave up and retried: it must not be combined with
	// the retry's key (both initiators)
	for _, x := range []bool{true, false} {
		if err := runSchedule(true, []kxEv{{kind: "start", x: x}, {kind: "deliver", x: x, i: 0}, {kind: "expire", x: x}, {kind: "start", x: x},
			{kind: "deliver", x: x, i: 0}, {kind: "deliver", x: !x, i: 0}, {kind: "deliver", x: !x, i: 0}}, 7, "late-response-after-retry"); err != nil {
			return err
		}
	}
	// a slow response: the initiator's next packet for the same destination arrives more than a second
	// after its request went out (the request is still pending: nothing new may be sent), then the
	// response arrives; and the same with the request itself being slow
	for _, x := range []bool{true, false} {
		if err := runSchedule(false, []kxEv{{kind: "start", x: x}, {kind: "deliver", x: x, i: 0}, {kind: "wait"}, {kind: "start", x: x},
			{kind: "deliver", x: x, i: 0}, {kind: "deliver", x: !x, i: 0}, {kind: "deliver", x: !x, i: 0}}, 7, "slow-response"); err != nil {
			return err
		}
	}
	if err := runSchedule(false, []kxEv{{kind: "start", x: true}, {kind: "wait"}, {kind: "start", x: true}, {kind: "deliver", x: true, i: 0},
		{kind: "deliver", x: true, i: 0}, {kind: "deliver", x: false, i: 0}, {kind: "deliver", x: false, i: 0}}, 7, "slow-request"); err != nil {
		return err
	}
	// the model's refutation witness (Coq: d19_history) on the real routers
	if err := runSchedule(true, []kxEv{{kind: "start", x: true}, {kind: "start", x: false}, {kind: "deliver", x: true, i: 0}, {kind: "drop", x: false, i: 1},
		{kind: "expire", x: true}, {kind: "deliver", x: false, i: 0}, {kind: "drop", x: true, i: 0}}, 7, "d19-witness"); err != nil {
		return err
	}
	return c14ConcurrentSenders(c)
}
