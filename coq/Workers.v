(* Workers.v — C20: "stop returns success with no worker left running", the worker accounting of
   mgr.Manager (Go / manageWorker / workerStart / workerDone / WaitForWorkers).
   A worker passes through: created (the go statement ran, the goroutine has not run yet), running,
   finished.  WaitForWorkers reports "done" when the counter is zero.  The scheduler decides when a
   created goroutine starts to run: every interleaving is a list of events. *)
From Verif Require Import Prelude.

Record wst := mkW { w_count : nat; w_created : nat; w_running : nat }.
Inductive wev := EGo | ESched | EFinish.

(* as repaired (fix daf2aa7): Go counts, then spawns *)
Definition wstep (s : wst) (e : wev) : wst :=
  match e with
  | EGo => mkW (S (w_count s)) (S (w_created s)) (w_running s)
  | ESched => match w_created s with O => s | S c => mkW (w_count s) c (S (w_running s)) end
  | EFinish => match w_running s with O => s | S r => mkW (Nat.pred (w_count s)) (w_created s) r end
  end.

(* as pinned (defect D24): Go spawns, the new goroutine counts itself when it starts to run *)
Definition wstep_pinned (s : wst) (e : wev) : wst :=
  match e with
  | EGo => mkW (w_count s) (S (w_created s)) (w_running s)
  | ESched => match w_created s with O => s | S c => mkW (S (w_count s)) c (S (w_running s)) end
  | EFinish => match w_running s with O => s | S r => mkW (Nat.pred (w_count s)) (w_created s) r end
  end.

Definition w0 : wst := mkW 0 0 0.
Definition wait_done (s : wst) : bool := Nat.eqb (w_count s) 0.
Definition unfinished (s : wst) : nat := (w_created s + w_running s)%nat.

Lemma wstep_inv s e : w_count s = unfinished s -> w_count (wstep s e) = unfinished (wstep s e).
Proof.
  unfold unfinished. destruct s as [c cr r]; cbn [w_count w_created w_running]. intros H.
  destruct e; cbn [wstep w_count w_created w_running].
  - lia.
  - destruct cr; cbn [w_count w_created w_running]; lia.
  - destruct r; cbn [w_count w_created w_running]; lia.
Qed.

(* In every interleaving: the counter is the number of workers that were started and have not
   finished, so "done" means none is left — running or still waiting to be scheduled. *)
Theorem wait_done_means_none_left : forall evs,
  let s := fold_left wstep evs w0 in
  w_count s = unfinished s /\ (wait_done s = true -> unfinished s = O).
Proof.
  intros evs. assert (H : forall s, w_count s = unfinished s -> w_count (fold_left wstep evs s) = unfinished (fold_left wstep evs s)).
  { induction evs as [|e t IH]; intros s Hs; [exact Hs|]. cbn [fold_left]. apply IH. apply wstep_inv. exact Hs. }
  specialize (H w0 eq_refl). cbv zeta. split; [exact H|].
  unfold wait_done. intros D. apply Nat.eqb_eq in D. lia.
Qed.

(* the pinned order: one Go, and the stop finds nobody although a worker is about to run *)
Theorem pinned_wait_done_refuted :
  exists evs, let s := fold_left wstep_pinned evs w0 in wait_done s = true /\ unfinished s = 1%nat.
Proof. exists [EGo]. vm_compute. split; reflexivity. Qed.
