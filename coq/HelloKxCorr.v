(* HelloKxCorr.v — correspondence for C14 (no proofs): a schedule of events is run on the model
   and on two real routers; after every event the observations must agree. *)
From Verif Require Import Prelude SeqCorr HelloKx.

Inductive ev := EStart (x : bool) | EExpire (x : bool) | EClear (x : bool) | EForget (x : bool) | EDup (x : bool) | EDrop (x : bool) (i : nat) | EDeliver (x : bool) (i : nat).

(* the successor for an event, if the event is enabled *)
Definition apply_ev (exp_any : bool) (s : st) (e : ev) : option st :=
  match e with
  | EStart x => hd_error (start s x)
  | EExpire x => if exp_any || quiescent s then hd_error (expire s x) else None
  | EClear x => hd_error (clear s x)
  | EForget x => hd_error (forget s x)
  | EDup _ => Some s        (* an exact duplicate of the frame last delivered from x: rejected, no effect *)
  | EDrop x i => hd_error (drop s x i)
  | EDeliver x i => hd_error (deliver s x i)
  end.

(* observation: established lo/hi, keys agree, hello state lo/hi (0 none, 1 pending, 2 done),
   frames in flight from lo / from hi *)
Definition pcode (r : rt) : N := match p r with None => 0 | Some (_, false) => 1 | Some (_, true) => 2 end.
Definition keys_agree (s : st) : bool :=
  match k (lo s), k (hi s) with
  | Some (r1, c1, s1), Some (r2, c2, s2) => (c1 =? c2) && (s1 =? s2) && negb (Bool.eqb r1 r2)
  | _, _ => false
  end.
Definition obs := (bool * bool * bool * N * N * nat * nat)%type.
Definition observe (s : st) : obs :=
  (established (lo s), established (hi s), keys_agree s, pcode (lo s), pcode (hi s), length (ch_lo s), length (ch_hi s)).
Definition obs_eqb (a b : obs) : bool :=
  let '(a1, a2, a3, a4, a5, a6, a7) := a in let '(b1, b2, b3, b4, b5, b6, b7) := b in
  Bool.eqb a1 b1 && Bool.eqb a2 b2 && Bool.eqb a3 b3 && (a4 =? b4) && (a5 =? b5) && Nat.eqb a6 b6 && Nat.eqb a7 b7.

(* (event, enabled on the implementation, observation after) *)
Fixpoint run_ok (exp_any : bool) (s : st) (l : list (ev * bool * obs)) : bool :=
  match l with
  | [] => true
  | (e, en, o) :: t =>
    match apply_ev exp_any s e with
    | Some s' => en && obs_eqb (observe s') o && run_ok exp_any s' t
    | None => negb en && obs_eqb (observe s) o && run_ok exp_any s t
    end
  end.
Definition c14_case := (bool * list (ev * bool * obs))%type.
Definition c14_ok (c : c14_case) : bool := let '(e, l) := c in run_ok e init l.
