(* FrameCorr.v — correspondence functions for C02 (and shared by C17/C13).  No proofs. *)
From Verif Require Import Prelude Gen SeqCorr Frame.

Definition nat_eqN (a : nat) (b : N) : bool := N.of_nat a =? b.

(* NewFrameV1: inputs, observed (code 0 ok / 1 error / 3 panic, frame bytes, mi, ai, xi) *)
Definition c02_bcase := (N * list N * list N * list N * list N * list N * list N * (N * list N * N * N * N))%type.
Definition c02_bok (c : c02_bcase) : bool :=
  let '(ty, src, dst, sb, msg, apx, nonce3, (code, bytes, om, oa, ox)) := c in
  match build ty src dst sb msg apx nonce3 with
  | Ok (d, ix) => (code =? 0) && bytes_eqb d bytes && nat_eqN (mi ix) om && nat_eqN (ai ix) oa && nat_eqN (xi ix) ox
  | Err _ => code =? 1
  | Panic => code =? 3
  end.

(* ParseFrame: bytes, observed (code 0 ok / 1 insufficient data / 4 unsupported version, mi, ai, xi) *)
Definition c02_pcase := (list N * (N * N * N * N))%type.
Definition c02_pok (c : c02_pcase) : bool :=
  let '(d, (code, om, oa, ox)) := c in
  match parse d with
  | Ok ix => (code =? 0) && nat_eqN (mi ix) om && nat_eqN (ai ix) oa && nat_eqN (xi ix) ox
  | Err e => if e =? 4 then code =? 4 else code =? 1
  | Panic => false
  end.

(* the ranges the real primitives were run over (and verified with) by the harness:
   signed: (1, message, signature, []) ; sealed: (2, nonce, aad, ct++tag) *)
Definition c02_rcase := (list N * (N * list N * list N * list N))%type.
Definition c02_rok (c : c02_rcase) : bool :=
  let '(d, (k, a, b, cc)) := c in
  match parse d with
  | Ok ix =>
    match protected_of d ix with
    | PSigned m s => (k =? 1) && bytes_eqb m a && bytes_eqb s b
    | PSealed n ad ct => (k =? 2) && bytes_eqb n a && bytes_eqb ad b && bytes_eqb ct cc
    | PNone => false
    end
  | _ => false
  end.

(* single-byte mutations of a sealed frame: verdict of the real Unseal (fresh replay window)
   against the ideal functionality "accepted iff the covered content is what was sealed" *)
Definition c02_mcase := (list N * list (N * N) * list bool)%type.
Definition c02_mok (c : c02_mcase) : bool :=
  let '(d, muts, verdicts) := c in
  match parse d with
  | Ok ix =>
    let issued := [protected_of d ix] in
    list_eqb Bool.eqb (map (fun pv => accepts_ideal issued (set_nth d (N.to_nat (fst pv)) (snd pv))) muts) verdicts
  | _ => false
  end.

(* whole-frame variants (appendix replaced/removed/extended, truncations) *)
Definition c02_vcase := (list N * list N * bool)%type.
Definition c02_vok (c : c02_vcase) : bool :=
  let '(d, d', verdict) := c in
  match parse d with
  | Ok ix => Bool.eqb (accepts_ideal [protected_of d ix] d') verdict
  | _ => false
  end.
