(* Forward.v — executable model of frame forwarding
   (switchr/switch.go: handleFrame, escalateFrame, ForwardByLabel, ForwardByPeer, forwardToLink;
   router/router.go: handleFrame, handleUnsolicitedFrame; router/routing.go: RouteFrame;
   frame/frame_v1.go: ReduceTTL, SetFlowFlag).
   A frame is the record of the fields forwarding looks at plus [ff_rest], which stands for
   every other byte (version, message type byte is kept separately, nonce/sequence, message
   length, message, authenticator, appendix): no model function ever builds a new [ff_rest]. *)
From Verif Require Import Prelude Gen SwitchLabel Table Control.

Record ff := mkFF {
  ff_ttl : N; ff_flow : N; ff_ty : N; ff_src : N; ff_dst : N;
  ff_sb : list N;          (* switch block bytes *)
  ff_rest : N
}.

Inductive outcome :=
| ODrop (why : N)                 (* dropped, with or without an error *)
| OHandle (f : ff)                (* handed to this router's message handlers *)
| OSend (peer : N) (f : ff)       (* written to the link to [peer] *)
| OPanic.

(* FrameV1.ReduceTTL(1) *)
Definition reduce_ttl (t : N) : N := if 1 <? t then t - 1 else 0.

(* forwardToLink: reduce the TTL, refuse at zero, add the receive link's flow flag, send *)
Definition forward_to_link (f : ff) (flag : N) (peer : N) : outcome :=
  let t := reduce_ttl (ff_ttl f) in
  if t =? 0 then ODrop 1
  else OSend peer (mkFF t (N.lor (ff_flow f) flag) (ff_ty f) (ff_src f) (ff_dst f) (ff_sb f) (ff_rest f)).

(* one router: its address, its live links (peer, label, latency, lite), its routing table *)
Record node := mkNode { n_self : N; n_links : list lnk; n_table : list entry }.

Definition lnk_peer (l : lnk) : N := fst (fst (fst l)).
Definition lnk_label (l : lnk) : N := snd (fst (fst l)).

Definition link_by_label (nd : node) (lab : N) : option lnk :=
  find (fun l => lnk_label l =? lab) (n_links nd).
Definition link_by_peer (nd : node) (p : N) : option lnk :=
  find (fun l => lnk_peer l =? p) (n_links nd).

Definition is_hop_ping (ty : N) : bool :=
  (ty =? Gen.mt_router_hop_ping_deprecated) || (ty =? Gen.mt_router_hop_ping).

(* m.RoutingAddressPrefix = fd00::/8 *)
Definition routable (a : N) : bool := a / 2 ^ 120 =? 253.

(* RouteFrame: recv = the link the frame arrived on (None: originated here) *)
Definition route_frame (nd : node) (f : ff) (recv : option lnk) (flag : N) : outcome :=
  if negb (routable (ff_dst f)) then ODrop 5
  else match lookup_nearest_route (n_table nd) (ff_dst f) with
       | None => ODrop 6                                              (* table empty *)
       | Some (e, _) =>
         if (match recv with Some r => e_nexthop e =? lnk_peer r | None => false end) then ODrop 7   (* would loop *)
         else match link_by_peer nd (e_nexthop e) with
              | None => ODrop 4                                       (* next hop unavailable *)
              | Some l => forward_to_link f flag (lnk_peer l)
              end
       end.

(* Router.handleFrame *)
Definition router_handle (nd : node) (f : ff) (recv : option lnk) (flag : N) : outcome :=
  if ff_dst f =? n_self nd then OHandle f
  else if is_hop_ping (ff_ty f) then OHandle f
  else route_frame nd f recv flag.

(* Switch.handleFrame *)
Definition switch_handle (nd : node) (f : ff) (recv : option lnk) (flag : N) : outcome :=
  if ff_src f =? n_self nd then ODrop 0
  else match ff_sb f with
       | [] => router_handle nd f recv flag
       | _ =>
         match recv with
         | None => ODrop 2
         | Some r =>
           match rotate (ff_sb f) [] (lnk_label r) with
           | Err _ => ODrop 3
           | Panic => OPanic
           | Ok (next, sb', _) =>
             let f' := mkFF (ff_ttl f) (ff_flow f) (ff_ty f) (ff_src f) (ff_dst f) sb' (ff_rest f) in
             if next =? 0 then router_handle nd f' recv flag
             else match link_by_label nd next with
                  | None => ODrop 4
                  | Some l => forward_to_link f' flag (lnk_peer l)
                  end
           end
         end
       end.

(* ---------- a network of routers ---------- *)
(* [net r] is router r's node; [rlink r p] is the link object at r over which frames from p
   arrive (its label is what the rotation writes as return label); [flag r p] is that link's
   flow-control indicator. *)
Section Net.
  Variable net : N -> node.
  Variable rlink : N -> N -> option lnk.
  Variable flag : N -> N -> N.

  (* the frame arrives at [at_] from [from] *)
  Definition arrive (at_ from : N) (f : ff) : outcome :=
    switch_handle (net at_) f (rlink at_ from) (flag at_ from).

  (* number of links the frame crosses after arriving at [at_], following the routers' decisions *)
  Fixpoint crossings (fuel : nat) (at_ from : N) (f : ff) : nat :=
    match fuel with
    | O => O
    | S k => match arrive at_ from f with
             | OSend p f' => S (crossings k p at_ f')
             | _ => O
             end
    end.

  (* where the frame ends up: the router whose handlers get it, with the frame as handed over *)
  Fixpoint deliver (fuel : nat) (at_ from : N) (f : ff) : option (N * ff) :=
    match fuel with
    | O => None
    | S k => match arrive at_ from f with
             | OSend p f' => deliver k p at_ f'
             | OHandle f' => Some (at_, f')
             | _ => None
             end
    end.

  (* a frame originated by router [a] (sendPingMsg / tun): RouteFrame without a receive link *)
  Definition originate (a : N) (f : ff) : outcome := route_frame (net a) f None 0.

  Definition crossings_from_origin (fuel : nat) (a : N) (f : ff) : nat :=
    match originate a f with
    | OSend p f' => S (crossings fuel p a f')
    | _ => O
    end.

  Definition deliver_from_origin (fuel : nat) (a : N) (f : ff) : option (N * ff) :=
    match originate a f with
    | OSend p f' => deliver fuel p a f'
    | _ => None
    end.
End Net.
