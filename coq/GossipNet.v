(* GossipNet.v — C09: a mesh of routers, each running the real handler model
   (Control.handle_announce on its own routing table, Table.add_route inside), SIMULATES the
   flooding protocol of Gossip.v step by step.  Consequently the protocol's theorems hold of the
   mesh of handlers: at quiescence every router's TABLE holds a route to every router that has
   announced, frames travel loop-free paths at most once, and flooding terminates.
   Honest mesh: no lite or stub routers, announcements addressed to all routers, every attached
   record valid, AddRoute reporting no error and the per-prefix limits not reached (side
   conditions of the delivery step), at most 98 routers (the handler peels at most 99 layers). *)
From Verif Require Import Prelude SwitchLabel Table TableProofs TableSorted TableBounds Control ControlProofs Gossip GossipProofs GossipRefine.

Section Net.
  Variable nodes : list N.
  Variable adj : N -> N -> bool.
  Variable cfg : N -> list rprefix.         (* each router's routable-prefix configuration *)
  Variable lab lat : N -> N -> N.           (* switch label / latency of r's link to x *)
  Hypothesis nodes_small : (length nodes <= 98)%nat.
  Hypothesis nodes_nodup : NoDup nodes.
  Hypothesis adj_irrefl : forall a, adj a a = false.

  Definition link_to (r x : N) : lnk := (x, lab r x, lat r x, false).
  Definition links_of (r : N) : list lnk := map (link_to r) (neighbours nodes adj r).

  Record cmsg := mkCm { cm_id : N; cm_ann : ann; cm_from : N; cm_to : N }.

  Definition abs (c : cmsg) : msg :=
    mkMsg (cm_id c) (a_origin (cm_ann c)) (map r_signer (a_chain (cm_ann c))) (cm_from c) (cm_to c).

  Record cnet := mkC {
    c_tbl : N -> list entry;
    c_flight : list cmsg;
    c_learned : list (N * N);       (* ghost: (router, origin) pairs a route was added for *)
    c_hist : list msg; c_deliv : list msg; c_anns : list (N * N)    (* ghost copies of the protocol's history *)
  }.

  Definition abs_state (c : cnet) : gst :=
    mkG (c_learned c) (map abs (c_flight c)) (c_hist c) (c_deliv c) (c_anns c).

  Definition upd (f : N -> list entry) (r : N) (v : list entry) : N -> list entry :=
    fun x => if x =? r then v else f x.

  (* the record an honest router attaches when it forwards *)
  (* ... as AnnouncePingHandler.Handle builds it: the latency and the label of the link the
     announcement ARRIVED on (forward label: towards the origin), the label of the link it is sent
     out on (return label) *)
  Definition own_rec (r from x : N) : arec := mkRec r (lat r from) (lab r from) (lab r x) true true true.
  Definition push (r from x : N) (a : ann) : ann :=
    mkAnn (a_origin a) (own_rec r from x :: a_chain a) (a_retlabel a) (a_stub a) (a_expires a) (a_info a) (a_dst_all a).

  (* what a router does with a delivered announcement: frames from itself are ignored by the
     switch; everything else goes to the handler *)
  Definition deliver (now : Z) (t : list entry) (r : N) (c : cmsg) : option (list entry * bool * list N) :=
    if a_origin (cm_ann c) =? r then None
    else handle_announce (cfg r) r false false now t (links_of r) (link_to r (cm_from c)) (cm_ann c).

  Inductive cstep : cnet -> cnet -> Prop :=
  | CAnnounce c id o rl ex info :
      In o nodes -> (forall o', ~ In (id, o') (c_anns c)) ->
      let news := map (fun x => mkCm id (mkAnn o [] rl false ex info true) o x) (neighbours nodes adj o) in
      cstep c (mkC (c_tbl c) (c_flight c ++ news) (c_learned c) (c_hist c ++ map abs news) (c_deliv c) ((id, o) :: c_anns c))
  | CIgnored c pre m post now :
      c_flight c = pre ++ m :: post ->
      (forall e, add_route (cfg (cm_to m)) now (c_tbl c (cm_to m)) (ann_route (cm_to m) (link_to (cm_to m) (cm_from m)) (cm_ann m)) <> Err e) ->
      add_route (cfg (cm_to m)) now (c_tbl c (cm_to m)) (ann_route (cm_to m) (link_to (cm_to m) (cm_from m)) (cm_ann m)) <> Panic ->
      deliver now (c_tbl c (cm_to m)) (cm_to m) m = None ->
      cstep c (mkC (c_tbl c) (pre ++ post) (c_learned c) (c_hist c) (abs m :: c_deliv c) (c_anns c))
  | CHandled c pre m post now t' added fw :
      c_flight c = pre ++ m :: post ->
      let r := cm_to m in
      (forall e, add_route (cfg r) now (c_tbl c r) (ann_route r (link_to r (cm_from m)) (cm_ann m)) <> Err e) ->
      admissible (cfg r) (c_tbl c r) (ann_route r (link_to r (cm_from m)) (cm_ann m)) ->
      deliver now (c_tbl c r) r m = Some (t', added, fw) ->
      let news := map (fun x => mkCm (cm_id m) (push r (cm_from m) x (cm_ann m)) r x) fw in
      cstep c (mkC (upd (c_tbl c) r t') (pre ++ post ++ news)
                   (if added then (r, a_origin (cm_ann m)) :: c_learned c else c_learned c)
                   (c_hist c ++ map abs news) (abs m :: c_deliv c) (c_anns c)).

  (* ---------- honest, well-formed states ---------- *)
  Definition rec_valid (r : arec) : Prop := r_sig_ok r = true /\ r_known r = true.
  Definition msg_wf (c : cmsg) : Prop :=
    let a := cm_ann c in
    a_dst_all a = true /\ Forall rec_valid (a_chain a) /\
    (match a_chain a with [] => a_origin a = cm_from c | r :: _ => r_signer r = cm_from c end) /\
    NoDup (a_origin a :: map r_signer (a_chain a)) /\ incl (a_origin a :: map r_signer (a_chain a)) nodes /\
    In (cm_to c) nodes.

  Definition wf (c : cnet) : Prop :=
    Forall msg_wf (c_flight c) /\
    (forall r, sorted (c_tbl c r) /\ tpwf (c_tbl c r)) /\
    (forall r o, ~ In (r, o) (c_learned c) -> (cnt (is_d o) (c_tbl c r) <= 1)%nat) /\
    (forall r o, In (r, o) (c_learned c) -> knows (c_tbl c r) o).

  (* ---------- the handler on well-formed input ---------- *)
  Definition hops_of (ch : list arec) : list hop := map (fun r => mkHop (r_signer r) (r_delay r) (r_fl r) (r_rl r)) ch.

  Lemma parse_chain_valid self : forall ch layer,
    Forall rec_valid ch -> ~ In self (map r_signer ch) -> (layer + length ch <= 100)%nat ->
    parse_chain self ch layer = PHops (hops_of ch).
  Proof.
    induction ch as [|r t IH]; intros layer Hv Hn Hl; [reflexivity|]. cbn [parse_chain].
    inversion Hv as [|? ? [Hs Hk] Hv']; subst. cbn [length] in Hl.
    destruct (Nat.leb_spec 100 layer); [lia|].
    destruct (N.eqb_spec (r_signer r) self) as [E|E]; [exfalso; apply Hn; left; exact E|].
    rewrite Hk, Hs. cbn [orb negb].
    rewrite IH; [reflexivity|exact Hv'|intros Hi; apply Hn; right; exact Hi|lia].
  Qed.

  Lemma chain_short c : msg_wf c -> (length (a_chain (cm_ann c)) <= 97)%nat.
  Proof.
    intros (_ & _ & _ & Hnd & Hincl & _).
    pose proof (NoDup_incl_length Hnd Hincl) as L. cbn [length] in L. rewrite map_length in L. lia.
  Qed.

  Lemma existsb_hops_memN x ch : existsb (fun h => h_router h =? x) (hops_of ch) = memN x (map r_signer ch).
  Proof.
    unfold memN, hops_of. induction ch as [|r t IH]; [reflexivity|]. cbn [map existsb h_router]. rewrite IH, (N.eqb_sym (r_signer r) x). reflexivity.
  Qed.

  Lemma fw_is_filter (sl : bool) r o from ch : forall l,
    map (fun l0 : lnk => fst (fst (fst l0)))
      (filter (fun l0 : lnk => let '(lp, _, _, llite) := l0 in
         negb (llite && negb sl) && negb (lp =? o) && negb (lp =? from) &&
         negb (existsb (fun h => h_router h =? lp) (hops_of ch)))
        (map (link_to r) l))
    = filter (fun x => negb (x =? o) && negb (x =? from) && negb (memN x (map r_signer ch))) l.
  Proof.
    induction l as [|x l IH]; [reflexivity|].
    change (map (link_to r) (x :: l)) with ((x, lab r x, lat r x, false) :: map (link_to r) l).
    cbn [filter]. change (negb (false && negb sl)) with true. cbn [andb]. rewrite existsb_hops_memN.
    destruct (negb (x =? o) && negb (x =? from) && negb (memN x (map r_signer ch))); cbn [map fst]; rewrite IH; reflexivity.
  Qed.

  (* the handler's outcome on a well-formed frame that is not from the router itself and does not
     loop: it reaches AddRoute with the route ann_route, and forwards to the protocol's targets *)
  Lemma deliver_wf now t (c : cmsg) :
    msg_wf c -> a_origin (cm_ann c) <> cm_to c -> ~ In (cm_to c) (map r_signer (a_chain (cm_ann c))) ->
    deliver now t (cm_to c) c =
      match add_route (cfg (cm_to c)) now t (ann_route (cm_to c) (link_to (cm_to c) (cm_from c)) (cm_ann c)) with
      | Ok (t', true) => Some (t', true, targets nodes adj (cm_to c) (abs c))
      | Ok (t', false) => Some (t', false, [])
      | Err _ => Some (t, false, targets nodes adj (cm_to c) (abs c))
      | Panic => None
      end.
  Proof.
    intros Hw Ho Hl. pose proof (chain_short c Hw) as Hs. destruct Hw as (Hall & Hv & Hfrom & _).
    unfold deliver. destruct (N.eqb_spec (a_origin (cm_ann c)) (cm_to c)) as [E|_]; [contradiction|].
    unfold handle_announce, link_to, ann_route. rewrite (parse_chain_valid (cm_to c) _ 1 Hv Hl) by lia.
    fold (hops_of (a_chain (cm_ann c))).
    assert (Hpeer : (match hops_of (a_chain (cm_ann c)) with [] => negb (a_origin (cm_ann c) =? cm_from c) | h :: _ => negb (h_router h =? cm_from c) end) = false).
    { destruct (a_chain (cm_ann c)) as [|r rest]; cbn [hops_of map h_router]; [rewrite Hfrom|rewrite Hfrom]; rewrite N.eqb_refl; reflexivity. }
    rewrite Hpeer, Hall.
    pose proof (fw_is_filter false (cm_to c) (a_origin (cm_ann c)) (cm_from c) (a_chain (cm_ann c)) (neighbours nodes adj (cm_to c))) as Hfw.
    fold (links_of (cm_to c)) in Hfw.
    change (filter _ (neighbours nodes adj (cm_to c))) with (targets nodes adj (cm_to c) (abs c)) in Hfw.
    destruct (add_route _ now t _) as [[t1 ad]|e|]; [destruct ad| |]; try reflexivity; do 2 f_equal; exact Hfw.
  Qed.

  (* a frame that is not handled at all is from the router itself or loops *)
  Lemma deliver_none now t (c : cmsg) :
    msg_wf c -> (forall e, add_route (cfg (cm_to c)) now t (ann_route (cm_to c) (link_to (cm_to c) (cm_from c)) (cm_ann c)) <> Err e) ->
    deliver now t (cm_to c) c = None ->
    g_to (abs c) = g_origin (abs c) \/ In (g_to (abs c)) (g_hops (abs c)) \/
    add_route (cfg (cm_to c)) now t (ann_route (cm_to c) (link_to (cm_to c) (cm_from c)) (cm_ann c)) = Panic.
  Proof.
    intros Hw Hne Hd. cbn [abs g_to g_origin g_hops].
    destruct (N.eq_dec (a_origin (cm_ann c)) (cm_to c)) as [E|E]; [left; congruence|].
    destruct (in_dec N.eq_dec (cm_to c) (map r_signer (a_chain (cm_ann c)))) as [I|I]; [right; left; exact I|].
    right. right. rewrite (deliver_wf now t c Hw E I) in Hd.
    destruct (add_route _ now t _) as [[t1 ad]|e|]; [destruct ad; discriminate|discriminate|reflexivity].
  Qed.

  (* ---------- one mesh step is one protocol step ---------- *)
  Lemma knows_cnt t o : knows t o <-> (0 < cnt (is_d o) t)%nat.
  Proof.
    split.
    - intros (e & He & Hd). destruct (cnt (is_d o) t) eqn:C; [|lia]. exfalso.
      assert (Z : forall x, In x t -> is_d o x = false).
      { intros x Hx. destruct (is_d o x) eqn:F; [|reflexivity]. exfalso.
        clear -C Hx F. induction t as [|y t IH]; [destruct Hx|]. rewrite cnt_cons in C. destruct Hx as [->|Hx]; [rewrite F in C; discriminate|].
        apply IH; [destruct (is_d o y); [discriminate|exact C]|exact Hx]. }
      specialize (Z e He). unfold is_d in Z. rewrite Hd, N.eqb_refl in Z. discriminate.
    - intros H. destruct (cnt_pos_in _ _ H) as (x & Hx & Fx). exists x. split; [exact Hx|]. unfold is_d in Fx. apply N.eqb_eq. exact Fx.
  Qed.

  Lemma forall_mid {A} (P : A -> Prop) pre m post : Forall P (pre ++ m :: post) -> P m /\ Forall P (pre ++ post).
  Proof.
    intros H. rewrite Forall_forall in H. split; [apply H; apply in_or_app; right; left; reflexivity|].
    rewrite Forall_forall. intros x Hx. apply H. apply in_app_or in Hx. apply in_or_app. destruct Hx; [left|right; right]; assumption.
  Qed.

  (* the outcome of a handled delivery on a well-formed state *)
  Lemma handled_cases c pre m post now t' added fw :
    wf c -> c_flight c = pre ++ m :: post ->
    let r := cm_to m in
    let e0 := ann_route r (link_to r (cm_from m)) (cm_ann m) in
    (forall e, add_route (cfg r) now (c_tbl c r) e0 <> Err e) ->
    deliver now (c_tbl c r) r m = Some (t', added, fw) ->
    msg_wf m /\ a_origin (cm_ann m) <> r /\ ~ In r (map r_signer (a_chain (cm_ann m))) /\
    add_route (cfg r) now (c_tbl c r) e0 = Ok (t', added) /\
    fw = (if added then targets nodes adj r (abs m) else []).
  Proof.
    intros (Hf & _) Hfl r e0 Hne Hd. rewrite Hfl in Hf. destruct (forall_mid _ _ _ _ Hf) as [Hm _].
    assert (Ho : a_origin (cm_ann m) <> r).
    { intros E. unfold deliver in Hd. fold r in Hd. rewrite E, N.eqb_refl in Hd. discriminate. }
    assert (Hl : ~ In r (map r_signer (a_chain (cm_ann m)))).
    { intros I. unfold deliver in Hd. fold r in Hd. destruct (a_origin (cm_ann m) =? r); [discriminate|].
      rewrite (looping_ignored _ _ _ _ _ _ _ _ _ I) in Hd. discriminate. }
    split; [exact Hm|]. split; [exact Ho|]. split; [exact Hl|].
    pose proof (deliver_wf now (c_tbl c r) m Hm Ho Hl) as E. fold r e0 in E. rewrite Hd in E.
    destruct (add_route (cfg r) now (c_tbl c r) e0) as [[t1 ad]|e|] eqn:Ha.
    - destruct ad; inversion E; subst; split; reflexivity.
    - exfalso. exact (Hne e eq_refl).
    - discriminate.
  Qed.

  Theorem cstep_sim c c' : wf c -> cstep c c' -> gstep nodes adj (abs_state c) (abs_state c').
  Proof.
    intros Hwf Hstep. destruct Hstep as [c id o rl ex info Ho Hid news|c pre m post now Hfl Hne Hnp Hd|c pre m post now t' added fw Hfl r Hne Hadm Hd news].
    - (* announce *)
      assert (E : map abs news = fresh_msgs nodes adj id o).
      { unfold news, fresh_msgs. rewrite map_map. apply map_ext. intros x. reflexivity. }
      unfold abs_state. cbn [c_learned c_flight c_hist c_deliv c_anns]. rewrite map_app, E.
      exact (GAnnounce nodes adj (abs_state c) id o Ho Hid).
    - (* not handled: the router's own frame, or a looping one *)
      destruct Hwf as (Hf & _). rewrite Hfl in Hf. destruct (forall_mid _ _ _ _ Hf) as [Hm _].
      unfold abs_state. cbn [c_learned c_flight c_hist c_deliv c_anns]. rewrite map_app.
      apply (GIgnore nodes adj (abs_state c) (map abs pre) (abs m) (map abs post)).
      + unfold abs_state. cbn [inflight]. rewrite Hfl, map_app. reflexivity.
      + destruct (deliver_none now _ m Hm Hne Hd) as [A|[A|A]]; [left; exact A|right; exact A|contradiction].
    - (* handled *)
      destruct (handled_cases c pre m post now t' added fw Hwf Hfl Hne Hd) as (Hm & Ho & Hl & Ha & Hfw).
      fold r in Ho, Hl, Ha, Hfw.
      assert (Hin : inflight (abs_state c) = map abs pre ++ abs m :: map abs post).
      { unfold abs_state. cbn [inflight]. rewrite Hfl, map_app. reflexivity. }
      unfold abs_state. cbn [c_learned c_flight c_hist c_deliv c_anns]. rewrite !map_app.
      destruct added.
      + (* added: GAdd *)
        assert (E : map abs news = fwd_msgs nodes adj r (abs m)).
        { unfold news, fwd_msgs. rewrite Hfw, map_map. apply map_ext. intros x. reflexivity. }
        rewrite E.
        exact (GAdd nodes adj (abs_state c) (map abs pre) (abs m) (map abs post) Hin (fun E0 => Ho (eq_sym E0)) Hl).
      + (* not added: the router already learned a route to this origin *)
        assert (E : map abs news = []) by (unfold news; rewrite Hfw; reflexivity).
        rewrite E, !app_nil_r.
        apply (GDrop nodes adj (abs_state c) (map abs pre) (abs m) (map abs post) Hin).
        unfold has_route, abs_state. cbn [has g_to g_origin abs].
        destruct Hwf as (_ & Htab & Hcount & _). destruct (Htab r) as [Hs Hw].
        pose proof (not_added_three _ _ _ _ _ Hs Hw Hadm Ha) as H3.
        destruct (in_dec (fun a b : N * N => ltac:(decide equality; apply N.eq_dec)) (r, a_origin (cm_ann m)) (c_learned c)) as [I|I]; [exact I|].
        specialize (Hcount r (a_origin (cm_ann m)) I).
        assert (Ed : e_dst (ann_route r (link_to r (cm_from m)) (cm_ann m)) = a_origin (cm_ann m)) by reflexivity.
        rewrite Ed in H3. lia.
  Qed.

  (* ---------- well-formedness is preserved ---------- *)
  Lemma ann_route_len r x a : length (e_path (ann_route r (link_to r x) a)) = (length (a_chain a) + 2)%nat.
  Proof. unfold ann_route, link_to. cbn [e_path length]. rewrite app_length, map_length. cbn [length]. lia. Qed.

  Lemma ann_route_dst r l a : e_dst (ann_route r l a) = a_origin a.
  Proof. unfold ann_route. destruct l as [[[p lb] lt] li]. reflexivity. Qed.

  Theorem cstep_wf c c' : wf c -> cstep c c' -> wf c'.
  Proof.
    intros Hwf Hstep. destruct Hstep as [c id o rl ex info Ho Hid news|c pre m post now Hfl Hne Hnp Hd|c pre m post now t' added fw Hfl r Hne Hadm Hd news].
    - (* announce *)
      destruct Hwf as (Hf & Ht & Hc & Hk). split; [|split; [exact Ht|split; [exact Hc|exact Hk]]].
      cbn [c_flight]. apply Forall_app. split; [exact Hf|]. unfold news. rewrite Forall_forall. intros x Hx.
      apply in_map_iff in Hx. destruct Hx as (y & <- & Hy). apply in_neighbours in Hy. destruct Hy as [Hy _].
      unfold msg_wf. cbn [cm_ann cm_from cm_to a_dst_all a_chain a_origin map].
      split; [reflexivity|]. split; [constructor|]. split; [reflexivity|]. split; [repeat constructor; intros []|].
      split; [intros z [<-|[]]; exact Ho|exact Hy].
    - (* ignored *)
      destruct Hwf as (Hf & Ht & Hc & Hk). split; [|split; [exact Ht|split; [exact Hc|exact Hk]]].
      cbn [c_flight]. rewrite Hfl in Hf. exact (proj2 (forall_mid _ _ _ _ Hf)).
    - (* handled *)
      destruct (handled_cases c pre m post now t' added fw Hwf Hfl Hne Hd) as (Hm & Ho & Hl & Ha & Hfw).
      fold r in Ho, Hl, Ha, Hfw.
      destruct Hwf as (Hf & Ht & Hc & Hk). rewrite Hfl in Hf. destruct (forall_mid _ _ _ _ Hf) as [_ Hrest].
      destruct (Ht r) as [Hs Hw].
      pose proof (chain_short m Hm) as Hshort.
      assert (Hlen : (length (e_path (ann_route r (link_to r (cm_from m)) (cm_ann m))) <= 255)%nat) by (rewrite ann_route_len; lia).
      destruct (add_route_sorted _ _ _ _ _ _ Hs Hw Hlen Ha) as [Hs' Hw'].
      assert (Hother : forall d, d <> a_origin (cm_ann m) -> cnt (is_d d) t' = cnt (is_d d) (c_tbl c r)).
      { intros d Hd0. apply (add_route_other_dst _ _ _ _ _ _ d Hs Hw Ha). rewrite ann_route_dst. exact Hd0. }
      split; [|split; [|split]].
      + (* messages *)
        cbn [c_flight]. rewrite app_assoc. apply Forall_app. split; [exact Hrest|].
        unfold news. rewrite Forall_forall. intros x Hx. apply in_map_iff in Hx. destruct Hx as (y & <- & Hy).
        rewrite Hfw in Hy. destruct added; [|destruct Hy].
        apply in_targets in Hy. destruct Hy as (Hyn & _).
        destruct Hm as (Hall & Hv & Hfrom & Hnd & Hincl & Hto).
        unfold msg_wf, push. cbn [cm_ann cm_from cm_to a_dst_all a_chain a_origin map r_signer own_rec].
        split; [exact Hall|]. split; [constructor; [split; reflexivity|exact Hv]|]. split; [reflexivity|].
        split.
        * inversion Hnd as [|? ? Hno Hnd']; subst. constructor.
          -- intros [E|I]; [apply Ho; symmetry; exact E|contradiction].
          -- constructor; [exact Hl|exact Hnd'].
        * split; [|exact Hyn]. intros z [<-|[<-|Hz]]; [apply Hincl; left; reflexivity|exact Hto|apply Hincl; right; exact Hz].
      + (* tables *)
        intros r'. cbn [c_tbl]. unfold upd. destruct (N.eqb_spec r' r) as [->|_]; [split; assumption|apply Ht].
      + (* a router that never learned a route to o holds at most the direct-peer route *)
        intros r' o' Hnot. cbn [c_tbl c_learned] in *. unfold upd. destruct (N.eqb_spec r' r) as [->|Hr]; [|apply Hc; destruct added; [intros I; apply Hnot; right; exact I|exact Hnot]].
        destruct added.
        * assert (o' <> a_origin (cm_ann m)) by (intros ->; apply Hnot; left; reflexivity).
          rewrite Hother by assumption. apply Hc. intros I. apply Hnot. right. exact I.
        * rewrite (add_route_not_added _ _ _ _ _ Ha). apply Hc. exact Hnot.
      + (* every learned pair is a route in the table *)
        intros r' o' Hin. cbn [c_tbl c_learned] in *. unfold upd. destruct (N.eqb_spec r' r) as [->|Hr].
        * destruct added.
          -- destruct (N.eq_dec o' (a_origin (cm_ann m))) as [->|Hne'].
             ++ destruct (add_route_added _ _ _ _ _ Ha) as (e & He & Hsame). exists e. split; [exact He|].
                destruct Hsame as [Hd0 _]. rewrite Hd0. apply ann_route_dst.
             ++ destruct Hin as [E|Hin]; [inversion E; congruence|].
                apply knows_cnt. rewrite Hother by exact Hne'. apply knows_cnt. apply Hk. exact Hin.
          -- rewrite (add_route_not_added _ _ _ _ _ Ha). apply Hk. exact Hin.
        * apply Hk. destruct added; [destruct Hin as [E|Hin]; [inversion E; congruence|exact Hin]|exact Hin].
  Qed.

  (* ---------- executions of the mesh ---------- *)
  Definition init_ok (c : cnet) : Prop :=
    c_flight c = [] /\ c_learned c = [] /\ c_hist c = [] /\ c_deliv c = [] /\ c_anns c = [] /\
    (forall r, sorted (c_tbl c r) /\ tpwf (c_tbl c r)) /\
    (forall r o, (cnt (is_d o) (c_tbl c r) <= 1)%nat).      (* at most the direct-peer route to each neighbour *)

  Inductive creach : cnet -> Prop :=
  | creach0 c : init_ok c -> creach c
  | creachS c c' : creach c -> cstep c c' -> creach c'.

  Lemma init_wf c : init_ok c -> wf c.
  Proof.
    intros (Hf & Hl & _ & _ & _ & Ht & Hc). split; [rewrite Hf; constructor|]. split; [exact Ht|].
    split; [intros r o _; apply Hc|]. intros r o Hin. rewrite Hl in Hin. destruct Hin.
  Qed.

  Lemma init_abs c : init_ok c -> abs_state c = ginit.
  Proof. intros (Hf & Hl & Hh & Hd & Ha & _). unfold abs_state, ginit. rewrite Hf, Hl, Hh, Hd, Ha. reflexivity. Qed.

  Theorem creach_sim c : creach c -> wf c /\ reachable nodes adj (abs_state c).
  Proof.
    induction 1 as [c Hi|c c' _ [Hw Hr] Hs].
    - split; [apply init_wf; exact Hi|rewrite (init_abs c Hi); apply R0].
    - split; [eapply cstep_wf; eassumption|eapply RS; [exact Hr|apply cstep_sim; assumption]].
  Qed.

  (* Reach, on the routers' TABLES: once nothing is in flight, every router of a connected mesh
     holds a route to every router that has announced. *)
  Theorem mesh_reach c o r :
    creach c -> c_flight c = [] -> connected nodes adj ->
    (exists id, In (id, o) (c_anns c)) -> In o nodes -> In r nodes -> r <> o ->
    knows (c_tbl c r) o.
  Proof.
    intros Hc Hq Hconn Hann Ho Hr Hne. destruct (creach_sim c Hc) as [(_ & _ & _ & Hk) Hreach].
    apply Hk. assert (Hq' : inflight (abs_state c) = []) by (unfold abs_state; cbn [inflight]; rewrite Hq; reflexivity).
    exact (flood_reach nodes adj adj_irrefl (abs_state c) o r Hreach Hq' Hconn Hann Ho Hr Hne).
  Qed.

  (* every frame the mesh of handlers ever put on a link travelled a loop-free path, at most once *)
  Theorem mesh_paths_loop_free c m : creach c -> In m (c_hist c) ->
    NoDup (path_of m) /\ g_to m <> g_origin m /\ ~ In (g_to m) (g_hops m).
  Proof.
    intros Hc Hm. destruct (creach_sim c Hc) as [_ Hreach].
    exact (paths_loop_free nodes adj nodes_nodup adj_irrefl (abs_state c) m Hreach Hm).
  Qed.

  (* every delivery in the mesh strictly decreases the protocol's termination measure *)
  Theorem mesh_delivery_decreases c c' : creach c -> cstep c c' -> c_anns c' = c_anns c ->
    (mu nodes (abs_state c') < mu nodes (abs_state c))%nat.
  Proof.
    intros Hc Hs Ha. destruct (creach_sim c Hc) as [Hw Hreach].
    apply (delivery_decreases nodes adj nodes_nodup adj_irrefl (abs_state c) (abs_state c') Hreach).
    split; [apply cstep_sim; assumption|exact Ha].
  Qed.
End Net.

(* ---------- non-vacuity: two routers, one announcement, the side conditions are met ---------- *)
Definition ex_nodes : list N := [1; 2].
Definition ex_adj (a b : N) : bool := negb (a =? b).
Definition ex_cfgs (_ : N) : list rprefix := [mkRp 0 0 16 0%Z 4].
Definition ex_lab (_ x : N) : N := 10 + x.
Definition ex_lat (_ _ : N) : N := 7.
Definition ex_c0 : cnet := mkC (fun _ => []) [] [] [] [] [].
Definition ex_m : cmsg := mkCm 9 (mkAnn 1 [] 5 false 0%Z 0 true) 1 2.
Definition ex_c1 : cnet := mkC (fun _ => []) [ex_m] [] [abs ex_m] [] [(9, 1)].

Example mesh_nonvacuous :
  exists c, creach ex_nodes ex_adj ex_cfgs ex_lab ex_lat c /\ c_flight c = [] /\ knows (c_tbl c 2) 1 /\ c_learned c = [(2, 1)].
Proof.
  assert (R0' : creach ex_nodes ex_adj ex_cfgs ex_lab ex_lat ex_c0).
  { apply creach0. unfold init_ok, ex_c0. cbn [c_flight c_learned c_hist c_deliv c_anns c_tbl].
    split; [reflexivity|]. split; [reflexivity|]. split; [reflexivity|]. split; [reflexivity|]. split; [reflexivity|].
    split; [intros r; split; [apply SSorted_nil|intros e []]|intros r o; apply Nat.le_0_l]. }
  assert (R1 : creach ex_nodes ex_adj ex_cfgs ex_lab ex_lat ex_c1).
  { eapply creachS; [exact R0'|].
    exact (CAnnounce ex_nodes ex_adj ex_cfgs ex_lab ex_lat ex_c0 9 1 5 0%Z 0 (or_introl eq_refl) (fun o' H => H)). }
  destruct (deliver ex_nodes ex_adj ex_cfgs ex_lab ex_lat 1000 [] 2 ex_m) as [[[t' added] fw]|] eqn:Hd; [|vm_compute in Hd; discriminate].
  pose proof Hd as Hd'. vm_compute in Hd'. inversion Hd'; subst t' added fw.
  eexists. split; [|split; [|split]].
  - eapply creachS; [exact R1|].
    eapply (CHandled ex_nodes ex_adj ex_cfgs ex_lab ex_lat ex_c1 [] ex_m [] 1000); [reflexivity| | |exact Hd].
    + intros e. vm_compute. discriminate.
    + unfold admissible. intros rp Hrp. vm_compute in Hrp. inversion Hrp; subst rp. vm_compute. lia.
  - reflexivity.
  - cbn [c_tbl]. unfold upd, ex_m, cm_to. rewrite N.eqb_refl. eexists. split; [left; reflexivity|reflexivity].
  - reflexivity.
Qed.
