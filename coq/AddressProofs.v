(* AddressProofs.v — lemmas about Address.v (C01). *)
From Verif Require Import Prelude Address.

Section Proofs.
  Variable H : list N -> option (list N -> list N).

  Theorem verify_total a : verify_address H a <> Panic.
  Proof.
    unfold verify_address. destruct (negb (in_fd00 (a_ip a))); [discriminate|].
    destruct (H (a_hash a)); [|discriminate].
    repeat match goal with |- context [if ?b then _ else _] => destruct b end; discriminate.
  Qed.

  Theorem verify_sound a : verify_address H a = Ok tt ->
    in_fd00 (a_ip a) = true /\ a_type a = ed25519_name /\ length (a_key a) = 32%nat /\
    exists h, H (a_hash a) = Some h /\ firstn 16 (h (digest_input (a_type a) (a_key a) (a_easing a))) = a_ip a.
  Proof.
    unfold verify_address. destruct (in_fd00 (a_ip a)) eqn:Hi; cbn [negb]; [|discriminate].
    destruct (H (a_hash a)) as [h|] eqn:Hh; [|discriminate].
    destruct (bytes_eqb (a_type a) ed25519_name) eqn:Ht; cbn [negb]; [|discriminate].
    destruct (Nat.eqb_spec (length (a_key a)) 32) as [Hk|]; cbn [negb]; [|discriminate].
    destruct (Nat.ltb (length (h (digest_input (a_type a) (a_key a) (a_easing a)))) 16); [discriminate|].
    destruct (bytes_eqb (firstn 16 (h (digest_input (a_type a) (a_key a) (a_easing a)))) (a_ip a)) eqn:He; [|discriminate].
    intros _. apply bytes_eqb_eq in Ht, He. repeat split; try assumption. exists h. split; [reflexivity|exact He].
  Qed.

  (* ---------- the hashed input determines key type, key and easing ---------- *)
  Lemma be32_inj x y : x < 4294967296 -> y < 4294967296 -> be32 x = be32 y -> x = y.
  Proof. unfold be32. intros Hx Hy Heq. inversion Heq. lia. Qed.

  Lemma be64_inj x y : x < 18446744073709551616 -> y < 18446744073709551616 -> be64_ x = be64_ y -> x = y.
  Proof.
    unfold be64_. intros Hx Hy Heq.
    assert (H1 : be32 (x / 4294967296) = be32 (y / 4294967296) /\ be32 (x mod 4294967296) = be32 (y mod 4294967296)).
    { unfold be32 in *. cbn [app] in Heq. inversion Heq. split; reflexivity. }
    destruct H1 as [Ha Hb]. apply be32_inj in Ha; [|lia|lia]. apply be32_inj in Hb; [|lia|lia]. lia.
  Qed.

  Lemma app_inj_length {A} (a b c d : list A) : length a = length c -> a ++ b = c ++ d -> a = c /\ b = d.
  Proof.
    revert c; induction a as [|x a IH]; intros [|y c] Hl Heq; cbn [length app] in *; try discriminate.
    - split; [reflexivity|exact Heq].
    - inversion Heq; subst. destruct (IH c) as [-> ->]; [lia|assumption|]. split; reflexivity.
  Qed.

  Lemma be64_length x : length (be64_ x) = 8%nat. Proof. reflexivity. Qed.

  Theorem digest_input_inj ty key e ty' key' e' :
    N.of_nat (length ty) < 256 -> N.of_nat (length ty') < 256 -> N.of_nat (length key) < 65536 -> N.of_nat (length key') < 65536 ->
    e < 18446744073709551616 -> e' < 18446744073709551616 ->
    digest_input ty key e = digest_input ty' key' e' -> ty = ty' /\ key = key' /\ e = e'.
  Proof.
    intros Ht Ht' Hk Hk' He He' Heq. unfold digest_input, digest_data, be16 in Heq. cbn [app] in Heq.
    inversion Heq as [[H1 H2 H3 H4]]; clear Heq.
    assert (Hlt : length ty = length ty') by lia.
    assert (Hlk : length key = length key') by lia.
    rewrite <- !app_assoc in H4.
    apply app_inj_length in H4 as [-> H4]; [|exact Hlt].
    apply app_inj_length in H4 as [-> H4]; [|exact Hlk].
    split; [reflexivity|]. split; [reflexivity|].
    destruct (N.eqb_spec e 0) as [->|Hne], (N.eqb_spec e' 0) as [->|Hne']; try reflexivity.
    - apply (f_equal (@length _)) in H4. rewrite be64_length in H4. discriminate.
    - apply (f_equal (@length _)) in H4. rewrite be64_length in H4. discriminate.
    - apply be64_inj; assumption.
  Qed.

  (* ---------- corruptions of a valid identity are rejected ---------- *)
  (* idealised hash family: digest prefixes of distinct (algorithm, input) pairs differ *)
  Hypothesis CR : forall n n' h h' x x', H n = Some h -> H n' = Some h' -> (n, x) <> (n', x') ->
    firstn 16 (h x) <> firstn 16 (h' x').

  Theorem corrupt_ip a a' :
    verify_address H a = Ok tt -> a_ip a' <> a_ip a ->
    a_hash a' = a_hash a -> a_type a' = a_type a -> a_key a' = a_key a -> a_easing a' = a_easing a ->
    exists c, verify_address H a' = Err c.
  Proof.
    intros Hv Hip Hh Ht Hk He. destruct (verify_sound _ Hv) as (_ & Hty & Hkl & h & Hhh & Hd).
    unfold verify_address. rewrite Hh, Ht, Hk, He, Hhh.
    destruct (negb (in_fd00 (a_ip a'))); [eexists; reflexivity|].
    rewrite Hty. replace (bytes_eqb ed25519_name ed25519_name) with true by reflexivity. cbn [negb].
    rewrite Hkl. cbn [Nat.eqb negb]. rewrite <- Hty.
    destruct (Nat.ltb _ 16); [eexists; reflexivity|].
    destruct (bytes_eqb _ (a_ip a')) eqn:E; [|eexists; reflexivity].
    apply bytes_eqb_eq in E. exfalso. apply Hip. rewrite <- E, Hd. reflexivity.
  Qed.

  Theorem corrupt_material a a' :
    verify_address H a = Ok tt -> a_ip a' = a_ip a ->
    (a_hash a', a_type a', a_key a', a_easing a') <> (a_hash a, a_type a, a_key a, a_easing a) ->
    a_easing a < 18446744073709551616 -> a_easing a' < 18446744073709551616 ->
    exists c, verify_address H a' = Err c.
  Proof.
    intros Hv Hip Hne Hea Hea'. destruct (verify_sound _ Hv) as (_ & Hty & Hkl & h & Hhh & Hd).
    unfold verify_address. rewrite Hip.
    destruct (negb (in_fd00 (a_ip a))); [eexists; reflexivity|].
    destruct (H (a_hash a')) as [h'|] eqn:Hh'; [|eexists; reflexivity].
    destruct (bytes_eqb (a_type a') ed25519_name) eqn:Ht'; cbn [negb]; [|eexists; reflexivity].
    destruct (Nat.eqb_spec (length (a_key a')) 32) as [Hk'|]; cbn [negb]; [|eexists; reflexivity].
    destruct (Nat.ltb _ 16); [eexists; reflexivity|].
    destruct (bytes_eqb _ (a_ip a)) eqn:E; [|eexists; reflexivity].
    exfalso. apply bytes_eqb_eq in E, Ht'. rewrite <- Hd in E.
    eapply (CR _ _ _ _ _ _ Hh' Hhh); [|exact E].
    intros Heq. assert (Hn : a_hash a' = a_hash a) by congruence.
    assert (Hin : digest_input (a_type a') (a_key a') (a_easing a') = digest_input (a_type a) (a_key a) (a_easing a)) by congruence.
    clear Heq. apply Hne. rewrite Ht', Hty in *.
    apply digest_input_inj in Hin as (_ & -> & ->); try assumption; try (cbn; lia); try (rewrite ?Hk', ?Hkl; cbn; lia).
    rewrite Hn. reflexivity.
  Qed.

  (* rejection leaves no trace: the stored set only grows after a successful verification *)
  Theorem admit_rejects_no_trace known a c : verify_address H a = Err c -> admit_identity H known a = Err c.
  Proof. intros Hv. unfold admit_identity. rewrite Hv. reflexivity. Qed.

  Theorem admit_only_verified known a known' : admit_identity H known a = Ok known' ->
    verify_address H a = Ok tt /\ known' = a_ip a :: known.
  Proof.
    unfold admit_identity. destruct (verify_address H a) as [[]|e|] eqn:Hv; cbn [bind]; try discriminate.
    intros Hk. inversion Hk. split; reflexivity.
  Qed.

  (* ---------- the binding store: every stored address is bound to an identity that is ITS OWN
     and verifies — after any number of admissions and announcement chains ---------- *)
  Definition store_sound (st : store) : Prop :=
    forall ip a, In (ip, a) st -> a_ip a = ip /\ verify_address H a = Ok tt.

  Lemma admit_binding_sound st a st' : store_sound st -> admit_binding H st a = Ok st' -> store_sound st'.
  Proof.
    intros Hs. unfold admit_binding. destruct (verify_address H a) as [[]|e|] eqn:Hv; cbn [bind]; try discriminate.
    destruct (lookup_binding st (a_ip a)); intros E; inversion E; subst; [exact Hs|].
    intros ip b [Hb|Hb]; [inversion Hb; subst; split; [reflexivity|exact Hv] | apply Hs; exact Hb].
  Qed.

  Theorem admit_chain_sound : forall l st, store_sound st -> store_sound (fst (admit_chain H st l)).
  Proof.
    induction l as [|a t IH]; intros st Hs; cbn [admit_chain]; [exact Hs|].
    destruct (admit_binding H st a) as [st'|e|] eqn:E; [|exact Hs|exact Hs].
    apply IH. eapply admit_binding_sound; eassumption.
  Qed.

  (* a rejected identity leaves the store unchanged, and an existing binding is never replaced *)
  Theorem admit_binding_rejects st a c : verify_address H a = Err c -> admit_binding H st a = Err c.
  Proof. intros Hv. unfold admit_binding. rewrite Hv. reflexivity. Qed.

  Lemma lookup_cons_other st ip b : bytes_eqb (fst b) ip = false -> lookup_binding (b :: st) ip = lookup_binding st ip.
  Proof. intros E. unfold lookup_binding. cbn [find]. rewrite E. reflexivity. Qed.

  Theorem admit_binding_keeps st a st' ip b : admit_binding H st a = Ok st' ->
    lookup_binding st ip = Some b -> lookup_binding st' ip = Some b.
  Proof.
    unfold admit_binding. destruct (verify_address H a) as [[]|e|]; cbn [bind]; try discriminate.
    destruct (lookup_binding st (a_ip a)) eqn:La; intros E Hl; inversion E; subst; [exact Hl|].
    destruct (bytes_eqb (a_ip a) ip) eqn:Eq.
    - apply bytes_eqb_eq in Eq. subst. rewrite La in Hl. discriminate.
    - rewrite lookup_cons_other by exact Eq. exact Hl.
  Qed.

  (* ---------- the generator only returns identities that verify and lie where asked ---------- *)
  Theorem generator_sound h hname key acc ign fuel : forall easing a,
    H hname = Some h -> length key = 32%nat ->
    try_key h hname key acc ign easing fuel = Some a ->
    verify_address H a = Ok tt /\
    existsb (fun p => prefix_has p (a_ip a)) acc = true /\
    prefix_has internal_prefix (a_ip a) = false /\
    existsb (fun p => prefix_has p (a_ip a)) ign = false.
  Proof.
    induction fuel as [|f IH]; intros easing a Hh Hk Ht; cbn [try_key] in Ht; [discriminate|].
    destruct (Nat.ltb (length (h (digest_input ed25519_name key easing))) 16) eqn:Hl; [discriminate|].
    destruct (in_fd00 (firstn 16 (h (digest_input ed25519_name key easing)))) eqn:Hfd; cbn [negb] in Ht;
      [|eapply IH; eassumption].
    destruct (prefix_has internal_prefix _) eqn:Hint; [discriminate|].
    destruct (existsb (fun p => prefix_has p (firstn 16 (h (digest_input ed25519_name key easing)))) ign) eqn:Hig; [discriminate|].
    destruct (existsb (fun p => prefix_has p (firstn 16 (h (digest_input ed25519_name key easing)))) acc) eqn:Hac;
      [|eapply IH; eassumption].
    assert (Ha : a = mkPub (firstn 16 (h (digest_input ed25519_name key easing))) hname ed25519_name key easing) by congruence.
    subst a; clear Ht. cbn [a_ip]. repeat split; try assumption.
    unfold verify_address. cbn [a_ip a_hash a_type a_key a_easing]. rewrite Hfd, Hh. cbn [negb].
    replace (bytes_eqb ed25519_name ed25519_name) with true by reflexivity. cbn [negb]. rewrite Hk. cbn [Nat.eqb negb].
    rewrite Hl. replace (bytes_eqb _ _) with true; [reflexivity|]. symmetry. apply bytes_eqb_eq. reflexivity.
  Qed.
End Proofs.

(* ---------- hex codec round trip ---------- *)
Lemma hex_val_digit n : n < 16 -> hex_val (hex_digit n) = Some n.
Proof.
  intros Hn. assert (Hs : forallb (fun k => match hex_val (hex_digit k) with Some v => v =? k | None => false end)
    [0;1;2;3;4;5;6;7;8;9;10;11;12;13;14;15] = true) by reflexivity.
  rewrite forallb_forall in Hs. specialize (Hs n).
  assert (Hin : In n [0;1;2;3;4;5;6;7;8;9;10;11;12;13;14;15]).
  { assert (n = 0 \/ n = 1 \/ n = 2 \/ n = 3 \/ n = 4 \/ n = 5 \/ n = 6 \/ n = 7 \/ n = 8 \/ n = 9 \/ n = 10 \/ n = 11 \/ n = 12 \/ n = 13 \/ n = 14 \/ n = 15) by lia.
    cbn [In]. intuition. }
  specialize (Hs Hin). destruct (hex_val (hex_digit n)); [|discriminate]. apply N.eqb_eq in Hs. subst. reflexivity.
Qed.

Theorem hex_roundtrip l : Forall (fun b => b < 256) l -> hex_decode (hex_encode l) = Some l.
Proof.
  induction 1 as [|b t Hb Ht IH]; [reflexivity|]. cbn [hex_encode hex_decode].
  rewrite !hex_val_digit by (try apply N.mod_lt; try (apply N.div_lt_upper_bound); lia). rewrite IH.
  f_equal. f_equal. lia.
Qed.
