(* TranslatedTotals.v — SwitchPath.CalculateTotals, translated from m/switch_label.go on every run
   (Gen.go_SwitchPath_CalculateTotals: the hop list as a list of (Delay, ForwardLabel, ReturnLabel),
   the range loop as a fold, the accumulator with its machine width written out), equals the routing
   table model's calc_thops / calc_tdelay for every path of up to 255 hops with 16-bit delays. *)
From Verif Require Import Prelude Gen SwitchLabel Table.

Definition hop_triple (h : hop) : N * N * N := (h_delay h, h_fwd h, h_ret h).

Definition go_delay_step (acc : N) (t : N * N * N) : N :=
  let '(d, _, _) := t in if d <? 5 then go_add 64 acc 5 else go_add 64 acc d.
Definition model_delay_step (acc : N) (h : hop) : N := acc + (if h_delay h <? 5 then 5 else h_delay h).

Lemma delay_fold_eq : forall p acc,
  (forall h, In h p -> h_delay h < 65536) ->
  acc + 65535 * N.of_nat (length p) < 2 ^ 64 ->
  fold_left go_delay_step (map hop_triple p) acc = fold_left model_delay_step p acc /\
  fold_left model_delay_step p acc <= acc + 65535 * N.of_nat (length p).
Proof.
  induction p as [|h t IH]; intros acc Hd Hb; cbn [map fold_left length]; [split; [reflexivity|lia]|].
  assert (Hh : h_delay h < 65536) by (apply Hd; left; reflexivity).
  assert (Hstep : go_delay_step acc (hop_triple h) = model_delay_step acc h).
  { unfold go_delay_step, hop_triple, model_delay_step, go_add. cbn [length] in Hb.
    destruct (N.ltb_spec (h_delay h) 5); apply N.mod_small; lia. }
  rewrite Hstep. cbn [length] in Hb.
  assert (Hm : model_delay_step acc h <= acc + 65535) by (unfold model_delay_step; destruct (N.ltb_spec (h_delay h) 5); lia).
  destruct (IH (model_delay_step acc h) (fun x Hx => Hd x (or_intror Hx)) ltac:(lia)) as [E L].
  split; [exact E|lia].
Qed.

Theorem go_calc_totals_is_model : forall p old_delay old_hops,
  (length p <= 255)%nat -> (forall h, In h p -> h_delay h < 65536) ->
  Gen.go_SwitchPath_CalculateTotals (map hop_triple p) old_delay old_hops = (calc_tdelay p old_delay, calc_thops p).
Proof.
  intros p od oh Hlen Hd.
  assert (Hb : 0 + 65535 * N.of_nat (length p) < 2 ^ 64) by (change (2 ^ 64) with 18446744073709551616; lia).
  destruct (delay_fold_eq p 0 Hd Hb) as [E L].
  unfold Gen.go_SwitchPath_CalculateTotals.
  repeat match goal with |- context [fold_left ?f (map hop_triple p) 0] =>
    lazymatch f with go_delay_step => fail | _ => change (fold_left f (map hop_triple p) 0) with (fold_left go_delay_step (map hop_triple p) 0) end end.
  rewrite map_length.
  unfold calc_tdelay, calc_thops.
  change (fun (acc : N) (h : hop) => acc + (if h_delay h <? 5 then 5 else h_delay h)) with model_delay_step.
  rewrite ?E.
  set (d := fold_left model_delay_step p 0) in *.
  assert (Hconv : d <= 65534 -> go_conv 16 d = d) by (intros H; unfold go_conv; apply N.mod_small; lia).
  destruct (length p) as [|[|n]] eqn:El.
  - cbn [Nat.eqb Z.of_nat Z.eqb orb]. destruct (N.eqb_spec d 0); [reflexivity|]. destruct (N.leb_spec d 65534); [rewrite Hconv by assumption; reflexivity|reflexivity].
  - cbn [Z.of_nat Z.eqb orb Pos.of_succ_nat Pos.eqb]. destruct (N.eqb_spec d 0); [reflexivity|]. destruct (N.leb_spec d 65534); [rewrite Hconv by assumption; reflexivity|reflexivity].
  - assert (Hne : (Z.of_nat (S (S n)) =? 0)%Z = false) by (apply Z.eqb_neq; lia).
    assert (Hne1 : (Z.of_nat (S (S n)) =? 1)%Z = false) by (apply Z.eqb_neq; lia).
    rewrite Hne, Hne1. cbn [orb].
    destruct (Z.leb_spec (Z.of_nat (S (S n)) - 1) 254) as [Hle|Hgt]; destruct (Nat.leb_spec (S n) 254); try lia.
    + assert (Hc : go_conv_z 8 (Z.of_nat (S (S n)) - 1) = N.of_nat (S n)).
      { unfold go_conv_z. change (Z.of_N (2 ^ 8)) with 256%Z. rewrite Z.mod_small by lia. lia. }
      rewrite Hc. destruct (N.eqb_spec d 0); [reflexivity|]. destruct (N.leb_spec d 65534); [rewrite Hconv by assumption; reflexivity|reflexivity].
Qed.

Theorem totals_translated : Gen.go_SwitchPath_CalculateTotals_translated = true.
Proof. reflexivity. Qed.
