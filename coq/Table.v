(* Table.v — executable model of the routing table (m/table.go):
   stdSort, slices.BinarySearchFunc, AddRoute (+ addNewDestination), getDstSection,
   getPrefixSection, findIndex, LookupNearest, LookupNearestRoute (+ iterateNearest),
   RemoveNextHop, RemoveDisconnected, Clean (sortForCleaning / sortForRouting),
   SwitchPath.CalculateTotals; BuildBlocks comes from SwitchLabel.v.
   Addresses are 128-bit numbers, times are Z milliseconds (0 = the zero time). *)
From Verif Require Import Prelude SwitchLabel.

Record hop := mkHop { h_router : N; h_delay : N; h_fwd : N; h_ret : N }.

Record entry := mkEntry {
  e_dst : N;
  e_paddr : N;          (* routing prefix: address *)
  e_pbits : N;          (*                 length *)
  e_nexthop : N;
  e_path : list hop;
  e_stub : bool;
  e_source : N;         (* 1 peer, 2 gossip, 3 discovered *)
  e_expires : Z;
  e_thops : N;
  e_tdelay : N
}.

Definition src_peer : N := 1.
Definition src_gossip : N := 2.
Definition src_discovered : N := 3.

(* routable prefix configuration *)
Record rprefix := mkRp { rp_addr : N; rp_bits : N; rp_rbits : N; rp_ttl : Z; rp_limit : nat }.

Definition mask (ip bits : N) : N := N.shiftl (N.shiftr ip (128 - bits)) (128 - bits).
Definition prefix_contains (paddr pbits ip : N) : bool := N.shiftr ip (128 - pbits) =? N.shiftr paddr (128 - pbits).
Definition prefix_last (paddr pbits : N) : N := mask paddr pbits + (2 ^ (128 - pbits) - 1).

Fixpoint rp_for (cfg : list rprefix) (ip : N) : option rprefix :=
  match cfg with
  | [] => None
  | r :: t => if prefix_contains (rp_addr r) (rp_bits r) ip then Some r else rp_for t ip
  end.

(* configurations as GetRoutablePrefixesFor and the default produce them: the routing prefix is at
   least as specific as the base prefix it is configured for (hypothesis of TablePrefix.v,
   evaluated on every configuration the harness uses) *)
Definition rp_ok (rp : rprefix) : bool :=
  (0 <? rp_rbits rp) && (rp_bits rp <=? rp_rbits rp) && (rp_rbits rp <=? 128).
Definition cfg_ok (cfg : list rprefix) : bool := forallb rp_ok cfg.

(* ---------- comparison ---------- *)
Definition cmpN (a b : N) : Z := match N.compare a b with Lt => (-1)%Z | Eq => 0%Z | Gt => 1%Z end.

Definition relays (p : list hop) : list N := map h_router (removelast (tl p)).   (* hops 1..len-2 *)

Fixpoint cmp_relays (a b : list N) : Z :=
  match a, b with
  | x :: a', y :: b' => if x =? y then cmp_relays a' b' else cmpN x y
  | _, _ => 0%Z
  end.

(* the loop in stdSort runs over a's relay positions and indexes b with the same positions *)
Definition std_cmp (a b : entry) : Z :=
  if negb (e_dst a =? e_dst b) then cmpN (e_dst a) (e_dst b)
  else if negb (e_thops a =? e_thops b) then (Z.of_N (e_thops a) - Z.of_N (e_thops b))%Z
  else if negb (e_tdelay a =? e_tdelay b) then (Z.of_N (e_tdelay a) - Z.of_N (e_tdelay b))%Z
  else cmp_relays (relays (e_path a)) (relays (e_path b)).

Definition route_equals (a b : entry) : bool :=
  if negb (e_dst a =? e_dst b) then false
  else if (e_source a =? src_peer) && (e_source b =? src_peer) then true
  else if negb (e_thops a =? e_thops b) then false
  else if negb (Nat.eqb (length (e_path a)) (length (e_path b))) then false
  else list_eqb N.eqb (relays (e_path a)) (relays (e_path b)).

(* ---------- slices.BinarySearchFunc ---------- *)
Fixpoint bsearch_go {T} (cmp : entry -> T -> Z) (x : list entry) (target : T) (i j : nat) (fuel : nat) : nat :=
  match fuel with
  | O => i
  | S f =>
    if Nat.ltb i j then
      let h := Nat.div2 (i + j) in
      match nth_error x h with
      | Some e => if (cmp e target <? 0)%Z then bsearch_go cmp x target (S h) j f
                  else bsearch_go cmp x target i h f
      | None => i
      end
    else i
  end.
Definition bsearch {T} (cmp : entry -> T -> Z) (x : list entry) (target : T) : nat * bool :=
  let i := bsearch_go cmp x target 0 (length x) (S (length x)) in
  (i, match nth_error x i with Some e => (cmp e target =? 0)%Z | None => false end).

Definition probe (dst thops tdelay : N) : entry := mkEntry dst 0 0 0 [] false 0 0%Z thops tdelay.

Definition dst_section (t : list entry) (dst : N) : nat * nat :=
  (fst (bsearch std_cmp t (probe dst 0 0)), fst (bsearch std_cmp t (probe dst 255 65535))).

Definition prefix_section (t : list entry) (paddr pbits : N) : nat * nat :=
  (fst (bsearch std_cmp t (probe (mask paddr pbits) 0 0)),
   fst (bsearch std_cmp t (probe (prefix_last paddr pbits) 255 65535))).

(* ---------- sorting (slices.SortFunc; any correct sort agrees when there are no ties) ---------- *)
Fixpoint insert_by (cmp : entry -> entry -> Z) (e : entry) (l : list entry) : list entry :=
  match l with
  | [] => [e]
  | h :: t => if (cmp e h <? 0)%Z then e :: l else h :: insert_by cmp e t
  end.
Definition sort_by (cmp : entry -> entry -> Z) (l : list entry) : list entry :=
  fold_left (fun acc e => insert_by cmp e acc) l [].

Definition insert_at {A} (l : list A) (i : nat) (x : A) : list A := firstn i l ++ x :: skipn i l.
Definition replace_at {A} (l : list A) (i : nat) (x : A) : list A := firstn i l ++ x :: skipn (S i) l.
Definition sort_section (t : list entry) (s e : nat) : list entry :=
  firstn s t ++ sort_by std_cmp (firstn (e - s) (skipn s t)) ++ skipn e t.

(* ---------- CalculateTotals ---------- *)
Definition calc_thops (p : list hop) : N :=
  match length p with
  | O | S O => 1
  | S n => if Nat.leb n 254 then N.of_nat n else 254
  end.
Definition calc_tdelay (p : list hop) (existing : N) : N :=
  let d := fold_left (fun acc h => acc + (if h_delay h <? 5 then 5 else h_delay h)) p 0 in
  if d =? 0 then existing else if d <=? 65534 then d else 65534.

Definition labels_of (p : list hop) : list (N * N) := map (fun h => (h_fwd h, h_ret h)) p.

(* ---------- AddRoute ---------- *)
Definition hour : Z := 3600000%Z.
Definition minute : Z := 60000%Z.

(* returns (table, added) or an error *)
Definition add_route (cfg : list rprefix) (now : Z) (t : list entry) (e0 : entry) : res (list entry * bool) :=
  match rp_for cfg (e_dst e0) with
  | None => Err 1                                                   (* not routable by this table *)
  | Some rp =>
    (* defaults *)
    let exp1 := if (0 <? rp_ttl rp)%Z && negb (e_source e0 =? src_peer)
                then let te := (now + rp_ttl rp)%Z in
                     if (e_expires e0 =? 0)%Z || (te <? e_expires e0)%Z then te else e_expires e0
                else e_expires e0 in
    let '(pa, pb) := if 0 <? rp_rbits rp then (mask (e_dst e0) (rp_rbits rp), rp_rbits rp) else (e_paddr e0, e_pbits e0) in
    if negb ((e_source e0 =? src_gossip) || (e_source e0 =? src_peer) || (e_source e0 =? src_discovered)) then Err 2
    else if (e_nexthop e0 =? 0) then Err 3                          (* next hop invalid/missing (0 = zero Addr) *)
    else if (pb =? 0) && (pa =? 0) then Err 4                       (* routing prefix invalid *)
    else if negb (e_source e0 =? src_peer) && Nat.ltb (length (e_path e0)) 2 then Err 5
    else
      let chk := if negb (e_source e0 =? src_peer) then
                   if (exp1 =? 0)%Z then Err 6
                   else if (hour <? now - exp1)%Z then Err 7
                   else if (exp1 - now <? 10 * minute)%Z then Ok (now + 10 * minute)%Z
                   else Ok exp1
                 else Ok exp1 in
      match chk with
      | Err c => Err c
      | Panic => Panic
      | Ok exp2 =>
        match build_blocks (labels_of (e_path e0)) with
        | Err _ => Err 8
        | Panic => Panic
        | Ok _ =>
          let e := mkEntry (e_dst e0) pa pb (e_nexthop e0) (e_path e0) (e_stub e0) (e_source e0) exp2
                           (calc_thops (e_path e0)) (calc_tdelay (e_path e0) (e_tdelay e0)) in
          let '(s, en) := dst_section t (e_dst e) in
          if Nat.leb en s then
            (* new destination *)
            let full := if e_source e =? src_gossip
                        then let '(ps, pe) := prefix_section t pa pb in Nat.ltb (rp_limit rp * 2) (pe - ps)
                        else false in
            if full then Ok (t, false)
            else Ok (insert_at t (fst (bsearch std_cmp t e)) e, true)
          else
            let sec := firstn (en - s) (skipn s t) in
            (* fix D21: the first gossip route to a known destination is subject to the per-prefix
               admission like a new destination *)
            if (e_source e =? src_gossip) && negb (existsb (fun x => e_source x =? src_gossip) sec) &&
               (let '(ps, pe) := prefix_section t pa pb in Nat.ltb (rp_limit rp * 2) (pe - ps))
            then Ok (t, false) else
            (* same route already present? *)
            let fix find_eq (l : list entry) (i : nat) : option nat :=
              match l with [] => None | x :: r => if route_equals x e then Some i else find_eq r (S i) end in
            match find_eq sec s with
            | Some i => Ok (sort_section (replace_at t i e) s en, true)
            | None =>
              if Nat.ltb (en - s) 3 || (e_source e =? src_peer)
              then Ok (insert_at t (fst (bsearch std_cmp t e)) e, true)
              else match nth_error t (s + 2) with
                   | Some third => if (std_cmp e third <? 0)%Z
                                   then Ok (sort_section (replace_at t (s + 2) e) s en, true)
                                   else Ok (t, false)
                   | None => Panic
                   end
            end
        end
      end
  end.

(* AddRoute as it stood before fix D21: only NEW destinations were subject to the per-prefix
   admission, so gossip routes to destinations known through a direct-peer route were unlimited *)
Definition add_route_pinned (cfg : list rprefix) (now : Z) (t : list entry) (e0 : entry) : res (list entry * bool) :=
  match rp_for cfg (e_dst e0) with
  | None => Err 1                                                   (* not routable by this table *)
  | Some rp =>
    (* defaults *)
    let exp1 := if (0 <? rp_ttl rp)%Z && negb (e_source e0 =? src_peer)
                then let te := (now + rp_ttl rp)%Z in
                     if (e_expires e0 =? 0)%Z || (te <? e_expires e0)%Z then te else e_expires e0
                else e_expires e0 in
    let '(pa, pb) := if 0 <? rp_rbits rp then (mask (e_dst e0) (rp_rbits rp), rp_rbits rp) else (e_paddr e0, e_pbits e0) in
    if negb ((e_source e0 =? src_gossip) || (e_source e0 =? src_peer) || (e_source e0 =? src_discovered)) then Err 2
    else if (e_nexthop e0 =? 0) then Err 3                          (* next hop invalid/missing (0 = zero Addr) *)
    else if (pb =? 0) && (pa =? 0) then Err 4                       (* routing prefix invalid *)
    else if negb (e_source e0 =? src_peer) && Nat.ltb (length (e_path e0)) 2 then Err 5
    else
      let chk := if negb (e_source e0 =? src_peer) then
                   if (exp1 =? 0)%Z then Err 6
                   else if (hour <? now - exp1)%Z then Err 7
                   else if (exp1 - now <? 10 * minute)%Z then Ok (now + 10 * minute)%Z
                   else Ok exp1
                 else Ok exp1 in
      match chk with
      | Err c => Err c
      | Panic => Panic
      | Ok exp2 =>
        match build_blocks (labels_of (e_path e0)) with
        | Err _ => Err 8
        | Panic => Panic
        | Ok _ =>
          let e := mkEntry (e_dst e0) pa pb (e_nexthop e0) (e_path e0) (e_stub e0) (e_source e0) exp2
                           (calc_thops (e_path e0)) (calc_tdelay (e_path e0) (e_tdelay e0)) in
          let '(s, en) := dst_section t (e_dst e) in
          if Nat.leb en s then
            (* new destination *)
            let full := if e_source e =? src_gossip
                        then let '(ps, pe) := prefix_section t pa pb in Nat.ltb (rp_limit rp * 2) (pe - ps)
                        else false in
            if full then Ok (t, false)
            else Ok (insert_at t (fst (bsearch std_cmp t e)) e, true)
          else
            (* same route already present? *)
            let sec := firstn (en - s) (skipn s t) in
            let fix find_eq (l : list entry) (i : nat) : option nat :=
              match l with [] => None | x :: r => if route_equals x e then Some i else find_eq r (S i) end in
            match find_eq sec s with
            | Some i => Ok (sort_section (replace_at t i e) s en, true)
            | None =>
              if Nat.ltb (en - s) 3 || (e_source e =? src_peer)
              then Ok (insert_at t (fst (bsearch std_cmp t e)) e, true)
              else match nth_error t (s + 2) with
                   | Some third => if (std_cmp e third <? 0)%Z
                                   then Ok (sort_section (replace_at t (s + 2) e) s en, true)
                                   else Ok (t, false)
                   | None => Panic
                   end
            end
        end
      end
  end.

(* ---------- lookups ---------- *)
Definition find_cmp (rte : entry) (a : N) : Z :=
  if negb (e_dst rte =? a) then cmpN (e_dst rte) a
  else if e_source rte =? src_peer then 0%Z else 1%Z.

Definition distance (a b : N) : N := N.lxor a b.

(* findIndex: (index, dstMatched); None = empty table (index -1) *)
Definition find_index (t : list entry) (dst : N) : option (nat * bool) :=
  let '(i, m) := bsearch find_cmp t dst in
  if m then Some (i, true)
  else if Nat.leb (length t) i then (match length t with O => None | S n => Some (n, false) end)
  else match nth_error t i with
       | Some e =>
         if e_dst e =? dst then Some (i, true)
         else if Nat.eqb i 0 then Some (O, false)
         else match nth_error t (i - 1) with
              | Some p => if distance (e_dst p) dst <? distance (e_dst e) dst then Some ((i - 1)%nat, false) else Some (i, false)
              | None => None
              end
       | None => None
       end.

Definition lookup_nearest (t : list entry) (dst : N) : option (entry * bool) :=
  match find_index t dst with
  | Some (i, m) => match nth_error t i with Some e => Some (e, m) | None => None end
  | None => None
  end.

(* iterateNearest looking for the first non-stub entry around index start *)
Fixpoint nearest_nonstub (t : list entry) (dst : N) (nexti : nat) (prev : list entry) (fuel : nat) : option entry :=
  (* prev = entries before start, nearest first; nexti = next index after start *)
  match fuel with
  | O => None
  | S f =>
    match nth_error t nexti, prev with
    | None, [] => None
    | None, p :: pr => if e_stub p then nearest_nonstub t dst nexti pr f else Some p
    | Some n, [] => if e_stub n then nearest_nonstub t dst (S nexti) [] f else Some n
    | Some n, p :: pr =>
      if distance (e_dst p) dst <=? distance (e_dst n) dst
      then (if e_stub p then nearest_nonstub t dst nexti pr f else Some p)
      else (if e_stub n then nearest_nonstub t dst (S nexti) prev f else Some n)
    end
  end.

Definition lookup_nearest_route (t : list entry) (dst : N) : option (entry * bool) :=
  match find_index t dst with
  | None => None
  | Some (i, m) =>
    match nth_error t i with
    | None => None
    | Some e =>
      if m || negb (e_stub e) then Some (e, m)
      else match nearest_nonstub t dst (S i) (rev (firstn i t)) (2 * length t + 2) with
           | Some x => Some (x, false)
           | None => None
           end
    end
  end.

(* ---------- removals ---------- *)
Definition remove_next_hop (t : list entry) (ip : N) : list entry :=
  filter (fun e => negb (e_nexthop e =? ip)) t.

Fixpoint disc_match (hops : list N) (prev : option N) (router : N) (disc : list N) : bool :=
  (* first occurrence of router in the path decides *)
  match hops with
  | [] => false
  | h :: t =>
    if h =? router then
      (match prev with Some p => existsb (N.eqb p) disc | None => false end) ||
      (match t with nx :: _ => existsb (N.eqb nx) disc | [] => false end)
    else disc_match t (Some h) router disc
  end.

Definition remove_disconnected (t : list entry) (router : N) (disc : list N) : list entry :=
  filter (fun e =>
    negb (match disc with
          | [] => (e_dst e =? router) || (e_nexthop e =? router) || existsb (fun h => h_router h =? router) (e_path e)
          | _ => disc_match (map h_router (e_path e)) None router disc
          end)) t.

(* ---------- Clean ---------- *)
Definition clean_cmp (self : N) (a b : entry) : Z :=
  if negb ((e_paddr a =? e_paddr b) && (e_pbits a =? e_pbits b)) then
    (if negb (e_paddr a =? e_paddr b) then cmpN (e_paddr a) (e_paddr b)
     else (Z.of_N (e_pbits a) - Z.of_N (e_pbits b))%Z)
  else if negb (e_thops a =? e_thops b) then (Z.of_N (e_thops a) - Z.of_N (e_thops b))%Z
  else if negb (e_tdelay a =? e_tdelay b) then (Z.of_N (e_tdelay a) - Z.of_N (e_tdelay b))%Z
  else
    let c := if self =? 0 then 0%Z else cmpN (distance self (e_dst a)) (distance self (e_dst b)) in
    if negb (c =? 0)%Z then c else cmpN (e_dst a) (e_dst b).

Fixpoint trim (cfg : list rprefix) (l : list entry) (cur : option (N * N)) (curmax seen : nat) : list entry :=
  match l with
  | [] => []
  | e :: t =>
    let same := match cur with Some (pa, pb) => (pa =? e_paddr e) && (pb =? e_pbits e) | None => false end in
    let '(curmax', seen0) := if same then (curmax, seen)
                             else (match rp_for cfg (e_dst e) with Some rp => rp_limit rp | None => O end, O) in
    let seen' := S seen0 in
    if Nat.ltb curmax' seen' && (e_source e =? src_gossip)
    then trim cfg t (Some (e_paddr e, e_pbits e)) curmax' seen'
    else e :: trim cfg t (Some (e_paddr e, e_pbits e)) curmax' seen'
  end.

Definition clean (cfg : list rprefix) (self : N) (now : Z) (t : list entry) : list entry :=
  let t1 := filter (fun e => negb (negb (e_source e =? src_peer) && (e_expires e <? now)%Z)) t in
  let t2 := sort_by (clean_cmp self) t1 in
  let t3 := trim cfg t2 None O O in
  sort_by std_cmp t3.

(* Clean as it stood on the pinned tree: the limit is looked up by the prefix base address and
   the bucket comparator ignores the prefix length (D6) *)
Definition clean_cmp_pinned (self : N) (a b : entry) : Z :=
  if negb ((e_paddr a =? e_paddr b) && (e_pbits a =? e_pbits b)) then cmpN (e_paddr a) (e_paddr b)
  else if negb (e_thops a =? e_thops b) then (Z.of_N (e_thops a) - Z.of_N (e_thops b))%Z
  else if negb (e_tdelay a =? e_tdelay b) then (Z.of_N (e_tdelay a) - Z.of_N (e_tdelay b))%Z
  else
    let c := if self =? 0 then 0%Z else cmpN (distance self (e_dst a)) (distance self (e_dst b)) in
    if negb (c =? 0)%Z then c else cmpN (e_dst a) (e_dst b).
Fixpoint trim_pinned (cfg : list rprefix) (l : list entry) (cur : option (N * N)) (curmax seen : nat) : list entry :=
  match l with
  | [] => []
  | e :: t =>
    let same := match cur with Some (pa, pb) => (pa =? e_paddr e) && (pb =? e_pbits e) | None => false end in
    let '(curmax', seen0) := if same then (curmax, seen)
                             else (match rp_for cfg (e_paddr e) with Some rp => rp_limit rp | None => O end, O) in
    let seen' := S seen0 in
    if Nat.ltb curmax' seen' && (e_source e =? src_gossip)
    then trim_pinned cfg t (Some (e_paddr e, e_pbits e)) curmax' seen'
    else e :: trim_pinned cfg t (Some (e_paddr e, e_pbits e)) curmax' seen'
  end.
Definition clean_pinned (cfg : list rprefix) (self : N) (now : Z) (t : list entry) : list entry :=
  let t1 := filter (fun e => negb (negb (e_source e =? src_peer) && (e_expires e <? now)%Z)) t in
  sort_by std_cmp (trim_pinned cfg (sort_by (clean_cmp_pinned self) t1) None O O).

(* ---------- operations ---------- *)
Inductive top :=
| TAdd (now : Z) (e : entry)
| TRemoveNextHop (ip : N)
| TRemoveDisconnected (router : N) (disc : list N)
| TClean (now : Z).

Definition tstep (cfg : list rprefix) (self : N) (t : list entry) (o : top) : list entry :=
  match o with
  | TAdd now e => match add_route cfg now t e with Ok (t', _) => t' | _ => t end
  | TRemoveNextHop ip => remove_next_hop t ip
  | TRemoveDisconnected r d => remove_disconnected t r d
  | TClean now => clean cfg self now t
  end.

(* executable invariant *)
Fixpoint sortedb (l : list entry) : bool :=
  match l with
  | a :: ((b :: _) as t) => (std_cmp a b <=? 0)%Z && sortedb t
  | _ => true
  end.
Definition count_dst_nonpeer (t : list entry) (d : N) : nat :=
  length (filter (fun e => (e_dst e =? d) && negb (e_source e =? src_peer)) t).
Definition count_dst_peer (t : list entry) (d : N) : nat :=
  length (filter (fun e => (e_dst e =? d) && (e_source e =? src_peer)) t).
Definition table_inv_b (t : list entry) : bool :=
  sortedb t && forallb (fun e => Nat.leb (count_dst_nonpeer t (e_dst e)) 3 && Nat.leb (count_dst_peer t (e_dst e)) 1) t.
