(* Pool.v — executable model of the pooled buffers and pooled frame structs of
   frame/builder.go and frame/frame_v1.go: GetPooledSlice / ReturnPooledSlice, NewFrameV1
   (initFrame), ParseFrameV1 into a pooled slice (as the link reader does), Clone, Reply,
   SetAppendixData (with growth), byte writes, ReturnToPool.
   A pooled slice is modelled sparsely: capacity + a prefix; bytes beyond the prefix are zero.
   sync.Pool may hand back any item that was put, or allocate: that choice is an oracle input. *)
From Verif Require Import Prelude Gen Frame.

Definition tiers : list nat :=
  map N.to_nat [Gen.frame_fiveHByteSize; Gen.frame_fifteenHByteSize; Gen.frame_fiveKByteSize;
                Gen.frame_nineKByteSize; Gen.frame_sixtyFiveKByteSize].

Fixpoint tier_of_from (ts : list nat) (minSize : nat) : option nat :=
  match ts with
  | [] => None
  | t :: r => if Nat.leb minSize t then Some t else tier_of_from r minSize
  end.
Definition tier_of (minSize : nat) : option nat := tier_of_from tiers minSize.

Record buf := mkBuf { cap : nat; pre : list N }.          (* content = pre ++ zeros *)

Definition buf_bytes (b : buf) (lo hi : nat) : list N :=
  range (pre b ++ repeat 0 (hi - length (pre b))) lo hi.
Definition buf_zero (b : buf) : bool := forallb (fun x => x =? 0) (pre b).
(* write v at position pos (pads the prefix with zeros up to pos first) *)
Definition splice (p : list N) (pos : nat) (v : list N) : list N :=
  firstn pos p ++ v ++ skipn (pos + length v) p.
Definition buf_write (b : buf) (pos : nat) (v : list N) : buf :=
  let p := pre b ++ repeat 0 (pos + length v - length (pre b)) in
  mkBuf (cap b) (splice p pos v).
(* zero outside [lo,hi) ? *)
Definition buf_zero_outside (b : buf) (lo hi : nat) : bool :=
  forallb (fun x => x =? 0) (firstn lo (pre b)) && forallb (fun x => x =? 0) (skipn hi (pre b)).

(* a frame struct: where its data lives and the cached / parsed fields *)
Record fr := mkFr {
  f_buf : option nat;      (* pooled slice id; None = nil *)
  f_off : nat;             (* psDataOffset *)
  f_len : nat;             (* len(data) *)
  f_ix : idx;
  f_src : list N;          (* cached src ([] = not cached / invalid) *)
  f_dst : list N;
  f_link : N               (* receive link id, 0 = nil *)
}.
Definition fr_zero : fr := mkFr None 0 0 (mkIdx 0 0 0) [] [] 0.

Record st := mkSt {
  heap : list (nat * buf);     (* every buffer ever allocated that is still referenced or pooled *)
  free : list nat;             (* ids in the slice pools *)
  live : list (nat * fr);      (* frame id -> struct in use *)
  sfree : list fr;             (* structs in the frame pool (with whatever fields they kept) *)
  nextb : nat;
  nextf : nat
}.
Definition st_init : st := mkSt [] [] [] [] 1 1.

Fixpoint lookup {A} (k : nat) (l : list (nat * A)) : option A :=
  match l with [] => None | (k', v) :: t => if Nat.eqb k k' then Some v else lookup k t end.
Fixpoint update {A} (k : nat) (v : A) (l : list (nat * A)) : list (nat * A) :=
  match l with
  | [] => [(k, v)]
  | (k', v') :: t => if Nat.eqb k k' then (k, v) :: t else (k', v') :: update k v t
  end.
Fixpoint remove_key {A} (k : nat) (l : list (nat * A)) : list (nat * A) :=
  match l with [] => [] | (k', v) :: t => if Nat.eqb k k' then t else (k', v) :: remove_key k t end.
Fixpoint remove_nat (k : nat) (l : list nat) : list nat :=
  match l with [] => [] | x :: t => if Nat.eqb k x then t else x :: remove_nat k t end.

(* GetPooledSlice: choice = Some b takes b out of the pool (must be free and of the right
   tier, else the model allocates); None allocates a zeroed slice *)
Definition get_slice (s : st) (minSize : nat) (choice : option nat) : st * option nat :=
  match tier_of minSize with
  | None => (s, None)
  | Some t =>
    let fresh := (mkSt ((nextb s, mkBuf t []) :: heap s) (free s) (live s) (sfree s) (S (nextb s)) (nextf s), Some (nextb s)) in
    match choice with
    | Some b =>
      match lookup b (heap s) with
      | Some bb => if existsb (Nat.eqb b) (free s) && Nat.eqb (cap bb) t
                   then (mkSt (heap s) (remove_nat b (free s)) (live s) (sfree s) (nextb s) (nextf s), Some b)
                   else fresh
      | None => fresh
      end
    | None => fresh
    end
  end.

(* ReturnPooledSlice: clear, then put back when the length is a pool tier *)
Definition return_slice (s : st) (b : nat) : st :=
  match lookup b (heap s) with
  | None => s
  | Some bb =>
    let h := update b (mkBuf (cap bb) []) (heap s) in
    if existsb (Nat.eqb (cap bb)) tiers
    then mkSt h (b :: free s) (live s) (sfree s) (nextb s) (nextf s)
    else mkSt h (free s) (live s) (sfree s) (nextb s) (nextf s)
  end.

(* frameV1Pool.Get: choice = Some i takes the i-th pooled struct, None a fresh one *)
Definition get_struct (s : st) (choice : option nat) : st * fr :=
  match choice with
  | Some i =>
    match nth_error (sfree s) i with
    | Some f => (mkSt (heap s) (free s) (live s) (firstn i (sfree s) ++ skipn (S i) (sfree s)) (nextb s) (nextf s), f)
    | None => (s, fr_zero)
    end
  | None => (s, fr_zero)
  end.

Definition add_live (s : st) (f : fr) : st * nat :=
  (mkSt (heap s) (free s) ((nextf s, f) :: live s) (sfree s) (nextb s) (S (nextf s)), nextf s).
Definition set_live (s : st) (id : nat) (f : fr) : st :=
  mkSt (heap s) (free s) (update id f (live s)) (sfree s) (nextb s) (nextf s).
Definition set_buf (s : st) (b : nat) (bb : buf) : st :=
  mkSt (update b bb (heap s)) (free s) (live s) (sfree s) (nextb s) (nextf s).

Definition frame_data (s : st) (f : fr) : list N :=
  match f_buf f with
  | Some b => match lookup b (heap s) with
              | Some bb => buf_bytes bb (f_off f) (f_off f + f_len f)
              | None => []
              end
  | None => []
  end.

Inductive op :=
| ONew (ty : N) (src dst sb msg apx nonce3 : list N) (off ovh : nat) (sc bc : option nat)
| OParse (bytes : list N) (off : nat) (link : N) (sc bc : option nat)   (* copy into a pooled slice, ParseFrame, SetRecvLink *)
| OClone (id : nat) (sc bc : option nat)
| OReply (id : nat) (sb msg apx nonce3 : list N) (off ovh : nat) (bc : option nat)
| OSetApx (id : nat) (apx : list N) (ovh : nat) (bc : option nat)
| OSetByte (id : nat) (i : nat) (v : N)
| ORelease (id : nat).

(* result: the new state and the id of the frame the operation produced or touched *)
Definition auth_of (ty : N) := auth_size ty.

(* initFrame on struct f (pooled slice possibly present), margins off/ovh *)
Definition init_frame (s : st) (f : fr) (ty : N) (src dst sb msg apx nonce3 : list N) (off ovh : nat) (bc : option nat)
  : res (st * fr) :=
  let required := (off + 51 + length sb + length msg + auth_of ty + length apx + ovh)%nat in
  let cur_len := match f_buf f with
                 | Some b => match lookup b (heap s) with Some bb => cap bb | None => O end
                 | None => O end in
  (* fix D22: a frame that fits no pooled buffer is refused, the struct keeps its old buffer *)
  if Nat.ltb cur_len required && (match tier_of required with None => true | Some _ => false end) then Err 9 else
  let '(s1, ob) :=
    if Nat.ltb cur_len required then
      let '(s', nb) := get_slice s required bc in
      let s'' := match f_buf f with Some old => return_slice s' old | None => s' end in
      (s'', nb)
    else (s, f_buf f) in
  match ob with
  | None => Panic                                   (* nil pooled slice: index out of range *)
  | Some b =>
    match lookup b (heap s1) with
    | None => Panic
    | Some bb =>
      match build ty src dst sb msg apx nonce3 with
      | Ok (d, ix) =>
        let s2 := set_buf s1 b (buf_write bb off d) in
        Ok (s2, mkFr (Some b) off (length d) ix src dst 0)
      | Err e => Err e
      | Panic => Panic
      end
    end
  end.

(* initFrame before fix D22: a size beyond the largest tier yields a nil pooled slice, which is then sliced *)
Definition init_frame_pinned (s : st) (f : fr) (ty : N) (src dst sb msg apx nonce3 : list N) (off ovh : nat) (bc : option nat)
  : res (st * fr) :=
  let required := (off + 51 + length sb + length msg + auth_of ty + length apx + ovh)%nat in
  let cur_len := match f_buf f with
                 | Some b => match lookup b (heap s) with Some bb => cap bb | None => O end
                 | None => O end in
  let '(s1, ob) :=
    if Nat.ltb cur_len required then
      let '(s', nb) := get_slice s required bc in
      let s'' := match f_buf f with Some old => return_slice s' old | None => s' end in
      (s'', nb)
    else (s, f_buf f) in
  match ob with
  | None => Panic                                   (* nil pooled slice: index out of range *)
  | Some b =>
    match lookup b (heap s1) with
    | None => Panic
    | Some bb =>
      match build ty src dst sb msg apx nonce3 with
      | Ok (d, ix) =>
        let s2 := set_buf s1 b (buf_write bb off d) in
        Ok (s2, mkFr (Some b) off (length d) ix src dst 0)
      | Err e => Err e
      | Panic => Panic
      end
    end
  end.

Definition step (s : st) (o : op) : res (st * nat) :=
  match o with
  | ONew ty src dst sb msg apx nonce3 off ovh sc bc =>
    let '(s0, f0) := get_struct s sc in
    do r <- init_frame s0 f0 ty src dst sb msg apx nonce3 off ovh bc;
    let '(s1, f1) := r in Ok (add_live s1 f1)
  | OParse bytes off link sc bc =>
    let '(s0, f0) := get_struct s sc in
    let '(s1, ob) := get_slice s0 (off + length bytes) bc in
    match ob with
    | None => Err 9
    | Some b =>
      match lookup b (heap s1) with
      | None => Panic
      | Some bb =>
        let s2 := set_buf s1 b (buf_write bb off bytes) in
        match parse bytes with
        | Ok ix => Ok (add_live s2 (mkFr (Some b) off (length bytes) ix (f_src f0) (f_dst f0) link))
        | Err e => Err e
        | Panic => Panic
        end
      end
    end
  | OClone id sc bc =>
    match lookup id (live s) with
    | None => Err 8
    | Some f =>
      let '(s0, _) := get_struct s sc in
      let srccap := match f_buf f with
                    | Some b => match lookup b (heap s0) with Some bb => cap bb | None => O end
                    | None => O end in
      let '(s1, ob) := get_slice s0 srccap bc in
      match ob, f_buf f with
      | Some nb, Some b =>
        match lookup nb (heap s1), lookup b (heap s1) with
        | Some nbb, Some bb =>
          if Nat.leb (f_off f + f_len f) (cap nbb)
          then let s2 := set_buf s1 nb (mkBuf (cap nbb) (pre bb)) in
               Ok (add_live s2 (mkFr (Some nb) (f_off f) (f_len f) (f_ix f) (f_src f) (f_dst f) (f_link f)))
          else Panic
        | _, _ => Panic
        end
      | _, _ => Panic
      end
    end
  | OReply id sb msg apx nonce3 off ovh bc =>
    match lookup id (live s) with
    | None => Err 8
    | Some f =>
      let d := frame_data s f in
      let src := if Nat.eqb (length (f_src f)) 16 then f_src f else src_part d in
      let dst := if Nat.eqb (length (f_dst f)) 16 then f_dst f else dst_part d in
      do r <- init_frame s f (byte_at d 4) dst src sb msg apx nonce3 off ovh bc;
      let '(s1, f1) := r in Ok (set_live s1 id f1, id)
    end
  | OSetApx id apx ovh bc =>
    match lookup id (live s) with
    | None => Err 8
    | Some f =>
      match f_buf f with
      | None => Err 7
      | Some b =>
        match lookup b (heap s) with
        | None => Panic
        | Some bb =>
          let x := xi (f_ix f) in
          if Nat.eqb x 0 then Err 1                                        (* frame is not initialized *)
          else if Nat.eqb (length apx) 0 then Ok (set_live s id (mkFr (f_buf f) (f_off f) x (f_ix f) (f_src f) (f_dst f) (f_link f)), id)
          else if Gen.frame_frameV1AppendixLimit <? N.of_nat (length apx) then Err 2
          else if Nat.ltb (cap bb - f_off f - x - ovh) (length apx) || Nat.ltb (cap bb) (f_off f + x + ovh) then
            (* grow: move the frame into a bigger pooled slice *)
            let '(s1, ob) := get_slice s (f_off f + x + length apx + ovh) bc in
            match ob with
            | None => Err 3                                                (* not enough space for appendix *)
            | Some nb =>
              match lookup nb (heap s1) with
              | None => Panic
              | Some nbb =>
                let d := buf_bytes bb (f_off f) (f_off f + f_len f) in
                let s2 := set_buf s1 nb (buf_write (buf_write nbb (f_off f) d) (f_off f + x) apx) in
                let s3 := return_slice s2 b in
                Ok (set_live s3 id (mkFr (Some nb) (f_off f) (x + length apx) (f_ix f) (f_src f) (f_dst f) (f_link f)), id)
              end
            end
          else
            let s1 := set_buf s b (buf_write bb (f_off f + x) apx) in
            Ok (set_live s1 id (mkFr (f_buf f) (f_off f) (x + length apx) (f_ix f) (f_src f) (f_dst f) (f_link f)), id)
        end
      end
    end
  | OSetByte id i v =>
    match lookup id (live s) with
    | None => Err 8
    | Some f =>
      match f_buf f with
      | Some b =>
        match lookup b (heap s) with
        | Some bb => if Nat.ltb i (f_len f) then Ok (set_buf s b (buf_write bb (f_off f + i) [v]), id) else Panic
        | None => Panic
        end
      | None => Panic
      end
    end
  | ORelease id =>
    match lookup id (live s) with
    | None => Err 8
    | Some f =>
      let s1 := match f_buf f with Some b => return_slice s b | None => s end in
      (* ReturnToPool clears data, indices, src, dst, recvLink, pooledSlice, psDataOffset *)
      Ok (mkSt (heap s1) (free s1) (remove_key id (live s1)) (fr_zero :: sfree s1) (nextb s1) (nextf s1), id)
    end
  end.

(* ---------- invariant checked on reachable states (executable) ---------- *)
Definition live_bufs (s : st) : list nat :=
  flat_map (fun p => match f_buf (snd p) with Some b => [b] | None => [] end) (live s).

Fixpoint nodupb (l : list nat) : bool :=
  match l with [] => true | x :: t => negb (existsb (Nat.eqb x) t) && nodupb t end.

Definition fr_clean (f : fr) : bool :=
  match f_buf f with None => true | _ => false end &&
  Nat.eqb (length (f_src f)) 0 && Nat.eqb (length (f_dst f)) 0 && (f_link f =? 0) &&
  Nat.eqb (xi (f_ix f)) 0 && Nat.eqb (mi (f_ix f)) 0 && Nat.eqb (ai (f_ix f)) 0.

Definition inv_b (s : st) : bool :=
  nodupb (live_bufs s ++ free s) &&
  forallb (fun b => match lookup b (heap s) with Some bb => buf_zero bb | None => false end) (free s) &&
  forallb fr_clean (sfree s).
