(* TableClean.v — C11: after a cleanup the gossip routes of every routing prefix are within the
   prefix's limit (Clean as repaired by fix D6: the limit is that of an entry's own destination,
   buckets are compared by prefix address and length). *)
From Coq Require Import Permutation.
From Verif Require Import Prelude SwitchLabel Table TableProofs TableSorted TableBounds TablePrefix.

(* ---------- the bucket order of sortForCleaning ---------- *)
Definition key (e : entry) : N * N := (e_paddr e, e_pbits e).
Definition kle (a b : N * N) : Prop := fst a < fst b \/ (fst a = fst b /\ snd a <= snd b).
Definition ekle (a b : entry) : Prop := kle (key a) (key b).

Lemma kle_refl a : kle a a.
Proof. right. split; [reflexivity|apply N.le_refl]. Qed.
Lemma kle_trans a b c : kle a b -> kle b c -> kle a c.
Proof. unfold kle. intros [H1|[H1 H1']] [H2|[H2 H2']]; [left|left|left|right]; lia. Qed.
Lemma kle_antisym a b : kle a b -> kle b a -> a = b.
Proof. unfold kle. destruct a, b; cbn. intros [H1|[H1 H1']] [H2|[H2 H2']]; try lia. f_equal; lia. Qed.

Lemma clean_cmp_lt_kle self a b : (clean_cmp self a b < 0)%Z -> ekle a b.
Proof.
  unfold clean_cmp, ekle, kle, key. cbn [fst snd].
  destruct (N.eqb_spec (e_paddr a) (e_paddr b)) as [Ea|Ea]; cbn [andb negb].
  - destruct (N.eqb_spec (e_pbits a) (e_pbits b)) as [Eb|Eb]; cbn [negb].
    + intros _. right. lia.
    + intros H. right. lia.
  - intros H. left. apply cmpN_spec in H. exact H.
Qed.

Lemma clean_cmp_ge_kle self a b : ~ (clean_cmp self a b < 0)%Z -> ekle b a.
Proof.
  unfold clean_cmp, ekle, kle, key. cbn [fst snd].
  destruct (N.eqb_spec (e_paddr a) (e_paddr b)) as [Ea|Ea]; cbn [andb negb].
  - destruct (N.eqb_spec (e_pbits a) (e_pbits b)) as [Eb|Eb]; cbn [negb].
    + intros _. right. lia.
    + intros H. right. lia.
  - intros H. left. assert (~ e_paddr a < e_paddr b) by (intros C; apply H; apply cmpN_spec; exact C). lia.
Qed.

Definition ksorted (l : list entry) : Prop := StronglySorted ekle l.

Lemma insert_by_ksorted self e l : ksorted l -> ksorted (insert_by (clean_cmp self) e l).
Proof.
  induction 1 as [|h t Hs IH Hall]; cbn [insert_by]; [repeat constructor|].
  destruct (Z.ltb_spec (clean_cmp self e h) 0) as [Hlt|Hge].
  - constructor; [constructor; assumption|]. constructor; [apply (clean_cmp_lt_kle self); exact Hlt|].
    rewrite Forall_forall in *. intros x Hx. eapply kle_trans; [apply (clean_cmp_lt_kle self e h Hlt)|apply Hall; exact Hx].
  - constructor; [exact IH|]. rewrite Forall_forall in *. intros x Hx. apply insert_by_in in Hx. destruct Hx as [<-|Hx].
    + apply (clean_cmp_ge_kle self). lia.
    + apply Hall. exact Hx.
Qed.

Lemma sort_by_ksorted self l : ksorted (sort_by (clean_cmp self) l).
Proof.
  unfold sort_by. assert (G : forall acc, ksorted acc -> ksorted (fold_left (fun a e => insert_by (clean_cmp self) e a) l acc)).
  { induction l as [|x l IH]; intros acc Ha; cbn [fold_left]; [exact Ha|]. apply IH. apply insert_by_ksorted. exact Ha. }
  apply G. constructor.
Qed.

(* ---------- trimming a bucket-sorted list ---------- *)
Definition keyb (pa pb : N) (e : entry) : bool := (e_paddr e =? pa) && (e_pbits e =? pb).

(* the limit the trim pass uses for a bucket: that of the first entry of the bucket *)
Fixpoint first_limit (cfg : list rprefix) (l : list entry) (pa pb : N) : nat :=
  match l with
  | [] => O
  | e :: t => if keyb pa pb e then (match rp_for cfg (e_dst e) with Some rp => rp_limit rp | None => O end)
              else first_limit cfg t pa pb
  end.

Lemma first_limit_none cfg l pa pb : (forall x, In x l -> keyb pa pb x = false) -> first_limit cfg l pa pb = O.
Proof.
  induction l as [|e t IH]; intros H; [reflexivity|]. cbn [first_limit]. rewrite (H e (or_introl eq_refl)).
  apply IH. intros x Hx. apply H. right. exact Hx.
Qed.

Lemma in_gp_keyb pa pb e : in_gp pa pb e = (e_source e =? src_gossip) && keyb pa pb e.
Proof. unfold in_gp, keyb. rewrite andb_assoc. reflexivity. Qed.

Lemma keyb_key pa pb e : keyb pa pb e = true <-> key e = (pa, pb).
Proof.
  unfold keyb, key. rewrite andb_true_iff, !N.eqb_eq. split; [intros [-> ->]; reflexivity|intros H; inversion H; auto].
Qed.

Lemma trim_bucket_bound cfg : forall l cur cm seen pa pb,
  ksorted l ->
  (forall c, cur = Some c -> forall x, In x l -> kle c (key x)) ->
  (cur = Some (pa, pb) -> (cnt (in_gp pa pb) (trim cfg l cur cm seen) <= cm - seen)%nat) /\
  (cur <> Some (pa, pb) -> (cnt (in_gp pa pb) (trim cfg l cur cm seen) <= first_limit cfg l pa pb)%nat).
Proof.
  induction l as [|e t IH]; intros cur cm seen pa pb Hs Hc; [cbn; split; intros _; lia|].
  inversion Hs as [|? ? Hs' Hall]; subst. rewrite Forall_forall in Hall.
  cbn [trim].
  set (same := match cur with Some (a, b) => (a =? e_paddr e) && (b =? e_pbits e) | None => false end).
  assert (Hsame : same = true <-> cur = Some (key e)).
  { unfold same, key. destruct cur as [[a b]|]; [|split; discriminate].
    rewrite andb_true_iff, !N.eqb_eq. split; [intros [-> ->]; reflexivity|intros H; inversion H; auto]. }
  (* the state handed to the rest of the list *)
  assert (Hc' : forall c, Some (e_paddr e, e_pbits e) = Some c -> forall x, In x t -> kle c (key x)).
  { intros c Ec x Hx. inversion Ec; subst. apply (Hall x Hx). }
  destruct same eqn:Es.
  - (* same bucket *)
    apply proj1 in Hsame. specialize (Hsame eq_refl).
    destruct (IH (Some (e_paddr e, e_pbits e)) cm (S seen) pa pb Hs' Hc') as [I1 I2].
    destruct (Nat.ltb cm (S seen) && (e_source e =? src_gossip)) eqn:Edrop.
    + (* dropped *)
      split; intros Hcur.
      * rewrite Hcur in Hsame. unfold key in Hsame. inversion Hsame; subst pa pb. specialize (I1 eq_refl). lia.
      * assert (Hne : Some (e_paddr e, e_pbits e) <> Some (pa, pb)) by (rewrite Hsame in Hcur; exact Hcur).
        specialize (I2 Hne). cbn [first_limit].
        replace (keyb pa pb e) with false; [exact I2|].
        symmetry. apply not_true_is_false. intros K. apply keyb_key in K. apply Hne. f_equal. exact K.
    + (* kept *)
      rewrite cnt_cons. split; intros Hcur.
      * rewrite Hcur in Hsame. unfold key in Hsame. inversion Hsame; subst pa pb. specialize (I1 eq_refl).
        rewrite in_gp_keyb. destruct (N.eqb_spec (e_source e) src_gossip) as [Sg|Sg]; cbn [andb]; [|lia].
        rewrite andb_true_r in Edrop. apply Nat.ltb_ge in Edrop. destruct (keyb _ _ e); lia.
      * assert (Hne : Some (e_paddr e, e_pbits e) <> Some (pa, pb)) by (rewrite Hsame in Hcur; exact Hcur).
        specialize (I2 Hne). cbn [first_limit].
        assert (Kf : keyb pa pb e = false).
        { apply not_true_is_false. intros K. apply keyb_key in K. apply Hne. f_equal. exact K. }
        rewrite in_gp_keyb, Kf, andb_false_r. lia.
  - (* a new bucket starts at e *)
    assert (Hnot : cur <> Some (key e)) by (intros C; apply Hsame in C; discriminate).
    set (lim := match rp_for cfg (e_dst e) with Some rp => rp_limit rp | None => O end).
    destruct (IH (Some (e_paddr e, e_pbits e)) lim 1%nat pa pb Hs' Hc') as [I1 I2].
    (* no later entry belongs to the bucket that just ended *)
    assert (Hpassed : cur = Some (pa, pb) -> forall x, In x t -> keyb pa pb x = false).
    { intros Hcur x Hx. apply not_true_is_false. intros K. apply keyb_key in K.
      pose proof (Hc (pa, pb) Hcur e (or_introl eq_refl)) as L1. pose proof (Hall x Hx) as L2. unfold ekle in L2. rewrite K in L2.
      apply Hnot. rewrite Hcur. f_equal. apply kle_antisym; assumption. }
    destruct (Nat.ltb lim 1 && (e_source e =? src_gossip)) eqn:Edrop.
    + split; intros Hcur.
      * assert (Hne : Some (e_paddr e, e_pbits e) <> Some (pa, pb)) by (intros C; apply Hnot; rewrite Hcur; unfold key; congruence).
        specialize (I2 Hne). rewrite (first_limit_none cfg t pa pb (Hpassed Hcur)) in I2. lia.
      * cbn [first_limit]. destruct (keyb pa pb e) eqn:K.
        -- apply keyb_key in K. unfold key in K. inversion K; subst pa pb. specialize (I1 eq_refl). fold lim. lia.
        -- assert (Hne : Some (e_paddr e, e_pbits e) <> Some (pa, pb)).
           { intros C. inversion C; subst. unfold keyb in K. rewrite !N.eqb_refl in K. discriminate. }
           exact (I2 Hne).
    + rewrite cnt_cons. split; intros Hcur.
      * assert (Hne : Some (e_paddr e, e_pbits e) <> Some (pa, pb)) by (intros C; apply Hnot; rewrite Hcur; unfold key; congruence).
        specialize (I2 Hne). rewrite (first_limit_none cfg t pa pb (Hpassed Hcur)) in I2.
        assert (Kf : keyb pa pb e = false).
        { apply not_true_is_false. intros K. apply keyb_key in K. apply Hne. f_equal. exact K. }
        rewrite in_gp_keyb, Kf, andb_false_r. lia.
      * cbn [first_limit]. destruct (keyb pa pb e) eqn:K.
        -- apply keyb_key in K. unfold key in K. inversion K; subst pa pb. specialize (I1 eq_refl). fold lim.
           rewrite in_gp_keyb. unfold keyb at 1. rewrite !N.eqb_refl, andb_true_r.
           destruct (N.eqb_spec (e_source e) src_gossip) as [Sg|Sg]; [|lia].
           rewrite andb_true_r in Edrop. apply Nat.ltb_ge in Edrop. lia.
        -- assert (Hne : Some (e_paddr e, e_pbits e) <> Some (pa, pb)).
           { intros C. inversion C; subst. unfold keyb in K. rewrite !N.eqb_refl in K. discriminate. }
           specialize (I2 Hne). rewrite in_gp_keyb, K, andb_false_r. lia.
Qed.

Lemma first_limit_in cfg l pa pb : (exists x, In x l /\ keyb pa pb x = true) ->
  exists x, In x l /\ keyb pa pb x = true /\ first_limit cfg l pa pb = lim_of cfg (e_dst x).
Proof.
  induction l as [|e t IH]; intros (x & Hx & Kx); [destruct Hx|]. cbn [first_limit].
  destruct (keyb pa pb e) eqn:K.
  - exists e. split; [left; reflexivity|]. split; [exact K|reflexivity].
  - destruct Hx as [->|Hx]; [rewrite K in Kx; discriminate|].
    destruct (IH (ex_intro _ x (conj Hx Kx))) as (y & Hy & Ky & Ly). exists y. split; [right; exact Hy|auto].
Qed.

(* After a cleanup, for every gossip route that is left, the gossip routes sharing its routing
   prefix number at most the limit configured for its destination. *)
Theorem clean_within_limit cfg self now t : cfg_ok cfg = true -> pinv cfg t ->
  forall e, In e (clean cfg self now t) -> e_source e = src_gossip ->
    (cnt (in_gp (e_paddr e) (e_pbits e)) (clean cfg self now t) <= lim_of cfg (e_dst e))%nat.
Proof.
  intros Hc Hp e He Hg. unfold clean in *.
  set (t1 := filter (fun e => negb (negb (e_source e =? src_peer) && (e_expires e <? now)%Z)) t) in *.
  set (l := sort_by (clean_cmp self) t1) in *.
  rewrite (cnt_perm _ _ _ (sort_by_perm std_cmp _)).
  apply sort_by_in in He.
  destruct (trim_bucket_bound cfg l None O O (e_paddr e) (e_pbits e) (sort_by_ksorted self t1)) as [_ B]; [intros c C; discriminate|].
  specialize (B ltac:(discriminate)).
  (* the first entry of e's bucket has e's limit *)
  assert (Hel : In e l) by (eapply trim_sub; exact He).
  destruct (first_limit_in cfg l (e_paddr e) (e_pbits e)) as (x & Hx & Kx & Lx).
  { exists e. split; [exact Hel|]. unfold keyb. rewrite !N.eqb_refl. reflexivity. }
  assert (Hsub : forall y, In y l -> In y t).
  { intros y Hy. unfold l in Hy. apply sort_by_in in Hy. unfold t1 in Hy. apply filter_In in Hy. tauto. }
  apply keyb_key in Kx. unfold key in Kx. assert (Ka : e_paddr x = e_paddr e) by congruence. assert (Kb : e_pbits x = e_pbits e) by congruence.
  rewrite Lx in B. rewrite (same_prefix_same_limit cfg t x e Hc Hp (Hsub x Hx) (Hsub e Hel) Ka Kb) in B. exact B.
Qed.

(* ... in particular for every table reachable by system-producible operations *)
Theorem reachable_clean_within_limit cfg self ops now : cfg_ok cfg = true -> Forall op_ok ops ->
  let t := clean cfg self now (fold_left (tstep cfg self) ops []) in
  forall e, In e t -> e_source e = src_gossip ->
    (cnt (in_gp (e_paddr e) (e_pbits e)) t <= lim_of cfg (e_dst e))%nat.
Proof.
  intros Hc Ho t e He Hg.
  destruct (history_pfull cfg self Hc ops [] (pfull_nil cfg) Ho) as (_ & Hp & _).
  exact (clean_within_limit cfg self now _ Hc Hp e He Hg).
Qed.

(* non-vacuity: five gossip destinations in one routing prefix with limit 2; a cleanup leaves two *)
Definition cl_cfg : list rprefix := [mkRp 0 0 16 0%Z 2].
Definition cl_ops : list top :=
  map (fun d => TAdd 1000 (d21_g d 11 (d - 90))) [100; 101; 102; 103; 104].
Example clean_nonvacuous : cfg_ok cl_cfg = true /\ Forall op_ok cl_ops /\
  cnt (in_gp 0 16) (fold_left (tstep cl_cfg 1) cl_ops []) = 5%nat /\
  cnt (in_gp 0 16) (clean cl_cfg 1 2000 (fold_left (tstep cl_cfg 1) cl_ops [])) = 2%nat.
Proof.
  split; [reflexivity|]. split; [|vm_compute; split; reflexivity].
  repeat constructor; cbn; try lia; try discriminate; intros H; try discriminate; try (exfalso; apply H; reflexivity).
Qed.
