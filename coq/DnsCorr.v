(* DnsCorr.v — correspondence for C19 (no proofs). *)
From Verif Require Import Prelude SeqCorr Dns.

(* cfg, queries: (questions, observed (code 0 reply / 3 panic-or-no-reply, rcode, answer address, source)) *)
Definition c19_q := (list (name * N * N) * (N * N * N * N))%type.
Definition c19_case := (dcfg * list c19_q)%type.
Definition c19_qok (c : dcfg) (q : c19_q) : bool :=
  let '(qs, (code, rc, ip, s)) := q in
  match handle_request c qs with
  | Ok (rc', ip', s') => (code =? 0) && (rc =? rc') && (ip =? ip') && (s =? s')
  | _ => code =? 3
  end.
Definition c19_ok (c : c19_case) : bool := let '(cf, qs) := c in forallb (c19_qok cf) qs.
