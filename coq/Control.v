(* Control.v — executable model of the router's control plane
   (router/ping.go: handlePing, parsePingMsg, sessionFromPingHeader; ping_hello.go (request
   side); ping_pong.go; ping_error.go; ping_disconnect.go; ping_announce.go: parseAnnouncePing,
   Handle incl. the forwarding selection).
   Cryptographic verdicts are inputs (DESIGN §3): [p_auth] says whether the frame's signature /
   MAC verifies under the key BOUND TO ITS SOURCE ADDRESS in the router's state (C02 proves that
   this means the key owner sealed exactly these covered bytes); for a hop record [r_sig_ok]
   says whether its signature verifies under the key bound to the signer's address, over the
   record as attached (fields + nested chain) with this announcement's context.  CBOR bodies
   are decoded structures. *)
From Verif Require Import Prelude SwitchLabel Table.

(* ---------- projected router state ---------- *)
Record cst := mkCst {
  c_known : list N;                    (* addresses with a stored record *)
  c_latest : list (N * Z);             (* per source: newest accepted signing timestamp *)
  c_keys : list (N * N);               (* per peer: id of the end-to-end key material (0 = none) *)
  c_mtu : list (N * N);
  c_routes : list entry;
  c_info : list (N * N);               (* stored public router info (id of the value) *)
  c_offline : list N;
  c_conn : list (N * N * N * N);       (* (remote address, protocol, remote port, status) of connection states *)
  c_fresh : N;                         (* next fresh key id *)
  c_errseen : list (N * N);            (* (source, error code) pairs inside the receive cooldown *)
  c_pending : list N                   (* routers this router has an own unfinished hello key setup with *)
}.

Fixpoint aget {V} (k : N) (l : list (N * V)) : option V :=
  match l with [] => None | (k', v) :: t => if k =? k' then Some v else aget k t end.
Fixpoint aset {V} (k : N) (v : V) (l : list (N * V)) : list (N * V) :=
  match l with
  | [] => [(k, v)]
  | (k', v') :: t => if k =? k' then (k, v) :: t else (k', v') :: aset k v t
  end.
Definition mem (k : N) (l : list N) : bool := existsb (N.eqb k) l.

(* what the property is about *)
Definition project (c : cst) := (c_keys c, c_mtu c, c_routes c, c_info c, c_offline c, c_conn c).

Definition upd (c : cst) known latest keys mtu routes info offline conn fresh errseen : cst :=
  mkCst known latest keys mtu routes info offline conn fresh errseen (c_pending c).
Definition set_pending (c : cst) (pd : list N) : cst :=
  mkCst (c_known c) (c_latest c) (c_keys c) (c_mtu c) (c_routes c) (c_info c) (c_offline c) (c_conn c) (c_fresh c) (c_errseen c) pd.

(* ---------- pings ---------- *)
Definition k_hello : N := 0.
Definition k_pong : N := 1.
Definition k_error : N := 2.
Definition k_disconnect : N := 3.
Definition k_announce : N := 4.

Record ping := mkPing {
  p_src : N;
  p_enc : bool;             (* encrypted class (RouterCtrl): its replay state is the encryption session's *)
  p_hop : bool;             (* message type is a hop ping (flooded) *)
  p_auth : bool;            (* verifies under the key bound to p_src (after first-contact admission) *)
  p_hdr_ok : bool;          (* the key in the ping header hashes to p_src (first contact) *)
  p_time : Z;               (* signing timestamp *)
  p_kind : N;
  p_code : N;
  p_follow : bool;
  (* decoded body fields, by kind *)
  p_mtu : N;                (* hello *)
  p_addr : N;               (* error: unreachable router / denied destination *)
  p_proto : N; p_port : N;  (* error: denied connection *)
  p_down : bool             (* disconnect: going down *)
}.

Definition zero_time : Z := (-62135596800000)%Z.

(* parsePingMsg: session (first contact: header key must hash to the source), Unseal
   (signature, then strictly newer timestamp; an exact duplicate of the newest is tolerated for
   hop pings only).  Returns the state with the admission / timestamp recorded. *)
Definition latest_key (p : ping) : N := if p_enc p then p_src p + 2 ^ 130 else p_src p.

(* returns the state after admission / timestamp bookkeeping and whether the ping passed *)
Definition gate (self : N) (c : cst) (p : ping) : cst * bool :=
  let admitted :=
    if mem (p_src p) (c_known c) then Some c
    else if p_hdr_ok p && negb (p_enc p)
    then Some (upd c (p_src p :: c_known c) (c_latest c) (c_keys c) (c_mtu c) (c_routes c) (c_info c) (c_offline c) (c_conn c) (c_fresh c) (c_errseen c))
    else None in
  match admitted with
  | None => (c, false)
  | Some c1 =>
    if negb (p_auth p) then (c1, false)
    else
      let last := match aget (latest_key p) (c_latest c1) with Some t => t | None => zero_time end in
      if (p_time p =? last)%Z then (c1, p_hop p)                                (* immediate duplicate *)
      else if (p_time p <? last)%Z then (c1, false)                             (* delayed frame *)
      else (upd c1 (c_known c1) (aset (latest_key p) (p_time p) (c_latest c1)) (c_keys c1) (c_mtu c1) (c_routes c1) (c_info c1) (c_offline c1) (c_conn c1) (c_fresh c1) (c_errseen c1), true)
  end.

Definition st_unreachable : N := 2.
Definition st_denied : N := 4.
Definition st_rejected : N := 5.

Definition err_seen (c : cst) (src code : N) : bool :=
  existsb (fun e => (fst e =? src) && (snd e =? code)) (c_errseen c).

(* handler effects on the projected state (pending-request bookkeeping, replies are not part
   of the projection) *)
Definition effect (self : N) (c : cst) (p : ping) : cst :=
  if p_kind p =? k_hello then
    if p_follow p then c            (* completion needs this router's own pending request: see HelloKx.v *)
    else if mem (p_src p) (c_pending c) && (self <? p_src p) then c   (* concurrent setups: the lower address keeps its own *)
    else set_pending (upd c (c_known c) (c_latest c) (aset (p_src p) (c_fresh c) (c_keys c))
               (if 0 <? p_mtu p then aset (p_src p) (if p_mtu p <? 1280 then 1280 else p_mtu p) (c_mtu c) else c_mtu c)
               (c_routes c) (c_info c) (c_offline c) (c_conn c) (c_fresh c + 1) (c_errseen c))
                     (filter (fun x => negb (x =? p_src p)) (c_pending c))
  else if p_kind p =? k_error then
    if err_seen c (p_src p) (p_code p) then c                                   (* inside the receive cooldown *)
    else
      let c := upd c (c_known c) (c_latest c) (c_keys c) (c_mtu c) (c_routes c) (c_info c) (c_offline c) (c_conn c) (c_fresh c) ((p_src p, p_code p) :: c_errseen c) in
      if p_code p =? 1 then
        upd c (c_known c) (c_latest c) (c_keys c) (c_mtu c) (c_routes c) (c_info c) (c_offline c)
            (map (fun e => let '(r, pr, po, s) := e in if r =? p_addr p then (r, pr, po, st_unreachable) else e) (c_conn c)) (c_fresh c) (c_errseen c)
      else if p_code p =? 2 then
        upd c (c_known c) (c_latest c) (aset (p_src p) 0 (c_keys c)) (c_mtu c) (c_routes c) (c_info c) (c_offline c) (c_conn c) (c_fresh c) (c_errseen c)
      else if (p_code p =? 3) || (p_code p =? 4) then
        upd c (c_known c) (c_latest c) (c_keys c) (c_mtu c) (c_routes c) (c_info c) (c_offline c)
            (map (fun e => let '(r, pr, po, s) := e in
                           if (r =? p_addr p) && (pr =? p_proto p) && (po =? p_port p)
                           then (r, pr, po, if p_code p =? 3 then st_denied else st_rejected) else e) (c_conn c)) (c_fresh c) (c_errseen c)
      else c
  else if p_kind p =? k_disconnect then
    upd c (c_known c) (c_latest c) (c_keys c) (c_mtu c) (remove_disconnected (c_routes c) (p_src p) [])
          (c_info c) (if p_down p && negb (mem (p_src p) (c_offline c)) then p_src p :: c_offline c else c_offline c)
          (c_conn c) (c_fresh c) (c_errseen c)
  else c.                              (* pong: nothing projected; announce: see handle_announce *)

Definition handle_ping (self : N) (c : cst) (p : ping) : cst :=
  let '(c1, ok) := gate self c p in
  if ok then effect self c1 p else c1.

(* ---------- announcements ---------- *)
Record arec := mkRec {
  r_signer : N; r_delay : N; r_fl : N; r_rl : N;
  r_sig_ok : bool;        (* verifies under the key bound to r_signer over (fields, nested chain, context) *)
  r_known : bool;         (* r_signer has a stored record *)
  r_id_ok : bool          (* the attached identity is self-certifying *)
}.

Record ann := mkAnn {
  a_origin : N;
  a_chain : list arec;    (* outermost (last forwarder) first *)
  a_retlabel : N; a_stub : bool; a_expires : Z; a_info : N;
  a_dst_all : bool        (* addressed to all routers *)
}.

Inductive pverdict := PHops (hops : list hop) | PLooping | PReject.

(* parseAnnouncePing: peel at most 99 layers *)
Fixpoint parse_chain (self : N) (ch : list arec) (layer : nat) : pverdict :=
  match ch with
  | [] => PHops []
  | r :: t =>
    if Nat.leb 100 layer then PReject
    else if r_signer r =? self then PLooping
    else if negb (r_known r || r_id_ok r) then PReject
    else if negb (r_sig_ok r) then PReject
    else match parse_chain self t (S layer) with
         | PHops hs => PHops (mkHop (r_signer r) (r_delay r) (r_fl r) (r_rl r) :: hs)
         | v => v
         end
  end.

(* a link of this router: (peer address, switch label, latency, lite) *)
Definition lnk := (N * N * N * bool)%type.

(* Handle: returns (new table, route added, peers to forward to); None = rejected / ignored *)
Definition handle_announce (cfg : list rprefix) (self : N) (self_lite self_stub : bool) (now : Z)
           (t : list entry) (links : list lnk) (recv : lnk) (a : ann)
  : option (list entry * bool * list N) :=
  let '(peer, label, latency, _) := recv in
  match parse_chain self (a_chain a) 1 with
  | PHops hops =>
    if (match hops with [] => negb (a_origin a =? peer) | h :: _ => negb (h_router h =? peer) end) then None
    else
      let path := mkHop self latency label 0 :: hops ++ [mkHop (a_origin a) 0 0 (a_retlabel a)] in
      let e := mkEntry (a_origin a) 0 0 peer path (a_stub a)
                       (match hops with [] => src_peer | _ => src_gossip end)
                       (match hops with [] => 0%Z | _ => a_expires a end) 0 0 in
      match add_route cfg now t e with
      | Ok (t', true) =>
        if self_stub then Some (t', true, [])
        else
          let targets := if a_dst_all a then links else [] in
          Some (t', true,
                map (fun l => fst (fst (fst l)))
                    (filter (fun l => let '(lp, _, _, llite) := l in
                                      negb (llite && negb self_lite) && negb (lp =? a_origin a) && negb (lp =? peer) &&
                                      negb (existsb (fun h => h_router h =? lp) hops)) targets))
      | Ok (t', false) => Some (t', false, [])
      | Err _ =>
        (* AddRoute reported an error: logged, and the announcement is still forwarded *)
        if self_stub then Some (t, false, [])
        else
          let targets := if a_dst_all a then links else [] in
          Some (t, false,
                map (fun l => fst (fst (fst l)))
                    (filter (fun l => let '(lp, _, _, llite) := l in
                                      negb (llite && negb self_lite) && negb (lp =? a_origin a) && negb (lp =? peer) &&
                                      negb (existsb (fun h => h_router h =? lp) hops)) targets))
      | Panic => None
      end
  | _ => None
  end.

(* the whole path of an announcement ping: gate (admission, origin signature, timestamp; an
   exact duplicate of the newest is let through because announcements are hop pings), then the
   handler on the routes of the state *)
Definition announce_ping (cfg : list rprefix) (self : N) (self_lite self_stub : bool) (now : Z)
           (c : cst) (links : list lnk) (recv : lnk) (p : ping) (a : ann)
  : option (list entry * bool * list N) :=
  let '(c1, ok) := gate self c p in
  if ok then handle_announce cfg self self_lite self_stub now (c_routes c1) links recv a else None.

Definition is_looping (self : N) (a : ann) : bool :=
  match parse_chain self (a_chain a) 1 with PLooping => true | _ => false end.
