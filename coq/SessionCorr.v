(* SessionCorr.v — correspondence for C15 (no proofs). *)
From Verif Require Import Prelude Gen Seq SeqCorr Session.

Definition sq_eqb (a b : sq) : bool := (q_hi a =? q_hi b) && (q_bm a =? q_bm b) && (q_out a =? q_out b).
Definition ep_eqb (a b : ep) : bool :=
  sq_eqb (e_regl a) (e_regl b) && sq_eqb (e_prio a) (e_prio b) && Nat.eqb (e_oute a) (e_oute b) && Nat.eqb (e_ine a) (e_ine b).

(* one endpoint: start state, steps (op, observed (code 0 ok / 1 error, seq, epoch), state after) *)
Definition c15_step := (sop * (N * N * nat) * ep)%type.
Fixpoint run_c15 (e : ep) (l : list c15_step) : bool :=
  match l with
  | [] => true
  | (SOut p, (code, s, k), post) :: t =>
    let '(e', r) := out_ e p in
    (match r with
     | Ok (s', k') => (code =? 0) && (s =? s') && Nat.eqb k k'
     | _ => code =? 1
     end) && ep_eqb e' post && run_c15 post t
  | (SIn sq p fe, (code, _, k), post) :: t =>
    let '(e', r) := in_ e sq p in
    (match r with
     | Ok k' => (code =? 0) && Nat.eqb k k'
     | _ => code =? 1
     end) && ep_eqb e' post && run_c15 post t
  end.
Definition c15_case := (ep * list c15_step)%type.
Definition c15_ok (c : c15_case) : bool := let '(e, l) := c in run_c15 e l.

(* receiver side of a delivery history: (frame key epoch, seq, prio, observed verdict, state after) *)
Definition c15_h := (nat * N * bool * bool * ep)%type.
Fixpoint run_c15h (e : ep) (l : list c15_h) : bool :=
  match l with
  | [] => true
  | (fe, s, p, ok, post) :: t =>
    let '(e', v) := unseal_at e fe s p in
    Bool.eqb v ok && ep_eqb e' post && run_c15h post t
  end.
Definition c15_hcase := (ep * list c15_h)%type.
Definition c15_hok (c : c15_hcase) : bool := let '(e, l) := c in run_c15h e l.
