(* Policy.v — executable model of the traffic policy:
   config.Store.parse (services -> inbound policy keys; friends; "for" lists),
   config.getInfoFromURL (scheme table generated into Gen.v), CheckInboundTrafficPolicy,
   router.handleIncomingTraffic / checkPolicy (connection cache) and the admission part of
   router.handleTunPacket / outboundAllowedTo.  Addresses are 128-bit numbers. *)
From Verif Require Import Prelude Gen.

(* ---------- configuration as decoded by the parser ---------- *)
Record svc := mkSvc {
  s_scheme : N;                 (* index into Gen.scheme_table; unknown schemes are not in it *)
  s_port : option N;            (* explicit port in the URL *)
  s_public : bool;
  s_friends : bool;
  s_for : list (bool * N)       (* (true, friend name) | (false, address) *)
}.
Record cfg := mkCfg {
  c_friends : list (N * N);     (* (name, address), in configuration order *)
  c_services : list svc;
  c_isolate : bool;
  c_self : N
}.

Fixpoint assoc (k : N) (l : list (N * (list N * Z))) : option (list N * Z) :=
  match l with [] => None | (k', v) :: t => if k =? k' then Some v else assoc k t end.
Definition scheme_info (sch : N) : option (list N * Z) := assoc sch Gen.scheme_table.

(* getInfoFromURL: port := scheme default; an explicit port overrides it unless the default
   is 0 (icmp6/ping6); no port at all is an error *)
Definition eff_port (dflt : Z) (explicit : option N) : option N :=
  if (dflt =? 0)%Z then Some 0
  else match explicit with
       | Some p => if p <? 65536 then Some p else None          (* the port is parsed as a 16-bit number *)
       | None => if (dflt <? 0)%Z then None else Some (Z.to_N dflt)
       end.

(* FriendsByName is a map filled in order: the last friend with a name wins *)
Fixpoint friend_by_name (fr : list (N * N)) (name : N) (acc : option N) : option N :=
  match fr with
  | [] => acc
  | (n, ip) :: t => friend_by_name t name (if n =? name then Some ip else acc)
  end.

Definition in_prefix (ip : N) (bits : N) (value : N) : bool := N.shiftr ip (128 - bits) =? value.
Definition in_fd00_8 (ip : N) : bool := in_prefix ip 8 253.           (* fd00::/8 *)
Definition in_routing (ip : N) : bool := in_prefix ip 9 506.          (* fd00::/9 *)
Definition in_internal (ip : N) : bool := in_prefix ip 112 (253 * 2 ^ 104).   (* fd00::/112 *)
Definition in_multicast (ip : N) : bool := in_prefix ip 12 4080.      (* ff00::/12 *)

Definition resolve_for (fr : list (N * N)) (e : bool * N) : option N :=
  if fst e then friend_by_name fr (snd e) None
  else if in_routing (snd e) then Some (snd e) else None.

Fixpoint map_opt {A B} (f : A -> option B) (l : list A) : option (list B) :=
  match l with
  | [] => Some []
  | x :: t => match f x, map_opt f t with Some y, Some r => Some (y :: r) | _, _ => None end
  end.

(* ---------- compiled inbound policy ---------- *)
Definition rule := option (list N).            (* None = public, Some l = allowed sources *)
Definition policy := list ((N * N) * rule).    (* key = (protocol, port) *)

Definition key_eqb (a b : N * N) : bool := (fst a =? fst b) && (snd a =? snd b).
Fixpoint lookup_key (k : N * N) (p : policy) : option rule :=
  match p with [] => None | (k', r) :: t => if key_eqb k k' then Some r else lookup_key k t end.

Fixpoint add_keys (p : policy) (protos : list N) (port : N) (r : rule) : res policy :=
  match protos with
  | [] => Ok p
  | pr :: t =>
    match lookup_key (pr, port) p with
    | Some _ => Err 5                                       (* duplicate policy for protocol-port *)
    | None => add_keys (p ++ [((pr, port), r)]) t port r
    end
  end.

Definition svc_rule (fr : list (N * N)) (s : svc) (forips : list N) : rule :=
  if s_public s then None
  else Some ((if s_friends s then map snd fr else []) ++ forips).

Definition compile_svc (fr : list (N * N)) (p : policy) (s : svc) : res policy :=
  if negb (s_public s) && negb (s_friends s) && (match s_for s with [] => true | _ => false end) then Err 1
  else match map_opt (resolve_for fr) (s_for s) with
  | None => Err 2
  | Some forips =>
    match scheme_info (s_scheme s) with
    | None => Err 3
    | Some (protos, dflt) =>
      match eff_port dflt (s_port s) with
      | None => Err 4
      | Some port =>
        if s_public s && (s_friends s || (match s_for s with [] => false | _ => true end)) then Err 6
        else add_keys p protos port (svc_rule fr s forips)
      end
    end
  end.

Fixpoint compile_from (fr : list (N * N)) (p : policy) (l : list svc) : res policy :=
  match l with
  | [] => Ok p
  | s :: t => do p' <- compile_svc fr p s; compile_from fr p' t
  end.
Definition compile (c : cfg) : res policy := compile_from (c_friends c) [] (c_services c).

(* CheckInboundTrafficPolicy: default deny *)
Definition check_in (p : policy) (proto port src : N) : bool :=
  match lookup_key (proto, port) p with
  | None => false
  | Some None => true
  | Some (Some l) => existsb (N.eqb src) l
  end.

(* ---------- the declarative specification (what the property says) ---------- *)
Definition access_ok (fr : list (N * N)) (s : svc) (sender : N) : Prop :=
  s_public s = true \/
  (s_friends s = true /\ In sender (map snd fr)) \/
  (exists e, In e (s_for s) /\ resolve_for fr e = Some sender).

Definition svc_key (s : svc) (proto port : N) : Prop :=
  exists protos dflt, scheme_info (s_scheme s) = Some (protos, dflt) /\ In proto protos /\
                      eff_port dflt (s_port s) = Some port.

Definition admits (c : cfg) (proto port sender : N) : Prop :=
  exists s, In s (c_services c) /\ svc_key s proto port /\ access_ok (c_friends c) s sender.

(* ---------- packets and the router's decisions ---------- *)
Record pkt := mkPkt { p_ver : N; p_len : nat; p_src : N; p_dst : N; p_proto : N; p_sport : N; p_dport : N }.
Definition has_ports (proto : N) : bool := (proto =? 6) || (proto =? 17).
Definition sport_of (k : pkt) : N := if has_ports (p_proto k) then p_sport k else 0.
Definition dport_of (k : pkt) : N := if has_ports (p_proto k) then p_dport k else 0.

(* connection cache: (local, remote, proto, local port, remote port) -> (inbound flag, status) *)
Definition ckey := (N * N * N * N * N)%type.
Definition ckey_eqb (a b : ckey) : bool :=
  let '(a1, a2, a3, a4, a5) := a in let '(b1, b2, b3, b4, b5) := b in
  (a1 =? b1) && (a2 =? b2) && (a3 =? b3) && (a4 =? b4) && (a5 =? b5).
Definition st_allowed : N := 1.
Definition st_prohibited : N := 3.
Definition st_denied : N := 4.
Definition cache := list (ckey * (bool * N)).
Fixpoint cache_get (k : ckey) (c : cache) : option (bool * N) :=
  match c with [] => None | (k', v) :: t => if ckey_eqb k k' then Some v else cache_get k t end.

(* checkPolicy *)
Definition check_policy (c : cfg) (pol : policy) (ch : cache) (inbound : bool) (k : ckey) : N * cache :=
  match cache_get k ch with
  | Some (_, st) => (st, ch)
  | None =>
    let '(loc, rem, proto, lport, rport) := k in
    let st := if inbound
              then (if check_in pol proto lport rem then st_allowed else st_denied)
              else (if negb (c_isolate c) || existsb (N.eqb rem) (map snd (c_friends c)) then st_allowed else st_prohibited) in
    (st, (k, (inbound, st)) :: ch)
  end.

Inductive verdict := Deliver | Drop.
Definition verdict_eqb (a b : verdict) : bool := match a, b with Deliver, Deliver => true | Drop, Drop => true | _, _ => false end.

(* handleIncomingTraffic, for a frame addressed to this router; [unsealed] = the frame
   unsealed under the session of its source (C02/C03) *)
Definition inbound (c : cfg) (pol : policy) (ch : cache) (handle unsealed : bool) (fsrc fdst : N) (k : pkt)
  : verdict * cache :=
  if negb unsealed then (Drop, ch)
  else if Nat.ltb (p_len k) 44 then (Drop, ch)
  else if negb handle then (Drop, ch)
  else if negb (p_src k =? fsrc) then (Drop, ch)
  else if negb (p_dst k =? fdst) then (Drop, ch)
  else if in_internal fdst then (Drop, ch)
  else
    let '(st, ch') := check_policy c pol ch true (p_dst k, p_src k, p_proto k, dport_of k, sport_of k) in
    (if st =? st_allowed then Deliver else Drop, ch').

(* handleTunPacket up to the point where the packet is admitted to the mesh (key setup and
   sealing follow); api = the local API address, handled by the netstack *)
Definition outbound (c : cfg) (pol : policy) (ch : cache) (handle : bool) (api : N) (k : pkt) : verdict * cache :=
  if Nat.eqb (p_len k) 0 then (Drop, ch)
  else if negb (p_ver k =? 6) then (Drop, ch)
  else if Nat.ltb (p_len k) 44 then (Drop, ch)
  else if p_dst k =? api then (Drop, ch)
  else if negb handle then (Drop, ch)
  else if in_multicast (p_dst k) then (Drop, ch)
  else if negb (in_fd00_8 (p_dst k)) then (Drop, ch)
  else if negb (p_src k =? c_self c) then (Drop, ch)
  else
    let '(st, ch') := check_policy c pol ch false (p_src k, p_dst k, p_proto k, sport_of k, dport_of k) in
    (if st =? st_allowed then Deliver else Drop, ch').

(* ---------- error pings re-mark cached connection states (router/connections.go: markRouter,
   markConnectionDst) ---------- *)
Definition mark_router (ch : cache) (remote st : N) : cache :=
  map (fun e => let '((loc, rem, proto, lport, rport), (inb, s)) := e in
                if rem =? remote then ((loc, rem, proto, lport, rport), (inb, st)) else e) ch.
Definition mark_conn (ch : cache) (dst proto port st : N) : cache :=
  map (fun e => let '((loc, rem, pr, lport, rport), (inb, s)) := e in
                if (rem =? dst) && (pr =? proto) && (rport =? port) then ((loc, rem, pr, lport, rport), (inb, st)) else e) ch.

(* Time passes without traffic on any cached connection and the periodic cleaner runs
   (cleanConnStates): a short pause (more than 10 s, less than 10 min) forgets only the
   short-lived ICMP/ICMPv6 entries, a long one (more than 10 min) forgets everything.  Nothing
   else changes: in particular no status is ever re-opened by the passage of time. *)
Definition short_lived (k : ckey) : bool := let '(_, _, proto, _, _) := k in (proto =? 1) || (proto =? 58).
Definition age_cache (ch : cache) (long : bool) : cache :=
  if long then [] else filter (fun e => negb (short_lived (fst e))) ch.

(* a history on one router: inbound frames, outbound packets, and re-markings by error pings *)
Inductive hstep :=
| HIn (unsealed : bool) (fsrc fdst : N) (k : pkt)
| HOut (k : pkt)
| HMarkRouter (remote st : N)
| HMarkConn (dst proto port st : N)
| HAge (long : bool)
| HPing (remote : N).

Definition hstep_run (c : cfg) (pol : policy) (handle : bool) (api : N) (ch : cache) (s : hstep) : option verdict * cache :=
  match s with
  | HIn u fs fd k => let '(v, ch') := inbound c pol ch handle u fs fd k in (Some v, ch')
  | HOut k => let '(v, ch') := outbound c pol ch handle api k in (Some v, ch')
  | HMarkRouter r st => (None, mark_router ch r st)
  | HMarkConn d p o st => (None, mark_conn ch d p o st)
  | HAge long => (None, age_cache ch long)
  | HPing _ => (None, ch)        (* an authentic ping of any other kind (pong, hello, announce) from [remote]:
                                    connection states are not touched *)
  end.
