(* TableProofs.v — lemmas about Table.v (C11). *)
From Verif Require Import Prelude SwitchLabel Table.

(* ---------- sorting only permutes ---------- *)
Lemma insert_by_in cmp e l x : In x (insert_by cmp e l) <-> e = x \/ In x l.
Proof.
  induction l as [|h t IH]; cbn [insert_by In]; [tauto|].
  destruct (cmp e h <? 0)%Z; cbn [In]; [tauto|]. rewrite IH. tauto.
Qed.

Lemma sort_by_in_gen cmp l : forall acc x,
  In x (fold_left (fun a e => insert_by cmp e a) l acc) <-> In x l \/ In x acc.
Proof.
  induction l as [|h t IH]; intros acc x; cbn [fold_left In]; [tauto|].
  rewrite IH, insert_by_in. tauto.
Qed.

Lemma sort_by_in cmp l x : In x (sort_by cmp l) <-> In x l.
Proof. unfold sort_by. rewrite sort_by_in_gen. cbn [In]. tauto. Qed.

Lemma insert_by_length cmp e l : length (insert_by cmp e l) = S (length l).
Proof. induction l as [|h t IH]; cbn [insert_by length]; [reflexivity|]. destruct (cmp e h <? 0)%Z; cbn [length]; [reflexivity|]. rewrite IH. reflexivity. Qed.

Lemma sort_by_length_gen cmp l : forall acc, length (fold_left (fun a e => insert_by cmp e a) l acc) = (length l + length acc)%nat.
Proof. induction l as [|h t IH]; intros acc; cbn [fold_left length]; [reflexivity|]. rewrite IH, insert_by_length. lia. Qed.

Lemma sort_by_length cmp l : length (sort_by cmp l) = length l.
Proof. unfold sort_by. rewrite sort_by_length_gen. cbn [length]. lia. Qed.

(* ---------- removals ---------- *)
Theorem remove_next_hop_spec t ip e :
  In e (remove_next_hop t ip) <-> In e t /\ e_nexthop e <> ip.
Proof.
  unfold remove_next_hop. rewrite filter_In. rewrite negb_true_iff, N.eqb_neq. tauto.
Qed.

Theorem remove_disconnected_all_spec t router e :
  In e (remove_disconnected t router []) <->
  In e t /\ e_dst e <> router /\ e_nexthop e <> router /\ ~ In router (map h_router (e_path e)).
Proof.
  unfold remove_disconnected. rewrite filter_In, negb_true_iff, !orb_false_iff, !N.eqb_neq.
  assert (H : existsb (fun h => h_router h =? router) (e_path e) = false <-> ~ In router (map h_router (e_path e))).
  { split.
    - intros Hf Hin. apply in_map_iff in Hin as (h & Hh & Hin).
      assert (Ht : existsb (fun h => h_router h =? router) (e_path e) = true) by (apply existsb_exists; exists h; split; [exact Hin|apply N.eqb_eq; exact Hh]).
      congruence.
    - intros Hn. destruct (existsb (fun h => h_router h =? router) (e_path e)) eqn:Hx; [|reflexivity].
      apply existsb_exists in Hx as (h & Hin & Hh). apply N.eqb_eq in Hh. exfalso. apply Hn. apply in_map_iff. exists h. split; assumption. }
  rewrite H. tauto.
Qed.

(* removal of specific links never removes more than routes through the router *)
Theorem remove_disconnected_sub t router disc e : In e (remove_disconnected t router disc) -> In e t.
Proof. unfold remove_disconnected. rewrite filter_In. tauto. Qed.

(* ---------- Clean ---------- *)
Lemma trim_sub cfg l : forall cur cm seen e, In e (trim cfg l cur cm seen) -> In e l.
Proof.
  induction l as [|h t IH]; intros cur cm seen e; cbn [trim]; [tauto|].
  destruct (match cur with Some (pa, pb) => (pa =? e_paddr h) && (pb =? e_pbits h) | None => false end);
    [|destruct (rp_for cfg (e_dst h))];
    match goal with |- context [Nat.ltb ?a ?b && ?c] => destruct (Nat.ltb a b && c) end;
    cbn [In]; intros H; try (right; eapply IH; exact H); destruct H as [<-|H]; try (left; reflexivity); right; eapply IH; exact H.
Qed.

(* trimming never drops a non-gossip route *)
Lemma trim_keeps_nongossip cfg l : forall cur cm seen e,
  In e l -> e_source e <> src_gossip -> In e (trim cfg l cur cm seen).
Proof.
  induction l as [|h t IH]; intros cur cm seen e Hin Hs; cbn [trim]; [destruct Hin|].
  destruct Hin as [<-|Hin].
  - assert (Hg : (e_source h =? src_gossip) = false) by (apply N.eqb_neq; exact Hs).
    destruct (match cur with Some (pa, pb) => (pa =? e_paddr h) && (pb =? e_pbits h) | None => false end);
      [|destruct (rp_for cfg (e_dst h))]; rewrite Hg, !andb_false_r; left; reflexivity.
  - destruct (match cur with Some (pa, pb) => (pa =? e_paddr h) && (pb =? e_pbits h) | None => false end);
      [|destruct (rp_for cfg (e_dst h))];
      match goal with |- context [Nat.ltb ?a ?b && ?c] => destruct (Nat.ltb a b && c) end;
      try (right); apply IH; assumption.
Qed.

Theorem clean_sub cfg self now t e : In e (clean cfg self now t) -> In e t.
Proof.
  unfold clean. rewrite sort_by_in. intros H. apply trim_sub in H. apply sort_by_in in H.
  apply filter_In in H. tauto.
Qed.

(* no expired route survives a cleanup *)
Theorem clean_no_expired cfg self now t e :
  In e (clean cfg self now t) -> e_source e = src_peer \/ (now <= e_expires e)%Z.
Proof.
  unfold clean. rewrite sort_by_in. intros H. apply trim_sub in H. apply sort_by_in in H.
  apply filter_In in H as [_ H]. apply negb_true_iff, andb_false_iff in H as [H|H].
  - left. apply negb_false_iff, N.eqb_eq in H. exact H.
  - right. apply Z.ltb_ge in H. exact H.
Qed.

(* a cleanup never removes a direct-peer route (nor any non-gossip route that has not expired) *)
Theorem clean_keeps_peers cfg self now t e :
  In e t -> e_source e = src_peer -> In e (clean cfg self now t).
Proof.
  intros Hin Hs. unfold clean. apply sort_by_in. apply trim_keeps_nongossip.
  - apply sort_by_in. apply filter_In. split; [exact Hin|]. rewrite Hs. reflexivity.
  - rewrite Hs. discriminate.
Qed.

(* ---------- AddRoute: 'added' means present, 'not added' means unchanged ---------- *)
Lemma insert_at_in {A} (l : list A) i x y : In y (insert_at l i x) <-> x = y \/ In y l.
Proof.
  unfold insert_at. rewrite in_app_iff. cbn [In]. rewrite <- (firstn_skipn i l) at 3. rewrite in_app_iff.
  split; intros H; intuition (subst; auto).
Qed.

Lemma replace_at_in_new {A} (l : list A) i x : In x (replace_at l i x).
Proof. unfold replace_at. apply in_app_iff. right. left. reflexivity. Qed.

Lemma skipn_skipn' {A} (l : list A) : forall a b, skipn a (skipn b l) = skipn (a + b) l.
Proof.
  intros a b. revert l. induction b as [|b IH]; intros l; [rewrite Nat.add_0_r; reflexivity|].
  destruct l as [|h t]; [rewrite !skipn_nil; reflexivity|].
  replace (a + S b)%nat with (S (a + b)) by lia. cbn [skipn]. apply IH.
Qed.

Lemma sort_section_in t s e x : (s <= e)%nat -> (In x (sort_section t s e) <-> In x t).
Proof.
  intros Hle. unfold sort_section. rewrite !in_app_iff, sort_by_in.
  rewrite <- (firstn_skipn s t) at 4. rewrite in_app_iff.
  rewrite <- (firstn_skipn (e - s) (skipn s t)) at 2. rewrite in_app_iff.
  rewrite skipn_skipn'. replace (e - s + s)%nat with e by lia. tauto.
Qed.

(* the entry as the table stores it *)
Definition same_route (a b : entry) : Prop :=
  e_dst a = e_dst b /\ e_nexthop a = e_nexthop b /\ e_path a = e_path b /\ e_source a = e_source b /\ e_stub a = e_stub b.

Theorem add_route_added cfg now t e0 t' :
  add_route cfg now t e0 = Ok (t', true) -> exists e, In e t' /\ same_route e e0.
Proof.
  unfold add_route. destruct (rp_for cfg (e_dst e0)) as [rp|]; [|discriminate].
  destruct (if 0 <? rp_rbits rp then _ else _) as [pa pb].
  repeat match goal with |- context [if ?b then Err _ else _] => destruct b; [discriminate|] end.
  match goal with |- context [match ?c with Ok _ => _ | Err _ => _ | Panic => _ end] => destruct c as [exp2|?|] end; try discriminate.
  destruct (build_blocks (labels_of (e_path e0))); try discriminate.
  set (e := mkEntry (e_dst e0) pa pb (e_nexthop e0) (e_path e0) (e_stub e0) (e_source e0) exp2 (calc_thops (e_path e0)) (calc_tdelay (e_path e0) (e_tdelay e0))).
  assert (Hsame : same_route e e0) by (unfold same_route, e; cbn; repeat split).
  destruct (dst_section t (e_dst e)) as [s en] eqn:Hsec.
  destruct (Nat.leb en s) eqn:Hle.
  - match goal with |- context [if ?b then Ok (t, false) else _] => destruct b end; intros H; inversion H; subst.
    exists e. split; [apply insert_at_in; left; reflexivity|exact Hsame].
  - apply Nat.leb_gt in Hle.
    match goal with |- context [if ?b then Ok (t, false) else _] => destruct b end; [intros H; discriminate H|].
    match goal with |- context [match ?f with Some _ => _ | None => _ end] => destruct f as [i|] end.
    + intros H; inversion H; subst. exists e. split; [|exact Hsame].
      apply sort_section_in; [lia|]. apply replace_at_in_new.
    + destruct (Nat.ltb (en - s) 3 || (e_source e =? src_peer)).
      * intros H; inversion H; subst. exists e. split; [apply insert_at_in; left; reflexivity|exact Hsame].
      * destruct (nth_error t (s + 2)) as [third|]; [|discriminate].
        destruct (std_cmp e third <? 0)%Z; intros H; inversion H; subst.
        exists e. split; [|exact Hsame]. apply sort_section_in; [lia|]. apply replace_at_in_new.
Qed.

Theorem add_route_not_added cfg now t e0 t' :
  add_route cfg now t e0 = Ok (t', false) -> t' = t.
Proof.
  unfold add_route. destruct (rp_for cfg (e_dst e0)) as [rp|]; [|discriminate].
  destruct (if 0 <? rp_rbits rp then _ else _) as [pa pb].
  repeat match goal with |- context [if ?b then Err _ else _] => destruct b; [discriminate|] end.
  match goal with |- context [match ?c with Ok _ => _ | Err _ => _ | Panic => _ end] => destruct c as [exp2|?|] end; try discriminate.
  destruct (build_blocks (labels_of (e_path e0))); try discriminate.
  match goal with |- context [dst_section t ?d] => destruct (dst_section t d) as [s en] end.
  destruct (Nat.leb en s).
  - match goal with |- context [if ?b then Ok (t, false) else _] => destruct b end; intros H; inversion H; reflexivity.
  - match goal with |- context [if ?b then Ok (t, false) else _] => destruct b end; [intros H; inversion H; reflexivity|].
    match goal with |- context [match ?f with Some _ => _ | None => _ end] => destruct f as [i|] end; [intros H; inversion H|].
    match goal with |- context [if ?b then Ok (insert_at _ _ _, true) else _] => destruct b end; [intros H; inversion H|].
    destruct (nth_error t (s + 2)) as [third|]; [|discriminate].
    match goal with |- context [if ?b then _ else Ok (t, false)] => destruct b end; intros H; inversion H; reflexivity.
Qed.

(* an operation that reports an error leaves the table as it was (tstep keeps t) *)
Theorem add_route_error_unchanged cfg self now t e0 c :
  add_route cfg now t e0 = Err c -> tstep cfg self t (TAdd now e0) = t.
Proof. intros H. cbn [tstep]. rewrite H. reflexivity. Qed.
