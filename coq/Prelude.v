(* Prelude: shared modelling conventions (DESIGN §3).
   Bytes are N (<256), machine integers are N with the wrap written out,
   Go slices/panics are modelled in the [res] monad. *)
From Coq Require Export List NArith ZArith Bool Lia Sorted.
From Coq Require Export ZifyBool ZifyNat ZifyN.
Export ListNotations.
Open Scope N_scope.

Ltac Zify.zify_post_hook ::= Z.div_mod_to_equations.

(* ---------- result monad: Ok / Err (an error value the Go code returns) / Panic ---------- *)
Inductive res (A : Type) : Type :=
| Ok (a : A)
| Err (e : N)
| Panic.
Arguments Ok {A} a.
Arguments Err {A} e.
Arguments Panic {A}.

Definition bind {A B} (r : res A) (f : A -> res B) : res B :=
  match r with Ok a => f a | Err e => Err e | Panic => Panic end.
Notation "'do' x <- r ; k" := (bind r (fun x => k)) (at level 200, x name, r at level 100, k at level 200).

Definition is_ok {A} (r : res A) : bool := match r with Ok _ => true | _ => false end.
Definition is_panic {A} (r : res A) : bool := match r with Panic => true | _ => false end.

(* ---------- fixed-width helpers (kept opaque to [simpl]) ---------- *)
Definition pow2 (k : N) : N := 2 ^ k.
Definition trunc (w : N) (x : N) : N := x mod (pow2 w).
Definition trunc8 := trunc 8.
Definition trunc16 := trunc 16.
Definition trunc32 := trunc 32.
Definition trunc64 := trunc 64.
Definition onebit (k : N) : N := N.shiftl 1 k.
Definition shl (x d : N) : N := N.shiftl x d.

Lemma onebit_spec k j : N.testbit (onebit k) j = (k =? j).
Proof. unfold onebit. rewrite N.shiftl_1_l. apply N.pow2_bits_eqb. Qed.

Lemma trunc_spec w x k : N.testbit (trunc w x) k = if k <? w then N.testbit x k else false.
Proof.
  unfold trunc, pow2. destruct (N.ltb_spec k w) as [H|H].
  - apply N.mod_pow2_bits_low; exact H.
  - apply N.mod_pow2_bits_high; exact H.
Qed.

Lemma trunc_lt w x : trunc w x < 2 ^ w.
Proof. unfold trunc, pow2. apply N.mod_lt. apply N.pow_nonzero. discriminate. Qed.

Lemma shl_spec x d k : N.testbit (shl x d) k = if k <? d then false else N.testbit x (k - d).
Proof.
  unfold shl. destruct (N.ltb_spec k d) as [H|H].
  - apply N.shiftl_spec_low; exact H.
  - apply N.shiftl_spec_high'; exact H.
Qed.

Global Opaque pow2 onebit shl.
Arguments trunc : simpl never.

Definition wf_byte (b : N) : Prop := b < 256.
Definition wf_bytes (l : list N) : Prop := Forall wf_byte l.
Definition wf_byteb (b : N) : bool := b <? 256.
Definition wf_bytesb (l : list N) : bool := forallb wf_byteb l.

(* ---------- big endian ---------- *)
Definition be16 (x : N) : list N := [ (x / 256) mod 256 ; x mod 256 ].
Definition be32 (x : N) : list N :=
  [ (x / 16777216) mod 256 ; (x / 65536) mod 256 ; (x / 256) mod 256 ; x mod 256 ].
Fixpoint be_decode (l : list N) : N :=
  match l with [] => 0 | b :: t => b * 256 ^ (N.of_nat (length t)) + be_decode t end.

(* ---------- Go slice operations with panics ---------- *)
(* s[lo:hi] on a slice of length [length l] whose capacity is also [length l]
   (callers that reslice within capacity pass the whole backing array). *)
Definition slice {A} (l : list A) (lo hi : nat) : res (list A) :=
  if (Nat.leb lo hi && Nat.leb hi (length l))%bool
  then Ok (firstn (hi - lo) (skipn lo l)) else Panic.
Definition index {A} (l : list A) (i : nat) : res A :=
  match nth_error l i with Some a => Ok a | None => Panic end.

Fixpoint set_nth {A} (l : list A) (i : nat) (v : A) : list A :=
  match l, i with
  | [], _ => []
  | _ :: t, O => v :: t
  | h :: t, S i' => h :: set_nth t i' v
  end.

Lemma set_nth_length {A} (l : list A) i v : length (set_nth l i v) = length l.
Proof. revert i; induction l as [|h t IH]; intros [|i]; simpl; auto. Qed.

Lemma nth_error_set_nth_eq {A} (l : list A) i v :
  (i < length l)%nat -> nth_error (set_nth l i v) i = Some v.
Proof. revert i; induction l as [|h t IH]; intros [|i] H; simpl in *; try lia; auto. apply IH; lia. Qed.

Lemma nth_error_set_nth_neq {A} (l : list A) i j v :
  i <> j -> nth_error (set_nth l i v) j = nth_error l j.
Proof. revert i j; induction l as [|h t IH]; intros [|i] [|j] H; simpl; auto; try congruence. Qed.

(* ---------- misc list helpers ---------- *)
Fixpoint list_eqb {A} (eqb : A -> A -> bool) (a b : list A) : bool :=
  match a, b with
  | [], [] => true
  | x :: a', y :: b' => eqb x y && list_eqb eqb a' b'
  | _, _ => false
  end.
Definition bytes_eqb := list_eqb N.eqb.

Lemma bytes_eqb_eq a b : bytes_eqb a b = true <-> a = b.
Proof.
  unfold bytes_eqb. revert b; induction a as [|x a IH]; intros [|y b]; simpl; split; intros H; try congruence; auto.
  - apply andb_true_iff in H as [H1 H2]. apply N.eqb_eq in H1. apply IH in H2. congruence.
  - inversion H; subst. rewrite N.eqb_refl. simpl. apply IH. reflexivity.
Qed.

Fixpoint count_occN (l : list N) (x : N) : nat :=
  match l with [] => O | y :: t => ((if N.eqb y x then 1 else 0) + count_occN t x)%nat end.
