(* RegistryCorr.v — correspondence for C16 (no proofs): a history of operations on a real
   router's registry; after each, the registry and the routes are compared as finite sets. *)
From Verif Require Import Prelude SeqCorr Registry.

Definition pair_mem (k id : N) (l : list (N * link)) : bool := existsb (fun x => (fst x =? k) && (l_id (snd x) =? id)) l.
Definition pairs_eq (m : list (N * link)) (o : list (N * N)) : bool :=
  forallb (fun x => existsb (fun y => (fst y =? fst x) && (snd y =? l_id (snd x))) o) m &&
  forallb (fun y => pair_mem (fst y) (snd y) m) o.
Definition route_eqb (a b : route) : bool :=
  let '(d1, n1, p1) := a in let '(d2, n2, p2) := b in (d1 =? d2) && (n1 =? n2) && Bool.eqb p1 p2.
Definition routes_eq (a b : list route) : bool :=
  forallb (fun x => existsb (route_eqb x) b) a && forallb (fun y => existsb (route_eqb y) a) b.

(* (operation, observed: registered?, by-peer pairs (peer, link id), by-label pairs, routes) *)
Definition c16_step := (op * bool * list (N * N) * list (N * N) * list route)%type.
Fixpoint c16_run (r : reg) (l : list c16_step) : bool :=
  match l with
  | [] => true
  | (o, okobs, bp, bl, rts) :: t =>
    let r' := step r o in
    let okm := match o with OAdd lk rt => snd (add_link r lk rt) | _ => true end in
    Bool.eqb okm okobs && pairs_eq (by_peer r') bp && pairs_eq (by_label r') bl && routes_eq (routes r') rts && c16_run r' t
  end.
Definition c16_case := list c16_step.
Definition c16_ok (c : c16_case) : bool := c16_run init c.
