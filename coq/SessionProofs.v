(* SessionProofs.v — lemmas about Session.v (C15). *)
From Verif Require Import Prelude Gen Seq SeqProofs Session.

Lemma two32_val : two32 = 4294967296. Proof. reflexivity. Qed.

Lemma next_out_spec q q' s roll : next_out q = (q', s, roll) -> q_out q < two32 ->
  q_out q' = s /\ s < two32 /\ q_hi q' = q_hi q /\ q_bm q' = q_bm q /\
  (roll = false -> s = q_out q + 1) /\ (roll = true -> s = 1 /\ q_out q = two32 - 1).
Proof.
  unfold next_out. intros H Hb. rewrite two32_val in *.
  destruct (N.eqb_spec ((q_out q + 1) mod 4294967296) 0) as [Hz|Hnz]; inversion H; subst; cbn [q_out q_hi q_bm].
  - repeat split; try lia; try discriminate.
  - repeat split; try discriminate; try (apply N.mod_lt; lia).
    intros _. apply N.mod_small. 
    destruct (N.lt_ge_cases (q_out q + 1) 4294967296) as [Hl|Hg]; [exact Hl|].
    exfalso. apply Hnz. replace (q_out q + 1) with 4294967296 by lia. reflexivity.
Qed.

Definition cls_out (e : ep) (p : bool) : N := if p then q_out (e_prio e) else q_out (e_regl e).

(* every sequence number handed out so far under the current out-key epoch is at most the
   class counter; older epochs are strictly older *)
Definition J (e : ep) (em : list (nat * bool * N)) : Prop :=
  q_out (e_regl e) < two32 /\ q_out (e_prio e) < two32 /\
  forall k p s, In (k, p, s) em -> (k <= e_oute e)%nat /\ (k = e_oute e -> s <= cls_out e p).

Lemma in_keeps_out e seq p e' r : in_ e seq p = (e', r) ->
  q_out (e_regl e') = q_out (e_regl e) /\ q_out (e_prio e') = q_out (e_prio e) /\ e_oute e' = e_oute e.
Proof.
  unfold in_, in_gen, rollover_required. destruct p.
  - destruct (q_hi (e_prio e) <? state_rolloverUpperBound); [intros H; inversion H; subst; repeat split|].
    destruct (state_rolloverLowerBound <? seq); intros H; inversion H; subst; cbn; repeat split.
  - destruct (q_hi (e_regl e) <? state_rolloverUpperBound); [intros H; inversion H; subst; repeat split|].
    destruct (state_rolloverLowerBound <? seq); intros H; inversion H; subst; cbn; repeat split.
Qed.

Lemma run_wrapped_mono l : forall e em, 
  snd (run_ops out_ in_ e l em true) = true.
Proof.
  induction l as [|o t IH]; intros e em; cbn [run_ops]; [reflexivity|].
  destruct o as [p|s p fe].
  - destruct (out_ e p) as [e' [[s k]|c|]]; apply IH.
  - destruct (in_ e s p) as [e' r]. apply IH.
Qed.

Lemma run_nodup l : forall e em e' em',
  J e em -> NoDup em -> run_ops out_ in_ e l em false = (e', em', false) -> NoDup em' /\ J e' em'.
Proof.
  induction l as [|o t IH]; intros e em e' em' HJ Hnd Hrun; cbn [run_ops] in Hrun.
  - inversion Hrun; subst. split; assumption.
  - destruct HJ as (Hbr & Hbp & Hall). destruct o as [p|s p fe].
    + destruct (out_ e p) as [e1 r] eqn:Hout. unfold out_, out_gen in Hout. destruct p.
      * (* priority *)
        destruct (next_out (e_prio e)) as [[q s] roll] eqn:Hn.
        destruct (next_out_spec _ _ _ _ Hn Hbp) as (Hq & Hs & _ & _ & Hnr & Hr).
        destruct roll; inversion Hout; subst e1 r; clear Hout.
        { pose proof (run_wrapped_mono t (mkEp (e_regl e) q (e_oute e) (e_ine e)) em) as Hw.
          rewrite Hrun in Hw. discriminate. }
        specialize (Hnr eq_refl).
        eapply IH; [| |exact Hrun].
        -- split; [exact Hbr|]. split; [cbn; lia|]. intros k p s' [Heq|Hin].
           ++ inversion Heq; subst. cbn. split; [lia|]. intros _. lia.
           ++ destruct (Hall _ _ _ Hin) as [H1 H2]. cbn [e_oute]. split; [exact H1|]. intros Hk. specialize (H2 Hk).
              unfold cls_out in *. cbn [e_prio e_regl]. destruct p; lia.
        -- constructor; [|exact Hnd]. intros Hin. destruct (Hall _ _ _ Hin) as [_ H2]. specialize (H2 eq_refl).
           unfold cls_out in H2. lia.
      * (* regular *)
        destruct (next_out (e_regl e)) as [[q s] roll] eqn:Hn.
        destruct (next_out_spec _ _ _ _ Hn Hbr) as (Hq & Hs & _ & _ & Hnr & Hr).
        destruct roll; inversion Hout; subst e1 r; clear Hout.
        { (* rollover: next key epoch, priority counter restarts *)
          destruct (Hr eq_refl) as [-> _].
          eapply IH; [| |exact Hrun].
          - split; [cbn; lia|]. split; [cbn; rewrite two32_val; lia|]. intros k p s' [Heq|Hin].
            + inversion Heq; subst. cbn. split; [lia|]. intros _. lia.
            + destruct (Hall _ _ _ Hin) as [H1 _]. cbn [e_oute]. split; [lia|]. intros Hk. lia.
          - constructor; [|exact Hnd]. intros Hin. destruct (Hall _ _ _ Hin) as [H1 _]. lia. }
        specialize (Hnr eq_refl).
        eapply IH; [| |exact Hrun].
        -- split; [cbn; lia|]. split; [exact Hbp|]. intros k p s' [Heq|Hin].
           ++ inversion Heq; subst. cbn. split; [lia|]. intros _. lia.
           ++ destruct (Hall _ _ _ Hin) as [H1 H2]. cbn [e_oute]. split; [exact H1|]. intros Hk. specialize (H2 Hk).
              unfold cls_out in *. cbn [e_prio e_regl]. destruct p; lia.
        -- constructor; [|exact Hnd]. intros Hin. destruct (Hall _ _ _ Hin) as [_ H2]. specialize (H2 eq_refl).
           unfold cls_out in H2. lia.
    + destruct (in_ e s p) as [e1 r] eqn:Hin. destruct (in_keeps_out _ _ _ _ _ Hin) as (H1 & H2 & H3).
      eapply IH; [| exact Hnd |exact Hrun].
      split; [rewrite H1; exact Hbr|]. split; [rewrite H2; exact Hbp|].
      intros k p' s' Hi. destruct (Hall _ _ _ Hi) as [Ha Hb]. rewrite H3. split; [exact Ha|].
      intros Hk. specialize (Hb Hk). unfold cls_out in *. rewrite H1, H2. exact Hb.
Qed.

(* No two frames sealed with the same key (epoch) in the same class carry the same sequence
   number — for every interleaving of Out calls (both classes) with arbitrary In calls (any
   sequence numbers, authentic or not), from any start state, as long as the priority class
   does not wrap on its own. *)
Theorem nonce_unique e l e' em :
  q_out (e_regl e) < two32 -> q_out (e_prio e) < two32 ->
  run_ops out_ in_ e l [] false = (e', em, false) -> NoDup em.
Proof.
  intros Hr Hp Hrun. eapply (run_nodup l e [] e' em); [|constructor|exact Hrun].
  split; [exact Hr|]. split; [exact Hp|]. intros ? ? ? [].
Qed.

(* a priority-class wrap is refused by the sender *)
Theorem prio_wrap_refused e :
  q_out (e_prio e) = two32 - 1 -> snd (out_ e true) = Err 1.
Proof.
  intros H. unfold out_, out_gen, next_out. rewrite H. replace ((two32 - 1 + 1) mod two32 =? 0) with true by reflexivity.
  reflexivity.
Qed.

(* ---------- rollover keeps sender and receiver in sync (in-order delivery) ---------- *)
(* sender s, receiver r; synced: the receiver's newest accepted regular sequence number is the
   sender's counter, and the receiver's in-key epoch is the sender's out-key epoch *)
Definition synced (s r : ep) : Prop :=
  q_hi (e_regl r) = q_out (e_regl s) /\ e_ine r = e_oute s /\ q_out (e_regl s) < two32.

Theorem sync_step s r :
  synced s r ->
  let '(s', res) := out_ s false in
  exists seq k, res = Ok (seq, k) /\
    let '(r', ok) := unseal_at r k seq false in
    ok = true /\ synced s' r' /\
    (* on a wrap both sides moved to the next key and the priority sequence restarts *)
    (q_out (e_regl s) = two32 - 1 ->
       k = S (e_oute s) /\ e_ine r' = S (e_ine r) /\ q_out (e_prio s') = 0 /\ q_hi (e_prio r') = 0).
Proof.
  intros (Hhi & Hep & Hb). unfold out_, out_gen.
  destruct (next_out (e_regl s)) as [[q sq'] roll] eqn:Hn.
  destruct (next_out_spec _ _ _ _ Hn Hb) as (Hq & Hs & Hqh & Hqb & Hnr & Hr).
  destruct roll.
  - (* wrap *)
    destruct (Hr eq_refl) as [-> Hout]. exists 1, (S (e_oute s)). split; [reflexivity|].
    unfold unseal_at, in_, in_gen, rollover_required.
    rewrite Hhi, Hout. replace (two32 - 1 <? state_rolloverUpperBound) with false by reflexivity.
    replace (state_rolloverLowerBound <? 1) with false by reflexivity.
    cbn [e_ine]. rewrite Hep, Nat.eqb_refl.
    unfold check_class. cbn [e_regl q_hi q_bm]. unfold check. cbn [hi bm].
    replace (1 =? 0) with false by reflexivity. replace (0 <? 1) with true by reflexivity.
    split; [reflexivity|]. split.
    + unfold synced. cbn. rewrite Hq. repeat split; try reflexivity; try (rewrite two32_val; lia).
    + intros _. cbn. repeat split; try reflexivity; try exact Hep; try (symmetry; exact Hep).
  - specialize (Hnr eq_refl). exists sq', (e_oute s). split; [reflexivity|].
    unfold unseal_at, in_, in_gen, rollover_required. rewrite Hhi.
    assert (Hnoroll : (if q_out (e_regl s) <? state_rolloverUpperBound then (e_regl r, false)
                       else if state_rolloverLowerBound <? sq' then (e_regl r, false)
                       else (mkSq 0 (q_bm (e_regl r)) (q_out (e_regl r)), true)) = (e_regl r, false)).
    { destruct (q_out (e_regl s) <? state_rolloverUpperBound) eqn:Hu; [reflexivity|].
      apply N.ltb_ge in Hu. change state_rolloverUpperBound with 4294967040 in Hu.
      replace (state_rolloverLowerBound <? sq') with true; [reflexivity|].
      symmetry. apply N.ltb_lt. change state_rolloverLowerBound with 255. lia. }
    rewrite Hnoroll. rewrite Hep, Nat.eqb_refl.
    unfold check_class. cbn [e_regl]. unfold check. cbn [hi bm]. rewrite Hhi.
    replace (sq' =? q_out (e_regl s)) with false by (symmetry; apply N.eqb_neq; lia).
    replace (q_out (e_regl s) <? sq') with true by (symmetry; apply N.ltb_lt; lia).
    split; [reflexivity|]. split.
    + unfold synced. cbn. rewrite Hq. repeat split; try reflexivity; assumption.
    + intros Hw. exfalso. rewrite two32_val in *. lia.
Qed.

(* a frame sealed under the previous key no longer unseals once the receiver has moved on,
   and leaves the receiver's state as it was *)
Theorem stale_rejected r fe seq :
  fe <> e_ine r -> Gen.state_rolloverLowerBound < seq ->
  unseal_at r fe seq false = (r, false).
Proof.
  intros Hne Hs. unfold unseal_at, in_, in_gen, rollover_required.
  destruct (q_hi (e_regl r) <? state_rolloverUpperBound).
  - destruct (Nat.eqb_spec (e_ine r) fe); [congruence|reflexivity].
  - replace (state_rolloverLowerBound <? seq) with true by (symmetry; apply N.ltb_lt; exact Hs).
    destruct (Nat.eqb_spec (e_ine r) fe); [congruence|reflexivity].
Qed.

(* any number of frames, delivered in order: every one unseals, the ends stay in sync *)
Fixpoint send_recv (s r : ep) (n : nat) : ep * ep * bool :=
  match n with
  | O => (s, r, true)
  | S m =>
    let '(s', res) := out_ s false in
    match res with
    | Ok (seq, k) => let '(r', ok) := unseal_at r k seq false in
                     let '(sf, rf, okf) := send_recv s' r' m in (sf, rf, ok && okf)
    | _ => (s', r, false)
    end
  end.

Theorem sync_run n : forall s r, synced s r ->
  let '(sf, rf, ok) := send_recv s r n in ok = true /\ synced sf rf.
Proof.
  induction n as [|m IH]; intros s r Hs; cbn [send_recv]; [split; [reflexivity|exact Hs]|].
  pose proof (sync_step s r Hs) as H. destruct (out_ s false) as [s' res].
  destruct H as (seq & k & -> & H). destruct (unseal_at r k seq false) as [r' ok].
  destruct H as (-> & Hs' & _). specialize (IH s' r' Hs').
  destruct (send_recv s' r' m) as [[sf rf] okf]. destruct IH as [-> Hf]. split; [reflexivity|exact Hf].
Qed.
