(* GossipLabels.v — C09, second clause of "reach": following a learned route's forward labels
   over the links leads to its destination.
   Invariant of the mesh of announcement handlers (GossipNet.v), in every reachable state: the path
   of every route a router r holds is empty (the bare direct-peer route Peering.AddLink writes) or
   starts at r, ends at the route's destination, and every hop's forward label is that hop's
   label of its link to the next hop, which is one of its neighbours.  The records carry the
   label of the link the announcement ARRIVED on as forward label (AnnouncePingHandler.Handle;
   GossipNet.own_rec), so the hop list of an announcement in flight, read from its sender towards
   the origin, is such a labelled walk already.  With link labels unique per router (C16), looking
   the labels up hop by hop (Switch: GetLinkByLabel) walks exactly that path. *)
From Verif Require Import Prelude SwitchLabel Table TableProofs TableSorted TableBounds TableBest Control ControlProofs Gossip GossipProofs GossipRefine GossipNet GossipDelivers.

Section Labels.
  Variable nodes : list N.
  Variable adj : N -> N -> bool.
  Variable cfg : N -> list rprefix.
  Variable lab lat : N -> N -> N.
  Hypothesis nodes_small : (length nodes <= 98)%nat.
  Hypothesis adj_irrefl : forall a, adj a a = false.
  Hypothesis adj_sym : forall a b, adj a b = adj b a.
  (* a router's links carry distinct labels *)
  Hypothesis lab_inj : forall r x y, In x (neighbours nodes adj r) -> In y (neighbours nodes adj r) -> lab r x = lab r y -> x = y.

  Notation nbrs := (neighbours nodes adj).
  Notation cstep := (cstep nodes adj cfg lab lat).

  (* every hop's forward label is its label of the link to the next hop, a neighbour *)
  Fixpoint labels_ok (p : list hop) : Prop :=
    match p with
    | [] => True
    | h1 :: t => match t with
                 | [] => True
                 | h2 :: _ => h_fwd h1 = lab (h_router h1) (h_router h2) /\ In (h_router h2) (nbrs (h_router h1)) /\ labels_ok t
                 end
    end.

  Definition first_router (p : list hop) : option N := match p with [] => None | h :: _ => Some (h_router h) end.
  Definition last_router (p : list hop) : N := h_router (last p (mkHop 0 0 0 0)).

  Definition path_ok (r : N) (e : entry) : Prop :=
    e_path e = [] \/ (labels_ok (e_path e) /\ first_router (e_path e) = Some r /\ last_router (e_path e) = e_dst e).

  (* the hops of an announcement in flight, from its sender towards the origin *)
  Definition tail_of (a : ann) : list hop := hops_of (a_chain a) ++ [mkHop (a_origin a) 0 0 (a_retlabel a)].

  Definition flight_lab (m : cmsg) : Prop :=
    In (cm_from m) (nbrs (cm_to m)) /\ labels_ok (tail_of (cm_ann m)) /\ first_router (tail_of (cm_ann m)) = Some (cm_from m).

  Definition linv (c : cnet) : Prop :=
    (forall r e, In e (c_tbl c r) -> path_ok r e) /\ Forall flight_lab (c_flight c).

  Lemma last_router_cons h p : p <> [] -> last_router (h :: p) = last_router p.
  Proof. unfold last_router. destruct p as [|h2 t]; [intros H; contradiction|reflexivity]. Qed.

  Lemma tail_nonempty a : tail_of a <> [].
  Proof. unfold tail_of. destruct (hops_of (a_chain a)); discriminate. Qed.

  Lemma last_router_tail a : last_router (tail_of a) = a_origin a.
  Proof. unfold last_router, tail_of. rewrite last_last. reflexivity. Qed.

  Lemma first_router_tail (m : cmsg) : msg_wf nodes m -> first_router (tail_of (cm_ann m)) = Some (cm_from m).
  Proof.
    intros (_ & _ & Hfrom & _). unfold tail_of, hops_of. destruct (a_chain (cm_ann m)) as [|r t]; cbn [map app first_router h_router]; congruence.
  Qed.

  Lemma ann_route_path r x a : e_path (ann_route r (link_to lab lat r x) a) = mkHop r (lat r x) (lab r x) 0 :: tail_of a.
  Proof. reflexivity. Qed.

  Theorem cstep_linv c c' : wf nodes c -> linv c -> cstep c c' -> linv c'.
  Proof.
    intros Hwf (Hent & Hfl) Hstep.
    destruct Hstep as [c id o rl ex info Ho Hid news|c pre m post now Hflt Hne Hnp Hd|c pre m post now t' added fw Hflt r Hne Hadm Hd news].
    - split; [exact Hent|]. cbn [c_flight]. apply Forall_app. split; [exact Hfl|].
      unfold news. rewrite Forall_forall. intros x Hx. apply in_map_iff in Hx. destruct Hx as (y & <- & Hy).
      apply in_neighbours in Hy. destruct Hy as [Hyn Hya].
      unfold flight_lab, tail_of. cbn [cm_from cm_to cm_ann a_chain a_origin a_retlabel hops_of map app labels_ok first_router h_router].
      split; [apply in_neighbours; split; [exact Ho|rewrite adj_sym; exact Hya]|split; [exact I|reflexivity]].
    - split; [exact Hent|]. cbn [c_flight]. rewrite Hflt in Hfl. exact (proj2 (forall_mid _ _ _ _ Hfl)).
    - destruct (handled_cases nodes adj cfg lab lat nodes_small adj_irrefl c pre m post now t' added fw Hwf Hflt Hne Hd) as (Hm & Ho & Hl & Ha & Hfw).
      fold r in Ho, Hl, Ha, Hfw.
      destruct Hwf as (_ & Ht & _ & _). destruct (Ht r) as [Hs Hw].
      rewrite Hflt in Hfl. destruct (forall_mid _ _ _ _ Hfl) as [(Hfrom & Hlab & Hfirst) Hrest].
      split.
      + intros r0 y Hy. cbn [c_tbl] in Hy. unfold upd in Hy. destruct (N.eqb_spec r0 r) as [->|_]; [|exact (Hent r0 y Hy)].
        destruct (add_route_sub _ _ _ _ _ _ y Hs Hw Ha Hy) as [Hold|[(Sd & _ & Sp & _) _]]; [exact (Hent r y Hold)|].
        right. rewrite Sp, Sd, ann_route_path, ann_route_dst. split; [|split].
        * cbn [labels_ok]. destruct (tail_of (cm_ann m)) as [|h2 t] eqn:Et; [exact I|].
          cbn [first_router] in Hfirst. inversion Hfirst as [Hh2]. cbn [h_fwd h_router]. rewrite Hh2.
          split; [reflexivity|split; [exact Hfrom|exact Hlab]].
        * reflexivity.
        * rewrite last_router_cons by apply tail_nonempty. apply last_router_tail.
      + cbn [c_flight]. rewrite app_assoc. apply Forall_app. split; [exact Hrest|].
        unfold news. rewrite Forall_forall. intros z Hz. apply in_map_iff in Hz. destruct Hz as (y & <- & Hy).
        rewrite Hfw in Hy. destruct added; [|destruct Hy].
        apply in_targets in Hy. destruct Hy as (Hyn & Hya & _).
        unfold flight_lab. cbn [cm_from cm_to cm_ann]. split; [|split].
        * apply in_neighbours. split; [exact (proj2 (proj2 (proj2 (proj2 (proj2 Hm)))))|rewrite adj_sym; exact Hya].
        * unfold tail_of, push. cbn [a_chain a_origin a_retlabel hops_of map own_rec r_signer r_delay r_fl r_rl app].
          fold (hops_of (a_chain (cm_ann m))). fold (tail_of (cm_ann m)).
          cbn [labels_ok]. destruct (tail_of (cm_ann m)) as [|h2 t] eqn:Et; [exact I|].
          cbn [first_router] in Hfirst. inversion Hfirst as [Hh2]. cbn [h_fwd h_router]. rewrite Hh2.
          split; [reflexivity|split; [exact Hfrom|exact Hlab]].
        * unfold tail_of, push. cbn [a_chain hops_of map own_rec r_signer app first_router h_router]. reflexivity.
  Qed.

  (* ---------- walking the labels over the links ---------- *)
  Definition links (r : N) : list lnk := links_of nodes adj lab lat r.
  Definition link_for (r label : N) : option lnk := find (fun l => snd (fst (fst l)) =? label) (links r).

  Fixpoint follow (r : N) (p : list hop) : option N :=
    match p with
    | [] => None
    | h1 :: t => match t with
                 | [] => Some r
                 | _ :: _ => match link_for r (h_fwd h1) with
                             | Some l => follow (fst (fst (fst l))) t
                             | None => None
                             end
                 end
    end.

  Lemma find_label r x : forall L, (forall y, In y L -> In y (nbrs r)) -> In x (nbrs r) -> In x L ->
    find (fun l : N * N * N * bool => snd (fst (fst l)) =? lab r x) (map (link_to lab lat r) L) = Some (link_to lab lat r x).
  Proof.
    induction L as [|y L IH]; intros Hsub Hx Hin; [destruct Hin|]. cbn [map find].
    change (snd (fst (fst (link_to lab lat r y)))) with (lab r y).
    destruct (N.eqb_spec (lab r y) (lab r x)) as [E|Hne].
    - rewrite (lab_inj r y x (Hsub y (or_introl eq_refl)) Hx E). reflexivity.
    - destruct Hin as [->|Hin]; [contradiction|]. apply IH; [intros z Hz; apply Hsub; right; exact Hz|exact Hx|exact Hin].
  Qed.

  Lemma follow_ok : forall p r, labels_ok p -> first_router p = Some r -> follow r p = Some (last_router p).
  Proof.
    induction p as [|h1 t IH]; intros r Hl Hf; [discriminate|].
    cbn [first_router] in Hf. inversion Hf as [Hr]. destruct t as [|h2 t'].
    - reflexivity.
    - cbn [labels_ok] in Hl. destruct Hl as (Hfw & Hnb & Hl').
      change (follow (h_router h1) (h1 :: h2 :: t')) with
        (match link_for (h_router h1) (h_fwd h1) with Some l => follow (fst (fst (fst l))) (h2 :: t') | None => None end).
      unfold link_for, links, links_of. rewrite Hfw.
      rewrite (find_label (h_router h1) (h_router h2) (nbrs (h_router h1)) (fun y H => H) Hnb Hnb).
      change (fst (fst (fst (link_to lab lat (h_router h1) (h_router h2))))) with (h_router h2).
      rewrite (IH (h_router h2) Hl' eq_refl). rewrite (last_router_cons h1 (h2 :: t')) by discriminate. reflexivity.
  Qed.

  (* ---------- executions from bare direct-peer routes ---------- *)
  Definition init_bare (c : cnet) : Prop := forall r e, In e (c_tbl c r) -> e_path e = [].

  Inductive lreach : cnet -> Prop :=
  | lreach0 c : init_ok c -> init_bare c -> lreach c
  | lreachS c c' : lreach c -> cstep c c' -> lreach c'.

  Lemma lreach_wf c : lreach c -> wf nodes c /\ linv c.
  Proof.
    induction 1 as [c Hi Hb|c c' _ [Hw Hv] Hs].
    - split; [apply init_wf; exact Hi|]. split; [intros r e He; left; exact (Hb r e He)|].
      destruct Hi as (Hf & _). rewrite Hf. constructor.
    - split; [exact (cstep_wf nodes adj cfg lab lat nodes_small adj_irrefl c c' Hw Hs)|exact (cstep_linv c c' Hw Hv Hs)].
  Qed.

  (* In every reachable state, a route with a path leads, label by label over the links, from the
     router that holds it to its destination. *)
  Theorem labels_lead_to_destination c r e :
    lreach c -> In e (c_tbl c r) -> e_path e <> [] -> follow r (e_path e) = Some (e_dst e).
  Proof.
    intros Hc He Hne. destruct (lreach_wf c Hc) as [_ (Hent & _)].
    destruct (Hent r e He) as [E|(Hl & Hf & Hlast)]; [contradiction|].
    rewrite (follow_ok _ r Hl Hf), Hlast. reflexivity.
  Qed.
End Labels.

(* ---------- non-vacuity: b announces, a handles it; a's route to b has the path [a; b] and its
   label leads to b ---------- *)
Example labels_nonvacuous :
  exists c e, lreach gx_nodes ex_adj ex_cfgs ex_lab ex_lat c /\ In e (c_tbl c gx_a) /\ e_dst e = gx_b /\ length (e_path e) = 2%nat /\
              follow gx_nodes ex_adj ex_lab ex_lat gx_a (e_path e) = Some gx_b.
Proof.
  assert (R0' : lreach gx_nodes ex_adj ex_cfgs ex_lab ex_lat gx_c0).
  { apply lreach0.
    - unfold init_ok, gx_c0. cbn [c_flight c_learned c_hist c_deliv c_anns c_tbl].
      split; [reflexivity|]. split; [reflexivity|]. split; [reflexivity|]. split; [reflexivity|]. split; [reflexivity|].
      split; [intros r; split; [apply SSorted_nil|intros e []]|intros r o; apply Nat.le_0_l].
    - intros r e []. }
  assert (R1 : lreach gx_nodes ex_adj ex_cfgs ex_lab ex_lat gx_c1).
  { eapply lreachS; [exact R0'|].
    exact (CAnnounce gx_nodes ex_adj ex_cfgs ex_lab ex_lat gx_c0 9 gx_b 5 0%Z 0 (or_intror (or_introl eq_refl)) (fun o' H => H)). }
  destruct (GossipNet.deliver gx_nodes ex_adj ex_cfgs ex_lab ex_lat 1000 [] gx_a gx_m) as [[[t' added] fw]|] eqn:Hd; [|vm_compute in Hd; discriminate].
  pose proof Hd as Hd'. vm_compute in Hd'. inversion Hd'; subst t' added fw.
  eexists. eexists. split; [|split; [|split; [|split]]].
  - eapply lreachS; [exact R1|].
    eapply (CHandled gx_nodes ex_adj ex_cfgs ex_lab ex_lat gx_c1 [] gx_m [] 1000); [reflexivity| | |exact Hd].
    + intros e. vm_compute. discriminate.
    + unfold admissible. intros rp Hrp. vm_compute in Hrp. inversion Hrp; subst rp. vm_compute. lia.
  - cbn [c_tbl]. unfold upd, gx_m, cm_to. rewrite N.eqb_refl. left. reflexivity.
  - reflexivity.
  - reflexivity.
  - vm_compute. reflexivity.
Qed.
