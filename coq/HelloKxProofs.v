(* HelloKxProofs.v — key agreement of the end-to-end key setup (C14): every state reachable by
   any interleaving of starts, deliveries, losses, "no keys" errors and expiry/retry (at points
   where no setup frame is in flight), of any length, is safe.  The state space of HelloKx.v is
   finite; the theorem is proved by computing the closure of the initial state under [next]
   inside the kernel (vm_compute), checking that it is closed and safe, and lifting that to
   [reach] by induction over executions. *)
From Verif Require Import Prelude HelloKx.

Lemma msg_eqb_eq a b : msg_eqb a b = true -> a = b.
Proof.
  destruct a as [c|c s], b as [d|d t]; cbn; try discriminate.
  - intros H. apply N.eqb_eq in H. congruence.
  - intros H. apply andb_true_iff in H. destruct H as [H1 H2]. apply N.eqb_eq in H1, H2. congruence.
Qed.

Lemma okey_eqb_eq a b : okey_eqb a b = true -> a = b.
Proof.
  destruct a as [[[r1 c1] s1]|], b as [[[r2 c2] s2]|]; cbn; try discriminate; [|reflexivity].
  intros H. apply andb_true_iff in H. destruct H as [H H3]. apply andb_true_iff in H. destruct H as [H1 H2].
  apply Bool.eqb_prop in H1. apply N.eqb_eq in H2, H3. congruence.
Qed.

Lemma op_eqb_eq a b : op_eqb a b = true -> a = b.
Proof.
  destruct a as [[c1 d1]|], b as [[c2 d2]|]; cbn; try discriminate; [|reflexivity].
  intros H. apply andb_true_iff in H. destruct H as [H1 H2]. apply N.eqb_eq in H1. apply Bool.eqb_prop in H2. congruence.
Qed.

Lemma rt_eqb_eq a b : rt_eqb a b = true -> a = b.
Proof.
  destruct a as [k1 p1], b as [k2 p2]. unfold rt_eqb. cbn. intros H. apply andb_true_iff in H. destruct H as [H1 H2].
  apply okey_eqb_eq in H1. apply op_eqb_eq in H2. congruence.
Qed.

Lemma list_eqb'_eq {A} (e : A -> A -> bool) : (forall x y, e x y = true -> x = y) ->
  forall a b, list_eqb' e a b = true -> a = b.
Proof.
  intros He. induction a as [|x s IH]; destruct b as [|y t]; cbn; try discriminate; [reflexivity|].
  intros H. apply andb_true_iff in H. destruct H as [H1 H2]. apply He in H1. apply IH in H2. congruence.
Qed.

Lemma st_eqb_eq a b : st_eqb a b = true -> a = b.
Proof.
  destruct a as [l1 h1 c1 d1], b as [l2 h2 c2 d2]. unfold st_eqb. cbn. intros H.
  apply andb_true_iff in H. destruct H as [H H4]. apply andb_true_iff in H. destruct H as [H H3].
  apply andb_true_iff in H. destruct H as [H1 H2].
  apply rt_eqb_eq in H1, H2. apply (list_eqb'_eq msg_eqb msg_eqb_eq) in H3, H4. congruence.
Qed.

Lemma st_mem_in s l : st_mem s l = true -> In s l.
Proof.
  unfold st_mem. rewrite existsb_exists. intros (x & Hx & He). apply st_eqb_eq in He. subst. exact Hx.
Qed.

(* ---------- the closure ---------- *)
Definition closure : list st := Eval vm_compute in explore false 64 [init] [init].
Global Opaque closure.

Lemma closure_init : st_mem init closure = true.
Proof. vm_cast_no_check (eq_refl true). Qed.

Lemma closure_closed : closed false closure = true.
Proof. vm_cast_no_check (eq_refl true). Qed.

Lemma closure_safe : forallb safe closure = true.
Proof. vm_cast_no_check (eq_refl true). Qed.

Theorem reach_in_closure s : reach false s -> st_mem s closure = true.
Proof.
  induction 1 as [|s s' _ IH Hn]; [exact closure_init|].
  apply st_mem_in in IH. pose proof closure_closed as Hc. unfold closed in Hc.
  rewrite forallb_forall in Hc. specialize (Hc s IH). rewrite forallb_forall in Hc. exact (Hc s' Hn).
Qed.

(* Key agreement: after ANY interleaving of any length — either router or both starting a setup,
   requests and responses delivered in any order the receivers accept, lost, "no encryption
   keys" errors, hello states expiring and setups being retried once nothing is in flight —
   whenever no setup frame is in flight and both routers consider encryption established, they
   hold the same key pair with opposite roles. *)
Theorem kx_safe s : reach false s -> safe s = true.
Proof.
  intros H. apply reach_in_closure, st_mem_in in H.
  pose proof closure_safe as Hs. rewrite forallb_forall in Hs. exact (Hs s H).
Qed.

Corollary kx_agreement s : reach false s -> quiescent s = true ->
  established (lo s) = true -> established (hi s) = true -> agree s = true.
Proof.
  intros Hr Hq _ _. pose proof (kx_safe s Hr) as H. unfold safe in H. rewrite Hq in H. exact H.
Qed.

(* ---------- if hello states may expire while setup frames are in flight ---------- *)
(* a concrete failing history, replayed on the real routers by the harness *)
Definition d19_history : list st :=
  let s0 := init in
  let s1 := nth 0 (start s0 true) s0 in            (* lo starts a setup *)
  let s2 := nth 0 (start s1 false) s1 in           (* hi starts a setup *)
  let s3 := nth 0 (deliver s2 true 0) s2 in        (* hi serves lo's request, abandoning its own *)
  let s4 := nth 0 (drop s3 false 1) s3 in          (* hi's response is lost *)
  let s5 := nth 0 (expire s4 true) s4 in           (* lo's setup expires *)
  let s6 := nth 0 (deliver s5 false 0) s5 in       (* hi's old request reaches lo, which serves it *)
  let s7 := nth 0 (drop s6 true 0) s6 in           (* lo's response is lost *)
  [s0; s1; s2; s3; s4; s5; s6; s7].

Lemma reach_step a b : reach true a -> st_mem b (next true a) = true -> reach true b.
Proof. intros Ha Hm. apply st_mem_in in Hm. exact (reachS true a b Ha Hm). Qed.

(* With expiry at any time the property is FALSE of the model (and of the code: DESIGN, known
   finding D19): the lower router's setup expires while the higher router's request is still in
   flight; each ends up having served the other's request and both consider encryption
   established with keys the other does not hold. *)
Theorem kx_expiry_refuted : exists s, reach true s /\ safe s = false /\ quiescent s = true.
Proof.
  exists (nth 7 d19_history init). split.
  - apply (reach_step (nth 6 d19_history init)); [|vm_compute; reflexivity].
    apply (reach_step (nth 5 d19_history init)); [|vm_compute; reflexivity].
    apply (reach_step (nth 4 d19_history init)); [|vm_compute; reflexivity].
    apply (reach_step (nth 3 d19_history init)); [|vm_compute; reflexivity].
    apply (reach_step (nth 2 d19_history init)); [|vm_compute; reflexivity].
    apply (reach_step (nth 1 d19_history init)); [|vm_compute; reflexivity].
    apply (reach_step init); [apply reach0|vm_compute; reflexivity].
  - vm_compute. split; reflexivity.
Qed.
