(* AddressCorr.v — correspondence for C01 (no proofs).  The real digest of each case's hashed
   input is computed by the harness with the real algorithm and handed to the model as the
   hash oracle's value (None when the algorithm name is unknown). *)
From Verif Require Import Prelude SeqCorr Address.

Definition oracle_for (a : pubaddr) (dg : option (list N)) : list N -> option (list N -> list N) :=
  fun name => if bytes_eqb name (a_hash a) then match dg with Some d => Some (fun _ => d) | None => None end else None.

(* VerifyAddress and the entry points: identity, digest, observed (code 0 ok / 1 error / 3 panic,
   a stored record / session for the address exists afterwards) *)
Definition c01_case := (pubaddr * option (list N) * (N * bool))%type.
Definition c01_ok (c : c01_case) : bool :=
  let '(a, dg, (code, stored)) := c in
  match admit_identity (oracle_for a dg) [] a with
  | Ok known => (code =? 0) && Bool.eqb stored true
  | Err _ => (code =? 1) && Bool.eqb stored false
  | Panic => code =? 3
  end.

(* generator: key, digests for easing 0,1,2,... (as far as the harness computed them), prefix
   sets, observed result (address, easing) *)
Fixpoint table_h (key : list N) (ds : list (list N)) (e : N) (inp : list N) : list N :=
  match ds with
  | [] => []
  | d :: t => if bytes_eqb inp (digest_input ed25519_name key e) then d else table_h key t (e + 1) inp
  end.
Definition c01_gcase := (list N * list N * list (list N) * list (list N * nat) * list (list N * nat) * (list N * N))%type.
Definition c01_gok (c : c01_gcase) : bool :=
  let '(hname, key, ds, acc, ign, (oip, oe)) := c in
  match try_key (table_h key ds 0) hname key acc ign 0 (length ds) with
  | Some a => bytes_eqb (a_ip a) oip && (a_easing a =? oe)
  | None => false
  end.

(* hex codec *)
Definition c01_hcase := (list N * list N)%type.
Definition c01_hok (c : c01_hcase) : bool :=
  let '(raw, enc) := c in bytes_eqb (hex_encode raw) enc &&
  match hex_decode enc with Some r => bytes_eqb r raw | None => false end.
