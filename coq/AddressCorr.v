(* AddressCorr.v — correspondence for C01 (no proofs).  The real digest of each case's hashed
   input is computed by the harness with the real algorithm and handed to the model as the
   hash oracle's value (None when the algorithm name is unknown). *)
From Verif Require Import Prelude SeqCorr Address.

Definition oracle_for (a : pubaddr) (dg : option (list N)) : list N -> option (list N -> list N) :=
  fun name => if bytes_eqb name (a_hash a) then match dg with Some d => Some (fun _ => d) | None => None end else None.

(* VerifyAddress and the entry points: identity, digest, observed (code 0 ok / 1 error / 3 panic,
   a stored record / session for the address exists afterwards) *)
Definition c01_case := (pubaddr * option (list N) * (N * bool))%type.
Definition c01_ok (c : c01_case) : bool :=
  let '(a, dg, (code, stored)) := c in
  match admit_identity (oracle_for a dg) [] a with
  | Ok known => (code =? 0) && Bool.eqb stored true
  | Err _ => (code =? 1) && Bool.eqb stored false
  | Panic => code =? 3
  end.

(* generator: key, digests for easing 0,1,2,... (as far as the harness computed them), prefix
   sets, observed result (address, easing) *)
Fixpoint table_h (key : list N) (ds : list (list N)) (e : N) (inp : list N) : list N :=
  match ds with
  | [] => []
  | d :: t => if bytes_eqb inp (digest_input ed25519_name key e) then d else table_h key t (e + 1) inp
  end.
Definition c01_gcase := (list N * list N * list (list N) * list (list N * nat) * list (list N * nat) * (list N * N))%type.
Definition c01_gok (c : c01_gcase) : bool :=
  let '(hname, key, ds, acc, ign, (oip, oe)) := c in
  match try_key (table_h key ds 0) hname key acc ign 0 (length ds) with
  | Some a => bytes_eqb (a_ip a) oip && (a_easing a =? oe)
  | None => false
  end.

(* hex codec *)
Definition c01_hcase := (list N * list N)%type.
Definition c01_hok (c : c01_hcase) : bool :=
  let '(raw, enc) := c in bytes_eqb (hex_encode raw) enc &&
  match hex_decode enc with Some r => bytes_eqb r raw | None => false end.

(* chains of hop identities in one announcement: (identity, digest) per hop, outermost first, and
   the identity the router's state binds to each hop's address afterwards *)
Definition chain_oracle (l : list (pubaddr * option (list N))) : list N -> option (list N -> list N) :=
  fun name =>
    if existsb (fun x => bytes_eqb (a_hash (fst x)) name && match snd x with Some _ => true | None => false end) l
    then Some (fun inp =>
      match find (fun x => bytes_eqb (a_hash (fst x)) name &&
                           bytes_eqb (digest_input (a_type (fst x)) (a_key (fst x)) (a_easing (fst x))) inp) l with
      | Some (_, Some d) => d
      | _ => []
      end)
    else None.
Definition pub_eqb (a b : pubaddr) : bool :=
  bytes_eqb (a_ip a) (a_ip b) && bytes_eqb (a_hash a) (a_hash b) && bytes_eqb (a_type a) (a_type b) &&
  bytes_eqb (a_key a) (a_key b) && (a_easing a =? a_easing b).
Definition c01_ccase := (list (pubaddr * option (list N)) * list (option pubaddr))%type.
Definition c01_cok (c : c01_ccase) : bool :=
  let '(l, obs) := c in
  let st := fst (admit_chain (chain_oracle l) [] (map fst l)) in
  Nat.eqb (length l) (length obs) &&
  forallb (fun p => match lookup_binding st (a_ip (fst (fst p))), snd p with
                    | Some a, Some b => pub_eqb a b
                    | None, None => true
                    | _, _ => false
                    end) (combine l obs).
