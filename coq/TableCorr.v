(* TableCorr.v — step-wise correspondence for C11: every operation is applied by the model to
   the table state observed on the implementation before the operation, and the result is
   compared with the state observed after it (expiry times with a tolerance: the implementation
   reads the clock a moment after the harness did). *)
From Verif Require Import Prelude SeqCorr SwitchLabel Table.

Definition hop_eqb (a b : hop) : bool :=
  (h_router a =? h_router b) && (h_delay a =? h_delay b) && (h_fwd a =? h_fwd b) && (h_ret a =? h_ret b).

Definition entry_eqb (a b : entry) : bool :=
  (e_dst a =? e_dst b) && (e_paddr a =? e_paddr b) && (e_pbits a =? e_pbits b) && (e_nexthop a =? e_nexthop b) &&
  list_eqb hop_eqb (e_path a) (e_path b) && Bool.eqb (e_stub a) (e_stub b) && (e_source a =? e_source b) &&
  (Z.abs (e_expires a - e_expires b) <=? 2000)%Z && (e_thops a =? e_thops b) && (e_tdelay a =? e_tdelay b).

Inductive cop :=
| CAdd (now : Z) (e : entry) (code : N) (added : bool)      (* code 0 ok, 1 error, 3 panic *)
| CRemoveNextHop (ip : N)
| CRemoveDisconnected (router : N) (disc : list N)
| CAge (d : Z)
| CClean (now : Z).

(* observed lookup: (address, LookupNearest result, LookupNearestRoute result), each result
   None or (dst, thops, tdelay, nexthop, isDestination) *)
Definition lres := option (N * N * N * N * bool).
Definition lobs := (N * lres * lres)%type.

Definition lres_of (r : option (entry * bool)) : lres :=
  match r with Some (e, m) => Some (e_dst e, e_thops e, e_tdelay e, e_nexthop e, m) | None => None end.
Definition lres_eqb (a b : lres) : bool :=
  match a, b with
  | None, None => true
  | Some (d1, h1, t1, n1, m1), Some (d2, h2, t2, n2, m2) => (d1 =? d2) && (h1 =? h2) && (t1 =? t2) && (n1 =? n2) && Bool.eqb m1 m2
  | _, _ => false
  end.

Definition cstep := (cop * list entry * list lobs)%type.     (* op, table after, lookups after *)

Definition apply_cop (cfg : list rprefix) (self : N) (t : list entry) (o : cop) : option (list entry) :=
  match o with
  | CAdd now e code added =>
    match add_route cfg now t e with
    | Ok (t', a) => if (code =? 0) && Bool.eqb a added then Some t' else None
    | Err _ => if code =? 1 then Some t else None
    | Panic => if code =? 3 then Some t else None
    end
  | CRemoveNextHop ip => Some (remove_next_hop t ip)
  | CRemoveDisconnected r d => Some (remove_disconnected t r d)
  | CAge d => Some (map (fun e => if e_source e =? src_peer then e else
                 mkEntry (e_dst e) (e_paddr e) (e_pbits e) (e_nexthop e) (e_path e) (e_stub e) (e_source e) (e_expires e - d)%Z (e_thops e) (e_tdelay e)) t)
  | CClean now => Some (clean cfg self now t)
  end.

Fixpoint run_steps (cfg : list rprefix) (self : N) (t : list entry) (l : list cstep) : bool :=
  match l with
  | [] => true
  | (o, post, looks) :: r =>
    match apply_cop cfg self t o with
    | None => false
    | Some t' =>
      list_eqb entry_eqb t' post && table_inv_b post &&
      forallb (fun q => let '(a, r1, r2) := q in
                 lres_eqb (lres_of (lookup_nearest post a)) r1 && lres_eqb (lres_of (lookup_nearest_route post a)) r2) looks &&
      run_steps cfg self post r
    end
  end.

Definition c11_case := (list rprefix * N * list cstep)%type.
Definition c11_ok (c : c11_case) : bool := let '(cfg, self, steps) := c in cfg_ok cfg && run_steps cfg self [] steps.
