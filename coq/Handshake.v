(* Handshake.v — the peering handshake of one connection end (peering/init.go:
   createPeeringRequest, handle, handlePeeringRequest, handlePeeringResponse, handlePeeringAck,
   finalize, makeUniverseAuth).  Both ends send a request, answer the other's request with a
   response, and answer the response with an ack: six messages.
   Verdicts are inputs: [*_auth] = the frame unseals under the session of its claimed source,
   i.e. its signature verifies under the key bound to that address AND its timestamp is strictly
   newer than the newest frame accepted from that key (so a frame replayed from an earlier
   connection has auth = false); [q_addr_ok] = the identity in the request is self-certifying
   (C01).  The universe proof is the term (universe, secret, challenge, first address, second
   address) — BLAKE3 idealised as injective.  Ephemeral keys are identifiers. *)
From Verif Require Import Prelude.

Record party := mkParty { pa_ip : N; pa_universe : N; pa_secret : N (* 0 = none *); pa_client : bool }.

Definition ua := (N * N * N * N * N)%type.
Definition ua_eqb (a b : ua) : bool :=
  let '(a1, a2, a3, a4, a5) := a in let '(b1, b2, b3, b4, b5) := b in
  (a1 =? b1) && (a2 =? b2) && (a3 =? b3) && (a4 =? b4) && (a5 =? b5).

Record hreq := mkReq {
  q_src : N; q_decodes : bool; q_ty_ok : bool; q_addr_ip : N; q_addr_ok : bool;
  q_connected : bool;          (* a link to that address is already registered *)
  q_auth : bool; q_lv : N; q_universe : N; q_chal : N; q_chal_len : N
}.
Record hresp := mkResp {
  s_auth : bool; s_ty_ok : bool; s_src : N; s_dst : N; s_decodes : bool; s_err : bool;
  s_chal : N; s_ua : option ua; s_kx : option N; s_kx_ok : bool    (* the key exchange value parses *)
}.
Record hack := mkAck {
  a_auth : bool; a_ty_ok : bool; a_src : N; a_dst : N; a_decodes : bool; a_err : bool;
  a_kx : option N; a_kx_ok : bool
}.

(* state after the request was accepted *)
Record hst := mkHst { h_remote : N; h_my_kx : option N (* client: own ephemeral sent in the response *) }.

Inductive outcome {S M : Type} := Acc (s : S) (m : M) | Abort (code : N).
Arguments outcome : clear implicits.

(* what this end puts into its response / ack (sealed with its own key, addressed to the peer) *)
Record out_resp := mkOutResp { o_chal : N; o_ua : option ua; o_kx : option N; o_to : N }.
Record out_ack := mkOutAck { k_kx : option N; k_to : N }.

Definition min_challenge : N := 16.

(* [fresh] = the ephemeral key this end would generate now *)
Definition handle_request (me : party) (fresh : N) (r : hreq) : outcome hst out_resp :=
  if q_src r =? pa_ip me then Abort 1                                  (* request from myself (reflection) *)
  else if negb (q_decodes r) then Abort 2
  else if negb (q_ty_ok r) then Abort 3
  else if negb (q_src r =? q_addr_ip r) then Abort 4
  else if negb (q_addr_ok r) then Abort 5
  else if q_connected r then Abort 6
  else if negb (q_auth r) then Abort 7
  else if negb (q_lv r =? 1) then Abort 8
  else if negb (q_universe r =? pa_universe me) then Abort 9
  else if q_chal_len r <? min_challenge then Abort 10
  else
    let uauth := if negb (q_universe r =? 0) && negb (pa_secret me =? 0)
                 then Some (q_universe r, pa_secret me, q_chal r, q_addr_ip r, pa_ip me) else None in
    let kx := if pa_client me then Some fresh else None in
    Acc (mkHst (q_addr_ip r) kx) (mkOutResp (q_chal r) uauth kx (q_addr_ip r)).

(* [chal] = this end's own challenge, generated for this connection *)
Definition handle_response (me : party) (st : hst) (chal : N) (fresh : N) (r : hresp)
  : outcome (hst * option (N * N)) out_ack :=
  if negb (s_auth r) then Abort 1
  else if negb (s_ty_ok r) then Abort 2
  else if negb (s_src r =? h_remote st) then Abort 3
  else if negb (s_dst r =? pa_ip me) then Abort 4
  else if negb (s_decodes r) then Abort 5
  else if s_err r then Abort 6
  else if negb (s_chal r =? chal) then Abort 7
  else if negb (pa_secret me =? 0) &&
          negb (match s_ua r with
                | Some u => ua_eqb u (pa_universe me, pa_secret me, chal, pa_ip me, h_remote st)
                | None => false end) then Abort 8
  else if pa_client me then Acc (st, None) (mkOutAck None (h_remote st))
  else match s_kx r with
       | None => Abort 9
       | Some c => if negb (s_kx_ok r) then Abort 10
                   else Acc (st, Some (c, fresh)) (mkOutAck (Some fresh) (h_remote st))   (* server: keys final *)
       end.

(* returns the key pair (client ephemeral, server ephemeral) this end derives the link keys from *)
Definition handle_ack (me : party) (st : hst) (key : option (N * N)) (r : hack) : outcome (N * N) unit :=
  if negb (a_auth r) then Abort 1
  else if negb (a_ty_ok r) then Abort 2
  else if negb (a_src r =? h_remote st) then Abort 3
  else if negb (a_dst r =? pa_ip me) then Abort 4
  else if negb (a_decodes r) then Abort 5
  else if a_err r then Abort 6
  else if pa_client me then
    match a_kx r, h_my_kx st with
    | Some s, Some c => if negb (a_kx_ok r) then Abort 8 else Acc (c, s) tt
    | _, _ => Abort 7
    end
  else match key with Some k => Acc k tt | None => Abort 9 end.

(* one end's whole handshake: the link to h_remote is registered iff this returns Some *)
Definition run_end (me : party) (chal fresh : N) (rq : hreq) (rs : hresp) (ak : hack) : option (N * (N * N)) :=
  match handle_request me fresh rq with
  | Abort _ => None
  | Acc st _ =>
    match handle_response me st chal fresh rs with
    | Abort _ => None
    | Acc (st2, key) _ =>
      match handle_ack me st2 key ak with
      | Abort _ => None
      | Acc k _ => Some (h_remote st2, k)
      end
    end
  end.

(* ---------- an honest exchange: every message arrives as it was produced ---------- *)
Definition req_of (p : party) (chal : N) : hreq :=
  mkReq (pa_ip p) true true (pa_ip p) true false true 1 (pa_universe p) chal 32.
Definition resp_of (from : party) (o : out_resp) : hresp :=
  mkResp true true (pa_ip from) (o_to o) true false (o_chal o) (o_ua o) (o_kx o) true.
Definition ack_of (from : party) (o : out_ack) : hack :=
  mkAck true true (pa_ip from) (k_to o) true false (k_kx o) true.

Definition honest (a b : party) (ca cb fa fb : N) : option ((N * (N * N)) * (N * (N * N))) :=
  match handle_request a fa (req_of b cb), handle_request b fb (req_of a ca) with
  | Acc sa ra, Acc sb rb =>
    match handle_response a sa ca fa (resp_of b rb), handle_response b sb cb fb (resp_of a ra) with
    | Acc (sa2, ka) aa, Acc (sb2, kb) ab =>
      match handle_ack a sa2 ka (ack_of b ab), handle_ack b sb2 kb (ack_of a aa) with
      | Acc k1 _, Acc k2 _ => Some ((h_remote sa2, k1), (h_remote sb2, k2))
      | _, _ => None
      end
    | _, _ => None
    end
  | _, _ => None
  end.
