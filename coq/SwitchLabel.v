(* SwitchLabel.v — executable model of m/switch_label.go:
   EncodedSize / binary.PutUvarint on uint16 labels, binary.Uvarint, NextRotateSwitchBlock,
   TransformToReturnBlock, CalculateBlockSize, BuildBlocks.  Model only; proofs elsewhere. *)
From Verif Require Import Prelude.

(* ---------- varint encoding of a switch label (uint16) ---------- *)
Definition enc (x : N) : list N :=
  if x <? 128 then [x]
  else if x <? 16384 then [x mod 128 + 128; x / 128]
  else [x mod 128 + 128; (x / 128) mod 128 + 128; x / 16384].

Definition esize (x : N) : nat :=            (* SwitchLabel.EncodedSize *)
  if x <=? 127 then 1%nat else if x <=? 16383 then 2%nat else 3%nat.

(* ---------- encoding/binary.Uvarint ---------- *)
(* returns (value as uint64, n): n = 0 buffer too small, n < 0 overflow, n > 0 bytes read *)
Fixpoint uvarint_go (buf : list N) (i : nat) (x s : N) : N * Z :=
  match buf with
  | [] => (0, 0%Z)
  | b :: t =>
    if Nat.eqb i 10 then (0, (- Z.of_nat (i + 1))%Z)
    else if b <? 128 then
      if Nat.eqb i 9 && (1 <? b) then (0, (- Z.of_nat (i + 1))%Z)
      else (trunc64 (N.lor x (N.shiftl b s)), Z.of_nat (i + 1))
    else uvarint_go t (S i) (trunc64 (N.lor x (N.shiftl (b mod 128) s))) (s + 7)
  end.
Definition uvarint (buf : list N) : N * Z := uvarint_go buf 0 0 0.

(* ---------- NextRotateSwitchBlock ---------- *)
(* position of the slot for the return label: the second zero byte (the first one if the label
   just read was zero), default: last byte *)
Fixpoint find_slot_from (seen : bool) (l : list N) (i dflt : nat) : nat :=
  match l with
  | [] => dflt
  | b :: t =>
    if b =? 0 then (if seen then i else find_slot_from true t (S i) dflt)
    else find_slot_from seen t (S i) dflt
  end.
Definition find_slot (seen : bool) (l : list N) : nat := find_slot_from seen l 0 (length l - 1).

Fixpoint write_at (l : list N) (pos : nat) (v : list N) : list N :=
  match pos, l with
  | O, _ => v ++ skipn (length v) l
  | S p, [] => []
  | S p, h :: t => h :: write_at t p v
  end.

(* [block] is the Go slice; [extra] are the bytes that follow it inside its capacity
   (in a frame: message length, message, auth, appendix, margin).  The return label must fit
   into the block (ErrBufTooSmall otherwise): nothing is ever written into [extra], which is
   returned unchanged.  (The pinned tree resliced into [extra]: Regression.rotate_pinned.) *)
Definition rotate (block extra : list N) (ret : N) : res (N * list N * list N) :=
  let '(next, n) := uvarint block in
  if (n =? 0)%Z then Err 1                       (* ErrBufTooSmall *)
  else if (n <? 0)%Z then Err 2                  (* ErrValueTooBig *)
  else
    let k := Z.to_nat n in
    let b1 := skipn k block ++ repeat 0 k in
    let start := find_slot (next =? 0) b1 in
    let lab := rev (enc ret) in
    if Nat.leb (start + length lab) (length block) then
      if (0 <? ret) && existsb (fun b => b =? 0) lab then Panic    (* panic(returnLabel) *)
      else
        let all := write_at (b1 ++ extra) start lab in
        Ok (next mod 65536, firstn (length block) all, skipn (length block) all)
    else Err 1.                                   (* ErrBufTooSmall: no room for the return label *)

(* ---------- TransformToReturnBlock ---------- *)
Fixpoint drop_zeros (l : list N) : list N :=
  match l with
  | [] => []
  | b :: t => if b =? 0 then drop_zeros t else l
  end.
Definition transform (block : list N) : list N :=
  let r := rev block in
  let nz := drop_zeros r in
  nz ++ repeat 0 (length r - length nz).

(* ---------- CalculateBlockSize / BuildBlocks ---------- *)
Notation hop := (N * N)%type (only parsing).        (* (forward label, return label) *)

Fixpoint sum_nat (l : list nat) : nat := match l with [] => O | x :: t => (x + sum_nat t)%nat end.
Definition window (sim : list nat) (w i : nat) : nat := sum_nat (firstn w (skipn i sim)).
Fixpoint max_list (l : list nat) : nat := match l with [] => O | x :: t => Nat.max x (max_list t) end.

Definition size_sim (hops : list hop) : list nat :=
  map (fun h => esize (fst h)) (firstn (length hops - 1) hops) ++ map (fun h => esize (snd h)) hops.

Definition calc_size (hops : list hop) : res nat :=
  match hops with
  | [] => Ok O
  | h0 :: _ =>
    if negb ((snd h0 =? 0) && (fst (last hops (0, 0)) =? 0)) then Err 1      (* invalid switch path *)
    else
      let n := length hops in
      let s := max_list (map (window (size_sim hops) (n - 1)) (seq 0 (n + 1))) in
      if Nat.ltb 255 s then Err 2 else Ok s                                  (* switch path too long *)
  end.

Definition encs (l : list N) : list N := concat (map enc l).
Definition pad (l : list N) (size : nat) : list N := l ++ repeat 0 (size - length l).

(* forward labels written: hops 0..n-2; return labels written: hops n-1..1 *)
Definition fwd_labels (hops : list hop) : list N := map fst (firstn (length hops - 1) hops).
Definition ret_labels (hops : list hop) : list N := rev (map snd (skipn 1 hops)).

Definition build_blocks (hops : list hop) : res (list N * list N) :=
  match hops with
  | [] => Ok ([0], [0])
  | _ =>
    do size <- calc_size hops;
    let fb := encs (fwd_labels hops) in
    let rb := encs (ret_labels hops) in
    (* PutUvarint panics when the buffer is too small *)
    if Nat.leb (length fb) size && Nat.leb (length rb) size
    then Ok (pad fb size, pad rb size) else Panic
  end.

(* CalculateBlockSize as it stood on the pinned tree: every sum is a uint8 *)
Definition window8 (sim : list nat) (w i : nat) : nat :=
  fold_left (fun acc x => ((acc + x) mod 256)%nat) (firstn w (skipn i sim)) O.
Definition calc_size_pinned (hops : list hop) : res nat :=
  match hops with
  | [] => Ok O
  | h0 :: _ =>
    if negb ((snd h0 =? 0) && (fst (last hops (0, 0)) =? 0)) then Err 1
    else let n := length hops in
         Ok (max_list (map (window8 (size_sim hops) (n - 1)) (seq 0 (n + 1))))
  end.
Definition build_blocks_pinned (hops : list hop) : res (list N * list N) :=
  match hops with
  | [] => Ok ([0], [0])
  | _ =>
    do size <- calc_size_pinned hops;
    let fb := encs (fwd_labels hops) in
    let rb := encs (ret_labels hops) in
    if Nat.leb (length fb) size && Nat.leb (length rb) size
    then Ok (pad fb size, pad rb size) else Panic
  end.

(* ---------- traversal: rotate at every hop with that hop's return label ---------- *)
Fixpoint traverse (block extra : list N) (rets : list N) : res (list N * list N * list N) :=
  match rets with
  | [] => Ok ([], block, extra)
  | r :: t =>
    do x <- rotate block extra r;
    let '(next, b', e') := x in
    do y <- traverse b' e' t;
    let '(ls, bf, ef) := y in
    Ok (next :: ls, bf, ef)
  end.

(* a valid path given by its forward labels f_0..f_{n-2} and return labels r_1..r_{n-1} *)
Definition mk_hops (F R : list N) : list hop := combine (F ++ [0]) (0 :: R).
Definition label_ok (x : N) : bool := (0 <? x) && (x <? 65536).
