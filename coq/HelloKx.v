(* HelloKx.v — the end-to-end key setup between two routers as a transition system
   (router/ping_hello.go: Send, handlePingHelloRequest, handlePingHelloResponse, getActive;
   router/tun.go: the trigger; router/ping_error.go: the "no encryption keys" error;
   state/session_encryption.go: InitKeyClientStart / InitKeyServer / InitKeyClientComplete;
   state/session_signing.go + frame unseal: a signed frame older than the newest accepted from
   its sender is rejected).
   lo = the router with the lower address, hi = the other.
   Ephemeral keys and ping ids are identifiers; a router's session key is the pair (client
   ephemeral, server ephemeral) it was derived from, and two routers can decrypt each other iff
   they hold the same pair with opposite roles (ECDH/BLAKE3 idealised).  A new identifier is the
   least one not referenced anywhere in the state: the protocol only ever compares identifiers
   that are referenced (ping id of a response against the pending request, the two session
   keys), so reusing an unreferenced one changes no behaviour; this keeps the state space finite.
   A channel is the list of frames one router has sent that are neither delivered nor lost, in
   send order; delivering the i-th loses everything sent before it (the receiver rejects frames
   older than the newest accepted one — C07); duplicates are rejected the same way and are not
   modelled. *)
From Verif Require Import Prelude.

Inductive msg := Req (c : N) | Resp (c s : N).

Record rt := mkRt {
  k : option (bool * N * N);      (* (is client, client ephemeral, server ephemeral) *)
  p : option (N * bool)           (* own hello state: (ping id = client ephemeral, done) *)
}.

Record st := mkSt { lo : rt; hi : rt; ch_lo : list msg; ch_hi : list msg }.   (* ch_x: sent by x *)

Definition init : st := mkSt (mkRt None None) (mkRt None None) [] [].

(* ---------- identifiers ---------- *)
Definition ids_rt (r : rt) : list N :=
  (match k r with Some (_, c, s) => [c; s] | None => [] end) ++
  (match p r with Some (c, _) => [c] | None => [] end).
Definition ids_msg (m : msg) : list N := match m with Req c => [c] | Resp c s => [c; s] end.
Definition ids (s : st) : list N :=
  ids_rt (lo s) ++ ids_rt (hi s) ++ flat_map ids_msg (ch_lo s) ++ flat_map ids_msg (ch_hi s).
Definition memN (x : N) (l : list N) : bool := existsb (N.eqb x) l.
Definition fresh (s : st) : N :=
  match find (fun n => negb (memN n (ids s))) (map N.of_nat (seq 1 16)) with Some n => n | None => 0 end.

(* ---------- access by side (true = lo) ---------- *)
Definition get (s : st) (x : bool) : rt := if x then lo s else hi s.
Definition chan (s : st) (x : bool) : list msg := if x then ch_lo s else ch_hi s.
Definition set_rt (s : st) (x : bool) (r : rt) : st :=
  if x then mkSt r (hi s) (ch_lo s) (ch_hi s) else mkSt (lo s) r (ch_lo s) (ch_hi s).
Definition set_chan (s : st) (x : bool) (c : list msg) : st :=
  if x then mkSt (lo s) (hi s) c (ch_hi s) else mkSt (lo s) (hi s) (ch_lo s) c.

Definition quiescent (s : st) : bool :=
  match ch_lo s, ch_hi s with [], [] => true | _, _ => false end.

(* ---------- events ---------- *)
(* the tun path starts a setup when no keys are established and no hello state is active *)
Definition start (s : st) (x : bool) : list st :=
  match k (get s x), p (get s x) with
  | None, None =>
    let c := fresh s in
    [set_chan (set_rt s x (mkRt None (Some (c, false)))) x (chan s x ++ [Req c])]
  | _, _ => []
  end.

(* the hello state expires (30 s pending, 5 s after completion) *)
Definition expire (s : st) (x : bool) : list st :=
  match p (get s x) with
  | Some _ => [set_rt s x (mkRt (k (get s x)) None)]
  | None => []
  end.

(* "no encryption keys" error from the peer, which holds no keys: this router drops its own *)
Definition clear (s : st) (x : bool) : list st :=
  match k (get s x), k (get s (negb x)) with
  | Some _, None => [set_rt s x (mkRt None (p (get s x)))]
  | _, _ => []
  end.

(* the router loses its keys and its hello state for the peer (restart, or the idle session is
   evicted) while nothing is in flight; the peer keeps what it has *)
Definition forget (s : st) (x : bool) : list st :=
  if quiescent s then
    match k (get s x), p (get s x) with
    | None, None => []
    | _, _ => [set_rt s x (mkRt None None)]
    end
  else [].

(* receiver y handles message m from x *)
Definition handle (s : st) (y : bool) (m : msg) : st :=
  let r := get s y in
  match m with
  | Req c =>
    let own := match p r with Some (pc, false) => Some pc | _ => None end in
    match own with
    | Some pc =>
      if y then s                                                   (* lower address keeps its own setup *)
      else let sv := fresh s in                                     (* higher abandons its own and serves *)
           set_chan (set_rt s y (mkRt (Some (false, c, sv)) (Some (pc, true)))) y (chan s y ++ [Resp c sv])
    | None =>
      let sv := fresh s in
      set_chan (set_rt s y (mkRt (Some (false, c, sv)) (p r))) y (chan s y ++ [Resp c sv])
    end
  | Resp c sv =>
    match p r with
    | Some (pc, false) => if pc =? c then set_rt s y (mkRt (Some (true, c, sv)) (Some (pc, true))) else s
    | _ => s
    end
  end.

Fixpoint remove_nth {A} (i : nat) (l : list A) : list A :=
  match i, l with
  | _, [] => []
  | O, _ :: t => t
  | S j, h :: t => h :: remove_nth j t
  end.

(* the i-th frame sent by x is lost *)
Definition drop (s : st) (x : bool) (i : nat) : list st :=
  if Nat.ltb i (length (chan s x)) then [set_chan s x (remove_nth i (chan s x))] else [].

(* the i-th frame sent by x is delivered: everything sent before it can no longer be accepted *)
Definition deliver (s : st) (x : bool) (i : nat) : list st :=
  match nth_error (chan s x) i with
  | Some m => [handle (set_chan s x (skipn (S i) (chan s x))) (negb x) m]
  | None => []
  end.

Definition sides : list bool := [true; false].
Definition positions (s : st) (x : bool) : list nat := seq 0 (length (chan s x)).

(* all successors; [exp_any] = hello states may expire while setup frames are in flight *)
Definition next (exp_any : bool) (s : st) : list st :=
  flat_map (start s) sides ++
  (if exp_any || quiescent s then flat_map (expire s) sides else []) ++
  flat_map (clear s) sides ++
  flat_map (forget s) sides ++
  flat_map (fun x => flat_map (drop s x) (positions s x)) sides ++
  flat_map (fun x => flat_map (deliver s x) (positions s x)) sides.

Inductive reach (exp_any : bool) : st -> Prop :=
| reach0 : reach exp_any init
| reachS s s' : reach exp_any s -> In s' (next exp_any s) -> reach exp_any s'.

(* the property: nothing in flight, both established -> same key pair, opposite roles *)
Definition established (r : rt) : bool := match k r with Some _ => true | None => false end.
Definition agree (s : st) : bool :=
  match k (lo s), k (hi s) with
  | Some (r1, c1, s1), Some (r2, c2, s2) => (c1 =? c2) && (s1 =? s2) && negb (Bool.eqb r1 r2)
  | _, _ => true
  end.
Definition safe (s : st) : bool := negb (quiescent s) || agree s.

(* ---------- decidable equality of states, closure computation ---------- *)
Definition msg_eqb (a b : msg) : bool :=
  match a, b with
  | Req c, Req d => c =? d
  | Resp c s, Resp d t => (c =? d) && (s =? t)
  | _, _ => false
  end.
Definition okey_eqb (a b : option (bool * N * N)) : bool :=
  match a, b with
  | None, None => true
  | Some (r1, c1, s1), Some (r2, c2, s2) => Bool.eqb r1 r2 && (c1 =? c2) && (s1 =? s2)
  | _, _ => false
  end.
Definition op_eqb (a b : option (N * bool)) : bool :=
  match a, b with
  | None, None => true
  | Some (c1, d1), Some (c2, d2) => (c1 =? c2) && Bool.eqb d1 d2
  | _, _ => false
  end.
Definition rt_eqb (a b : rt) : bool := okey_eqb (k a) (k b) && op_eqb (p a) (p b).
Fixpoint list_eqb' {A} (e : A -> A -> bool) (a b : list A) : bool :=
  match a, b with
  | [], [] => true
  | x :: s, y :: t => e x y && list_eqb' e s t
  | _, _ => false
  end.
Definition st_eqb (a b : st) : bool :=
  rt_eqb (lo a) (lo b) && rt_eqb (hi a) (hi b) && list_eqb' msg_eqb (ch_lo a) (ch_lo b) && list_eqb' msg_eqb (ch_hi a) (ch_hi b).
Definition st_mem (s : st) (l : list st) : bool := existsb (st_eqb s) l.

(* breadth-first closure of a set of states under [next] *)
Fixpoint explore (exp_any : bool) (fuel : nat) (frontier seen : list st) : list st :=
  match fuel with
  | O => seen
  | S f =>
    let new := fold_left (fun acc s => if st_mem s acc || st_mem s seen then acc else s :: acc)
                         (flat_map (next exp_any) frontier) [] in
    match new with
    | [] => seen
    | _ => explore exp_any f new (new ++ seen)
    end
  end.

Definition closed (exp_any : bool) (l : list st) : bool :=
  forallb (fun s => forallb (fun s' => st_mem s' l) (next exp_any s)) l.
