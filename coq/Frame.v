(* Frame.v — executable model of the frame v1 layout and of Seal/Unseal
   (frame/frame_v1.go: initHeader, setData, ParseFrameV1, accessors; frame/frame.go: ParseFrame;
   frame/frame_v1_crypto.go: Seal, Unseal, SignRaw/VerifyRaw, encryptFrame/decryptFrame).
   Constants and the message class tables come from Gen.v (read from the compiled code).
   Cryptographic primitives are section variables (idealised, see DESIGN §3). *)
From Verif Require Import Prelude Gen.

Record idx := mkIdx { mi : nat; ai : nat; xi : nat }.   (* messageIndex, authIndex, appendixIndex *)

Definition idx_eqb (a b : idx) : bool :=
  Nat.eqb (mi a) (mi b) && Nat.eqb (ai a) (ai b) && Nat.eqb (xi a) (xi b).

Definition mac_size : nat := N.to_nat Gen.frame_frameV1MACSize.
Definition sig_size : nat := N.to_nat Gen.frame_frameV1SigSize.
Definition auth_size (ty : N) : nat := if Gen.is_enc ty then mac_size else sig_size.

Definition byte_at (d : list N) (i : nat) : N := nth i d 0.

(* ---------- building (initHeader + setData) ---------- *)
Definition header (ty : N) (nonce3 src dst : list N) : list N :=
  [1; 32; 0; 0; ty] ++ nonce3 ++ repeat 0 8 ++ src ++ dst.

Definition build (ty : N) (src dst sb msg apx nonce3 : list N) : res (list N * idx) :=
  if 255 <? N.of_nat (length sb) then Err 1                          (* switch labels too big *)
  else if Nat.eqb (length msg) 0 then Err 2                          (* message data may not be empty *)
  else if Gen.frame_frameV1MessageLimit <? N.of_nat (length msg) then Err 3
  else if Gen.frame_frameV1AppendixLimit <? N.of_nat (length apx) then Err 4
  else
    let m := (49 + length sb)%nat in
    let a := (m + 2 + length msg)%nat in
    let x := (a + auth_size ty)%nat in
    Ok (header ty nonce3 src dst ++ [N.of_nat (length sb)] ++ sb ++ be16 (N.of_nat (length msg)) ++ msg
          ++ repeat 0 (auth_size ty) ++ apx,
        mkIdx m a x).

(* ---------- parsing (ParseFrame + ParseFrameV1) ---------- *)
Definition parse_v1 (d : list N) : res idx :=
  if N.of_nat (length d) <? Gen.frame_frameV1MinSize then Err 1
  else
    let m := (49 + N.to_nat (byte_at d 48))%nat in
    if Nat.ltb (length d) (m + 19) then Err 2
    else
      let msz := N.to_nat (byte_at d m * 256 + byte_at d (m + 1)) in
      let a := (m + 2 + msz)%nat in
      let x := (a + auth_size (byte_at d 4))%nat in
      if Nat.ltb (length d) x then Err 3 else Ok (mkIdx m a x).

Definition parse (d : list N) : res idx :=
  match d with
  | [] => Err 1
  | v :: _ => if v =? 1 then parse_v1 d else Err 4                   (* unsupported frame version *)
  end.

(* ---------- accessors ---------- *)
Definition range (d : list N) (lo hi : nat) : list N := firstn (hi - lo) (skipn lo d).
Definition switch_block (d : list N) (ix : idx) := range d 49 (mi ix).
Definition msg_part (d : list N) (ix : idx) := range d (mi ix + 2) (ai ix).
Definition auth_part (d : list N) (ix : idx) := range d (ai ix) (xi ix).
Definition apx_part (d : list N) (ix : idx) := skipn (xi ix) d.
Definition src_part (d : list N) := range d 16 32.
Definition dst_part (d : list N) := range d 32 48.

(* ---------- crypto ranges ---------- *)
(* putFieldsIntoCryptoState: TTL and flow control are zero for every cryptographic operation *)
Definition zero12 (d : list N) : list N := set_nth (set_nth d 1 0) 2 0.
Definition signed_part (d : list N) (ix : idx) := firstn (ai ix) (zero12 d).       (* data[:authIndex] *)
Definition nonce_part (d : list N) := range d 4 16.                                 (* data[4:16] *)
Definition aad_part (d : list N) (ix : idx) := firstn (mi ix + 2) (zero12 d).       (* data[:messageIndex+2] *)
Definition ct_part (d : list N) (ix : idx) := range d (mi ix + 2) (xi ix).          (* message ++ auth *)

(* everything the authenticator covers, as one value *)
Inductive protected :=
| PSigned (m s : list N)
| PSealed (nonce aad ct : list N)
| PNone.

Definition protected_of (d : list N) (ix : idx) : protected :=
  let c := Gen.msg_class (byte_at d 4) in
  if c =? Gen.class_signed then PSigned (signed_part d ix) (auth_part d ix)
  else if (c =? Gen.class_prio_enc) || (c =? Gen.class_enc) then PSealed (nonce_part d) (aad_part d ix) (ct_part d ix)
  else PNone.

Definition protected_eqb (a b : protected) : bool :=
  match a, b with
  | PSigned m1 s1, PSigned m2 s2 => bytes_eqb m1 m2 && bytes_eqb s1 s2
  | PSealed n1 a1 c1, PSealed n2 a2 c2 => bytes_eqb n1 n2 && bytes_eqb a1 a2 && bytes_eqb c1 c2
  | _, _ => false
  end.

Fixpoint write_bytes (d : list N) (pos : nat) (v : list N) : list N :=
  match v with
  | [] => d
  | b :: t => write_bytes (set_nth d pos b) (S pos) t
  end.

Definition be64 (x : N) : list N :=
  be32 (x / 4294967296) ++ be32 (x mod 4294967296).

Section Crypto.
  (* the session's view of the primitives: verification under the remote public key,
     AEAD open under the session's in-key; signing / sealing under the sender's keys *)
  Variable verify : list N -> list N -> bool.                       (* message, signature *)
  Variable aopen : list N -> list N -> list N -> option (list N).   (* nonce, aad, ct++tag *)
  Variable sign : list N -> list N.                                 (* message -> 64 bytes *)
  Variable aseal : list N -> list N -> list N -> list N.            (* nonce, aad, pt -> ct++tag *)

  (* Unseal up to (not including) the replay-window check, which is Seq.v's subject.
     Returns the delivered payload. *)
  Definition unseal (d : list N) : res (list N) :=
    do ix <- parse d;
    match protected_of d ix with
    | PSigned m s => if verify m s then Ok (msg_part d ix) else Err 10
    | PSealed n a c => match aopen n a c with Some p => Ok p | None => Err 11 end
    | PNone => Err 12                                                (* unknown message class *)
    end.

  (* Seal of a signed-class frame at sequence time t (ms) *)
  Definition seal_signed (d : list N) (ix : idx) (t : N) : list N :=
    let d1 := write_bytes d 8 (be64 t) in
    write_bytes d1 (ai ix) (sign (signed_part d1 ix)).

  (* Seal of an encrypted-class frame with the values Out() returned *)
  Definition seal_enc (d : list N) (ix : idx) (seq ack rate : N) : list N :=
    let d1 := set_nth (write_bytes (write_bytes d 8 (be32 seq)) 12 (be32 ack)) 3 rate in
    write_bytes d1 (mi ix + 2) (aseal (nonce_part d1) (aad_part d1 ix) (msg_part d1 ix)).
End Crypto.

(* ---------- ideal functionality used by the correspondence check ---------- *)
(* With ideal primitives a frame is accepted under a session iff what the authenticator covers
   is exactly what the sender sealed (for that session) — [issued] lists those values. *)
Definition accepts_ideal (issued : list protected) (d : list N) : bool :=
  match parse d with
  | Ok ix => existsb (protected_eqb (protected_of d ix)) issued
  | _ => false
  end.
