(* Storage.v — the state file on disk across saves and crashes
   (storage/storage_json.go: JSONFileStorage.Stop, writeFileAtomic, NewJSONFileStorage).
   The file system holds two files of interest: the state file and the temporary file next to
   it.  A save is: open the temporary file (create, truncate), write, sync, close, rename over
   the state file (atomic).  A crash may hit at any byte offset of the write (the file system
   then holds the bytes written so far in the temporary file), before it, or between the later
   steps.  Serialisation is abstract: [data] is the byte string a state serialises to. *)
From Verif Require Import Prelude.

Record fs := mkFs { f_state : option (list N); f_tmp : option (list N) }.

(* where a save is cut short *)
Inductive cut :=
| CNone                    (* completes *)
| CBeforeOpen
| CAfterOpen               (* temporary file opened (created / truncated), nothing written *)
| CWrite (k : nat)         (* k bytes of the data written *)
| CBeforeRename            (* written, synced and closed, not yet renamed *).

(* opening the temporary file: with O_TRUNC its old content is discarded; without, it stays
   and the new bytes overwrite it from the start *)
Definition opened (trunc : bool) (old : option (list N)) : list N :=
  if trunc then [] else match old with Some o => o | None => [] end.
Definition written (base data : list N) (k : nat) : list N :=
  firstn k data ++ skipn (Nat.min k (length data)) base.

Definition save (trunc : bool) (s : fs) (data : list N) (c : cut) : fs :=
  match c with
  | CBeforeOpen => s
  | CAfterOpen => mkFs (f_state s) (Some (opened trunc (f_tmp s)))
  | CWrite k => mkFs (f_state s) (Some (written (opened trunc (f_tmp s)) data k))
  | CBeforeRename => mkFs (f_state s) (Some (written (opened trunc (f_tmp s)) data (length data)))
  | CNone => mkFs (Some (written (opened trunc (f_tmp s)) data (length data))) None
  end.

(* the pinned tree wrote the state file in place (os.WriteFile: create, truncate, write) *)
Definition save_pinned (s : fs) (data : list N) (c : cut) : fs :=
  match c with
  | CBeforeOpen => s
  | CAfterOpen => mkFs (Some []) (f_tmp s)
  | CWrite k => mkFs (Some (firstn k data)) (f_tmp s)
  | CBeforeRename | CNone => mkFs (Some data) (f_tmp s)
  end.

(* a history of saves, each with its data and where it was cut *)
Definition run (trunc : bool) (s : fs) (h : list (list N * cut)) : fs :=
  fold_left (fun s x => save trunc s (fst x) (snd x)) h s.

(* loading: absent file = empty state; otherwise the content must be a complete serialisation *)
Definition loads (valid : list N -> bool) (s : fs) : bool :=
  match f_state s with None => true | Some d => valid d end.

(* ---------- sessions: load, use, stop, load again ----------
   The in-memory state M is abstract; [ser]/[de] are the JSON codec.  A session applies operations
   to the loaded state — look-ups too change it (GetRouter stamps UsedAt) — and Stop saves what the
   storage then holds. *)
Section Sessions.
  Variable M : Type.
  Variable ser : M -> list N.
  Inductive sop := SLookup (f : M -> M) | SWrite (f : M -> M).
  Definition sapply (m : M) (o : sop) : M := match o with SLookup f => f m | SWrite f => f m end.
  Definition is_write (o : sop) : bool := match o with SWrite _ => true | SLookup _ => false end.
  Definition session (s : fs) (m0 : M) (ops : list sop) : fs :=
    save true s (ser (fold_left sapply ops m0)) CNone.
  (* a storage that writes the file only after a write operation *)
  Definition session_skip_unmodified (s : fs) (m0 : M) (ops : list sop) : fs :=
    if existsb is_write ops then session s m0 ops else s.
End Sessions.
