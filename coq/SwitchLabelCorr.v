(* SwitchLabelCorr.v — correspondence functions for C12 (no proofs). *)
From Verif Require Import Prelude SeqCorr SwitchLabel.

(* observed outcome: code 0 = ok, 1 = ErrBufTooSmall, 2 = ErrValueTooBig / other error, 3 = panic *)
Definition robs := (N * N * list N * list N)%type.       (* code, label, block after, extra after *)

Definition rot_model (block extra : list N) (ret : N) : robs :=
  match rotate block extra ret with
  | Ok (l, b, e) => (0, l, b, e)
  | Err c => (c, 0, [], [])
  | Panic => (3, 0, [], [])
  end.

Definition robs_eqb (a b : robs) : bool :=
  let '(c1, l1, b1, e1) := a in let '(c2, l2, b2, e2) := b in
  (c1 =? c2) && ((negb (c1 =? 0)) || ((l1 =? l2) && bytes_eqb b1 b2 && bytes_eqb e1 e2)).

Definition c12_rcase := (list N * list N * N * robs)%type.
Definition c12_rok (c : c12_rcase) : bool :=
  let '(block, extra, ret, o) := c in robs_eqb (rot_model block extra ret) o.

(* BuildBlocks: hops, observed (code 0 ok / 1 error / 3 panic, forward block, return block) *)
Definition bobs := (N * list N * list N)%type.
Definition build_model (hops : list (N * N)) : bobs :=
  match build_blocks hops with
  | Ok (f, r) => (0, f, r)
  | Err _ => (1, [], [])
  | Panic => (3, [], [])
  end.
Definition c12_bcase := (list (N * N) * bobs)%type.
Definition c12_bok (c : c12_bcase) : bool :=
  let '(hops, (c2, f2, r2)) := c in
  let '(c1, f1, r1) := build_model hops in
  (c1 =? c2) && ((negb (c1 =? 0)) || (bytes_eqb f1 f2 && bytes_eqb r1 r2)).

(* TransformToReturnBlock: block, observed block *)
Definition c12_tcase := (list N * list N)%type.
Definition c12_tok (c : c12_tcase) : bool := let '(b, o) := c in bytes_eqb (transform b) o.
