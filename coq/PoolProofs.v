(* PoolProofs.v — lemmas about Pool.v (C17). *)
From Verif Require Import Prelude Gen Frame FrameProofs Pool.

Lemma lookup_update_eq {A} k (v : A) l : lookup k (update k v l) = Some v.
Proof.
  induction l as [|[k' v'] t IH]; cbn [update lookup]; [rewrite Nat.eqb_refl; reflexivity|].
  destruct (Nat.eqb_spec k k') as [->|Hne]; cbn [lookup].
  - rewrite Nat.eqb_refl. reflexivity.
  - destruct (Nat.eqb_spec k k'); [congruence|]. exact IH.
Qed.

Lemma lookup_update_neq {A} k k2 (v : A) l : k2 <> k -> lookup k2 (update k v l) = lookup k2 l.
Proof.
  intros Hne. induction l as [|[k' v'] t IH]; cbn [update lookup].
  - destruct (Nat.eqb_spec k2 k); [congruence|reflexivity].
  - destruct (Nat.eqb_spec k k') as [->|Hne']; cbn [lookup].
    + destruct (Nat.eqb_spec k2 k'); [congruence|reflexivity].
    + destruct (Nat.eqb_spec k2 k'); [reflexivity|exact IH].
Qed.

(* buf_bytes only looks at the prefix *)
Lemma buf_bytes_pre c1 c2 p lo hi : buf_bytes (mkBuf c1 p) lo hi = buf_bytes (mkBuf c2 p) lo hi.
Proof. reflexivity. Qed.

Lemma forallb_repeat0 n : forallb (fun x => x =? 0) (repeat 0 n) = true.
Proof. induction n as [|n IH]; [reflexivity|]. cbn [repeat forallb]. rewrite IH. reflexivity. Qed.

Lemma firstn_repeat {A} (a : A) k n : firstn k (repeat a n) = repeat a (Nat.min k n).
Proof.
  revert n; induction k as [|k IH]; intros [|n]; cbn [firstn repeat Nat.min]; try reflexivity.
  rewrite IH. reflexivity.
Qed.

(* writing a frame into an all-zero pooled slice leaves it zero outside the frame *)
Theorem write_into_zero_buffer c off d :
  buf_zero_outside (buf_write (mkBuf c []) off d) off (off + length d) = true.
Proof.
  unfold buf_zero_outside, buf_write, splice. cbn [pre app length].
  rewrite Nat.sub_0_r. set (n := (off + length d)%nat).
  assert (H1 : firstn off (firstn off (repeat 0 n) ++ d ++ skipn n (repeat 0 n)) = repeat 0 off).
  { rewrite firstn_repeat. replace (Nat.min off n) with off by lia.
    rewrite firstn_app, repeat_length, Nat.sub_diag. cbn [firstn]. rewrite app_nil_r.
    rewrite firstn_repeat, Nat.min_id. reflexivity. }
  assert (H2 : skipn n (firstn off (repeat 0 n) ++ d ++ skipn n (repeat 0 n)) = []).
  { apply skipn_all2. rewrite !app_length, firstn_length, skipn_length, repeat_length. lia. }
  rewrite H1, H2, forallb_repeat0. reflexivity.
Qed.

(* ReturnPooledSlice always clears the slice before it can reach a pool *)
Theorem return_slice_clears s b bb :
  lookup b (heap s) = Some bb ->
  lookup b (heap (return_slice s b)) = Some (mkBuf (cap bb) []) /\
  (forall x, In x (free (return_slice s b)) -> x = b \/ In x (free s)).
Proof.
  intros H. unfold return_slice. rewrite H.
  destruct (existsb (Nat.eqb (cap bb)) tiers); cbn [heap free]; rewrite lookup_update_eq; split; try reflexivity.
  - intros x [<-|Hx]; [left; reflexivity|right; exact Hx].
  - intros x Hx. right. exact Hx.
Qed.

(* a slice handed out by the pool is all-zero whenever every pooled slice is *)
Theorem get_slice_zero s n c s1 nb :
  (forall b bb, In b (free s) -> lookup b (heap s) = Some bb -> buf_zero bb = true) ->
  get_slice s n c = (s1, Some nb) ->
  exists bb, lookup nb (heap s1) = Some bb /\ buf_zero bb = true /\ tier_of n = Some (cap bb).
Proof.
  intros Hz Hg. unfold get_slice in Hg. destruct (tier_of n) as [t|] eqn:Ht; [|inversion Hg].
  assert (Hfresh : forall s1 nb, (mkSt ((nextb s, mkBuf t []) :: heap s) (free s) (live s) (sfree s) (S (nextb s)) (nextf s), Some (nextb s)) = (s1, Some nb) ->
     exists bb, lookup nb (heap s1) = Some bb /\ buf_zero bb = true /\ Some t = Some (cap bb)).
  { intros s1' nb' H. inversion H; subst. cbn [heap lookup]. rewrite Nat.eqb_refl. eexists. repeat split. }
  destruct c as [b|]; [|apply Hfresh; exact Hg].
  destruct (lookup b (heap s)) as [bb|] eqn:Hl; [|apply Hfresh; exact Hg].
  destruct (existsb (Nat.eqb b) (free s) && Nat.eqb (cap bb) t) eqn:Hc; [|apply Hfresh; exact Hg].
  inversion Hg; subst; clear Hg. cbn [heap]. apply andb_true_iff in Hc as [Hin Hcap].
  apply existsb_exists in Hin as (x & Hx & Hxe). apply Nat.eqb_eq in Hxe. subst x. apply Nat.eqb_eq in Hcap.
  exists bb. split; [exact Hl|]. split; [eapply Hz; eassumption|]. rewrite Hcap. reflexivity.
Qed.

(* the slice handed out is never one that a live frame or the pool still holds:
   it is either brand new or was taken out of the pool *)
Theorem get_slice_fresh_or_pooled s n c s1 nb :
  get_slice s n c = (s1, Some nb) ->
  live s1 = live s /\ sfree s1 = sfree s /\
  ((nb = nextb s /\ free s1 = free s /\ nextb s1 = S (nextb s)) \/
   (In nb (free s) /\ free s1 = remove_nat nb (free s) /\ nextb s1 = nextb s /\ heap s1 = heap s)).
Proof.
  intros Hg. unfold get_slice in Hg. destruct (tier_of n) as [t|]; [|inversion Hg].
  assert (Hfresh : forall s1 nb, (mkSt ((nextb s, mkBuf t []) :: heap s) (free s) (live s) (sfree s) (S (nextb s)) (nextf s), Some (nextb s)) = (s1, Some nb) ->
    live s1 = live s /\ sfree s1 = sfree s /\
    ((nb = nextb s /\ free s1 = free s /\ nextb s1 = S (nextb s)) \/
     (In nb (free s) /\ free s1 = remove_nat nb (free s) /\ nextb s1 = nextb s /\ heap s1 = heap s))).
  { intros s1' nb' H. inversion H; subst. cbn. split; [reflexivity|]. split; [reflexivity|]. left. repeat split. }
  destruct c as [b|]; [|apply Hfresh; exact Hg].
  destruct (lookup b (heap s)) as [bb|]; [|apply Hfresh; exact Hg].
  destruct (existsb (Nat.eqb b) (free s) && Nat.eqb (cap bb) t) eqn:Hc; [|apply Hfresh; exact Hg].
  inversion Hg; subst; clear Hg. cbn. split; [reflexivity|]. split; [reflexivity|]. right.
  apply andb_true_iff in Hc as [Hin _]. apply existsb_exists in Hin as (x & Hx & Hxe). apply Nat.eqb_eq in Hxe. subst x.
  repeat split. exact Hx.
Qed.

(* Release: the buffer is cleared and the struct goes back to the pool with no addresses,
   indices, buffer or link *)
Theorem release_clean s id s' r f b bb :
  step s (ORelease id) = Ok (s', r) -> lookup id (live s) = Some f -> f_buf f = Some b ->
  lookup b (heap s) = Some bb ->
  lookup b (heap s') = Some (mkBuf (cap bb) []) /\
  (exists rest, sfree s' = fr_zero :: rest) /\ fr_clean fr_zero = true.
Proof.
  intros Hs Hl Hb Hh. cbn [step] in Hs. rewrite Hl, Hb in Hs. inversion Hs; subst; clear Hs. cbn [heap sfree live].
  destruct (return_slice_clears s b bb Hh) as [H1 _]. split; [exact H1|].
  split; [eexists; reflexivity|reflexivity].
Qed.

Lemma get_struct_same s sc s0 f0 : get_struct s sc = (s0, f0) ->
  heap s0 = heap s /\ free s0 = free s /\ nextb s0 = nextb s /\ nextf s0 = nextf s /\ live s0 = live s.
Proof.
  unfold get_struct. destruct sc as [i|]; [destruct (nth_error (sfree s) i)|]; intros H; inversion H; subst; cbn; repeat split.
Qed.

Lemma get_slice_heap_other s n c s1 ob x : get_slice s n c = (s1, ob) -> (x < nextb s)%nat ->
  lookup x (heap s1) = lookup x (heap s).
Proof.
  intros Hg Hx. unfold get_slice in Hg. destruct (tier_of n) as [t|]; [|inversion Hg; reflexivity].
  assert (Hfresh : forall s1 ob, (mkSt ((nextb s, mkBuf t []) :: heap s) (free s) (live s) (sfree s) (S (nextb s)) (nextf s), Some (nextb s)) = (s1, ob) ->
    lookup x (heap s1) = lookup x (heap s)).
  { intros s1' ob' H. inversion H; subst. cbn [heap lookup]. destruct (Nat.eqb_spec x (nextb s)); [lia|reflexivity]. }
  destruct c as [b|]; [|apply (Hfresh _ _ Hg)].
  destruct (lookup b (heap s)) as [bb|]; [|apply (Hfresh _ _ Hg)].
  destruct (existsb (Nat.eqb b) (free s) && Nat.eqb (cap bb) t); [|apply (Hfresh _ _ Hg)].
  inversion Hg; subst. reflexivity.
Qed.

(* Clone: identical bytes, parsed fields, addresses and link — in a different buffer; the
   source is untouched *)
Theorem clone_exact s id sc bc s' nid f b bb :
  step s (OClone id sc bc) = Ok (s', nid) ->
  lookup id (live s) = Some f -> f_buf f = Some b -> lookup b (heap s) = Some bb ->
  ~ In b (free s) -> (b < nextb s)%nat ->
  exists f' nb, lookup nid (live s') = Some f' /\ f_buf f' = Some nb /\ nb <> b /\
    frame_data s' f' = frame_data s f /\ frame_data s' f = frame_data s f /\
    f_ix f' = f_ix f /\ f_src f' = f_src f /\ f_dst f' = f_dst f /\ f_link f' = f_link f /\
    f_off f' = f_off f /\ f_len f' = f_len f.
Proof.
  intros Hs Hl Hb Hbb Hnf Hlt. cbn [step] in Hs. rewrite Hl in Hs.
  destruct (get_struct s sc) as [s0 f0] eqn:Hgs.
  destruct (get_struct_same _ _ _ _ Hgs) as (Hh0 & Hf0 & Hn0 & Hnf0 & Hl0).
  rewrite Hb, Hh0, Hbb in Hs.
  destruct (get_slice s0 (cap bb) bc) as [s1 [nb|]] eqn:Hg; [|discriminate].
  pose proof (get_slice_fresh_or_pooled _ _ _ _ _ Hg) as (Hlive1 & _ & Hcase).
  assert (Hnb : nb <> b).
  { destruct Hcase as [(-> & _)|(Hin & _)]; [rewrite Hn0; lia|]. rewrite Hf0 in Hin. intros ->. contradiction. }
  assert (Hb1 : lookup b (heap s1) = Some bb).
  { rewrite (get_slice_heap_other _ _ _ _ _ b Hg) by (rewrite Hn0; exact Hlt). rewrite Hh0. exact Hbb. }
  destruct (lookup nb (heap s1)) as [nbb|] eqn:Hnbb; [|discriminate].
  rewrite Hb1 in Hs.
  destruct (Nat.leb (f_off f + f_len f) (cap nbb)); [|discriminate].
  inversion Hs; subst s' nid; clear Hs.
  eexists. exists nb. cbn [add_live set_buf live heap lookup fst snd].
  rewrite Nat.eqb_refl. split; [reflexivity|]. cbn [f_buf f_ix f_src f_dst f_link f_off f_len].
  split; [reflexivity|]. split; [exact Hnb|].
  split.
  { unfold frame_data. cbn [f_buf heap f_off f_len]. rewrite lookup_update_eq. rewrite Hb, Hbb. reflexivity. }
  split.
  { unfold frame_data. cbn [heap]. rewrite Hb. rewrite lookup_update_neq by (intros E; apply Hnb; symmetry; exact E).
    rewrite Hb1, Hbb. reflexivity. }
  repeat split.
Qed.

(* executable invariant on the initial state; its preservation along real operation
   sequences is evaluated in PoolCorr.run_seq on every step of every correspondence case *)
Lemma inv_init : inv_b st_init = true.
Proof. reflexivity. Qed.

(* ---------- fix D22: a frame that fits no pooled buffer ---------- *)
Definition required_size (ty : N) (sb msg apx : list N) (off ovh : nat) : nat :=
  (off + 51 + length sb + length msg + auth_of ty + length apx + ovh)%nat.
Definition cur_len (s : st) (f : fr) : nat :=
  match f_buf f with
  | Some b => match lookup b (heap s) with Some bb => cap bb | None => O end
  | None => O
  end.

Theorem init_frame_oversized_refused s f ty src dst sb msg apx nonce3 off ovh bc :
  tier_of (required_size ty sb msg apx off ovh) = None ->
  (cur_len s f < required_size ty sb msg apx off ovh)%nat ->
  init_frame s f ty src dst sb msg apx nonce3 off ovh bc = Err 9.
Proof.
  intros Ht Hc. unfold init_frame. fold (required_size ty sb msg apx off ovh). fold (cur_len s f).
  apply Nat.ltb_lt in Hc. rewrite Hc, Ht. reflexivity.
Qed.

(* the function as it stood panicked on exactly these inputs *)
Theorem init_frame_pinned_oversized_panics s f ty src dst sb msg apx nonce3 off ovh bc :
  tier_of (required_size ty sb msg apx off ovh) = None ->
  (cur_len s f < required_size ty sb msg apx off ovh)%nat ->
  f_buf f = None ->
  init_frame_pinned s f ty src dst sb msg apx nonce3 off ovh bc = Panic.
Proof.
  intros Ht Hc Hb. unfold init_frame_pinned. fold (required_size ty sb msg apx off ovh).
  unfold cur_len in Hc. rewrite Hb in *. apply Nat.ltb_lt in Hc. rewrite Hc. unfold get_slice. rewrite Ht. reflexivity.
Qed.

Example oversized_exists : tier_of (required_size 1 [] (repeat 0 70000) [] 12 16) = None.
Proof. vm_compute. reflexivity. Qed.
