(* ControlCorr.v — correspondence for C07 and C08 (no proofs). *)
From Verif Require Import Prelude SeqCorr SwitchLabel Table TableCorr Control.

(* association lists are compared as finite maps over the keys the harness lists *)
Definition amap_eqb (veq : N -> N -> bool) (keys : list N) (a b : list (N * N)) : bool :=
  forallb (fun k => veq (match aget k a with Some x => x | None => 0 end)
                        (match aget k b with Some x => x | None => 0 end)) keys.
Definition set_eqb (keys : list N) (a b : list N) : bool :=
  forallb (fun k => Bool.eqb (mem k a) (mem k b)) keys.
Definition conn_eqb (a b : list (N * N * N * N)) : bool :=
  list_eqb (fun x y => let '(r1, p1, o1, s1) := x in let '(r2, p2, o2, s2) := y in
                       (r1 =? r2) && (p1 =? p2) && (o1 =? o2) && (s1 =? s2)) a b.

(* C07: state before, ping, state after, addresses of interest *)
Definition c07_case := (N * cst * ping * cst * list N)%type.
Definition c07_ok (c : c07_case) : bool :=
  let '(self, pre, p, post, keys) := c in
  let m := handle_ping self pre p in
  set_eqb keys (c_known m) (c_known post) &&
  amap_eqb N.eqb keys (c_keys m) (c_keys post) &&
  amap_eqb N.eqb keys (c_mtu m) (c_mtu post) &&
  list_eqb entry_eqb (c_routes m) (c_routes post) &&
  amap_eqb N.eqb keys (c_info m) (c_info post) &&
  set_eqb keys (c_offline m) (c_offline post) &&
  set_eqb keys (c_pending m) (c_pending post) &&
  conn_eqb (c_conn m) (c_conn post).

(* C08: configuration, self, flags, now, state before (known routers, timestamps, routes),
   links, receive link, the announcement ping's gate inputs, the announcement,
   observed: handler returned without error, routes after, peers forwarded to (sorted like links) *)
Definition c08_case := (list rprefix * N * bool * bool * Z * cst * list lnk * lnk * ping * ann * (bool * list entry * list N))%type.
Definition c08_ok (c : c08_case) : bool :=
  let '(cfg, self, lite, stub, now, pre, links, recv, p, a, (acc, t', fw)) := c in
  match announce_ping cfg self lite stub now pre links recv p a with
  | Some (mt, _, mfw) => acc && list_eqb entry_eqb mt t' && list_eqb N.eqb mfw fw
  | None => (negb acc || (snd (gate self pre p) && is_looping self a)) && list_eqb entry_eqb (c_routes pre) t' && (match fw with [] => true | _ => false end)
  end.
