(* GroupProofs.v — nothing is left running after a failed start or after a stop (C20). *)
From Verif Require Import Prelude Group.

Lemma stop_from_trace mods : forall n, fst (stop_from mods n) = map CStop (rev (seq 0 n)).
Proof.
  induction n as [|i IH]; [reflexivity|]. cbn [stop_from].
  destruct (stop_from mods i) as [t ok] eqn:E. cbn [fst] in *. rewrite IH.
  rewrite seq_S, rev_app_distr. reflexivity.
Qed.

Lemma running_stops : forall l up, (forall x, In x up -> In x l) -> running (map CStop l) up = [].
Proof.
  induction l as [|a l IH]; intros up H; cbn [map running].
  - destruct up as [|x u]; [reflexivity|]. exfalso. exact (H x (or_introl eq_refl)).
  - apply IH. intros x Hx. apply filter_In in Hx. destruct Hx as [Hx Hn].
    apply negb_true_iff, Nat.eqb_neq in Hn. destruct (H x Hx) as [E|E]; [congruence|exact E].
Qed.

(* a stop brings every module down, whatever was up among 0..n-1 *)
Theorem stop_all_down mods n up : (forall x, In x up -> (x < n)%nat) -> running (fst (stop_from mods n)) up = [].
Proof.
  intros H. rewrite stop_from_trace. apply running_stops.
  intros x Hx. rewrite <- in_rev. apply in_seq. specialize (H x Hx). lia.
Qed.

Lemma start_from_running mods : forall rest i up,
  (forall x, In x up -> (x < i)%nat) ->
  snd (start_from mods rest i) = false -> running (fst (start_from mods rest i)) up = [].
Proof.
  induction rest as [|m t IH]; intros i up Hup; cbn [start_from]; [discriminate|].
  destruct (start_ok m).
  - destruct (start_from mods t (S i)) as [tr ok] eqn:E. cbn [fst snd running]. intros Hok.
    specialize (IH (S i) (i :: up)). rewrite E in IH. cbn [fst snd] in IH. apply IH; [|exact Hok].
    intros x [<-|Hx]; [lia|]. specialize (Hup x Hx). lia.
  - cbn [fst snd running]. intros _. apply stop_all_down. intros x [<-|Hx]; [lia|]. specialize (Hup x Hx). lia.
Qed.

(* Start fails: the failing module and every module started before it has been stopped again;
   nothing is left running *)
Theorem failed_start_leaves_nothing mods :
  snd (g_start mods) = false -> running (fst (g_start mods)) [] = [].
Proof. apply start_from_running. intros x []. Qed.

Lemma start_from_ok_trace mods : forall rest i,
  snd (start_from mods rest i) = true -> fst (start_from mods rest i) = map CStart (seq i (length rest)).
Proof.
  induction rest as [|m t IH]; intros i; cbn [start_from]; [reflexivity|].
  destruct (start_ok m); [|discriminate].
  destruct (start_from mods t (S i)) as [tr ok] eqn:E. cbn [fst snd]. intros Hok.
  specialize (IH (S i)). rewrite E in IH. cbn [fst snd] in IH. rewrite (IH Hok). reflexivity.
Qed.

Lemma running_starts : forall l up, running (map CStart l) up = rev l ++ up.
Proof.
  induction l as [|a l IH]; intros up; cbn [map running]; [reflexivity|].
  rewrite IH. cbn [rev]. rewrite <- app_assoc. reflexivity.
Qed.

(* Start succeeds: every module was started once, in order; a following Stop stops every one of
   them once, in reverse order, and leaves nothing running; it reports success iff every module
   stopped without error and its workers exited *)
Theorem start_then_stop mods :
  snd (g_start mods) = true ->
  fst (g_start mods) = map CStart (seq 0 (length mods)) /\
  fst (g_stop mods) = map CStop (rev (seq 0 (length mods))) /\
  running (fst (g_start mods) ++ fst (g_stop mods)) [] = [].
Proof.
  intros H. unfold g_start in *. pose proof (start_from_ok_trace mods mods 0 H) as Ht.
  split; [exact Ht|]. split; [apply stop_from_trace|].
  rewrite Ht. assert (R : forall a b up, running (a ++ b) up = running b (running a up)).
  { induction a as [|c a IH]; intros b up; [reflexivity|]. destruct c; cbn [app running]; apply IH. }
  rewrite R, running_starts. apply stop_all_down. intros x Hx. rewrite app_nil_r in Hx. apply in_rev, in_seq in Hx. lia.
Qed.

Lemma stop_from_ok mods : forall n,
  snd (stop_from mods n) = forallb (fun i => let m := nth i mods (mkMb true true true) in stop_ok m && workers_exit m) (seq 0 n).
Proof.
  induction n as [|i IH]; [reflexivity|]. cbn [stop_from]. destruct (stop_from mods i) as [t ok]. cbn [snd] in *.
  rewrite seq_S, forallb_app. cbn [forallb]. rewrite IH, andb_true_r. cbn [Nat.add]. apply andb_comm.
Qed.
