(* SeqProofs.v — lemmas about Seq.v.  Property theorems are re-exported in Properties/C03.v. *)
From Verif Require Import Prelude Seq.

Lemma bit64_spec k j : N.testbit (bit64 k) j = (j <? 64) && (k =? j).
Proof.
  unfold bit64. destruct (N.leb_spec 64 k) as [Hk|Hk].
  - rewrite N.bits_0. destruct (N.ltb_spec j 64) as [Hj|Hj]; [|reflexivity].
    replace (k =? j) with false by (symmetry; apply N.eqb_neq; lia). reflexivity.
  - unfold trunc64. rewrite trunc_spec, onebit_spec. destruct (j <? 64); reflexivity.
Qed.

Lemma shl64_spec x d k :
  N.testbit (shl64 x d) k = (k <? 64) && negb (k <? d) && N.testbit x (k - d).
Proof.
  unfold shl64. destruct (N.leb_spec 64 d) as [Hd|Hd].
  - rewrite N.bits_0. destruct (N.ltb_spec k 64) as [Hk|Hk]; [|reflexivity].
    replace (k <? d) with true by (symmetry; apply N.ltb_lt; lia). reflexivity.
  - unfold trunc64. rewrite trunc_spec, shl_spec.
    destruct (k <? 64), (k <? d); reflexivity.
Qed.

(* Invariant linking the window state to the list [acc] of everything accepted so far. *)
Definition Inv (s : sh) (acc : list N) : Prop :=
  (forall a, In a acc -> a <= hi s) /\
  (forall a, In a acc -> a < hi s -> hi s - a <= 64 -> N.testbit (bm s) (hi s - a - 1) = true) /\
  (hi s = 0 \/ In (hi s) acc).

Lemma inv_init b0 : Inv {| hi := 0; bm := b0 |} [].
Proof. repeat split; simpl; try tauto. Qed.

Lemma check_inv s acc q s' b :
  Inv s acc -> check s q = (s', b) ->
  (b = true -> ~ In q acc) /\ Inv s' (if b then q :: acc else acc).
Proof.
  intros (Hle & Hbit & Hhi) Hc. unfold check in Hc.
  destruct (N.eqb_spec q (hi s)) as [Heq|Hne].
  { inversion Hc; subst s' b. split; [discriminate|]. repeat split; assumption. }
  destruct (N.ltb_spec (hi s) q) as [Hlt|Hge].
  { (* window advances *)
    inversion Hc; subst s' b; clear Hc. split.
    - intros _ Hin. apply Hle in Hin. lia.
    - repeat split; cbn [hi bm].
      + intros a [<-|Hin]; [lia|]. apply Hle in Hin. lia.
      + intros a [<-|Hin] Halt Hwin; [lia|].
        rewrite N.lor_spec, shl64_spec, bit64_spec.
        pose proof (Hle a Hin) as Hale.
        destruct (N.eq_dec a (hi s)) as [->|Hneq].
        * replace (q - hi s - 1 =? q - hi s - 1) with true by (symmetry; apply N.eqb_refl).
          replace (q - hi s - 1 <? 64) with true by (symmetry; apply N.ltb_lt; lia).
          simpl. apply orb_true_r.
        * assert (Ha : a < hi s) by lia.
          replace (q - a - 1 <? 64) with true by (symmetry; apply N.ltb_lt; lia).
          replace (q - a - 1 <? q - hi s) with false by (symmetry; apply N.ltb_ge; lia).
          replace (q - a - 1 - (q - hi s)) with (hi s - a - 1) by lia.
          rewrite Hbit; [reflexivity|assumption|assumption|lia].
      + right. left. reflexivity. }
  (* q < hi s *)
  destruct (N.ltb_spec 64 (hi s - q)) as [Hfar|Hnear].
  { inversion Hc; subst s' b. split; [discriminate|]. repeat split; assumption. }
  destruct (N.testbit (bm s) (hi s - q - 1)) eqn:Htb.
  { inversion Hc; subst s' b. split; [discriminate|]. repeat split; assumption. }
  inversion Hc; subst s' b; clear Hc. split.
  - intros _ Hin. rewrite Hbit in Htb; [discriminate|assumption|lia|lia].
  - repeat split; cbn [hi bm].
    + intros a [<-|Hin]; [lia|]. apply Hle; assumption.
    + intros a [<-|Hin] Halt Hwin; rewrite N.lor_spec, bit64_spec.
      * rewrite N.eqb_refl.
        replace (hi s - q - 1 <? 64) with true by (symmetry; apply N.ltb_lt; lia).
        apply orb_true_r.
      * rewrite Hbit; [reflexivity|assumption|assumption|assumption].
    + destruct Hhi as [Hz|Hin]; [left; assumption|right; right; assumption].
Qed.

Lemma accepted_fresh_nodup l : forall s acc,
  Inv s acc ->
  (forall x, In x (accepted check s l) -> ~ In x acc) /\ NoDup (accepted check s l).
Proof.
  induction l as [|q t IH]; intros s acc HI; cbn [accepted].
  - split; [intros x []|constructor].
  - destruct (check s q) as [s' b] eqn:Hc.
    destruct (check_inv _ _ _ _ _ HI Hc) as [Hfresh HI'].
    destruct b.
    + destruct (IH _ _ HI') as [Hdis Hnd]. split.
      * intros x [<-|Hin]; [apply Hfresh; reflexivity|].
        intros Hacc. apply (Hdis x Hin). right; assumption.
      * constructor; [|assumption]. intros Hin. apply (Hdis q Hin). left; reflexivity.
    + apply IH; assumption.
Qed.

(* at most once: any start bitmap (a stale one after a key rollover included) *)
Theorem at_most_once_any_bitmap b0 l : NoDup (accepted check {| hi := 0; bm := b0 |} l).
Proof. apply (accepted_fresh_nodup l _ []). apply inv_init. Qed.

(* ---------- liveness inside the window (fresh handler: bitmap 0) ---------- *)
Definition InvC (s : sh) (acc : list N) : Prop :=
  forall k, N.testbit (bm s) k = true ->
    k < 64 /\ k + 1 <= hi s /\ (In (hi s - k - 1) acc \/ hi s - k - 1 = 0).

Lemma invc_init : InvC sh_init [].
Proof. intros k H. unfold sh_init in H. cbn [bm] in H. rewrite N.bits_0 in H. discriminate. Qed.

Lemma check_invc s acc q s' b :
  Inv s acc -> InvC s acc -> check s q = (s', b) -> InvC s' (if b then q :: acc else acc).
Proof.
  intros (Hle & Hbit & Hhi) HC Hc. unfold check in Hc.
  destruct (N.eqb_spec q (hi s)) as [Heq|Hne].
  { inversion Hc; subst s' b. assumption. }
  destruct (N.ltb_spec (hi s) q) as [Hlt|Hge].
  { inversion Hc; subst s' b; clear Hc. intros k Hk; cbn [hi bm] in *.
    rewrite N.lor_spec, shl64_spec, bit64_spec in Hk.
    apply orb_true_iff in Hk as [Hk|Hk].
    - apply andb_true_iff in Hk as [Hk Hb]. apply andb_true_iff in Hk as [Hk64 Hkd].
      apply N.ltb_lt in Hk64. apply negb_true_iff, N.ltb_ge in Hkd.
      destruct (HC _ Hb) as (H1 & H2 & H3).
      split; [assumption|]. split; [lia|].
      replace (q - k - 1) with (hi s - (k - (q - hi s)) - 1) by lia.
      destruct H3 as [H3|H3]; [left; right; assumption|right; assumption].
    - apply andb_true_iff in Hk as [Hk64 Hke]. apply N.ltb_lt in Hk64. apply N.eqb_eq in Hke.
      split; [assumption|]. split; [lia|].
      replace (q - k - 1) with (hi s) by lia.
      destruct Hhi as [Hz|Hin]; [right; assumption|left; right; assumption]. }
  destruct (N.ltb_spec 64 (hi s - q)) as [Hfar|Hnear].
  { inversion Hc; subst s' b. assumption. }
  destruct (N.testbit (bm s) (hi s - q - 1)) eqn:Htb.
  { inversion Hc; subst s' b. assumption. }
  inversion Hc; subst s' b; clear Hc. intros k Hk; cbn [hi bm] in *.
  rewrite N.lor_spec, bit64_spec in Hk. apply orb_true_iff in Hk as [Hk|Hk].
  - destruct (HC _ Hk) as (H1 & H2 & H3). split; [assumption|]. split; [assumption|].
    destruct H3 as [H3|H3]; [left; right; assumption|right; assumption].
  - apply andb_true_iff in Hk as [Hk64 Hke]. apply N.ltb_lt in Hk64. apply N.eqb_eq in Hke.
    split; [assumption|]. split; [lia|]. left. left. lia.
Qed.

(* state and accepted-list after a history, as a pair, for stating liveness *)
Fixpoint run_acc (s : sh) (acc : list N) (l : list N) : sh * list N :=
  match l with
  | [] => (s, acc)
  | q :: t => let '(s', b) := check s q in run_acc s' (if b then q :: acc else acc) t
  end.

Lemma run_acc_inv l : forall s acc, Inv s acc -> InvC s acc ->
  Inv (fst (run_acc s acc l)) (snd (run_acc s acc l)) /\
  InvC (fst (run_acc s acc l)) (snd (run_acc s acc l)).
Proof.
  induction l as [|q t IH]; intros s acc HI HC; cbn [run_acc]; [split; assumption|].
  destruct (check s q) as [s' b] eqn:Hc. apply IH.
  - eapply check_inv; eassumption.
  - eapply check_invc; eassumption.
Qed.

Lemma run_acc_accepted l : forall s acc,
  snd (run_acc s acc l) = rev (accepted check s l) ++ acc.
Proof.
  induction l as [|q t IH]; intros s acc; cbn [run_acc accepted]; [reflexivity|].
  destruct (check s q) as [s' [|]]; rewrite IH; cbn [rev]; [rewrite <- app_assoc|]; reflexivity.
Qed.

Lemma run_acc_final l : forall s acc, fst (run_acc s acc l) = final check s l.
Proof.
  induction l as [|q t IH]; intros s acc; cbn [run_acc final]; [reflexivity|].
  destruct (check s q) as [s' b]; apply IH.
Qed.

(* A sequence number that was never accepted, is not 0, and is newer than or at most 64 behind
   the newest accepted one, is accepted. *)
Theorem window_liveness l q :
  let s := final check sh_init l in
  q <> 0 -> ~ In q (accepted check sh_init l) -> hi s <= q + 64 ->
  snd (check s q) = true.
Proof.
  intros s Hq Hnin Hwin.
  destruct (run_acc_inv l sh_init [] (inv_init 0) invc_init) as [HI HC].
  rewrite run_acc_final in HI, HC. rewrite run_acc_accepted, app_nil_r in HI, HC.
  fold s in HI, HC. destruct HI as (Hle & Hbit & Hhi).
  assert (Hnin' : ~ In q (rev (accepted check sh_init l))) by (rewrite <- in_rev; assumption).
  unfold check.
  destruct (N.eqb_spec q (hi s)) as [Heq|Hne].
  { exfalso. destruct Hhi as [Hz|Hin]; [lia|]. apply Hnin'. rewrite Heq. assumption. }
  destruct (N.ltb_spec (hi s) q) as [Hlt|Hge]; [reflexivity|].
  destruct (N.ltb_spec 64 (hi s - q)) as [Hfar|Hnear]; [lia|].
  destruct (N.testbit (bm s) (hi s - q - 1)) eqn:Htb; [|reflexivity].
  exfalso. destruct (HC _ Htb) as (_ & _ & [Hin|Hz]).
  - apply Hnin'. replace (hi s - (hi s - q - 1) - 1) with q in Hin by lia. assumption.
  - lia.
Qed.


(* ---------- signed frames ---------- *)
Lemma taccepted_gt l : forall latest x, In x (taccepted latest l) -> (latest < x)%Z.
Proof.
  induction l as [|t r IH]; intros latest x; cbn [taccepted]; [intros []|].
  unfold tcheck. destruct (Z.eqb_spec t latest) as [->|Hne]; [apply IH|].
  destruct (Z.ltb_spec t latest) as [Hlt|Hge]; [apply IH|].
  intros [<-|Hin]; [lia|]. apply IH in Hin. lia.
Qed.

Theorem signed_strict l : forall latest, StronglySorted Z.lt (taccepted latest l).
Proof.
  induction l as [|t r IH]; intros latest; cbn [taccepted]; [constructor|].
  unfold tcheck. destruct (Z.eqb_spec t latest) as [->|Hne]; [apply IH|].
  destruct (Z.ltb_spec t latest) as [Hlt|Hge]; [apply IH|].
  constructor; [apply IH|]. apply Forall_forall. intros x Hin. eapply taccepted_gt; eassumption.
Qed.

Lemma sorted_lt_nodup l : StronglySorted Z.lt l -> NoDup l.
Proof.
  induction 1 as [|a l Hs IH Hall]; constructor; [|assumption].
  intros Hin. rewrite Forall_forall in Hall. specialize (Hall _ Hin). lia.
Qed.

Theorem signed_at_most_once latest l : NoDup (taccepted latest l).
Proof. apply sorted_lt_nodup, signed_strict. Qed.

(* ---------- delivery level ---------- *)
Lemma delivered_is_accepted l : forall s,
  delivered s l = accepted check s (map fst (filter snd l)).
Proof.
  induction l as [|[q o] t IH]; intros s; cbn [delivered filter map accepted unseal_step snd fst]; [reflexivity|].
  destruct o; cbn [map accepted fst].
  - destruct (check s q) as [s' [|]]; rewrite IH; reflexivity.
  - apply IH.
Qed.

Theorem delivered_at_most_once b0 l : NoDup (delivered {| hi := 0; bm := b0 |} l).
Proof. rewrite delivered_is_accepted. apply at_most_once_any_bitmap. Qed.

(* signed frames: frames that do not verify leave no trace *)
Lemma tdelivered_is_taccepted l : forall latest,
  tdelivered latest l = taccepted latest (map fst (filter snd l)).
Proof.
  induction l as [|[t v] r IH]; intros latest; [reflexivity|].
  cbn [tdelivered filter map taccepted snd fst]. destruct v; cbn [map taccepted fst].
  - destruct (tcheck latest t) as [l' [|]]; rewrite IH; reflexivity.
  - apply IH.
Qed.

(* a frame that does not open changes nothing *)
Lemma failed_open_no_change s q : unseal_step s (q, false) = (s, false).
Proof. reflexivity. Qed.

(* failed key-setup attempts interleaved anywhere change nothing *)
Lemma delivered_ops_frames : forall l s, delivered_ops s l = delivered s (frames_of l).
Proof.
  induction l as [|o t IH]; intros s; [reflexivity|]. destruct o as [f|]; cbn [delivered_ops frames_of flat_map app delivered].
  - fold (frames_of t). destruct (unseal_step s f) as [s' b]. destruct b; rewrite IH; reflexivity.
  - apply IH.
Qed.
Theorem delivered_ops_at_most_once b0 l : NoDup (delivered_ops {| hi := 0; bm := b0 |} l).
Proof. rewrite delivered_ops_frames. apply delivered_at_most_once. Qed.
