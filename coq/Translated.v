(* Translated.v — the Gallina definitions that `harness gen` TRANSLATES from /repo's Go source on
   every run (Gen.go_*: state.SequenceHandler.Check / RolloverRequired / NextOut / Reset*,
   state.TimeSequenceHandler.Check, m.SwitchLabel.EncodedSize, frame.MessageType.Class /
   IsPriority / IsEncrypted) are proved equal, for all inputs in the machine-integer ranges, to
   the hand-written model functions the property theorems are stated about.  A source change to
   one of these functions changes Gen.v, and these proofs are re-checked against it. *)
From Verif Require Import Prelude Gen Seq SeqProofs Session SwitchLabel.

Local Transparent pow2 onebit shl.

Lemma pow_nz w : 2 ^ w <> 0.
Proof. apply N.pow_nonzero. discriminate. Qed.

Lemma go_sub_small w a b : b <= a -> a < 2 ^ w -> go_sub w a b = a - b.
Proof.
  intros Hba Ha. unfold go_sub. rewrite (N.mod_small b) by lia.
  replace (a + 2 ^ w - b) with ((a - b) + 1 * 2 ^ w) by lia.
  rewrite N.mod_add by apply pow_nz. apply N.mod_small. lia.
Qed.

Lemma go_add_spec w a b : go_add w a b = (a + b) mod 2 ^ w.
Proof. reflexivity. Qed.

Lemma go_shl_shl64 x d : go_shl 64 x d = shl64 x d.
Proof. reflexivity. Qed.

Lemma go_shl_bit64 k : go_shl 64 1 k = bit64 k.
Proof. reflexivity. Qed.

Lemma bit64_small k : k < 64 -> bit64 k = 2 ^ k.
Proof.
  intros Hk. unfold bit64, trunc64, trunc, onebit, pow2. rewrite N.shiftl_1_l.
  apply N.mod_small. apply N.pow_lt_mono_r; lia.
Qed.

Lemma land_pow2_testbit a k : (0 <? N.land a (2 ^ k)) = N.testbit a k.
Proof.
  destruct (N.testbit a k) eqn:Hb.
  - apply N.ltb_lt. apply N.neq_0_lt_0. intro H0.
    assert (Ht : N.testbit (N.land a (2 ^ k)) k = true).
    { rewrite N.land_spec, Hb, N.pow2_bits_true. reflexivity. }
    rewrite H0 in Ht. rewrite N.bits_0 in Ht. discriminate.
  - apply N.ltb_ge. apply N.le_0_r. apply N.bits_inj_0. intros j.
    rewrite N.land_spec, N.pow2_bits_eqb. destruct (N.eqb_spec k j) as [->|_].
    + rewrite Hb. reflexivity.
    + apply andb_false_r.
Qed.

(* ---------- state.SequenceHandler.Check ---------- *)
Definition code_ok (c : N) : bool := c =? 0.

Theorem go_check_is_model : forall b h q, h < 2 ^ 32 -> q < 2 ^ 32 ->
  let '(b', h', c) := go_SequenceHandler_Check b h q in
  let '(s', ok) := check {| hi := h; bm := b |} q in
  b' = bm s' /\ h' = hi s' /\ code_ok c = ok.
Proof.
  intros b h q Hh Hq. unfold go_SequenceHandler_Check, check. cbn [hi bm].
  destruct (N.eqb_spec q h) as [->|Hne].
  - cbn. auto.
  - destruct (N.ltb_spec h q) as [Hlt|Hge].
    + rewrite (go_sub_small 32 q h) by lia.
      rewrite (go_sub_small 32 (q - h) 1) by lia.
      rewrite go_shl_shl64, go_shl_bit64. cbn. auto.
    + destruct (N.ltb_spec q h) as [Hlt|Hge']; [|lia].
      rewrite (go_sub_small 32 h q) by lia.
      destruct (N.ltb_spec 64 (h - q)) as [Hfar|Hnear].
      * cbn. auto.
      * rewrite (go_sub_small 32 (h - q) 1) by lia.
        rewrite go_shl_bit64. rewrite bit64_small by lia.
        rewrite land_pow2_testbit.
        destruct (N.testbit b (h - q - 1)); cbn; auto.
Qed.

(* run of a whole delivery history through the translated function *)
Fixpoint go_accepted (b h : N) (l : list N) : list N :=
  match l with
  | [] => []
  | q :: t => let '(b', h', c) := go_SequenceHandler_Check b h q in
              if code_ok c then q :: go_accepted b' h' t else go_accepted b' h' t
  end.

Lemma check_hi_bound s q : hi s < 2 ^ 32 -> q < 2 ^ 32 -> hi (fst (check s q)) < 2 ^ 32.
Proof.
  intros Hs Hq. unfold check.
  destruct (q =? hi s); [exact Hs|]. destruct (hi s <? q); [exact Hq|].
  destruct (64 <? hi s - q); [exact Hs|]. destruct (N.testbit _ _); exact Hs.
Qed.

Theorem go_accepted_is_model : forall l b h, h < 2 ^ 32 -> Forall (fun q => q < 2 ^ 32) l ->
  go_accepted b h l = accepted check {| hi := h; bm := b |} l.
Proof.
  induction l as [|q t IH]; intros b h Hh Hl; [reflexivity|].
  inversion Hl as [|? ? Hq Ht]; subst.
  cbn [go_accepted accepted].
  pose proof (go_check_is_model b h q Hh Hq) as E.
  pose proof (check_hi_bound {| hi := h; bm := b |} q Hh Hq) as Hb.
  destruct (go_SequenceHandler_Check b h q) as [[b' h'] c].
  destruct (check {| hi := h; bm := b |} q) as [s' ok].
  destruct E as (-> & -> & ->). cbn [fst] in Hb.
  destruct s' as [h' b']. cbn [hi bm] in *.
  destruct ok; rewrite IH by assumption; reflexivity.
Qed.

(* the property, stated about the translated source itself *)
Theorem go_at_most_once : forall b0 l, Forall (fun q => q < 2 ^ 32) l -> NoDup (go_accepted b0 0 l).
Proof.
  intros b0 l Hl. rewrite go_accepted_is_model; [apply at_most_once_any_bitmap | reflexivity | exact Hl].
Qed.

(* ---------- state.TimeSequenceHandler.Check ---------- *)
Theorem go_tcheck_is_model : forall latest t,
  let '(l', c) := go_TimeSequenceHandler_Check latest t in
  (l', code_ok c) = tcheck latest t.
Proof.
  intros latest t. unfold go_TimeSequenceHandler_Check, tcheck.
  destruct (Z.eqb t latest); [reflexivity|]. destruct (Z.ltb t latest); reflexivity.
Qed.

(* ---------- state.SequenceHandler.NextOut / RolloverRequired / Reset* ---------- *)
Theorem go_next_out_is_model : forall q, q_out q < two32 ->
  let '(o', s, roll) := go_SequenceHandler_NextOut (q_out q) in
  next_out q = (mkSq (q_hi q) (q_bm q) o', s, roll).
Proof.
  intros q Hq. unfold go_SequenceHandler_NextOut, next_out. rewrite !go_add_spec.
  change (2 ^ 32) with two32.
  destruct (N.eqb_spec ((q_out q + 1) mod two32) 0) as [E|E].
  - rewrite E. reflexivity.
  - reflexivity.
Qed.

Theorem go_rollover_required_is_model : forall q seq,
  let '(h', r) := go_SequenceHandler_RolloverRequired (q_hi q) seq in
  rollover_required q seq = ((if r then mkSq h' (q_bm q) (q_out q) else q), r) /\ (r = false -> h' = q_hi q).
Proof.
  intros q seq. unfold go_SequenceHandler_RolloverRequired, rollover_required.
  change Gen.state_rolloverUpperBound with 4294967040. change Gen.state_rolloverLowerBound with 255.
  destruct (q_hi q <? 4294967040); [split; reflexivity|].
  destruct (255 <? seq); split; try reflexivity. discriminate.
Qed.

Theorem go_resets_are_model : forall q,
  reset_out q = mkSq (q_hi q) (q_bm q) (go_SequenceHandler_ResetOut (q_out q)) /\
  reset_in q = mkSq (go_SequenceHandler_ResetIn (q_hi q)) (q_bm q) (q_out q) /\
  reset_both q = (let '(h, o) := go_SequenceHandler_Reset (q_hi q) (q_out q) in mkSq h (q_bm q) o).
Proof. intros q. repeat split. Qed.

(* ---------- m.SwitchLabel.EncodedSize ---------- *)
Theorem go_encoded_size_is_model : forall x, go_SwitchLabel_EncodedSize x = Z.of_nat (esize x).
Proof.
  intros x. unfold go_SwitchLabel_EncodedSize, esize.
  destruct (x <=? 127); [reflexivity|]. destruct (x <=? 16383); reflexivity.
Qed.

(* ---------- frame.MessageType.Class / IsPriority / IsEncrypted ---------- *)
(* the class tables of Gen.v are tabulated from the COMPILED code (all 256 inputs); the
   translated SOURCE agrees with them on every uint8 *)
Definition all_u8 : list N := map N.of_nat (seq 0 256).

Lemma all_u8_complete x : x < 256 -> In x all_u8.
Proof.
  intros H. unfold all_u8. apply in_map_iff. exists (N.to_nat x). split; [lia|].
  apply in_seq. lia.
Qed.

Theorem go_message_type_tables : forall t, t < 256 ->
  go_MessageType_Class t = Gen.msg_class t /\
  go_MessageType_IsPriority t = Gen.is_prio t /\
  go_MessageType_IsEncrypted t = Gen.is_enc t.
Proof.
  assert (H : forallb (fun t => (go_MessageType_Class t =? Gen.msg_class t) &&
                                Bool.eqb (go_MessageType_IsPriority t) (Gen.is_prio t) &&
                                Bool.eqb (go_MessageType_IsEncrypted t) (Gen.is_enc t)) all_u8 = true)
    by (vm_compute; reflexivity).
  intros t Ht. rewrite forallb_forall in H. specialize (H t (all_u8_complete t Ht)).
  apply andb_true_iff in H as [H H3]. apply andb_true_iff in H as [H1 H2].
  apply N.eqb_eq in H1. apply Bool.eqb_prop in H2. apply Bool.eqb_prop in H3. auto.
Qed.

Theorem all_translated :
  go_SequenceHandler_Check_translated = true /\ go_SequenceHandler_RolloverRequired_translated = true /\
  go_SequenceHandler_NextOut_translated = true /\ go_SequenceHandler_Reset_translated = true /\
  go_SequenceHandler_ResetIn_translated = true /\ go_SequenceHandler_ResetOut_translated = true /\
  go_TimeSequenceHandler_Check_translated = true /\ go_SwitchLabel_EncodedSize_translated = true /\
  go_MessageType_Class_translated = true /\ go_MessageType_IsPriority_translated = true /\
  go_MessageType_IsEncrypted_translated = true.
Proof. repeat split. Qed.
