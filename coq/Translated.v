(* Translated.v — the Gallina definitions that `harness gen` TRANSLATES from /repo's Go source on
   every run (Gen.go_*: state.SequenceHandler.Check / RolloverRequired / NextOut / Reset*,
   state.TimeSequenceHandler.Check, m.SwitchLabel.EncodedSize, frame.MessageType.Class /
   IsPriority / IsEncrypted) are proved equal, for all inputs in the machine-integer ranges, to
   the hand-written model functions the property theorems are stated about.  A source change to
   one of these functions changes Gen.v, and these proofs are re-checked against it. *)
From Verif Require Import Prelude Gen Seq SeqProofs Session SwitchLabel.

Local Transparent pow2 onebit shl.

Lemma pow_nz w : 2 ^ w <> 0.
Proof. apply N.pow_nonzero. discriminate. Qed.

Lemma go_sub_small w a b : b <= a -> a < 2 ^ w -> go_sub w a b = a - b.
Proof.
  intros Hba Ha. unfold go_sub. rewrite (N.mod_small b) by lia.
  replace (a + 2 ^ w - b) with ((a - b) + 1 * 2 ^ w) by lia.
  rewrite N.mod_add by apply pow_nz. apply N.mod_small. lia.
Qed.

Lemma go_add_spec w a b : go_add w a b = (a + b) mod 2 ^ w.
Proof. reflexivity. Qed.

Lemma go_shl_shl64 x d : go_shl 64 x d = shl64 x d.
Proof.
  apply N.bits_inj. intro k. rewrite shl64_spec. unfold go_shl.
  change (N.shiftl x d mod 2 ^ 64) with (trunc 64 (shl x d)). rewrite trunc_spec, shl_spec.
  destruct (k <? 64), (k <? d); reflexivity.
Qed.

Lemma go_shl_bit64 k : go_shl 64 1 k = bit64 k.
Proof.
  apply N.bits_inj. intro j. rewrite bit64_spec. unfold go_shl.
  change (N.shiftl 1 k mod 2 ^ 64) with (trunc 64 (onebit k)). rewrite trunc_spec, onebit_spec.
  destruct (j <? 64); reflexivity.
Qed.

Lemma bit64_small k : k < 64 -> bit64 k = 2 ^ k.
Proof.
  intros Hk. unfold bit64. replace (64 <=? k) with false by (symmetry; apply N.leb_gt; exact Hk).
  unfold trunc64, trunc, onebit, pow2. rewrite N.shiftl_1_l.
  apply N.mod_small. apply N.pow_lt_mono_r; lia.
Qed.

Lemma land_pow2_testbit a k : (0 <? N.land a (2 ^ k)) = N.testbit a k.
Proof.
  destruct (N.testbit a k) eqn:Hb.
  - apply N.ltb_lt. apply N.neq_0_lt_0. intro H0.
    assert (Ht : N.testbit (N.land a (2 ^ k)) k = true).
    { rewrite N.land_spec, Hb, N.pow2_bits_true. reflexivity. }
    rewrite H0 in Ht. rewrite N.bits_0 in Ht. discriminate.
  - apply N.ltb_ge. apply N.le_0_r. apply N.bits_inj_0. intros j.
    rewrite N.land_spec, N.pow2_bits_eqb. destruct (N.eqb_spec k j) as [->|_].
    + rewrite Hb. reflexivity.
    + apply andb_false_r.
Qed.

(* ---------- state.SequenceHandler.Check ---------- *)
Definition code_ok (c : N) : bool := c =? 0.

Theorem go_check_is_model : forall b h q, h < 2 ^ 32 -> q < 2 ^ 32 ->
  let '(b', h', c) := go_SequenceHandler_Check b h q in
  let '(s', ok) := check {| hi := h; bm := b |} q in
  b' = bm s' /\ h' = hi s' /\ code_ok c = ok.
Proof.
  intros b h q Hh Hq. unfold go_SequenceHandler_Check, check. cbn [hi bm].
  destruct (N.eqb_spec q h) as [->|Hne].
  - cbn. auto.
  - destruct (N.ltb_spec h q) as [Hlt|Hge].
    + rewrite (go_sub_small 32 q h) by lia.
      rewrite (go_sub_small 32 (q - h) 1) by lia.
      rewrite go_shl_shl64, go_shl_bit64. cbn. auto.
    + destruct (N.ltb_spec q h) as [Hlt|Hge']; [|lia].
      rewrite (go_sub_small 32 h q) by lia.
      destruct (N.ltb_spec 64 (h - q)) as [Hfar|Hnear].
      * cbn. auto.
      * rewrite (go_sub_small 32 (h - q) 1) by lia.
        rewrite go_shl_bit64. rewrite bit64_small by lia.
        rewrite land_pow2_testbit.
        destruct (N.testbit b (h - q - 1)); cbn; auto.
Qed.

(* run of a whole delivery history through the translated function *)
Fixpoint go_accepted (b h : N) (l : list N) : list N :=
  match l with
  | [] => []
  | q :: t => let '(b', h', c) := go_SequenceHandler_Check b h q in
              if code_ok c then q :: go_accepted b' h' t else go_accepted b' h' t
  end.

Lemma check_hi_bound s q : hi s < 2 ^ 32 -> q < 2 ^ 32 -> hi (fst (check s q)) < 2 ^ 32.
Proof.
  intros Hs Hq. unfold check.
  destruct (q =? hi s); [exact Hs|]. destruct (hi s <? q); [exact Hq|].
  destruct (64 <? hi s - q); [exact Hs|]. destruct (N.testbit _ _); exact Hs.
Qed.

Theorem go_accepted_is_model : forall l b h, h < 2 ^ 32 -> Forall (fun q => q < 2 ^ 32) l ->
  go_accepted b h l = accepted check {| hi := h; bm := b |} l.
Proof.
  induction l as [|q t IH]; intros b h Hh Hl; [reflexivity|].
  inversion Hl as [|? ? Hq Ht]; subst.
  cbn [go_accepted accepted].
  pose proof (go_check_is_model b h q Hh Hq) as E.
  pose proof (check_hi_bound {| hi := h; bm := b |} q Hh Hq) as Hb.
  destruct (go_SequenceHandler_Check b h q) as [[b' h'] c].
  destruct (check {| hi := h; bm := b |} q) as [s' ok].
  destruct E as (-> & -> & ->). cbn [fst] in Hb.
  destruct s' as [h' b']. cbn [hi bm] in *.
  destruct ok; rewrite IH by assumption; reflexivity.
Qed.

(* the property, stated about the translated source itself *)
Theorem go_at_most_once : forall b0 l, Forall (fun q => q < 2 ^ 32) l -> NoDup (go_accepted b0 0 l).
Proof.
  intros b0 l Hl. rewrite go_accepted_is_model; [apply at_most_once_any_bitmap | reflexivity | exact Hl].
Qed.

(* ---------- state.TimeSequenceHandler.Check ---------- *)
Theorem go_tcheck_is_model : forall latest t,
  let '(l', c) := go_TimeSequenceHandler_Check latest t in
  (l', code_ok c) = tcheck latest t.
Proof.
  intros latest t. unfold go_TimeSequenceHandler_Check, tcheck.
  destruct (Z.eqb t latest); [reflexivity|]. destruct (Z.ltb t latest); reflexivity.
Qed.

(* ---------- state.SequenceHandler.NextOut / RolloverRequired / Reset* ---------- *)
Theorem go_next_out_is_model : forall q, q_out q < two32 ->
  let '(o', s, roll) := go_SequenceHandler_NextOut (q_out q) in
  next_out q = (mkSq (q_hi q) (q_bm q) o', s, roll).
Proof.
  intros q Hq. unfold go_SequenceHandler_NextOut, next_out. rewrite !go_add_spec.
  change (2 ^ 32) with two32.
  destruct (N.eqb_spec ((q_out q + 1) mod two32) 0) as [E|E].
  - rewrite E. reflexivity.
  - reflexivity.
Qed.

Theorem go_rollover_required_is_model : forall q seq,
  let '(h', r) := go_SequenceHandler_RolloverRequired (q_hi q) seq in
  rollover_required q seq = ((if r then mkSq h' (q_bm q) (q_out q) else q), r) /\ (r = false -> h' = q_hi q).
Proof.
  intros q seq. unfold go_SequenceHandler_RolloverRequired, rollover_required.
  change Gen.state_rolloverUpperBound with 4294967040. change Gen.state_rolloverLowerBound with 255.
  destruct (q_hi q <? 4294967040); [split; reflexivity|].
  destruct (255 <? seq); split; try reflexivity. discriminate.
Qed.

Theorem go_resets_are_model : forall q,
  reset_out q = mkSq (q_hi q) (q_bm q) (go_SequenceHandler_ResetOut (q_out q)) /\
  reset_in q = mkSq (go_SequenceHandler_ResetIn (q_hi q)) (q_bm q) (q_out q) /\
  reset_both q = (let '(h, o) := go_SequenceHandler_Reset (q_hi q) (q_out q) in mkSq h (q_bm q) o).
Proof. intros q. repeat split. Qed.

(* ---------- m.SwitchLabel.EncodedSize ---------- *)
Theorem go_encoded_size_is_model : forall x, go_SwitchLabel_EncodedSize x = Z.of_nat (esize x).
Proof.
  intros x. unfold go_SwitchLabel_EncodedSize, esize.
  destruct (x <=? 127); [reflexivity|]. destruct (x <=? 16383); reflexivity.
Qed.

(* ---------- frame.MessageType.Class / IsPriority / IsEncrypted ---------- *)
(* the class tables of Gen.v are tabulated from the COMPILED code (all 256 inputs); the
   translated SOURCE agrees with them on every uint8 *)
Definition all_u8 : list N := map N.of_nat (seq 0 256).

Lemma all_u8_complete x : x < 256 -> In x all_u8.
Proof.
  intros H. unfold all_u8. apply in_map_iff. exists (N.to_nat x). split; [lia|].
  apply in_seq. lia.
Qed.

Theorem go_message_type_tables : forall t, t < 256 ->
  go_MessageType_Class t = Gen.msg_class t /\
  go_MessageType_IsPriority t = Gen.is_prio t /\
  go_MessageType_IsEncrypted t = Gen.is_enc t.
Proof.
  assert (H : forallb (fun t => (go_MessageType_Class t =? Gen.msg_class t) &&
                                Bool.eqb (go_MessageType_IsPriority t) (Gen.is_prio t) &&
                                Bool.eqb (go_MessageType_IsEncrypted t) (Gen.is_enc t)) all_u8 = true)
    by (vm_compute; reflexivity).
  intros t Ht. rewrite forallb_forall in H. specialize (H t (all_u8_complete t Ht)).
  apply andb_true_iff in H as [H H3]. apply andb_true_iff in H as [H1 H2].
  apply N.eqb_eq in H1. apply Bool.eqb_prop in H2. apply Bool.eqb_prop in H3. auto.
Qed.

Theorem all_translated :
  go_SequenceHandler_Check_translated = true /\ go_SequenceHandler_RolloverRequired_translated = true /\
  go_SequenceHandler_NextOut_translated = true /\ go_SequenceHandler_Reset_translated = true /\
  go_SequenceHandler_ResetIn_translated = true /\ go_SequenceHandler_ResetOut_translated = true /\
  go_TimeSequenceHandler_Check_translated = true /\ go_SwitchLabel_EncodedSize_translated = true /\
  go_MessageType_Class_translated = true /\ go_MessageType_IsPriority_translated = true /\
  go_MessageType_IsEncrypted_translated = true.
Proof. repeat split. Qed.

(* ---------- frame.FrameV1 header accessors (bytes at constant positions) ---------- *)
(* TTL is byte 1; ReduceTTL saturates at zero: the translated source equals the forwarding model's
   rule for every TTL and every amount, and in particular ReduceTTL(1) is Forward.reduce_ttl *)
From Verif Require Import Forward LinkFrame.

Theorem go_reduce_ttl_saturates : forall ttl by_, ttl < 256 -> by_ < 256 ->
  go_FrameV1_ReduceTTL ttl by_ = if by_ <? ttl then ttl - by_ else 0.
Proof.
  intros ttl b Ht Hb. unfold go_FrameV1_ReduceTTL. destruct (N.ltb_spec b ttl) as [H|H]; [|reflexivity].
  apply go_sub_small; [lia|]. change (2 ^ 8) with 256. exact Ht.
Qed.

Theorem go_reduce_ttl_is_model : forall ttl, ttl < 256 -> go_FrameV1_ReduceTTL ttl 1 = reduce_ttl ttl.
Proof.
  intros ttl Ht. rewrite go_reduce_ttl_saturates by (auto; reflexivity). unfold reduce_ttl. reflexivity.
Qed.

Theorem go_ttl_accessors : forall b v, go_FrameV1_TTL b = b /\ go_FrameV1_SetTTL b v = v.
Proof. intros. split; reflexivity. Qed.

(* flow flags: byte 2; setting a flag never clears another one and makes HasFlowFlag true *)
Theorem go_flow_flags : forall fc flag,
  go_FrameV1_HasFlowFlag (go_FrameV1_SetFlowFlag fc flag) flag = true /\
  (forall other, go_FrameV1_HasFlowFlag fc other = true -> go_FrameV1_HasFlowFlag (go_FrameV1_SetFlowFlag fc flag) other = true).
Proof.
  intros fc flag. unfold go_FrameV1_HasFlowFlag, go_FrameV1_SetFlowFlag. split.
  - apply N.eqb_eq. apply N.bits_inj. intros n. rewrite N.land_spec, N.lor_spec. destruct (N.testbit fc n), (N.testbit flag n); reflexivity.
  - intros other H. apply N.eqb_eq in H. apply N.eqb_eq. apply N.bits_inj. intros n.
    assert (Hn : N.testbit (N.land fc other) n = N.testbit other n) by (rewrite H; reflexivity).
    rewrite N.land_spec in Hn. rewrite N.land_spec, N.lor_spec.
    destruct (N.testbit fc n), (N.testbit flag n), (N.testbit other n); cbn in *; congruence.
Qed.

(* sequence numbers are stored big-endian in bytes 8..11 (frame) / 4..7 (link frame):
   the translated getter inverts the translated setter *)
Lemma be32_get_set n : n < 2 ^ 32 ->
  ((N.shiftr n 24 mod 256 * 256 + N.shiftr n 16 mod 256) * 256 + N.shiftr n 8 mod 256) * 256 + N.shiftr n 0 mod 256 = n.
Proof.
  intros Hn. rewrite !N.shiftr_div_pow2. change (2 ^ 0) with 1. change (2 ^ 8) with 256. change (2 ^ 16) with 65536. change (2 ^ 24) with 16777216.
  change (2 ^ 32) with 4294967296 in Hn. rewrite N.div_1_r.
  assert (E : n / 16777216 mod 256 = n / 16777216) by (apply N.mod_small; apply N.div_lt_upper_bound; lia).
  rewrite E. lia.
Qed.

Theorem go_frame_seq_roundtrip : forall a b c d n, n < 2 ^ 32 ->
  let '(a', b', c', d') := go_FrameV1_SetSequenceNum a b c d n in go_FrameV1_SequenceNum a' b' c' d' = n.
Proof. intros a b c d n Hn. unfold go_FrameV1_SetSequenceNum, go_FrameV1_SequenceNum. apply be32_get_set. exact Hn. Qed.

Theorem go_link_seq_roundtrip : forall a b c d n, n < 2 ^ 32 ->
  let '(a', b', c', d') := go_LinkFrame_SetSequenceNum a b c d n in go_LinkFrame_SequenceNum a' b' c' d' = n.
Proof. intros a b c d n Hn. unfold go_LinkFrame_SetSequenceNum, go_LinkFrame_SequenceNum. apply be32_get_set. exact Hn. Qed.

(* the link-frame model reads the sequence number at the same four bytes *)
Theorem go_link_seq_is_model : forall l0 l1 v r s0 s1 s2 s3 rest,
  seq_of (l0 :: l1 :: v :: r :: s0 :: s1 :: s2 :: s3 :: rest) = go_LinkFrame_SequenceNum s0 s1 s2 s3.
Proof. intros. unfold seq_of, go_LinkFrame_SequenceNum. cbn [skipn firstn]. unfold be_decode. cbn. lia. Qed.

Theorem accessors_translated :
  go_FrameV1_TTL_translated = true /\ go_FrameV1_SetTTL_translated = true /\ go_FrameV1_ReduceTTL_translated = true /\
  go_FrameV1_FlowControl_translated = true /\ go_FrameV1_HasFlowFlag_translated = true /\ go_FrameV1_SetFlowFlag_translated = true /\
  go_FrameV1_RecvRate_translated = true /\ go_FrameV1_MessageType_translated = true /\
  go_FrameV1_SequenceNum_translated = true /\ go_FrameV1_SetSequenceNum_translated = true /\
  go_LinkFrame_Length_translated = true /\ go_LinkFrame_Version_translated = true /\
  go_LinkFrame_SequenceNum_translated = true /\ go_LinkFrame_SetSequenceNum_translated = true.
Proof. repeat split. Qed.
