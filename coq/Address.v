(* Address.v — executable model of self-certifying addresses (m/address.go):
   makeAddressDigestData, makeAddressDigest, VerifyAddressKey, PublicAddress.VerifyAddress,
   tryToGenerateAddress (for one key pair), hex codec of Store/AddressFromStorage.
   Hash functions are a parameter: [H name] is the digest function of a known algorithm name,
   None for an unknown one.  Strings are byte lists, addresses 16-byte lists. *)
From Verif Require Import Prelude.

Record pubaddr := mkPub {
  a_ip : list N;        (* 16 bytes *)
  a_hash : list N;      (* hash algorithm name *)
  a_type : list N;      (* key type name *)
  a_key : list N;       (* public key bytes *)
  a_easing : N          (* uint64 *)
}.

Definition be64_ (x : N) : list N :=
  be32 (x / 4294967296) ++ be32 (x mod 4294967296).

(* [1, len(type), len16(key)] ++ type ++ key *)
Definition digest_data (ty key : list N) : list N :=
  [1; N.of_nat (length ty) mod 256] ++ be16 (N.of_nat (length key)) ++ ty ++ key.

(* what gets hashed: the data, followed by the big-endian easing value when it is non-zero *)
Definition digest_input (ty key : list N) (easing : N) : list N :=
  digest_data ty key ++ (if easing =? 0 then [] else be64_ easing).

Definition ed25519_name : list N := [69; 100; 50; 53; 53; 49; 57].     (* "Ed25519" *)

Definition in_fd00 (ip : list N) : bool := match ip with 253 :: _ => Nat.eqb (length ip) 16 | _ => false end.

Section Hash.
  Variable H : list N -> option (list N -> list N).

  (* VerifyAddressKey + VerifyAddress as repaired by fix D1 *)
  Definition verify_address (a : pubaddr) : res unit :=
    if negb (in_fd00 (a_ip a)) then Err 1                                  (* invalid ip address *)
    else match H (a_hash a) with
    | None => Err 2                                                        (* invalid hash algorithm *)
    | Some h =>
      if negb (bytes_eqb (a_type a) ed25519_name) then Err 3               (* unsupported key type *)
      else if negb (Nat.eqb (length (a_key a)) 32) then Err 4              (* invalid public key size *)
      else
        let d := h (digest_input (a_type a) (a_key a) (a_easing a)) in
        if Nat.ltb (length d) 16 then Err 5
        else if bytes_eqb (firstn 16 d) (a_ip a) then Ok tt else Err 6     (* key does not match address *)
    end.

  (* the function on the pinned tree: no validity checks; an unknown hash name dereferences a
     nil hasher; sizes beyond the length fields panic in makeAddressDigestData *)
  Definition verify_address_pinned (a : pubaddr) : res unit :=
    if negb (in_fd00 (a_ip a)) then Err 1
    else if Nat.eqb (length (a_hash a)) 0 then Err 2
    else if Nat.eqb (length (a_type a)) 0 then Err 3
    else if Nat.eqb (length (a_key a)) 0 then Err 4
    else match H (a_hash a) with
    | None => Panic
    | Some h =>
      if (255 <? N.of_nat (length (a_type a))) || (65535 <? N.of_nat (length (a_key a))) then Panic
      else
        let d := h (digest_input (a_type a) (a_key a) (a_easing a)) in
        if Nat.ltb (length d) 16 then Err 5
        else if bytes_eqb (firstn 16 d) (a_ip a) then Ok tt else Err 6
    end.

  (* the four entry points share one shape: verify, and only then create the stored record /
     session.  [known] = addresses with a stored record. *)
  Definition admit_identity (known : list (list N)) (a : pubaddr) : res (list (list N)) :=
    do _ <- verify_address a; Ok (a_ip a :: known).

  (* The store of address -> identity bindings (State.AddRouter / GetSession): an admitted
     identity is bound to ITS OWN address; an existing binding is never overwritten.  A gossip
     announcement presents a chain of hop identities, outermost first; parsing stops at the
     first one that is rejected, the ones before it stay admitted. *)
  Definition store := list (list N * pubaddr).
  Definition lookup_binding (st : store) (ip : list N) : option pubaddr :=
    match find (fun b => bytes_eqb (fst b) ip) st with Some b => Some (snd b) | None => None end.
  Definition admit_binding (st : store) (a : pubaddr) : res store :=
    do _ <- verify_address a;
    Ok (match lookup_binding st (a_ip a) with Some _ => st | None => (a_ip a, a) :: st end).
  Fixpoint admit_chain (st : store) (l : list pubaddr) : store * bool :=
    match l with
    | [] => (st, true)
    | a :: t => match admit_binding st a with Ok st' => admit_chain st' t | _ => (st, false) end
    end.

  (* ---------- generator: tryToGenerateAddress for one key pair ---------- *)
  Definition prefix := (list N * nat)%type.       (* 16 bytes, bit length *)
  Fixpoint bits_of_bytes (l : list N) : list bool :=
    match l with
    | [] => []
    | b :: t => map (fun i => N.testbit b i) [7;6;5;4;3;2;1;0] ++ bits_of_bytes t
    end.
  Definition prefix_has (p : prefix) (ip : list N) : bool :=
    Nat.eqb (length ip) 16 &&
    list_eqb Bool.eqb (firstn (snd p) (bits_of_bytes (fst p))) (firstn (snd p) (bits_of_bytes ip)).
  Definition internal_prefix : prefix := ([253;0;0;0;0;0;0;0;0;0;0;0;0;0;0;0], 112%nat).

  (* loops easing 0..maxe (fuel = maxe + 1 iterations) *)
  Fixpoint try_key (h : list N -> list N) (hname key : list N) (acc ign : list prefix) (easing : N) (fuel : nat)
    : option pubaddr :=
    match fuel with
    | O => None
    | S f =>
      let d := h (digest_input ed25519_name key easing) in
      if Nat.ltb (length d) 16 then None
      else
        let ip := firstn 16 d in
        if negb (in_fd00 ip) then try_key h hname key acc ign (easing + 1) f       (* fix D14: not a mycoria address *)
        else if prefix_has internal_prefix ip then None
        else if existsb (fun p => prefix_has p ip) ign then None
        else if existsb (fun p => prefix_has p ip) acc then Some (mkPub ip hname ed25519_name key easing)
        else try_key h hname key acc ign (easing + 1) f
    end.
End Hash.

(* ---------- hex codec used by Store / AddressFromStorage ---------- *)
Definition hex_digit (n : N) : N := if n <? 10 then 48 + n else 87 + n.          (* 0-9a-f *)
Definition hex_val (c : N) : option N :=
  if (48 <=? c) && (c <=? 57) then Some (c - 48)
  else if (97 <=? c) && (c <=? 102) then Some (c - 87)
  else if (65 <=? c) && (c <=? 70) then Some (c - 55)
  else None.
Fixpoint hex_encode (l : list N) : list N :=
  match l with [] => [] | b :: t => hex_digit (b / 16) :: hex_digit (b mod 16) :: hex_encode t end.
Fixpoint hex_decode (l : list N) : option (list N) :=
  match l with
  | [] => Some []
  | a :: b :: t =>
    match hex_val a, hex_val b, hex_decode t with
    | Some x, Some y, Some r => Some (x * 16 + y :: r)
    | _, _, _ => None
    end
  | _ => None
  end.
